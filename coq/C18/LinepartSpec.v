(* C18 — abstract specification, written from the property text:

     "Splitting a run of coordinate values against a visible range into successive line
      parts consumes every input point exactly once and always makes progress; every
      in-range point lies in the drawn portion of exactly one part, no out-of-range
      interior point is reported as drawn, and the stored cut/trim fractions reproduce,
      to the precision of their 16-bit encoding, where the line crosses the range
      boundary.  Joining parts never changes the total number of points covered."

   A part list is read as follows: part k starts at position pos_k = raw_0 + ... + raw_(k-1),
   covers (consumes) the points [pos_k, pos_k + raw_k) and draws [pos_k, pos_k + usr_k).

   Per input point the specification says
     Once   the point is inside the range (or there is no range): drawn by exactly one part;
     Never  the point is outside and no neighbour is inside ("interior" of an invisible run;
            this includes a lone point between two points on the other side): drawn by no part;
     Edge   the point is outside but a neighbour is inside: it may end a drawn line
            (as its clipped first or last point), the property leaves the count open.
   Per segment with exactly one end inside it gives the exact fraction of the segment,
   measured from the outside end, at which the line meets the range boundary.

   The only thing shared with the model file is the record types. *)
From Coq Require Import ZArith QArith Qround List Bool.
From MptV Require Import C18.LinepartModel.
Import ListNotations.
Local Open Scope Z_scope.
Local Open Scope bool_scope.

(* ---- points ---- *)
Definition inb (r : option range) (v : Q) : bool :=
  match r with
  | None => true
  | Some r => Qle_bool (rmin r) v && Qle_bool v (rmax r)
  end.

Inductive pclass : Type := Once | Never | Edge.

Definition nb (r : option range) (o : option Q) : bool :=
  match o with Some x => inb r x | None => false end.

Definition classify (r : option range) (prev : option Q) (v : Q) (next : option Q) : pclass :=
  if inb r v then Once else if nb r prev || nb r next then Edge else Never.

Fixpoint classes_from (r : option range) (prev : option Q) (l : list Q) : list pclass :=
  match l with
  | [] => []
  | v :: tl => classify r prev v (hd_error tl) :: classes_from r (Some v) tl
  end.
Definition spec_classes (r : option range) (data : list Q) : list pclass := classes_from r None data.

(* ---- boundary crossings ---- *)
(* the boundary the segment from the outside point [o] towards an inside point meets *)
Definition bound_of (r : range) (o : Q) : Q :=
  if Qle_bool (rmin r) o then rmax r else rmin r.
(* exact fraction t with  o + t * (v - o) == bound  *)
Definition cross (r : range) (o v : Q) : Q := ((bound_of r o - o) / (v - o))%Q.

Definition crossing (r : option range) (a b : Q) : option Q :=
  match r with
  | None => None
  | Some rg =>
    match inb r a, inb r b with
    | false, true => Some (cross rg a b)
    | true, false => Some (cross rg b a)
    | _, _ => None
    end
  end.
Fixpoint spec_cross (r : option range) (l : list Q) : list (option Q) :=
  match l with
  | a :: ((b :: _) as tl) => crossing r a b :: spec_cross r tl
  | _ => []
  end.

(* ---- 16-bit encoding of a fraction: floor of 65536 x clipped to the field ---- *)
Definition code_spec (x : Q) : Z := Z.min 65535 (Qfloor (x * (65536 # 1))).
Definition real_spec (c : Z) : Q := (c # 65536)%Q.
(* the encoder is defined on [0,1] and refuses (negative result) everything else *)
Definition code_total (x : Q) : option Z :=
  if Qle_bool 0 x && Qle_bool x 1 then Some (code_spec x) else None.

(* ---- reading a part list ---- *)
Definition zn (l : list Q) (i : Z) : Q := nth (Z.to_nat i) l (0 # 1)%Q.

Definition drawn_in (pos : Z) (p : part) (i : Z) : bool := (pos <=? i) && (i <? pos + usr p).

Fixpoint draw_count (pos : Z) (ps : list part) (i : Z) : Z :=
  match ps with
  | [] => 0
  | p :: tl => (if drawn_in pos p i then 1 else 0) + draw_count (pos + raw p) tl i
  end.

Fixpoint sum_raw (ps : list part) : Z :=
  match ps with [] => 0 | p :: tl => raw p + sum_raw tl end.
Fixpoint sum_usr (ps : list part) : Z :=
  match ps with [] => 0 | p :: tl => usr p + sum_usr tl end.

(* positions of the parts *)
Fixpoint placed (pos : Z) (ps : list part) : list (Z * part) :=
  match ps with [] => [] | p :: tl => (pos, p) :: placed (pos + raw p) tl end.

Definition inr (r : option range) (v : Q) : Prop := inb r v = true.

(* point i of [data] is outside and has no inside neighbour *)
Definition interior_out (r : option range) (data : list Q) (i : Z) : Prop :=
  ~ inr r (zn data i) /\
  (0 <= i - 1 -> ~ inr r (zn data (i - 1))) /\
  (i + 1 < zlen data -> ~ inr r (zn data (i + 1))).

(* what one part at the head of [from] ([len] points available) must look like *)
Record part_ok (r : option range) (from : list Q) (len : Z) (p : part) : Prop := {
  ok_progress : 1 <= raw p <= len;                                   (* consumes, and not more than there is *)
  ok_limit : raw p <= 65535 /\ usr p <= 65535;
  ok_usr : 0 <= usr p <= raw p + 1 /\ usr p <= len;
  ok_fields : 0 <= cut p <= 65535 /\ 0 <= trim p <= 65535;
  ok_inside_drawn : forall j, 0 <= j < raw p -> inr r (zn from j) -> j < usr p;
  ok_overhang : usr p = raw p + 1 -> ~ inr r (zn from (raw p));      (* a drawn point left to the next part is outside *)
  ok_drawn : forall j, 0 <= j < usr p ->
      inr r (zn from j)
      \/ (j = 0 /\ 2 <= usr p /\ inr r (zn from 1))                  (* clipped first point *)
      \/ (j = usr p - 1 /\ 2 <= usr p /\ inr r (zn from (usr p - 2)));   (* clipped last point *)
  ok_cut : match r with
           | None => cut p = 0
           | Some rg =>
             if (0 <? usr p) && negb (inb r (zn from 0))
             then cut p = code_spec (cross rg (zn from 0) (zn from 1))
             else cut p = 0
           end;
  ok_trim : match r with
            | None => trim p = 0
            | Some rg =>
              if (0 <? usr p) && negb (inb r (zn from (usr p - 1)))
              then trim p = code_spec (cross rg (zn from (usr p - 1)) (zn from (usr p - 2)))
              else trim p = 0
            end
}.

(* the whole list: every part is as required at its position *)
Definition parts_ok (r : option range) (data : list Q) (ps : list part) : Prop :=
  Forall (fun pp => part_ok r (zskip (fst pp) data) (zlen data - fst pp) (snd pp)) (placed 0 ps).
