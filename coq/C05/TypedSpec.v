(* C05/TypedSpec.v — what the property says, independent of any buffer mechanism.

   The specification is a DISCIPLINE on the chronological log of constructor and
   destructor calls (multiset discipline  live = inits - finis):

     * every token is initialised at most once                    ([EInit t _] only for a new t)
     * a copy constructor reads a live element                    ([EInit t (Some s)]: s live; no [EInitRaw])
     * a destructor is handed a live element, which dies          ([EFini t]: t live; no [EFiniBad])
     * between operations the elements stored in the buffers that some handle can
       reach are exactly the live tokens, each once               ([stored_ok])
     * when every handle is released nothing is live              ([stored_ok] with no buffer left)

   [monitor] is the executable form (run on the log of the IMPLEMENTATION by the
   correspondence check and on the log of the model by the theorems);
   [exactly_once] is the declarative reading proved equivalent in TypedMonitor.v. *)
From MptV Require Import Base.Mem C05.TypedModel.
Local Open Scope nat_scope.

Inductive viol :=
| VReinit (t : nat)               (* token initialised a second time *)
| VCopyFromDead (t s : nat)       (* copy source s is not live (finalised or unknown) *)
| VCopyFromRaw (t : nat)          (* copy source is no element at all *)
| VFiniNotLive (t : nat)          (* destructor on an element that is not live: destroyed twice *)
| VFiniBad (o : option nat)       (* destructor on a finalised element pattern / on raw memory *)
| VStoredBad                      (* a used element slot holds no constructed element *)
| VStoredDup (t : nat)            (* the same element bytes are stored twice (raw copy) *)
| VStoredDead (t : nat)           (* a stored element is not live *)
| VLost (t : nat)                 (* a live element is stored nowhere: it can never be destroyed *)
| VFault.                         (* memory error / leak reported by the sanitizer *)

Record mon := mkmon { mlive : list nat; mbound : nat }.
Definition mon0 : mon := mkmon [] 0.

Definition mem_nat (t : nat) (l : list nat) : bool := existsb (Nat.eqb t) l.
Fixpoint remove_nat (t : nat) (l : list nat) : list nat :=
  match l with
  | [] => []
  | x :: r => if t =? x then r else x :: remove_nat t r
  end.

Definition mon_event (m : mon) (ev : event) : mon + viol :=
  match ev with
  | EInit t None =>
    if t <? mbound m then inr (VReinit t) else inl (mkmon (t :: mlive m) (S t))
  | EInit t (Some s) =>
    if t <? mbound m then inr (VReinit t) else
    if mem_nat s (mlive m) then inl (mkmon (t :: mlive m) (S t)) else inr (VCopyFromDead t s)
  | EInitRaw t => inr (VCopyFromRaw t)
  | EFini t =>
    if mem_nat t (mlive m) then inl (mkmon (remove_nat t (mlive m)) (mbound m)) else inr (VFiniNotLive t)
  | EFiniBad o => inr (VFiniBad o)
  end.

(* chronological list of events *)
Fixpoint mon_events (m : mon) (evs : list event) : mon + viol :=
  match evs with
  | [] => inl m
  | ev :: r => match mon_event m ev with inl m' => mon_events m' r | inr v => inr v end
  end.

(* the log of the model is kept newest first *)
Fixpoint mon_log (l : list event) : mon + viol :=
  match l with
  | [] => inl mon0
  | ev :: r => match mon_log r with inl m => mon_event m ev | inr v => inr v end
  end.

(* tokens of the used element slots of all reachable buffers (each buffer once) *)
Fixpoint slot_tokens (sl : list slot) : option (list nat) :=
  match sl with
  | [] => Some []
  | STok t :: r => match slot_tokens r with Some l => Some (t :: l) | None => None end
  | _ :: _ => None
  end.

Fixpoint first_dup (l : list nat) : option nat :=
  match l with
  | [] => None
  | x :: r => if mem_nat x r then Some x else first_dup r
  end.
Fixpoint first_missing (l inl_ : list nat) : option nat :=
  match l with
  | [] => None
  | x :: r => if mem_nat x inl_ then first_missing r inl_ else Some x
  end.

Definition stored_ok (m : mon) (stored : list slot) : option viol :=
  match slot_tokens stored with
  | None => Some VStoredBad
  | Some ts =>
    match first_dup ts with
    | Some t => Some (VStoredDup t)
    | None =>
      match first_missing ts (mlive m) with
      | Some t => Some (VStoredDead t)
      | None =>
        match first_missing (mlive m) ts with
        | Some t => Some (VLost t)
        | None => None
        end
      end
    end
  end.

(* one observed operation: its events, then the element slots stored afterwards *)
Definition monitor_step (m : mon) (evs : list event) (stored : list slot) : mon + viol :=
  match mon_events m evs with
  | inr v => inr v
  | inl m' => match stored_ok m' stored with Some v => inr v | None => inl m' end
  end.

(* a whole observed history: per operation None = accepted; stops judging after the first violation *)
Fixpoint monitor (m : mon) (obs : list (option (list event * list slot))) : list (option viol) :=
  match obs with
  | [] => []
  | None :: _ => [Some VFault]
  | Some (evs, stored) :: r =>
    match monitor_step m evs stored with
    | inl m' => None :: monitor m' r
    | inr v => [Some v]
    end
  end.

(* ---------------------------------------------------------------- content traits without finaliser *)

(* Nothing is called (and nothing can be printed) when an element of such a type leaves the content
   of a buffer or when the caller drops a source element: the observed log holds constructor calls
   only.  The discipline that remains: every stored element is a live one, stored once; whatever
   else was live has been abandoned.  [monitor_step_nf] is [monitor_step] on the log completed by
   one [EFini] per abandoned element (TypedMonitor.v: monitor_step_nf_complete). *)
Definition keep_stored (ts live : list nat) : list nat := filter (fun t => mem_nat t ts) live.
Definition abandoned (ts live : list nat) : list nat := filter (fun t => negb (mem_nat t ts)) live.

Definition monitor_step_nf (m : mon) (evs : list event) (stored : list slot) : mon + viol :=
  match mon_events m evs with
  | inr v => inr v
  | inl m' =>
    match slot_tokens stored with
    | None => inr VStoredBad
    | Some ts =>
      match first_dup ts with
      | Some t => inr (VStoredDup t)
      | None =>
        match first_missing ts (mlive m') with
        | Some t => inr (VStoredDead t)
        | None => inl (mkmon (keep_stored ts (mlive m')) (mbound m'))
        end
      end
    end
  end.

Fixpoint monitor_nf (m : mon) (obs : list (option (list event * list slot))) : list (option viol) :=
  match obs with
  | [] => []
  | None :: _ => [Some VFault]
  | Some (evs, stored) :: r =>
    match monitor_step_nf m evs stored with
    | inl m' => None :: monitor_nf m' r
    | inr v => [Some v]
    end
  end.

(* the events of one observed operation completed by the abandon events *)
Definition complete_evs (m : mon) (evs : list event) (stored : list slot) : list event :=
  match mon_events m evs, slot_tokens stored with
  | inl m', Some ts => evs ++ map EFini (abandoned ts (mlive m'))
  | _, _ => evs
  end.

(* a whole observed history completed by the abandon events *)
Fixpoint complete_obs (m : mon) (obs : list (option (list event * list slot)))
  : list (option (list event * list slot)) :=
  match obs with
  | [] => []
  | None :: r => None :: r
  | Some (evs, stored) :: r =>
    Some (complete_evs m evs stored, stored) ::
    match monitor_step_nf m evs stored with inl m' => complete_obs m' r | inr _ => r end
  end.

(* ---------------------------------------------------------------- declarative reading *)

Definition is_init (t : nat) (ev : event) : bool :=
  match ev with EInit u _ => u =? t | EInitRaw u => u =? t | _ => false end.
Definition is_fini (t : nat) (ev : event) : bool :=
  match ev with EFini u => u =? t | _ => false end.
Definition n_init (t : nat) (l : list event) : nat := length (filter (is_init t) l).
Definition n_fini (t : nat) (l : list event) : nat := length (filter (is_fini t) l).
Definition live_in (l : list event) (t : nat) : Prop := n_init t l = 1 /\ n_fini t l = 0.

(* L is chronological *)
Record exactly_once (L : list event) : Prop := {
  eo_init_once : forall t, n_init t L <= 1;
  eo_fini_once : forall t, n_fini t L <= 1;
  eo_fini_live : forall L1 t L2, L = L1 ++ EFini t :: L2 -> live_in L1 t;
  eo_copy_live : forall L1 t s L2, L = L1 ++ EInit t (Some s) :: L2 -> live_in L1 s;
  eo_no_raw_fini : forall o, ~ In (EFiniBad o) L;
  eo_no_raw_copy : forall t, ~ In (EInitRaw t) L
}.

(* nothing stays alive: every initialised token has its (one, later) Fini *)
Definition all_finalised (L : list event) : Prop := forall t, n_init t L = n_fini t L.

(* the events of copy constructing the elements [srcs] one by one, first new token n0 (chronological) *)
Fixpoint copy_events (n0 : nat) (srcs : list nat) : list event :=
  match srcs with
  | [] => []
  | s :: r => EInit n0 (Some s) :: copy_events (S n0) r
  end.
