(* C05/TypedLoops.v — the element callbacks and the loops of TypedModel.v in closed form.
   Byte offsets are written k * sz; every lemma states the resulting slots, the
   effect on the specification monitor of the log, and that no Fault occurs. *)
From MptV Require Import Base.Mem C05.TypedModel C05.TypedSpec C05.TypedMonitor.
Local Open Scope nat_scope.

(* ---------------------------------------------------------------- arithmetic *)
Lemma mul_div sz n : 0 < sz -> n * sz / sz = n.
Proof. intros. apply Nat.div_mul. lia. Qed.
Lemma mul_mod sz n : 0 < sz -> (n * sz) mod sz = 0.
Proof. intros. apply Nat.mod_mul. lia. Qed.
Lemma aligned_form sz x : 0 < sz -> x mod sz = 0 -> x = x / sz * sz.
Proof. intros H M. rewrite Nat.mul_comm. apply Nat.div_exact; [lia|assumption]. Qed.
Lemma mul_le_div sz n x : 0 < sz -> n * sz <= x -> n <= x / sz.
Proof. intros H L. apply Nat.div_le_lower_bound; [lia|]. rewrite Nat.mul_comm. assumption. Qed.
Lemma div_mul_le sz x : 0 < sz -> x / sz * sz <= x.
Proof. intros H. rewrite Nat.mul_comm. apply Nat.mul_div_le. lia. Qed.
Lemma mul_lt_mono sz a b : 0 < sz -> (a * sz <? b * sz) = (a <? b).
Proof.
  intros H. destruct (Nat.ltb_spec a b); [apply Nat.ltb_lt; nia|apply Nat.ltb_ge; nia].
Qed.

(* ---------------------------------------------------------------- slots *)
Definition tok_of (s : slot) : list nat := match s with STok t => [t] | _ => [] end.
Definition toks (l : list slot) : list nat := flat_map tok_of l.
Definition all_tok (l : list slot) : Prop := l = map STok (toks l).

Lemma toks_map ts : toks (map STok ts) = ts.
Proof. induction ts; simpl; [reflexivity|]. unfold toks in *. simpl. f_equal. assumption. Qed.
Lemma toks_app a b : toks (a ++ b) = toks a ++ toks b.
Proof. unfold toks. apply flat_map_app. Qed.
Lemma all_tok_map ts : all_tok (map STok ts).
Proof. unfold all_tok. rewrite toks_map. reflexivity. Qed.
Lemma all_tok_nil : all_tok [].
Proof. reflexivity. Qed.
Lemma all_tok_app a b : all_tok a -> all_tok b -> all_tok (a ++ b).
Proof. unfold all_tok. intros Ha Hb. rewrite toks_app, map_app, <- Ha, <- Hb. reflexivity. Qed.
Lemma all_tok_cons_inv x l : all_tok (x :: l) -> (exists t, x = STok t) /\ all_tok l.
Proof.
  unfold all_tok, toks. simpl. destruct x as [|t|t]; simpl; intros H.
  - exfalso. destruct (flat_map tok_of l); discriminate.
  - inversion H as [H']. split; [exists t; reflexivity|]. rewrite <- H'. assumption.
  - exfalso. destruct (flat_map tok_of l); discriminate.
Qed.

Lemma all_tok_app_inv a b : all_tok (a ++ b) -> all_tok a /\ all_tok b.
Proof.
  induction a as [|x a IH]; simpl; intros H.
  - split; [apply all_tok_nil|assumption].
  - apply all_tok_cons_inv in H. destruct H as [[t ->] H]. apply IH in H. destruct H as [Ha Hb].
    split; [|assumption]. unfold all_tok, toks in *. simpl. f_equal. assumption.
Qed.

Lemma all_tok_firstn n l : all_tok l -> all_tok (firstn n l).
Proof. intros H. rewrite <- (firstn_skipn n l) in H. apply all_tok_app_inv in H. tauto. Qed.
Lemma all_tok_skipn n l : all_tok l -> all_tok (skipn n l).
Proof. intros H. rewrite <- (firstn_skipn n l) in H. apply all_tok_app_inv in H. tauto. Qed.

Lemma setnth_app {A} (P : list A) x y R : setnth (length P) y (P ++ x :: R) = P ++ y :: R.
Proof.
  induction P as [|p P IH]; [reflexivity|]. unfold setnth in *. simpl. f_equal. apply IH.
Qed.

Lemma nth_error_mid {A} (P : list A) x R : nth_error (P ++ x :: R) (length P) = Some x.
Proof. rewrite nth_error_app2 by lia. rewrite Nat.sub_diag. reflexivity. Qed.

(* ---------------------------------------------------------------- callbacks *)

Lemma fini_at_tok hf sz bsz n P t R c :
  0 < sz -> length P = n -> (n + 1) * sz <= bsz ->
  fini_at hf sz bsz (n * sz) (P ++ STok t :: R) c = Ok (P ++ dead hf t :: R, logev (EFini t) c).
Proof.
  intros Hs HP Hb. unfold fini_at.
  replace (n * sz + sz <=? bsz) with true by (symmetry; apply Nat.leb_le; nia).
  rewrite mul_mod, mul_div by assumption. simpl.
  subst n. rewrite nth_error_mid, setnth_app. reflexivity.
Qed.

Lemma construct_at_ok sz bsz n P x R src c :
  0 < sz -> length P = n -> (n + 1) * sz <= bsz ->
  construct_at sz bsz (n * sz) src (P ++ x :: R) c =
  Ok (P ++ STok (cnext c) :: R, mkctx (S (cnext c)) (cscript c) (init_event (cnext c) src :: clog c)).
Proof.
  intros Hs HP Hb. unfold construct_at.
  replace (n * sz + sz <=? bsz) with true by (symmetry; apply Nat.leb_le; nia).
  rewrite mul_mod, mul_div by assumption. simpl.
  replace (n <? length (P ++ x :: R)) with true
    by (symmetry; apply Nat.ltb_lt; rewrite app_length; simpl; lia).
  subst n. rewrite setnth_app. reflexivity.
Qed.

(* the next script entry: does the next library constructor call succeed? *)
Definition script_head (s : list bool) : bool := match s with false :: _ => false | _ => true end.
Definition script_tail (s : list bool) : list bool := match s with _ :: r => r | [] => [] end.

Lemma init_at_ok cf sz bsz n P x R src c :
  0 < sz -> length P = n -> (n + 1) * sz <= bsz ->
  (cf && match src with Some _ => true | None => false end) = false ->
  script_head (cscript c) = true ->
  init_at true cf sz bsz (n * sz) src (P ++ x :: R) c =
  Ok (P ++ STok (cnext c) :: R,
      mkctx (S (cnext c)) (script_tail (cscript c)) (init_event (cnext c) src :: clog c), true).
Proof.
  intros Hs HP Hb Hcf Hh. unfold init_at. cbn [negb]. rewrite Hcf.
  destruct c as [nx scr lg]. simpl in *. destruct scr as [|[|] r]; simpl in *; try discriminate.
  - rewrite construct_at_ok by assumption. reflexivity.
  - rewrite construct_at_ok by assumption. reflexivity.
Qed.

Lemma init_at_refused cf sz bsz off src sl c :
  (cf && match src with Some _ => true | None => false end) = false ->
  script_head (cscript c) = false ->
  init_at true cf sz bsz off src sl c =
  Ok (sl, mkctx (cnext c) (script_tail (cscript c)) (clog c), false).
Proof.
  intros Hcf Hh. unfold init_at. cbn [negb]. rewrite Hcf.
  destruct c as [nx scr lg]. simpl in *. destruct scr as [|[|] r]; simpl in *; try discriminate.
  reflexivity.
Qed.

Lemma init_at_copyfail sz bsz off x sl c :
  init_at true true sz bsz off (Some x) sl c = Ok (sl, c, false).
Proof. reflexivity. Qed.

(* traits without init function: the zero-filled slot is adopted as a new (empty) element; no
   script entry is consumed, whatever the source *)
Lemma init_at_noinit cf sz bsz n P x R src c :
  0 < sz -> length P = n -> (n + 1) * sz <= bsz ->
  init_at false cf sz bsz (n * sz) src (P ++ x :: R) c =
  Ok (P ++ STok (cnext c) :: R,
      mkctx (S (cnext c)) (cscript c) (init_event (cnext c) None :: clog c), true).
Proof.
  intros Hs HP Hb. unfold init_at. cbn [negb]. rewrite construct_at_ok by assumption. reflexivity.
Qed.

(* ---------------------------------------------------------------- monitor effect summaries *)

(* c' extends c by events the monitor accepts; [gone] tokens died, [new] tokens were born *)
Record mon_step (c : ctx) (m : mon) (c' : ctx) (m' : mon) (gone new : list nat) : Prop := {
  st_ok : mon_ok c' m';
  st_next : cnext c' = cnext c + length new;
  st_new : new = seq (cnext c) (length new);
  st_live : forall t, In t (mlive m') <-> (In t (mlive m) /\ ~ In t gone) \/ In t new
}.

Lemma mon_step_refl c m : mon_ok c m -> mon_step c m c m [] [].
Proof.
  intros H. split; simpl; auto. intros t. tauto.
Qed.

Lemma seq_snoc a n : seq a (S n) = seq a n ++ [a + n].
Proof. rewrite <- Nat.add_1_r. rewrite seq_app. simpl. reflexivity. Qed.

Lemma mon_step_trans c0 m0 c1 m1 c2 m2 g1 n1 g2 n2 :
  mon_step c0 m0 c1 m1 g1 n1 -> mon_step c1 m1 c2 m2 g2 n2 ->
  (forall t, In t g2 -> ~ In t n1) ->
  mon_step c0 m0 c2 m2 (g1 ++ g2) (n1 ++ n2).
Proof.
  intros [O1 N1 S1 L1] [O2 N2 S2 L2] D. split.
  - assumption.
  - rewrite app_length. lia.
  - rewrite app_length, seq_app, <- S1. f_equal. rewrite S2 at 1. f_equal. lia.
  - intros t. rewrite L2, L1, !in_app_iff. specialize (D t). tauto.
Qed.

Lemma mon_step_fini c m t :
  mon_ok c m -> In t (mlive m) ->
  exists m', mon_step c m (logev (EFini t) c) m' [t] [].
Proof.
  intros H I. eexists. split.
  - apply mon_ok_fini; eassumption.
  - simpl. lia.
  - reflexivity.
  - intros x. simpl. rewrite remove_nat_In by (apply (mon_ok_good _ _ H)). intuition congruence.
Qed.

Lemma mon_step_init c m src scr :
  mon_ok c m -> src_ok m src ->
  exists m', mon_step c m (mkctx (S (cnext c)) scr (init_event (cnext c) src :: clog c)) m' [] [cnext c].
Proof.
  intros H S. eexists. split.
  - apply mon_ok_init; eassumption.
  - simpl. lia.
  - reflexivity.
  - intros x. simpl. intuition congruence.
Qed.

(* a step that only touches the script *)
Lemma mon_step_script c m scr :
  mon_ok c m -> mon_step c m (mkctx (cnext c) scr (clog c)) m [] [].
Proof.
  intros [H B]. split; simpl; auto.
  - split; assumption.
  - intros t. tauto.
Qed.

Lemma mon_step_live_mono c m c' m' new s :
  mon_step c m c' m' [] new -> In s (mlive m) -> In s (mlive m').
Proof. intros [_ _ _ L] H. apply L. left. split; [assumption|intros []]. Qed.

(* ---------------------------------------------------------------- fini_loop *)

Lemma fini_loop_done hf fuel sz bsz base i lim sl c :
  lim <= i -> fini_loop hf fuel sz bsz base i lim sl c = Ok (sl, c).
Proof.
  intros H. destruct fuel; simpl; replace (i <? lim) with false by (symmetry; apply Nat.ltb_ge; lia);
    reflexivity.
Qed.

Lemma fini_loop_spec hf sz bsz bb :
  0 < sz ->
  forall ts fuel i P Q c m,
    length P = bb + i -> (bb + i + length ts) * sz <= bsz -> length ts <= fuel ->
    mon_ok c m -> NoDup ts -> incl ts (mlive m) ->
    exists c' m',
      fini_loop hf fuel sz bsz (bb * sz) (i * sz) ((i + length ts) * sz) (P ++ map STok ts ++ Q) c
      = Ok (P ++ map (dead hf) ts ++ Q, c')
      /\ mon_step c m c' m' ts [] /\ cscript c' = cscript c.
Proof.
  intros Hs. induction ts as [|t ts IH]; intros fuel i P Q c m HP Hb Hf Hm ND IN.
  - simpl. rewrite Nat.add_0_r, fini_loop_done by lia. exists c, m.
    split; [reflexivity|]. split; [apply mon_step_refl; assumption|reflexivity].
  - destruct fuel as [|f]; [simpl in Hf; lia|]. simpl length in *.
    simpl fini_loop. rewrite mul_lt_mono by assumption.
    replace (i <? i + S (length ts)) with true by (symmetry; apply Nat.ltb_lt; lia).
    replace (bb * sz + i * sz) with ((bb + i) * sz) by nia.
    simpl map. simpl app.
    rewrite fini_at_tok by (try assumption; nia). cbn [bind].
    inversion ND as [|? ? Ht ND']; subst.
    destruct (mon_step_fini c m t Hm) as [m1 S1]; [apply IN; left; reflexivity|].
    replace (i * sz + sz) with (S i * sz) by nia.
    replace ((i + S (length ts)) * sz) with ((S i + length ts) * sz) by nia.
    replace (P ++ dead hf t :: map STok ts ++ Q) with ((P ++ [dead hf t]) ++ map STok ts ++ Q)
      by (rewrite <- app_assoc; reflexivity).
    destruct (IH f (S i) (P ++ [dead hf t]) Q (logev (EFini t) c) m1) as (c' & m' & E & S2 & SC).
    + rewrite app_length. simpl. lia.
    + nia.
    + lia.
    + apply S1.
    + assumption.
    + intros x Hx. apply (st_live _ _ _ _ _ _ S1). left. split; [apply IN; right; assumption|].
      intros [->|[]]. contradiction.
    + exists c', m'. rewrite E. split; [rewrite <- app_assoc; reflexivity|]. split; [|assumption].
      pose proof (mon_step_trans _ _ _ _ _ _ _ _ _ _ S1 S2) as T. simpl in T. apply T. intros y _ [].
Qed.

(* ---------------------------------------------------------------- construct_loop *)

Lemma construct_loop_spec sz bsz :
  0 < sz ->
  forall G fuel i P Q c m,
    length P = i -> (i + length G) * sz <= bsz -> length G <= fuel -> mon_ok c m ->
    exists c' m',
      construct_loop fuel sz bsz (i * sz) ((i + length G) * sz) (P ++ G ++ Q) c
      = Ok (P ++ map STok (seq (cnext c) (length G)) ++ Q, c')
      /\ mon_step c m c' m' [] (seq (cnext c) (length G)) /\ cscript c' = cscript c.
Proof.
  intros Hs. induction G as [|x G IH]; intros fuel i P Q c m HP Hb Hf Hm.
  - simpl. rewrite Nat.add_0_r. exists c, m. split.
    + destruct fuel; simpl; rewrite Nat.ltb_irrefl; reflexivity.
    + split; [apply mon_step_refl; assumption|reflexivity].
  - destruct fuel as [|f]; [simpl in Hf; lia|]. simpl length in *.
    simpl construct_loop. rewrite mul_lt_mono by assumption.
    replace (i <? i + S (length G)) with true by (symmetry; apply Nat.ltb_lt; lia).
    simpl app. rewrite construct_at_ok by (try assumption; nia). cbn [bind].
    destruct (mon_step_init c m None (cscript c) Hm I) as [m1 S1].
    replace (i * sz + sz) with (S i * sz) by nia.
    replace ((i + S (length G)) * sz) with ((S i + length G) * sz) by nia.
    replace (P ++ STok (cnext c) :: G ++ Q) with ((P ++ [STok (cnext c)]) ++ G ++ Q)
      by (rewrite <- app_assoc; reflexivity).
    destruct (IH f (S i) (P ++ [STok (cnext c)]) Q
                (mkctx (S (cnext c)) (cscript c) (init_event (cnext c) None :: clog c)) m1)
      as (c' & m' & E & S2 & SC);
      [rewrite app_length; simpl; lia|nia|lia|apply S1|].
    exists c', m'. rewrite E. simpl in *. split; [rewrite <- app_assoc; reflexivity|]. split; [|assumption].
    pose proof (mon_step_trans _ _ _ _ _ _ _ _ _ _ S1 S2) as T. simpl in T. apply T. intros y [] .
Qed.

(* ---------------------------------------------------------------- gap_loop *)

(* k elements constructed, then either the end (k = n) or a refused constructor *)
Lemma gap_loop_spec hi sz bsz :
  0 < sz ->
  forall G fuel i P Q c m,
    length P = i -> (i + length G) * sz <= bsz -> length G <= fuel -> mon_ok c m ->
    exists k c' m' ok,
      gap_loop hi fuel sz bsz (i * sz) ((i + length G) * sz) (P ++ G ++ Q) c
      = Ok (P ++ map STok (seq (cnext c) k) ++ skipn k G ++ Q, c', (i + k) * sz, ok)
      /\ k <= length G /\ (ok = true -> k = length G) /\ (ok = false -> k < length G)
      /\ mon_step c m c' m' [] (seq (cnext c) k).
Proof.
  intros Hs. induction G as [|x G IH]; intros fuel i P Q c m HP Hb Hf Hm.
  - simpl. rewrite Nat.add_0_r. exists 0, c, m, true. split.
    + destruct fuel; simpl; rewrite Nat.ltb_irrefl; rewrite Nat.add_0_r; reflexivity.
    + split; [simpl; lia|]. split; [reflexivity|]. split; [discriminate|]. apply mon_step_refl. assumption.
  - destruct fuel as [|f]; [simpl in Hf; lia|]. simpl length in *.
    simpl gap_loop. rewrite mul_lt_mono by assumption.
    replace (i <? i + S (length G)) with true by (symmetry; apply Nat.ltb_lt; lia).
    simpl app.
    (* the continuation after the element at this position has been constructed / adopted *)
    assert (CONT : forall scr,
      exists k c' m' ok,
        gap_loop hi f sz bsz (i * sz + sz) ((i + S (length G)) * sz) (P ++ STok (cnext c) :: G ++ Q)
          (mkctx (S (cnext c)) scr (init_event (cnext c) None :: clog c))
        = Ok (P ++ map STok (seq (cnext c) k) ++ skipn k (x :: G) ++ Q, c', (i + k) * sz, ok)
        /\ k <= S (length G) /\ (ok = true -> k = S (length G)) /\ (ok = false -> k < S (length G))
        /\ mon_step c m c' m' [] (seq (cnext c) k)).
    { intros scr.
      destruct (mon_step_init c m None scr Hm I) as [m1 S1].
      replace (i * sz + sz) with (S i * sz) by nia.
      replace ((i + S (length G)) * sz) with ((S i + length G) * sz) by nia.
      replace (P ++ STok (cnext c) :: G ++ Q) with ((P ++ [STok (cnext c)]) ++ G ++ Q)
        by (rewrite <- app_assoc; reflexivity).
      destruct (IH f (S i) (P ++ [STok (cnext c)]) Q
                  (mkctx (S (cnext c)) scr (init_event (cnext c) None :: clog c)) m1)
        as (k & c' & m' & ok & E & K1 & K2 & K3 & S2);
        [rewrite app_length; simpl; lia|nia|lia|apply S1|].
      exists (S k), c', m', ok. rewrite E. simpl in *. split.
      * rewrite <- app_assoc. simpl. replace (sz + (i + k) * sz) with ((i + S k) * sz) by nia. reflexivity.
      * split; [lia|]. split; [intros H; rewrite K2 by assumption; reflexivity|].
        split; [intros H; specialize (K3 H); lia|].
        pose proof (mon_step_trans _ _ _ _ _ _ _ _ _ _ S1 S2) as T. simpl in T. apply T. intros y []. }
    destruct hi.
    + destruct (script_head (cscript c)) eqn:SH.
      * rewrite init_at_ok by (try assumption; try reflexivity; nia). cbn [bind]. apply CONT.
      * rewrite init_at_refused by (try assumption; reflexivity). cbn [bind].
        exists 0, (mkctx (cnext c) (script_tail (cscript c)) (clog c)), m, false. simpl.
        rewrite Nat.add_0_r. split; [reflexivity|]. split; [lia|]. split; [discriminate|]. split; [lia|].
        apply mon_step_script. assumption.
    + rewrite init_at_noinit by (try assumption; nia). cbn [bind]. apply CONT.
Qed.

(* without init function the gap is always filled completely *)
Lemma gap_loop_noinit_ok fuel sz bsz off lim sl c sl' c' reached ok :
  gap_loop false fuel sz bsz off lim sl c = Ok (sl', c', reached, ok) -> ok = true.
Proof.
  revert off sl c. induction fuel as [|f IH]; intros off sl c; simpl.
  - destruct (off <? lim); [discriminate|]. intros [= _ _ _ <-]. reflexivity.
  - destruct (off <? lim); [|intros [= _ _ _ <-]; reflexivity].
    unfold init_at. cbn [negb].
    destruct (construct_at sz bsz off None sl c) as [[sl1 c1]| |]; cbn [bind]; try discriminate.
    apply IH.
Qed.

(* ---------------------------------------------------------------- copy_loop *)

Definition srcs_ok (m : mon) (src : option (list slot)) (k n : nat) : Prop :=
  match src with
  | None => True
  | Some s => forall j, j < n -> exists t, nth_error s (k + j) = Some (STok t) /\ In t (mlive m)
  end.

Lemma copy_loop_spec hi cf sz bsz src :
  0 < sz ->
  forall G fuel i k0 count P Q c m,
    length P = i -> (i + length G) * sz <= bsz -> length G <= fuel -> mon_ok c m ->
    srcs_ok m src k0 (length G) ->
    exists k c' m' count' failed,
      copy_loop hi cf fuel sz bsz (i * sz) ((i + length G) * sz) k0 src count (P ++ G ++ Q) c
      = Ok (P ++ map STok (seq (cnext c) k) ++ skipn k G ++ Q, c', count', failed)
      /\ k <= length G
      /\ (failed = None -> k = length G)
      /\ (forall p, failed = Some p -> p = (i + k) * sz /\ k < length G)
      /\ mon_step c m c' m' [] (seq (cnext c) k).
Proof.
  intros Hs. induction G as [|x G IH]; intros fuel i k0 count P Q c m HP Hb Hf Hm HS.
  - simpl. rewrite Nat.add_0_r. exists 0, c, m, count, None. split.
    + destruct fuel; simpl; rewrite Nat.ltb_irrefl; reflexivity.
    + split; [simpl; lia|]. split; [reflexivity|]. split; [discriminate|]. apply mon_step_refl. assumption.
  - destruct fuel as [|f]; [simpl in Hf; lia|]. simpl length in *.
    simpl copy_loop. rewrite mul_lt_mono by assumption.
    replace (i <? i + S (length G)) with true by (symmetry; apply Nat.ltb_lt; lia).
    simpl app.
    (* the continuation after a successful construction (copy or default) at this position *)
    assert (CONT : forall c1 m1 scr ev cnt,
      mon_step c m (mkctx (S (cnext c)) scr (ev :: clog c)) m1 [] [cnext c] ->
      c1 = mkctx (S (cnext c)) scr (ev :: clog c) ->
      exists k c' m' count' failed,
        copy_loop hi cf f sz bsz (i * sz + sz) ((i + S (length G)) * sz) (S k0) src cnt
          (P ++ STok (cnext c) :: G ++ Q) c1
        = Ok (P ++ map STok (seq (cnext c) k) ++ skipn k (x :: G) ++ Q, c', count', failed)
        /\ k <= S (length G)
        /\ (failed = None -> k = S (length G))
        /\ (forall p, failed = Some p -> p = (i + k) * sz /\ k < S (length G))
        /\ mon_step c m c' m' [] (seq (cnext c) k)).
    { intros c1 m1 scr ev cnt S1 ->.
      replace (i * sz + sz) with (S i * sz) by nia.
      replace ((i + S (length G)) * sz) with ((S i + length G) * sz) by nia.
      replace (P ++ STok (cnext c) :: G ++ Q) with ((P ++ [STok (cnext c)]) ++ G ++ Q)
        by (rewrite <- app_assoc; reflexivity).
      destruct (IH f (S i) (S k0) cnt (P ++ [STok (cnext c)]) Q (mkctx (S (cnext c)) scr (ev :: clog c)) m1)
        as (k & c' & m' & count' & failed & E & K1 & K2 & K3 & S2);
        [rewrite app_length; simpl; lia|nia|lia|apply S1| |].
      { destruct src as [s|]; unfold srcs_ok in *; [|exact I]. intros j Hj.
        destruct (HS (S j)) as (t & Ht & Lt); [lia|]. exists t.
        replace (S k0 + j) with (k0 + S j) by lia. split; [assumption|].
        eapply mon_step_live_mono; eassumption. }
      exists (S k), c', m', count', failed. rewrite E. simpl in *. split.
      - rewrite <- app_assoc. reflexivity.
      - split; [lia|]. split; [intros H; rewrite K2 by assumption; reflexivity|].
        split.
        + intros p H. destruct (K3 p H) as [-> K]. split; [nia|lia].
        + pose proof (mon_step_trans _ _ _ _ _ _ _ _ _ _ S1 S2) as T. simpl in T. apply T. intros y []. }
    (* the default construction branch, from a context c1 that differs from c only in the script *)
    assert (DFLT : forall scr,
      exists k c' m' count' failed,
        (do '(sl2, c2, ok) <- init_at hi false sz bsz (i * sz) None (P ++ x :: G ++ Q)
                                (mkctx (cnext c) scr (clog c));
         if ok then copy_loop hi cf f sz bsz (i * sz + sz) ((i + S (length G)) * sz) (S k0) src count sl2 c2
         else Ok (sl2, c2, count, Some (i * sz)))
        = Ok (P ++ map STok (seq (cnext c) k) ++ skipn k (x :: G) ++ Q, c', count', failed)
        /\ k <= S (length G)
        /\ (failed = None -> k = S (length G))
        /\ (forall p, failed = Some p -> p = (i + k) * sz /\ k < S (length G))
        /\ mon_step c m c' m' [] (seq (cnext c) k)).
    { intros scr. destruct hi.
      - destruct (script_head scr) eqn:SH.
        + rewrite init_at_ok by (try assumption; try reflexivity; nia). cbn [bind]. simpl cnext. simpl clog.
          destruct (mon_step_init c m None (script_tail scr) Hm I) as [m1 S1].
          eapply CONT; [exact S1|reflexivity].
        + rewrite init_at_refused by (try assumption; reflexivity). cbn [bind]. simpl.
          exists 0, (mkctx (cnext c) (script_tail scr) (clog c)), m, count, (Some (i * sz)). simpl.
          split; [reflexivity|]. split; [lia|]. split; [discriminate|]. split.
          * intros p [= <-]. split; [nia|lia].
          * apply mon_step_script. assumption.
      - rewrite init_at_noinit by (try assumption; nia). cbn [bind]. simpl cnext. simpl clog. simpl cscript.
        destruct (mon_step_init c m None scr Hm I) as [m1 S1].
        eapply CONT; [exact S1|reflexivity]. }
    destruct src as [s|] eqn:SRC.
    + (* with source data *)
      destruct (HS 0) as (t & Ht & Lt); [lia|]. rewrite Nat.add_0_r in Ht. rewrite Ht.
      destruct hi.
      2:{ (* no init function: the source is not looked at *)
          rewrite init_at_noinit by (try assumption; nia). cbn [bind].
          destruct (mon_step_init c m None (cscript c) Hm I) as [m1 S1].
          eapply CONT; [exact S1|reflexivity]. }
      destruct cf.
      * rewrite init_at_copyfail. cbn [bind].
        destruct c as [nx scr lg]. apply (DFLT scr).
      * destruct (script_head (cscript c)) eqn:SH.
        -- rewrite init_at_ok by (try assumption; try reflexivity; nia). cbn [bind].
           destruct (mon_step_init c m (Some (STok t)) (script_tail (cscript c)) Hm Lt) as [m1 S1].
           eapply CONT; [exact S1|reflexivity].
        -- rewrite init_at_refused by (try assumption; reflexivity). cbn [bind].
           apply (DFLT (script_tail (cscript c))).
    + (* no source data: default construction only *)
      cbn [bind]. destruct c as [nx scr lg]. apply (DFLT scr).
Qed.

(* ---------------------------------------------------------------- memmove / memset *)

Lemma firstn_exact {A} (a b : list A) n : length a = n -> firstn n (a ++ b) = a.
Proof.
  intros <-. replace (length a) with (length a + 0) by lia. rewrite firstn_app_2. simpl. apply app_nil_r.
Qed.
Lemma skipn_exact {A} (a b : list A) n : length a = n -> skipn n (a ++ b) = b.
Proof. intros <-. rewrite skipn_app, skipn_all, Nat.sub_diag. reflexivity. Qed.

Lemma move_slots_spec sz bsz d s n sl :
  0 < sz -> (d + n) * sz <= bsz -> (s + n) * sz <= bsz ->
  s + n <= length sl -> d + n <= length sl ->
  move_slots sz bsz (d * sz) (s * sz) (n * sz) sl
  = Ok (firstn d sl ++ firstn n (skipn s sl) ++ skipn (d + n) sl).
Proof.
  intros Hs H1 H2 H3 H4. unfold move_slots.
  destruct n as [|n'].
  - simpl. rewrite Nat.add_0_r, firstn_skipn. reflexivity.
  - set (n := S n') in *.
    replace (n * sz =? 0) with false by (symmetry; apply Nat.eqb_neq; nia).
    replace (d * sz + n * sz <=? bsz) with true by (symmetry; apply Nat.leb_le; nia).
    replace (s * sz + n * sz <=? bsz) with true by (symmetry; apply Nat.leb_le; nia).
    rewrite !mul_mod, !mul_div by assumption. simpl.
    replace (s + n <=? length sl) with true by (symmetry; apply Nat.leb_le; lia).
    replace (d + n <=? length sl) with true by (symmetry; apply Nat.leb_le; lia).
    reflexivity.
Qed.

Lemma move_slots_zero sz bsz d s sl : move_slots sz bsz d s 0 sl = Ok sl.
Proof. reflexivity. Qed.
