(* C05/TypedStep.v — every operation of the model preserves the invariants and never faults. *)
From MptV Require Import Base.Mem C05.TypedModel C05.TypedSpec C05.TypedMonitor C05.TypedLoops C05.TypedOps
  C05.TypedSet C05.TypedWorld.
Local Open Scope nat_scope.

Definition winv (e : env) (nh : nat) (w : world) : Prop :=
  (exists m, hinv e w m) /\ rinv w /\ length (whnd w) = nh.

Definition step_total (e : env) (nh : nat) (w : world) (r : res (world * out)) : Prop :=
  exists w' o, r = Ok (w', o) /\ winv e nh w'.

Lemma refs_hput w id ob c j :
  id < length (wheap w) -> refs (hput w id ob c) j = if j =? id then option_map bref ob else refs w j.
Proof. intros H. unfold refs. rewrite hget_hput by assumption. destruct (j =? id); reflexivity. Qed.

Lemma refs_some w id b : hget w id = Some b -> refs w id = Some (bref b).
Proof. intros H. unfold refs. rewrite H. reflexivity. Qed.

Lemma hinv_set_hnd e w m h v : hinv e w m -> hinv e (set_hnd w h v) m.
Proof. intros [A B C D E]. split; assumption. Qed.

(* ---------------------------------------------------------------- one-buffer operations *)

Lemma on_local_total e nh w h f :
  env_ok e -> winv e nh w -> local_total e f -> step_total e nh w (on_local w h f).
Proof.
  intros EO ((m & HI) & RI & LH) LT. unfold on_local, on_buf.
  destruct (handle w h) as [id|] eqn:HH.
  2:{ exists w, OSkip. split; [reflexivity|]. split; [eauto|]. split; assumption. }
  destruct (rinv_handle _ _ _ RI HH) as (b & HB & RB). rewrite HB.
  destruct (LT b (wctx w) m (hinv_pre e w m id b EO HI HB)) as (b' & c' & m' & o & E & L).
  rewrite E. cbn [bind]. exists (hput w id (Some b') c'), o. split; [reflexivity|].
  pose proof (hget_lt _ _ _ HB) as LTid.
  split; [exists m'; eapply hinv_local; eassumption|]. split; [|assumption].
  eapply rinv_same_refs; [eassumption|reflexivity|].
  intros j. rewrite refs_hput by assumption. destruct (Nat.eqb_spec j id) as [->|]; [|reflexivity].
  rewrite (refs_some _ _ _ HB). simpl. f_equal. destruct L as [(S & _) _ _ _ _ _ _]. assumption.
Qed.

(* ---------------------------------------------------------------- release of a handle *)

Lemma handle_set_hnd w h v : h < length (whnd w) -> handle (set_hnd w h v) h = v.
Proof.
  intros H. unfold handle, set_hnd. simpl. rewrite nth_error_setnth, Nat.eqb_refl by assumption. reflexivity.
Qed.

(* set the handle h (which holds hid) to v and drop the reference on hid *)
Lemma drop_ref e nh w m h hid b v :
  env_ok e -> hinv e w m -> length (whnd w) = nh -> h < nh ->
  handle w h = Some hid -> hget w hid = Some b -> 1 <= bref b ->
  (* reference counts are right except that the new value v is not counted yet *)
  (forall id, match refs w id with
              | Some r => r = cnt w id + (if onat_dec v (Some id) then 1 else 0) /\ 1 <= r
              | None => cnt w id = 0 /\ v <> Some id
              end) ->
  v <> Some hid ->
  exists w', unref e (set_hnd w h v) hid = Ok w' /\ winv e nh w' /\ handle w' h = v.
Proof.
  intros EO HI LH Hh HH HB RB RI NV.
  destruct (unref_ok e (set_hnd w h v) m hid b EO (hinv_set_hnd _ _ _ h v HI) HB RB)
    as (w' & m' & E & HI' & WH & WL & OTH & AT).
  exists w'. split; [assumption|]. split.
  - split; [eauto|]. split.
    + intros id. unfold cnt. rewrite WH. fold (cnt (set_hnd w h v) id).
      pose proof (cnt_set_hnd w h v id ltac:(lia)) as C. rewrite HH in C.
      specialize (RI id).
      destruct (Nat.eq_dec id hid) as [->|N].
      * unfold refs. rewrite AT. rewrite (refs_some _ _ _ HB) in RI. cbn [option_map] in RI.
        destruct (onat_dec (Some hid) (Some hid)); [|congruence].
        destruct (onat_dec v (Some hid)); [contradiction|].
        destruct (Nat.eqb_spec (bref b) 1); simpl; lia.
      * unfold refs. rewrite OTH by assumption. change (hget (set_hnd w h v) id) with (hget w id).
        fold (refs w id).
        destruct (onat_dec (Some hid) (Some id)) as [X|X]; [inversion X; congruence|].
        destruct (refs w id); destruct (onat_dec v (Some id)); try lia. destruct RI. contradiction.
    + rewrite WH. rewrite set_hnd_len by lia. assumption.
  - unfold handle. rewrite WH. fold (handle (set_hnd w h v) h). apply handle_set_hnd. lia.
Qed.

Lemma rinv_relax w v : rinv w -> v = None ->
  forall id, match refs w id with
             | Some r => r = cnt w id + (if onat_dec v (Some id) then 1 else 0) /\ 1 <= r
             | None => cnt w id = 0 /\ v <> Some id
             end.
Proof.
  intros R -> id. specialize (R id). destruct (refs w id); destruct (onat_dec None (Some id)); try discriminate.
  - lia.
  - split; [assumption|discriminate].
Qed.

Lemma release_total e nh w h :
  env_ok e -> winv e nh w -> h < nh ->
  exists w' o, array_clone e w h None = Ok (w', o) /\ winv e nh w' /\ handle w' h = None.
Proof.
  intros EO ((m & HI) & RI & LH) Hh. unfold array_clone.
  destruct (handle w h) as [hid|] eqn:HH.
  - destruct (rinv_handle _ _ _ RI HH) as (b & HB & RB).
    destruct (drop_ref e nh w m h hid b None EO HI LH Hh HH HB RB (rinv_relax w None RI eq_refl))
      as (w' & E & WI & HN); [discriminate|].
    rewrite E. cbn [bind]. eauto 6.
  - exists (set_hnd w h None), (ONum 0). split; [reflexivity|]. split.
    + split; [exists m; apply hinv_set_hnd; assumption|]. split.
      * intros id. change (refs (set_hnd w h None) id) with (refs w id).
        pose proof (cnt_set_hnd w h None id ltac:(lia)) as C. rewrite HH in C.
        destruct (onat_dec None (Some id)); [discriminate|]. replace (cnt (set_hnd w h None) id) with (cnt w id) by lia.
        apply RI.
      * rewrite set_hnd_len by lia. assumption.
    + apply handle_set_hnd. lia.
Qed.

(* ---------------------------------------------------------------- sharing: mpt_array_clone(h, g) *)

Lemma clone_total e nh w h g :
  env_ok e -> winv e nh w -> h < nh -> g < nh ->
  step_total e nh w (match handle w g with None => Ok (w, OSkip) | Some _ => array_clone e w h (Some g) end).
Proof.
  intros EO WI Hh Hg. pose proof WI as ((m & HI) & RI & LH).
  destruct (handle w g) as [sid|] eqn:HG.
  2:{ exists w, OSkip. split; [reflexivity|assumption]. }
  unfold array_clone. rewrite HG.
  destruct (rinv_handle _ _ _ RI HG) as (sb & HS & RS).
  destruct (handle w h) as [hid|] eqn:HH.
  - destruct (Nat.eqb_spec sid hid) as [->|NE].
    { exists w, (ONum 0). split; [reflexivity|assumption]. }
    rewrite HS.
    destruct (rinv_handle _ _ _ RI HH) as (hb & HB & RB). rewrite HB.
    destruct (negb (okind_eqb (btr sb) (btr hb))).
    { exists w, (OErr BadType). split; [reflexivity|assumption]. }
    unfold addref. rewrite HS. cbn [bind].
    pose proof (hget_lt _ _ _ HS) as LTs.
    set (w1 := hput w sid (Some (with_ref sb (S (bref sb)))) (wctx w)).
    assert (HI1 : hinv e w1 m) by (apply hinv_ref; assumption).
    assert (HB1 : hget w1 hid = Some hb).
    { unfold w1. rewrite hget_hput_ne by (auto; congruence). assumption. }
    destruct (drop_ref e nh w1 m h hid hb (Some sid) EO HI1 LH Hh HH HB1 RB) as (w' & E & WI' & _).
    + intros id. unfold w1. rewrite refs_hput by assumption. rewrite cnt_hput.
      specialize (RI id). destruct (Nat.eqb_spec id sid) as [->|N].
      * rewrite (refs_some _ _ _ HS) in RI. cbn [option_map] in RI. cbn [option_map bref with_ref]. destruct (onat_dec (Some sid) (Some sid)); [lia|congruence].
      * destruct (onat_dec (Some sid) (Some id)) as [X|X]; [inversion X; congruence|].
        destruct (refs w id); [lia|]. split; [assumption|congruence].
    + congruence.
    + rewrite E. cbn [bind]. exists w', (ONum 3). split; [reflexivity|assumption].
  - rewrite HS. unfold addref. rewrite HS. cbn [bind].
    pose proof (hget_lt _ _ _ HS) as LTs.
    exists (set_hnd (hput w sid (Some (with_ref sb (S (bref sb)))) (wctx w)) h (Some sid)), (ONum 1).
    split; [reflexivity|]. split; [exists m; apply hinv_set_hnd, hinv_ref; assumption|]. split.
    + intros id.
      change (refs (set_hnd (hput w sid (Some (with_ref sb (S (bref sb)))) (wctx w)) h (Some sid)) id)
        with (refs (hput w sid (Some (with_ref sb (S (bref sb)))) (wctx w)) id).
      rewrite refs_hput by assumption.
      pose proof (cnt_set_hnd (hput w sid (Some (with_ref sb (S (bref sb)))) (wctx w)) h (Some sid) id ltac:(simpl; lia)) as C.
      change (handle (hput w sid (Some (with_ref sb (S (bref sb)))) (wctx w)) h) with (handle w h) in C.
      rewrite HH, cnt_hput in C. destruct (onat_dec None (Some id)); [discriminate|].
      specialize (RI id). destruct (Nat.eqb_spec id sid) as [->|N].
      * rewrite (refs_some _ _ _ HS) in RI. cbn [option_map] in RI. cbn [option_map bref with_ref]. destruct (onat_dec (Some sid) (Some sid)); [lia|congruence].
      * destruct (onat_dec (Some sid) (Some id)) as [X|X]; [inversion X; congruence|].
        destruct (refs w id); lia.
    + rewrite set_hnd_len by (simpl; lia). assumption.
Qed.

(* ---------------------------------------------------------------- a new buffer for a handle *)

Lemma refs_alloc e w len i n tr j :
  refs (fst (alloc e w len i n tr)) j = if j =? length (wheap w) then Some 1 else refs w j.
Proof. unfold refs. rewrite hget_alloc. destruct (j =? length (wheap w)); reflexivity. Qed.

Lemma snd_alloc e w len i n tr : snd (alloc e w len i n tr) = length (wheap w).
Proof. reflexivity. Qed.

(* attach the fresh buffer nid (one reference, not yet counted) to the empty handle h *)
Lemma attach_fresh e nh w m h nid :
  hinv e w m -> length (whnd w) = nh -> h < nh -> handle w h = None ->
  (forall id, match refs w id with
              | Some r => r = cnt w id + (if id =? nid then 1 else 0) /\ 1 <= r
              | None => cnt w id = 0 /\ id <> nid
              end) ->
  winv e nh (set_hnd w h (Some nid)).
Proof.
  intros HI LH Hh HH RI. split; [exists m; apply hinv_set_hnd; assumption|]. split.
  - intros id. change (refs (set_hnd w h (Some nid)) id) with (refs w id).
    pose proof (cnt_set_hnd w h (Some nid) id ltac:(lia)) as C. rewrite HH in C.
    destruct (onat_dec None (Some id)); [discriminate|]. specialize (RI id).
    destruct (onat_dec (Some nid) (Some id)) as [X|X].
    + inversion X; subst. rewrite Nat.eqb_refl in RI. destruct (refs w id); [lia|]. destruct RI; congruence.
    + destruct (Nat.eqb_spec id nid); [congruence|]. destruct (refs w id); lia.
  - rewrite set_hnd_len by lia. assumption.
Qed.

Lemma rinv_beyond w id : rinv w -> length (wheap w) <= id -> cnt w id = 0.
Proof. intros R H. specialize (R id). unfold refs in R. rewrite hget_beyond in R by assumption. assumption. Qed.

Lemma op_new_total e nh w h tr len imm ncp :
  env_ok e -> winv e nh w -> h < nh -> step_total e nh w (op_new e w h tr len imm ncp).
Proof.
  intros EO WI Hh. unfold op_new.
  destruct (release_total e nh w h EO WI Hh) as (w1 & o & E & ((m1 & HI1) & RI1 & LH1) & HN).
  rewrite E. cbn [bind].
  destruct (alloc e w1 len imm ncp tr) as [w2 id] eqn:A.
  assert (W2 : w2 = fst (alloc e w1 len imm ncp tr)) by (rewrite A; reflexivity).
  assert (ID : id = length (wheap w1)) by (change id with (snd (w2, id)); rewrite <- A; reflexivity).
  exists (set_hnd w2 h (Some id)), OOk. split; [reflexivity|].
  subst w2. apply (attach_fresh e nh _ m1 h id); auto.
  - apply hinv_alloc; assumption.
  - intros j. rewrite refs_alloc, cnt_alloc, <- ID. pose proof (RI1 j) as RJ.
    destruct (Nat.eqb_spec j id) as [->|N].
    + rewrite (rinv_beyond w1 id RI1) by lia. lia.
    + destruct (refs w1 j); [lia|]. split; assumption.
Qed.
