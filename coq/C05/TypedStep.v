(* C05/TypedStep.v — every operation of the model preserves the invariants and never faults. *)
From MptV Require Import Base.Mem C05.TypedModel C05.TypedSpec C05.TypedMonitor C05.TypedLoops C05.TypedOps
  C05.TypedSet C05.TypedWorld.
Local Open Scope nat_scope.

Definition winv (e : env) (nh : nat) (w : world) : Prop :=
  (exists m, hinv e w m) /\ rinv w /\ length (whnd w) = nh.

Definition step_total (e : env) (nh : nat) (w : world) (r : res (world * out)) : Prop :=
  exists w' o, r = Ok (w', o) /\ winv e nh w'.

Lemma refs_hput w id ob c j :
  id < length (wheap w) -> refs (hput w id ob c) j = if j =? id then option_map bref ob else refs w j.
Proof. intros H. unfold refs. rewrite hget_hput by assumption. destruct (j =? id); reflexivity. Qed.

Lemma refs_some w id b : hget w id = Some b -> refs w id = Some (bref b).
Proof. intros H. unfold refs. rewrite H. reflexivity. Qed.

Lemma hinv_set_hnd e w m h v : hinv e w m -> hinv e (set_hnd w h v) m.
Proof. intros [A B C D E]. split; assumption. Qed.

(* ---------------------------------------------------------------- one-buffer operations *)

Lemma on_local_total e nh w h f :
  env_ok e -> winv e nh w -> local_total e f -> step_total e nh w (on_local w h f).
Proof.
  intros EO ((m & HI) & RI & LH) LT. unfold on_local, on_buf.
  destruct (handle w h) as [id|] eqn:HH.
  2:{ exists w, OSkip. split; [reflexivity|]. split; [eauto|]. split; assumption. }
  destruct (rinv_handle _ _ _ RI HH) as (b & HB & RB). rewrite HB.
  destruct (LT b (wctx w) m (hinv_pre e w m id b EO HI HB)) as (b' & c' & m' & o & E & L).
  rewrite E. cbn [bind]. exists (hput w id (Some b') c'), o. split; [reflexivity|].
  pose proof (hget_lt _ _ _ HB) as LTid.
  split; [exists m'; eapply hinv_local; eassumption|]. split; [|assumption].
  eapply rinv_same_refs; [eassumption|reflexivity|].
  intros j. rewrite refs_hput by assumption. destruct (Nat.eqb_spec j id) as [->|]; [|reflexivity].
  rewrite (refs_some _ _ _ HB). simpl. f_equal. destruct L as [(S & _) _ _ _ _ _ _]. assumption.
Qed.

(* ---------------------------------------------------------------- release of a handle *)

Lemma handle_set_hnd w h v : h < length (whnd w) -> handle (set_hnd w h v) h = v.
Proof.
  intros H. unfold handle, set_hnd. simpl. rewrite nth_error_setnth, Nat.eqb_refl by assumption. reflexivity.
Qed.

(* set the handle h (which holds hid) to v and drop the reference on hid *)
Lemma drop_ref e nh w m h hid b v :
  env_ok e -> hinv e w m -> length (whnd w) = nh -> h < nh ->
  handle w h = Some hid -> hget w hid = Some b -> 1 <= bref b ->
  (* reference counts are right except that the new value v is not counted yet *)
  (forall id, match refs w id with
              | Some r => r = cnt w id + (if onat_dec v (Some id) then 1 else 0) /\ 1 <= r
              | None => cnt w id = 0 /\ v <> Some id
              end) ->
  v <> Some hid ->
  exists w', unref e (set_hnd w h v) hid = Ok w' /\ winv e nh w' /\ handle w' h = v
             /\ whnd w' = setnth h v (whnd w).
Proof.
  intros EO HI LH Hh HH HB RB RI NV.
  destruct (unref_ok e (set_hnd w h v) m hid b EO (hinv_set_hnd _ _ _ h v HI) HB RB)
    as (w' & m' & E & HI' & WH & WL & OTH & AT).
  exists w'. split; [assumption|]. split.
  - split; [eauto|]. split.
    + intros id. unfold cnt. rewrite WH. fold (cnt (set_hnd w h v) id).
      pose proof (cnt_set_hnd w h v id ltac:(lia)) as C. rewrite HH in C.
      specialize (RI id).
      destruct (Nat.eq_dec id hid) as [->|N].
      * unfold refs. rewrite AT. rewrite (refs_some _ _ _ HB) in RI. cbn [option_map] in RI.
        destruct (onat_dec (Some hid) (Some hid)); [|congruence].
        destruct (onat_dec v (Some hid)); [contradiction|].
        destruct (Nat.eqb_spec (bref b) 1); simpl; lia.
      * unfold refs. rewrite OTH by assumption. change (hget (set_hnd w h v) id) with (hget w id).
        fold (refs w id).
        destruct (onat_dec (Some hid) (Some id)) as [X|X]; [inversion X; congruence|].
        destruct (refs w id); destruct (onat_dec v (Some id)); try lia. destruct RI. contradiction.
    + rewrite WH. rewrite set_hnd_len by lia. assumption.
  - split; [|exact WH]. unfold handle. rewrite WH. fold (handle (set_hnd w h v) h). apply handle_set_hnd. lia.
Qed.

Lemma rinv_relax w v : rinv w -> v = None ->
  forall id, match refs w id with
             | Some r => r = cnt w id + (if onat_dec v (Some id) then 1 else 0) /\ 1 <= r
             | None => cnt w id = 0 /\ v <> Some id
             end.
Proof.
  intros R -> id. specialize (R id). destruct (refs w id); destruct (onat_dec None (Some id)); try discriminate.
  - lia.
  - split; [assumption|discriminate].
Qed.

Lemma release_total e nh w h :
  env_ok e -> winv e nh w -> h < nh ->
  exists w' o, array_clone e w h None = Ok (w', o) /\ winv e nh w' /\ handle w' h = None
               /\ whnd w' = setnth h None (whnd w).
Proof.
  intros EO ((m & HI) & RI & LH) Hh. unfold array_clone.
  destruct (handle w h) as [hid|] eqn:HH.
  - destruct (rinv_handle _ _ _ RI HH) as (b & HB & RB).
    destruct (drop_ref e nh w m h hid b None EO HI LH Hh HH HB RB (rinv_relax w None RI eq_refl))
      as (w' & E & WI & HN & WS); [discriminate|].
    rewrite E. cbn [bind]. eauto 8.
  - exists (set_hnd w h None), (ONum 0). split; [reflexivity|]. split.
    + split; [exists m; apply hinv_set_hnd; assumption|]. split.
      * intros id. change (refs (set_hnd w h None) id) with (refs w id).
        pose proof (cnt_set_hnd w h None id ltac:(lia)) as C. rewrite HH in C.
        destruct (onat_dec None (Some id)); [discriminate|]. replace (cnt (set_hnd w h None) id) with (cnt w id) by lia.
        apply RI.
      * rewrite set_hnd_len by lia. assumption.
    + split; [apply handle_set_hnd; lia|reflexivity].
Qed.

(* ---------------------------------------------------------------- sharing: mpt_array_clone(h, g) *)

Lemma clone_total e nh w h g :
  env_ok e -> winv e nh w -> h < nh -> g < nh ->
  step_total e nh w (match handle w g with None => Ok (w, OSkip) | Some _ => array_clone e w h (Some g) end).
Proof.
  intros EO WI Hh Hg. pose proof WI as ((m & HI) & RI & LH).
  destruct (handle w g) as [sid|] eqn:HG.
  2:{ exists w, OSkip. split; [reflexivity|assumption]. }
  unfold array_clone. rewrite HG.
  destruct (rinv_handle _ _ _ RI HG) as (sb & HS & RS).
  destruct (handle w h) as [hid|] eqn:HH.
  - destruct (Nat.eqb_spec sid hid) as [->|NE].
    { exists w, (ONum 0). split; [reflexivity|assumption]. }
    rewrite HS.
    destruct (rinv_handle _ _ _ RI HH) as (hb & HB & RB). rewrite HB.
    destruct (negb (okind_eqb (btr sb) (btr hb))).
    { exists w, (OErr BadType). split; [reflexivity|assumption]. }
    unfold addref. rewrite HS. cbn [bind].
    pose proof (hget_lt _ _ _ HS) as LTs.
    set (w1 := hput w sid (Some (with_ref sb (S (bref sb)))) (wctx w)).
    assert (HI1 : hinv e w1 m) by (apply hinv_ref; assumption).
    assert (HB1 : hget w1 hid = Some hb).
    { unfold w1. rewrite hget_hput_ne by (auto; congruence). assumption. }
    destruct (drop_ref e nh w1 m h hid hb (Some sid) EO HI1 LH Hh HH HB1 RB) as (w' & E & WI' & _ & _).
    + intros id. unfold w1. rewrite refs_hput by assumption. rewrite cnt_hput.
      specialize (RI id). destruct (Nat.eqb_spec id sid) as [->|N].
      * rewrite (refs_some _ _ _ HS) in RI. cbn [option_map] in RI. cbn [option_map bref with_ref]. destruct (onat_dec (Some sid) (Some sid)); [lia|congruence].
      * destruct (onat_dec (Some sid) (Some id)) as [X|X]; [inversion X; congruence|].
        destruct (refs w id); [lia|]. split; [assumption|congruence].
    + congruence.
    + rewrite E. cbn [bind]. exists w', (ONum 3). split; [reflexivity|assumption].
  - rewrite HS. unfold addref. rewrite HS. cbn [bind].
    pose proof (hget_lt _ _ _ HS) as LTs.
    exists (set_hnd (hput w sid (Some (with_ref sb (S (bref sb)))) (wctx w)) h (Some sid)), (ONum 1).
    split; [reflexivity|]. split; [exists m; apply hinv_set_hnd, hinv_ref; assumption|]. split.
    + intros id.
      change (refs (set_hnd (hput w sid (Some (with_ref sb (S (bref sb)))) (wctx w)) h (Some sid)) id)
        with (refs (hput w sid (Some (with_ref sb (S (bref sb)))) (wctx w)) id).
      rewrite refs_hput by assumption.
      pose proof (cnt_set_hnd (hput w sid (Some (with_ref sb (S (bref sb)))) (wctx w)) h (Some sid) id ltac:(simpl; lia)) as C.
      change (handle (hput w sid (Some (with_ref sb (S (bref sb)))) (wctx w)) h) with (handle w h) in C.
      rewrite HH, cnt_hput in C. destruct (onat_dec None (Some id)); [discriminate|].
      specialize (RI id). destruct (Nat.eqb_spec id sid) as [->|N].
      * rewrite (refs_some _ _ _ HS) in RI. cbn [option_map] in RI. cbn [option_map bref with_ref]. destruct (onat_dec (Some sid) (Some sid)); [lia|congruence].
      * destruct (onat_dec (Some sid) (Some id)) as [X|X]; [inversion X; congruence|].
        destruct (refs w id); lia.
    + rewrite set_hnd_len by (simpl; lia). assumption.
Qed.

(* ---------------------------------------------------------------- a new buffer for a handle *)

Lemma refs_alloc e w len i n tr j :
  refs (fst (alloc e w len i n tr)) j = if j =? length (wheap w) then Some 1 else refs w j.
Proof. unfold refs. rewrite hget_alloc. destruct (j =? length (wheap w)); reflexivity. Qed.

Lemma snd_alloc e w len i n tr : snd (alloc e w len i n tr) = length (wheap w).
Proof. reflexivity. Qed.

(* attach the fresh buffer nid (one reference, not yet counted) to the empty handle h *)
Lemma attach_fresh e nh w m h nid :
  hinv e w m -> length (whnd w) = nh -> h < nh -> handle w h = None ->
  (forall id, match refs w id with
              | Some r => r = cnt w id + (if id =? nid then 1 else 0) /\ 1 <= r
              | None => cnt w id = 0 /\ id <> nid
              end) ->
  winv e nh (set_hnd w h (Some nid)).
Proof.
  intros HI LH Hh HH RI. split; [exists m; apply hinv_set_hnd; assumption|]. split.
  - intros id. change (refs (set_hnd w h (Some nid)) id) with (refs w id).
    pose proof (cnt_set_hnd w h (Some nid) id ltac:(lia)) as C. rewrite HH in C.
    destruct (onat_dec None (Some id)); [discriminate|]. specialize (RI id).
    destruct (onat_dec (Some nid) (Some id)) as [X|X].
    + inversion X; subst. rewrite Nat.eqb_refl in RI. destruct (refs w id); [lia|]. destruct RI; congruence.
    + destruct (Nat.eqb_spec id nid); [congruence|]. destruct (refs w id); lia.
  - rewrite set_hnd_len by lia. assumption.
Qed.

Lemma rinv_beyond w id : rinv w -> length (wheap w) <= id -> cnt w id = 0.
Proof. intros R H. specialize (R id). unfold refs in R. rewrite hget_beyond in R by assumption. assumption. Qed.

Lemma op_new_total e nh w h tr len imm ncp :
  env_ok e -> winv e nh w -> h < nh -> step_total e nh w (op_new e w h tr len imm ncp).
Proof.
  intros EO WI Hh. unfold op_new.
  destruct (release_total e nh w h EO WI Hh) as (w1 & o & E & ((m1 & HI1) & RI1 & LH1) & HN & _).
  rewrite E. cbn [bind].
  destruct (alloc e w1 len imm ncp tr) as [w2 id] eqn:A.
  assert (W2 : w2 = fst (alloc e w1 len imm ncp tr)) by (rewrite A; reflexivity).
  assert (ID : id = length (wheap w1)) by (change id with (snd (w2, id)); rewrite <- A; reflexivity).
  exists (set_hnd w2 h (Some id)), OOk. split; [reflexivity|].
  subst w2. apply (attach_fresh e nh _ m1 h id); auto.
  - apply hinv_alloc; assumption.
  - intros j. rewrite refs_alloc, cnt_alloc, <- ID. pose proof (RI1 j) as RJ.
    destruct (Nat.eqb_spec j id) as [->|N].
    + rewrite (rinv_beyond w1 id RI1) by lia. lia.
    + destruct (refs w1 j); [lia|]. split; assumption.
Qed.

(* ---------------------------------------------------------------- detach *)

Lemma round_up_aligned sz x :
  0 < sz -> (if x mod sz =? 0 then x else x + (sz - x mod sz)) mod sz = 0.
Proof.
  intros Hs. destruct (Nat.eqb_spec (x mod sz) 0) as [Z|Z]; [assumption|].
  pose proof (Nat.div_mod x sz ltac:(lia)). pose proof (Nat.mod_upper_bound x sz ltac:(lia)).
  replace (x + (sz - x mod sz)) with ((x / sz + 1) * sz) by nia. apply mul_mod. assumption.
Qed.

(* the elements E1 of buffer id move (as raw bytes) into the empty buffer nid, the elements E2
   have been finalised, buffer id is freed *)
Lemma hinv_move e w m id b nid nb b' c1 m1 E1 E2 :
  hinv e w m -> id <> nid -> hget w id = Some b -> hget w nid = Some nb ->
  buf_els e b = E1 ++ E2 -> buf_els e nb = [] ->
  mon_step (wctx w) m c1 m1 E2 [] ->
  buf_wf e b' -> buf_els e b' = E1 ->
  hinv e (hput (hput w nid (Some b') c1) id None c1) m1.
Proof.
  intros [WF MO LV ND DJ] NE HB HN EB EN S WB' EB'.
  pose proof (hget_lt _ _ _ HB) as LTi. pose proof (hget_lt _ _ _ HN) as LTn.
  set (w' := hput (hput w nid (Some b') c1) id None c1).
  assert (LTi' : id < length (wheap (hput w nid (Some b') c1))) by (rewrite hput_len; assumption).
  assert (G : forall j bj, hget w' j = Some bj ->
                           (j = nid /\ bj = b') \/ (j <> nid /\ j <> id /\ hget w j = Some bj)).
  { intros j bj. unfold w'. destruct (Nat.eq_dec j id) as [->|Ni].
    - rewrite hget_hput_eq by assumption. discriminate.
    - rewrite hget_hput_ne by assumption. destruct (Nat.eq_dec j nid) as [->|Nn].
      + rewrite hget_hput_eq by assumption. intros [= <-]. auto.
      + rewrite hget_hput_ne by assumption. auto. }
  assert (GN : hget w' nid = Some b').
  { unfold w'. rewrite hget_hput_ne by auto. rewrite hget_hput_eq by assumption. reflexivity. }
  assert (GO : forall j, j <> nid -> j <> id -> hget w' j = hget w j).
  { intros j N1 N2. unfold w'. rewrite hget_hput_ne by assumption. rewrite hget_hput_ne by assumption. reflexivity. }
  pose proof (ND _ _ HB) as NDB. rewrite EB in NDB. apply NoDup_app_parts in NDB. destruct NDB as (N1 & N2 & D12).
  split.
  - intros j bj Hj. destruct (G _ _ Hj) as [(_ & ->)|(_ & _ & X)]; eauto.
  - apply S.
  - intros t. rewrite (st_live _ _ _ _ _ _ S). simpl. split.
    + intros [[L D]|[]]. apply LV in L. destruct L as (j & bj & Hj & Tj).
      destruct (Nat.eq_dec j id) as [->|Ni].
      * rewrite HB in Hj. injection Hj as <-. rewrite EB, in_app_iff in Tj.
        exists nid, b'. rewrite EB'. split; [assumption|tauto].
      * destruct (Nat.eq_dec j nid) as [->|Nn].
        -- rewrite HN in Hj. injection Hj as <-. rewrite EN in Tj. contradiction.
        -- exists j, bj. rewrite GO by assumption. auto.
    + intros (j & bj & Hj & Tj). destruct (G _ _ Hj) as [(-> & ->)|(Nn & Ni & X)].
      * rewrite EB' in Tj. left. split.
        -- apply LV. exists id, b. rewrite EB, in_app_iff. auto.
        -- apply D12. assumption.
      * left. split; [apply LV; eauto|]. intros H2.
        apply (DJ j id bj b t Ni X HB Tj). rewrite EB, in_app_iff. auto.
  - intros j bj Hj. destruct (G _ _ Hj) as [(_ & ->)|(_ & _ & X)]; [rewrite EB'; assumption|eauto].
  - intros i j bi bj t N Hi Hj Ti Tj.
    destruct (G _ _ Hi) as [(-> & ->)|(Nn & Ni & X)]; destruct (G _ _ Hj) as [(-> & ->)|(Nn' & Ni' & Y)].
    + congruence.
    + rewrite EB' in Ti. apply (DJ j id bj b t Ni' Y HB Tj). rewrite EB, in_app_iff. auto.
    + rewrite EB' in Tj. apply (DJ i id bi b t Ni X HB Ti). rewrite EB, in_app_iff. auto.
    + exact (DJ i j bi bj t N X Y Ti Tj).
Qed.

Lemma div_le_mono' a b sz : 0 < sz -> a <= b -> a / sz <= b / sz.
Proof. intros. apply Nat.div_le_mono; lia. Qed.

(* a fresh buffer of [size] bytes that receives the elements E as its first slots *)
Lemma moved_buf_ok e k size ncp E :
  env_ok e -> length E * esz e k <= size ->
  let nb := mkbuf 1 false ncp size 0 (Some k) (mkslots e (Some k) size) in
  let b' := with_used (with_slots nb (map STok E ++ skipn (length (map STok E)) (bslots nb)))
                      (length E * esz e k) in
  buf_wf e b' /\ buf_els e b' = E.
Proof.
  intros EO LE nb b'. pose proof (esz_pos e k EO) as Hs.
  assert (LS : length E <= size / esz e k) by (apply mul_le_div; assumption).
  split.
  - unfold buf_wf, b', nb. simpl.
    pose proof (typed_wf_intro (esz e k) 1 false ncp size (Some k) E
                  (skipn (length (map STok E)) (repeat SRaw (size / esz e k))) Hs LE) as W.
    apply W. rewrite skipn_length, repeat_length, map_length. lia.
  - eapply (buf_els_typed e b' k E); simpl; eauto.
Qed.

Lemma detach_ok e w m id b len0 :
  env_ok e -> hinv e w m -> hget w id = Some b -> 1 <= bref b ->
  exists w' r m',
    detach e w id len0 = Ok (w', r) /\ hinv e w' m' /\ whnd w' = whnd w /\
    match r with
    | None => forall j, refs w' j = refs w j
    | Some nid =>
      (nid = id /\ w' = w) \/
      (nid = length (wheap w) /\ refs w' nid = Some 1
       /\ refs w' id = (if bref b =? 1 then None else Some (bref b - 1))
       /\ (forall j, j <> id -> j <> nid -> refs w' j = refs w j)
       /\ exists nb, hget w' nid = Some nb /\ btr nb = btr b /\ (bref b = 1 -> bused nb <= bused b))
    end.
Proof.
  intros EO HI HB RB. pose proof (hget_lt _ _ _ HB) as LTi.
  unfold detach. rewrite HB.
  remember (btr b) as tr eqn:T0. symmetry in T0.
  set (esize := match tr with Some k => esz e k | None => 1 end).
  assert (Hs : 0 < esize) by (unfold esize; destruct tr; [apply esz_pos; assumption|lia]).
  replace (esize =? 0) with false by (symmetry; apply Nat.eqb_neq; lia).
  remember (match tr with
            | Some _ => if len0 mod esize =? 0 then len0 else len0 + (esize - len0 mod esize)
            | None => len0 end) as len eqn:Hlen.
  assert (LA : len mod esize = 0).
  { rewrite Hlen. destruct tr; [apply round_up_aligned; assumption|]. unfold esize. apply Nat.mod_1_r. }
  clear Hlen.
  dif.
  { exists w, (Some id), m. split; [reflexivity|]. split; [assumption|]. split; [reflexivity|]. left. auto. }
  dif.
  { exists w, None, m. split; [reflexivity|]. split; [assumption|]. split; [reflexivity|]. reflexivity. }
  destruct (alloc e w len false (bncp b) tr) as [w1 nid] eqn:A.
  assert (W1 : w1 = fst (alloc e w len false (bncp b) tr)) by (rewrite A; reflexivity).
  assert (NID : nid = length (wheap w)) by (change nid with (snd (w1, nid)); rewrite <- A; reflexivity).
  assert (NE : id <> nid) by lia.
  set (size := alloc_size e len).
  set (nb := mkbuf 1 false (bncp b) size 0 tr (mkslots e tr size)).
  assert (HN1 : hget w1 nid = Some nb).
  { rewrite W1, hget_alloc, NID, Nat.eqb_refl. reflexivity. }
  assert (HB1 : hget w1 id = Some b).
  { rewrite W1, hget_alloc. destruct (Nat.eqb_spec id (length (wheap w))); [lia|assumption]. }
  assert (HI1 : hinv e w1 m) by (rewrite W1; apply hinv_alloc; assumption).
  assert (C1 : wctx w1 = wctx w) by (rewrite W1; reflexivity).
  assert (H1 : whnd w1 = whnd w) by (rewrite W1; reflexivity).
  assert (L1 : length (wheap w1) = S (length (wheap w))).
  { rewrite W1. unfold alloc. simpl. rewrite app_length. simpl. lia. }
  assert (O1 : forall j, j <> nid -> refs w1 j = refs w j).
  { intros j N. rewrite W1, refs_alloc. destruct (Nat.eqb_spec j (length (wheap w))); [lia|reflexivity]. }
  assert (SZ : len <= size) by (apply alloc_size_ge; assumption).
  rewrite HN1.
  destruct (Nat.eqb_spec (bref b - 1) 0) as [R0|R0]; cbn [negb].
  - (* ---- last reference: move ---- *)
    assert (R1 : bref b = 1) by lia.
    destruct tr as [k|].
    + (* typed *)
      pose proof (hinv_pre e w1 m id b EO HI1 HB1) as P.
      destruct (typed_pre e b (wctx w1) m k P T0) as (_ & EL & J & SL & US & LEN & BE & ULE & NDE & INE).
      unfold esize in *. set (sz := esz e k) in *.
      assert (A1 : len = len / sz * sz) by (apply aligned_form; assumption).
      remember (len / sz) as q eqn:Hq. clear Hq.
      destruct (len <? bused b) eqn:LU.
      * apply Nat.ltb_lt in LU.
        assert (UA : bused b - bused b mod sz = length EL * sz) by (rewrite US, mul_mod by assumption; lia).
        rewrite UA.
        assert (QL : q < length EL) by (rewrite US in LU; nia).
        destruct (split3 EL q (length EL)) as (E1' & E2' & E3' & EQ & LE1 & LE2 & LE3); [lia|lia|].
        assert (E3' = []) by (destruct E3'; [reflexivity|simpl in LE3; lia]). subst E3'.
        rewrite app_nil_r in EQ.
        rewrite EQ in NDE. apply NoDup_app_parts in NDE. destruct NDE as (N1 & N2 & D12).
        destruct (fini_range (ehf e) sz (bsize b) E2' (S (length EL * sz)) q (map STok E1') J (wctx w1) m)
          as (c1 & m1 & FL & S1 & SC); try assumption.
        { rewrite map_length. assumption. }
        { rewrite EQ, app_length in ULE. nia. }
        { nia. }
        { apply HI1. }
        { intros x Hx. apply INE. rewrite EQ, in_app_iff. tauto. }
        replace ((q + length E2') * sz) with (length EL * sz) in FL by (rewrite EQ, app_length; nia).
        rewrite SL. replace (map STok EL) with (map STok E1' ++ map STok E2') by (rewrite EQ, map_app; reflexivity).
        rewrite <- app_assoc.
        replace (fini_loop (ehf e) (S (length EL * sz)) sz (bsize b) 0 len (length EL * sz))
          with (fini_loop (ehf e) (S (length EL * sz)) sz (bsize b) 0 (q * sz) (length EL * sz))
          by (rewrite <- A1; reflexivity).
        rewrite FL. cbn [bind].
        rewrite firstn_exact by (rewrite map_length; assumption).
        destruct (moved_buf_ok e k size (bncp b) E1' EO) as (WB' & EB'); [nia|].
        cbn zeta in WB', EB'. fold sz in WB', EB'. rewrite LE1, <- A1 in WB', EB'.
        set (b' := with_used (with_slots nb (map STok E1' ++ skipn (length (map STok E1')) (bslots nb))) len) in *.
        exists (hput (hput w1 nid (Some b') c1) id None c1), (Some nid), m1.
        split; [reflexivity|]. split.
        { eapply (hinv_move e w1 m id b nid nb b' c1 m1 E1' E2'); eauto.
          - rewrite BE. assumption.
          - apply fresh_buf_els. }
        split; [simpl; assumption|]. right.
        assert (LTn : nid < length (wheap w1)) by lia.
        assert (LTi1 : id < length (wheap (hput w1 nid (Some b') c1))) by (rewrite hput_len; lia).
        split; [assumption|]. split.
        { rewrite refs_hput by assumption. destruct (Nat.eqb_spec nid id); [lia|].
          rewrite refs_hput by assumption. rewrite Nat.eqb_refl. reflexivity. }
        split.
        { rewrite refs_hput, Nat.eqb_refl by assumption. rewrite R1. reflexivity. }
        split.
        { intros j Nj Nn. rewrite refs_hput by assumption. destruct (Nat.eqb_spec j id); [contradiction|].
          rewrite refs_hput by assumption. destruct (Nat.eqb_spec j nid); [contradiction|]. apply O1. assumption. }
        exists b'. split.
        { rewrite hget_hput_ne by auto. rewrite hget_hput_eq by assumption. reflexivity. }
        split; [reflexivity|]. intros _. simpl. lia.
      * apply Nat.ltb_ge in LU.
        replace (bused b / sz) with (length EL) by (rewrite US, mul_div by assumption; reflexivity).
        rewrite SL. rewrite firstn_exact by (rewrite map_length; reflexivity).
        destruct (moved_buf_ok e k size (bncp b) EL EO) as (WB' & EB'); [rewrite US in LU; lia|].
        cbn zeta in WB', EB'. fold sz in WB', EB'. rewrite <- US in WB', EB'.
        set (b' := with_used (with_slots nb (map STok EL ++ skipn (length (map STok EL)) (bslots nb))) (bused b)) in *.
        exists (hput (hput w1 nid (Some b') (wctx w1)) id None (wctx w1)), (Some nid), m.
        split; [reflexivity|]. split.
        { eapply (hinv_move e w1 m id b nid nb b' (wctx w1) m EL []); eauto.
          - rewrite app_nil_r. assumption.
          - apply fresh_buf_els.
          - apply mon_step_refl. apply HI1. }
        split; [simpl; assumption|]. right.
        assert (LTn : nid < length (wheap w1)) by lia.
        assert (LTi1 : id < length (wheap (hput w1 nid (Some b') (wctx w1)))) by (rewrite hput_len; lia).
        split; [assumption|]. split.
        { rewrite refs_hput by assumption. destruct (Nat.eqb_spec nid id); [lia|].
          rewrite refs_hput by assumption. rewrite Nat.eqb_refl. reflexivity. }
        split.
        { rewrite refs_hput, Nat.eqb_refl by assumption. rewrite R1. reflexivity. }
        split.
        { intros j Nj Nn. rewrite refs_hput by assumption. destruct (Nat.eqb_spec j id); [contradiction|].
          rewrite refs_hput by assumption. destruct (Nat.eqb_spec j nid); [contradiction|]. apply O1. assumption. }
        exists b'. split.
        { rewrite hget_hput_ne by auto. rewrite hget_hput_eq by assumption. reflexivity. }
        split; [reflexivity|]. intros _. simpl. lia.
    + (* raw *)
      set (add' := if len <? bused b then len else bused b).
      set (b' := with_used nb add').
      assert (LTn : nid < length (wheap w1)) by lia.
      assert (EBraw : buf_els e b = []) by (unfold buf_els; rewrite T0; reflexivity).
      exists (hput (hput w1 nid (Some b') (wctx w1)) id None (wctx w1)), (Some nid), m.
      split; [reflexivity|]. split.
      { eapply (hinv_move e w1 m id b nid nb b' (wctx w1) m [] []); eauto.
        - apply mon_step_refl. apply HI1.
        - exact I. }
      split; [simpl; assumption|]. right.
      assert (LTi1 : id < length (wheap (hput w1 nid (Some b') (wctx w1)))) by (rewrite hput_len; lia).
      split; [assumption|]. split.
      { rewrite refs_hput by assumption. destruct (Nat.eqb_spec nid id); [lia|].
        rewrite refs_hput by assumption. rewrite Nat.eqb_refl. reflexivity. }
      split.
      { rewrite refs_hput, Nat.eqb_refl by assumption. rewrite R1. reflexivity. }
      split.
      { intros j Nj Nn. rewrite refs_hput by assumption. destruct (Nat.eqb_spec j id); [contradiction|].
        rewrite refs_hput by assumption. destruct (Nat.eqb_spec j nid); [contradiction|]. apply O1. assumption. }
      exists b'. split.
      { rewrite hget_hput_ne by auto. rewrite hget_hput_eq by assumption. reflexivity. }
      split; [reflexivity|]. intros _. unfold b', add'. simpl. destruct (len <? bused b) eqn:Z; [apply Nat.ltb_lt in Z|]; lia.
  - (* ---- other references remain: copy construct ---- *)
    set (r := bref b - 1) in *.
    set (w2 := hput w1 id (Some (with_ref b r)) (wctx w1)).
    assert (LTi1 : id < length (wheap w1)) by lia.
    assert (LTn : nid < length (wheap w1)) by lia.
    assert (HI2 : hinv e w2 m) by (apply hinv_ref; assumption).
    assert (HN2 : hget w2 nid = Some nb) by (unfold w2; rewrite hget_hput_ne by auto; assumption).
    assert (HB2 : hget w2 id = Some (with_ref b r)) by (unfold w2; rewrite hget_hput_eq by assumption; reflexivity).
    assert (L2 : length (wheap w2) = length (wheap w1)) by (apply hput_len; assumption).
    set (add := if len <? bused b then len else bused b).
    pose proof (hinv_pre e w2 m nid nb EO HI2 HN2) as PN.
    destruct (buffer_set_ok e nb tr 0 (Some (bslots b)) add (wctx w2) m PN) as (nb' & c' & m' & rv & ES & LO).
    { intros ks TK.
      assert (EN : buf_els e nb = []) by apply fresh_buf_els.
      rewrite EN.
      apply (wf_src_good e b ks m [] (add / esz e ks) EO).
      - exact (hi_wf _ _ _ HI _ _ HB).
      - congruence.
      - intros t Ht. apply (hi_live _ _ _ HI). eauto.
      - intros t _ [].
      - apply div_le_mono'; [apply esz_pos; assumption|]. unfold add. destruct (len <? bused b) eqn:Z; [apply Nat.ltb_lt in Z|]; lia. }
    change (wctx (hput w1 id (Some (with_ref b r)) (wctx w1))) with (wctx w2).
    fold w2. rewrite ES. cbn [bind].
    set (w3 := hput w2 nid (Some nb') c').
    assert (HI3 : hinv e w3 m') by (eapply hinv_local; eassumption).
    assert (SS : bref nb' = 1 /\ btr nb' = tr).
    { destruct LO as [(S1 & _ & _ & _ & S5) _ _ _ _ _ _]. simpl in *. split; assumption. }
    destruct SS as (RN & TN).
    assert (LTn2 : nid < length (wheap w2)) by lia.
    assert (HN3 : hget w3 nid = Some nb') by (unfold w3; rewrite hget_hput_eq by assumption; reflexivity).
    assert (REFS3 : forall j, refs w3 j = if j =? nid then Some 1 else if j =? id then Some r else refs w j).
    { intros j. unfold w3. rewrite refs_hput by assumption. destruct (Nat.eqb_spec j nid) as [->|Nn].
      - simpl. rewrite RN. reflexivity.
      - unfold w2. rewrite refs_hput by assumption. destruct (Nat.eqb_spec j id); [reflexivity|]. apply O1. assumption. }
    destruct rv as [n|err].
    + (* copied *)
      exists w3, (Some nid), m'. split; [reflexivity|]. split; [assumption|]. split; [simpl; assumption|].
      right. split; [assumption|]. split; [rewrite REFS3, Nat.eqb_refl; reflexivity|]. split.
      { rewrite REFS3. destruct (Nat.eqb_spec id nid); [lia|]. rewrite Nat.eqb_refl.
        destruct (Nat.eqb_spec (bref b) 1); [lia|reflexivity]. }
      split.
      { intros j Nj Nn. rewrite REFS3. destruct (Nat.eqb_spec j nid); [contradiction|].
        destruct (Nat.eqb_spec j id); [contradiction|reflexivity]. }
      exists nb'. split; [assumption|]. split; [assumption|]. intros X. lia.
    + (* refused: the new buffer is released again, the caller keeps its reference *)
      destruct (unref_ok e w3 m' nid nb' EO HI3 HN3 ltac:(lia)) as (w4 & m4 & EU & HI4 & WH4 & WL4 & OTH4 & AT4).
      rewrite EU. cbn [bind].
      assert (HB4 : hget w4 id = Some (with_ref b r)).
      { rewrite OTH4 by auto. unfold w3. rewrite hget_hput_ne by auto. assumption. }
      unfold addref. rewrite HB4. cbn [bind].
      assert (LTi4 : id < length (wheap w4)).
      { rewrite WL4. unfold w3. rewrite hput_len by assumption. lia. }
      exists (hput w4 id (Some (with_ref (with_ref b r) (S (bref (with_ref b r))))) (wctx w4)), None, m4.
      split; [reflexivity|]. split; [apply hinv_ref; assumption|]. split; [simpl; rewrite WH4; simpl; assumption|].
      intros j. rewrite refs_hput by assumption. destruct (Nat.eqb_spec j id) as [->|Ni].
      * simpl. rewrite (refs_some _ _ _ HB). f_equal. unfold r. lia.
      * unfold refs. destruct (Nat.eq_dec j nid) as [->|Nn].
        -- rewrite AT4, RN. simpl. rewrite hget_beyond by lia. reflexivity.
        -- rewrite OTH4 by assumption. fold (refs w3 j). rewrite REFS3.
           destruct (Nat.eqb_spec j nid); [contradiction|]. destruct (Nat.eqb_spec j id); [contradiction|reflexivity].
Qed.

(* ---------------------------------------------------------------- re-pointing a handle *)

Definition refn (w : world) (j : nat) : nat := match refs w j with Some r => r | None => 0 end.

(* w' has the handles of w; afterwards handle h is set to v: the reference counts of w' must be
   those of w, one less for the old target of h and one more for v *)
Lemma rinv_retarget w w' h v :
  rinv w -> h < length (whnd w) -> whnd w' = whnd w ->
  (forall j, refn w' j + (if onat_dec (handle w h) (Some j) then 1 else 0)
             = refn w j + (if onat_dec v (Some j) then 1 else 0)) ->
  (forall j, refs w' j <> Some 0) ->
  rinv (set_hnd w' h v).
Proof.
  intros R Hh WH E POS j. specialize (POS j). change (refs (set_hnd w' h v) j) with (refs w' j).
  pose proof (cnt_set_hnd w' h v j ltac:(rewrite WH; assumption)) as C.
  assert (HH : handle w' h = handle w h) by (unfold handle; rewrite WH; reflexivity).
  assert (CC : cnt w' j = cnt w j) by (unfold cnt; rewrite WH; reflexivity).
  rewrite HH, CC in C. specialize (E j). specialize (R j). unfold refn in E.
  assert (P0 : forall r', refs w' j = Some r' -> r' <> 0) by (intros r' X Z; subst; contradiction).
  destruct (refs w' j) as [r'|]; destruct (refs w j) as [r|];
    destruct (onat_dec (handle w h) (Some j)); destruct (onat_dec v (Some j));
    try specialize (P0 _ eq_refl); lia.
Qed.

Lemma rinv_pos w j : rinv w -> refs w j <> Some 0.
Proof. intros R. specialize (R j). destruct (refs w j) as [r|]; [|discriminate]. intros [= ->]. lia. Qed.

Lemma refn_some w j b : hget w j = Some b -> refn w j = bref b.
Proof. intros H. unfold refn. rewrite (refs_some _ _ _ H). reflexivity. Qed.
Lemma refn_none w j : hget w j = None -> refn w j = 0.
Proof. intros H. unfold refn, refs. rewrite H. reflexivity. Qed.
Lemma refn_refs w w' j : refs w' j = refs w j -> refn w' j = refn w j.
Proof. intros H. unfold refn. rewrite H. reflexivity. Qed.

Lemma rinv_refn_handle w h id b : rinv w -> handle w h = Some id -> hget w id = Some b -> 1 <= bref b.
Proof. intros R H HB. destruct (rinv_handle _ _ _ R H) as (b' & HB' & RB). congruence. Qed.

(* ---------------------------------------------------------------- OpDetach *)

Lemma op_detach_total e nh w h len :
  env_ok e -> winv e nh w -> h < nh ->
  step_total e nh w
    (on_buf w h (fun id b =>
       do '(w', r) <- detach e w id len;
       match r with
       | Some nid => Ok (set_hnd w' h (Some nid), OOk)
       | None => Ok (w', ORefused)
       end)).
Proof.
  intros EO ((m & HI) & RI & LH) Hh. unfold on_buf.
  destruct (handle w h) as [id|] eqn:HH.
  2:{ exists w, OSkip. split; [reflexivity|]. split; [eauto|]. split; assumption. }
  destruct (rinv_handle _ _ _ RI HH) as (b & HB & RB). rewrite HB.
  destruct (detach_ok e w m id b len EO HI HB RB) as (w' & r & m' & E & HI' & WH & SPEC).
  rewrite E. cbn [bind].
  destruct r as [nid|].
  - exists (set_hnd w' h (Some nid)), OOk. split; [reflexivity|].
    split; [exists m'; apply hinv_set_hnd; assumption|]. split.
    + apply (rinv_retarget w w' h (Some nid) RI); [lia|assumption| |].
      2:{ intros j. destruct SPEC as [(-> & ->)|(NID & RN & RID & OTH & _)]; [apply rinv_pos; assumption|].
          destruct (Nat.eq_dec j nid) as [->|Nn]; [rewrite RN; discriminate|].
          destruct (Nat.eq_dec j id) as [->|Ni].
          - rewrite RID. destruct (Nat.eqb_spec (bref b) 1); [discriminate|]. intros [= X]. lia.
          - rewrite OTH by assumption. apply rinv_pos; assumption. }
      intros j. rewrite HH.
      destruct SPEC as [(-> & ->)|(NID & RN & RID & OTH & _)].
      * destruct (onat_dec (Some id) (Some j)); lia.
      * destruct (Nat.eq_dec j nid) as [->|Nn].
        -- unfold refn at 1. rewrite RN. rewrite (refn_none w nid) by (apply hget_beyond; lia).
           destruct (onat_dec (Some id) (Some nid)) as [X|X]; [inversion X; pose proof (hget_lt _ _ _ HB); lia|].
           destruct (onat_dec (Some nid) (Some nid)); [lia|congruence].
        -- destruct (Nat.eq_dec j id) as [->|Ni].
           ++ unfold refn at 1. rewrite RID. rewrite (refn_some _ _ _ HB).
              destruct (onat_dec (Some id) (Some id)); [|congruence].
              destruct (onat_dec (Some nid) (Some id)) as [X|X]; [inversion X; congruence|].
              destruct (Nat.eqb_spec (bref b) 1); lia.
           ++ rewrite (refn_refs w w' j) by (apply OTH; assumption).
              destruct (onat_dec (Some id) (Some j)) as [X|X]; [inversion X; congruence|].
              destruct (onat_dec (Some nid) (Some j)) as [Y|Y]; [inversion Y; congruence|]. lia.
    + rewrite set_hnd_len by (rewrite WH; lia). rewrite WH. assumption.
  - exists w', ORefused. split; [reflexivity|]. split; [eauto|]. split.
    + eapply rinv_same_refs; eassumption.
    + rewrite WH. assumption.
Qed.

(* ---------------------------------------------------------------- buffer::copy between two handles *)

Lemma local_finish e nh w m id b b' c' m' o :
  hinv e w m -> rinv w -> length (whnd w) = nh -> hget w id = Some b ->
  local_ok e b (wctx w) m b' c' m' ->
  step_total e nh w (Ok (hput w id (Some b') c', o)).
Proof.
  intros HI RI LH HB L. exists (hput w id (Some b') c'), o. split; [reflexivity|].
  pose proof (hget_lt _ _ _ HB) as LTid.
  split; [exists m'; eapply hinv_local; eassumption|]. split; [|assumption].
  eapply rinv_same_refs; [eassumption|reflexivity|].
  intros j. rewrite refs_hput by assumption. destruct (Nat.eqb_spec j id) as [->|]; [|reflexivity].
  rewrite (refs_some _ _ _ HB). simpl. f_equal. destruct L as [(S & _) _ _ _ _ _ _]. assumption.
Qed.

Lemma op_copy_total e nh w h g :
  env_ok e -> winv e nh w ->
  step_total e nh w
    (on_buf w h (fun id b =>
      on_buf w g (fun gid gb =>
        if id =? gid then Ok (w, OOk) else
        do '(b', c', ok) <- cxx_copy e b gb (wctx w); Ok (hput w id (Some b') c', bool_out ok)))).
Proof.
  intros EO WI. pose proof WI as ((m & HI) & RI & LH). unfold on_buf.
  destruct (handle w h) as [id|] eqn:HH; [|exists w, OSkip; split; [reflexivity|assumption]].
  destruct (rinv_handle _ _ _ RI HH) as (b & HB & RB). rewrite HB.
  destruct (handle w g) as [gid|] eqn:HG; [|exists w, OSkip; split; [reflexivity|assumption]].
  destruct (rinv_handle _ _ _ RI HG) as (gb & HGB & RGB). rewrite HGB.
  destruct (Nat.eqb_spec id gid) as [->|NE]; [exists w, OOk; split; [reflexivity|assumption]|].
  destruct (cxx_copy_ok e b gb (wctx w) m (hinv_pre e w m id b EO HI HB)) as (b' & c' & m' & ok & E & L).
  - exact (hi_wf _ _ _ HI _ _ HGB).
  - intros t Ht. apply (hi_live _ _ _ HI). eauto.
  - intros t Ht. apply (hi_disj _ _ _ HI gid id gb b t); auto.
  - rewrite E. cbn [bind]. eapply local_finish; eassumption.
Qed.

(* ---------------------------------------------------------------- buffer::move between two handles *)

Lemma setnth_setnth {A} i (x y : A) l : i < length l -> setnth i y (setnth i x l) = setnth i y l.
Proof.
  revert i; induction l as [|z l IH]; intros i H; simpl in H; [lia|].
  destruct i as [|i]; unfold setnth in *; simpl; [reflexivity|]. f_equal. apply IH. lia.
Qed.


Lemma cxx_trim_all_used e b c b1 c1 :
  cxx_trim e b (bused b) c = Ok (b1, c1, true) -> bused b1 = 0 /\ bslots b1 = bslots b1.
Proof.
  unfold cxx_trim. rewrite Nat.ltb_irrefl, Nat.sub_diag.
  destruct (btr b) as [k|].
  - dif; [discriminate|].
    destruct (fini_loop (ehf e) (S (bused b)) (esz e k) (bsize b) 0 0 (bused b) (bslots b) c) as [[sl1 c2]| |]; cbn [bind];
      try discriminate.
    intros [= <- _]. split; reflexivity.
  - intros [= <- _]. split; reflexivity.
Qed.

Lemma buf_els_used0 e b : bused b = 0 -> buf_els e b = [].
Proof.
  intros Z. unfold buf_els. destruct (btr b) as [k|]; [|reflexivity]. rewrite Z.
  destruct (esz e k); reflexivity.
Qed.

(* the elements of buffer gid are moved (as raw bytes) into the empty buffer id *)
Lemma hinv_transfer e w m id gid b1 gb b' gb' :
  hinv e w m -> id <> gid -> hget w id = Some b1 -> hget w gid = Some gb ->
  buf_els e b1 = [] -> buf_wf e b' -> buf_els e b' = buf_els e gb -> buf_wf e gb' -> buf_els e gb' = [] ->
  hinv e (hput (hput w id (Some b') (wctx w)) gid (Some gb') (wctx w)) m.
Proof.
  intros [WF MO LV ND DJ] NE HB HG E1 WB' EB' WG' EG'.
  pose proof (hget_lt _ _ _ HB) as LTi. pose proof (hget_lt _ _ _ HG) as LTg.
  set (w' := hput (hput w id (Some b') (wctx w)) gid (Some gb') (wctx w)).
  assert (LTg' : gid < length (wheap (hput w id (Some b') (wctx w)))) by (rewrite hput_len; assumption).
  assert (GI : hget w' id = Some b').
  { unfold w'. rewrite hget_hput_ne by auto. rewrite hget_hput_eq by assumption. reflexivity. }
  assert (GG : hget w' gid = Some gb').
  { unfold w'. rewrite hget_hput_eq by assumption. reflexivity. }
  assert (GO : forall j, j <> id -> j <> gid -> hget w' j = hget w j).
  { intros j N1 N2. unfold w'. rewrite hget_hput_ne by assumption. rewrite hget_hput_ne by assumption. reflexivity. }
  assert (G : forall j bj, hget w' j = Some bj ->
            (j = id /\ bj = b') \/ (j = gid /\ bj = gb') \/ (j <> id /\ j <> gid /\ hget w j = Some bj)).
  { intros j bj Hj. destruct (Nat.eq_dec j id) as [->|Ni]; [rewrite GI in Hj; injection Hj as <-; auto|].
    destruct (Nat.eq_dec j gid) as [->|Ng]; [rewrite GG in Hj; injection Hj as <-; auto|].
    rewrite GO in Hj by assumption. auto. }
  split.
  - intros j bj Hj. destruct (G _ _ Hj) as [(_ & ->)|[(_ & ->)|(_ & _ & X)]]; eauto.
  - exact MO.
  - intros t. rewrite LV. split.
    + intros (j & bj & Hj & Tj).
      destruct (Nat.eq_dec j id) as [->|Ni].
      { rewrite HB in Hj. injection Hj as <-. rewrite E1 in Tj. contradiction. }
      destruct (Nat.eq_dec j gid) as [->|Ng].
      { rewrite HG in Hj. injection Hj as <-. exists id, b'. rewrite EB'. auto. }
      exists j, bj. rewrite GO by assumption. auto.
    + intros (j & bj & Hj & Tj). destruct (G _ _ Hj) as [(-> & ->)|[(-> & ->)|(_ & _ & X)]].
      * rewrite EB' in Tj. eauto.
      * rewrite EG' in Tj. contradiction.
      * eauto.
  - intros j bj Hj. destruct (G _ _ Hj) as [(_ & ->)|[(_ & ->)|(_ & _ & X)]].
    + rewrite EB'. eauto.
    + rewrite EG'. constructor.
    + eauto.
  - intros i j bi bj t N Hi Hj Ti Tj.
    destruct (G _ _ Hi) as [(-> & ->)|[(-> & ->)|(Ni & Ni' & X)]];
      destruct (G _ _ Hj) as [(-> & ->)|[(-> & ->)|(Nj & Nj' & Y)]]; try congruence;
      try (rewrite EG' in *; contradiction).
    + rewrite EB' in Ti. exact (DJ gid j gb bj t ltac:(auto) HG Y Ti Tj).
    + rewrite EB' in Tj. exact (DJ i gid bi gb t ltac:(auto) X HG Ti Tj).
    + exact (DJ i j bi bj t N X Y Ti Tj).
Qed.

Lemma okind_eqb_eq a b : okind_eqb a b = true -> a = b.
Proof. destruct a as [[]|], b as [[]|]; simpl; congruence. Qed.

Lemma op_move_total e nh w h g :
  env_ok e -> winv e nh w ->
  step_total e nh w
    (on_buf w h (fun id b =>
      on_buf w g (fun gid gb =>
        if id =? gid then Ok (w, OOk) else
        do '(b', gb', c', ok) <- cxx_move e b gb (wctx w);
        Ok (hput (hput w id (Some b') c') gid (Some gb') c', bool_out ok)))).
Proof.
  intros EO WI. pose proof WI as ((m & HI) & RI & LH). unfold on_buf.
  destruct (handle w h) as [id|] eqn:HH; [|exists w, OSkip; split; [reflexivity|assumption]].
  destruct (rinv_handle _ _ _ RI HH) as (b & HB & RB). rewrite HB.
  destruct (handle w g) as [gid|] eqn:HG; [|exists w, OSkip; split; [reflexivity|assumption]].
  destruct (rinv_handle _ _ _ RI HG) as (gb & HGB & RGB). rewrite HGB.
  destruct (Nat.eqb_spec id gid) as [->|NE]; [exists w, OOk; split; [reflexivity|assumption]|].
  pose proof (hget_lt _ _ _ HB) as LTi. pose proof (hget_lt _ _ _ HGB) as LTg.
  (* a world in which gid is rewritten with itself *)
  assert (SAME : forall b1 c1 m1 o, local_ok e b (wctx w) m b1 c1 m1 ->
                 step_total e nh w (Ok (hput (hput w id (Some b1) c1) gid (Some gb) c1, o))).
  { intros b1 c1 m1 o L.
    destruct (local_finish e nh w m id b b1 c1 m1 o HI RI LH HB L) as (w1 & o1 & E1 & (m1' & HI1) & RI1 & LH1).
    injection E1 as <- <-.
    assert (HG1 : hget (hput w id (Some b1) c1) gid = Some gb) by (rewrite hget_hput_ne by auto; assumption).
    pose proof (hinv_ref e _ m1' gid gb (bref gb) HI1 HG1) as HI2.
    replace (with_ref gb (bref gb)) with gb in HI2 by (destruct gb; reflexivity).
    exists (hput (hput w id (Some b1) c1) gid (Some gb) c1), o. split; [reflexivity|].
    split; [eexists; exact HI2|]. split; [|assumption].
    eapply rinv_same_refs; [exact RI1|reflexivity|].
    intros j. rewrite refs_hput by (rewrite hput_len; assumption).
    destruct (Nat.eqb_spec j gid) as [->|]; [|reflexivity]. rewrite (refs_some _ _ _ HG1). reflexivity. }
  pose proof (hinv_pre e w m id b EO HI HB) as P.
  unfold cxx_move.
  dif. { cbn [bind]. apply (SAME b (wctx w) m). apply pre_refl. assumption. }
  dif. { cbn [bind]. apply (SAME b (wctx w) m). apply pre_refl. assumption. }
  destruct (cxx_trim_ok e b (bused b) (wctx w) m P) as (b1 & c1 & m1 & ok & ET & L1).
  rewrite ET. cbn [bind].
  destruct ok; cbn [negb]; [|cbn [bind]; apply (SAME b1 c1 m1); assumption].
  destruct (cxx_trim_all_used e b (wctx w) b1 c1 ET) as (U0 & _).
  apply negb_false_iff, okind_eqb_eq in E. apply Nat.ltb_ge in E0.
  destruct (local_finish e nh w m id b b1 c1 m1 OOk HI RI LH HB L1) as (w1 & o1 & E1 & (m1' & HI1) & RI1 & LH1).
  injection E1 as <- <-.
  set (w1 := hput w id (Some b1) c1) in *.
  assert (HB1 : hget w1 id = Some b1) by (unfold w1; rewrite hget_hput_eq by assumption; reflexivity).
  assert (HG1 : hget w1 gid = Some gb) by (unfold w1; rewrite hget_hput_ne by auto; assumption).
  assert (C1 : wctx w1 = c1) by reflexivity.
  destruct L1 as [(S1 & S2 & S3 & S4 & S5) W1 _ _ _ _ _].
  assert (FIN : forall b' gb', bref b' = bref b1 -> bref gb' = bref gb ->
                buf_wf e b' -> buf_els e b' = buf_els e gb -> buf_wf e gb' -> buf_els e gb' = [] ->
                step_total e nh w (Ok (hput (hput w id (Some b') c1) gid (Some gb') c1, OOk))).
  { intros b' gb' R1 R2 WB' EB' WG' EG'.
    pose proof (hinv_transfer e w1 m1' id gid b1 gb b' gb' HI1 NE HB1 HG1 (buf_els_used0 e b1 U0) WB' EB' WG' EG') as HT.
    rewrite C1 in HT.
    assert (EQW : hput (hput w1 id (Some b') c1) gid (Some gb') c1 = hput (hput w id (Some b') c1) gid (Some gb') c1).
    { assert (IN : hput w1 id (Some b') c1 = hput w id (Some b') c1).
      { unfold w1, hput. simpl. f_equal. apply setnth_setnth. assumption. }
      rewrite IN. reflexivity. }
    rewrite <- EQW.
    eexists _, OOk. split; [reflexivity|]. split; [eexists; exact HT|]. split.
    - eapply rinv_same_refs; [exact RI1|reflexivity|].
      intros j. rewrite refs_hput by (rewrite hput_len; unfold w1; rewrite hput_len; assumption).
      destruct (Nat.eqb_spec j gid) as [->|Ng].
      + rewrite (refs_some _ _ _ HG1). simpl. congruence.
      + rewrite refs_hput by (unfold w1; rewrite hput_len; assumption).
        destruct (Nat.eqb_spec j id) as [->|Ni]; [|reflexivity].
        rewrite (refs_some _ _ _ HB1). simpl. congruence.
    - simpl. assumption. }
  destruct (btr b) as [k|] eqn:T.
  - (* typed: same kind on both sides *)
    pose proof (esz_pos e k EO) as Hs. set (sz := esz e k) in *.
    pose proof (hi_wf _ _ _ HI _ _ HGB) as WG. unfold buf_wf in WG. rewrite <- E in WG. fold sz in WG.
    destruct (typed_wf_decomp sz gb Hs WG) as (EG & JG & SLG & USG & LENG).
    assert (BEG : buf_els e gb = EG) by (eapply (buf_els_typed e gb k); eauto).
    replace (bused gb mod sz =? 0) with true by (symmetry; apply Nat.eqb_eq; rewrite USG; apply mul_mod; assumption).
    replace (bused gb / sz) with (length EG) by (rewrite USG, mul_div by assumption; reflexivity).
    rewrite SLG, firstn_exact by (rewrite map_length; reflexivity).
    unfold buf_wf in W1. rewrite S5 in W1. fold sz in W1.
    pose proof (tw_len _ _ W1) as LEN1.
    apply FIN; try reflexivity.
    + unfold buf_wf. simpl. rewrite S5. fold sz. rewrite USG.
      pose proof (typed_wf_intro sz (bref b1) (bimm b1) (bncp b1) (bsize b1) (btr b1) EG
                    (skipn (length (map STok EG)) (bslots b1)) Hs) as W. apply W.
      * rewrite S4. rewrite USG in E0. assumption.
      * rewrite skipn_length, map_length, LEN1.
        assert (length EG <= bsize b1 / sz) by (apply mul_le_div; [assumption|rewrite S4, <- USG; assumption]). lia.
    + rewrite BEG. eapply (buf_els_typed e _ k EG); simpl; eauto.
    + unfold buf_wf. simpl. rewrite <- E. fold sz. destruct WG as [A1 A2 A3 A4]. split; simpl; auto.
      * apply Nat.mod_0_l. lia.
      * lia.
      * rewrite Nat.div_0_l by lia. reflexivity.
    + apply buf_els_used0. reflexivity.
  - apply FIN; try reflexivity.
    + unfold buf_wf. simpl. rewrite S5. exact I.
    + unfold buf_els. simpl. rewrite S5, <- E. reflexivity.
    + unfold buf_wf. simpl. rewrite <- E. exact I.
    + apply buf_els_used0. reflexivity.
Qed.

(* a buffer is replaced by a well formed one with the same elements *)
Lemma hinv_same_els e w m id b b' :
  hinv e w m -> hget w id = Some b -> buf_wf e b' -> buf_els e b' = buf_els e b ->
  hinv e (hput w id (Some b') (wctx w)) m.
Proof.
  intros [WF MO LV ND DJ] H WB' EB'. pose proof (hget_lt _ _ _ H) as LT.
  assert (G : forall j bj, hget (hput w id (Some b') (wctx w)) j = Some bj ->
                           exists bj', hget w j = Some bj' /\ buf_els e bj = buf_els e bj' /\ buf_wf e bj).
  { intros j bj. rewrite hget_hput by assumption. destruct (Nat.eqb_spec j id) as [->|].
    - intros [= <-]. exists b. auto.
    - intros Hj. exists bj. eauto. }
  split.
  - intros j bj Hj. destruct (G _ _ Hj) as (bj' & H1 & H2 & H3). assumption.
  - exact MO.
  - intros t. rewrite LV. split.
    + intros (j & bj & Hj & Tj). destruct (Nat.eq_dec j id) as [->|N].
      * exists id, b'. rewrite hget_hput_eq by assumption. rewrite H in Hj. injection Hj as <-.
        rewrite EB'. auto.
      * exists j, bj. rewrite hget_hput_ne by assumption. auto.
    + intros (j & bj & Hj & Tj). destruct (G _ _ Hj) as (bj' & H1 & H2 & _). exists j, bj'. rewrite <- H2. auto.
  - intros j bj Hj. destruct (G _ _ Hj) as (bj' & H1 & H2 & _). rewrite H2. eauto.
  - intros i j bi bj t N Hi Hj. destruct (G _ _ Hi) as (bi' & I1 & I2 & _). destruct (G _ _ Hj) as (bj' & J1 & J2 & _).
    rewrite I2, J2. exact (DJ i j bi' bj' t N I1 J1).
Qed.

(* ---------------------------------------------------------------- mpt_array_reserve *)

Lemma reserve_clear_ok e b tr c m :
  pre e b c m ->
  exists b1 c1 m1, reserve_clear e b tr c = Ok (b1, c1) /\ local_ok e b c m b1 c1 m1
                   /\ (okind_eqb (btr b) tr = false -> bused b1 = 0).
Proof.
  intros P. pose proof (pre_refl _ _ _ _ P) as R. pose proof P as [EO W M ND IN].
  unfold reserve_clear. destruct (okind_eqb (btr b) tr) eqn:K.
  { exists b, c, m. split; [reflexivity|]. split; [assumption|discriminate]. }
  destruct (btr b) as [k|] eqn:T.
  2:{ exists (with_used b 0), c, m. split; [reflexivity|]. split; [|reflexivity].
      apply raw_local_ok; auto. repeat split. }
  destruct (typed_pre e b c m k P T) as (Hs & EL & J & SL & US & LEN & BE & ULE & NDE & INE).
  set (sz := esz e k) in *.
  assert (UA : bused b - bused b mod sz = length EL * sz) by (rewrite US, mul_mod by assumption; lia).
  rewrite UA.
  destruct (fini_range (ehf e) sz (bsize b) EL (S (length EL * sz)) 0 [] J c m) as (c1 & m1 & FL & S1 & SC);
    try assumption; try reflexivity.
  { nia. }
  cbn [Nat.mul Nat.add app] in FL. rewrite SL, FL. cbn [bind].
  do 3 eexists. split; [reflexivity|]. split; [|reflexivity].
  change (map (dead (ehf e)) EL ++ J) with (map STok [] ++ (map (dead (ehf e)) EL ++ J)).
  eapply (local_ok_intro e b c m c1 m1 k EL EL [] []); eauto.
  - intros x Hx. assumption.
  - constructor.
  - intros t. simpl. tauto.
  - lia.
  - fold sz. simpl. rewrite app_length, map_length. lia.
Qed.

Lemma retag_ok e nb tr :
  env_ok e -> buf_wf e nb -> (okind_eqb (btr nb) tr = false -> bused nb = 0) ->
  buf_wf e (retag e nb tr) /\ buf_els e (retag e nb tr) = buf_els e nb /\ bref (retag e nb tr) = bref nb.
Proof.
  intros EO W Z. unfold retag. destruct (okind_eqb (btr nb) tr) eqn:K; [auto|].
  specialize (Z eq_refl). split; [|split; [|reflexivity]].
  - rewrite Z. apply fresh_buf_wf. assumption.
  - rewrite Z, fresh_buf_els. symmetry. apply buf_els_used0. assumption.
Qed.

Lemma reserve_reuse_total e nh w h len tr id b :
  env_ok e -> winv e nh w -> h < nh -> handle w h = Some id -> hget w id = Some b -> bref b = 1 ->
  step_total e nh w (reserve_reuse e w h len tr id b).
Proof.
  intros EO ((m & HI) & RI & LH) Hh HH HB R1. unfold reserve_reuse.
  pose proof (hget_lt _ _ _ HB) as LTi.
  destruct (reserve_clear_ok e b tr (wctx w) m (hinv_pre e w m id b EO HI HB)) as (b1 & c1 & m1 & EC & L1 & Z1).
  rewrite EC. cbn [bind].
  set (w1 := hput w id (Some b1) c1).
  assert (HI1 : hinv e w1 m1) by (eapply hinv_local; eassumption).
  assert (HB1 : hget w1 id = Some b1) by (unfold w1; rewrite hget_hput_eq by assumption; reflexivity).
  destruct L1 as [(S1 & S2 & S3 & S4 & S5) W1 _ _ _ _ _].
  assert (REF1 : forall j, refs w1 j = refs w j).
  { intros j. unfold w1. rewrite refs_hput by assumption. destruct (Nat.eqb_spec j id) as [->|]; [|reflexivity].
    rewrite (refs_some _ _ _ HB). simpl. congruence. }
  assert (RI1 : rinv w1) by (eapply rinv_same_refs; [exact RI|reflexivity|exact REF1]).
  destruct (detach_ok e w1 m1 id b1 len EO HI1 HB1 ltac:(lia)) as (w2 & r & m2 & ED & HI2 & WH2 & SPEC).
  rewrite ED. cbn [bind].
  destruct r as [nid|].
  2:{ exists w2, ORefused. split; [reflexivity|]. split; [eauto|]. split.
      - eapply rinv_same_refs; [exact RI1|exact WH2|exact SPEC].
      - rewrite WH2. simpl. assumption. }
  assert (NB : exists nb, hget w2 nid = Some nb /\ btr nb = btr b1 /\ bused nb <= bused b1 /\ bref nb = 1
               /\ (forall j, refn w2 j + (if onat_dec (Some id) (Some j) then 1 else 0)
                             = refn w1 j + (if onat_dec (Some nid) (Some j) then 1 else 0))
               /\ (forall j, refs w2 j <> Some 0)).
  { destruct SPEC as [(-> & ->)|(NID & RN & RID & OTH & nb & HN & TN & UN)].
    - exists b1. split; [assumption|]. split; [reflexivity|]. split; [lia|]. split; [lia|]. split.
      + intros j. destruct (onat_dec (Some id) (Some j)); lia.
      + intros j. apply rinv_pos. assumption.
    - exists nb. split; [assumption|]. split; [assumption|]. split; [apply UN; lia|]. split.
      + unfold refs in RN. rewrite HN in RN. simpl in RN. congruence.
      + split.
        2:{ intros j. destruct (Nat.eq_dec j nid) as [->|Nn]; [rewrite RN; discriminate|].
            destruct (Nat.eq_dec j id) as [->|Ni].
            - rewrite RID. replace (bref b1 =? 1) with true by (symmetry; apply Nat.eqb_eq; lia). discriminate.
            - rewrite OTH by assumption. apply rinv_pos. assumption. }
        intros j. destruct (Nat.eq_dec j nid) as [->|Nn].
        * unfold refn at 1. rewrite RN. rewrite (refn_none w1 nid) by (apply hget_beyond; lia).
          destruct (onat_dec (Some id) (Some nid)) as [X|X]; [inversion X; unfold w1 in NID; rewrite hput_len in NID by assumption; lia|].
          destruct (onat_dec (Some nid) (Some nid)); [lia|congruence].
        * destruct (Nat.eq_dec j id) as [->|Ni].
          -- unfold refn at 1. rewrite RID. rewrite (refn_some _ _ _ HB1).
             destruct (onat_dec (Some id) (Some id)); [|congruence].
             destruct (onat_dec (Some nid) (Some id)) as [X|X]; [inversion X; congruence|].
             replace (bref b1 =? 1) with true by (symmetry; apply Nat.eqb_eq; lia). lia.
          -- rewrite (refn_refs w1 w2 j) by (apply OTH; assumption).
             destruct (onat_dec (Some id) (Some j)) as [X|X]; [inversion X; congruence|].
             destruct (onat_dec (Some nid) (Some j)) as [Y|Y]; [inversion Y; congruence|]. lia. }
  destruct NB as (nb & HN & TN & UN & RN & EQS & POS2). rewrite HN.
  pose proof (hget_lt _ _ _ HN) as LTn.
  assert (ZR : okind_eqb (btr nb) tr = false -> bused nb = 0).
  { intros K. rewrite TN, S5 in K. specialize (Z1 K). lia. }
  destruct (retag_ok e nb tr EO (hi_wf _ _ _ HI2 _ _ HN) ZR) as (WR & ER & RR).
  exists (set_hnd (hput w2 nid (Some (retag e nb tr)) (wctx w2)) h (Some nid)), OOk. split; [reflexivity|].
  set (w3 := hput w2 nid (Some (retag e nb tr)) (wctx w2)).
  assert (HI3 : hinv e w3 m2) by (apply hinv_same_els with (b := nb); assumption).
  assert (REF3 : forall j, refs w3 j = refs w2 j).
  { intros j. unfold w3. rewrite refs_hput by assumption. destruct (Nat.eqb_spec j nid) as [->|]; [|reflexivity].
    rewrite (refs_some _ _ _ HN). simpl. congruence. }
  split; [exists m2; apply hinv_set_hnd; assumption|]. split.
  - apply (rinv_retarget w1 w3 h (Some nid) RI1); [simpl; lia|exact WH2| |].
    + intros j. rewrite (refn_refs w2 w3 j) by apply REF3.
      change (handle w1 h) with (handle w h). rewrite HH. apply EQS.
    + intros j. rewrite REF3. apply POS2.
  - rewrite set_hnd_len by (unfold w3; simpl; rewrite WH2; simpl; lia).
    unfold w3. simpl. rewrite WH2. simpl. assumption.
Qed.

Lemma reserve_distinct_none e nh w h len tr :
  env_ok e -> winv e nh w -> h < nh -> handle w h = None ->
  step_total e nh w (reserve_distinct e w h len tr None).
Proof.
  intros EO ((m & HI) & RI & LH) Hh HH. unfold reserve_distinct.
  destruct (alloc e w (if len <? 0 then 0 else len) false false tr) as [w1 rid] eqn:A.
  assert (W1 : w1 = fst (alloc e w (if len <? 0 then 0 else len) false false tr)) by (rewrite A; reflexivity).
  assert (ID : rid = length (wheap w)) by (change rid with (snd (w1, rid)); rewrite <- A; reflexivity).
  exists (set_hnd w1 h (Some rid)), OOk. split; [reflexivity|].
  subst w1. apply (attach_fresh e nh _ m h rid); auto.
  - apply hinv_alloc; assumption.
  - intros j. rewrite refs_alloc, cnt_alloc, <- ID. pose proof (RI j) as RJ.
    destruct (Nat.eqb_spec j rid) as [->|N].
    + rewrite (rinv_beyond w rid RI) by lia. lia.
    + destruct (refs w j); [lia|]. split; assumption.
Qed.

(* after the old buffer id lost the reference of handle h, the handle is pointed to the fresh rid *)
Lemma swap_to_fresh e nh w w1 m1 h id b rid :
  env_ok e -> rinv w -> length (whnd w) = nh -> h < nh -> handle w h = Some id -> hget w id = Some b ->
  rid = length (wheap w) -> whnd w1 = whnd w ->
  hinv e w1 m1 -> hget w1 id = Some b -> refs w1 rid = Some 1 ->
  (forall j, j <> rid -> refs w1 j = refs w j) ->
  exists w2, unref e w1 id = Ok w2 /\ winv e nh (set_hnd w2 h (Some rid)).
Proof.
  intros EO RI LH Hh HH HB RID WH HI1 HB1 RR OTH.
  pose proof (rinv_refn_handle _ _ _ _ RI HH HB) as RB.
  pose proof (hget_lt _ _ _ HB) as LTi.
  destruct (unref_ok e w1 m1 id b EO HI1 HB1 RB) as (w2 & m2 & EU & HI2 & WH2 & WL2 & OTH2 & AT2).
  exists w2. split; [assumption|].
  split; [exists m2; apply hinv_set_hnd; assumption|]. split.
  - apply (rinv_retarget w w2 h (Some rid) RI); [lia|congruence| |].
    + intros j. rewrite HH. destruct (Nat.eq_dec j id) as [->|Ni].
      * unfold refn at 1. unfold refs. rewrite AT2. rewrite (refn_some _ _ _ HB).
        destruct (onat_dec (Some id) (Some id)); [|congruence].
        destruct (onat_dec (Some rid) (Some id)) as [X|X]; [inversion X; lia|].
        destruct (Nat.eqb_spec (bref b) 1); simpl; lia.
      * assert (R2 : refs w2 j = refs w1 j) by (unfold refs; rewrite OTH2 by assumption; reflexivity).
        rewrite (refn_refs w1 w2 j R2).
        destruct (onat_dec (Some id) (Some j)) as [X|X]; [inversion X; congruence|].
        destruct (Nat.eq_dec j rid) as [->|Nr].
        -- unfold refn at 1. rewrite RR. rewrite (refn_none w rid) by (apply hget_beyond; lia).
           destruct (onat_dec (Some rid) (Some rid)); [lia|congruence].
        -- rewrite (refn_refs w w1 j) by (apply OTH; assumption).
           destruct (onat_dec (Some rid) (Some j)) as [Y|Y]; [inversion Y; congruence|]. lia.
    + intros j. destruct (Nat.eq_dec j id) as [->|Ni].
      * unfold refs. rewrite AT2. destruct (Nat.eqb_spec (bref b) 1); [discriminate|]. simpl. intros [= X]. lia.
      * unfold refs. rewrite OTH2 by assumption. fold (refs w1 j).
        destruct (Nat.eq_dec j rid) as [->|Nr]; [rewrite RR; discriminate|].
        rewrite OTH by assumption. apply rinv_pos. assumption.
  - rewrite set_hnd_len by (rewrite WH2, WH; lia). rewrite WH2, WH. assumption.
Qed.

Lemma reserve_distinct_some e nh w h len tr id b :
  env_ok e -> winv e nh w -> h < nh -> handle w h = Some id -> hget w id = Some b ->
  step_total e nh w (reserve_distinct e w h len tr (Some (id, b))).
Proof.
  intros EO ((m & HI) & RI & LH) Hh HH HB. unfold reserve_distinct.
  pose proof (hget_lt _ _ _ HB) as LTi.
  set (used := if okind_eqb (btr b) tr && negb (bncp b)
               then match btr b with Some ko => bused b - bused b mod esz e ko | None => bused b end else 0).
  destruct (alloc e w (if len <? used then used else len) false false tr) as [w1 rid] eqn:A.
  assert (W1 : w1 = fst (alloc e w (if len <? used then used else len) false false tr)) by (rewrite A; reflexivity).
  assert (RID : rid = length (wheap w)) by (change rid with (snd (w1, rid)); rewrite <- A; reflexivity).
  set (size := alloc_size e (if len <? used then used else len)).
  set (rb := mkbuf 1 false false size 0 tr (mkslots e tr size)).
  assert (HR1 : hget w1 rid = Some rb) by (rewrite W1, hget_alloc, RID, Nat.eqb_refl; reflexivity).
  assert (HB1 : hget w1 id = Some b).
  { rewrite W1, hget_alloc. destruct (Nat.eqb_spec id (length (wheap w))); [lia|assumption]. }
  assert (HI1 : hinv e w1 m) by (rewrite W1; apply hinv_alloc; assumption).
  assert (WH1 : whnd w1 = whnd w) by (rewrite W1; reflexivity).
  assert (L1 : length (wheap w1) = S (length (wheap w))).
  { rewrite W1. unfold alloc. simpl. rewrite app_length. simpl. lia. }
  assert (O1 : forall j, j <> rid -> refs w1 j = refs w j).
  { intros j N. rewrite W1, refs_alloc. destruct (Nat.eqb_spec j (length (wheap w))); [lia|reflexivity]. }
  assert (RR1 : refs w1 rid = Some 1) by (rewrite (refs_some _ _ _ HR1); reflexivity).
  destruct (Nat.eqb_spec used 0) as [U0|U0]; cbn [negb].
  - destruct (swap_to_fresh e nh w w1 m h id b rid EO RI LH Hh HH HB RID WH1 HI1 HB1 RR1 O1) as (w2 & EU & WI2).
    rewrite EU. cbn [bind]. exists (set_hnd w2 h (Some rid)), OOk. split; [reflexivity|assumption].
  - rewrite HR1.
    assert (KU : okind_eqb (btr b) tr = true /\ used = match btr b with Some ko => bused b - bused b mod esz e ko | None => bused b end).
    { unfold used in *. destruct (okind_eqb (btr b) tr && negb (bncp b)) eqn:K; [|lia].
      apply andb_true_iff in K. tauto. }
    destruct KU as (KE & UE). apply okind_eqb_eq in KE.
    destruct (buffer_set_ok e rb tr 0 (Some (bslots b)) used (wctx w1) m (hinv_pre e w1 m rid rb EO HI1 HR1))
      as (rb' & c' & m' & rv & ES & LO).
    { intros ks TK.
      assert (EN : buf_els e rb = []) by apply fresh_buf_els.
      rewrite EN.
      apply (wf_src_good e b ks m [] (used / esz e ks) EO).
      - exact (hi_wf _ _ _ HI _ _ HB).
      - congruence.
      - intros t Ht. apply (hi_live _ _ _ HI). eauto.
      - intros t _ [].
      - apply div_le_mono'; [apply esz_pos; assumption|]. rewrite UE, KE, TK. lia. }
    rewrite ES. cbn [bind].
    set (w1' := hput w1 rid (Some rb') c').
    assert (LTr : rid < length (wheap w1)) by lia.
    assert (HI1' : hinv e w1' m') by (eapply hinv_local; eassumption).
    assert (RB' : bref rb' = 1).
    { destruct LO as [(S1 & _) _ _ _ _ _ _]. simpl in S1. assumption. }
    assert (HR1' : hget w1' rid = Some rb') by (unfold w1'; rewrite hget_hput_eq by assumption; reflexivity).
    assert (HB1' : hget w1' id = Some b) by (unfold w1'; rewrite hget_hput_ne by lia; assumption).
    assert (O1' : forall j, j <> rid -> refs w1' j = refs w j).
    { intros j N. unfold w1'. rewrite refs_hput by assumption. destruct (Nat.eqb_spec j rid); [contradiction|]. apply O1. assumption. }
    assert (RR1' : refs w1' rid = Some 1) by (rewrite (refs_some _ _ _ HR1'); simpl; congruence).
    destruct rv as [n|err].
    + destruct (swap_to_fresh e nh w w1' m' h id b rid EO RI LH Hh HH HB RID WH1 HI1' HB1' RR1' O1') as (w2 & EU & WI2).
      rewrite EU. cbn [bind]. exists (set_hnd w2 h (Some rid)), OOk. split; [reflexivity|assumption].
    + destruct (unref_ok e w1' m' rid rb' EO HI1' HR1' ltac:(lia)) as (w2 & m2 & EU & HI2 & WH2 & WL2 & OTH2 & AT2).
      rewrite EU. cbn [bind]. exists w2, ORefused. split; [reflexivity|].
      split; [eauto|]. split.
      * eapply rinv_same_refs; [exact RI|rewrite WH2; unfold w1'; simpl; exact WH1|].
        intros j. unfold refs. destruct (Nat.eq_dec j rid) as [->|N].
        -- rewrite AT2, RB'. simpl. rewrite hget_beyond by lia. reflexivity.
        -- rewrite OTH2 by assumption. fold (refs w1' j). fold (refs w j). apply O1'. assumption.
      * rewrite WH2. unfold w1'. simpl. rewrite WH1. assumption.
Qed.

Lemma array_reserve_total e nh w h len tr :
  env_ok e -> winv e nh w -> h < nh -> step_total e nh w (array_reserve e w h len tr).
Proof.
  intros EO WI Hh. pose proof WI as ((m & HI) & RI & LH). unfold array_reserve.
  replace (match tr with Some k => esz e k =? 0 | None => false end) with false.
  2:{ destruct tr as [k|]; [|reflexivity]. pose proof (esz_pos e k EO). symmetry. apply Nat.eqb_neq. lia. }
  destruct (handle w h) as [id|] eqn:HH.
  - destruct (rinv_handle _ _ _ RI HH) as (b & HB & RB). rewrite HB.
    destruct (shared b || bimm b) eqn:D.
    + apply reserve_distinct_some; assumption.
    + apply reserve_reuse_total; try assumption.
      apply orb_false_iff in D. destruct D as [D _]. unfold shared in D. apply Nat.ltb_ge in D. lia.
  - apply reserve_distinct_none; assumption.
Qed.

(* ---------------------------------------------------------------- unique_array<T> *)

Lemma uarray_reserve_total e nh w h n :
  env_ok e -> winv e nh w -> h < nh ->
  exists w1 ok, uarray_reserve e w h n = Ok (w1, ok) /\ winv e nh w1.
Proof.
  intros EO WI Hh. unfold uarray_reserve.
  destruct (handle w h) as [id|] eqn:HH.
  - set (n' := if n <? uarray_length e w h then uarray_length e w h else n).
    pose proof (op_detach_total e nh w h (n' * esz e KA) EO WI Hh) as (w' & o & E & WI').
    unfold on_buf in E. rewrite HH in E.
    pose proof WI as (_ & RI & _). destruct (rinv_handle _ _ _ RI HH) as (b & HB & _). rewrite HB in E.
    destruct (detach e w id (n' * esz e KA)) as [[w2 r]| |]; cbn [bind] in *; try discriminate.
    destruct r as [nid|]; injection E as <- _; eauto.
  - pose proof (reserve_distinct_none e nh w h (n * esz e KA) (Some KA) EO WI Hh HH) as (w' & o & E & WI').
    (* same allocation, but with the NoCopy flag of buffer::create_unique *)
    pose proof WI as ((m & HI) & RI & LH).
    destruct (alloc e w (n * esz e KA) false true (Some KA)) as [w1 id] eqn:A.
    assert (W1 : w1 = fst (alloc e w (n * esz e KA) false true (Some KA))) by (rewrite A; reflexivity).
    assert (ID : id = length (wheap w)) by (change id with (snd (w1, id)); rewrite <- A; reflexivity).
    exists (set_hnd w1 h (Some id)), true. split; [reflexivity|].
    subst w1. apply (attach_fresh e nh _ m h id); auto.
    + apply hinv_alloc; assumption.
    + intros j. rewrite refs_alloc, cnt_alloc, <- ID. pose proof (RI j) as RJ.
      destruct (Nat.eqb_spec j id) as [->|N].
      * rewrite (rinv_beyond w id RI) by lia. lia.
      * destruct (refs w j); [lia|]. split; assumption.
Qed.

Lemma op_uinsert_total e nh w h pos :
  env_ok e -> winv e nh w -> h < nh -> step_total e nh w (op_uinsert e w h pos).
Proof.
  intros EO WI Hh. unfold op_uinsert.
  destruct (negb (uarray_applicable w h)); [exists w, OSkip; split; [reflexivity|assumption]|].
  destruct (uarray_reserve_total e nh w h
              ((if uarray_length e w h <? pos then pos else uarray_length e w h) + 1) EO WI Hh) as (w1 & ok & E & WI1).
  rewrite E. cbn [bind]. destruct ok; [|exists w1, ORefused; split; [reflexivity|assumption]].
  apply on_local_total; auto. apply do_insert_total.
Qed.

Lemma op_uresize_total e nh w h n :
  env_ok e -> winv e nh w -> h < nh -> step_total e nh w (op_uresize e w h n).
Proof.
  intros EO WI Hh. unfold op_uresize.
  destruct (negb (uarray_applicable w h)); [exists w, OSkip; split; [reflexivity|assumption]|].
  destruct (uarray_reserve_total e nh w h n EO WI Hh) as (w1 & ok & E & WI1).
  rewrite E. cbn [bind]. destruct ok; [|exists w1, ORefused; split; [reflexivity|assumption]].
  apply on_local_total; auto. apply do_setlen_total.
Qed.

(* ---------------------------------------------------------------- one step, histories *)

Lemma step_total_all e nh w o :
  env_ok e -> winv e nh w -> step_total e nh w (step e w o).
Proof.
  intros EO WI. pose proof WI as (_ & _ & LH). unfold step.
  destruct (forallb (fun h => h <? length (whnd w)) (op_handles o)) eqn:F.
  2:{ exists w, OSkip. split; [reflexivity|assumption]. }
  rewrite forallb_forall in F.
  assert (HO : forall h, In h (op_handles o) -> h < nh).
  { intros h Hh. apply F in Hh. apply Nat.ltb_lt in Hh. lia. }
  destruct o; simpl in HO; cbn [step_op].
  - apply op_new_total; auto.
  - apply array_reserve_total; auto.
  - apply on_local_total; auto. apply do_set_total.
  - apply on_local_total; auto. apply do_insert_total.
  - apply on_local_total; auto. apply do_cut_total.
  - apply op_detach_total; auto.
  - apply clone_total; auto.
  - destruct (release_total e nh w h EO WI) as (w' & o' & E & WI' & _ & _); [auto|]. exists w', o'. auto.
  - apply on_local_total; auto. apply do_trim_total.
  - apply on_local_total; auto. apply do_skip_total.
  - apply on_local_total; auto. apply do_append_total.
  - apply on_local_total; auto. apply do_setlen_total.
  - apply op_copy_total; auto.
  - apply op_move_total; auto.
  - apply op_uinsert_total; auto.
  - apply op_uresize_total; auto.
  - exists w, OOk. split; [reflexivity|assumption].
Qed.
