(* C05/TypedSet.v — mpt_buffer_set on a typed buffer: every position (inside, at the end of,
   behind the used elements), every length, with and without source elements, with
   constructors that fail anywhere. *)
From MptV Require Import Base.Mem C05.TypedModel C05.TypedSpec C05.TypedMonitor C05.TypedLoops C05.TypedOps.
Local Open Scope nat_scope.

(* the first n source slots are live elements that are not elements of the target *)
Definition src_good (m : mon) (E : list nat) (src : option (list slot)) (n : nat) : Prop :=
  match src with
  | None => True
  | Some s => forall j, j < n -> exists t, nth_error s j = Some (STok t) /\ In t (mlive m) /\ ~ In t E
  end.

Lemma src_good_srcs_ok m m' E src n :
  src_good m E src n ->
  (forall t, In t (mlive m) -> ~ In t E -> In t (mlive m')) ->
  srcs_ok m' src 0 n.
Proof.
  intros G H. destruct src as [s|]; simpl in *; [|exact I].
  intros j Hj. destruct (G j Hj) as (t & N & L & D). exists t. split; [assumption|]. apply H; assumption.
Qed.

Lemma kind_eqb_eq a b : kind_eqb a b = true -> a = b.
Proof. destruct a, b; simpl; congruence. Qed.

Lemma seq_app2 a n k : seq a n ++ seq (a + n) k = seq a (n + k).
Proof. symmetry. apply seq_app. Qed.

Lemma src_good_sel m E (hi : bool) src n : src_good m E src n -> src_good m E (if hi then src else None) n.
Proof. destruct hi; [tauto|]. intros _. exact I. Qed.

Lemma buffer_set_typed_ok e cf b k p l src c m :
  pre e b c m -> btr b = Some k ->
  (p + l) * esz e k <= bsize b ->
  src_good m (buf_els e b) src l ->
  exists b' c' m' r,
    buffer_set_typed (eshape e) cf b (esz e k) (p * esz e k) (p * esz e k + l * esz e k) src c = Ok (b', c', r)
    /\ local_ok e b c m b' c' m'.
Proof.
  intros P T HE SG. pose proof P as [EO W M ND IN].
  destruct (typed_pre e b c m k P T) as (Hs & EL & J & SL & US & LEN & BE & ULE & NDE & INE).
  set (sz := esz e k) in *.
  unfold buffer_set_typed. fold (ehi e). fold (ehf e).
  (* source data of elements with finaliser but without init function is refused *)
  dif; [do 4 eexists; split; [reflexivity|]; apply pre_refl; assumption|]. clear E.
  apply (src_good_sel m (buf_els e b) (ehi e)) in SG.
  set (src' := if ehi e then src else None) in *. clearbody src'. clear src. rename src' into src.
  replace (p * sz + l * sz) with ((p + l) * sz) by nia.
  assert (UA : bused b - bused b mod sz = length EL * sz).
  { rewrite US, mul_mod by assumption. lia. }
  rewrite UA.
  assert (CAP : p + l <= length EL + length J).
  { rewrite LEN. apply mul_le_div; assumption. }
  rewrite BE in SG.
  destruct (le_lt_dec p (length EL)) as [HP|HP].
  - (* ---- the target range starts inside or at the end of the used elements ---- *)
    set (q := Nat.min (p + l) (length EL)).
    destruct (split3 EL p q) as (E1' & E2' & E3' & EQ & L1 & L2 & L3); [unfold q; lia|unfold q; lia|].
    rewrite EQ in NDE. destruct (disj3 _ _ _ NDE) as (N1 & N2 & N3 & D12 & D13 & D23).
    assert (LEL : length EL = p + length E2' + length E3') by (rewrite EQ, !app_length; lia).
    assert (OVL : (if (p + l) * sz <? length EL * sz then (p + l) * sz else length EL * sz)
                  = (p + length E2') * sz).
    { rewrite mul_lt_mono by assumption. unfold q in *.
      destruct (Nat.ltb_spec (p + l) (length EL)); f_equal; lia. }
    rewrite OVL.
    destruct (fini_range (ehf e) sz (bsize b) E2' (S (length EL * sz)) p (map STok E1') (map STok E3' ++ J) c m)
      as (c1 & m1 & FL & S1 & SC1); try assumption.
    { rewrite map_length. assumption. }
    { nia. }
    { nia. }
    { intros x Hx. apply INE. rewrite EQ, !in_app_iff. tauto. }
    rewrite SL.
    replace (map STok EL) with (map STok E1' ++ map STok E2' ++ map STok E3') by (rewrite EQ, !map_app; reflexivity).
    rewrite <- !app_assoc. rewrite FL. cbn [bind].
    rewrite gap_loop_done by nia. cbn [bind negb].
    (* copy / default construct [p, p+l) *)
    set (R := map (dead (ehf e)) E2' ++ map STok E3' ++ J).
    assert (LR : length R = length E2' + length E3' + length J).
    { unfold R. rewrite !app_length, !map_length. lia. }
    assert (SRC1 : srcs_ok m1 src 0 l).
    { eapply src_good_srcs_ok; [eassumption|]. intros t Lt Dt.
      apply (st_live _ _ _ _ _ _ S1). left. split; [assumption|].
      intros H. apply Dt. rewrite EQ, !in_app_iff. tauto. }
    destruct (copy_loop_spec (ehi e) cf sz (bsize b) src Hs (firstn l R) (S ((p + l) * sz)) p 0 0
                (map STok E1') (skipn l R) c1 m1)
      as (kc & c3 & m3 & count & failed & CL & K1 & K2 & K3 & S3).
    { rewrite map_length. assumption. }
    { rewrite firstn_length, Nat.min_l by lia. assumption. }
    { rewrite firstn_length, Nat.min_l by lia. nia. }
    { apply S1. }
    { rewrite firstn_length, Nat.min_l by lia. assumption. }
    rewrite firstn_length, Nat.min_l in CL, K1, K2, K3 by lia.
    rewrite firstn_skipn in CL. rewrite CL. cbn [bind].
    pose proof (mon_step_trans _ _ _ _ _ _ _ _ _ _ S1 S3) as S13.
    rewrite (st_next _ _ _ _ _ _ S1) in *. simpl length in *. rewrite Nat.add_0_r in *.
    rewrite app_nil_r in S13. simpl in S13.
    assert (S13' : mon_step c m c3 m3 E2' (seq (cnext c) kc)) by (apply S13; intros x _ []).
    assert (INC2 : incl E2' EL) by (rewrite EQ; intros x Hx; rewrite !in_app_iff; tauto).
    destruct (le_lt_dec (p + l) (length EL)) as [INS|OUT].
    + (* the whole range lies inside the used elements: |E2'| = l, the tail E3' stays *)
      assert (L2' : length E2' = l) by (unfold q in *; lia).
      assert (FR : firstn l R = map (dead (ehf e)) E2') by (unfold R; apply firstn_exact; rewrite map_length; assumption).
      assert (SR : skipn l R = map STok E3' ++ J) by (unfold R; apply skipn_exact; rewrite map_length; assumption).
      rewrite FR, SR in *.
      destruct failed as [pf|].
      * (* fatal: the tail [p+l, used) is finalised, the buffer ends at the failed position *)
        destruct (K3 pf eq_refl) as [-> KL].
        set (P3 := map STok E1' ++ map STok (seq (cnext c) kc) ++ skipn kc (map (dead (ehf e)) E2')).
        assert (LP3 : length P3 = p + l).
        { unfold P3. rewrite !app_length, !map_length, seq_length, skipn_length, map_length. lia. }
        destruct (fini_range (ehf e) sz (bsize b) E3' (S (length EL * sz)) (p + l) P3 J c3 m3)
          as (c4 & m4 & FL4 & S4 & SC4); try assumption.
        { nia. }
        { nia. }
        { apply S13'. }
        { intros x Hx. apply (st_live _ _ _ _ _ _ S13'). left. split.
          - apply INE. rewrite EQ, !in_app_iff. tauto.
          - intros H. apply (D23 x H Hx). }
        replace ((p + l + length E3') * sz) with (length EL * sz) in FL4 by nia.
        unfold P3 in FL4. rewrite <- !app_assoc in FL4. rewrite FL4. cbn [bind].
        do 4 eexists. split; [reflexivity|].
        pose proof (mon_step_trans _ _ _ _ _ _ _ _ _ _ S13' S4) as S14. rewrite app_nil_r in S14.
        replace (map STok E1' ++ map STok (seq (cnext c) kc) ++ skipn kc (map (dead (ehf e)) E2') ++ map (dead (ehf e)) E3' ++ J)
          with (map STok (E1' ++ seq (cnext c) kc) ++ (skipn kc (map (dead (ehf e)) E2') ++ map (dead (ehf e)) E3' ++ J))
          by (rewrite map_app, <- app_assoc; reflexivity).
        eapply (local_ok_intro e b c m c4 m4 k EL (E2' ++ E3') (seq (cnext c) kc) (E1' ++ seq (cnext c) kc)); eauto.
        -- apply S14. intros x Hx Hn. eapply (fresh_not_old c m EL); try eassumption.
           rewrite EQ, !in_app_iff. tauto.
        -- rewrite EQ. intros x Hx. rewrite !in_app_iff in *. tauto.
        -- eapply nodup_fresh_app; try eassumption. intros x Hx. apply INE. rewrite EQ, in_app_iff. tauto.
        -- intros t. rewrite EQ, !in_app_iff. specialize (D12 t). specialize (D13 t). tauto.
        -- rewrite app_length, seq_length. fold sz. nia.
        -- fold sz. nia.
        -- fold sz. rewrite !app_length, seq_length, skipn_length, !map_length. lia.
      * (* all constructed: E1' ++ new ++ E3' *)
        specialize (K2 eq_refl). subst kc.
        rewrite skipn_all2 in * by (rewrite map_length; lia). simpl app in *.
        replace (length EL * sz <? (p + l) * sz) with false by (symmetry; apply Nat.ltb_ge; nia).
        do 4 eexists. split; [reflexivity|].
        replace (map STok E1' ++ map STok (seq (cnext c) l) ++ map STok E3' ++ J)
          with (map STok (E1' ++ seq (cnext c) l ++ E3') ++ J)
          by (rewrite !map_app, <- !app_assoc; reflexivity).
        eapply (local_ok_intro e b c m c3 m3 k EL E2' (seq (cnext c) l) (E1' ++ seq (cnext c) l ++ E3')); eauto.
        -- apply NoDup_app3; auto; [apply seq_NoDup| |];
             intros x Hx Hy; eapply (fresh_not_old c m EL); try eassumption; rewrite EQ, !in_app_iff; tauto.
        -- intros t. rewrite EQ, !in_app_iff. specialize (D12 t). specialize (D23 t). tauto.
        -- rewrite !app_length, seq_length. fold sz. nia.
        -- fold sz. rewrite !app_length, seq_length. lia.
    + (* the range reaches behind the used elements: E3' = [], everything from p on is replaced *)
      assert (E3' = []) by (destruct E3'; [reflexivity|unfold q in *; simpl in L3; lia]). subst E3'.
      simpl app in *. rewrite app_nil_r in *.
      replace (length EL * sz <? (p + l) * sz) with true by (symmetry; apply Nat.ltb_lt; nia).
      destruct failed as [pf|].
      * destruct (K3 pf eq_refl) as [-> KL].
        rewrite fini_loop_done by nia. cbn [bind].
        do 4 eexists. split; [reflexivity|].
        rewrite app_assoc, <- map_app.
        eapply (local_ok_intro e b c m c3 m3 k EL E2' (seq (cnext c) kc) (E1' ++ seq (cnext c) kc)); eauto.
        -- eapply nodup_fresh_app; try eassumption. intros x Hx. apply INE. rewrite EQ, in_app_iff. tauto.
        -- intros t. rewrite EQ, !in_app_iff. specialize (D12 t). tauto.
        -- rewrite app_length, seq_length. fold sz. nia.
        -- fold sz. nia.
        -- fold sz. rewrite !app_length, seq_length, !skipn_length, firstn_length, LR. simpl length in *. lia.
      * specialize (K2 eq_refl). subst kc.
        do 4 eexists. split; [reflexivity|].
        rewrite app_assoc, <- map_app.
        eapply (local_ok_intro e b c m c3 m3 k EL E2' (seq (cnext c) l) (E1' ++ seq (cnext c) l)); eauto.
        -- eapply nodup_fresh_app; try eassumption. intros x Hx. apply INE. rewrite EQ, in_app_iff. tauto.
        -- intros t. rewrite EQ, !in_app_iff. specialize (D12 t). tauto.
        -- rewrite app_length, seq_length. fold sz. nia.
        -- fold sz. rewrite !app_length, seq_length, !skipn_length, firstn_length, LR. simpl length in *. lia.
  - (* ---- the target range starts behind the used elements: the gap is default constructed ---- *)
    replace ((p + l) * sz <? length EL * sz) with false by (symmetry; apply Nat.ltb_ge; nia).
    rewrite fini_loop_done by nia. cbn [bind].
    destruct (insert_gap e b c m k EL J p l P T SL US LEN BE NDE INE)
      as (kk & c1 & m1 & sl2 & reached & ok & J1 & GL & SL2 & LJ & RE & K1 & K2 & S1 & LO); [lia|assumption|].
    fold sz in GL, RE, LO, LJ.
    rewrite SL, GL. cbn [bind].
    destruct ok; cbn [negb].
    2:{ do 4 eexists. split; [reflexivity|]. apply LO. rewrite app_length, seq_length. assumption. }
    specialize (K2 eq_refl). subst kk.
    assert (LJ1 : l <= length J1).
    { rewrite app_length, seq_length in LJ. lia. }
    assert (SRC1 : srcs_ok m1 src 0 l).
    { eapply src_good_srcs_ok; [eassumption|]. intros t Lt Dt.
      apply (st_live _ _ _ _ _ _ S1). left. split; [assumption|]. intros []. }
    destruct (copy_loop_spec (ehi e) cf sz (bsize b) src Hs (firstn l J1) (S ((p + l) * sz)) p 0 0
                (map STok (EL ++ seq (cnext c) (p - length EL))) (skipn l J1) c1 m1)
      as (kc & c3 & m3 & count & failed & CL & K1' & K2' & K3' & S3).
    { rewrite map_length, app_length, seq_length. lia. }
    { rewrite firstn_length, Nat.min_l by lia. assumption. }
    { rewrite firstn_length, Nat.min_l by lia. nia. }
    { apply S1. }
    { rewrite firstn_length, Nat.min_l by lia. assumption. }
    rewrite firstn_length, Nat.min_l in CL, K1', K2', K3' by lia.
    rewrite firstn_skipn in CL. rewrite SL2, CL. cbn [bind].
    pose proof (mon_step_trans _ _ _ _ _ _ _ _ _ _ S1 S3) as S13.
    rewrite (st_next _ _ _ _ _ _ S1), seq_length in *. simpl app in S13.
    rewrite seq_app2 in S13.
    assert (S13' : mon_step c m c3 m3 [] (seq (cnext c) (p - length EL + kc))) by (apply S13; intros x []).
    assert (FIN : forall J' used',
      used' = length (EL ++ seq (cnext c) (p - length EL + kc)) * sz -> used' <= bsize b ->
      length (EL ++ seq (cnext c) (p - length EL + kc)) + length J' = bsize b / sz ->
      local_ok e b c m
        (with_used (with_slots b (map STok (EL ++ seq (cnext c) (p - length EL + kc)) ++ J')) used') c3 m3).
    { intros J' used' U1 U2 U3.
      eapply (local_ok_intro e b c m c3 m3 k EL [] (seq (cnext c) (p - length EL + kc))
                (EL ++ seq (cnext c) (p - length EL + kc))); eauto.
      - intros x [].
      - eapply nodup_fresh_app; eassumption.
      - intros t. rewrite in_app_iff. simpl. tauto. }
    replace (map STok (EL ++ seq (cnext c) (p - length EL)) ++
             map STok (seq (cnext c + (p - length EL)) kc) ++ skipn kc (firstn l J1) ++ skipn l J1)
      with (map STok (EL ++ seq (cnext c) (p - length EL + kc)) ++ (skipn kc (firstn l J1) ++ skipn l J1))
      by (rewrite <- seq_app2, !map_app, <- !app_assoc; reflexivity).
    replace (length EL * sz <? (p + l) * sz) with true by (symmetry; apply Nat.ltb_lt; nia).
    rewrite app_length, seq_length in LJ.
    destruct failed as [pf|].
    + destruct (K3' pf eq_refl) as [-> KL].
      rewrite fini_loop_done by nia. cbn [bind].
      do 4 eexists. split; [reflexivity|]. apply FIN.
      * rewrite app_length, seq_length. nia.
      * nia.
      * rewrite !app_length, seq_length, !skipn_length, firstn_length. lia.
    + specialize (K2' eq_refl). subst kc.
      do 4 eexists. split; [reflexivity|]. apply FIN.
      * rewrite app_length, seq_length. nia.
      * nia.
      * rewrite !app_length, seq_length, !skipn_length, firstn_length. lia.
Qed.

(* ---------------------------------------------------------------- mpt_buffer_set with its argument checks *)

Lemma buffer_set_ok e b st pos src len c m :
  pre e b c m ->
  (forall ks, st = Some ks -> src_good m (buf_els e b) src (len / esz e ks)) ->
  exists b' c' m' r, buffer_set e b st pos src len c = Ok (b', c', r) /\ local_ok e b c m b' c' m'.
Proof.
  intros P SG. pose proof (pre_refl _ _ _ _ P) as R. pose proof P as [EO W M ND IN].
  unfold buffer_set. dif; [eauto 8|].
  destruct (btr b) as [k|] eqn:T.
  2:{ destruct st; [eauto 8|]. do 4 eexists. split; [reflexivity|]. apply raw_local_ok; auto. repeat split. }
  destruct st as [ks|]; [|eauto 8].
  dif; [eauto 8|]. dif; [eauto 8|].
  apply negb_false_iff, kind_eqb_eq in E1. subst ks.
  pose proof (esz_pos e k EO) as Hs.
  apply orb_false_iff in E0. destruct E0 as [E0 E3]. apply orb_false_iff in E0. destruct E0 as [_ E2].
  apply negb_false_iff, Nat.eqb_eq in E2. apply negb_false_iff, Nat.eqb_eq in E3. apply Nat.ltb_ge in E.
  assert (A1 : pos = pos / esz e k * esz e k) by (apply aligned_form; assumption).
  remember (pos / esz e k) as p eqn:Hp. clear Hp. subst pos.
  assert (A2 : len = len / esz e k * esz e k) by (apply aligned_form; assumption).
  remember (len / esz e k) as l eqn:Hl. clear Hl. subst len.
  specialize (SG k eq_refl). rewrite mul_div in SG by assumption.
  apply buffer_set_typed_ok; try assumption. nia.
Qed.

(* a well formed buffer as copy source *)
Lemma wf_src_good e g kg m E n :
  env_ok e -> buf_wf e g -> btr g = Some kg ->
  incl (buf_els e g) (mlive m) -> (forall t, In t (buf_els e g) -> ~ In t E) ->
  n <= bused g / esz e kg ->
  src_good m E (Some (bslots g)) n.
Proof.
  intros EO W T I D N. pose proof (esz_pos e kg EO) as Hs.
  unfold buf_wf in W. rewrite T in W.
  destruct (typed_wf_decomp _ g Hs W) as (EG & JG & SL & US & LEN).
  assert (BE : buf_els e g = EG) by (eapply buf_els_typed; eauto).
  rewrite US, mul_div in N by assumption.
  intros j Hj. exists (nth j EG 0).
  assert (In (nth j EG 0) EG) by (apply nth_In; lia).
  split; [|split].
  - rewrite SL, nth_error_app1 by (rewrite map_length; lia).
    rewrite nth_error_map. rewrite (nth_error_nth' EG 0) by lia. reflexivity.
  - apply I. rewrite BE. assumption.
  - apply D. rewrite BE. assumption.
Qed.

Lemma local_ok_pre e b c m b' c' m' :
  pre e b c m -> local_ok e b c m b' c' m' -> pre e b' c' m'.
Proof.
  intros [EO W M ND IN] [S W' M' NX ND' LV FR]. split; auto.
  intros t Ht. apply LV. right. assumption.
Qed.

Lemma local_ok_trans e b c m b1 c1 m1 b2 c2 m2 :
  pre e b c m -> local_ok e b c m b1 c1 m1 -> local_ok e b1 c1 m1 b2 c2 m2 -> local_ok e b c m b2 c2 m2.
Proof.
  intros [EO W M ND IN] [S1 W1 M1 NX1 ND1 LV1 FR1] [S2 W2 M2 NX2 ND2 LV2 FR2]. split; auto.
  - unfold same_static in *. intuition congruence.
  - lia.
  - intros t. rewrite LV2, LV1. split.
    + intros [[[[L D]|H] N]|H]; auto. contradiction.
    + intros [[L D]|H]; auto. left. split; auto. intros H. destruct (FR1 t H) as [H1|H1]; [contradiction|].
      pose proof (live_lt _ _ _ M L). lia.
  - intros t H. destruct (FR2 t H) as [H1|H1]; [apply FR1; assumption|right; lia].
Qed.

(* ---------------------------------------------------------------- buffer::copy *)

Lemma cxx_copy_ok e b g c m :
  pre e b c m -> buf_wf e g ->
  incl (buf_els e g) (mlive m) -> (forall t, In t (buf_els e g) -> ~ In t (buf_els e b)) ->
  exists b' c' m' ok, cxx_copy e b g c = Ok (b', c', ok) /\ local_ok e b c m b' c' m'.
Proof.
  intros P WG IG DG. pose proof P as [EO W M ND IN].
  unfold cxx_copy.
  destruct (buffer_set_ok e b (btr g) 0 (Some (bslots g)) (bused g) c m P) as (b1 & c1 & m1 & r & E1 & L1).
  { intros ks T. eapply wf_src_good; eauto. }
  rewrite E1. cbn [bind].
  destruct r as [n|err]; [|eauto 8].
  dif; [|eauto 8].
  pose proof (local_ok_pre _ _ _ _ _ _ _ P L1) as P1.
  destruct (cxx_trim_ok e b1 (bused b1 - bused g) c1 m1 P1) as (b2 & c2 & m2 & ok & E2 & L2).
  rewrite E2. cbn [bind]. do 4 eexists. split; [reflexivity|].
  eapply local_ok_trans; eassumption.
Qed.

(* ---------------------------------------------------------------- sources built by the caller *)

Lemma make_sources_spec n : forall c m,
  mon_ok c m ->
  exists c0 m0, make_sources n c = (map STok (seq (cnext c) n), c0)
    /\ mon_step c m c0 m0 [] (seq (cnext c) n) /\ cscript c0 = cscript c.
Proof.
  induction n as [|n IH]; intros c m M.
  - exists c, m. split; [reflexivity|]. split; [apply mon_step_refl; assumption|reflexivity].
  - simpl make_sources.
    destruct (mon_step_init c m None (cscript c) M I) as [m1 S1]. simpl init_event in S1.
    destruct (IH (mkctx (S (cnext c)) (cscript c) (EInit (cnext c) None :: clog c)) m1) as (c0 & m0 & E & S2 & SC).
    { apply S1. }
    rewrite E. exists c0, m0. simpl in *. split; [reflexivity|]. split; [|assumption].
    pose proof (mon_step_trans _ _ _ _ _ _ _ _ _ _ S1 S2) as T. simpl in T. apply T. intros x [].
Qed.

Lemma drop_sources_spec S : forall c m,
  mon_ok c m -> NoDup S -> incl S (mlive m) ->
  exists m', mon_step c m (drop_sources (map STok S) c) m' S []
             /\ cscript (drop_sources (map STok S) c) = cscript c.
Proof.
  induction S as [|t S IH]; intros c m M ND IN.
  - exists m. split; [apply mon_step_refl; assumption|reflexivity].
  - simpl. inversion ND as [|? ? Ht ND']; subst.
    destruct (mon_step_fini c m t M) as [m1 S1]; [apply IN; left; reflexivity|].
    destruct (IH (logev (EFini t) c) m1) as (m' & S2 & SC); [apply S1|assumption| |].
    { intros x Hx. apply (st_live _ _ _ _ _ _ S1). left. split; [apply IN; right; assumption|].
      intros [->|[]]. contradiction. }
    exists m'. split; [|rewrite SC; reflexivity].
    pose proof (mon_step_trans _ _ _ _ _ _ _ _ _ _ S1 S2) as T. simpl in T. apply T. intros x _ [].
Qed.

Lemma nth_error_map_seq a n j : j < n -> nth_error (map STok (seq a n)) j = Some (STok (a + j)).
Proof.
  intros H. rewrite nth_error_map. rewrite (nth_error_nth' (seq a n) 0) by (rewrite seq_length; assumption).
  rewrite seq_nth by assumption. reflexivity.
Qed.

Lemma do_set_total e tr pos len withsrc : local_total e (do_set e tr pos len withsrc).
Proof.
  intros b c m P. pose proof P as [EO W M ND IN].
  unfold do_set.
  set (n := match tr with Some k => (len + esz e k - 1) / esz e k | None => 0 end).
  destruct withsrc.
  - destruct (make_sources_spec n c m M) as (c0 & m0 & MS & S0 & SC0). rewrite MS.
    set (SR := seq (cnext c) n) in *.
    assert (FRESH : forall t, In t SR -> ~ In t (mlive m)).
    { intros t Ht Hl. pose proof (live_lt _ _ _ M Hl). apply in_seq in Ht. lia. }
    assert (P0 : pre e b c0 m0).
    { split; auto; [apply S0|]. intros t Ht. apply (st_live _ _ _ _ _ _ S0). left. split; [auto|intros []]. }
    destruct (buffer_set_ok e b tr pos (Some (map STok SR)) len c0 m0 P0) as (b' & c' & m' & r & E & L).
    { intros ks ->. intros j Hj.
      assert (JN : j < n).
      { unfold n. pose proof (esz_pos e ks EO) as Hs.
        eapply Nat.lt_le_trans; [eassumption|]. apply Nat.div_le_mono; lia. }
      exists (cnext c + j). split; [apply nth_error_map_seq; assumption|].
      assert (In (cnext c + j) SR) by (apply in_seq; lia).
      split.
      - apply (st_live _ _ _ _ _ _ S0). right. assumption.
      - intros H'. apply (FRESH _ H). apply IN. assumption. }
    rewrite E. cbn [bind].
    destruct L as [LS LW LM LN LD LL LF].
    assert (SRL : incl SR (mlive m')).
    { intros t Ht. apply LL. left. split.
      - apply (st_live _ _ _ _ _ _ S0). right. assumption.
      - intros H'. apply (FRESH _ Ht). apply IN. assumption. }
    destruct (drop_sources_spec SR c' m' LM (seq_NoDup _ _) SRL) as (m2 & S2 & SC2).
    do 4 eexists. split; [reflexivity|].
    assert (NB' : forall t, In t SR -> ~ In t (buf_els e b')).
    { intros t Ht Hb. destruct (LF t Hb) as [H|H].
      - apply (FRESH _ Ht). apply IN. assumption.
      - rewrite (st_next _ _ _ _ _ _ S0) in H. unfold SR in *. rewrite seq_length in H. apply in_seq in Ht. lia. }
    split; auto.
    + apply S2.
    + rewrite (st_next _ _ _ _ _ _ S2). simpl. rewrite (st_next _ _ _ _ _ _ S0) in LN. lia.
    + intros t. rewrite (st_live _ _ _ _ _ _ S2), LL, (st_live _ _ _ _ _ _ S0). simpl.
      specialize (FRESH t). specialize (NB' t). tauto.
    + intros t Ht. destruct (LF t Ht) as [H|H]; [left; assumption|right].
      rewrite (st_next _ _ _ _ _ _ S0) in H. lia.
  - destruct (buffer_set_ok e b tr pos None len c m P) as (b' & c' & m' & r & E & L).
    { intros ks _. exact I. }
    rewrite E. cbn [bind]. simpl drop_sources. eauto 8.
Qed.
