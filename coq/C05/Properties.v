(* C05 — Managed elements in typed buffers are finalised exactly once.
   This file holds only the property theorems (each closed by [exact] of a lemma proved
   elsewhere), their non-vacuity examples and Print Assumptions.

   Reading guide.  [world] = heap of buffers + handles + ghost context (token counter, oracle
   script of failing constructors, event log, newest first); [step] transcribes
   mpt_buffer_set / _cut / _insert, the buffer vtable (detach: copy vs move, unref), mpt_array_reserve,
   mpt_array_clone and the C++ buffer::trim/skip/copy/move/append, content<T>::set_length with their
   byte-offset loops (C05/TypedModel.v); [exec] runs a history, [release_all nh] releases every
   handle.  The specification (C05/TypedSpec.v) is the discipline [exactly_once] on the
   chronological log: every token initialised at most once, a destructor only on a live element
   (which dies), a copy constructor only from a live element, never a destructor or a copy on
   memory that is no element; [all_finalised]: every initialised token has its Fini.
   [env_ok]: element sizes and allocation granularity are positive.  No bound on element counts,
   buffer sizes, number of handles, history length or the constructor failure script.

   SHAPE of the content traits.  [env] carries [eshape e : shape] = ShFull (init and fini) | ShFini (fini
   only: mpt::reference_array<T>) | ShInit (init only); [ehi e] / [ehf e] say whether there is an init /
   a fini function.  The model takes the branches of the code accordingly: without init the gap in front
   of an insert / set position and the target of a set without source are ZERO-FILLED and each zero slot
   (the empty element of such a type) is adopted by the caller as a new element ([EInit t None] at the
   place of the memset), source data is refused (docs/C05_set_noinit_copy.diff); without fini the
   finaliser loops run as ghosts ([EFini t] = element t abandoned, its bytes stay).  Every theorem below
   that quantifies over [e] therefore holds for ALL THREE shapes (examples for each at the end). *)
From MptV Require Import Base.Mem C05.TypedModel C05.TypedSpec C05.TypedMonitor C05.TypedLoops C05.TypedOps
  C05.TypedSet C05.TypedWorld C05.TypedStep C05.TypedRun C05.TypedShared C05.TypedMove.

(* Every history of new/reserve/set/insert/cut/detach/clone/release/trim/skip/append/set_length/
   copy/move, any arguments (positions and lengths inside, at the end of, behind the data, misaligned),
   any number of handles sharing buffers, constructors failing wherever the script says: once all
   handles are released
     - no step faulted (no destructor or constructor call outside a buffer),
     - no buffer is left,
     - each token has at most one Init, a Fini only while live, copies only from live elements,
       no destructor/copy on non-elements  ([exactly_once]),
     - every initialised token has been finalised ([all_finalised]: nothing stays alive). *)
Theorem C05_elements_exactly_once :
  forall e nh script ops, env_ok e ->
    exists wf,
      exec e (init_world nh script) (ops ++ release_all nh) = Ok wf
      /\ forallb is_ok (run e (init_world nh script) (ops ++ release_all nh)) = true
      /\ (forall id, hget wf id = None)
      /\ exactly_once (rev (clog (wctx wf)))
      /\ all_finalised (rev (clog (wctx wf))).
Proof. exact history_exactly_once. Qed.

(* At EVERY point of every history the log is accepted by the specification monitor and the
   live tokens are exactly the elements stored in the used slots of the allocated buffers,
   each stored once (no raw duplicate inside a buffer or across buffers). *)
Theorem C05_stored_is_live_at_every_point :
  forall e nh script ops, env_ok e ->
    exists w m,
      exec e (init_world nh script) ops = Ok w
      /\ mon_log (clog (wctx w)) = inl m
      /\ (forall t, In t (mlive m) <-> exists id b, hget w id = Some b /\ In t (buf_els e b))
      /\ (forall id b, hget w id = Some b -> NoDup (buf_els e b))
      /\ (forall i j bi bj t, i <> j -> hget w i = Some bi -> hget w j = Some bj ->
                              In t (buf_els e bi) -> ~ In t (buf_els e bj)).
Proof. exact history_prefix_disciplined. Qed.

(* Detaching a shared typed buffer (other references remain, the type allows copies, constructors
   succeed, requested length keeps all data): the handle gets a NEW buffer whose elements are fresh
   tokens, one [EInit new (Some source)] is logged per element in order and nothing else, no token of
   the source appears in the copy (no raw element bytes duplicated), the source keeps its elements. *)
Theorem C05_shared_copy_constructs :
  forall e nh script ops w h id b k len,
    env_ok e -> exec e (init_world nh script) ops = Ok w -> h < nh ->
    handle w h = Some id -> hget w id = Some b -> btr b = Some k ->
    2 <= bref b -> bncp b = false -> ecopyfail e = false -> ehi e = true -> cscript (wctx w) = [] ->
    bused b <= len ->
    exists w' nid nb,
      step e w (OpDetach h len) = Ok (w', OOk)
      /\ handle w' h = Some nid /\ nid <> id
      /\ hget w' nid = Some nb /\ hget w' id = Some (with_ref b (bref b - 1))
      /\ clog (wctx w') = rev (copy_events (cnext (wctx w)) (buf_els e b)) ++ clog (wctx w)
      /\ buf_els e nb = seq (cnext (wctx w)) (length (buf_els e b))
      /\ (forall t, In t (buf_els e nb) -> ~ In t (buf_els e b)).
Proof. exact shared_copy_reachable. Qed.

(* Traits with a finaliser but without init function (ShFini): the elements of a shared buffer cannot be
   copied.  Detaching a handle from a shared buffer that holds elements is REFUSED and nothing changes -
   no event, same handles, same context, every buffer as before (the reference count of the shared
   buffer is restored, the block allocated for the copy is gone): no element bytes are duplicated. *)
Theorem C05_shared_noinit_refused :
  forall e nh script ops w h id b k len,
    env_ok e -> exec e (init_world nh script) ops = Ok w -> h < nh ->
    handle w h = Some id -> hget w id = Some b -> btr b = Some k ->
    2 <= bref b -> ehi e = false -> ehf e = true -> 0 < bused b -> 0 < len ->
    exists w',
      step e w (OpDetach h len) = Ok (w', ORefused)
      /\ whnd w' = whnd w /\ wctx w' = wctx w /\ (forall j, hget w' j = hget w j).
Proof. exact shared_noinit_reachable. Qed.

(* One more operation after any history: it never faults and the invariants
   (heap discipline + reference count = number of handles) hold again. *)
Theorem C05_step_never_faults :
  forall e nh script ops w o,
    env_ok e -> exec e (init_world nh script) ops = Ok w ->
    exists w' x, step e w o = Ok (w', x) /\ winv e nh w'.
Proof. exact reachable_step_total. Qed.

(* The executable monitor (run on the log of the IMPLEMENTATION by the correspondence check)
   accepts only logs that satisfy the declarative discipline; its live set is the set of
   tokens with one Init and no Fini. *)
Theorem C05_monitor_sound :
  forall l m, mon_log l = inl m -> mon_sound l m.
Proof. exact mon_log_sound. Qed.

(* Traits without finaliser (ShInit): the implementation has nothing to print when an element leaves
   the content.  The monitor used for its log, [monitor_nf] (stored elements are live ones, each stored
   once; whatever else was live is gone), gives exactly the verdicts of the full monitor on the
   observations completed by one abandon event [EFini t] for every live element that is no longer
   stored ([complete_obs]). *)
Theorem C05_monitor_nofini_complete :
  forall obs, monitor_nf mon0 obs = monitor mon0 (complete_obs mon0 obs).
Proof. exact monitor_nf_complete0. Qed.

(* ---- buffer::move / buffer::copy between TWO buffers of the same content traits ---- *)

(* buffer::move(target h, source g) after any history, two different typed buffers of the same traits, the
   source's data fits into the target's block - ANY fill of the two (target empty / shorter / equal / longer,
   source empty), all three shapes: the step is accepted and logs exactly one destructor call for EVERY
   element the target held, first to last, and nothing else (no constructor, no call on an element of the
   source, no script entry read); the target's elements are then the source's (bitwise take-over: the same
   tokens), the source is empty, no other buffer and no handle changes. *)
Theorem C05_move_finalises_target_takes_source :
  forall e nh script ops w h g id gid b gb k,
    env_ok e -> exec e (init_world nh script) ops = Ok w -> h < nh -> g < nh ->
    handle w h = Some id -> handle w g = Some gid -> id <> gid ->
    hget w id = Some b -> hget w gid = Some gb -> btr b = Some k -> btr gb = Some k -> bused gb <= bsize b ->
    exists w' b' gb',
      step e w (OpMove h g) = Ok (w', OOk)
      /\ whnd w' = whnd w
      /\ hget w' id = Some b' /\ hget w' gid = Some gb'
      /\ (forall j, j <> id -> j <> gid -> hget w' j = hget w j)
      /\ clog (wctx w') = rev (map EFini (buf_els e b)) ++ clog (wctx w)
      /\ cnext (wctx w') = cnext (wctx w) /\ cscript (wctx w') = cscript (wctx w)
      /\ buf_els e b' = buf_els e gb /\ bused b' = bused gb
      /\ buf_els e gb' = [] /\ bused gb' = 0.
Proof. exact move_reachable. Qed.

(* buffer::move that is not carried out - the buffer itself as source (same handle or two handles of one
   buffer: reported as success), other content traits, source data larger than the target's block (both
   refused): NOTHING happens - no event, same context, same handles, every buffer as before. *)
Theorem C05_move_refused_changes_nothing :
  forall e nh script ops w h g id gid b gb,
    env_ok e -> exec e (init_world nh script) ops = Ok w -> h < nh -> g < nh ->
    handle w h = Some id -> handle w g = Some gid ->
    hget w id = Some b -> hget w gid = Some gb ->
    id = gid \/ btr b <> btr gb \/ bsize b < bused gb ->
    exists w' o,
      step e w (OpMove h g) = Ok (w', o)
      /\ o = (if id =? gid then OOk else ORefused)
      /\ whnd w' = whnd w /\ wctx w' = wctx w /\ (forall j, hget w' j = hget w j).
Proof. exact move_refused_reachable. Qed.

(* buffer::copy(target h, source g), traits WITH init function (ShFull, ShInit), the type allows copies, the
   remaining constructor calls succeed, any fill of the two buffers: with n = number of source elements the
   log grows (chronologically) by one destructor call for each of the first n target elements, one copy
   construction [EInit new_i (Some source_i)] per source element in order, one destructor call for each
   target element behind the n-th; the target then holds n FRESH tokens (no element bytes of the source are
   duplicated), the source and every other buffer are untouched. *)
Theorem C05_copy_finalises_target_constructs_copies :
  forall e nh script ops w h g id gid b gb k,
    env_ok e -> exec e (init_world nh script) ops = Ok w -> h < nh -> g < nh ->
    handle w h = Some id -> handle w g = Some gid -> id <> gid ->
    hget w id = Some b -> hget w gid = Some gb -> btr b = Some k -> btr gb = Some k -> bused gb <= bsize b ->
    ehi e = true -> ecopyfail e = false -> cscript (wctx w) = [] ->
    exists w' b',
      step e w (OpCopy h g) = Ok (w', OOk)
      /\ whnd w' = whnd w
      /\ hget w' id = Some b' /\ (forall j, j <> id -> hget w' j = hget w j)
      /\ clog (wctx w') = rev (map EFini (skipn (length (buf_els e gb)) (buf_els e b)))
                          ++ rev (copy_events (cnext (wctx w)) (buf_els e gb))
                          ++ rev (map EFini (firstn (length (buf_els e gb)) (buf_els e b))) ++ clog (wctx w)
      /\ buf_els e b' = seq (cnext (wctx w)) (length (buf_els e gb)) /\ bused b' = bused gb
      /\ (forall t, In t (buf_els e b') -> ~ In t (buf_els e gb)).
Proof. exact copy_reachable. Qed.

(* buffer::copy, traits with a finaliser but WITHOUT init function (ShFini), source holds elements: they cannot
   be copied (mpt_buffer_set refuses, docs/C05_set_noinit_copy.diff) - refused, nothing happens, in
   particular no element of the target is finalised and no element bytes are duplicated. *)
Theorem C05_copy_noinit_refused :
  forall e nh script ops w h g id gid b gb k,
    env_ok e -> exec e (init_world nh script) ops = Ok w -> h < nh -> g < nh ->
    handle w h = Some id -> handle w g = Some gid -> id <> gid ->
    hget w id = Some b -> hget w gid = Some gb -> btr b = Some k -> btr gb = Some k -> bused gb <= bsize b ->
    ehi e = false -> ehf e = true -> 0 < bused gb ->
    exists w',
      step e w (OpCopy h g) = Ok (w', ORefused)
      /\ whnd w' = whnd w /\ wctx w' = wctx w /\ (forall j, hget w' j = hget w j).
Proof. exact copy_noinit_reachable. Qed.

(* ---- non-vacuity ---- *)
Definition ex_env : env := mkenv 8 16 64 128 false ShFull.

Example C05_env_ok : env_ok ex_env.
Proof. unfold env_ok, ex_env; simpl; lia. Qed.

(* a history with sharing, an overwrite in the middle, a failing constructor, trim and detach:
   10 elements are initialised and finalised (20 events), the second set hits a refused constructor *)
Definition ex_ops : list op :=
  [OpNew 0 (Some KA) 0 false false; OpSet 0 (Some KA) 0 32 true; OpClone 1 0;
   OpSet 0 (Some KA) 8 16 false; OpDetach 1 32; OpTrim 0 8; OpInsert 1 8 8].

Example C05_example_log :
  match exec ex_env (init_world 2 [true; true; true; true; false; false])
             (ex_ops ++ release_all 2) with
  | Ok w => length (clog (wctx w)) = 20 /\ mon_log (clog (wctx w)) = inl (mkmon [] 10)
  | _ => False
  end.
Proof. vm_compute. split; reflexivity. Qed.

(* the hypotheses of C05_shared_copy_constructs are met by a reachable world *)
Example C05_shared_example :
  match exec ex_env (init_world 2 []) [OpNew 0 (Some KA) 0 false false; OpSet 0 (Some KA) 0 24 true; OpClone 1 0] with
  | Ok w =>
    handle w 1 = Some 0 /\
    match hget w 0 with
    | Some b => btr b = Some KA /\ bref b = 2 /\ bncp b = false /\ bused b = 24 /\ buf_els ex_env b = [3; 4; 5]
    | None => False
    end /\ cscript (wctx w) = []
  | _ => False
  end.
Proof. vm_compute. repeat split; reflexivity. Qed.

(* the monitor rejects what the property forbids *)
Example C05_monitor_rejects_double_fini : mon_log [EFini 0; EFini 0; EInit 0 None] = inr (VFiniNotLive 0).
Proof. reflexivity. Qed.
Example C05_monitor_rejects_raw : mon_log [EFiniBad None; EInit 0 None] = inr (VFiniBad None).
Proof. reflexivity. Qed.
Example C05_monitor_rejects_copy_from_dead :
  mon_log [EInit 1 (Some 0); EFini 0; EInit 0 None] = inr (VCopyFromDead 1 0).
Proof. reflexivity. Qed.

(* ---- the other two shapes ---- *)
Definition ex_env_fini : env := mkenv 8 16 64 128 false ShFini.
Definition ex_env_init : env := mkenv 8 16 64 128 false ShInit.
Example C05_env_fini_ok : env_ok ex_env_fini /\ ehi ex_env_fini = false /\ ehf ex_env_fini = true.
Proof. unfold env_ok, ex_env_fini; simpl. repeat split; lia. Qed.
Example C05_env_init_ok : env_ok ex_env_init /\ ehi ex_env_init = true /\ ehf ex_env_init = false.
Proof. unfold env_ok, ex_env_init; simpl. repeat split; lia. Qed.

(* fini only, stale bytes behind the used data: three elements made by the caller, the first is cut
   (memmove leaves a byte copy of element 2 behind the used data), insert beyond the end (the gap slot
   is zero-filled and adopted as element 3, the caller makes 4), shrink (3 and 4 finalised, their
   patterns stay), grow by two (5, 6), set without source behind the end (gap 7, target 8), release:
   9 elements, each finalised once, 18 events *)
Definition ex_ops_fini : list op :=
  [OpNew 0 (Some KA) 0 false false; OpAppend 0 24; OpCut 0 0 8; OpInsert 0 24 8; OpSetLen 0 16; OpSetLen 0 32;
   OpSet 0 (Some KA) 40 8 false].
Example C05_example_log_fini_only :
  match exec ex_env_fini (init_world 2 []) (ex_ops_fini ++ release_all 2) with
  | Ok w => rev (clog (wctx w)) =
            [EInit 0 None; EInit 1 None; EInit 2 None; EFini 0; EInit 3 None; EInit 4 None; EFini 3; EFini 4;
             EInit 5 None; EInit 6 None; EInit 7 None; EInit 8 None;
             EFini 1; EFini 2; EFini 5; EFini 6; EFini 7; EFini 8]
            /\ mon_log (clog (wctx w)) = inl (mkmon [] 9)
  | _ => False
  end.
Proof. vm_compute. split; reflexivity. Qed.

(* init only: copies, sharing, a cut, an insert beyond the end whose gap constructor is refused, detach of
   the shared buffer (copy constructs), shrink and grow; [EFini t] = element t abandoned *)
Definition ex_ops_init : list op :=
  [OpNew 0 (Some KA) 0 false false; OpSet 0 (Some KA) 0 24 true; OpClone 1 0; OpCut 0 0 8; OpInsert 0 24 8;
   OpDetach 1 32; OpSetLen 0 16; OpSetLen 0 32].
Example C05_example_log_init_only :
  match exec ex_env_init (init_world 2 [true; true; true; false]) (ex_ops_init ++ release_all 2) with
  | Ok w => length (clog (wctx w)) = 20 /\ mon_log (clog (wctx w)) = inl (mkmon [] 10)
  | _ => False
  end.
Proof. vm_compute. split; reflexivity. Qed.

(* the hypotheses of C05_shared_noinit_refused are met by a reachable world *)
Example C05_shared_noinit_example :
  match exec ex_env_fini (init_world 2 []) [OpNew 0 (Some KA) 0 false false; OpAppend 0 24; OpClone 1 0] with
  | Ok w =>
    handle w 1 = Some 0 /\
    match hget w 0 with
    | Some b => btr b = Some KA /\ bref b = 2 /\ bused b = 24 /\ buf_els ex_env_fini b = [0; 1; 2]
    | None => False
    end
  | _ => False
  end.
Proof. vm_compute. repeat split; reflexivity. Qed.

(* the monitor for traits without finaliser: element 0 leaves unnoticed, a copy of the stored element 1 is
   fine; the same bytes stored twice / an abandoned element stored again are rejected; the completed log *)
Example C05_monitor_nofini_accepts :
  monitor_nf mon0 [Some ([EInit 0 None; EInit 1 None], [STok 0; STok 1]); Some ([], [STok 1]);
                   Some ([EInit 2 (Some 1)], [STok 1; STok 2])] = [None; None; None]
  /\ complete_obs mon0 [Some ([EInit 0 None; EInit 1 None], [STok 0; STok 1]); Some ([], [STok 1]);
                        Some ([EInit 2 (Some 1)], [STok 1; STok 2])]
     = [Some ([EInit 0 None; EInit 1 None], [STok 0; STok 1]); Some ([EFini 0], [STok 1]);
        Some ([EInit 2 (Some 1)], [STok 1; STok 2])].
Proof. split; reflexivity. Qed.
Example C05_monitor_nofini_rejects :
  monitor_nf mon0 [Some ([EInit 0 None; EInit 1 None], [STok 0; STok 1]); Some ([], [STok 1]); Some ([], [STok 1; STok 1])]
  = [None; None; Some (VStoredDup 1)]
  /\ monitor_nf mon0 [Some ([EInit 0 None; EInit 1 None], [STok 0; STok 1]); Some ([], [STok 1]); Some ([], [STok 1; STok 0])]
  = [None; None; Some (VStoredDead 0)].
Proof. split; reflexivity. Qed.

(* two buffers that both hold elements (target 0, 1 / source 2, 3, 4): the hypotheses of the move / copy
   theorems are met by a reachable world; move finalises 0 and 1 and nothing of the source, whose elements
   are finalised once when the TARGET's handle is released; copy into the shorter and into the longer
   target (fini-only traits: same move log) *)
Definition ex_pair (n0 n1 : nat) : list op :=
  [OpNew 0 (Some KA) 0 false false; OpAppend 0 n0; OpNew 1 (Some KA) 0 false false; OpAppend 1 n1].
Example C05_pair_example :
  match exec ex_env (init_world 2 []) (ex_pair 16 24) with
  | Ok w =>
    handle w 0 = Some 0 /\ handle w 1 = Some 1 /\ cscript (wctx w) = [] /\
    match hget w 0, hget w 1 with
    | Some b, Some gb => btr b = Some KA /\ btr gb = Some KA /\ bused gb <= bsize b
                         /\ buf_els ex_env b = [0; 1] /\ buf_els ex_env gb = [2; 3; 4]
    | _, _ => False
    end
  | _ => False
  end.
Proof. vm_compute. repeat split; try reflexivity. lia. Qed.
Example C05_move_example_log :
  match exec ex_env (init_world 2 []) (ex_pair 16 24 ++ [OpMove 0 1] ++ release_all 2),
        exec ex_env_fini (init_world 2 []) (ex_pair 16 24 ++ [OpMove 0 1] ++ release_all 2) with
  | Ok w, Ok wf =>
    rev (clog (wctx w)) = [EInit 0 None; EInit 1 None; EInit 2 None; EInit 3 None; EInit 4 None;
                           EFini 0; EFini 1; EFini 2; EFini 3; EFini 4]
    /\ mon_log (clog (wctx w)) = inl (mkmon [] 5) /\ clog (wctx wf) = clog (wctx w)
  | _, _ => False
  end.
Proof. vm_compute. repeat split; reflexivity. Qed.
Example C05_copy_example_log :
  match exec ex_env (init_world 2 []) (ex_pair 16 24 ++ [OpCopy 0 1] ++ release_all 2),
        exec ex_env (init_world 2 []) (ex_pair 24 8 ++ [OpCopy 0 1] ++ release_all 2) with
  | Ok w, Ok w2 =>
    rev (clog (wctx w)) = [EInit 0 None; EInit 1 None; EInit 2 None; EInit 3 None; EInit 4 None;
                           EFini 0; EFini 1; EInit 5 (Some 2); EInit 6 (Some 3); EInit 7 (Some 4);
                           EFini 5; EFini 6; EFini 7; EFini 2; EFini 3; EFini 4]
    /\ rev (clog (wctx w2)) = [EInit 0 None; EInit 1 None; EInit 2 None; EInit 3 None;
                               EFini 0; EInit 4 (Some 3); EFini 1; EFini 2; EFini 4; EFini 3]
    /\ mon_log (clog (wctx w)) = inl (mkmon [] 8) /\ mon_log (clog (wctx w2)) = inl (mkmon [] 5)
  | _, _ => False
  end.
Proof. vm_compute. repeat split; reflexivity. Qed.
(* a move that finalises only the target's EXCESS elements (the seeded change of mpt++/array.cpp) logs NO
   event for "target 0, 1 <- source 2, 3, 4"; the monitor, given the log and what the buffers store after
   the step, rejects it: element 1 (and 0) is live and stored nowhere.  With the destructor calls of the model it
   accepts. *)
Example C05_move_excess_only_is_rejected :
  monitor mon0 [Some ([EInit 0 None; EInit 1 None; EInit 2 None; EInit 3 None; EInit 4 None],
                      [STok 0; STok 1; STok 2; STok 3; STok 4]);
                Some ([], [STok 2; STok 3; STok 4])] = [None; Some (VLost 1)]
  /\ monitor mon0 [Some ([EInit 0 None; EInit 1 None; EInit 2 None; EInit 3 None; EInit 4 None],
                         [STok 0; STok 1; STok 2; STok 3; STok 4]);
                   Some ([EFini 0; EFini 1], [STok 2; STok 3; STok 4])] = [None; None].
Proof. vm_compute. split; reflexivity. Qed.

Print Assumptions C05_elements_exactly_once.
Print Assumptions C05_stored_is_live_at_every_point.
Print Assumptions C05_shared_copy_constructs.
Print Assumptions C05_step_never_faults.
Print Assumptions C05_monitor_sound.
Print Assumptions C05_shared_noinit_refused.
Print Assumptions C05_monitor_nofini_complete.
Print Assumptions C05_move_finalises_target_takes_source.
Print Assumptions C05_move_refused_changes_nothing.
Print Assumptions C05_copy_finalises_target_constructs_copies.
Print Assumptions C05_copy_noinit_refused.
