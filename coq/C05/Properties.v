(* placeholder, replaced below *)
From MptV Require Import Base.Mem C05.TypedModel C05.TypedSpec.
Example C05_placeholder : mon_log [] = inl mon0.
Proof. reflexivity. Qed.
