(* C05/TypedShared.v — detaching a shared typed buffer copy-constructs every element. *)
From MptV Require Import Base.Mem C05.TypedModel C05.TypedSpec C05.TypedMonitor C05.TypedLoops C05.TypedOps
  C05.TypedSet C05.TypedWorld C05.TypedStep C05.TypedRun.
Local Open Scope nat_scope.

(* all constructors succeed (empty script), the type allows copies: the copy loop logs one
   [EInit new (Some source)] per element, in order *)
Lemma copy_loop_all sz bsz src :
  0 < sz ->
  forall TS G fuel i k0 count P Q c,
    length P = i -> (i + length G) * sz <= bsz -> length G <= fuel -> cscript c = [] ->
    length TS = length G ->
    (forall j, j < length G -> nth_error src (k0 + j) = Some (STok (nth j TS 0))) ->
    copy_loop false fuel sz bsz (i * sz) ((i + length G) * sz) k0 (Some src) count (P ++ G ++ Q) c
    = Ok (P ++ map STok (seq (cnext c) (length G)) ++ Q,
          mkctx (cnext c + length G) [] (rev (copy_events (cnext c) TS) ++ clog c),
          count + length G, None).
Proof.
  intros Hs. induction TS as [|s TS IH]; intros G fuel i k0 count P Q c HP Hb Hf SC LS SRC.
  - destruct G; [|discriminate]. simpl. rewrite !Nat.add_0_r.
    destruct fuel; simpl; rewrite Nat.ltb_irrefl; destruct c; simpl in *; subst; reflexivity.
  - destruct G as [|x G]; [discriminate|]. simpl length in *.
    destruct fuel as [|f]; [lia|].
    simpl copy_loop. rewrite mul_lt_mono by assumption.
    replace (i <? i + S (length G)) with true by (symmetry; apply Nat.ltb_lt; lia).
    pose proof (SRC 0 ltac:(lia)) as S0. rewrite Nat.add_0_r in S0. simpl nth in S0. rewrite S0.
    simpl app.
    rewrite init_at_ok; try assumption; try reflexivity; try nia.
    2:{ rewrite SC. reflexivity. }
    cbn [bind]. rewrite SC. simpl script_tail. simpl init_event.
    replace (i * sz + sz) with (S i * sz) by nia.
    replace ((i + S (length G)) * sz) with ((S i + length G) * sz) by nia.
    replace (P ++ STok (cnext c) :: G ++ Q) with ((P ++ [STok (cnext c)]) ++ G ++ Q)
      by (rewrite <- app_assoc; reflexivity).
    rewrite (IH G f (S i) (S k0) (S count) (P ++ [STok (cnext c)]) Q
               (mkctx (S (cnext c)) [] (EInit (cnext c) (Some s) :: clog c))); simpl; try lia; try nia.
    + rewrite <- !app_assoc. simpl.
      replace (S (cnext c + length G)) with (cnext c + S (length G)) by lia.
      replace (S (count + length G)) with (count + S (length G)) by lia. reflexivity.
    + rewrite app_length. simpl. lia.
    + reflexivity.
    + intros j Hj. specialize (SRC (S j) ltac:(lia)). simpl nth in SRC.
      replace (S (k0 + j)) with (k0 + S j) by lia. assumption.
Qed.

Lemma nth_error_map_tok E J j : j < length E -> nth_error (map STok E ++ J) j = Some (STok (nth j E 0)).
Proof.
  intros H. rewrite nth_error_app1 by (rewrite map_length; assumption).
  rewrite nth_error_map, (nth_error_nth' E 0) by assumption. reflexivity.
Qed.

(* mpt_buffer_set(next, traits, 0, src + 1, src->_used) on the fresh buffer of detach *)
Lemma buffer_set_fresh e k r i n size E J :
  env_ok e -> length E * esz e k <= size ->
  forall c, cscript c = [] ->
  buffer_set_typed false (mkbuf r i n size 0 (Some k) (mkslots e (Some k) size)) (esz e k) 0
    (0 + length E * esz e k) (Some (map STok E ++ J)) c
  = Ok (with_used (with_slots (mkbuf r i n size 0 (Some k) (mkslots e (Some k) size))
                    (map STok (seq (cnext c) (length E)) ++ skipn (length E) (repeat SRaw (size / esz e k))))
                  (length E * esz e k),
        mkctx (cnext c + length E) [] (rev (copy_events (cnext c) E) ++ clog c),
        RCount (length E)).
Proof.
  intros EO LE c SC. pose proof (esz_pos e k EO) as Hs. set (sz := esz e k) in *.
  unfold buffer_set_typed. simpl bused. simpl bsize. simpl bslots.
  rewrite Nat.mod_0_l by lia. simpl Nat.sub.
  replace (0 + length E * sz <? 0) with false by (symmetry; apply Nat.ltb_ge; lia).
  rewrite fini_loop_done by lia. cbn [bind].
  rewrite gap_loop_done by lia. cbn [bind negb].
  assert (CAP : length E <= size / sz) by (apply mul_le_div; assumption).
  pose proof (copy_loop_all sz size (map STok E ++ J) Hs E (firstn (length E) (repeat SRaw (size / sz)))
                (S (0 + length E * sz)) 0 0 0 [] (skipn (length E) (repeat SRaw (size / sz))) c) as CL.
  rewrite firstn_length, repeat_length, Nat.min_l in CL by assumption.
  simpl app in CL. rewrite firstn_skipn in CL. simpl Nat.mul in CL. simpl Nat.add in CL.
  unfold mkslots. fold sz. simpl Nat.add.
  rewrite CL; try reflexivity; try assumption; try nia.
  2:{ intros j Hj. simpl. apply nth_error_map_tok. assumption. }
  cbn [bind].
  replace (0 <? length E * sz) with (negb (length E * sz =? 0)).
  2:{ destruct (length E * sz); reflexivity. }
  destruct (Nat.eqb_spec (length E * sz) 0) as [Z|Z]; simpl negb; cbn iota.
  - rewrite Z. reflexivity.
  - reflexivity.
Qed.
