(* C05/TypedShared.v — detaching a shared typed buffer copy-constructs every element. *)
From MptV Require Import Base.Mem C05.TypedModel C05.TypedSpec C05.TypedMonitor C05.TypedLoops C05.TypedOps
  C05.TypedSet C05.TypedWorld C05.TypedStep C05.TypedRun.
Local Open Scope nat_scope.

(* all constructors succeed (empty script), the type allows copies: the copy loop logs one
   [EInit new (Some source)] per element, in order *)
Lemma copy_loop_all sz bsz src :
  0 < sz ->
  forall TS G fuel i k0 count P Q c,
    length P = i -> (i + length G) * sz <= bsz -> length G <= fuel -> cscript c = [] ->
    length TS = length G ->
    (forall j, j < length G -> nth_error src (k0 + j) = Some (STok (nth j TS 0))) ->
    copy_loop true false fuel sz bsz (i * sz) ((i + length G) * sz) k0 (Some src) count (P ++ G ++ Q) c
    = Ok (P ++ map STok (seq (cnext c) (length G)) ++ Q,
          mkctx (cnext c + length G) [] (rev (copy_events (cnext c) TS) ++ clog c),
          count + length G, None).
Proof.
  intros Hs. induction TS as [|s TS IH]; intros G fuel i k0 count P Q c HP Hb Hf SC LS SRC.
  - destruct G; [|discriminate]. simpl. rewrite !Nat.add_0_r.
    destruct fuel; simpl; rewrite Nat.ltb_irrefl; destruct c; simpl in *; subst; reflexivity.
  - destruct G as [|x G]; [discriminate|]. simpl length in *.
    destruct fuel as [|f]; [lia|].
    simpl copy_loop. rewrite mul_lt_mono by assumption.
    replace (i <? i + S (length G)) with true by (symmetry; apply Nat.ltb_lt; lia).
    pose proof (SRC 0 ltac:(lia)) as S0. rewrite Nat.add_0_r in S0. simpl nth in S0. rewrite S0.
    simpl app.
    rewrite init_at_ok; try assumption; try reflexivity; try nia.
    2:{ rewrite SC. reflexivity. }
    cbn [bind]. rewrite SC. simpl script_tail. simpl init_event.
    replace (i * sz + sz) with (S i * sz) by nia.
    replace ((i + S (length G)) * sz) with ((S i + length G) * sz) by nia.
    replace (P ++ STok (cnext c) :: G ++ Q) with ((P ++ [STok (cnext c)]) ++ G ++ Q)
      by (rewrite <- app_assoc; reflexivity).
    rewrite (IH G f (S i) (S k0) (S count) (P ++ [STok (cnext c)]) Q
               (mkctx (S (cnext c)) [] (EInit (cnext c) (Some s) :: clog c))); try lia; try nia.
    + rewrite <- !app_assoc. simpl.
      replace (S (cnext c + length G)) with (cnext c + S (length G)) by lia.
      replace (S (count + length G)) with (count + S (length G)) by lia. reflexivity.
    + rewrite app_length. simpl. lia.
    + reflexivity.
    + intros j Hj. specialize (SRC (S j) ltac:(lia)). simpl nth in SRC.
      replace (S k0 + j) with (k0 + S j) by lia. assumption.
Qed.

Lemma nth_error_map_tok E J j : j < length E -> nth_error (map STok E ++ J) j = Some (STok (nth j E 0)).
Proof.
  intros H. rewrite nth_error_app1 by (rewrite map_length; assumption).
  rewrite nth_error_map, (nth_error_nth' E 0) by assumption. reflexivity.
Qed.

(* mpt_buffer_set(next, traits, 0, src + 1, src->_used) on the fresh buffer of detach *)
Lemma buffer_set_fresh e k r i n size E J :
  env_ok e -> ehi e = true -> length E * esz e k <= size ->
  forall c, cscript c = [] ->
  buffer_set_typed (eshape e) false (mkbuf r i n size 0 (Some k) (mkslots e (Some k) size)) (esz e k) 0
    (0 + length E * esz e k) (Some (map STok E ++ J)) c
  = Ok (with_used (with_slots (mkbuf r i n size 0 (Some k) (mkslots e (Some k) size))
                    (map STok (seq (cnext c) (length E)) ++ skipn (length E) (repeat SRaw (size / esz e k))))
                  (length E * esz e k),
        mkctx (cnext c + length E) [] (rev (copy_events (cnext c) E) ++ clog c),
        RCount (length E)).
Proof.
  intros EO HI LE c SC. pose proof (esz_pos e k EO) as Hs. set (sz := esz e k) in *.
  unfold buffer_set_typed. fold (ehi e). fold (ehf e). rewrite HI. cbn [negb andb].
  simpl bused. simpl bsize. simpl bslots.
  rewrite Nat.mod_0_l by lia. simpl Nat.sub.
  replace (0 + length E * sz <? 0) with false by (symmetry; apply Nat.ltb_ge; lia).
  rewrite fini_loop_done by lia. cbn [bind].
  rewrite gap_loop_done by lia. cbn [bind negb].
  assert (CAP : length E <= size / sz) by (apply mul_le_div; assumption).
  pose proof (copy_loop_all sz size (map STok E ++ J) Hs E (firstn (length E) (repeat SRaw (size / sz)))
                (S (0 + length E * sz)) 0 0 0 [] (skipn (length E) (repeat SRaw (size / sz))) c) as CL.
  rewrite firstn_length, repeat_length, Nat.min_l in CL by assumption.
  simpl app in CL. rewrite firstn_skipn in CL. simpl Nat.mul in CL. simpl Nat.add in CL.
  unfold mkslots. fold sz. simpl Nat.add.
  rewrite CL; try reflexivity; try assumption; try nia.
  2:{ intros j Hj. simpl. apply nth_error_map_tok. assumption. }
  cbn [bind].
  replace (0 <? length E * sz) with (negb (length E * sz =? 0)).
  2:{ destruct (length E * sz); reflexivity. }
  destruct (Nat.eqb_spec (length E * sz) 0) as [Z|Z]; simpl negb; cbn iota.
  - rewrite Z. reflexivity.
  - reflexivity.
Qed.

Lemma kind_eqb_refl k : kind_eqb k k = true.
Proof. destruct k; reflexivity. Qed.

(* OpDetach on a shared typed buffer whose type allows copies, every constructor succeeding *)
Lemma shared_detach_constructs e nh w h id b k len :
  env_ok e -> winv e nh w -> h < nh ->
  handle w h = Some id -> hget w id = Some b -> btr b = Some k ->
  2 <= bref b -> bncp b = false -> ecopyfail e = false -> ehi e = true -> cscript (wctx w) = [] ->
  bused b <= len ->
  exists w' nid nb,
    step e w (OpDetach h len) = Ok (w', OOk)
    /\ handle w' h = Some nid /\ nid <> id
    /\ hget w' nid = Some nb /\ hget w' id = Some (with_ref b (bref b - 1))
    /\ clog (wctx w') = rev (copy_events (cnext (wctx w)) (buf_els e b)) ++ clog (wctx w)
    /\ buf_els e nb = seq (cnext (wctx w)) (length (buf_els e b))
    /\ (forall t, In t (buf_els e nb) -> ~ In t (buf_els e b)).
Proof.
  intros EO ((m & HI) & RI & LH) Hh HH HB T R2 NC CF HINIT SC UL.
  pose proof (hget_lt _ _ _ HB) as LTi.
  pose proof (hinv_pre e w m id b EO HI HB) as P.
  destruct (typed_pre e b (wctx w) m k P T) as (Hs & EL & J & SL & US & LEN & BE & ULE & NDE & INE).
  set (sz := esz e k) in *.
  unfold step. cbn [op_handles forallb].
  replace (h <? length (whnd w)) with true by (symmetry; apply Nat.ltb_lt; lia). cbn [andb step_op].
  unfold on_buf. rewrite HH, HB. unfold detach. rewrite HB, T. fold sz.
  replace (sz =? 0) with false by (symmetry; apply Nat.eqb_neq; lia).
  set (len' := if len mod sz =? 0 then len else len + (sz - len mod sz)).
  assert (LL : len <= len') by (unfold len'; destruct (len mod sz =? 0); lia).
  replace (bref b <? 2) with false by (symmetry; apply Nat.ltb_ge; lia).
  rewrite NC. cbn [andb negb].
  set (size := alloc_size e len').
  assert (SZ : len' <= size) by (apply alloc_size_ge; assumption).
  destruct (alloc e w len' false false (Some k)) as [w1 nid] eqn:A.
  assert (W1 : w1 = fst (alloc e w len' false false (Some k))) by (rewrite A; reflexivity).
  assert (NID : nid = length (wheap w)) by (change nid with (snd (w1, nid)); rewrite <- A; reflexivity).
  set (nb0 := mkbuf 1 false false size 0 (Some k) (mkslots e (Some k) size)).
  assert (HN1 : hget w1 nid = Some nb0) by (rewrite W1, hget_alloc, NID, Nat.eqb_refl; reflexivity).
  assert (C1 : wctx w1 = wctx w) by (rewrite W1; reflexivity).
  assert (WH1 : whnd w1 = whnd w) by (rewrite W1; reflexivity).
  assert (L1 : length (wheap w1) = S (length (wheap w))).
  { rewrite W1. unfold alloc. simpl. rewrite app_length. simpl. lia. }
  rewrite HN1.
  replace (negb (bref b - 1 =? 0)) with true by (symmetry; apply negb_true_iff, Nat.eqb_neq; lia).
  replace (len' <? bused b) with false by (symmetry; apply Nat.ltb_ge; lia).
  set (w2 := hput w1 id (Some (with_ref b (bref b - 1))) (wctx w1)).
  change (wctx w2) with (wctx w1). rewrite C1.
  unfold buffer_set. cbn [bsize btr nb0].
  replace (size <? 0 + bused b) with false by (symmetry; apply Nat.ltb_ge; lia).
  fold sz.
  replace (sz =? 0) with false by (symmetry; apply Nat.eqb_neq; lia).
  rewrite Nat.mod_0_l by lia.
  replace (bused b mod sz) with 0 by (rewrite US, mul_mod by assumption; reflexivity).
  cbn [Nat.eqb negb orb]. rewrite kind_eqb_refl. cbn [negb]. rewrite CF. cbn [andb].
  rewrite US, SL.
  pose proof (buffer_set_fresh e k 1 false false size EL J EO HINIT ltac:(fold sz; lia)) as BS.
  fold sz in BS. fold nb0 in BS. rewrite BS by assumption. cbn [bind].
  set (nb' := with_used (with_slots nb0 (map STok (seq (cnext (wctx w)) (length EL))
                                          ++ skipn (length EL) (repeat SRaw (size / sz)))) (length EL * sz)).
  set (c' := mkctx (cnext (wctx w) + length EL) [] (rev (copy_events (cnext (wctx w)) EL) ++ clog (wctx w))).
  assert (L2 : length (wheap w2) = S (length (wheap w))).
  { unfold w2. rewrite hput_len by lia. assumption. }
  set (w3 := hput w2 nid (Some nb') c').
  exists (set_hnd w3 h (Some nid)), nid, nb'.
  split; [reflexivity|].
  assert (NE : nid <> id) by lia.
  split; [apply handle_set_hnd; simpl; rewrite WH1; lia|]. split; [assumption|].
  assert (H3N : hget w3 nid = Some nb').
  { unfold w3. rewrite hget_hput_eq by lia. reflexivity. }
  assert (H3I : hget w3 id = Some (with_ref b (bref b - 1))).
  { unfold w3. rewrite hget_hput_ne by (try lia; auto).
    unfold w2. rewrite hget_hput_eq by lia. reflexivity. }
  split; [exact H3N|]. split; [exact H3I|]. split.
  - simpl. rewrite BE. reflexivity.
  - assert (BN : buf_els e nb' = seq (cnext (wctx w)) (length EL)).
    { eapply (buf_els_typed e nb' k); simpl; eauto. rewrite seq_length. reflexivity. }
    rewrite BN, BE. split; [reflexivity|].
    intros t Ht Hl. apply in_seq in Ht. apply INE in Hl.
    pose proof (live_lt _ _ _ (hi_mon _ _ _ HI) Hl). lia.
Qed.

(* OpDetach on a shared typed buffer whose traits have a finaliser but no init function: the elements
   cannot be copied.  The request is refused and NOTHING changes: no event, the handles and every
   buffer as before (the block allocated for the copy is released again, the reference count of the
   shared buffer is restored) - in particular no element bytes are duplicated.
   (mpt_buffer_set as patched by docs/C05_set_noinit_copy.diff; BufferNoCopy refuses even earlier.) *)
Lemma with_ref_restore b : 1 <= bref b -> with_ref (with_ref b (bref b - 1)) (S (bref (with_ref b (bref b - 1)))) = b.
Proof. intros H. destruct b as [r i n sz u t sl]. unfold with_ref. simpl in *. f_equal. lia. Qed.

Lemma shared_detach_noinit_refused e nh w h id b k len :
  env_ok e -> winv e nh w -> h < nh ->
  handle w h = Some id -> hget w id = Some b -> btr b = Some k ->
  2 <= bref b -> ehi e = false -> ehf e = true -> 0 < bused b -> 0 < len ->
  exists w',
    step e w (OpDetach h len) = Ok (w', ORefused)
    /\ whnd w' = whnd w /\ wctx w' = wctx w /\ (forall j, hget w' j = hget w j).
Proof.
  intros EO ((m & HI) & RI & LH) Hh HH HB T R2 NI HF UP LP.
  pose proof (hget_lt _ _ _ HB) as LTi.
  pose proof (hinv_pre e w m id b EO HI HB) as P.
  destruct (typed_pre e b (wctx w) m k P T) as (Hs & EL & J & SL & US & LEN & BE & ULE & NDE & INE).
  set (sz := esz e k) in *.
  unfold step. cbn [op_handles forallb].
  replace (h <? length (whnd w)) with true by (symmetry; apply Nat.ltb_lt; lia). cbn [andb step_op].
  unfold on_buf. rewrite HH, HB. unfold detach. rewrite HB, T. fold sz.
  replace (sz =? 0) with false by (symmetry; apply Nat.eqb_neq; lia).
  set (len' := if len mod sz =? 0 then len else len + (sz - len mod sz)).
  assert (LL : len <= len') by (unfold len'; destruct (len mod sz =? 0); lia).
  assert (LA : len' mod sz = 0) by (apply round_up_aligned; assumption).
  replace (bref b <? 2) with false by (symmetry; apply Nat.ltb_ge; lia).
  cbn [andb negb].
  replace (bused b =? 0) with false by (symmetry; apply Nat.eqb_neq; lia). cbn [negb].
  destruct (bncp b) eqn:NC; cbn [andb].
  { (* BufferNoCopy *)
    cbn [bind]. exists w. repeat split; reflexivity. }
  set (size := alloc_size e len').
  assert (SZ : len' <= size) by (apply alloc_size_ge; assumption).
  destruct (alloc e w len' false false (Some k)) as [w1 nid] eqn:A.
  assert (W1 : w1 = fst (alloc e w len' false false (Some k))) by (rewrite A; reflexivity).
  assert (NID : nid = length (wheap w)) by (change nid with (snd (w1, nid)); rewrite <- A; reflexivity).
  set (nb0 := mkbuf 1 false false size 0 (Some k) (mkslots e (Some k) size)).
  assert (HN1 : hget w1 nid = Some nb0) by (rewrite W1, hget_alloc, NID, Nat.eqb_refl; reflexivity).
  assert (C1 : wctx w1 = wctx w) by (rewrite W1; reflexivity).
  assert (WH1 : whnd w1 = whnd w) by (rewrite W1; reflexivity).
  assert (L1 : length (wheap w1) = S (length (wheap w))).
  { rewrite W1. unfold alloc. simpl. rewrite app_length. simpl. lia. }
  assert (O1 : forall j, j <> nid -> hget w1 j = hget w j).
  { intros j N. rewrite W1, hget_alloc. destruct (Nat.eqb_spec j (length (wheap w))); [lia|reflexivity]. }
  rewrite HN1.
  replace (negb (bref b - 1 =? 0)) with true by (symmetry; apply negb_true_iff, Nat.eqb_neq; lia).
  set (r := bref b - 1).
  set (w2 := hput w1 id (Some (with_ref b r)) (wctx w1)).
  set (add := if len' <? bused b then len' else bused b).
  assert (ADD : 0 < add /\ add <= len' /\ add mod sz = 0).
  { unfold add. destruct (len' <? bused b) eqn:Z.
    - apply Nat.ltb_lt in Z. repeat split; [lia|lia|assumption].
    - apply Nat.ltb_ge in Z. repeat split; [lia|lia|]. rewrite US. apply mul_mod. assumption. }
  destruct ADD as (AP & AL & AA).
  change (wctx w2) with (wctx w1). rewrite C1.
  (* mpt_buffer_set refuses the byte copy *)
  assert (BS : buffer_set e nb0 (Some k) 0 (Some (bslots b)) add (wctx w) = Ok (nb0, wctx w, RErr BadOperation)).
  { unfold buffer_set. cbn [bsize btr nb0].
    replace (size <? 0 + add) with false by (symmetry; apply Nat.ltb_ge; lia).
    fold sz. replace (sz =? 0) with false by (symmetry; apply Nat.eqb_neq; lia).
    rewrite Nat.mod_0_l by lia. rewrite AA. cbn [Nat.eqb negb orb]. rewrite kind_eqb_refl. cbn [negb].
    unfold buffer_set_typed. fold (ehi e). fold (ehf e). rewrite NI, HF. cbn [negb andb].
    replace (0 <? 0 + add) with true by (symmetry; apply Nat.ltb_lt; lia). reflexivity. }
  fold nb0. rewrite BS. cbn [bind].
  (* the new buffer is released again *)
  assert (LTi1 : id < length (wheap w1)) by lia.
  assert (L2 : length (wheap w2) = length (wheap w1)) by (apply hput_len; assumption).
  assert (LTn2 : nid < length (wheap w2)) by lia.
  set (w3 := hput w2 nid (Some nb0) (wctx w)).
  assert (HN3 : hget w3 nid = Some nb0) by (unfold w3; rewrite hget_hput_eq by assumption; reflexivity).
  assert (L3 : length (wheap w3) = length (wheap w1)) by (unfold w3; rewrite hput_len by assumption; assumption).
  unfold unref. rewrite HN3. cbn [bref nb0 Nat.eqb Nat.sub negb btr].
  fold sz. replace (sz =? 0) with false by (symmetry; apply Nat.eqb_neq; lia).
  change (bused nb0) with 0. rewrite Nat.mod_0_l by lia. cbn [Nat.sub].
  rewrite fini_loop_done by lia. cbn [bind].
  set (w4 := hput w3 nid None (wctx w3)).
  assert (HB4 : hget w4 id = Some (with_ref b r)).
  { unfold w4. rewrite hget_hput_ne by lia. unfold w3. rewrite hget_hput_ne by lia.
    unfold w2. rewrite hget_hput_eq by assumption. reflexivity. }
  unfold addref. rewrite HB4. cbn [bind].
  eexists. split; [reflexivity|]. split; [exact WH1|]. split; [reflexivity|].
  intros j.
  assert (LTi4 : id < length (wheap w4)) by (unfold w4; rewrite hput_len by lia; lia).
  rewrite hget_hput by assumption.
  destruct (Nat.eqb_spec j id) as [->|Ni].
  - rewrite HB. f_equal. unfold r. apply with_ref_restore. lia.
  - unfold w4. rewrite hget_hput by lia. destruct (Nat.eqb_spec j nid) as [->|Nn].
    + rewrite hget_beyond by lia. reflexivity.
    + unfold w3. rewrite hget_hput_ne by lia. unfold w2. rewrite hget_hput_ne by lia. apply O1. assumption.
Qed.

Lemma reachable_winv e nh script ops w :
  env_ok e -> exec e (init_world nh script) ops = Ok w -> winv e nh w.
Proof.
  intros EO E. destruct (exec_total e nh EO ops (init_world nh script) (init_winv e nh script)) as (w' & E' & WI & _).
  rewrite E in E'. injection E' as <-. assumption.
Qed.

Lemma shared_copy_reachable e nh script ops w h id b k len :
  env_ok e -> exec e (init_world nh script) ops = Ok w -> h < nh ->
  handle w h = Some id -> hget w id = Some b -> btr b = Some k ->
  2 <= bref b -> bncp b = false -> ecopyfail e = false -> ehi e = true -> cscript (wctx w) = [] ->
  bused b <= len ->
  exists w' nid nb,
    step e w (OpDetach h len) = Ok (w', OOk)
    /\ handle w' h = Some nid /\ nid <> id
    /\ hget w' nid = Some nb /\ hget w' id = Some (with_ref b (bref b - 1))
    /\ clog (wctx w') = rev (copy_events (cnext (wctx w)) (buf_els e b)) ++ clog (wctx w)
    /\ buf_els e nb = seq (cnext (wctx w)) (length (buf_els e b))
    /\ (forall t, In t (buf_els e nb) -> ~ In t (buf_els e b)).
Proof.
  intros EO E. apply shared_detach_constructs; [assumption|]. eapply reachable_winv; eassumption.
Qed.

Lemma reachable_step_total e nh script ops w o :
  env_ok e -> exec e (init_world nh script) ops = Ok w ->
  exists w' x, step e w o = Ok (w', x) /\ winv e nh w'.
Proof.
  intros EO E. apply step_total_all; [assumption|]. eapply reachable_winv; eassumption.
Qed.

Lemma shared_noinit_reachable e nh script ops w h id b k len :
  env_ok e -> exec e (init_world nh script) ops = Ok w -> h < nh ->
  handle w h = Some id -> hget w id = Some b -> btr b = Some k ->
  2 <= bref b -> ehi e = false -> ehf e = true -> 0 < bused b -> 0 < len ->
  exists w',
    step e w (OpDetach h len) = Ok (w', ORefused)
    /\ whnd w' = whnd w /\ wctx w' = wctx w /\ (forall j, hget w' j = hget w j).
Proof.
  intros EO E. apply shared_detach_noinit_refused; [assumption|]. eapply reachable_winv; eassumption.
Qed.
