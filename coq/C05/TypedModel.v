(* C05/TypedModel.v — executable mechanism model of typed (managed) buffers.  NO proofs.

   Transcribes, with their byte-offset index arithmetic,
     mptcore/array/buffer_set.c     mpt_buffer_set
     mptcore/array/buffer_cut.c     mpt_buffer_cut
     mptcore/array/buffer_insert.c  mpt_buffer_insert
     mptcore/array/buffer_alloc.c   _mpt_buffer_alloc, vtable unref / addref / get_flags / detach
     mptcore/array/array_reserve.c  mpt_array_reserve
     mptcore/array/array_clone.c    mpt_array_clone (handle assignment / release)
     mpt++/array.cpp                buffer::trim / skip / copy / move / append
     mptcore/array.h                content<T>::set_length
   as they are AFTER the fix: commits of /repo and the two proposed patches docs/C05_set_noinit_copy.diff,
   docs/C05_detach_nofini.diff (see docs/notes_C05.md).  The SHAPE of the content traits (init and fini /
   fini only / init only, [eshape]) is a parameter: it decides which branches run the init loop, the
   zero fill and the finaliser loops.

   Element slots carry TOKENS.  The data area of a typed buffer is a list of
   slots of the element size; a slot holds the byte pattern of a constructed
   element with token t ([STok t]), of a finalised one ([SDead t]: the
   destructor of the harness traits overwrites the magic word, the token stays
   readable) or anything else ([SRaw]).  A raw byte copy (memcpy/memmove)
   duplicates the pattern, a constructor call creates a fresh token.  Code works
   with BYTE offsets; [slot_ix] converts, a destructor call on a misaligned
   offset or on a non-element is logged as [EFiniBad], an access outside the
   block is [Fault].

   Ghost event log (newest first in [clog]):
     EInit t None      element t default constructed
     EInit t (Some s)  element t copy constructed from the element pattern s
     EInitRaw t        element t copy constructed from bytes that are no element
     EFini t           destructor called on the live pattern of t
     EFiniBad o        destructor called on a finalised element (Some t) or on
                       bytes that never were an element (None)
   Constructor calls made by the LIBRARY through traits->init consume the oracle
   script (false = this call fails and leaves the target untouched); constructor
   calls made by the caller of the API (harness) never fail. *)
From MptV Require Import Base.Mem.
Local Open Scope nat_scope.

Inductive slot := SRaw | STok (t : nat) | SDead (t : nat).
Inductive event :=
| EInit (t : nat) (src : option nat)
| EInitRaw (t : nat)
| EFini (t : nat)
| EFiniBad (o : option nat).

Inductive kind := KA | KB.
Definition kind_eqb (a b : kind) : bool :=
  match a, b with KA, KA => true | KB, KB => true | _, _ => false end.
Definition okind_eqb (a b : option kind) : bool :=
  match a, b with
  | None, None => true
  | Some x, Some y => kind_eqb x y
  | _, _ => false
  end.

(* element sizes of the two harness traits, header size and page size of _mpt_buffer_alloc *)
(* [ecopyfail]: the copy constructor of the element type refuses every source (library type
   "command" whose source elements carry a handler, kind A only); default construction still works *)
(* SHAPE of the content traits (both harness traits of a case have the same shape):
     ShFull  init and fini
     ShFini  fini only: the library cannot construct an element.  Where it makes slots part of the
             content without the caller (gap in front of an insert / set position, mpt_buffer_set
             without source data) it zero-fills them; the zero pattern is the EMPTY element of such a
             type (mpt::reference<T> with a null pointer).  The caller (harness) takes note of every
             empty element the library created right after the call and from then on treats it as
             element number t; the model logs this as [EInit t None] at the place of the memset.
     ShInit  init only: nothing is ever called when an element leaves the content.  Where the code
             has "if (fini) for (...) fini(...)" the model runs the same loop as a GHOST: the slot bytes
             stay as they are and [EFini t] records that element t was abandoned there (not printed
             when compared with the implementation, which has nothing to print). *)
Inductive shape := ShFull | ShFini | ShInit.
Definition sh_init (s : shape) : bool := match s with ShFini => false | _ => true end.
Definition sh_fini (s : shape) : bool := match s with ShInit => false | _ => true end.

Record env := mkenv { eszA : nat; eszB : nat; ehdr : nat; epage : nat; ecopyfail : bool; eshape : shape }.
Definition ehi (e : env) : bool := sh_init (eshape e).
Definition ehf (e : env) : bool := sh_fini (eshape e).
Definition esz (e : env) (k : kind) : nat := match k with KA => eszA e | KB => eszB e end.

Record ctx := mkctx { cnext : nat; cscript : list bool; clog : list event }.
Definition logev (ev : event) (c : ctx) : ctx := mkctx (cnext c) (cscript c) (ev :: clog c).

Record buf := mkbuf {
  bref : nat;            (* bufferData._ref *)
  bimm : bool;           (* BufferImmutable *)
  bncp : bool;           (* BufferNoCopy *)
  bsize : nat;           (* _size, bytes *)
  bused : nat;           (* _used, bytes *)
  btr : option kind;     (* _content_traits *)
  bslots : list slot     (* data area in units of the element size (empty for raw buffers) *)
}.
Definition with_used (b : buf) (u : nat) : buf :=
  mkbuf (bref b) (bimm b) (bncp b) (bsize b) u (btr b) (bslots b).
Definition with_slots (b : buf) (sl : list slot) : buf :=
  mkbuf (bref b) (bimm b) (bncp b) (bsize b) (bused b) (btr b) sl.
Definition with_ref (b : buf) (r : nat) : buf :=
  mkbuf r (bimm b) (bncp b) (bsize b) (bused b) (btr b) (bslots b).

Definition setnth {A} (i : nat) (x : A) (l : list A) : list A := firstn i l ++ x :: skipn (S i) l.

(* ------------------------------------------------------------------ element callbacks *)

(* what the bytes of element t are after it left the content: the finaliser of the harness traits
   marks them; without a finaliser ([hf] = false) nothing touches them *)
Definition dead (hf : bool) (t : nat) : slot := if hf then SDead t else STok t.

(* traits->fini(ptr + off) on a block of [bsz] bytes with elements of [sz] bytes;
   [hf] = false: the traits have no finaliser, the element is abandoned (ghost step) *)
Definition fini_at (hf : bool) (sz bsz off : nat) (sl : list slot) (c : ctx) : res (list slot * ctx) :=
  if off + sz <=? bsz then
    if off mod sz =? 0 then
      match nth_error sl (off / sz) with
      | Some (STok t) => Ok (setnth (off / sz) (dead hf t) sl, logev (EFini t) c)
      | Some (SDead t) => Ok (sl, logev (EFiniBad (Some t)) c)
      | Some SRaw => Ok (sl, logev (EFiniBad None) c)
      | None => Fault
      end
    else Ok (sl, logev (EFiniBad None) c)
  else Fault.

Definition init_event (n : nat) (src : option slot) : event :=
  match src with
  | None => EInit n None
  | Some (STok s) => EInit n (Some s)
  | Some (SDead s) => EInit n (Some s)
  | Some SRaw => EInitRaw n
  end.

(* constructor that cannot fail (called by the user of the API) *)
Definition construct_at (sz bsz off : nat) (src : option slot) (sl : list slot) (c : ctx)
  : res (list slot * ctx) :=
  if (off + sz <=? bsz) && (off mod sz =? 0) && (off / sz <? length sl) then
    let n := cnext c in
    Ok (setnth (off / sz) (STok n) sl, mkctx (S n) (cscript c) (init_event n src :: clog c))
  else Fault.

(* traits->init(ptr + off, src): consumes one script entry; false = refused, target untouched.
   [hi] = false: the traits have no init function; the slot is zero-filled instead and the caller
   adopts the empty element (cannot fail, no script entry) *)
Definition init_at (hi cf : bool) (sz bsz off : nat) (src : option slot) (sl : list slot) (c : ctx)
  : res (list slot * ctx * bool) :=
  if negb hi then do '(sl', c') <- construct_at sz bsz off None sl c; Ok (sl', c', true) else
  if cf && match src with Some _ => true | None => false end then Ok (sl, c, false) else
  match cscript c with
  | false :: r => Ok (sl, mkctx (cnext c) r (clog c), false)
  | true :: r =>
    do '(sl', c') <- construct_at sz bsz off src sl (mkctx (cnext c) r (clog c)); Ok (sl', c', true)
  | [] =>
    do '(sl', c') <- construct_at sz bsz off src sl c; Ok (sl', c', true)
  end.

(* ------------------------------------------------------------------ loops *)

(* for (i = from; i < lim; i += sz) fini(base + i);  fuel: number of iterations allowed *)
Fixpoint fini_loop (hf : bool) (fuel sz bsz base i lim : nat) (sl : list slot) (c : ctx) : res (list slot * ctx) :=
  if i <? lim then
    match fuel with
    | 0 => Fault
    | S f => do '(sl', c') <- fini_at hf sz bsz (base + i) sl c; fini_loop hf f sz bsz base (i + sz) lim sl' c'
    end
  else Ok (sl, c).

(* for (off = from; off < lim; off += sz) if (init(ptr + off, 0) < 0) stop;
   result: position reached, and whether the loop ran to the end.
   [hi] = false: memset(ptr + from, 0, lim - from), the empty elements adopted one by one *)
Fixpoint gap_loop (hi : bool) (fuel sz bsz off lim : nat) (sl : list slot) (c : ctx)
  : res (list slot * ctx * nat * bool) :=
  if off <? lim then
    match fuel with
    | 0 => Fault
    | S f =>
      do '(sl', c', ok) <- init_at hi false sz bsz off None sl c;
      if ok then gap_loop hi f sz bsz (off + sz) lim sl' c' else Ok (sl', c', off, false)
    end
  else Ok (sl, c, off, true).

(* the copy loop of mpt_buffer_set: [k] indexes the source elements.
   result: count, and [Some pos] when copy AND default construction failed at pos *)
Fixpoint copy_loop (hi cf : bool) (fuel sz bsz pos lim k : nat) (src : option (list slot)) (count : nat)
  (sl : list slot) (c : ctx) : res (list slot * ctx * nat * option nat) :=
  if pos <? lim then
    match fuel with
    | 0 => Fault
    | S f =>
      do '(sl1, c1, copied) <-
        match src with
        | None => Ok (sl, c, false)
        | Some s =>
          match nth_error s k with
          | None => Fault                    (* source read past the source array *)
          | Some x => init_at hi cf sz bsz pos (Some x) sl c
          end
        end;
      if copied then copy_loop hi cf f sz bsz (pos + sz) lim (S k) src (S count) sl1 c1
      else
        do '(sl2, c2, ok) <- init_at hi false sz bsz pos None sl1 c1;
        if ok then copy_loop hi cf f sz bsz (pos + sz) lim (S k) src count sl2 c2
        else Ok (sl2, c2, count, Some pos)
    end
  else Ok (sl, c, count, None).

(* memmove inside one data area, in bytes; representable only when element aligned *)
Definition move_slots (sz bsz dst src n : nat) (sl : list slot) : res (list slot) :=
  if n =? 0 then Ok sl else
  if (dst + n <=? bsz) && (src + n <=? bsz) then
    if (dst mod sz =? 0) && (src mod sz =? 0) && (n mod sz =? 0)
       && (src / sz + n / sz <=? length sl) && (dst / sz + n / sz <=? length sl) then
      let d := firstn (n / sz) (skipn (src / sz) sl) in
      Ok (firstn (dst / sz) sl ++ d ++ skipn (dst / sz + n / sz) sl)
    else Fault
  else Fault.

(* memset(ptr + off, 0, n) on a typed data area *)
Definition zero_slots (sz bsz off n : nat) (sl : list slot) : res (list slot) :=
  if n =? 0 then Ok sl else
  if off + n <=? bsz then
    if (off mod sz =? 0) && (n mod sz =? 0) && (off / sz + n / sz <=? length sl) then
      Ok (firstn (off / sz) sl ++ repeat SRaw (n / sz) ++ skipn (off / sz + n / sz) sl)
    else Fault
  else Fault.

(* ------------------------------------------------------------------ mpt_buffer_set *)

Inductive ret := RCount (n : nat) | RErr (e : err).

(* the part of mpt_buffer_set behind the argument checks, typed target with elements of [elem] bytes:
   [cf] = the copy constructor refuses every source.
   Without init function the code zero-fills the gap and the target ("generic data copy" with
   memset) and returns len / elem_size; source data of elements that have a finaliser is refused
   (AS PATCHED by docs/C05_set_noinit_copy.diff: a byte copy would be finalised twice). *)
Definition buffer_set_typed (sh : shape) (cf : bool) (b : buf) (elem pos end_ : nat) (src : option (list slot)) (c : ctx)
  : res (buf * ctx * ret) :=
  let hi := sh_init sh in
  let hf := sh_fini sh in
  if negb hi && hf && (match src with Some _ => true | None => false end) && (pos <? end_)
  then Ok (b, c, RErr BadOperation) else
  let src := if hi then src else None in
  let used := bused b - bused b mod elem in
  let bsz := bsize b in
  (* terminate overlapping target data: [pos, min(end, used)) *)
  let ovl := if end_ <? used then end_ else used in
  do '(sl1, c1) <- fini_loop hf (S used) elem bsz 0 pos ovl (bslots b) c;
  (* initialize prepending data *)
  do '(sl2, c2, off, ok) <- gap_loop hi (S pos) elem bsz used pos sl1 c1;
  if negb ok then Ok (with_used (with_slots b sl2) off, c2, RErr BadOperation) else
  (* prepare target and copy data *)
  do '(sl3, c3, count, failed) <- copy_loop hi cf (S end_) elem bsz pos end_ 0 src 0 sl2 c2;
  match failed with
  | Some p =>
    (* invalidate remaining data as result of fatal error *)
    do '(sl4, c4) <- fini_loop hf (S used) elem bsz 0 end_ used sl3 c3;
    Ok (with_used (with_slots b sl4) p, c4, RCount count)
  | None =>
    Ok (with_used (with_slots b sl3) (if used <? end_ then end_ else used), c3,
        RCount (if hi then count else (end_ - pos) / elem))
  end.

(* mpt_buffer_set(buf, src_traits, pos, src_data, len) *)
Definition buffer_set (e : env) (b : buf) (st : option kind) (pos : nat) (src : option (list slot))
  (len : nat) (c : ctx) : res (buf * ctx * ret) :=
  let end_ := pos + len in
  if bsize b <? end_ then Ok (b, c, RErr MissingBuffer) else
  match btr b with
  | None =>
    (* raw data: bytes are not modelled *)
    match st with
    | Some _ => Ok (b, c, RErr BadArgument)
    | None => Ok (with_used b (Nat.max (bused b) end_), c, RCount 0)
    end
  | Some k =>
    match st with
    | None => Ok (b, c, RErr BadType)      (* traits != src_traits, no source traits *)
    | Some ks =>
      let elem := esz e ks in
      if (elem =? 0) || negb (pos mod elem =? 0) || negb (len mod elem =? 0)
      then Ok (b, c, RErr BadArgument) else
      (* compatible types must share finalizer and size: the two harness traits do not *)
      if negb (kind_eqb k ks) then Ok (b, c, RErr BadType) else
      buffer_set_typed (eshape e) (ecopyfail e && kind_eqb k KA) b elem pos end_ src c
    end
  end.

(* ------------------------------------------------------------------ mpt_buffer_cut *)

Definition buffer_cut (e : env) (b : buf) (off len0 : nat) (c : ctx) : res (buf * ctx * ret) :=
  if bused b <? len0 then Ok (b, c, RErr BadArgument) else
  (* len = 0: only keep data till offset, everything behind it is removed *)
  if (len0 =? 0) && (bused b <? off) then Ok (b, c, RErr MissingData) else
  let len := if len0 =? 0 then bused b - off else len0 in
  let keep := if len0 =? 0 then off else bused b - len0 in
  if negb (len0 =? 0) && (keep <? off) then Ok (b, c, RErr MissingData) else
  match btr b with
  | Some k =>
    let size := esz e k in
    if (size =? 0) || negb (off mod size =? 0) || negb (len mod size =? 0)
    then Ok (b, c, RErr BadArgument) else
    do '(sl1, c1) <- fini_loop (ehf e) (S len) size (bsize b) off 0 len (bslots b) c;
    let keep' := keep - off in
    do sl2 <- move_slots size (bsize b) off (off + len) keep' sl1;
    Ok (with_used (with_slots b sl2) (off + keep'), c1, RCount (off + keep'))
  | None =>
    let keep' := keep - off in
    Ok (with_used b (off + keep'), c, RCount (off + keep'))
  end.

(* ------------------------------------------------------------------ mpt_buffer_insert *)

(* result: true = address returned.  The inserted region is NOT initialised. *)
Definition buffer_insert (e : env) (b : buf) (pos len : nat) (c : ctx)
  : res (buf * ctx * bool) :=
  let used := bused b in
  let total := if pos <? used then used + len else pos + len in
  let keep := if pos <? used then used - pos else 0 in
  if total =? 0 then Ok (b, c, true) else
  if bsize b <? total then Ok (b, c, false) else
  if bimm b then Ok (b, c, false) else
  match btr b with
  | Some k =>
    let size := esz e k in
    if (size =? 0) || negb (used mod size =? 0) || negb (pos mod size =? 0) || negb (len mod size =? 0)
    then Ok (b, c, false) else
    let bsz := bsize b in
    (* move data after insert position *)
    do sl1 <- move_slots size bsz (total - keep) pos keep (bslots b);
    (* init all new data *)
    do '(sl2, c2, reached, ok) <- gap_loop (ehi e) (S pos) size bsz used pos sl1 c;
    if ok then Ok (with_used (with_slots b sl2) total, c2, true)
    else
      (* a refused constructor ends the buffer at the last constructed element *)
      Ok (with_used (with_slots b sl2) reached, c2, false)
  | None => Ok (with_used b total, c, true)
  end.

(* ------------------------------------------------------------------ heap, handles *)

Record world := mkworld { wheap : list (option buf); whnd : list (option nat); wctx : ctx }.

Definition hget (w : world) (id : nat) : option buf :=
  match nth_error (wheap w) id with Some (Some b) => Some b | _ => None end.
Definition hput (w : world) (id : nat) (ob : option buf) (c : ctx) : world :=
  mkworld (setnth id ob (wheap w)) (whnd w) c.
Definition set_ctx (w : world) (c : ctx) : world := mkworld (wheap w) (whnd w) c.
Definition set_hnd (w : world) (h : nat) (v : option nat) : world :=
  mkworld (wheap w) (setnth h v (whnd w)) (wctx w).
Definition handle (w : world) (h : nat) : option nat :=
  match nth_error (whnd w) h with Some v => v | None => None end.

Definition alloc_size (e : env) (len : nat) : nat :=
  ((len + ehdr e - 1) / epage e + 1) * epage e - ehdr e.
Definition mkslots (e : env) (tr : option kind) (size : nat) : list slot :=
  match tr with None => [] | Some k => repeat SRaw (size / esz e k) end.

(* _mpt_buffer_alloc(len, flags) followed by the assignment of _content_traits *)
Definition alloc (e : env) (w : world) (len : nat) (imm ncp : bool) (tr : option kind) : world * nat :=
  let size := alloc_size e len in
  let b := mkbuf 1 imm ncp size 0 tr (mkslots e tr size) in
  (mkworld (wheap w ++ [Some b]) (whnd w) (wctx w), length (wheap w)).

(* buf->_content_traits = traits on a buffer that holds no element *)
Definition retag (e : env) (b : buf) (tr : option kind) : buf :=
  if okind_eqb (btr b) tr then b
  else mkbuf (bref b) (bimm b) (bncp b) (bsize b) (bused b) tr (mkslots e tr (bsize b)).

(* vtable unref *)
Definition unref (e : env) (w : world) (id : nat) : res world :=
  match hget w id with
  | None => Fault
  | Some b =>
    if bref b =? 0 then Ok w else
    let r := bref b - 1 in
    if negb (r =? 0) then Ok (hput w id (Some (with_ref b r)) (wctx w)) else
    match btr b with
    | Some k =>
      let size := esz e k in
      if size =? 0 then Ok (hput w id None (wctx w)) else
      let len := bused b - bused b mod size in
      do '(_, c1) <- fini_loop (ehf e) (S len) size (bsize b) 0 0 len (bslots b) (wctx w);
      Ok (hput w id None c1)
    | None => Ok (hput w id None (wctx w))
    end
  end.

(* vtable addref *)
Definition addref (w : world) (id : nat) : res world :=
  match hget w id with
  | None => Fault
  | Some b => Ok (hput w id (Some (with_ref b (S (bref b)))) (wctx w))
  end.

Definition shared (b : buf) : bool := 1 <? bref b.

(* vtable detach(buf, len): None = refused *)
Definition detach (e : env) (w : world) (id : nat) (len0 : nat) : res (world * option nat) :=
  match hget w id with
  | None => Fault
  | Some b =>
    let tr := btr b in
    let esize := match tr with Some k => esz e k | None => 1 end in
    if esize =? 0 then Ok (w, None) else
    let len := match tr with
               | Some _ => if len0 mod esize =? 0 then len0 else len0 + (esize - len0 mod esize)
               | None => len0 end in
    if (bref b <? 2) && (len <=? bsize b) && negb (bimm b) then Ok (w, Some id) else
    if negb (bref b <? 2) && bncp b && negb (bused b =? 0) then Ok (w, None) else
    let '(w1, nid) := alloc e w len false (bncp b) tr in
    match hget w1 nid with
    | None => Fault
    | Some nb =>
      let r := bref b - 1 in
      if negb (r =? 0) then
        (* other references remain: copy construct *)
        let w2 := hput w1 id (Some (with_ref b r)) (wctx w1) in
        (* new size limits copied content *)
        let add := if len <? bused b then len else bused b in
        do '(nb', c', rv) <- buffer_set e nb tr 0 (Some (bslots b)) add (wctx w2);
        match rv with
        | RErr _ =>
          (* caller keeps its reference to the unchanged buffer *)
          do w3 <- unref e (hput w2 nid (Some nb') c') nid;
          do w4 <- addref w3 id; Ok (w4, None)
        | RCount _ => Ok (hput w2 nid (Some nb') c', Some nid)
        end
      else
        (* last reference: move raw data, finalise what is cut off.  AS PATCHED by
           docs/C05_detach_nofini.diff: the new size limits the moved data also when the traits have
           no finaliser (the unpatched code copies all used bytes into the smaller block) *)
        let add := bused b in
        match tr with
        | None =>
          let add' := if len <? add then len else add in
          Ok (hput (hput w1 nid (Some (with_used nb add')) (wctx w1)) id None (wctx w1), Some nid)
        | Some _ =>
          if len <? add then
            let add1 := add - add mod esize in
            do '(sl1, c1) <- fini_loop (ehf e) (S add1) esize (bsize b) 0 len add1 (bslots b) (wctx w1);
            let moved := firstn (len / esize) sl1 in
            let nsl := moved ++ skipn (length moved) (bslots nb) in
            Ok (hput (hput w1 nid (Some (with_used (with_slots nb nsl) len)) c1) id None c1, Some nid)
          else
            let moved := firstn (add / esize) (bslots b) in
            let nsl := moved ++ skipn (length moved) (bslots nb) in
            Ok (hput (hput w1 nid (Some (with_used (with_slots nb nsl) add)) (wctx w1)) id None (wctx w1),
                Some nid)
        end
    end
  end.

(* ------------------------------------------------------------------ operations on handles *)

Inductive out :=
| OSkip                 (* handle holds no buffer: operation not applicable *)
| ONum (n : nat)
| OErr (e : err)
| OOk
| ORefused.

Definition out_of_ret (r : ret) : out := match r with RCount n => ONum n | RErr e => OErr e end.

(* mpt_array_clone(arr = h, from = g) / mpt_array_clone(h, 0) *)
Definition array_clone (e : env) (w : world) (h : nat) (from : option nat) : res (world * out) :=
  let bufh := handle w h in
  match from with
  | Some g =>
    let set := handle w g in
    if match set, bufh with
       | Some a, Some b => a =? b
       | None, None => true
       | _, _ => false end then Ok (w, ONum 0) else
    match set with
    | None => Fault                       (* set->_vptr with set = NULL *)
    | Some sid =>
      match hget w sid with
      | None => Fault
      | Some sb =>
        if match bufh with
           | Some hid => match hget w hid with
                         | Some hb => negb (okind_eqb (btr sb) (btr hb))
                         | None => false end
           | None => false end
        then Ok (w, OErr BadType) else
        do w1 <- addref w sid;
        let w2 := set_hnd w1 h (Some sid) in
        match bufh with
        | Some hid => do w3 <- unref e w2 hid; Ok (w3, ONum 3)
        | None => Ok (w2, ONum 1)
        end
      end
    end
  | None =>
    let w2 := set_hnd w h None in
    match bufh with
    | Some hid => do w3 <- unref e w2 hid; Ok (w3, ONum 2)
    | None => Ok (w2, ONum 0)
    end
  end.

(* release + buffer::create(len, traits) with flags *)
Definition op_new (e : env) (w : world) (h : nat) (tr : option kind) (len : nat) (imm ncp : bool)
  : res (world * out) :=
  do '(w1, _) <- array_clone e w h None;
  let '(w2, id) := alloc e w1 len imm ncp tr in
  Ok (set_hnd w2 h (Some id), OOk).

(* mpt_array_reserve, shared or immutable buffer (or none): a distinct instance is required *)
Definition reserve_distinct (e : env) (w : world) (h : nat) (len : nat) (tr : option kind)
  (ob : option (nat * buf)) : res (world * out) :=
  (* compatible content is kept *)
  let used := match ob with
              | Some (_, b) =>
                if okind_eqb (btr b) tr && negb (bncp b) then
                  match btr b with Some ko => bused b - bused b mod esz e ko | None => bused b end
                else 0
              | None => 0 end in
  let '(w1, rid) := alloc e w (if len <? used then used else len) false false tr in
  match ob with
  | None => Ok (set_hnd w1 h (Some rid), OOk)
  | Some (id, b) =>
    if negb (used =? 0) then
      match hget w1 rid with
      | None => Fault
      | Some rb =>
        do '(rb', c', rv) <- buffer_set e rb tr 0 (Some (bslots b)) used (wctx w1);
        match rv with
        | RErr _ => do w2 <- unref e (hput w1 rid (Some rb') c') rid; Ok (w2, ORefused)
        | RCount _ =>
          do w2 <- unref e (hput w1 rid (Some rb') c') id; Ok (set_hnd w2 h (Some rid), OOk)
        end
      end
    else do w2 <- unref e w1 id; Ok (set_hnd w2 h (Some rid), OOk)
  end.

(* mpt_array_reserve: clear incompatible data on non-shared buffer *)
Definition reserve_clear (e : env) (b : buf) (tr : option kind) (c : ctx) : res (buf * ctx) :=
  if okind_eqb (btr b) tr then Ok (b, c) else
  match btr b with
  | Some ko =>
    let size := esz e ko in
    let used := bused b - bused b mod size in
    do '(sl1, c1) <- fini_loop (ehf e) (S used) size (bsize b) 0 0 used (bslots b) c;
    Ok (with_used (with_slots b sl1) 0, c1)
  | None => Ok (with_used b 0, c)
  end.

(* mpt_array_reserve, private mutable buffer: existing data can be reused *)
Definition reserve_reuse (e : env) (w : world) (h : nat) (len : nat) (tr : option kind)
  (id : nat) (b : buf) : res (world * out) :=
  do '(b1, c1) <- reserve_clear e b tr (wctx w);
  let w1 := hput w id (Some b1) c1 in
  do '(w2, r) <- detach e w1 id len;
  match r with
  | None => Ok (w2, ORefused)
  | Some nid =>
    match hget w2 nid with
    | None => Fault
    | Some nb => Ok (set_hnd (hput w2 nid (Some (retag e nb tr)) (wctx w2)) h (Some nid), OOk)
    end
  end.

(* mpt_array_reserve(arr = h, len, traits) *)
Definition array_reserve (e : env) (w : world) (h : nat) (len0 : nat) (tr : option kind)
  : res (world * out) :=
  if match tr with Some k => esz e k =? 0 | None => false end then Ok (w, ORefused) else
  let len := match tr with
             | Some k => let s := esz e k in if len0 mod s =? 0 then len0 else len0 + (s - len0 mod s)
             | None => len0 end in
  match handle w h with
  | None => reserve_distinct e w h len tr None
  | Some id =>
    match hget w id with
    | None => Fault
    | Some b =>
      if shared b || bimm b then reserve_distinct e w h len tr (Some (id, b))
      else reserve_reuse e w h len tr id b
    end
  end.

(* user of the API constructs the elements of the raw region [pos, pos+len) handed out by
   insert/append: for (off = pos; off < pos + len; off += size) construct(ptr + off) *)
Fixpoint construct_loop (fuel sz bsz off lim : nat) (sl : list slot) (c : ctx) : res (list slot * ctx) :=
  if off <? lim then
    match fuel with
    | 0 => Fault
    | S f => do '(sl', c') <- construct_at sz bsz off None sl c; construct_loop f sz bsz (off + sz) lim sl' c'
    end
  else Ok (sl, c).

(* C++ buffer::trim(len): remove len bytes from the end *)
Definition cxx_trim (e : env) (b : buf) (len0 : nat) (c : ctx) : res (buf * ctx * bool) :=
  if bused b <? len0 then Ok (b, c, false) else
  let used := bused b in
  let len := used - len0 in
  match btr b with
  | Some k =>
    let size := esz e k in
    if (size =? 0) || negb (used mod size =? 0) || negb (len mod size =? 0) then Ok (b, c, false) else
    do '(sl1, c1) <- fini_loop (ehf e) (S used) size (bsize b) 0 len used (bslots b) c;
    Ok (with_used (with_slots b sl1) len, c1, true)
  | None => Ok (with_used b len, c, true)
  end.

(* C++ buffer::skip(len): remove len bytes from the front *)
Definition cxx_skip (e : env) (b : buf) (len : nat) (c : ctx) : res (buf * ctx * bool) :=
  if bused b <? len then Ok (b, c, false) else
  let post := bused b - len in
  match btr b with
  | Some k =>
    let size := esz e k in
    if (size =? 0) || negb (len mod size =? 0) then Ok (b, c, false) else
    do '(sl1, c1) <- fini_loop (ehf e) (S len) size (bsize b) 0 0 len (bslots b) c;
    do sl2 <- move_slots size (bsize b) 0 len post sl1;
    Ok (with_used (with_slots b sl2) post, c1, true)
  | None => Ok (with_used b post, c, true)
  end.

(* C++ buffer::append(len): reserve raw space at the end (caller constructs) *)
Definition cxx_append (e : env) (b : buf) (len : nat) : buf * bool :=
  let used := bused b in
  if bsize b - used <? len then (b, false) else
  match btr b with
  | Some k =>
    let size := esz e k in
    if (size =? 0) || negb (used mod size =? 0) || negb (len mod size =? 0) then (b, false)
    else (with_used b (used + len), true)
  | None => (with_used b (used + len), true)
  end.

(* C++ buffer::copy(from) *)
Definition cxx_copy (e : env) (b from : buf) (c : ctx) : res (buf * ctx * bool) :=
  do '(b1, c1, rv) <- buffer_set e b (btr from) 0 (Some (bslots from)) (bused from) c;
  match rv with
  | RErr _ => Ok (b1, c1, false)
  | RCount _ =>
    if bused from <? bused b1 then
      do '(b2, c2, _) <- cxx_trim e b1 (bused b1 - bused from) c1; Ok (b2, c2, true)
    else Ok (b1, c1, true)
  end.

(* C++ buffer::move(from): result (this', from', ok) *)
Definition cxx_move (e : env) (b from : buf) (c : ctx) : res (buf * buf * ctx * bool) :=
  if negb (okind_eqb (btr b) (btr from)) then Ok (b, from, c, false) else
  if bsize b <? bused from then Ok (b, from, c, false) else
  do '(b1, c1, ok) <- cxx_trim e b (bused b) c;
  if negb ok then Ok (b1, from, c1, false) else
  match btr b with
  | Some k =>
    let size := esz e k in
    if (bused from mod size =? 0) then
      let moved := firstn (bused from / size) (bslots from) in
      let nsl := moved ++ skipn (length moved) (bslots b1) in
      Ok (with_used (with_slots b1 nsl) (bused from), with_used from 0, c1, true)
    else Fault
  | None => Ok (with_used b1 (bused from), with_used from 0, c1, true)
  end.

Inductive op :=
| OpNew (h : nat) (tr : option kind) (len : nat) (imm ncp : bool)
| OpReserve (h : nat) (tr : option kind) (len : nat)
| OpSet (h : nat) (tr : option kind) (pos len : nat) (withsrc : bool)
| OpInsert (h : nat) (pos len : nat)
| OpCut (h : nat) (off len : nat)
| OpDetach (h : nat) (len : nat)
| OpClone (h g : nat)
| OpRelease (h : nat)
| OpTrim (h : nat) (len : nat)
| OpSkip (h : nat) (len : nat)
| OpAppend (h : nat) (len : nat)
| OpSetLen (h : nat) (len : nat)
| OpCopy (h g : nat)
| OpMove (h g : nat)
| OpUInsert (h : nat) (pos : nat)      (* unique_array<T>::insert(pos), T of kind A, pos in elements *)
| OpUResize (h : nat) (n : nat)        (* unique_array<T>::resize(n) *)
| OpNop.                              (* a self-checking scenario of the harness (item_array::compact on
                                         library types): no effect on the handles *)

(* run [f] on the buffer of handle h *)
Definition on_buf (w : world) (h : nat) (f : nat -> buf -> res (world * out)) : res (world * out) :=
  match handle w h with
  | None => Ok (w, OSkip)
  | Some id => match hget w id with None => Fault | Some b => f id b end
  end.

Definition bool_out (ok : bool) : out := if ok then OOk else ORefused.

(* the harness builds ceil(len/size) source elements, calls the library, destroys them *)
Fixpoint make_sources (n : nat) (c : ctx) : list slot * ctx :=
  match n with
  | 0 => ([], c)
  | S m =>
    let t := cnext c in
    let '(r, c') := make_sources m (mkctx (S t) (cscript c) (EInit t None :: clog c)) in
    (STok t :: r, c')
  end.
Fixpoint drop_sources (s : list slot) (c : ctx) : ctx :=
  match s with
  | STok t :: r => drop_sources r (logev (EFini t) c)
  | _ :: r => drop_sources r c
  | [] => c
  end.

(* ---- operations on the one buffer of a handle, as the harness drives them ---- *)

(* mpt_buffer_set with ceil(len/size) source elements built and destroyed by the caller *)
Definition do_set (e : env) (tr : option kind) (pos len : nat) (withsrc : bool) (b : buf) (c : ctx)
  : res (buf * ctx * out) :=
  let n := match tr with Some k => (len + esz e k - 1) / esz e k | None => 0 end in
  let '(srcs, c0) := if withsrc then make_sources n c else ([], c) in
  do '(b', c', rv) <- buffer_set e b tr pos (if withsrc then Some srcs else None) len c0;
  Ok (b', drop_sources srcs c', out_of_ret rv).

(* mpt_buffer_insert, then the caller constructs the inserted elements *)
Definition do_insert (e : env) (pos len : nat) (b : buf) (c : ctx) : res (buf * ctx * out) :=
  do '(b', c', ok) <- buffer_insert e b pos len c;
  if ok then
    match btr b' with
    | Some k =>
      do '(sl, c2) <- construct_loop (S (pos + len)) (esz e k) (bsize b') pos (pos + len) (bslots b') c';
      Ok (with_slots b' sl, c2, OOk)
    | None => Ok (b', c', OOk)
    end
  else Ok (b', c', ORefused).

Definition do_cut (e : env) (off len : nat) (b : buf) (c : ctx) : res (buf * ctx * out) :=
  do '(b', c', rv) <- buffer_cut e b off len c; Ok (b', c', out_of_ret rv).

Definition do_trim (e : env) (len : nat) (b : buf) (c : ctx) : res (buf * ctx * out) :=
  do '(b', c', ok) <- cxx_trim e b len c; Ok (b', c', bool_out ok).

Definition do_skip (e : env) (len : nat) (b : buf) (c : ctx) : res (buf * ctx * out) :=
  do '(b', c', ok) <- cxx_skip e b len c; Ok (b', c', bool_out ok).

(* buffer::append, then the caller constructs the appended elements *)
Definition do_append (e : env) (len : nat) (b : buf) (c : ctx) : res (buf * ctx * out) :=
  let '(b', ok) := cxx_append e b len in
  if ok then
    match btr b' with
    | Some k =>
      do '(sl, c2) <- construct_loop (S (bused b')) (esz e k) (bsize b') (bused b) (bused b') (bslots b') c;
      Ok (with_slots b' sl, c2, OOk)
    | None => Ok (b', c, OOk)
    end
  else Ok (b, c, ORefused).

(* content<T>::set_length(len) with set = len * sizeof(T) *)
Definition do_setlen (e : env) (set : nat) (b : buf) (c : ctx) : res (buf * ctx * out) :=
  if set =? bused b then Ok (b, c, OOk) else
  if set <? bused b then
    do '(b', c', ok) <- cxx_trim e b (bused b - set) c; Ok (b', c', bool_out ok)
  else
    do '(b', c', ok) <- buffer_insert e b set 0 c; Ok (b', c', bool_out ok).

(* run a one-buffer operation on the buffer of handle h *)
Definition on_local (w : world) (h : nat) (f : buf -> ctx -> res (buf * ctx * out)) : res (world * out) :=
  on_buf w h (fun id b => do '(b', c', o) <- f b (wctx w); Ok (hput w id (Some b') c', o)).

(* ---- C++ unique_array<T> (mptcore/array.h), T an element type of kind A ---- *)

(* number of elements of the array of handle h (0 for the dummy) *)
Definition uarray_length (e : env) (w : world) (h : nat) : nat :=
  match handle w h with
  | Some id => match hget w id with Some b => bused b / esz e KA | None => 0 end
  | None => 0
  end.

(* unique_array<T>::reserve(n): an empty array holds the static immutable dummy whose detach is
   buffer::create_unique (NoCopy); otherwise the vtable detach for at least the current length ("a
   private copy keeps all elements"); when that refuses the array keeps its buffer and reserve
   reports failure (/repo 3c052e7, 3169847) *)
Definition uarray_reserve (e : env) (w : world) (h : nat) (n : nat) : res (world * bool) :=
  match handle w h with
  | None =>
    let '(w1, id) := alloc e w (n * esz e KA) false true (Some KA) in Ok (set_hnd w1 h (Some id), true)
  | Some id =>
    let n' := if n <? uarray_length e w h then uarray_length e w h else n in
    do '(w', r) <- detach e w id (n' * esz e KA);
    match r with
    | Some nid => Ok (set_hnd w' h (Some nid), true)
    | None => Ok (w', false)
    end
  end.

(* the harness applies the unique_array operations only to arrays of kind A *)
Definition uarray_applicable (w : world) (h : nat) : bool :=
  match handle w h with
  | Some id => match hget w id with Some b => okind_eqb (btr b) (Some KA) | None => false end
  | None => true
  end.

(* unique_array<T>::insert(pos): reserve(max(len, pos) + 1), content<T>::insert(pos) (raw), construct *)
Definition op_uinsert (e : env) (w : world) (h : nat) (pos : nat) : res (world * out) :=
  if negb (uarray_applicable w h) then Ok (w, OSkip) else
  let len := uarray_length e w h in
  let len' := if len <? pos then pos else len in
  do '(w1, ok) <- uarray_reserve e w h (len' + 1);
  if ok then on_local w1 h (do_insert e (pos * esz e KA) (esz e KA)) else Ok (w1, ORefused).

(* unique_array<T>::resize(n): reserve(n), content<T>::set_length(n) *)
Definition op_uresize (e : env) (w : world) (h : nat) (n : nat) : res (world * out) :=
  if negb (uarray_applicable w h) then Ok (w, OSkip) else
  do '(w1, ok) <- uarray_reserve e w h n;
  if ok then on_local w1 h (do_setlen e (n * esz e KA)) else Ok (w1, ORefused).

Definition step_op (e : env) (w : world) (o : op) : res (world * out) :=
  match o with
  | OpNew h tr len imm ncp => op_new e w h tr len imm ncp
  | OpReserve h tr len => array_reserve e w h len tr
  | OpSet h tr pos len withsrc => on_local w h (do_set e tr pos len withsrc)
  | OpInsert h pos len => on_local w h (do_insert e pos len)
  | OpCut h off len => on_local w h (do_cut e off len)
  | OpDetach h len =>
    on_buf w h (fun id b =>
      do '(w', r) <- detach e w id len;
      match r with
      | Some nid => Ok (set_hnd w' h (Some nid), OOk)
      | None => Ok (w', ORefused)
      end)
  | OpClone h g =>
    (* the harness does not pass an empty source array (NULL dereference in mpt_array_clone) *)
    match handle w g with None => Ok (w, OSkip) | Some _ => array_clone e w h (Some g) end
  | OpRelease h => array_clone e w h None
  | OpTrim h len => on_local w h (do_trim e len)
  | OpSkip h len => on_local w h (do_skip e len)
  | OpAppend h len => on_local w h (do_append e len)
  | OpSetLen h set => on_local w h (do_setlen e set)
  | OpCopy h g =>
    on_buf w h (fun id b =>
      on_buf w g (fun gid gb =>
        if id =? gid then Ok (w, OOk) else
        do '(b', c', ok) <- cxx_copy e b gb (wctx w); Ok (hput w id (Some b') c', bool_out ok)))
  | OpMove h g =>
    on_buf w h (fun id b =>
      on_buf w g (fun gid gb =>
        if id =? gid then Ok (w, OOk) else
        do '(b', gb', c', ok) <- cxx_move e b gb (wctx w);
        Ok (hput (hput w id (Some b') c') gid (Some gb') c', bool_out ok)))
  | OpUInsert h pos => op_uinsert e w h pos
  | OpUResize h n => op_uresize e w h n
  | OpNop => Ok (w, OOk)
  end.

Definition op_handles (o : op) : list nat :=
  match o with
  | OpNew h _ _ _ _ | OpReserve h _ _ | OpSet h _ _ _ _ | OpInsert h _ _ | OpCut h _ _ | OpDetach h _
  | OpRelease h | OpTrim h _ | OpSkip h _ | OpAppend h _ | OpSetLen h _ | OpUInsert h _ | OpUResize h _ => [h]
  | OpClone h g | OpCopy h g | OpMove h g => [h; g]
  | OpNop => []
  end.

(* operations naming a handle that does not exist are not applicable *)
Definition step (e : env) (w : world) (o : op) : res (world * out) :=
  if forallb (fun h => h <? length (whnd w)) (op_handles o) then step_op e w o else Ok (w, OSkip).

(* a history; every handle is released at the end (the last outputs) *)
Fixpoint run (e : env) (w : world) (ops : list op) : list (res (world * out)) :=
  match ops with
  | [] => []
  | o :: r =>
    match step e w o with
    | Ok (w', x) => Ok (w', x) :: run e w' r
    | other => [other]
    end
  end.

(* the world after a history ([Fault] is kept) *)
Fixpoint exec (e : env) (w : world) (ops : list op) : res world :=
  match ops with
  | [] => Ok w
  | o :: r =>
    match step e w o with
    | Ok (w', _) => exec e w' r
    | Err x => Err x
    | Fault => Fault
    end
  end.

Definition is_ok {A} (r : res A) : bool := match r with Ok _ => true | _ => false end.

Definition release_all (n : nat) : list op := map OpRelease (seq 0 n).

Definition init_world (nh : nat) (script : list bool) : world :=
  mkworld [] (repeat None nh) (mkctx 0 script []).
