(* C05/TypedMonitor.v — facts about the specification monitor (TypedSpec.v):
   invariants of an accepted log, single-event steps, and the declarative reading
   [exactly_once] / [all_finalised] of acceptance. *)
From MptV Require Import Base.Mem C05.TypedModel C05.TypedSpec.
Local Open Scope nat_scope.

Lemma mem_nat_In t l : mem_nat t l = true <-> In t l.
Proof.
  unfold mem_nat. rewrite existsb_exists. split.
  - intros [x [H E]]. apply Nat.eqb_eq in E. subst. assumption.
  - intros H. exists t. split; [assumption|apply Nat.eqb_refl].
Qed.

Lemma mem_nat_false t l : mem_nat t l = false <-> ~ In t l.
Proof.
  rewrite <- mem_nat_In. destruct (mem_nat t l); split; congruence.
Qed.

Lemma remove_nat_In t l x : NoDup l -> (In x (remove_nat t l) <-> In x l /\ x <> t).
Proof.
  induction l as [|y l IH]; intros ND; simpl.
  - tauto.
  - inversion ND as [|? ? Hy ND']; subst.
    destruct (Nat.eqb_spec t y) as [E|E].
    + subst. split.
      * intros H. split; [right; assumption|]. intros ->. contradiction.
      * intros [[->|H] N]; [congruence|assumption].
    + simpl. rewrite IH by assumption. split.
      * intros [->|[H N]]; split; auto.
      * intros [[->|H] N]; auto.
Qed.

Lemma remove_nat_NoDup t l : NoDup l -> NoDup (remove_nat t l).
Proof.
  induction l as [|y l IH]; intros ND; simpl; [constructor|].
  inversion ND as [|? ? Hy ND']; subst.
  destruct (Nat.eqb_spec t y); [assumption|].
  constructor; [|apply IH; assumption].
  rewrite remove_nat_In by assumption. tauto.
Qed.

(* ---------------------------------------------------------------- accepted logs *)

Definition mon_good (m : mon) : Prop :=
  NoDup (mlive m) /\ forall t, In t (mlive m) -> t < mbound m.

Lemma mon0_good : mon_good mon0.
Proof. split; [constructor|]. intros t []. Qed.

Lemma mon_event_good m ev m' : mon_good m -> mon_event m ev = inl m' -> mon_good m'.
Proof.
  intros [ND LT] E. destruct ev as [t [s|]|t|t|o]; simpl in E.
  - destruct (Nat.ltb_spec t (mbound m)); [discriminate|].
    destruct (mem_nat s (mlive m)); [|discriminate]. inversion E; subst; clear E.
    split; simpl.
    + constructor; [|assumption]. intros H'. apply LT in H'. lia.
    + intros x [->|Hx]; [lia|]. apply LT in Hx. lia.
  - destruct (Nat.ltb_spec t (mbound m)); [discriminate|]. inversion E; subst; clear E.
    split; simpl.
    + constructor; [|assumption]. intros H'. apply LT in H'. lia.
    + intros x [->|Hx]; [lia|]. apply LT in Hx. lia.
  - discriminate.
  - destruct (mem_nat t (mlive m)); [|discriminate]. inversion E; subst; clear E.
    split; simpl.
    + apply remove_nat_NoDup; assumption.
    + intros x Hx. apply remove_nat_In in Hx; [|assumption]. apply LT. tauto.
  - discriminate.
Qed.

Lemma mon_log_good l m : mon_log l = inl m -> mon_good m.
Proof.
  revert m; induction l as [|ev l IH]; intros m E; simpl in E.
  - inversion E. apply mon0_good.
  - destruct (mon_log l) as [m0|]; [|discriminate].
    eapply mon_event_good; [apply IH; reflexivity|eassumption].
Qed.

(* the monitor of the log of a context, with the token counter in step *)
Definition mon_ok (c : ctx) (m : mon) : Prop :=
  mon_log (clog c) = inl m /\ mbound m = cnext c.

Lemma mon_ok_good c m : mon_ok c m -> mon_good m.
Proof. intros [H _]. eapply mon_log_good; eassumption. Qed.

Lemma mon_ok_fini c m t :
  mon_ok c m -> In t (mlive m) ->
  mon_ok (logev (EFini t) c) (mkmon (remove_nat t (mlive m)) (mbound m)).
Proof.
  intros [H B] I. split; [|exact B]. simpl. rewrite H. simpl.
  apply mem_nat_In in I. rewrite I. reflexivity.
Qed.

Definition src_ok (m : mon) (src : option slot) : Prop :=
  match src with
  | None => True
  | Some (STok s) => In s (mlive m)
  | Some _ => False
  end.

Lemma mon_ok_init c m src scr :
  mon_ok c m -> src_ok m src ->
  mon_ok (mkctx (S (cnext c)) scr (init_event (cnext c) src :: clog c))
         (mkmon (cnext c :: mlive m) (S (cnext c))).
Proof.
  intros [H B] S. split; [|reflexivity]. simpl. rewrite H.
  destruct src as [[|s|s]|]; simpl in S; try contradiction; simpl.
  - rewrite B, Nat.ltb_irrefl. apply mem_nat_In in S. rewrite S. reflexivity.
  - rewrite B, Nat.ltb_irrefl. reflexivity.
Qed.

(* ---------------------------------------------------------------- declarative reading *)

Lemma n_init_app t l1 l2 : n_init t (l1 ++ l2) = n_init t l1 + n_init t l2.
Proof. unfold n_init. rewrite filter_app, app_length. reflexivity. Qed.
Lemma n_fini_app t l1 l2 : n_fini t (l1 ++ l2) = n_fini t l1 + n_fini t l2.
Proof. unfold n_fini. rewrite filter_app, app_length. reflexivity. Qed.

Lemma snoc_split {A} (L1 L2 A' : list A) (e x : A) :
  L1 ++ e :: L2 = A' ++ [x] ->
  (L2 = [] /\ L1 = A' /\ e = x) \/ (exists L2', L2 = L2' ++ [x] /\ A' = L1 ++ e :: L2').
Proof.
  intros H. destruct (@exists_last _ (e :: L2)) as [L [y Hy]]; [discriminate|].
  destruct L2 as [|z L2].
  - left. apply app_inj_tail in H. tauto.
  - right.
    assert (E : exists L2', z :: L2 = L2' ++ [x] /\ A' = L1 ++ e :: L2').
    { destruct (@exists_last _ (z :: L2)) as [L' [y' Hy']]; [discriminate|].
      exists L'. rewrite Hy' in H.
      replace (L1 ++ e :: L' ++ [y']) with ((L1 ++ e :: L') ++ [y']) in H
        by (rewrite <- app_assoc; reflexivity).
      apply app_inj_tail in H. destruct H as [H1 H2]. subst. split; [assumption|reflexivity]. }
    exact E.
Qed.

(* what acceptance of a (newest first) log means for its chronological reading *)
Record mon_sound (l : list event) (m : mon) : Prop := {
  ms_eo : exactly_once (rev l);
  ms_live : forall t, In t (mlive m) <-> live_in (rev l) t;
  ms_bound : forall t, 0 < n_init t (rev l) -> t < mbound m;
  ms_fin : forall t, 0 < n_fini t (rev l) -> n_init t (rev l) = 1
}.

Lemma n_init_one t ev : n_init t [ev] = if is_init t ev then 1 else 0.
Proof. unfold n_init; simpl. destruct (is_init t ev); reflexivity. Qed.
Lemma n_fini_one t ev : n_fini t [ev] = if is_fini t ev then 1 else 0.
Proof. unfold n_fini; simpl. destruct (is_fini t ev); reflexivity. Qed.

Lemma mon_sound_nil : mon_sound [] mon0.
Proof.
  split; simpl.
  - split; intros; try (unfold n_init, n_fini; simpl; lia);
      try (destruct L1; discriminate); intros [].
  - intros t. split; [intros []|]. intros [H _]. unfold n_init in H; simpl in H. discriminate.
  - intros t H. unfold n_init in H; simpl in H. lia.
  - intros t H. unfold n_fini in H; simpl in H. lia.
Qed.

Lemma mon_sound_step l m ev m' :
  mon_good m -> mon_sound l m -> mon_event m ev = inl m' -> mon_sound (ev :: l) m'.
Proof.
  intros [ND LT] [EO LV BD FN] E.
  assert (NI : forall t, mbound m <= t -> n_init t (rev l) = 0).
  { intros t Ht. destruct (n_init t (rev l)) eqn:Z; [reflexivity|].
    assert (t < mbound m) by (apply BD; lia). lia. }
  assert (NF : forall t, mbound m <= t -> n_fini t (rev l) = 0).
  { intros t Ht. destruct (n_fini t (rev l)) eqn:Z; [reflexivity|].
    assert (n_init t (rev l) = 1) by (apply FN; lia). rewrite NI in H by assumption. discriminate. }
  (* the new event is an accepted init of token u or an accepted fini of token u *)
  assert (CASES :
    (exists u src, ev = EInit u src /\ mbound m <= u /\ m' = mkmon (u :: mlive m) (S u)
                   /\ (forall s, src = Some s -> In s (mlive m)))
    \/ (exists u, ev = EFini u /\ In u (mlive m) /\ m' = mkmon (remove_nat u (mlive m)) (mbound m))).
  { destruct ev as [t [s|]|t|t|o]; simpl in E; try discriminate.
    - destruct (Nat.ltb_spec t (mbound m)); [discriminate|].
      destruct (mem_nat s (mlive m)) eqn:M; [|discriminate]. inversion E; subst.
      left. exists t, (Some s). repeat split; auto. intros s' [= <-]. apply mem_nat_In. assumption.
    - destruct (Nat.ltb_spec t (mbound m)); [discriminate|]. inversion E; subst.
      left. exists t, None. repeat split; auto. intros s' [=].
    - destruct (mem_nat t (mlive m)) eqn:M; [|discriminate]. inversion E; subst.
      right. exists t. repeat split; auto. apply mem_nat_In. assumption. }
  destruct EO as [I1 F1 FL CL NRF NRC].
  simpl rev.
  destruct CASES as [(u & src & -> & Hu & -> & Hsrc)|(u & -> & Hu & ->)].
  - (* init of a fresh token *)
    assert (IU : forall t, n_init t (rev l ++ [EInit u src]) = n_init t (rev l) + if t =? u then 1 else 0).
    { intros t. rewrite n_init_app, n_init_one. simpl. rewrite Nat.eqb_sym. reflexivity. }
    assert (FU : forall t, n_fini t (rev l ++ [EInit u src]) = n_fini t (rev l)).
    { intros t. rewrite n_fini_app, n_fini_one. simpl. lia. }
    split.
    + split.
      * intros t. rewrite IU. destruct (Nat.eqb_spec t u) as [->|]; [rewrite NI by assumption; lia|].
        specialize (I1 t). lia.
      * intros t. rewrite FU. apply F1.
      * intros L1 t L2 H. simpl in H; symmetry in H; apply snoc_split in H. destruct H as [(_ & _ & [=])|(L2' & -> & H)].
        eapply FL; eassumption.
      * intros L1 t s L2 H. simpl in H; symmetry in H; apply snoc_split in H. destruct H as [(_ & E1 & E2)|(L2' & -> & H)].
        -- inversion E2; subst. apply LV. apply Hsrc. reflexivity.
        -- eapply CL; eassumption.
      * intros o H. apply in_app_or in H. destruct H as [H|[H|[]]]; [eapply NRF; eassumption|discriminate].
      * intros t H. apply in_app_or in H. destruct H as [H|[H|[]]]; [eapply NRC; eassumption|discriminate].
    + intros t. simpl. unfold live_in. rewrite IU, FU. split.
      * intros [<-|H].
        -- rewrite Nat.eqb_refl, NI, NF by assumption. lia.
        -- assert (t < mbound m) by (apply LT; assumption).
           destruct (Nat.eqb_spec t u); [lia|]. apply LV in H. destruct H. lia.
      * intros [H1 H2]. destruct (Nat.eqb_spec t u) as [E0|E0]; [left; congruence|].
        right. apply LV. split; lia.
    + intros t. rewrite IU. simpl. destruct (Nat.eqb_spec t u) as [->|]; [lia|].
      intros H. assert (t < mbound m) by (apply BD; lia). lia.
    + intros t. rewrite FU, IU. intros H. destruct (Nat.eqb_spec t u) as [->|].
      * rewrite NF in H by assumption. lia.
      * rewrite (FN t H). lia.
  - (* fini of a live token *)
    assert (IU : forall t, n_init t (rev l ++ [EFini u]) = n_init t (rev l)).
    { intros t. rewrite n_init_app, n_init_one. simpl. lia. }
    assert (FU : forall t, n_fini t (rev l ++ [EFini u]) = n_fini t (rev l) + if t =? u then 1 else 0).
    { intros t. rewrite n_fini_app, n_fini_one. simpl. rewrite Nat.eqb_sym. reflexivity. }
    pose proof (proj1 (LV u) Hu) as [LU1 LU2].
    split.
    + split.
      * intros t. rewrite IU. apply I1.
      * intros t. rewrite FU. destruct (Nat.eqb_spec t u) as [->|]; [lia|]. specialize (F1 t). lia.
      * intros L1 t L2 H. simpl in H; symmetry in H; apply snoc_split in H. destruct H as [(_ & -> & [= ->])|(L2' & -> & H)].
        -- split; assumption.
        -- eapply FL; eassumption.
      * intros L1 t s L2 H. simpl in H; symmetry in H; apply snoc_split in H. destruct H as [(_ & _ & [=])|(L2' & -> & H)].
        eapply CL; eassumption.
      * intros o H. apply in_app_or in H. destruct H as [H|[H|[]]]; [eapply NRF; eassumption|discriminate].
      * intros t H. apply in_app_or in H. destruct H as [H|[H|[]]]; [eapply NRC; eassumption|discriminate].
    + intros t. simpl. rewrite remove_nat_In by assumption. unfold live_in. rewrite IU, FU. split.
      * intros [H N]. apply LV in H. destruct H. destruct (Nat.eqb_spec t u); [contradiction|]. lia.
      * intros [H1 H2]. destruct (Nat.eqb_spec t u); [lia|]. split; [|assumption]. apply LV. split; lia.
    + intros t. rewrite IU. simpl. apply BD.
    + intros t. rewrite FU, IU. destruct (Nat.eqb_spec t u) as [->|]; intros H; [assumption|].
      apply FN. lia.
Qed.

Lemma mon_log_sound l m : mon_log l = inl m -> mon_sound l m.
Proof.
  revert m; induction l as [|ev l IH]; intros m E; simpl in E.
  - inversion E. apply mon_sound_nil.
  - destruct (mon_log l) as [m0|] eqn:E0; [|discriminate].
    eapply mon_sound_step; [eapply mon_log_good; eassumption|apply IH; reflexivity|assumption].
Qed.

(* accepted log with nothing live: every token has exactly one Init and one later Fini *)
Lemma mon_log_all_finalised l m :
  mon_log l = inl m -> mlive m = [] -> exactly_once (rev l) /\ all_finalised (rev l).
Proof.
  intros E Z. destruct (mon_log_sound _ _ E) as [EO LV BD FN]. split; [assumption|].
  intros t. destruct EO as [I1 F1 _ _ _ _]. specialize (I1 t). specialize (F1 t).
  destruct (n_fini t (rev l)) as [|[|k]] eqn:NF; [| |lia].
  - destruct (n_init t (rev l)) as [|[|k]] eqn:NI; [reflexivity| |lia].
    exfalso. assert (In t (mlive m)) by (apply LV; split; assumption). rewrite Z in H. contradiction.
  - apply FN. lia.
Qed.

(* ---------------------------------------------------------------- content traits without finaliser *)

Lemma mon_events_app m a b :
  mon_events m (a ++ b) = match mon_events m a with inl m' => mon_events m' b | inr v => inr v end.
Proof.
  revert m; induction a as [|ev a IH]; intros m; simpl; [reflexivity|].
  destruct (mon_event m ev); [apply IH|reflexivity].
Qed.

Lemma mon_events_good evs : forall m m', mon_good m -> mon_events m evs = inl m' -> mon_good m'.
Proof.
  induction evs as [|ev evs IH]; intros m m' G E; simpl in E.
  - inversion E; subst. assumption.
  - destruct (mon_event m ev) as [m1|] eqn:E1; [|discriminate].
    eapply IH; [eapply mon_event_good; eassumption|assumption].
Qed.

Lemma filter_id {A} (f : A -> bool) l : (forall x, In x l -> f x = true) -> filter f l = l.
Proof.
  induction l as [|y l IH]; intros H; simpl; [reflexivity|].
  rewrite (H y (or_introl eq_refl)). f_equal. apply IH. intros x Hx. apply H. right. assumption.
Qed.

Lemma filter_filter {A} (f g : A -> bool) l : filter f (filter g l) = filter (fun x => g x && f x) l.
Proof.
  induction l as [|y l IH]; simpl; [reflexivity|].
  destruct (g y); simpl; [destruct (f y); simpl; [f_equal|]|]; assumption.
Qed.

Lemma remove_nat_filter t l : NoDup l -> remove_nat t l = filter (fun x => negb (x =? t)) l.
Proof.
  induction l as [|y l IH]; intros ND; simpl; [reflexivity|].
  inversion ND as [|? ? Hy ND']; subst.
  destruct (Nat.eqb_spec t y) as [->|N].
  - rewrite Nat.eqb_refl. simpl. symmetry. apply filter_id.
    intros x Hx. apply negb_true_iff, Nat.eqb_neq. intros ->. contradiction.
  - replace (y =? t) with false by (symmetry; apply Nat.eqb_neq; congruence). simpl. f_equal. apply IH. assumption.
Qed.

(* finalising the elements [drops] one by one removes exactly them from the live set *)
Lemma drops_events drops : forall live b,
  NoDup live -> incl drops live -> NoDup drops ->
  mon_events (mkmon live b) (map EFini drops)
  = inl (mkmon (filter (fun t => negb (mem_nat t drops)) live) b).
Proof.
  induction drops as [|d drops IH]; intros live b NL IN ND; simpl.
  - rewrite filter_id by reflexivity. reflexivity.
  - assert (Hd : In d live) by (apply IN; left; reflexivity).
    apply mem_nat_In in Hd. rewrite Hd.
    inversion ND as [|? ? Nd ND']; subst.
    rewrite IH; [|apply remove_nat_NoDup; assumption| |assumption].
    + rewrite remove_nat_filter by assumption. rewrite filter_filter.
      f_equal. f_equal. apply filter_ext. intros x. rewrite negb_orb. reflexivity.
    + intros x Hx. apply remove_nat_In; [assumption|]. split; [apply IN; right; assumption|].
      intros ->. contradiction.
Qed.

Lemma mem_nat_filter t f l : mem_nat t (filter f l) = mem_nat t l && f t.
Proof.
  induction l as [|y l IH]; simpl; [reflexivity|].
  destruct (f y) eqn:F; simpl.
  - rewrite IH. destruct (Nat.eqb_spec t y) as [->|]; simpl; [rewrite F; reflexivity|reflexivity].
  - rewrite IH. destruct (Nat.eqb_spec t y) as [->|]; simpl; [rewrite F, andb_false_r; reflexivity|reflexivity].
Qed.

Lemma keep_of_abandoned ts live :
  filter (fun t => negb (mem_nat t (abandoned ts live))) live = keep_stored ts live.
Proof.
  unfold keep_stored, abandoned. apply filter_ext_in. intros t Ht.
  rewrite mem_nat_filter. apply mem_nat_In in Ht. rewrite Ht. simpl. apply negb_involutive.
Qed.

Lemma first_missing_ext l a b :
  (forall x, In x l -> mem_nat x a = mem_nat x b) -> first_missing l a = first_missing l b.
Proof.
  induction l as [|y l IH]; intros H; simpl; [reflexivity|].
  rewrite (H y (or_introl eq_refl)). destruct (mem_nat y b); [|reflexivity].
  apply IH. intros x Hx. apply H. right. assumption.
Qed.

Lemma first_missing_none l a : (forall x, In x l -> mem_nat x a = true) -> first_missing l a = None.
Proof.
  induction l as [|y l IH]; intros H; simpl; [reflexivity|].
  rewrite (H y (or_introl eq_refl)). apply IH. intros x Hx. apply H. right. assumption.
Qed.

(* the monitor for traits without finaliser = the monitor on the log completed by one abandon event
   for every live element that is no longer stored *)
Lemma monitor_step_nf_complete m evs stored :
  mon_good m -> monitor_step_nf m evs stored = monitor_step m (complete_evs m evs stored) stored.
Proof.
  intros G. unfold monitor_step_nf, monitor_step, complete_evs.
  destruct (mon_events m evs) as [m'|v] eqn:E; [|rewrite E; reflexivity].
  destruct (slot_tokens stored) as [ts|] eqn:ST.
  2:{ rewrite E. unfold stored_ok. rewrite ST. reflexivity. }
  rewrite mon_events_app, E.
  pose proof (mon_events_good _ _ _ G E) as [NL _].
  destruct m' as [live b]. simpl mlive in *. simpl mbound.
  rewrite drops_events; [|assumption| |].
  2:{ unfold abandoned. intros x Hx. apply filter_In in Hx. tauto. }
  2:{ unfold abandoned. apply NoDup_filter. assumption. }
  rewrite keep_of_abandoned. unfold stored_ok. rewrite ST. simpl mlive.
  destruct (first_dup ts); [reflexivity|].
  rewrite (first_missing_ext ts (keep_stored ts live) live).
  2:{ intros x Hx. unfold keep_stored. rewrite mem_nat_filter.
      apply mem_nat_In in Hx. rewrite Hx. apply andb_true_r. }
  destruct (first_missing ts live); [reflexivity|].
  rewrite first_missing_none; [reflexivity|].
  intros x Hx. unfold keep_stored in Hx. apply filter_In in Hx. tauto.
Qed.

Lemma monitor_step_nf_good m evs stored m' :
  mon_good m -> monitor_step_nf m evs stored = inl m' -> mon_good m'.
Proof.
  intros G E. rewrite monitor_step_nf_complete in E by assumption. unfold monitor_step in E.
  destruct (mon_events m (complete_evs m evs stored)) as [m1|] eqn:E1; [|discriminate].
  destruct (stored_ok m1 stored); [discriminate|]. inversion E; subst.
  eapply mon_events_good; eassumption.
Qed.

Lemma monitor_nf_complete obs : forall m,
  mon_good m -> monitor_nf m obs = monitor m (complete_obs m obs).
Proof.
  induction obs as [|[[evs stored]|] obs IH]; intros m G; simpl; try reflexivity.
  rewrite <- monitor_step_nf_complete by assumption.
  destruct (monitor_step_nf m evs stored) as [m'|v] eqn:E; [|reflexivity].
  f_equal. apply IH. eapply monitor_step_nf_good; eassumption.
Qed.

Lemma monitor_nf_complete0 obs : monitor_nf mon0 obs = monitor mon0 (complete_obs mon0 obs).
Proof. apply monitor_nf_complete. apply mon0_good. Qed.
