(* C05/TypedWorld.v — invariants of the heap of buffers: every live token is stored in
   exactly one used element slot of exactly one allocated buffer ([hinv]); the reference
   count of a buffer is the number of handles on it ([rinv]). *)
From MptV Require Import Base.Mem C05.TypedModel C05.TypedSpec C05.TypedMonitor C05.TypedLoops C05.TypedOps
  C05.TypedSet.
Local Open Scope nat_scope.

(* ---------------------------------------------------------------- heap access *)

Lemma setnth_length {A} i (x : A) l : i < length l -> length (setnth i x l) = length l.
Proof.
  revert i; induction l as [|y l IH]; intros i H; simpl in H; [lia|].
  destruct i as [|i]; unfold setnth in *; simpl; [reflexivity|]. f_equal. apply IH. lia.
Qed.

Lemma nth_error_setnth {A} i (x : A) l j :
  i < length l -> nth_error (setnth i x l) j = if j =? i then Some x else nth_error l j.
Proof.
  revert i j; induction l as [|y l IH]; intros i j H; simpl in H; [lia|].
  destruct i as [|i]; destruct j as [|j]; unfold setnth in *; simpl; try reflexivity.
  apply IH. lia.
Qed.

Lemma hget_lt w id b : hget w id = Some b -> id < length (wheap w).
Proof.
  unfold hget. destruct (nth_error (wheap w) id) eqn:E; [|discriminate].
  intros _. apply nth_error_Some. congruence.
Qed.

Lemma hget_hput w id ob c j :
  id < length (wheap w) ->
  hget (hput w id ob c) j = if j =? id then ob else hget w j.
Proof.
  intros H. unfold hget, hput. simpl. rewrite nth_error_setnth by assumption.
  destruct (j =? id); [destruct ob|]; reflexivity.
Qed.

Lemma hget_hput_eq w id ob c : id < length (wheap w) -> hget (hput w id ob c) id = ob.
Proof. intros H. rewrite hget_hput, Nat.eqb_refl by assumption. reflexivity. Qed.
Lemma hget_hput_ne w id ob c j : id < length (wheap w) -> j <> id -> hget (hput w id ob c) j = hget w j.
Proof. intros H N. rewrite hget_hput by assumption. destruct (Nat.eqb_spec j id); [contradiction|reflexivity]. Qed.

Lemma hput_len w id ob c : id < length (wheap w) -> length (wheap (hput w id ob c)) = length (wheap w).
Proof. intros H. unfold hput. simpl. apply setnth_length. assumption. Qed.

Lemma hget_set_hnd w h v id : hget (set_hnd w h v) id = hget w id.
Proof. reflexivity. Qed.
Lemma hget_set_ctx w c id : hget (set_ctx w c) id = hget w id.
Proof. reflexivity. Qed.

(* ---------------------------------------------------------------- the heap invariant *)

Record hinv (e : env) (w : world) (m : mon) : Prop := {
  hi_wf : forall id b, hget w id = Some b -> buf_wf e b;
  hi_mon : mon_ok (wctx w) m;
  hi_live : forall t, In t (mlive m) <-> exists id b, hget w id = Some b /\ In t (buf_els e b);
  hi_nodup : forall id b, hget w id = Some b -> NoDup (buf_els e b);
  hi_disj : forall i j bi bj t, i <> j -> hget w i = Some bi -> hget w j = Some bj ->
                                In t (buf_els e bi) -> ~ In t (buf_els e bj)
}.

Lemma hinv_pre e w m id b : env_ok e -> hinv e w m -> hget w id = Some b -> pre e b (wctx w) m.
Proof.
  intros EO [WF MO LV ND DJ] H. split; eauto.
  intros t Ht. apply LV. eauto.
Qed.

(* a buffer-local operation *)
Lemma hinv_local e w m id b b' c' m' :
  hinv e w m -> hget w id = Some b -> local_ok e b (wctx w) m b' c' m' ->
  hinv e (hput w id (Some b') c') m'.
Proof.
  intros [WF MO LV ND DJ] H [S W' M' NX ND' LV' FR].
  pose proof (hget_lt _ _ _ H) as LT.
  split.
  - intros j bj. rewrite hget_hput by assumption. destruct (Nat.eqb_spec j id); [intros [= <-]; assumption|apply WF].
  - exact M'.
  - intros t. rewrite LV'. split.
    + intros [[L D]|L].
      * apply LV in L. destruct L as (j & bj & Hj & Tj). exists j, bj.
        rewrite hget_hput by assumption. destruct (Nat.eqb_spec j id) as [->|]; [|auto].
        rewrite H in Hj. inversion Hj; subst. contradiction.
      * exists id, b'. rewrite hget_hput, Nat.eqb_refl by assumption. auto.
    + intros (j & bj & Hj & Tj). rewrite hget_hput in Hj by assumption.
      destruct (Nat.eqb_spec j id) as [->|N].
      * inversion Hj; subst. right. assumption.
      * left. split; [apply LV; eauto|]. intros Hb. eapply (DJ j id bj b t); eassumption.
  - intros j bj. rewrite hget_hput by assumption. destruct (Nat.eqb_spec j id); [intros [= <-]; assumption|apply ND].
  - intros i j bi bj t N Hi Hj Ti Tj. rewrite hget_hput in Hi, Hj by assumption.
    assert (OLD : forall x bx, hget w x = Some bx -> In t (buf_els e bx) -> t < cnext (wctx w)).
    { intros x bx Hx Tx. eapply live_lt; [exact MO|]. apply LV. eauto. }
    destruct (Nat.eqb_spec i id) as [->|Ni]; destruct (Nat.eqb_spec j id) as [->|Nj]; try congruence.
    + inversion Hi; subst. destruct (FR t Ti) as [F|F].
      * eapply (DJ id j b bj t); eassumption.
      * pose proof (OLD _ _ Hj Tj). lia.
    + inversion Hj; subst. destruct (FR t Tj) as [F|F].
      * eapply (DJ i id bi b t); eassumption.
      * pose proof (OLD _ _ Hi Ti). lia.
    + eapply (DJ i j bi bj t); eassumption.
Qed.

(* only the reference count of a buffer changes *)
Lemma buf_els_with_ref e b r : buf_els e (with_ref b r) = buf_els e b.
Proof. reflexivity. Qed.

Lemma hinv_ref e w m id b r :
  hinv e w m -> hget w id = Some b -> hinv e (hput w id (Some (with_ref b r)) (wctx w)) m.
Proof.
  intros [WF MO LV ND DJ] H. pose proof (hget_lt _ _ _ H) as LT.
  assert (G : forall j bj, hget (hput w id (Some (with_ref b r)) (wctx w)) j = Some bj ->
                           exists bj', hget w j = Some bj' /\ buf_els e bj = buf_els e bj' /\ (buf_wf e bj' -> buf_wf e bj)).
  { intros j bj. rewrite hget_hput by assumption. destruct (Nat.eqb_spec j id) as [->|].
    - intros [= <-]. exists b. split; [assumption|]. split; [reflexivity|]. intros X.
      unfold buf_wf in *. simpl. destruct (btr b); [destruct X; split; assumption|exact I].
    - intros Hj. exists bj. auto. }
  split.
  - intros j bj Hj. destruct (G _ _ Hj) as (bj' & H1 & H2 & H3). apply H3. eauto.
  - exact MO.
  - intros t. rewrite LV. split.
    + intros (j & bj & Hj & Tj). destruct (Nat.eq_dec j id) as [->|N].
      * exists id, (with_ref b r). rewrite hget_hput, Nat.eqb_refl by assumption.
        rewrite H in Hj. inversion Hj; subst. auto.
      * exists j, bj. rewrite hget_hput by assumption. destruct (Nat.eqb_spec j id); [contradiction|auto].
    + intros (j & bj & Hj & Tj). destruct (G _ _ Hj) as (bj' & H1 & H2 & _). exists j, bj'. rewrite <- H2. auto.
  - intros j bj Hj. destruct (G _ _ Hj) as (bj' & H1 & H2 & _). rewrite H2. eauto.
  - intros i j bi bj t N Hi Hj. destruct (G _ _ Hi) as (bi' & I1 & I2 & _). destruct (G _ _ Hj) as (bj' & J1 & J2 & _).
    rewrite I2, J2. eapply DJ; eassumption.
Qed.

(* a buffer whose elements have all been finalised is freed *)
Lemma hinv_free e w m id b c1 m1 :
  hinv e w m -> hget w id = Some b -> mon_step (wctx w) m c1 m1 (buf_els e b) [] ->
  hinv e (hput w id None c1) m1.
Proof.
  intros [WF MO LV ND DJ] H S. pose proof (hget_lt _ _ _ H) as LT.
  split.
  - intros j bj. rewrite hget_hput by assumption. destruct (Nat.eqb_spec j id); [discriminate|apply WF].
  - apply S.
  - intros t. rewrite (st_live _ _ _ _ _ _ S). simpl. split.
    + intros [[L D]|[]]. apply LV in L. destruct L as (j & bj & Hj & Tj). exists j, bj.
      rewrite hget_hput by assumption. destruct (Nat.eqb_spec j id) as [->|]; [|auto].
      rewrite H in Hj. inversion Hj; subst. contradiction.
    + intros (j & bj & Hj & Tj). rewrite hget_hput in Hj by assumption.
      destruct (Nat.eqb_spec j id) as [->|N]; [discriminate|].
      left. split; [apply LV; eauto|]. intros Hb. eapply (DJ j id bj b t); eassumption.
  - intros j bj. rewrite hget_hput by assumption. destruct (Nat.eqb_spec j id); [discriminate|apply ND].
  - intros i j bi bj t N Hi Hj.
    destruct (Nat.eq_dec i id) as [->|Ni]; [rewrite hget_hput_eq in Hi by assumption; discriminate|].
    destruct (Nat.eq_dec j id) as [->|Nj]; [rewrite hget_hput_eq in Hj by assumption; discriminate|].
    rewrite hget_hput_ne in Hi, Hj by assumption.
    exact (DJ i j bi bj t N Hi Hj).
Qed.

(* a buffer that holds no elements may be replaced by any well formed one without elements
   (used for freeing raw buffers and for changing the content type of an empty buffer) *)
Lemma hinv_replace_empty e w m id b ob :
  hinv e w m -> hget w id = Some b -> buf_els e b = [] ->
  match ob with Some b' => buf_wf e b' /\ buf_els e b' = [] | None => True end ->
  hinv e (hput w id ob (wctx w)) m.
Proof.
  intros [WF MO LV ND DJ] H Z OB. pose proof (hget_lt _ _ _ H) as LT.
  assert (G : forall j bj, hget (hput w id ob (wctx w)) j = Some bj ->
                           (j = id /\ buf_els e bj = [] /\ buf_wf e bj) \/ (j <> id /\ hget w j = Some bj)).
  { intros j bj. rewrite hget_hput by assumption. destruct (Nat.eqb_spec j id) as [->|]; [|auto].
    intros ->. left. tauto. }
  split.
  - intros j bj Hj. destruct (G _ _ Hj) as [(_ & _ & X)|(_ & X)]; eauto.
  - exact MO.
  - intros t. rewrite LV. split.
    + intros (j & bj & Hj & Tj). destruct (Nat.eq_dec j id) as [->|N].
      * rewrite H in Hj. inversion Hj; subst. rewrite Z in Tj. contradiction.
      * exists j, bj. rewrite hget_hput by assumption. destruct (Nat.eqb_spec j id); [contradiction|auto].
    + intros (j & bj & Hj & Tj). destruct (G _ _ Hj) as [(_ & X & _)|(_ & X)].
      * rewrite X in Tj. contradiction.
      * eauto.
  - intros j bj Hj. destruct (G _ _ Hj) as [(_ & X & _)|(_ & X)]; [rewrite X; constructor|eauto].
  - intros i j bi bj t N Hi Hj Ti Tj.
    destruct (G _ _ Hi) as [(_ & X & _)|(Ni & X)]; [rewrite X in Ti; contradiction|].
    destruct (G _ _ Hj) as [(_ & Y & _)|(Nj & Y)]; [rewrite Y in Tj; contradiction|].
    eapply (DJ i j bi bj t); eassumption.
Qed.

(* ---------------------------------------------------------------- allocation *)

Lemma alloc_size_ge e len : env_ok e -> len <= alloc_size e len.
Proof.
  intros (_ & _ & Hp). unfold alloc_size.
  assert ((len + ehdr e - 1) < ((len + ehdr e - 1) / epage e + 1) * epage e).
  { pose proof (Nat.div_mod (len + ehdr e - 1) (epage e)).
    pose proof (Nat.mod_upper_bound (len + ehdr e - 1) (epage e)). nia. }
  lia.
Qed.

Lemma firstn_repeat_raw n k : firstn n (repeat SRaw k) = repeat SRaw (Nat.min n k).
Proof.
  revert k; induction n; intros k; simpl; [reflexivity|]. destruct k; simpl; [reflexivity|]. f_equal. apply IHn.
Qed.

Lemma fresh_buf_wf e r i n size tr : env_ok e -> buf_wf e (mkbuf r i n size 0 tr (mkslots e tr size)).
Proof.
  intros EO. unfold buf_wf, mkslots. simpl. destruct tr as [k|]; [|exact I].
  pose proof (esz_pos e k EO). split; simpl.
  - apply Nat.mod_0_l. lia.
  - lia.
  - apply repeat_length.
  - rewrite Nat.div_0_l by lia. reflexivity.
Qed.
Lemma fresh_buf_els e r i n size tr : buf_els e (mkbuf r i n size 0 tr (mkslots e tr size)) = [].
Proof.
  unfold buf_els, mkslots. simpl. destruct tr as [k|]; [|reflexivity].
  destruct (esz e k) eqn:Z; reflexivity.
Qed.

Lemma hget_alloc e w len i n tr j :
  hget (fst (alloc e w len i n tr)) j =
  if j =? length (wheap w) then Some (mkbuf 1 i n (alloc_size e len) 0 tr (mkslots e tr (alloc_size e len)))
  else hget w j.
Proof.
  unfold alloc, hget. simpl. destruct (Nat.eqb_spec j (length (wheap w))) as [->|N].
  - rewrite nth_error_app2, Nat.sub_diag by lia. reflexivity.
  - destruct (Nat.lt_ge_cases j (length (wheap w))).
    + rewrite nth_error_app1 by assumption. reflexivity.
    + rewrite (proj2 (nth_error_None _ _)) by (rewrite app_length; simpl; lia).
      rewrite (proj2 (nth_error_None _ _)) by lia. reflexivity.
Qed.

Lemma hget_beyond w j : length (wheap w) <= j -> hget w j = None.
Proof. intros H. unfold hget. rewrite (proj2 (nth_error_None _ _)) by assumption. reflexivity. Qed.

Lemma hinv_alloc e w m len i n tr :
  env_ok e -> hinv e w m -> hinv e (fst (alloc e w len i n tr)) m.
Proof.
  intros EO [WF MO LV ND DJ].
  assert (G : forall j bj, hget (fst (alloc e w len i n tr)) j = Some bj ->
                           (j = length (wheap w) /\ buf_els e bj = [] /\ buf_wf e bj) \/ (j < length (wheap w) /\ hget w j = Some bj)).
  { intros j bj. rewrite hget_alloc. destruct (Nat.eqb_spec j (length (wheap w))) as [->|].
    - intros [= <-]. left. split; [reflexivity|]. split; [apply fresh_buf_els|apply fresh_buf_wf; assumption].
    - intros Hj. right. split; [eapply hget_lt; eassumption|assumption]. }
  split.
  - intros j bj Hj. destruct (G _ _ Hj) as [(_ & _ & X)|(_ & X)]; eauto.
  - exact MO.
  - intros t. rewrite LV. split.
    + intros (j & bj & Hj & Tj). exists j, bj. rewrite hget_alloc.
      pose proof (hget_lt _ _ _ Hj). destruct (Nat.eqb_spec j (length (wheap w))); [lia|auto].
    + intros (j & bj & Hj & Tj). destruct (G _ _ Hj) as [(_ & X & _)|(_ & X)]; [rewrite X in Tj; contradiction|eauto].
  - intros j bj Hj. destruct (G _ _ Hj) as [(_ & X & _)|(_ & X)]; [rewrite X; constructor|eauto].
  - intros a b' ba bb t N Ha Hb Ta Tb.
    destruct (G _ _ Ha) as [(_ & X & _)|(_ & X)]; [rewrite X in Ta; contradiction|].
    destruct (G _ _ Hb) as [(_ & Y & _)|(_ & Y)]; [rewrite Y in Tb; contradiction|].
    eapply (DJ a b' ba bb t); eassumption.
Qed.

(* ---------------------------------------------------------------- reference counts *)

Definition onat_dec : forall x y : option nat, {x = y} + {x <> y}.
Proof. decide equality. apply Nat.eq_dec. Defined.

Definition cnt (w : world) (id : nat) : nat := count_occ onat_dec (whnd w) (Some id).

Definition refs (w : world) (id : nat) : option nat := option_map bref (hget w id).

Definition rinv (w : world) : Prop :=
  forall id, match refs w id with
             | Some r => r = cnt w id /\ 1 <= r
             | None => cnt w id = 0
             end.

Lemma count_occ_setnth (l : list (option nat)) h v x :
  h < length l ->
  count_occ onat_dec (setnth h v l) x + (if onat_dec (nth h l None) x then 1 else 0)
  = count_occ onat_dec l x + (if onat_dec v x then 1 else 0).
Proof.
  revert h; induction l as [|y l IH]; intros h H; simpl in H; [lia|].
  destruct h as [|h].
  - unfold setnth. simpl. destruct (onat_dec v x), (onat_dec y x); lia.
  - unfold setnth in *. specialize (IH h ltac:(lia)).
    change (skipn (S (S h)) (y :: l)) with (skipn (S h) l).
    change (firstn (S h) (y :: l)) with (y :: firstn h l).
    change (nth (S h) (y :: l) None) with (nth h l None).
    cbn [app count_occ].
    destruct (onat_dec y x); lia.
Qed.

Lemma handle_nth w h : handle w h = nth h (whnd w) None.
Proof.
  unfold handle. revert h. induction (whnd w) as [|y l IH]; intros [|h]; simpl; auto.
Qed.

Lemma cnt_set_hnd w h v id :
  h < length (whnd w) ->
  cnt (set_hnd w h v) id + (if onat_dec (handle w h) (Some id) then 1 else 0)
  = cnt w id + (if onat_dec v (Some id) then 1 else 0).
Proof.
  intros H. unfold cnt, set_hnd. simpl. rewrite handle_nth. apply count_occ_setnth. assumption.
Qed.

Lemma cnt_hput w id ob c j : cnt (hput w id ob c) j = cnt w j.
Proof. reflexivity. Qed.
Lemma cnt_alloc e w len i n tr j : cnt (fst (alloc e w len i n tr)) j = cnt w j.
Proof. reflexivity. Qed.

Lemma handle_cnt w h id : handle w h = Some id -> 1 <= cnt w id.
Proof.
  unfold handle, cnt. destruct (nth_error (whnd w) h) as [v|] eqn:E; [|discriminate]. intros ->.
  apply nth_error_In in E. apply (count_occ_In onat_dec) in E. lia.
Qed.

Lemma rinv_handle w h id : rinv w -> handle w h = Some id -> exists b, hget w id = Some b /\ 1 <= bref b.
Proof.
  intros R H. specialize (R id). pose proof (handle_cnt _ _ _ H). unfold refs in R.
  destruct (hget w id) as [b|]; simpl in R; [exists b; split; [reflexivity|lia]|lia].
Qed.

(* the reference counts are the only thing [rinv] looks at *)
Lemma rinv_same_refs w w' :
  rinv w -> whnd w' = whnd w -> (forall j, refs w' j = refs w j) -> rinv w'.
Proof.
  intros R H E id. specialize (R id). rewrite E. unfold cnt in *. rewrite H. assumption.
Qed.

Lemma set_hnd_len w h v : h < length (whnd w) -> length (whnd (set_hnd w h v)) = length (whnd w).
Proof. intros H. unfold set_hnd. simpl. apply setnth_length. assumption. Qed.

(* ---------------------------------------------------------------- unref *)

(* dropping one reference: the buffer stays (count > 1) or is finalised and freed *)
Lemma unref_ok e w m id b :
  env_ok e -> hinv e w m -> hget w id = Some b -> 1 <= bref b ->
  exists w' m',
    unref e w id = Ok w' /\ hinv e w' m' /\ whnd w' = whnd w
    /\ length (wheap w') = length (wheap w)
    /\ (forall j, j <> id -> hget w' j = hget w j)
    /\ hget w' id = (if bref b =? 1 then None else Some (with_ref b (bref b - 1))).
Proof.
  intros EO HI H R. pose proof (hget_lt _ _ _ H) as LT.
  unfold unref. rewrite H.
  replace (bref b =? 0) with false by (symmetry; apply Nat.eqb_neq; lia).
  destruct (Nat.eqb_spec (bref b) 1) as [R1|R1].
  - rewrite R1. simpl negb. cbn [Nat.sub Nat.eqb negb].
    destruct (btr b) as [k|] eqn:T.
    + pose proof (hinv_pre e w m id b EO HI H) as P.
      destruct (typed_pre e b (wctx w) m k P T) as (Hs & EL & J & SL & US & LEN & BE & ULE & NDE & INE).
      set (sz := esz e k) in *.
      replace (sz =? 0) with false by (symmetry; apply Nat.eqb_neq; lia).
      assert (UA : bused b - bused b mod sz = length EL * sz).
      { rewrite US, mul_mod by assumption. lia. }
      rewrite UA.
      destruct (fini_range (ehf e) sz (bsize b) EL (S (length EL * sz)) 0 [] J (wctx w) m) as (c1 & m1 & FL & S1 & SC);
        try assumption; try reflexivity.
      { nia. }
      { apply HI. }
      cbn [Nat.mul Nat.add app] in FL. rewrite SL, FL. cbn [bind].
      exists (hput w id None c1), m1. split; [reflexivity|]. split.
      * eapply hinv_free; try eassumption. rewrite BE. assumption.
      * split; [reflexivity|]. split; [apply hput_len; assumption|]. split.
        -- intros j N. rewrite hget_hput by assumption. destruct (Nat.eqb_spec j id); [contradiction|reflexivity].
        -- rewrite hget_hput, Nat.eqb_refl by assumption. reflexivity.
    + exists (hput w id None (wctx w)), m. split; [reflexivity|]. split.
      * eapply hinv_replace_empty; try eassumption; [|exact I]. unfold buf_els. rewrite T. reflexivity.
      * split; [reflexivity|]. split; [apply hput_len; assumption|]. split.
        -- intros j N. rewrite hget_hput by assumption. destruct (Nat.eqb_spec j id); [contradiction|reflexivity].
        -- rewrite hget_hput, Nat.eqb_refl by assumption. reflexivity.
  - replace (negb (bref b - 1 =? 0)) with true by (symmetry; apply negb_true_iff, Nat.eqb_neq; lia).
    exists (hput w id (Some (with_ref b (bref b - 1))) (wctx w)), m. split; [reflexivity|]. split.
    + apply hinv_ref; assumption.
    + split; [reflexivity|]. split; [apply hput_len; assumption|]. split.
      * intros j N. rewrite hget_hput by assumption. destruct (Nat.eqb_spec j id); [contradiction|reflexivity].
      * rewrite hget_hput, Nat.eqb_refl by assumption. reflexivity.
Qed.
