(* C05/TypedOps.v — the operations that work on ONE buffer: well-formedness and
   the effect on the live set, for every argument (accepted or refused). *)
From MptV Require Import Base.Mem C05.TypedModel C05.TypedSpec C05.TypedMonitor C05.TypedLoops.
Local Open Scope nat_scope.

Definition env_ok (e : env) : Prop := 0 < eszA e /\ 0 < eszB e /\ 0 < epage e.
Lemma esz_pos e k : env_ok e -> 0 < esz e k.
Proof. intros (A & B & _). destruct k; assumption. Qed.

(* elements of a buffer: the tokens in its used slots *)
Definition buf_els (e : env) (b : buf) : list nat :=
  match btr b with
  | Some k => toks (firstn (bused b / esz e k) (bslots b))
  | None => []
  end.

Record typed_wf (sz : nat) (b : buf) : Prop := {
  tw_al : bused b mod sz = 0;
  tw_le : bused b <= bsize b;
  tw_len : length (bslots b) = bsize b / sz;
  tw_tok : all_tok (firstn (bused b / sz) (bslots b))
}.
Definition buf_wf (e : env) (b : buf) : Prop :=
  match btr b with Some k => typed_wf (esz e k) b | None => True end.

Definition same_static (b b' : buf) : Prop :=
  bref b' = bref b /\ bimm b' = bimm b /\ bncp b' = bncp b /\ bsize b' = bsize b /\ btr b' = btr b.

Lemma same_static_refl b : same_static b b.
Proof. repeat split. Qed.

(* the effect of a buffer-local operation *)
Record local_ok (e : env) (b : buf) (c : ctx) (m : mon) (b' : buf) (c' : ctx) (m' : mon) : Prop := {
  lo_static : same_static b b';
  lo_wf : buf_wf e b';
  lo_mon : mon_ok c' m';
  lo_next : cnext c <= cnext c';
  lo_nodup : NoDup (buf_els e b');
  lo_live : forall t, In t (mlive m') <-> (In t (mlive m) /\ ~ In t (buf_els e b)) \/ In t (buf_els e b');
  lo_fresh : forall t, In t (buf_els e b') -> In t (buf_els e b) \/ cnext c <= t
}.

Lemma local_ok_refl e b c m :
  buf_wf e b -> mon_ok c m -> NoDup (buf_els e b) -> incl (buf_els e b) (mlive m) -> local_ok e b c m b c m.
Proof.
  intros W M N I. split; auto using same_static_refl.
  intros t. specialize (I t). destruct (in_dec Nat.eq_dec t (buf_els e b)); tauto.
Qed.

(* same, but only the script was consumed *)
Lemma local_ok_script e b c m scr :
  buf_wf e b -> mon_ok c m -> NoDup (buf_els e b) -> incl (buf_els e b) (mlive m) ->
  local_ok e b c m b (mkctx (cnext c) scr (clog c)) m.
Proof.
  intros W M N I. split; auto using same_static_refl; try (destruct M; split; assumption).
  intros t. specialize (I t). destruct (in_dec Nat.eq_dec t (buf_els e b)); tauto.
Qed.

Lemma typed_wf_decomp sz b :
  0 < sz -> typed_wf sz b ->
  exists E J, bslots b = map STok E ++ J /\ bused b = length E * sz
              /\ length E + length J = bsize b / sz.
Proof.
  intros Hs [AL LE LEN TOK].
  exists (toks (firstn (bused b / sz) (bslots b))), (skipn (bused b / sz) (bslots b)).
  assert (N : bused b / sz <= length (bslots b)).
  { rewrite LEN. apply Nat.div_le_mono; lia. }
  assert (L : length (toks (firstn (bused b / sz) (bslots b))) = bused b / sz).
  { rewrite <- (map_length STok), <- TOK, firstn_length. lia. }
  split; [|split].
  - rewrite <- TOK. symmetry. apply firstn_skipn.
  - rewrite L. apply aligned_form; assumption.
  - rewrite L, skipn_length, <- LEN. lia.
Qed.

Lemma buf_els_typed e b k E J :
  btr b = Some k -> 0 < esz e k -> bslots b = map STok E ++ J -> bused b = length E * esz e k ->
  buf_els e b = E.
Proof.
  intros T Hs S U. unfold buf_els. rewrite T, S, U, mul_div by assumption.
  replace (length E) with (length (map STok E) + 0) by (rewrite map_length; lia).
  rewrite firstn_app_2. simpl. rewrite app_nil_r. apply toks_map.
Qed.

Lemma typed_wf_intro sz r i n size k E J :
  0 < sz -> length E * sz <= size -> length E + length J = size / sz ->
  typed_wf sz (mkbuf r i n size (length E * sz) k (map STok E ++ J)).
Proof.
  intros Hs L1 L2. split; simpl.
  - apply mul_mod; assumption.
  - assumption.
  - rewrite app_length, map_length. assumption.
  - rewrite mul_div by assumption.
    replace (length E) with (length (map STok E) + 0) by (rewrite map_length; lia).
    rewrite firstn_app_2. simpl. rewrite app_nil_r. apply all_tok_map.
Qed.

(* live tokens are below the counter *)
Lemma live_lt c m t : mon_ok c m -> In t (mlive m) -> t < cnext c.
Proof. intros M I. destruct M as [H B]. rewrite <- B. apply (mon_log_good _ _ H). assumption. Qed.

Lemma in_seq_ge t a n : In t (seq a n) -> a <= t.
Proof. intros H. apply in_seq in H. lia. Qed.

(* the generic way to conclude: new slots = map STok E' ++ J', E' = (E - gone) + new *)
Lemma local_ok_intro e b c m c' m' k E gone new E' J' used' :
  env_ok e -> btr b = Some k -> buf_els e b = E ->
  mon_ok c m -> incl E (mlive m) ->
  mon_step c m c' m' gone new ->
  incl gone E -> NoDup E' ->
  (forall t, In t E' <-> (In t E /\ ~ In t gone) \/ In t new) ->
  used' = length E' * esz e k -> used' <= bsize b -> length E' + length J' = bsize b / esz e k ->
  local_ok e b c m (with_used (with_slots b (map STok E' ++ J')) used') c' m'.
Proof.
  intros EO T BE M I S G ND EQ U LE LEN. subst used'.
  pose proof (esz_pos e k EO) as Hs.
  set (b' := with_used (with_slots b (map STok E' ++ J')) (length E' * esz e k)).
  assert (BE' : buf_els e b' = E').
  { eapply (buf_els_typed e b' k E' J'); simpl; eauto. }
  split.
  - repeat split; simpl; auto.
  - unfold buf_wf. simpl. rewrite T.
    pose proof (typed_wf_intro (esz e k) (bref b) (bimm b) (bncp b) (bsize b) (btr b) E' J' Hs LE LEN) as W.
    exact W.
  - apply S.
  - rewrite (st_next _ _ _ _ _ _ S). lia.
  - rewrite BE'. assumption.
  - intros t. rewrite BE', BE, (st_live _ _ _ _ _ _ S), EQ.
    specialize (I t). specialize (G t). destruct (in_dec Nat.eq_dec t E); tauto.
  - intros t. rewrite BE', BE, EQ. intros [[H _]|H]; [left; assumption|right].
    rewrite (st_new _ _ _ _ _ _ S) in H. eapply in_seq_ge; eassumption.
Qed.

(* fresh tokens are different from everything that was ever live *)
Lemma fresh_not_old c m l t n :
  mon_ok c m -> incl l (mlive m) -> In t (seq (cnext c) n) -> ~ In t l.
Proof.
  intros M I H H'. apply I in H'. pose proof (live_lt _ _ _ M H'). apply in_seq in H. lia.
Qed.

Lemma NoDup_app3 {A} (a b c : list A) :
  NoDup a -> NoDup b -> NoDup c ->
  (forall x, In x a -> ~ In x b) -> (forall x, In x a -> ~ In x c) -> (forall x, In x b -> ~ In x c) ->
  NoDup (a ++ b ++ c).
Proof.
  intros Na Nb Nc Dab Dac Dbc.
  assert (Nbc : NoDup (b ++ c)).
  { clear Na Dab Dac. induction b as [|x b IH]; simpl; [assumption|].
    inversion Nb; subst. constructor.
    - rewrite in_app_iff. intros [H|H]; [contradiction|]. eapply Dbc; [left; reflexivity|assumption].
    - apply IH; [assumption|]. intros y Hy. apply Dbc. right. assumption. }
  induction a as [|x a IH]; simpl; [assumption|].
  inversion Na; subst. constructor.
  - rewrite !in_app_iff. intros [H|[H|H]]; [contradiction| |].
    + eapply Dab; [left; reflexivity|assumption].
    + eapply Dac; [left; reflexivity|assumption].
  - apply IH; [assumption| |]; intros y Hy; [apply Dab|apply Dac]; right; assumption.
Qed.

Lemma NoDup_app_parts {A} (a b : list A) : NoDup (a ++ b) -> NoDup a /\ NoDup b /\ forall x, In x a -> ~ In x b.
Proof.
  induction a as [|x a IH]; simpl; intros H.
  - split; [constructor|]. split; [assumption|]. intros x [].
  - inversion H as [|? ? Hx H']; subst. destruct (IH H') as (Na & Nb & D).
    split; [constructor; [rewrite in_app_iff in Hx; tauto|assumption]|]. split; [assumption|].
    intros y [<-|Hy]; [rewrite in_app_iff in Hx; tauto|apply D; assumption].
Qed.

(* split a list at two positions *)
Lemma split3 {A} (l : list A) p q :
  p <= q -> q <= length l ->
  exists a b c, l = a ++ b ++ c /\ length a = p /\ length b = q - p /\ length c = length l - q.
Proof.
  intros H1 H2. exists (firstn p (firstn q l)), (skipn p (firstn q l)), (skipn q l).
  split; [|split; [|split]].
  - rewrite app_assoc, firstn_skipn, firstn_skipn. reflexivity.
  - rewrite !firstn_length. lia.
  - rewrite skipn_length, firstn_length. lia.
  - rewrite skipn_length. reflexivity.
Qed.

Ltac dif :=
  match goal with
  | |- context [if ?c then _ else _] =>
    let E := fresh "E" in destruct c eqn:E
  end.

(* ---------------------------------------------------------------- preconditions shared by the operations *)
Record pre (e : env) (b : buf) (c : ctx) (m : mon) : Prop := {
  pr_env : env_ok e;
  pr_wf : buf_wf e b;
  pr_mon : mon_ok c m;
  pr_nodup : NoDup (buf_els e b);
  pr_incl : incl (buf_els e b) (mlive m)
}.

Lemma pre_refl e b c m : pre e b c m -> local_ok e b c m b c m.
Proof. intros [? ? ? ? ?]. apply local_ok_refl; assumption. Qed.

(* ---------------------------------------------------------------- mpt_buffer_cut *)

Lemma raw_local_ok e b c m b' :
  btr b = None -> btr b' = None -> same_static b b' -> pre e b c m -> local_ok e b c m b' c m.
Proof.
  intros T T' SS [EO W M ND IN]. split; auto.
  - unfold buf_wf. rewrite T'. exact I.
  - unfold buf_els. rewrite T'. constructor.
  - unfold buf_els. rewrite T, T'. simpl. tauto.
  - unfold buf_els. rewrite T'. intros t [].
Qed.

Lemma disj3 {A} (a b c : list A) :
  NoDup (a ++ b ++ c) ->
  NoDup a /\ NoDup b /\ NoDup c /\ (forall x, In x a -> ~ In x b)
  /\ (forall x, In x a -> ~ In x c) /\ (forall x, In x b -> ~ In x c).
Proof.
  intros ND. apply NoDup_app_parts in ND. destruct ND as (N1 & N23 & D1).
  apply NoDup_app_parts in N23. destruct N23 as (N2 & N3 & D2).
  repeat split; auto; intros x Hx Hy; apply (D1 x Hx); rewrite in_app_iff; tauto.
Qed.

Lemma buffer_cut_ok e b off len c m :
  pre e b c m ->
  exists b' c' m' r, buffer_cut e b off len c = Ok (b', c', r) /\ local_ok e b c m b' c' m'.
Proof.
  intros P. pose proof (pre_refl _ _ _ _ P) as R. pose proof P as [EO W M ND IN].
  unfold buffer_cut.
  dif; [eauto 8|]. dif; [eauto 8|]. dif; [eauto 8|].
  destruct (btr b) as [k|] eqn:T.
  2:{ do 4 eexists. split; [reflexivity|]. apply raw_local_ok; auto. repeat split. }
  pose proof (esz_pos e k EO) as Hs. set (sz := esz e k) in *.
  dif; [eauto 8|].
  apply orb_false_iff in E2. destruct E2 as [E2 E4]. apply orb_false_iff in E2. destruct E2 as [_ E3].
  apply negb_false_iff, Nat.eqb_eq in E3. apply negb_false_iff, Nat.eqb_eq in E4.
  apply Nat.ltb_ge in E.
  unfold buf_wf in W. rewrite T in W.
  destruct (typed_wf_decomp sz b Hs W) as (EL & J & SL & US & LEN).
  assert (BE : buf_els e b = EL) by (eapply buf_els_typed; eauto).
  pose proof (tw_le _ _ W) as ULE.
  (* the cut range in elements: [p, p+l) *)
  set (len' := if len =? 0 then bused b - off else len) in *.
  assert (A1 : off = off / sz * sz) by (apply aligned_form; assumption).
  set (p := off / sz) in *.
  assert (A2 : len' = len' / sz * sz) by (apply aligned_form; assumption).
  set (l := len' / sz) in *.
  assert (RANGE : p + l <= length EL /\ (if len =? 0 then off else bused b - len) - off = (length EL - (p + l)) * sz).
  { unfold len' in *. destruct (len =? 0) eqn:Z.
    - apply andb_false_iff in E0. destruct E0 as [E0|E0]; [discriminate|]. apply Nat.ltb_ge in E0.
      rewrite US in *. nia.
    - apply andb_false_iff in E1. destruct E1 as [E1|E1]; [discriminate|]. apply Nat.ltb_ge in E1.
      rewrite US in *. nia. }
  destruct RANGE as [RANGE KEEP]. rewrite KEEP.
  destruct (split3 EL p (p + l)) as (E1' & E2' & E3' & EQ & L1 & L2 & L3); [lia|lia|].
  replace (p + l - p) with l in L2 by lia. rewrite <- L3.
  rewrite BE, EQ in ND. destruct (disj3 _ _ _ ND) as (N1 & N2 & N3 & D12 & D13 & D23).
  (* finalise [p, p+l) *)
  destruct (fini_loop_spec (ehf e) sz (bsize b) p Hs E2' (S (length E2' * sz)) 0 (map STok E1') (map STok E3' ++ J) c m)
    as (c1 & m1 & FL & S1 & SC).
  { rewrite map_length. lia. }
  { rewrite US in ULE. assert (length EL = p + l + length E3') by (rewrite EQ, !app_length; lia). nia. }
  { nia. }
  { assumption. }
  { assumption. }
  { intros x Hx. apply IN. rewrite BE, EQ, !in_app_iff. tauto. }
  rewrite SL, EQ, !map_app, <- !app_assoc.
  replace off with (p * sz) by lia. simpl Nat.mul in FL. simpl Nat.add in FL.
  replace len' with (l * sz) by lia. rewrite <- L2. rewrite FL. cbn [bind].
  (* move the tail *)
  set (sl1 := map STok E1' ++ map (dead (ehf e)) E2' ++ map STok E3' ++ J).
  assert (LSL : length sl1 = p + l + length E3' + length J).
  { unfold sl1. rewrite !app_length, !map_length. lia. }
  assert (LENEL : length EL = p + l + length E3') by (rewrite EQ, !app_length; lia).
  replace (p * sz + length E2' * sz) with ((p + length E2') * sz) by nia.
  rewrite move_slots_spec; try assumption; try (rewrite US in ULE; nia); try lia.
  cbn [bind].
  assert (F1 : firstn p sl1 = map STok E1') by (apply firstn_exact; rewrite map_length; assumption).
  assert (F2 : firstn (length E3') (skipn (p + length E2') sl1) = map STok E3').
  { unfold sl1. rewrite app_assoc, skipn_exact by (rewrite app_length, !map_length; lia).
    apply firstn_exact. apply map_length. }
  rewrite F1, F2, app_assoc, <- map_app.
  do 4 eexists. split; [reflexivity|].
  replace (p * sz + length E3' * sz) with (length (E1' ++ E3') * sz) by (rewrite app_length; nia).
  eapply (local_ok_intro e b c m c1 m1 k EL E2' [] (E1' ++ E3')); eauto.
  - rewrite <- BE. assumption.
  - rewrite EQ. intros x Hx. rewrite !in_app_iff. tauto.
  - replace (E1' ++ E3') with (E1' ++ [] ++ E3') by reflexivity. apply NoDup_app3; auto; try constructor; try (intros x []).
  - intros t. rewrite EQ, !in_app_iff. specialize (D12 t). specialize (D23 t). simpl. tauto.
  - rewrite app_length. rewrite US in ULE. nia.
  - fold sz. rewrite skipn_length, app_length. lia.
Qed.

(* ---------------------------------------------------------------- common set-up for typed buffers *)

Lemma typed_pre e b c m k :
  pre e b c m -> btr b = Some k ->
  0 < esz e k /\
  exists EL J, bslots b = map STok EL ++ J /\ bused b = length EL * esz e k
    /\ length EL + length J = bsize b / esz e k /\ buf_els e b = EL
    /\ length EL * esz e k <= bsize b /\ NoDup EL /\ incl EL (mlive m).
Proof.
  intros [EO W M ND IN] T. pose proof (esz_pos e k EO) as Hs. split; [assumption|].
  unfold buf_wf in W. rewrite T in W.
  destruct (typed_wf_decomp _ b Hs W) as (EL & J & SL & US & LEN).
  assert (BE : buf_els e b = EL) by (eapply buf_els_typed; eauto).
  exists EL, J. repeat split; auto.
  - rewrite <- US. apply (tw_le _ _ W).
  - rewrite <- BE. assumption.
  - rewrite <- BE. assumption.
Qed.

Lemma fini_range hf sz bsz ts fuel i P Q c m :
  0 < sz -> length P = i -> (i + length ts) * sz <= bsz -> length ts <= fuel ->
  mon_ok c m -> NoDup ts -> incl ts (mlive m) ->
  exists c' m',
    fini_loop hf fuel sz bsz 0 (i * sz) ((i + length ts) * sz) (P ++ map STok ts ++ Q) c
    = Ok (P ++ map (dead hf) ts ++ Q, c')
    /\ mon_step c m c' m' ts [] /\ cscript c' = cscript c.
Proof.
  intros Hs HP Hb Hf Hm ND IN.
  exact (fini_loop_spec hf sz bsz 0 Hs ts fuel i P Q c m HP Hb Hf Hm ND IN).
Qed.

Definition local_total (e : env) (f : buf -> ctx -> res (buf * ctx * out)) : Prop :=
  forall b c m, pre e b c m ->
    exists b' c' m' o, f b c = Ok (b', c', o) /\ local_ok e b c m b' c' m'.

Lemma do_cut_total e off len : local_total e (do_cut e off len).
Proof.
  intros b c m P. destruct (buffer_cut_ok e b off len c m P) as (b' & c' & m' & r & E & L).
  unfold do_cut. rewrite E. cbn [bind]. eauto 8.
Qed.

(* ---------------------------------------------------------------- buffer::trim *)

Lemma cxx_trim_ok e b len0 c m :
  pre e b c m ->
  exists b' c' m' ok, cxx_trim e b len0 c = Ok (b', c', ok) /\ local_ok e b c m b' c' m'.
Proof.
  intros P. pose proof (pre_refl _ _ _ _ P) as R. pose proof P as [EO W M ND IN].
  unfold cxx_trim. dif; [eauto 8|].
  destruct (btr b) as [k|] eqn:T.
  2:{ do 4 eexists. split; [reflexivity|]. apply raw_local_ok; auto. repeat split. }
  destruct (typed_pre e b c m k P T) as (Hs & EL & J & SL & US & LEN & BE & ULE & NDE & INE).
  set (sz := esz e k) in *.
  dif; [eauto 8|].
  apply orb_false_iff in E0. destruct E0 as [_ E1]. apply negb_false_iff, Nat.eqb_eq in E1.
  apply Nat.ltb_ge in E.
  assert (A1 : bused b - len0 = (bused b - len0) / sz * sz) by (apply aligned_form; assumption).
  set (n1 := (bused b - len0) / sz) in *.
  assert (R1 : n1 <= length EL) by (rewrite US in A1; nia).
  destruct (split3 EL n1 (length EL)) as (E1' & E2' & E3' & EQ & L1 & L2 & L3); [lia|lia|].
  assert (E3' = []) by (destruct E3'; [reflexivity|simpl in L3; lia]). subst E3'.
  rewrite app_nil_r in EQ.
  rewrite EQ in NDE. apply NoDup_app_parts in NDE. destruct NDE as (N1 & N2 & D12).
  destruct (fini_range (ehf e) sz (bsize b) E2' (S ((n1 + length E2') * sz)) n1 (map STok E1') J c m) as (c1 & m1 & FL & S1 & SC);
    try assumption.
  { rewrite map_length. assumption. }
  { rewrite EQ, app_length in ULE. nia. }
  { nia. }
  { intros x Hx. apply INE. rewrite EQ, in_app_iff. tauto. }
  rewrite SL, EQ, map_app, <- app_assoc.
  rewrite A1. replace (bused b) with ((n1 + length E2') * sz) by (rewrite US, EQ, app_length; nia).
  rewrite FL. cbn [bind].
  do 4 eexists. split; [reflexivity|].
  rewrite <- L1.
  eapply (local_ok_intro e b c m c1 m1 k EL E2' [] E1'); eauto.
  - rewrite EQ. intros x Hx. rewrite in_app_iff. tauto.
  - intros t. rewrite EQ, in_app_iff. specialize (D12 t). simpl. tauto.
  - rewrite EQ, app_length in ULE. fold sz. nia.
  - fold sz. rewrite app_length, map_length. rewrite EQ, app_length in LEN. lia.
Qed.

Lemma do_trim_total e len : local_total e (do_trim e len).
Proof.
  intros b c m P. destruct (cxx_trim_ok e b len c m P) as (b' & c' & m' & r & E & L).
  unfold do_trim. rewrite E. cbn [bind]. eauto 8.
Qed.

(* ---------------------------------------------------------------- buffer::skip *)

Lemma cxx_skip_ok e b len c m :
  pre e b c m ->
  exists b' c' m' ok, cxx_skip e b len c = Ok (b', c', ok) /\ local_ok e b c m b' c' m'.
Proof.
  intros P. pose proof (pre_refl _ _ _ _ P) as R. pose proof P as [EO W M ND IN].
  unfold cxx_skip. dif; [eauto 8|].
  destruct (btr b) as [k|] eqn:T.
  2:{ do 4 eexists. split; [reflexivity|]. apply raw_local_ok; auto. repeat split. }
  destruct (typed_pre e b c m k P T) as (Hs & EL & J & SL & US & LEN & BE & ULE & NDE & INE).
  set (sz := esz e k) in *.
  dif; [eauto 8|].
  apply orb_false_iff in E0. destruct E0 as [_ E1]. apply negb_false_iff, Nat.eqb_eq in E1.
  apply Nat.ltb_ge in E.
  assert (A1 : len = len / sz * sz) by (apply aligned_form; assumption).
  set (l := len / sz) in *.
  assert (R1 : l <= length EL) by (rewrite US in E; nia).
  destruct (split3 EL l (length EL)) as (E1' & E2' & E3' & EQ & L1 & L2 & L3); [lia|lia|].
  assert (E3' = []) by (destruct E3'; [reflexivity|simpl in L3; lia]). subst E3'.
  rewrite app_nil_r in EQ.
  rewrite EQ in NDE. apply NoDup_app_parts in NDE. destruct NDE as (N1 & N2 & D12).
  destruct (fini_range (ehf e) sz (bsize b) E1' (S (l * sz)) 0 [] (map STok E2' ++ J) c m)
    as (c1 & m1 & FL & S1 & SC); try assumption; try reflexivity.
  { rewrite EQ, app_length in ULE. nia. }
  { nia. }
  { intros x Hx. apply INE. rewrite EQ, in_app_iff. tauto. }
  rewrite SL, EQ, map_app, <- app_assoc.
  rewrite A1. cbn [Nat.mul Nat.add app] in FL. rewrite L1 in FL. rewrite FL. cbn [bind].
  set (sl1 := map (dead (ehf e)) E1' ++ map STok E2' ++ J).
  assert (LSL : length sl1 = length EL + length J).
  { unfold sl1. rewrite EQ, !app_length, !map_length. lia. }
  replace (bused b - l * sz) with (length E2' * sz) by (rewrite US, EQ, app_length; nia).
  change 0 with (0 * sz) at 1.
  rewrite move_slots_spec; try assumption; try lia;
    try (rewrite EQ, app_length in ULE; nia); try (rewrite EQ, app_length in LSL; lia).
  cbn [bind].
  assert (F2 : firstn (length E2') (skipn l sl1) = map STok E2').
  { unfold sl1. rewrite skipn_exact by (rewrite map_length; assumption).
    apply firstn_exact. apply map_length. }
  rewrite F2. simpl.
  do 4 eexists. split; [reflexivity|].
  eapply (local_ok_intro e b c m c1 m1 k EL E1' [] E2'); eauto.
  - rewrite EQ. intros x Hx. rewrite in_app_iff. tauto.
  - intros t. rewrite EQ, in_app_iff. specialize (D12 t). simpl. intuition.
  - rewrite EQ, app_length in ULE. fold sz. nia.
  - fold sz. rewrite skipn_length. rewrite EQ, app_length in LSL, LEN. lia.
Qed.

Lemma do_skip_total e len : local_total e (do_skip e len).
Proof.
  intros b c m P. destruct (cxx_skip_ok e b len c m P) as (b' & c' & m' & r & E & L).
  unfold do_skip. rewrite E. cbn [bind]. eauto 8.
Qed.

(* ---------------------------------------------------------------- buffer::append + construct *)

Lemma gap_loop_done hi fuel sz bsz off lim sl c :
  lim <= off -> gap_loop hi fuel sz bsz off lim sl c = Ok (sl, c, off, true).
Proof.
  intros H. destruct fuel; simpl; replace (off <? lim) with false by (symmetry; apply Nat.ltb_ge; lia);
    reflexivity.
Qed.
Lemma construct_loop_done fuel sz bsz off lim sl c :
  lim <= off -> construct_loop fuel sz bsz off lim sl c = Ok (sl, c).
Proof.
  intros H. destruct fuel; simpl; replace (off <? lim) with false by (symmetry; apply Nat.ltb_ge; lia);
    reflexivity.
Qed.

Lemma ws_wu_ws b x u y : with_slots (with_used (with_slots b x) u) y = with_used (with_slots b y) u.
Proof. reflexivity. Qed.
Lemma ws_wu b u y : with_slots (with_used b u) y = with_used (with_slots b y) u.
Proof. reflexivity. Qed.
Lemma with_slots_same b : with_slots b (bslots b) = b.
Proof. destruct b; reflexivity. Qed.
Lemma with_used_same b : with_used b (bused b) = b.
Proof. destruct b; reflexivity. Qed.

Lemma nodup_fresh_app c m E n :
  mon_ok c m -> incl E (mlive m) -> NoDup E -> NoDup (E ++ seq (cnext c) n).
Proof.
  intros M I N. replace (E ++ seq (cnext c) n) with (E ++ seq (cnext c) n ++ []) by (rewrite app_nil_r; reflexivity).
  apply NoDup_app3; auto; try constructor; try (intros x _ []).
  - apply seq_NoDup.
  - intros x Hx Hy. eapply fresh_not_old; eassumption.
Qed.

Lemma do_append_total e len : local_total e (do_append e len).
Proof.
  intros b c m P. pose proof (pre_refl _ _ _ _ P) as R. pose proof P as [EO W M ND IN].
  unfold do_append, cxx_append. dif; [eauto 8|].
  destruct (btr b) as [k|] eqn:T.
  2:{ cbn [btr with_used bused bsize bslots]. rewrite T. do 4 eexists. split; [reflexivity|]. apply raw_local_ok; auto. repeat split. }
  destruct (typed_pre e b c m k P T) as (Hs & EL & J & SL & US & LEN & BE & ULE & NDE & INE).
  set (sz := esz e k) in *.
  dif; [eauto 8|]. cbn [btr with_used bused bsize bslots]. rewrite T. fold sz.
  apply orb_false_iff in E0. destruct E0 as [_ E1]. apply negb_false_iff, Nat.eqb_eq in E1.
  apply Nat.ltb_ge in E.
  assert (A1 : len = len / sz * sz) by (apply aligned_form; assumption).
  set (l := len / sz) in *.
  assert (R1 : l <= length J).
  { assert ((length EL + l) * sz <= bsize b) by (rewrite US in E; nia).
    apply mul_le_div in H; [|assumption]. lia. }
  destruct (construct_loop_spec sz (bsize b) Hs (firstn l J) (S ((length EL + l) * sz)) (length EL)
              (map STok EL) (skipn l J) c m) as (c1 & m1 & CL & S1 & SC).
  { apply map_length. }
  { rewrite firstn_length, Nat.min_l by assumption. rewrite US in E. nia. }
  { rewrite firstn_length, Nat.min_l by assumption. nia. }
  { assumption. }
  rewrite firstn_length, Nat.min_l in CL, S1 by assumption.
  rewrite firstn_skipn in CL.
  rewrite SL, US, A1. replace (length EL * sz + l * sz) with ((length EL + l) * sz) by nia.
  rewrite CL. cbn [bind].
  do 4 eexists. split; [reflexivity|].
  rewrite app_assoc, <- map_app.
  replace (with_slots (with_used b ((length EL + l) * sz)) (map STok (EL ++ seq (cnext c) l) ++ skipn l J))
    with (with_used (with_slots b (map STok (EL ++ seq (cnext c) l) ++ skipn l J)) ((length EL + l) * sz))
    by reflexivity.
  eapply (local_ok_intro e b c m c1 m1 k EL [] (seq (cnext c) l) (EL ++ seq (cnext c) l)); eauto.
  - intros x [].
  - eapply nodup_fresh_app; eassumption.
  - intros t. rewrite in_app_iff. simpl. tauto.
  - rewrite app_length, seq_length. reflexivity.
  - rewrite US in E. fold sz. nia.
  - fold sz. rewrite app_length, seq_length, skipn_length. lia.
Qed.

(* ---------------------------------------------------------------- mpt_buffer_insert *)

(* the part of mpt_buffer_insert behind the argument checks, for pos >= used (no data to move):
   the gap [used, pos) is default constructed; a refused constructor ends the buffer there *)
Lemma insert_gap e b c m k EL J p l :
  pre e b c m -> btr b = Some k ->
  bslots b = map STok EL ++ J -> bused b = length EL * esz e k ->
  length EL + length J = bsize b / esz e k -> buf_els e b = EL ->
  NoDup EL -> incl EL (mlive m) ->
  length EL <= p -> (p + l) * esz e k <= bsize b ->
  exists kk c1 m1 sl2 reached ok J1,
    gap_loop (ehi e) (S (p * esz e k)) (esz e k) (bsize b) (length EL * esz e k) (p * esz e k) (map STok EL ++ J) c
    = Ok (sl2, c1, reached, ok)
    /\ sl2 = map STok (EL ++ seq (cnext c) kk) ++ J1
    /\ length (EL ++ seq (cnext c) kk) + length J1 = bsize b / esz e k
    /\ reached = (length EL + kk) * esz e k
    /\ kk <= p - length EL
    /\ (ok = true -> kk = p - length EL)
    /\ mon_step c m c1 m1 [] (seq (cnext c) kk)
    /\ forall used', used' = length (EL ++ seq (cnext c) kk) * esz e k ->
         local_ok e b c m (with_used (with_slots b sl2) used') c1 m1.
Proof.
  intros P T SL US LEN BE NDE INE HP HT. pose proof P as [EO W M ND IN].
  pose proof (esz_pos e k EO) as Hs. set (sz := esz e k) in *.
  assert (PJ : p - length EL <= length J).
  { assert (p + l <= bsize b / sz) by (apply mul_le_div; assumption). lia. }
  destruct (gap_loop_spec (ehi e) sz (bsize b) Hs (firstn (p - length EL) J) (S (p * sz)) (length EL)
              (map STok EL) (skipn (p - length EL) J) c m) as (kk & c1 & m1 & ok & GL & K1 & K2 & K3 & S1).
  { apply map_length. }
  { rewrite firstn_length, Nat.min_l by assumption. nia. }
  { rewrite firstn_length, Nat.min_l by assumption. nia. }
  { assumption. }
  rewrite firstn_length, Nat.min_l in GL, K1, K2, K3 by assumption.
  replace (length EL + (p - length EL)) with p in GL by lia.
  rewrite firstn_skipn in GL.
  exists kk, c1, m1. do 4 eexists. split; [exact GL|].
  rewrite app_assoc, <- map_app.
  assert (LJ : length (EL ++ seq (cnext c) kk)
               + length (skipn kk (firstn (p - length EL) J) ++ skipn (p - length EL) J) = bsize b / sz).
  { rewrite !app_length, seq_length, !skipn_length, firstn_length, Nat.min_l by assumption. lia. }
  split; [reflexivity|]. split; [exact LJ|]. split; [reflexivity|]. split; [assumption|].
  split; [assumption|]. split; [assumption|].
  intros used' ->.
  eapply (local_ok_intro e b c m c1 m1 k EL [] (seq (cnext c) kk) (EL ++ seq (cnext c) kk)); eauto.
  - intros x [].
  - eapply nodup_fresh_app; eassumption.
  - intros t. rewrite in_app_iff. simpl. tauto.
  - rewrite app_length, seq_length. fold sz. nia.
Qed.

Lemma do_setlen_total e set : local_total e (do_setlen e set).
Proof.
  intros b c m P. pose proof (pre_refl _ _ _ _ P) as R. pose proof P as [EO W M ND IN].
  unfold do_setlen. dif; [eauto 8|]. dif.
  { destruct (cxx_trim_ok e b (bused b - set) c m P) as (b' & c' & m' & r & E1 & L).
    rewrite E1. cbn [bind]. eauto 8. }
  apply Nat.eqb_neq in E. apply Nat.ltb_ge in E0.
  unfold buffer_insert.
  replace (set <? bused b) with false by (symmetry; apply Nat.ltb_ge; lia).
  rewrite Nat.add_0_r.
  dif; [cbn [bind]; eauto 8|]. dif; [cbn [bind]; eauto 8|]. dif; [cbn [bind]; eauto 8|].
  destruct (btr b) as [k|] eqn:T.
  2:{ cbn [bind]. do 4 eexists. split; [reflexivity|]. apply raw_local_ok; auto. repeat split. }
  destruct (typed_pre e b c m k P T) as (Hs & EL & J & SL & US & LEN & BE & ULE & NDE & INE).
  set (sz := esz e k) in *.
  dif; [cbn [bind]; eauto 8|].
  apply orb_false_iff in E4. destruct E4 as [E4 _]. apply orb_false_iff in E4. destruct E4 as [_ E5].
  apply negb_false_iff, Nat.eqb_eq in E5. apply Nat.ltb_ge in E2.
  assert (A1 : set = set / sz * sz) by (apply aligned_form; assumption).
  set (p := set / sz) in *.
  assert (HP : length EL <= p) by (rewrite US in E0; nia).
  destruct (insert_gap e b c m k EL J p 0 P T SL US LEN BE NDE INE HP)
    as (kk & c1 & m1 & sl2 & reached & ok & J1 & GL & SL2 & LJ & RE & K1 & K2 & S1 & LO).
  { fold sz. nia. }
  fold sz in GL, RE, LO.
  rewrite Nat.sub_0_r. rewrite move_slots_zero. cbn [bind].
  rewrite SL, US, A1, GL. cbn [bind].
  destruct ok.
  - do 4 eexists. split; [reflexivity|]. apply LO.
    rewrite app_length, seq_length, (K2 eq_refl). f_equal. lia.
  - do 4 eexists. split; [reflexivity|]. apply LO.
    rewrite app_length, seq_length. assumption.
Qed.

Lemma nodup_mid_fresh c m E1 E2 n :
  mon_ok c m -> incl (E1 ++ E2) (mlive m) -> NoDup (E1 ++ E2) -> NoDup (E1 ++ seq (cnext c) n ++ E2).
Proof.
  intros M I N. apply NoDup_app_parts in N. destruct N as (N1 & N2 & D).
  apply NoDup_app3; auto.
  - apply seq_NoDup.
  - intros x Hx Hy. eapply (fresh_not_old c m (E1 ++ E2)); try eassumption. rewrite in_app_iff. tauto.
  - intros x Hx Hy. eapply (fresh_not_old c m (E1 ++ E2)); try eassumption. rewrite in_app_iff. tauto.
Qed.

Lemma do_insert_total e pos len : local_total e (do_insert e pos len).
Proof.
  intros b c m P. pose proof (pre_refl _ _ _ _ P) as R. pose proof P as [EO W M ND IN].
  unfold do_insert, buffer_insert.
  destruct (btr b) as [k|] eqn:T.
  2:{ dif.
      { cbn [bind]. rewrite T. eauto 8. }
      dif; [cbn [bind]; eauto 8|]. dif; [cbn [bind]; eauto 8|]. cbn [bind btr with_used]. rewrite T.
      do 4 eexists. split; [reflexivity|]. apply raw_local_ok; auto. repeat split. }
  destruct (typed_pre e b c m k P T) as (Hs & EL & J & SL & US & LEN & BE & ULE & NDE & INE).
  set (sz := esz e k) in *.
  dif.
  { (* nothing used, nothing inserted *)
    cbn [bind]. rewrite T. fold sz.
    assert (pos + len = 0).
    { apply Nat.eqb_eq in E. destruct (pos <? bused b) eqn:Z; [apply Nat.ltb_lt in Z; lia|lia]. }
    rewrite construct_loop_done by lia. cbn [bind]. rewrite with_slots_same. eauto 8. }
  dif; [cbn [bind]; eauto 8|]. dif; [cbn [bind]; eauto 8|]. dif; [cbn [bind]; eauto 8|].
  apply orb_false_iff in E2. destruct E2 as [E2 E6]. apply orb_false_iff in E2. destruct E2 as [_ E5].
  apply negb_false_iff, Nat.eqb_eq in E5. apply negb_false_iff, Nat.eqb_eq in E6. apply Nat.ltb_ge in E0.
  assert (A1 : pos = pos / sz * sz) by (apply aligned_form; assumption).
  remember (pos / sz) as p eqn:Hp. clear Hp. subst pos.
  assert (A2 : len = len / sz * sz) by (apply aligned_form; assumption).
  remember (len / sz) as l eqn:Hl. clear Hl. subst len.
  destruct (p * sz <? bused b) eqn:PU.
  - (* data behind the insert position is moved up *)
    apply Nat.ltb_lt in PU.
    assert (HP : p < length EL) by (rewrite US in PU; nia).
    destruct (split3 EL p (length EL)) as (E1' & E2' & E3' & EQ & L1 & L2 & L3); [lia|lia|].
    assert (E3' = []) by (destruct E3'; [reflexivity|simpl in L3; lia]). subst E3'.
    rewrite app_nil_r in EQ.
    assert (TOT : (p + l + length E2') * sz <= bsize b) by (rewrite US in E0; nia).
    assert (CAP : p + l + length E2' <= length EL + length J).
    { rewrite LEN. apply mul_le_div; assumption. }
    replace (bused b + l * sz - (bused b - p * sz)) with ((p + l) * sz) by (rewrite US in *; nia).
    replace (bused b - p * sz) with (length E2' * sz) by (rewrite US; nia).
    set (sl := bslots b).
    assert (LSL : length sl = length EL + length J).
    { unfold sl. rewrite SL, app_length, map_length. reflexivity. }
    rewrite move_slots_spec; try assumption; try lia; try nia.
    cbn [bind].
    rewrite gap_loop_done by lia. cbn [bind btr with_used with_slots bsize bslots]. rewrite T. fold sz.
    assert (F1 : firstn (p + l) sl = map STok E1' ++ firstn l (map STok E2' ++ J)).
    { unfold sl. rewrite SL, EQ, map_app, <- app_assoc.
      rewrite <- L1. rewrite <- (map_length STok E1') at 1. apply firstn_app_2. }
    assert (F2 : firstn (length E2') (skipn p sl) = map STok E2').
    { unfold sl. rewrite SL, EQ, map_app, <- app_assoc.
      rewrite skipn_exact by (rewrite map_length; assumption). apply firstn_exact. apply map_length. }
    rewrite F1, F2, <- app_assoc.
    set (G := firstn l (map STok E2' ++ J)).
    assert (LG : length G = l).
    { unfold G. rewrite firstn_length, app_length, map_length. rewrite EQ, app_length in CAP. lia. }
    set (J' := skipn (p + l + length E2') sl).
    destruct (construct_loop_spec sz (bsize b) Hs G (S (p * sz + l * sz)) p (map STok E1') (map STok E2' ++ J') c m)
      as (c1 & m1 & CL & S1 & SC).
    { rewrite map_length. assumption. }
    { rewrite LG. nia. }
    { rewrite LG. nia. }
    { assumption. }
    rewrite LG in CL, S1.
    replace (p * sz + l * sz) with ((p + l) * sz) in * by nia.
    rewrite CL. cbn [bind]. rewrite ws_wu_ws.
    do 4 eexists. split; [reflexivity|].
    replace (map STok E1' ++ map STok (seq (cnext c) l) ++ map STok E2' ++ J')
      with (map STok (E1' ++ seq (cnext c) l ++ E2') ++ J') by (rewrite !map_app, <- !app_assoc; reflexivity).
    eapply (local_ok_intro e b c m c1 m1 k EL [] (seq (cnext c) l) (E1' ++ seq (cnext c) l ++ E2')); eauto.
    + intros x [].
    + eapply nodup_mid_fresh; try eassumption; rewrite <- EQ; assumption.
    + intros t. rewrite EQ, !in_app_iff. simpl. tauto.
    + rewrite !app_length, seq_length. rewrite US, EQ, app_length. fold sz. nia.
    + unfold J'. fold sz. rewrite !app_length, seq_length, skipn_length. rewrite EQ, app_length in *. lia.
  - (* gap between used data and insert position is default constructed *)
    apply Nat.ltb_ge in PU.
    assert (HP : length EL <= p) by (rewrite US in PU; nia).
    destruct (insert_gap e b c m k EL J p l P T SL US LEN BE NDE INE HP)
      as (kk & c1 & m1 & sl2 & reached & ok & J1 & GL & SL2 & LJ & RE & K1 & K2 & S1 & LO).
    { fold sz. nia. }
    fold sz in GL, RE, LO, LJ.
    rewrite Nat.sub_0_r. rewrite move_slots_zero. cbn [bind].
    rewrite SL, US. rewrite GL. cbn [bind].
    destruct ok.
    + cbn [bind btr with_used with_slots bsize bslots]. rewrite T. fold sz.
      specialize (K2 eq_refl). subst kk.
      (* construct the inserted elements [p, p + l) *)
      assert (LJ1 : l <= length J1).
      { rewrite app_length, seq_length in LJ.
        assert (p + l <= bsize b / sz) by (apply mul_le_div; [assumption|nia]). lia. }
      destruct (construct_loop_spec sz (bsize b) Hs (firstn l J1) (S ((p + l) * sz)) p
                  (map STok (EL ++ seq (cnext c) (p - length EL))) (skipn l J1) c1 m1)
        as (c2 & m2 & CL & S2 & SC).
      { rewrite map_length, app_length, seq_length. lia. }
      { rewrite firstn_length, Nat.min_l by assumption. nia. }
      { rewrite firstn_length, Nat.min_l by assumption. nia. }
      { apply S1. }
      rewrite firstn_length, Nat.min_l in CL, S2 by assumption.
      rewrite firstn_skipn in CL.
      rewrite SL2.
      replace (p * sz + l * sz) with ((p + l) * sz) by nia.
      rewrite CL. cbn [bind]. rewrite ws_wu_ws.
      do 4 eexists. split; [reflexivity|].
      pose proof (mon_step_trans _ _ _ _ _ _ _ _ _ _ S1 S2) as S12. simpl in S12.
      assert (S12' : mon_step c m c2 m2 [] (seq (cnext c) (p - length EL + l))).
      { rewrite seq_app. rewrite (st_next _ _ _ _ _ _ S1), seq_length in S12.
        apply S12. intros x []. }
      rewrite (st_next _ _ _ _ _ _ S1), seq_length.
      replace (map STok (EL ++ seq (cnext c) (p - length EL)) ++ map STok (seq (cnext c + (p - length EL)) l) ++ skipn l J1)
        with (map STok (EL ++ seq (cnext c) (p - length EL + l)) ++ skipn l J1)
        by (rewrite seq_app, !map_app, <- !app_assoc; reflexivity).
      eapply (local_ok_intro e b c m c2 m2 k EL [] (seq (cnext c) (p - length EL + l))
                (EL ++ seq (cnext c) (p - length EL + l))); eauto.
      * intros x [].
      * eapply nodup_fresh_app; eassumption.
      * intros t. rewrite in_app_iff. simpl. tauto.
      * rewrite app_length, seq_length. fold sz. nia.
      * nia.
      * fold sz. rewrite app_length, seq_length, skipn_length. rewrite app_length, seq_length in LJ. lia.
    + do 4 eexists. split; [reflexivity|]. apply LO.
      rewrite app_length, seq_length. assumption.
Qed.
