(* C05/TypedMove.v — buffer::move / buffer::copy between TWO buffers: the exact events.

   move(target, source), same content traits, source fits into the target's block:
     every element of the TARGET gets its one destructor call (first to last), nothing is called on the
     elements of the source, they are now the target's elements (bitwise take-over), the source is empty.
   refused move (other traits, block too small) and move onto itself: nothing happens at all.
   copy(target, source), traits with init function, constructors succeed:
     the first min(target, source) target elements are finalised, one copy construction per source
     element in order (fresh tokens), then the rest of the target is finalised; source untouched. *)
From MptV Require Import Base.Mem C05.TypedModel C05.TypedSpec C05.TypedMonitor C05.TypedLoops C05.TypedOps
  C05.TypedSet C05.TypedWorld C05.TypedStep C05.TypedRun C05.TypedShared.
Local Open Scope nat_scope.

(* ---------------------------------------------------------------- the log of a finaliser loop *)

Lemma fini_loop_log hf sz bsz :
  0 < sz ->
  forall ts fuel i P Q c,
    length P = i -> (i + length ts) * sz <= bsz -> length ts <= fuel ->
    fini_loop hf fuel sz bsz 0 (i * sz) ((i + length ts) * sz) (P ++ map STok ts ++ Q) c
    = Ok (P ++ map (dead hf) ts ++ Q, mkctx (cnext c) (cscript c) (rev (map EFini ts) ++ clog c)).
Proof.
  intros Hs. induction ts as [|t ts IH]; intros fuel i P Q c HP Hb Hf.
  - simpl. rewrite Nat.add_0_r, fini_loop_done by lia. destruct c; reflexivity.
  - destruct fuel as [|f]; [simpl in Hf; lia|]. simpl length in *.
    simpl fini_loop. rewrite mul_lt_mono by assumption.
    replace (i <? i + S (length ts)) with true by (symmetry; apply Nat.ltb_lt; lia).
    simpl map. simpl app.
    rewrite fini_at_tok by (try assumption; nia). cbn [bind].
    replace (i * sz + sz) with (S i * sz) by nia.
    replace ((i + S (length ts)) * sz) with ((S i + length ts) * sz) by nia.
    replace (P ++ dead hf t :: map STok ts ++ Q) with ((P ++ [dead hf t]) ++ map STok ts ++ Q)
      by (rewrite <- app_assoc; reflexivity).
    rewrite (IH f (S i) (P ++ [dead hf t]) Q (logev (EFini t) c)).
    + simpl. rewrite <- !app_assoc. reflexivity.
    + rewrite app_length. simpl. lia.
    + nia.
    + lia.
Qed.

Lemma okind_refl k : okind_eqb (Some k) (Some k) = true.
Proof. destruct k; reflexivity. Qed.

(* ---------------------------------------------------------------- buffer::move on two well formed typed buffers *)

Lemma cxx_move_typed e b gb c k EL J EG JG :
  0 < esz e k -> btr b = Some k -> btr gb = Some k ->
  bslots b = map STok EL ++ J -> bused b = length EL * esz e k -> length EL * esz e k <= bsize b ->
  bslots gb = map STok EG ++ JG -> bused gb = length EG * esz e k -> bused gb <= bsize b ->
  cxx_move e b gb c
  = Ok (with_used (with_slots b (map STok EG ++ skipn (length EG) (map (dead (ehf e)) EL ++ J))) (bused gb),
        with_used gb 0,
        mkctx (cnext c) (cscript c) (rev (map EFini EL) ++ clog c), true).
Proof.
  intros Hs T TG SL US ULE SLG USG FIT. set (sz := esz e k) in *.
  unfold cxx_move. rewrite T, TG, okind_refl. cbn [negb].
  replace (bsize b <? bused gb) with false by (symmetry; apply Nat.ltb_ge; lia).
  unfold cxx_trim. rewrite Nat.ltb_irrefl, Nat.sub_diag, T. fold sz.
  replace (sz =? 0) with false by (symmetry; apply Nat.eqb_neq; lia).
  replace (bused b mod sz) with 0 by (rewrite US, mul_mod by assumption; reflexivity).
  rewrite Nat.mod_0_l by lia. cbn [Nat.eqb negb orb].
  pose proof (fini_loop_log (ehf e) sz (bsize b) Hs EL (S (length EL * sz)) 0 [] J c eq_refl) as FL.
  simpl app in FL. simpl Nat.mul in FL. simpl Nat.add in FL.
  rewrite SL, US. rewrite FL by (simpl; nia). cbn [bind negb].
  rewrite USG, mul_mod, mul_div by assumption. cbn [Nat.eqb].
  rewrite SLG, firstn_exact by (rewrite map_length; reflexivity).
  rewrite map_length. reflexivity.
Qed.

(* ---------------------------------------------------------------- in a world *)

Lemma step_two_handles e w h g o :
  h < length (whnd w) -> g < length (whnd w) -> op_handles o = [h; g] -> step e w o = step_op e w o.
Proof.
  intros H G E. unfold step. rewrite E. cbn [forallb].
  replace (h <? length (whnd w)) with true by (symmetry; apply Nat.ltb_lt; lia).
  replace (g <? length (whnd w)) with true by (symmetry; apply Nat.ltb_lt; lia). reflexivity.
Qed.

Lemma move_effect e nh w h g id gid b gb k :
  env_ok e -> winv e nh w -> h < nh -> g < nh ->
  handle w h = Some id -> handle w g = Some gid -> id <> gid ->
  hget w id = Some b -> hget w gid = Some gb -> btr b = Some k -> btr gb = Some k -> bused gb <= bsize b ->
  exists w' b' gb',
    step e w (OpMove h g) = Ok (w', OOk)
    /\ whnd w' = whnd w
    /\ hget w' id = Some b' /\ hget w' gid = Some gb'
    /\ (forall j, j <> id -> j <> gid -> hget w' j = hget w j)
    /\ clog (wctx w') = rev (map EFini (buf_els e b)) ++ clog (wctx w)
    /\ cnext (wctx w') = cnext (wctx w) /\ cscript (wctx w') = cscript (wctx w)
    /\ buf_els e b' = buf_els e gb /\ bused b' = bused gb
    /\ buf_els e gb' = [] /\ bused gb' = 0.
Proof.
  intros EO ((m & HI) & RI & LH) Hh Hg HH HG NE HB HGB T TG FIT.
  pose proof (hget_lt _ _ _ HB) as LTi. pose proof (hget_lt _ _ _ HGB) as LTg.
  destruct (typed_pre e b (wctx w) m k (hinv_pre e w m id b EO HI HB) T)
    as (Hs & EL & J & SL & US & LEN & BE & ULE & NDE & INE).
  destruct (typed_pre e gb (wctx w) m k (hinv_pre e w m gid gb EO HI HGB) TG)
    as (_ & EG & JG & SLG & USG & LENG & BEG & ULEG & NDG & ING).
  rewrite (step_two_handles e w h g) by (try reflexivity; lia).
  cbn [step_op]. unfold on_buf. rewrite HH, HB, HG, HGB.
  replace (id =? gid) with false by (symmetry; apply Nat.eqb_neq; assumption).
  rewrite (cxx_move_typed e b gb (wctx w) k EL J EG JG) by assumption. cbn [bind bool_out].
  set (c' := mkctx (cnext (wctx w)) (cscript (wctx w)) (rev (map EFini EL) ++ clog (wctx w))).
  set (b' := with_used (with_slots b (map STok EG ++ skipn (length EG) (map (dead (ehf e)) EL ++ J))) (bused gb)).
  set (w1 := hput w id (Some b') c').
  assert (L1 : length (wheap w1) = length (wheap w)) by (unfold w1; apply hput_len; assumption).
  exists (hput w1 gid (Some (with_used gb 0)) c'), b', (with_used gb 0).
  split; [reflexivity|]. split; [reflexivity|]. split.
  { rewrite hget_hput_ne by (try lia; auto). unfold w1. rewrite hget_hput_eq by assumption. reflexivity. }
  split. { rewrite hget_hput_eq by lia. reflexivity. }
  split. { intros j N1 N2. rewrite hget_hput_ne by (try lia; auto). unfold w1. apply hget_hput_ne; assumption. }
  split. { simpl. rewrite BE. reflexivity. }
  split; [reflexivity|]. split; [reflexivity|]. split.
  { rewrite BEG. eapply (buf_els_typed e b' k); simpl; eauto. }
  split; [reflexivity|]. split; [|reflexivity].
  apply buf_els_used0. reflexivity.
Qed.

Lemma hput_same_get w id b c j : hget w id = Some b -> hget (hput w id (Some b) c) j = hget w j.
Proof.
  intros H. pose proof (hget_lt _ _ _ H). rewrite hget_hput by assumption.
  destruct (Nat.eqb_spec j id) as [->|]; [symmetry; assumption|reflexivity].
Qed.

(* other content traits or a source that does not fit into the target's block: refused, nothing happens *)
Lemma move_refused_effect e nh w h g id gid b gb :
  winv e nh w -> h < nh -> g < nh ->
  handle w h = Some id -> handle w g = Some gid -> id <> gid ->
  hget w id = Some b -> hget w gid = Some gb ->
  btr b <> btr gb \/ bsize b < bused gb ->
  exists w',
    step e w (OpMove h g) = Ok (w', ORefused)
    /\ whnd w' = whnd w /\ wctx w' = wctx w /\ (forall j, hget w' j = hget w j).
Proof.
  intros (_ & _ & LH) Hh Hg HH HG NE HB HGB WHY.
  rewrite (step_two_handles e w h g) by (try reflexivity; lia).
  cbn [step_op]. unfold on_buf. rewrite HH, HB, HG, HGB.
  replace (id =? gid) with false by (symmetry; apply Nat.eqb_neq; assumption).
  assert (R : cxx_move e b gb (wctx w) = Ok (b, gb, wctx w, false)).
  { unfold cxx_move. destruct (okind_eqb (btr b) (btr gb)) eqn:K; cbn [negb]; [|reflexivity].
    apply okind_eqb_eq in K. destruct WHY as [N|L]; [contradiction|].
    replace (bsize b <? bused gb) with true by (symmetry; apply Nat.ltb_lt; assumption). reflexivity. }
  rewrite R. cbn [bind bool_out].
  eexists. split; [reflexivity|]. split; [reflexivity|]. split; [reflexivity|].
  intros j. rewrite hput_same_get.
  - apply hput_same_get. assumption.
  - rewrite hput_same_get by assumption. assumption.
Qed.

(* the buffer itself as source (same handle or two handles of one buffer): nothing happens *)
Lemma move_self_effect e nh w h g id b :
  winv e nh w -> h < nh -> g < nh ->
  handle w h = Some id -> handle w g = Some id -> hget w id = Some b ->
  step e w (OpMove h g) = Ok (w, OOk).
Proof.
  intros (_ & _ & LH) Hh Hg HH HG HB.
  rewrite (step_two_handles e w h g) by (try reflexivity; lia).
  cbn [step_op]. unfold on_buf. rewrite HH, HB, HG, HB, Nat.eqb_refl. reflexivity.
Qed.

(* ---------------------------------------------------------------- reachable worlds *)

Lemma move_reachable e nh script ops w h g id gid b gb k :
  env_ok e -> exec e (init_world nh script) ops = Ok w -> h < nh -> g < nh ->
  handle w h = Some id -> handle w g = Some gid -> id <> gid ->
  hget w id = Some b -> hget w gid = Some gb -> btr b = Some k -> btr gb = Some k -> bused gb <= bsize b ->
  exists w' b' gb',
    step e w (OpMove h g) = Ok (w', OOk)
    /\ whnd w' = whnd w
    /\ hget w' id = Some b' /\ hget w' gid = Some gb'
    /\ (forall j, j <> id -> j <> gid -> hget w' j = hget w j)
    /\ clog (wctx w') = rev (map EFini (buf_els e b)) ++ clog (wctx w)
    /\ cnext (wctx w') = cnext (wctx w) /\ cscript (wctx w') = cscript (wctx w)
    /\ buf_els e b' = buf_els e gb /\ bused b' = bused gb
    /\ buf_els e gb' = [] /\ bused gb' = 0.
Proof.
  intros EO E. apply move_effect; [assumption|]. eapply reachable_winv; eassumption.
Qed.

Lemma move_refused_reachable e nh script ops w h g id gid b gb :
  env_ok e -> exec e (init_world nh script) ops = Ok w -> h < nh -> g < nh ->
  handle w h = Some id -> handle w g = Some gid ->
  hget w id = Some b -> hget w gid = Some gb ->
  id = gid \/ btr b <> btr gb \/ bsize b < bused gb ->
  exists w' o,
    step e w (OpMove h g) = Ok (w', o)
    /\ o = (if id =? gid then OOk else ORefused)
    /\ whnd w' = whnd w /\ wctx w' = wctx w /\ (forall j, hget w' j = hget w j).
Proof.
  intros EO E Hh Hg HH HG HB HGB WHY. pose proof (reachable_winv e nh script ops w EO E) as WI.
  destruct (Nat.eqb_spec id gid) as [<-|NE].
  - exists w, OOk. rewrite (move_self_effect e nh w h g id b) by assumption. repeat split.
  - destruct WHY as [X|WHY]; [contradiction|].
    destruct (move_refused_effect e nh w h g id gid b gb WI Hh Hg HH HG NE HB HGB WHY) as (w' & S & A & B & C).
    exists w', ORefused. repeat split; assumption.
Qed.

(* ---------------------------------------------------------------- buffer::copy on two well formed typed buffers *)

(* mpt_buffer_set(target, traits, 0, source elements, their size): the source is SHORTER than the target *)
Lemma set_front_short e b c k E1 E2 J EG JG :
  0 < esz e k -> ehi e = true -> cscript c = [] ->
  bslots b = map STok (E1 ++ E2) ++ J -> bused b = length (E1 ++ E2) * esz e k ->
  length (E1 ++ E2) * esz e k <= bsize b -> length E1 = length EG -> 0 < length E2 ->
  buffer_set_typed (eshape e) false b (esz e k) 0 (0 + length EG * esz e k) (Some (map STok EG ++ JG)) c
  = Ok (with_used (with_slots b (map STok (seq (cnext c) (length EG)) ++ map STok E2 ++ J)) (bused b),
        mkctx (cnext c + length EG) [] (rev (copy_events (cnext c) EG) ++ rev (map EFini E1) ++ clog c),
        RCount (length EG)).
Proof.
  intros Hs HI SC SL US ULE L1 L2. set (sz := esz e k) in *.
  rewrite app_length in US, ULE.
  unfold buffer_set_typed. fold (ehi e). fold (ehf e). rewrite HI. cbn [negb andb].
  simpl Nat.add.
  replace (bused b - bused b mod sz) with ((length E1 + length E2) * sz)
    by (rewrite US, mul_mod by assumption; lia).
  rewrite mul_lt_mono by assumption.
  replace (length EG <? length E1 + length E2) with true by (symmetry; apply Nat.ltb_lt; lia).
  rewrite SL, map_app, <- app_assoc.
  pose proof (fini_loop_log (ehf e) sz (bsize b) Hs E1 (S ((length E1 + length E2) * sz)) 0 []
                (map STok E2 ++ J) c eq_refl) as FL.
  simpl app in FL. simpl Nat.mul in FL. simpl Nat.add in FL. rewrite L1 in FL. rewrite L1.
  rewrite FL by (simpl; nia). cbn [bind].
  rewrite gap_loop_done by lia. cbn [bind negb].
  pose proof (copy_loop_all sz (bsize b) (map STok EG ++ JG) Hs EG (map (dead (ehf e)) E1)
                (S (length EG * sz)) 0 0 0 [] (map STok E2 ++ J)
                (mkctx (cnext c) (cscript c) (rev (map EFini E1) ++ clog c))) as CL.
  rewrite map_length, L1 in CL. simpl app in CL. simpl Nat.mul in CL. simpl Nat.add in CL.
  rewrite CL; try reflexivity; try assumption; try nia.
  2:{ intros j Hj. simpl. apply nth_error_map_tok. assumption. }
  cbn [bind cnext clog].
  replace ((length EG + length E2) * sz <? length EG * sz) with false
    by (symmetry; apply Nat.ltb_ge; nia).
  rewrite US, L1. reflexivity.
Qed.

(* ... the source is at least as long as the target *)
Lemma set_front_long e b c k EL J EG JG :
  0 < esz e k -> ehi e = true -> cscript c = [] ->
  bslots b = map STok EL ++ J -> bused b = length EL * esz e k ->
  length EL + length J = bsize b / esz e k -> length EL <= length EG -> length EG * esz e k <= bsize b ->
  buffer_set_typed (eshape e) false b (esz e k) 0 (0 + length EG * esz e k) (Some (map STok EG ++ JG)) c
  = Ok (with_used (with_slots b (map STok (seq (cnext c) (length EG))
                                  ++ skipn (length EG) (map (dead (ehf e)) EL ++ J))) (length EG * esz e k),
        mkctx (cnext c + length EG) [] (rev (copy_events (cnext c) EG) ++ rev (map EFini EL) ++ clog c),
        RCount (length EG)).
Proof.
  intros Hs HI SC SL US LEN L1 FIT. set (sz := esz e k) in *.
  unfold buffer_set_typed. fold (ehi e). fold (ehf e). rewrite HI. cbn [negb andb].
  simpl Nat.add.
  replace (bused b - bused b mod sz) with (length EL * sz)
    by (rewrite US, mul_mod by assumption; lia).
  rewrite mul_lt_mono by assumption.
  replace (length EG <? length EL) with false by (symmetry; apply Nat.ltb_ge; lia).
  rewrite SL.
  pose proof (fini_loop_log (ehf e) sz (bsize b) Hs EL (S (length EL * sz)) 0 [] J c eq_refl) as FL.
  simpl app in FL. simpl Nat.mul in FL. simpl Nat.add in FL.
  rewrite FL by (simpl; nia). cbn [bind].
  rewrite gap_loop_done by lia. cbn [bind negb].
  assert (CAP : length EG <= length EL + length J) by (rewrite LEN; apply mul_le_div; assumption).
  set (sl1 := map (dead (ehf e)) EL ++ J).
  assert (LS : length sl1 = length EL + length J) by (unfold sl1; rewrite app_length, map_length; reflexivity).
  pose proof (copy_loop_all sz (bsize b) (map STok EG ++ JG) Hs EG (firstn (length EG) sl1)
                (S (length EG * sz)) 0 0 0 [] (skipn (length EG) sl1)
                (mkctx (cnext c) (cscript c) (rev (map EFini EL) ++ clog c))) as CL.
  rewrite firstn_length, LS, Nat.min_l in CL by assumption.
  simpl app in CL. rewrite firstn_skipn in CL. simpl Nat.mul in CL. simpl Nat.add in CL.
  rewrite CL; try reflexivity; try assumption; try nia.
  2:{ intros j Hj. simpl. apply nth_error_map_tok. assumption. }
  cbn [bind cnext clog].
  replace (if length EL * sz <? length EG * sz then length EG * sz else length EL * sz) with (length EG * sz).
  2:{ destruct (Nat.ltb_spec (length EL * sz) (length EG * sz)); nia. }
  reflexivity.
Qed.

Lemma cxx_copy_typed e b gb c k EL J EG JG :
  0 < esz e k -> ehi e = true -> ecopyfail e = false -> cscript c = [] ->
  btr b = Some k -> btr gb = Some k ->
  bslots b = map STok EL ++ J -> bused b = length EL * esz e k -> length EL + length J = bsize b / esz e k ->
  length EL * esz e k <= bsize b ->
  bslots gb = map STok EG ++ JG -> bused gb = length EG * esz e k -> bused gb <= bsize b ->
  cxx_copy e b gb c
  = Ok (with_used (with_slots b (map STok (seq (cnext c) (length EG))
                                  ++ skipn (length EG) (map (dead (ehf e)) EL ++ J))) (bused gb),
        mkctx (cnext c + length EG) []
              (rev (map EFini (skipn (length EG) EL)) ++ rev (copy_events (cnext c) EG)
               ++ rev (map EFini (firstn (length EG) EL)) ++ clog c),
        true).
Proof.
  intros Hs HI CF SC T TG SL US LEN ULE SLG USG FIT. set (sz := esz e k) in *.
  unfold cxx_copy, buffer_set. rewrite TG, T. fold sz.
  replace (bsize b <? 0 + bused gb) with false by (symmetry; apply Nat.ltb_ge; lia).
  replace (sz =? 0) with false by (symmetry; apply Nat.eqb_neq; lia).
  rewrite Nat.mod_0_l by lia.
  replace (bused gb mod sz) with 0 by (rewrite USG, mul_mod by assumption; reflexivity).
  cbn [Nat.eqb negb orb]. rewrite kind_eqb_refl. cbn [negb]. rewrite CF. cbn [andb].
  rewrite USG, SLG.
  destruct (le_lt_dec (length EL) (length EG)) as [LE|LT].
  - (* the whole target is finalised first *)
    pose proof (set_front_long e b c k EL J EG JG Hs HI SC SL US LEN LE ltac:(fold sz; lia)) as SF.
    fold sz in SF. rewrite SF. cbn [bind].
    cbn [bused with_used with_slots]. rewrite Nat.ltb_irrefl.
    rewrite (skipn_all2 EL LE), (firstn_all2 EL LE). reflexivity.
  - (* the front is replaced, the rest trimmed *)
    pose proof (firstn_skipn (length EG) EL) as SP.
    set (E1 := firstn (length EG) EL) in *. set (E2 := skipn (length EG) EL) in *.
    assert (L1 : length E1 = length EG) by (unfold E1; rewrite firstn_length; lia).
    assert (L2 : length E2 = length EL - length EG) by (unfold E2; apply skipn_length).
    assert (LL : length EL = length E1 + length E2) by (rewrite <- SP, app_length; reflexivity).
    pose proof (set_front_short e b c k E1 E2 J EG JG Hs HI SC) as SF. rewrite SP in SF.
    specialize (SF SL US ULE L1 ltac:(lia)). fold sz in SF. rewrite SF.
    cbn [bind]. cbn [bused with_used with_slots].
    rewrite US. fold sz. rewrite mul_lt_mono by assumption.
    replace (length EG <? length EL) with true by (symmetry; apply Nat.ltb_lt; lia).
    unfold cxx_trim. cbn [bused btr bsize bslots with_used with_slots]. rewrite T. fold sz.
    replace (length EL * sz <? length EL * sz - length EG * sz) with false by (symmetry; apply Nat.ltb_ge; lia).
    replace (length EL * sz - (length EL * sz - length EG * sz)) with (length EG * sz) by nia.
    replace (sz =? 0) with false by (symmetry; apply Nat.eqb_neq; lia).
    rewrite !mul_mod by assumption. cbn [Nat.eqb negb orb].
    pose proof (fini_loop_log (ehf e) sz (bsize b) Hs E2 (S (length EL * sz)) (length EG)
                  (map STok (seq (cnext c) (length EG))) J
                  (mkctx (cnext c + length EG) [] (rev (copy_events (cnext c) EG) ++ rev (map EFini E1) ++ clog c))) as FL.
    replace (length EG + length E2) with (length EL) in FL by lia.
    rewrite FL; [|rewrite map_length, seq_length; reflexivity|assumption|nia].
    cbn [bind cnext cscript clog].
    assert (SK : skipn (length EG) (map (dead (ehf e)) EL ++ J) = map (dead (ehf e)) E2 ++ J).
    { rewrite <- SP, map_app, <- app_assoc. apply skipn_exact. rewrite map_length. assumption. }
    rewrite SK. unfold with_used, with_slots. simpl. reflexivity.
Qed.

(* buffer::copy in a world: traits with init function, the type allows copies, constructors succeed *)
Lemma copy_effect e nh w h g id gid b gb k :
  env_ok e -> winv e nh w -> h < nh -> g < nh ->
  handle w h = Some id -> handle w g = Some gid -> id <> gid ->
  hget w id = Some b -> hget w gid = Some gb -> btr b = Some k -> btr gb = Some k -> bused gb <= bsize b ->
  ehi e = true -> ecopyfail e = false -> cscript (wctx w) = [] ->
  exists w' b',
    step e w (OpCopy h g) = Ok (w', OOk)
    /\ whnd w' = whnd w
    /\ hget w' id = Some b' /\ (forall j, j <> id -> hget w' j = hget w j)
    /\ clog (wctx w') = rev (map EFini (skipn (length (buf_els e gb)) (buf_els e b)))
                        ++ rev (copy_events (cnext (wctx w)) (buf_els e gb))
                        ++ rev (map EFini (firstn (length (buf_els e gb)) (buf_els e b))) ++ clog (wctx w)
    /\ buf_els e b' = seq (cnext (wctx w)) (length (buf_els e gb)) /\ bused b' = bused gb
    /\ (forall t, In t (buf_els e b') -> ~ In t (buf_els e gb)).
Proof.
  intros EO ((m & HI) & RI & LH) Hh Hg HH HG NE HB HGB T TG FIT HINIT CF SC.
  pose proof (hget_lt _ _ _ HB) as LTi.
  destruct (typed_pre e b (wctx w) m k (hinv_pre e w m id b EO HI HB) T)
    as (Hs & EL & J & SL & US & LEN & BE & ULE & NDE & INE).
  destruct (typed_pre e gb (wctx w) m k (hinv_pre e w m gid gb EO HI HGB) TG)
    as (_ & EG & JG & SLG & USG & LENG & BEG & ULEG & NDG & ING).
  rewrite (step_two_handles e w h g) by (try reflexivity; lia).
  cbn [step_op]. unfold on_buf. rewrite HH, HB, HG, HGB.
  replace (id =? gid) with false by (symmetry; apply Nat.eqb_neq; assumption).
  rewrite (cxx_copy_typed e b gb (wctx w) k EL J EG JG) by assumption. cbn [bind bool_out].
  eexists _, _. split; [reflexivity|]. split; [reflexivity|].
  split; [rewrite hget_hput_eq by assumption; reflexivity|].
  split; [intros j N; apply hget_hput_ne; assumption|].
  split; [simpl; rewrite BE, BEG; reflexivity|].
  assert (BN : buf_els e (with_used (with_slots b (map STok (seq (cnext (wctx w)) (length EG))
                  ++ skipn (length EG) (map (dead (ehf e)) EL ++ J))) (bused gb)) = seq (cnext (wctx w)) (length EG)).
  { eapply (buf_els_typed e _ k); simpl; eauto. rewrite seq_length. assumption. }
  rewrite BN, BEG. split; [reflexivity|]. split; [reflexivity|].
  intros t Ht Hl. apply in_seq in Ht. apply ING in Hl.
  pose proof (live_lt _ _ _ (hi_mon _ _ _ HI) Hl). lia.
Qed.

(* buffer::copy, traits with a finaliser but without init function: source elements cannot be copied
   (a byte copy would be finalised twice) - refused, nothing happens *)
Lemma copy_noinit_refused e nh w h g id gid b gb k :
  env_ok e -> winv e nh w -> h < nh -> g < nh ->
  handle w h = Some id -> handle w g = Some gid -> id <> gid ->
  hget w id = Some b -> hget w gid = Some gb -> btr b = Some k -> btr gb = Some k -> bused gb <= bsize b ->
  ehi e = false -> ehf e = true -> 0 < bused gb ->
  exists w',
    step e w (OpCopy h g) = Ok (w', ORefused)
    /\ whnd w' = whnd w /\ wctx w' = wctx w /\ (forall j, hget w' j = hget w j).
Proof.
  intros EO ((m & HI) & RI & LH) Hh Hg HH HG NE HB HGB T TG FIT HINIT HFINI POS.
  destruct (typed_pre e gb (wctx w) m k (hinv_pre e w m gid gb EO HI HGB) TG)
    as (Hs & EG & JG & SLG & USG & LENG & BEG & ULEG & NDG & ING).
  set (sz := esz e k) in *.
  rewrite (step_two_handles e w h g) by (try reflexivity; lia).
  cbn [step_op]. unfold on_buf. rewrite HH, HB, HG, HGB.
  replace (id =? gid) with false by (symmetry; apply Nat.eqb_neq; assumption).
  assert (R : cxx_copy e b gb (wctx w) = Ok (b, wctx w, false)).
  { unfold cxx_copy, buffer_set. rewrite TG, T. fold sz.
    replace (bsize b <? 0 + bused gb) with false by (symmetry; apply Nat.ltb_ge; lia).
    replace (sz =? 0) with false by (symmetry; apply Nat.eqb_neq; lia).
    rewrite Nat.mod_0_l by lia.
    replace (bused gb mod sz) with 0 by (rewrite USG, mul_mod by assumption; reflexivity).
    cbn [Nat.eqb negb orb]. rewrite kind_eqb_refl. cbn [negb].
    unfold buffer_set_typed. fold (ehi e). fold (ehf e). rewrite HINIT, HFINI. cbn [negb andb].
    replace (0 <? 0 + bused gb) with true by (symmetry; apply Nat.ltb_lt; lia). reflexivity. }
  rewrite R. cbn [bind bool_out].
  eexists. split; [reflexivity|]. split; [reflexivity|]. split; [reflexivity|].
  intros j. apply hput_same_get. assumption.
Qed.

Lemma copy_reachable e nh script ops w h g id gid b gb k :
  env_ok e -> exec e (init_world nh script) ops = Ok w -> h < nh -> g < nh ->
  handle w h = Some id -> handle w g = Some gid -> id <> gid ->
  hget w id = Some b -> hget w gid = Some gb -> btr b = Some k -> btr gb = Some k -> bused gb <= bsize b ->
  ehi e = true -> ecopyfail e = false -> cscript (wctx w) = [] ->
  exists w' b',
    step e w (OpCopy h g) = Ok (w', OOk)
    /\ whnd w' = whnd w
    /\ hget w' id = Some b' /\ (forall j, j <> id -> hget w' j = hget w j)
    /\ clog (wctx w') = rev (map EFini (skipn (length (buf_els e gb)) (buf_els e b)))
                        ++ rev (copy_events (cnext (wctx w)) (buf_els e gb))
                        ++ rev (map EFini (firstn (length (buf_els e gb)) (buf_els e b))) ++ clog (wctx w)
    /\ buf_els e b' = seq (cnext (wctx w)) (length (buf_els e gb)) /\ bused b' = bused gb
    /\ (forall t, In t (buf_els e b') -> ~ In t (buf_els e gb)).
Proof.
  intros EO E. apply copy_effect; [assumption|]. eapply reachable_winv; eassumption.
Qed.

Lemma copy_noinit_reachable e nh script ops w h g id gid b gb k :
  env_ok e -> exec e (init_world nh script) ops = Ok w -> h < nh -> g < nh ->
  handle w h = Some id -> handle w g = Some gid -> id <> gid ->
  hget w id = Some b -> hget w gid = Some gb -> btr b = Some k -> btr gb = Some k -> bused gb <= bsize b ->
  ehi e = false -> ehf e = true -> 0 < bused gb ->
  exists w',
    step e w (OpCopy h g) = Ok (w', ORefused)
    /\ whnd w' = whnd w /\ wctx w' = wctx w /\ (forall j, hget w' j = hget w j).
Proof.
  intros EO E. apply copy_noinit_refused; [assumption|]. eapply reachable_winv; eassumption.
Qed.
