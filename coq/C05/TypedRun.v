(* C05/TypedRun.v — histories: the invariants hold along every history, no step faults, and when
   every handle has been released the log satisfies the exactly-once discipline with nothing alive. *)
From MptV Require Import Base.Mem C05.TypedModel C05.TypedSpec C05.TypedMonitor C05.TypedLoops C05.TypedOps
  C05.TypedSet C05.TypedWorld C05.TypedStep.
Local Open Scope nat_scope.

Lemma init_winv e nh script : winv e nh (init_world nh script).
Proof.
  split; [exists mon0; split|split].
  - intros id b H. unfold hget, init_world in H. simpl in H. destruct id; discriminate.
  - split; reflexivity.
  - intros t. split; [intros []|]. intros (id & b & H & _). unfold hget, init_world in H. simpl in H.
    destruct id; discriminate.
  - intros id b H. unfold hget, init_world in H. simpl in H. destruct id; discriminate.
  - intros i j bi bj t _ H. unfold hget, init_world in H. simpl in H. destruct i; discriminate.
  - intros id. unfold refs, hget, cnt, init_world. simpl. destruct id; simpl.
    + induction nh; simpl; [reflexivity|]. destruct (onat_dec None (Some 0)); [discriminate|assumption].
    + induction nh; simpl; [reflexivity|]. destruct (onat_dec None (Some (S id))); [discriminate|assumption].
  - apply repeat_length.
Qed.

(* every history runs to the end, no step faults, the invariants hold afterwards *)
Lemma exec_total e nh : env_ok e -> forall ops w, winv e nh w ->
  exists w', exec e w ops = Ok w' /\ winv e nh w'
             /\ forallb is_ok (run e w ops) = true /\ length (run e w ops) = length ops.
Proof.
  intros EO. induction ops as [|o ops IH]; intros w WI.
  - exists w. simpl. auto.
  - destruct (step_total_all e nh w o EO WI) as (w1 & o1 & E & WI1).
    destruct (IH w1 WI1) as (w' & E' & WI' & F & L).
    exists w'. simpl. rewrite E. simpl. rewrite F, L. auto.
Qed.

Lemma exec_app e ops1 : forall ops2 w w1,
  exec e w ops1 = Ok w1 -> exec e w (ops1 ++ ops2) = exec e w1 ops2.
Proof.
  induction ops1 as [|o ops1 IH]; intros ops2 w w1 E; simpl in *.
  - injection E as <-. reflexivity.
  - destruct (step e w o) as [[w' x]| |]; try discriminate. apply IH. assumption.
Qed.

(* releasing the handles a, a+1, ..., a+n-1 *)
Lemma release_range e nh : env_ok e -> forall n a w,
  winv e nh w -> a + n <= nh ->
  exists w', exec e w (map OpRelease (seq a n)) = Ok w' /\ winv e nh w'
             /\ (forall h, a <= h < a + n -> handle w' h = None)
             /\ (forall h, (h < a \/ a + n <= h) -> handle w' h = handle w h).
Proof.
  intros EO. induction n as [|n IH]; intros a w WI LE.
  - exists w. simpl. split; [reflexivity|]. split; [assumption|]. split; [intros h Hh; lia|intros h _; reflexivity].
  - simpl map. simpl exec.
    assert (LH : length (whnd w) = nh) by apply WI.
    unfold step. cbn [op_handles forallb].
    replace (a <? length (whnd w)) with true by (symmetry; apply Nat.ltb_lt; lia). cbn [andb step_op].
    destruct (release_total e nh w a EO WI ltac:(lia)) as (w1 & o1 & E1 & WI1 & HN1 & WS1).
    rewrite E1.
    destruct (IH (S a) w1 WI1 ltac:(lia)) as (w' & E' & WI' & NONE & KEEP).
    exists w'. split; [assumption|]. split; [assumption|]. split.
    + intros h Hh. destruct (Nat.eq_dec h a) as [->|N].
      * rewrite KEEP by lia. assumption.
      * apply NONE. lia.
    + intros h Hh. rewrite KEEP by lia. unfold handle. rewrite WS1.
      rewrite nth_error_setnth by lia. destruct (Nat.eqb_spec h a); [lia|reflexivity].
Qed.

Lemma no_handle_no_buffer nh w :
  rinv w -> length (whnd w) = nh -> (forall h, h < nh -> handle w h = None) -> forall id, hget w id = None.
Proof.
  intros R LH NONE id. specialize (R id). unfold refs in R.
  destruct (hget w id) as [b|] eqn:H; [|reflexivity]. simpl in R. exfalso.
  assert (C : 1 <= cnt w id) by lia. unfold cnt in C.
  apply (count_occ_In onat_dec) in C. apply In_nth_error in C. destruct C as [h Hh].
  assert (h < nh) by (rewrite <- LH; apply nth_error_Some; congruence).
  specialize (NONE h H0). unfold handle in NONE. rewrite Hh in NONE. discriminate.
Qed.

(* the main result *)
Lemma history_exactly_once e nh script ops :
  env_ok e ->
  exists wf,
    exec e (init_world nh script) (ops ++ release_all nh) = Ok wf
    /\ forallb is_ok (run e (init_world nh script) (ops ++ release_all nh)) = true
    /\ (forall id, hget wf id = None)
    /\ exactly_once (rev (clog (wctx wf)))
    /\ all_finalised (rev (clog (wctx wf))).
Proof.
  intros EO.
  destruct (exec_total e nh EO ops (init_world nh script) (init_winv e nh script)) as (w1 & E1 & WI1 & _ & _).
  destruct (release_range e nh EO nh 0 w1 WI1 ltac:(lia)) as (wf & E2 & WIf & NONE & _).
  destruct (exec_total e nh EO (ops ++ release_all nh) (init_world nh script) (init_winv e nh script))
    as (w' & E' & _ & F & _).
  exists wf. unfold release_all in *. rewrite (exec_app e ops _ _ w1 E1).
  split; [assumption|]. split; [assumption|].
  destruct WIf as ((m & HI) & RI & LH).
  assert (NOB : forall id, hget wf id = None).
  { apply (no_handle_no_buffer nh); auto. intros h Hh. apply NONE. lia. }
  split; [assumption|].
  assert (EMPTY : mlive m = []).
  { destruct (mlive m) as [|t l] eqn:Z; [reflexivity|]. exfalso.
    assert (In t (mlive m)) by (rewrite Z; left; reflexivity).
    apply (hi_live _ _ _ HI) in H. destruct H as (id & b & Hb & _). rewrite NOB in Hb. discriminate. }
  destruct (hi_mon _ _ _ HI) as [ML _].
  apply (mon_log_all_finalised _ _ ML EMPTY).
Qed.

(* the invariant at every point of a history, in the words of the specification monitor:
   the log so far is accepted and the live tokens are exactly the stored elements *)
Lemma history_prefix_disciplined e nh script ops :
  env_ok e ->
  exists w m,
    exec e (init_world nh script) ops = Ok w
    /\ mon_log (clog (wctx w)) = inl m
    /\ (forall t, In t (mlive m) <-> exists id b, hget w id = Some b /\ In t (buf_els e b))
    /\ (forall id b, hget w id = Some b -> NoDup (buf_els e b))
    /\ (forall i j bi bj t, i <> j -> hget w i = Some bi -> hget w j = Some bj ->
                            In t (buf_els e bi) -> ~ In t (buf_els e bj)).
Proof.
  intros EO.
  destruct (exec_total e nh EO ops (init_world nh script) (init_winv e nh script)) as (w & E & ((m & HI) & _) & _).
  exists w, m. split; [assumption|]. destruct HI as [WF [ML _] LV ND DJ]. auto.
Qed.
