(* Extraction of the executable model and specification of C05 (ExtrOcamlBasic only). *)
From MptV Require Import Base.Mem C05.TypedModel C05.TypedSpec.
Require Import ExtrOcamlBasic.
(* N.of_nat only pulls in the types positive and N that the shared ml/conv.inc.ml mentions *)
Extraction "c05_model.ml" run release_all init_world monitor monitor_nf mon0 N.of_nat.
