From MptV Require Import Base.Mem Cobs.CobsModel Cobs.DecModel Cobs.DecRun Cobs.TextModel.
Require Import ExtrOcamlBasic.
Extraction "cobsdec_model.ml" drun dsrun mkw dinit v_cobs v_cobs_r v_zpe v_zpe_r cmd_call mkt cmd_header.
