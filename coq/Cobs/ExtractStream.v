From MptV Require Import Base.Mem Cobs.CobsModel Cobs.StreamSpec.
Require Import ExtrOcamlBasic.
Extraction "stream_model.ml" sspec_run mkss.
