From MptV Require Import Base.Mem C13.QueueModel Cobs.CobsModel Cobs.DecModel Cobs.QueueCodec Cobs.StreamSpec Cobs.StreamRun Cobs.GlueRun.
Require Import ExtrOcamlBasic.
Extraction "stream_model.ml" sspec_run mkss wrun world_init v_cobs v_cobs_r v_zpe v_zpe_r contents grun gworld_init gop_sop sdec split_frames.
