(* Cobs/QueuePushOob.v — the out-of-band first step of mpt_queue_push: the open block straddles
   the end of the storage, is copied to a stack buffer, encoded there and written back with
   mpt_queue_set.  Read as an encoder call on the flat stream like the in-ring windows. *)
From MptV Require Import Base.Mem Base.Tactics C13.QueueModel C13.QueueProofs C13.QueueAlign
  Cobs.CobsModel Cobs.EncProofs Cobs.EncShift Cobs.QueueCodec Cobs.QueuePushProofs.
Local Open Scope nat_scope.

(* one encoder call on a detached copy W of the tail of the contents *)
Lemma flat_call_eq v q st sent P W cap arg :
  contents q = P ++ W -> length P <= edone st -> length W = (edone st - length P) + escr st ->
  let '(r, stw', buf') := enc_call v (wstate st (length P)) W cap arg in
  enc_call v (shift_st st (length sent)) (sent ++ contents q) (length sent + (length P + cap)) arg =
    (r, shift_st (unw stw' (length P)) (length sent), sent ++ P ++ buf').
Proof.
  intros Hc HP HW.
  assert (Hpre : length W = edone (wstate st (length P)) + escr (wstate st (length P))) by (cbn; lia).
  pose proof (enc_call_shift v (wstate st (length P)) (sent ++ P) W cap arg Hpre) as Hs.
  destruct (enc_call v (wstate st (length P)) W cap arg) as [[r stw'] buf'].
  rewrite Hc. rewrite app_length in Hs.
  replace (shift_st (wstate st (length P)) (length sent + length P)) with (shift_st st (length sent)) in Hs
    by (unfold shift_st, wstate; cbn [ectx edone escr]; f_equal; lia).
  rewrite <- app_assoc in Hs. rewrite <- Nat.add_assoc in Hs. rewrite Hs.
  f_equal; [f_equal|rewrite <- app_assoc; reflexivity].
  unfold shift_st, unw. cbn [ectx edone escr]. f_equal. lia.
Qed.

(* the prefix of the contents does not depend on the recorded length *)
Lemma nth_contents_set_len q n i : qinv q -> n <= qmax q -> i < n -> i < qlen q ->
  nth i (contents (set_len q n)) 0%N = nth i (contents q) 0%N.
Proof.
  intros Hq Hn Hi Hi2.
  rewrite contents_nth by (try apply qinv_set_len; assumption || (cbn [set_len qlen]; lia)).
  rewrite contents_nth by assumption. reflexivity.
Qed.

(* set the length, then overwrite the tail: the contents become the kept prefix and the new tail *)
Lemma oob_writeback q done buf' : qinv q -> done <= qlen q -> done + length buf' <= qmax q ->
  let q' := set_len q (done + length buf') in
  exists q'', (match qset q' done buf' with Ok x => Ok x | Err _ => Ok q' | Fault => Fault end) = Ok q'' /\
    qinv q'' /\ qlen q'' = done + length buf' /\ qmax q'' = qmax q /\ qoff q'' = qoff q /\
    contents q'' = firstn done (contents q) ++ buf'.
Proof.
  intros Hq Hd Hfit q'. pose proof Hq as (Hb & Hlm & Ho).
  assert (Hq' : qinv q') by (apply qinv_set_len; assumption).
  destruct buf' as [|b0 bt].
  - (* nothing to write *)
    exists q'. unfold qset. cbn [length Nat.eqb]. split; [reflexivity|]. split; [assumption|].
    split; [reflexivity|]. split; [reflexivity|]. split; [reflexivity|].
    rewrite app_nil_r. unfold q'. cbn [length]. rewrite Nat.add_0_r. apply contents_shrink; assumption.
  - set (buf' := b0 :: bt) in *.
    pose proof (qset_spec q' done buf' Hq' ltac:(cbn [buf' length]; lia)) as Hs.
    replace (qlen q') with (done + length buf') in Hs by reflexivity.
    destruct (Nat.leb_spec (done + length buf') (done + length buf')) as [_|]; [|lia].
    destruct Hs as (b & -> & Hqb & Hcb). exists (set_buf q' b).
    split; [reflexivity|]. split; [assumption|].
    split; [reflexivity|]. split; [reflexivity|]. split; [reflexivity|].
    rewrite Hcb. apply (nth_ext' _ _ 0%N).
    + rewrite upd_length by (rewrite contents_length by assumption; cbn [q' set_len qlen]; lia).
      rewrite contents_length by assumption. rewrite app_length, firstn_length, contents_length by assumption.
      cbn [q' set_len qlen]. lia.
    + intros i Hi.
      rewrite upd_length in Hi by (rewrite contents_length by assumption; cbn [q' set_len qlen]; lia).
      rewrite contents_length in Hi by assumption. cbn [q' set_len qlen] in Hi.
      rewrite nth_upd by (rewrite contents_length by assumption; cbn [q' set_len qlen]; lia).
      rewrite nth_app, firstn_length, contents_length by assumption.
      replace (Nat.min done (qlen q)) with done by lia.
      destruct (Nat.ltb_spec i done) as [Hlt|Hge].
      * destruct (Nat.leb_spec done i); [lia|]. cbn [andb].
        rewrite nth_firstn' by assumption. unfold q'. apply nth_contents_set_len; try assumption; lia.
      * destruct (Nat.leb_spec done i); [|lia]. destruct (Nat.ltb_spec i (done + length buf')); [|lia].
        reflexivity.
Qed.

Lemma set_len_self q n : qlen q = n -> set_len q n = q.
Proof. intros <-. destruct q; reflexivity. Qed.

Lemma unw_eq_of_shift stw st np n : shift_st (unw stw np) n = shift_st st n -> unw stw np = st.
Proof.
  unfold shift_st, unw. destruct st as [sa sb sc], stw as [ta tb tc]. cbn [ectx edone escr].
  intros H. inversion H. f_equal. lia.
Qed.

(* the copy the C code makes of the open block *)
Lemma oob_copy q done scr : qinv q -> qlen q = done + scr ->
  (match qget q done scr with Ok l => Ok l | Err _ => Ok [] | Fault => Fault end) = Ok (skipn done (contents q)).
Proof.
  intros Hq Hl. pose proof Hq as (Hb & Hlm & Ho).
  assert (HW : length (skipn done (contents q)) = scr) by (rewrite skipn_length, contents_length by assumption; lia).
  destruct (Nat.eq_dec scr 0) as [->|Hne].
  - unfold qget. cbn [Nat.eqb]. apply length_zero_iff_nil in HW. rewrite HW. reflexivity.
  - pose proof (qget_spec q done scr Hq ltac:(lia)) as Hg.
    destruct (Nat.leb_spec (done + scr) (qlen q)); [|lia]. rewrite Hg. unfold slice.
    rewrite firstn_all2 by lia. reflexivity.
Qed.
