(* Cobs/DecHistory.v — call level: what a sequence of decoder calls on a growing buffer
   delivers.  The state the C decoder keeps between calls (decode_state: resume code and
   position, read position, position and length of the decoded bytes) is tied to the
   stream-level invariant [hon] of the block loop, so that whatever the calls deliver is the
   reference decoding of the successive frames of the consumed input, for every way the input
   arrives (every split into calls, every target alignment, every gap). *)
From MptV Require Import Base.Mem Base.Tactics Cobs.CobsModel Cobs.DecModel Cobs.EncProofs Cobs.EncTheorems Cobs.DecProofs
  Cobs.DecCall.
Local Open Scope nat_scope.

(* ---------- the block loop with an accumulator ---------- *)
Definition add_out (out : list byte) (r : lres) : lres :=
  mkl (lr r) (out ++ lout r) (lcons r) (lproc r) (lcode r) (lpos r).

Lemma dec_loop_out v peek : forall inp code pos proc out cons,
  dec_loop v peek inp code pos proc out cons = add_out out (dec_loop v peek inp code pos proc [] cons).
Proof.
  induction inp as [|b rest IH]; intros code pos proc out cons; cbn [dec_loop].
  - destruct (pos <? len_data v code); [|destruct peek]; unfold add_out; cbn [lr lout lcons lproc lcode lpos];
      rewrite app_nil_r; reflexivity.
  - destruct (pos <? len_data v code).
    + destruct (bz b); [unfold add_out; cbn [lr lout lcons lproc lcode lpos]; rewrite app_nil_r; reflexivity|].
      destruct (proc =? 0); [unfold add_out; cbn [lr lout lcons lproc lcode lpos]; rewrite app_nil_r; reflexivity|].
      rewrite (IH code (S pos) proc (out ++ [b]) (S cons)).
      rewrite (IH code (S pos) proc ([] ++ [b]) (S cons)).
      unfold add_out. cbn [lr lout lcons lproc lcode lpos app]. rewrite <- app_assoc. reflexivity.
    + destruct peek; [unfold add_out; cbn [lr lout lcons lproc lcode lpos]; rewrite app_nil_r; reflexivity|].
      set (k := len_data v code + len_zero v code b - pos).
      destruct (proc <? k); [unfold add_out; cbn [lr lout lcons lproc lcode lpos app]; reflexivity|].
      destruct (bz b); [unfold add_out; cbn [lr lout lcons lproc lcode lpos app]; reflexivity|].
      rewrite (IH (bn b) 0 (proc - k + 1) (out ++ zeros k) (S cons)).
      rewrite (IH (bn b) 0 (proc - k + 1) ([] ++ zeros k) (S cons)).
      unfold add_out. cbn [lr lout lcons lproc lcode lpos app]. rewrite <- app_assoc. reflexivity.
Qed.

(* a loop entered inside the data part of a block never reports a position behind it when it
   asks for more input *)
Lemma dec_loop_pos_le v : forall inp code pos proc out cons,
  pos <= len_data v code ->
  let r := dec_loop v false inp code pos proc out cons in
  lr r = DMore -> lpos r <= len_data v (lcode r).
Proof.
  induction inp as [|b rest IH]; intros code pos proc out cons Hp; cbn [dec_loop].
  - destruct (pos <? len_data v code); cbn [lr lpos lcode]; intros _; assumption.
  - destruct (Nat.ltb_spec pos (len_data v code)).
    + destruct (bz b); [cbn [lr]; discriminate|].
      destruct (proc =? 0); [cbn [lr lpos lcode]; intros _; assumption|].
      apply IH. lia.
    + set (k := len_data v code + len_zero v code b - pos).
      destruct (proc <? k); [cbn [lr]; discriminate|].
      destruct (bz b); [cbn [lr]; discriminate|].
      apply IH. lia.
Qed.

(* ---------- the reference decoder accepts only bodies without a zero byte ---------- *)
Lemma nozero_app a b : nozero (a ++ b) = nozero a && nozero b.
Proof. unfold nozero. apply forallb_app. Qed.

Lemma sdec_body_nozero v : forall fuel body m, sdec_body fuel v body = Some m -> nozero body = true.
Proof.
  induction fuel as [|fuel IH]; intros body m H; [discriminate|].
  cbn [sdec_body] in H. destruct body as [|c rest]; [discriminate|].
  destruct (bz c) eqn:Hc; [discriminate|].
  cbn [nozero forallb]. rewrite Hc. cbn [negb andb]. fold (nozero rest).
  destruct (length rest <? len_data v (bn c)).
  - destruct (inl v); [|discriminate]. cbn [andb] in H. destruct (nozero rest); [reflexivity|discriminate].
  - destruct (nozero (firstn (len_data v (bn c)) rest)) eqn:Hd; [|discriminate]. cbn [negb] in H.
    rewrite <- (firstn_skipn (len_data v (bn c)) rest), nozero_app, Hd. cbn [andb].
    destruct (skipn (len_data v (bn c)) rest) as [|x t] eqn:Es; [reflexivity|].
    destruct (sdec_body fuel v (x :: t)) as [t'|] eqn:Et; [|discriminate].
    apply (IH _ _ Et).
Qed.

Lemma sdec_nozero v body m : sdec v body = Some m -> nozero body = true.
Proof. apply sdec_body_nozero. Qed.

(* the alignment skip never exceeds the gap *)
Lemma align_post_le off rest proc : align_post off rest proc <= proc.
Proof.
  unfold align_post.
  destruct (8 <=? rest); cbn [andb]; [destruct (Nat.leb_spec (off mod 16) proc); [assumption|]|];
  (destruct (4 <=? rest); cbn [andb]; [destruct (Nat.leb_spec (off mod 8) proc); [assumption|]|]);
  (destruct (2 <=? rest); cbn [andb]; [destruct (Nat.leb_spec (off mod 4) proc); [assumption|]|]);
  (destruct (1 <=? rest); cbn [andb]; [destruct (Nat.leb_spec (off mod 2) proc); [assumption|]|]); lia.
Qed.

(* ---------- the state between calls ---------- *)
Definition decoded (st : dstate) (buf : list byte) : list byte := firstn (dlen st) (skipn (dpos st) buf).

(* [F]: the bytes of the current frame consumed so far *)
Definition cinv (v : variant) (F : list byte) (st : dstate) (buf : list byte) : Prop :=
  dpos st + dlen st <= dcurr st /\ dcurr st <= length buf /\
  match dmsg st with
  | Some c => c = dlen st /\ dcode st = 0 /\ F = []
  | None => if dcode st =? 0 then dlen st = 0 /\ F = []
            else hon v F (decoded st buf) (dcode st) (dpos8 st)
  end.

(* what one call establishes; [used] = the input bytes it consumed *)
Definition call_post (v : variant) (F : list byte) (curr : nat) (buf : list byte)
           (r : dres) (st' : dstate) (buf' : list byte) : Prop :=
  let unread := skipn curr buf in
  match r with
  | DMsg => exists k body, k <= length unread /\ dcurr st' = curr + k /\
              length buf' = length buf /\ skipn (dcurr st') buf' = skipn (dcurr st') buf /\
              F ++ firstn k unread = body ++ [0%N] /\
              sdec v body = Some (decoded st' buf') /\ cinv v [] st' buf' /\ dmsg st' = Some (dlen st')
  | DMore => exists k, k <= length unread /\ dcurr st' = curr + k /\
              length buf' = length buf /\ skipn (dcurr st') buf' = skipn (dcurr st') buf /\
              cinv v (F ++ firstn k unread) st' buf' /\ dmsg st' = None
  | _ => True
  end.

(* additionally, for a zero inside a block (the tail-inline case of COBS/R) *)
Definition md_post (v : variant) (F : list byte) (curr : nat) (buf : list byte)
           (r : dres) (st' : dstate) (buf' : list byte) : Prop :=
  match r with
  | DErr MissingData => dcode st' <> 0 ->
      let unread := skipn curr buf in
      exists k, k < length unread /\ dcurr st' = curr + k /\
        length buf' = length buf /\ skipn (dcurr st') buf' = skipn (dcurr st') buf /\
        dpos st' + dlen st' <= dcurr st' /\ dmsg st' = None /\
        nth k unread 1%N = 0%N /\
        hon v (F ++ firstn k unread) (decoded st' buf') (dcode st') (dpos8 st') /\
        dpos8 st' < len_data v (dcode st')
  | _ => True
  end.

Lemma firstn_skipn_splice buf W d n : W + length d <= length buf -> n <= W ->
  firstn (W - n + length d) (skipn n (splice buf W d)) = firstn (W - n) (skipn n buf) ++ d.
Proof.
  intros Hl Hn. unfold splice.
  rewrite skipn_app, firstn_length. replace (Nat.min W (length buf)) with W by lia.
  replace (n - W) with 0 by lia. cbn [skipn].
  rewrite firstn_app. rewrite skipn_length, firstn_length.
  replace (Nat.min W (length buf) - n) with (W - n) by lia.
  replace (W - n + length d - (W - n)) with (length d) by lia.
  rewrite firstn_all2 by (rewrite skipn_length, firstn_length; lia).
  rewrite firstn_app, Nat.sub_diag. cbn [firstn]. rewrite app_nil_r, firstn_all.
  f_equal.
  (* skipn n (firstn W buf) = firstn (W-n) (skipn n buf) *)
  apply (nth_ext' _ _ 0%N).
  - rewrite skipn_length, !firstn_length, skipn_length. lia.
  - intros i Hi. rewrite skipn_length, firstn_length in Hi.
    rewrite nth_skipn'. rewrite nth_firstn' by lia. rewrite nth_firstn' by lia. rewrite nth_skipn'. reflexivity.
Qed.

Lemma hon_code_pos v F m code pos : hon v F m code pos -> 1 <= code /\ pos <= len_data v code.
Proof. intros (bs & d & _ & _ & _ & _ & Hp & H1 & _). split; assumption. Qed.

(* the block loop entered from a call: [pre] = the code byte the call read before the loop *)
Lemma loop_result_post v F buf done2 mlen proc2 pre inp3 code pos :
  let W := done2 + mlen in
  let curr := W + proc2 in
  curr <= length buf -> skipn curr buf = pre ++ inp3 -> length pre <= 1 ->
  hon v (F ++ pre) (firstn mlen (skipn done2 buf)) code pos ->
  let r := dec_loop v false inp3 code pos (proc2 + length pre) [] (length pre) in
  let mlen' := mlen + length (lout r) in
  let buf' := splice buf W (lout r) in
  let curr' := done2 + mlen' + lproc r in
  let '(res, st', b') := match lr r with
       | DMsg => (DMsg, mkd 0 0 curr' done2 mlen' (Some mlen'), buf')
       | other => (other, mkd (lcode r) (lpos r) curr' done2 mlen' None, buf')
       end in
  call_post v F curr buf res st' b' /\ md_post v F curr buf res st' b'.
Proof.
  intros W curr Hcur Hun Hpre Hhon r mlen' buf' curr'.
  set (c0 := length pre) in *. set (dec0 := firstn mlen (skipn done2 buf)) in *.
  pose proof (dec_loop_gap v false inp3 code pos (proc2 + c0) [] c0) as (added & Ho & G1 & G2 & G3).
  fold r in Ho, G1, G2, G3. cbn [app] in Ho. subst added.
  pose proof (dec_loop_honest v inp3 (F ++ pre) code pos (proc2 + c0) dec0 c0 Hhon) as Hh.
  rewrite (dec_loop_out v false inp3 code pos (proc2 + c0) dec0 c0) in Hh. fold r in Hh.
  unfold honest_post, add_out in Hh. cbn [lr lout lcons lproc lcode lpos] in Hh.
  destruct (hon_code_pos _ _ _ _ _ Hhon) as [Hc1 Hpl].
  pose proof (dec_loop_pos_le v inp3 code pos (proc2 + c0) [] c0 Hpl) as Hple. fold r in Hple. cbn zeta in Hple.
  assert (Hlu : length (skipn curr buf) = c0 + length inp3) by (rewrite Hun, app_length; reflexivity).
  assert (Hlb : length buf = curr + c0 + length inp3) by (rewrite skipn_length in Hlu; lia).
  set (k := lcons r) in *.
  assert (Hk : k <= length (skipn curr buf)) by lia.
  assert (Hcurr' : curr' = curr + k) by (unfold curr', mlen', curr, W; lia).
  assert (Hlen' : length buf' = length buf) by (unfold buf'; apply splice_length; unfold W, curr in *; lia).
  assert (Hsk' : skipn curr' buf' = skipn curr' buf)
    by (unfold buf'; apply splice_skipn; unfold curr', mlen', W, curr in *; lia).
  assert (Hused : F ++ firstn k (skipn curr buf) = (F ++ pre) ++ firstn (k - c0) inp3).
  { rewrite Hun, firstn_app. fold c0. rewrite (firstn_all2 pre) by (fold c0; lia). rewrite app_assoc. reflexivity. }
  assert (Hdec' : firstn mlen' (skipn done2 buf') = dec0 ++ lout r).
  { unfold buf', mlen'. replace mlen with (W - done2) at 1 by (unfold W; lia).
    rewrite firstn_skipn_splice by (unfold W, curr in *; lia).
    replace (W - done2) with mlen by (unfold W; lia). reflexivity. }
  destruct (lr r) as [| |e|] eqn:Elr.
  - (* message complete *)
    split; [|exact I]. destruct Hh as (body & Hb & Hs).
    exists k, body. split; [exact Hk|]. split; [exact Hcurr'|]. split; [exact Hlen'|]. split; [exact Hsk'|].
    split; [rewrite Hused; exact Hb|].
    unfold decoded. cbn [dlen dpos]. rewrite Hdec'. split; [exact Hs|].
    split; [|reflexivity].
    unfold cinv. cbn [dpos dlen dcurr dmsg dcode]. split; [unfold curr', mlen'; lia|]. split; [lia|]. auto.
  - (* more input needed *)
    split; [|exact I]. specialize (Hh (Hple eq_refl)).
    exists k. split; [exact Hk|]. split; [exact Hcurr'|]. split; [exact Hlen'|]. split; [exact Hsk'|].
    split; [|reflexivity].
    unfold cinv. cbn [dpos dlen dcurr dmsg dcode dpos8]. split; [unfold curr', mlen'; lia|]. split; [lia|].
    destruct (hon_code_pos _ _ _ _ _ Hh) as [Hc1' _].
    destruct (Nat.eqb_spec (lcode r) 0); [lia|].
    unfold decoded. cbn [dlen dpos]. rewrite Hdec', Hused. exact Hh.
  - split; [exact I|]. destruct e; try exact I.
    intros _. destruct Hh as (Hh & Hlt & (rest & Hz)).
    assert (Hk2 : k - c0 < length inp3).
    { assert (length (skipn (k - c0) inp3) = S (length rest)) by (rewrite Hz; reflexivity).
      rewrite skipn_length in H. lia. }
    exists k. split; [lia|]. split; [exact Hcurr'|]. split; [exact Hlen'|]. split; [exact Hsk'|].
    cbn [dpos dlen dcurr dmsg dcode dpos8]. split; [unfold curr', mlen'; lia|]. split; [reflexivity|].
    split.
    + rewrite Hun, app_nth2 by (fold c0; lia). fold c0.
      rewrite <- (firstn_skipn (k - c0) inp3), app_nth2 by (rewrite firstn_length; lia).
      rewrite firstn_length. replace (k - c0 - Nat.min (k - c0) (length inp3)) with 0 by lia.
      rewrite Hz. reflexivity.
    + unfold decoded. cbn [dlen dpos]. rewrite Hdec', Hused. split; assumption.
  - split; exact I.
Qed.

(* ---------- one call of the decoder (not peeking) ---------- *)
Theorem dec_regular_honest v F st buf frags res : cinv v F st buf ->
  let '(r, st', buf') := dec_regular_res v st buf frags res false in
  call_post v F (dcurr st) buf r st' buf' /\ md_post v F (dcurr st) buf r st' buf'.
Proof.
  intros (G1 & G2 & Hm). unfold dec_regular_res. lazy beta iota zeta.
  set (dl := dpos st + dlen st) in *.
  destruct (Nat.ltb_spec (dcurr st) dl); [lia|]. destruct (Nat.ltb_spec (length buf) dl); [lia|]. cbn [orb].
  set (proc0 := dcurr st - dl).
  destruct (locate frags res dl) as [[rs off] rest].
  (* the two ways into the core: a fresh message (alignment, code byte) or a resumed one *)
  assert (Hfresh : forall st1, dcode st1 = 0 -> dlen st1 = 0 -> dmsg st1 = None -> dcurr st1 = dcurr st -> F = [] ->
    let '(r, st', buf') :=
      (let post := align_post (rs + off) rest proc0 in
       let st2 := mkd (dcode st1) (dpos8 st1) (dcurr st1) (dl + post) (dlen st1) (dmsg st1) in
       let done2 := dl + post in let proc2 := proc0 - post in
       if length buf <? done2 + 0 + proc2 then (DErr BadArgument, st2, buf)
       else match (if dcode st2 =? 0
                   then match firstn (length buf - (done2 + 0 + proc2)) (skipn (done2 + 0 + proc2) buf) with
                        | [] => None
                        | c :: rest0 => Some (bn c, 0, proc2 + 1, rest0, 1)
                        end
                   else Some (dcode st2, dpos8 st2, proc2,
                              firstn (length buf - (done2 + 0 + proc2)) (skipn (done2 + 0 + proc2) buf), 0)) with
            | None => (DMore, st2, buf)
            | Some (code, pos, proc, inp, c0) =>
              if code =? 0 then (DErr BadValue, mkd (dcode st2) (dpos8 st2) (done2 + 0 + proc) (dpos st2) (dlen st2) (dmsg st2), buf)
              else
                let r := dec_loop v false inp code pos proc [] c0 in
                let mlen' := 0 + length (lout r) in
                let buf' := splice buf (done2 + 0) (lout r) in
                let curr' := done2 + mlen' + lproc r in
                match lr r with
                | DMsg => (DMsg, mkd 0 0 curr' done2 mlen' (Some mlen'), buf')
                | other => (other, mkd (lcode r) (lpos r) curr' (dpos st2) mlen' (dmsg st2), buf')
                end
            end) in
    call_post v F (dcurr st) buf r st' buf' /\ md_post v F (dcurr st) buf r st' buf').
  { intros st1 Hc0 Hl0 Hm0 Hcu HF. subst F. cbn zeta.
    set (post := align_post (rs + off) rest proc0).
    pose proof (align_post_le (rs + off) rest proc0) as Hpost. fold post in Hpost.
    set (done2 := dl + post). set (proc2 := proc0 - post).
    assert (Hcurr : done2 + 0 + proc2 = dcurr st) by (unfold done2, proc2, proc0; lia).
    rewrite Hcurr. destruct (Nat.ltb_spec (length buf) (dcurr st)); [lia|].
    cbn [dcode dpos8 dpos dlen dmsg]. rewrite Hc0. cbn [Nat.eqb].
    rewrite firstn_all2 by (rewrite skipn_length; lia).
    destruct (skipn (dcurr st) buf) as [|c rest0] eqn:Eun.
    - (* nothing to read *)
      split; [|exact I]. exists 0. cbn [length firstn]. split; [lia|]. split; [cbn [dcurr]; lia|].
      split; [reflexivity|]. split; [reflexivity|]. split; [|cbn [dmsg]; exact Hm0].
      unfold cinv. cbn [dpos dlen dcurr dmsg dcode]. rewrite Hl0, Hm0, Hcu. cbn [Nat.eqb app].
      split; [unfold done2; unfold proc0 in Hpost; lia|]. split; [lia|]. auto.
    - destruct (Nat.eqb_spec (bn c) 0) as [Hz|Hnz]; [split; exact I|].
      pose proof (loop_result_post v [] buf done2 0 proc2 [c] rest0 (bn c) 0) as HL.
      lazy zeta in HL. rewrite Hcurr in HL. specialize (HL ltac:(lia) Eun ltac:(cbn; lia)).
      cbn [firstn app length] in HL.
      specialize (HL ltac:(rewrite <- (nb_bn c) at 1; apply hon_start; lia)).
      rewrite Hm0.
      destruct (lr (dec_loop v false rest0 (bn c) 0 (proc2 + 1) [] 1)); cbn [Nat.add] in HL |- *; exact HL. }
  destruct (dmsg st) as [c|] eqn:Em.
  - (* a delivered message is consumed first *)
    destruct Hm as (Hc & Hcode & HF). subst c. cbn [dcode dlen]. rewrite Nat.sub_diag, Hcode. cbn [Nat.eqb andb].
    apply (Hfresh (mkd 0 (dpos8 st) (dcurr st) (dpos st) 0 None)); try reflexivity; assumption.
  - destruct (Nat.eqb_spec (dcode st) 0) as [Hcode|Hcode].
    + destruct Hm as [Hl0 HF]. rewrite Hl0. cbn [Nat.eqb andb].
      apply (Hfresh (mkd (dcode st) (dpos8 st) (dcurr st) (dpos st) 0 (dmsg st))); cbn [dcode dlen dmsg dcurr];
        try assumption; reflexivity.
    + (* resumed inside a message *)
      rewrite andb_false_r.
      assert (Hcurr : dpos st + dlen st + proc0 = dcurr st) by (unfold proc0, dl; lia).
      rewrite Hcurr. destruct (Nat.ltb_spec (length buf) (dcurr st)); [lia|].
      destruct (Nat.eqb_spec (dcode st) 0); [contradiction|].
      rewrite firstn_all2 by (rewrite skipn_length; lia).
      destruct (Nat.eqb_spec (dcode st) 0); [contradiction|].
      pose proof (loop_result_post v F buf (dpos st) (dlen st) proc0 [] (skipn (dcurr st) buf) (dcode st) (dpos8 st)) as HL.
      lazy zeta in HL. rewrite Hcurr in HL. specialize (HL ltac:(lia) eq_refl ltac:(cbn; lia)).
      rewrite app_nil_r in HL. specialize (HL Hm). cbn [length] in HL. rewrite Nat.add_0_r in HL.
      rewrite Em.
      destruct (lr (dec_loop v false (skipn (dcurr st) buf) (dcode st) (dpos8 st) proc0 [] 0)); exact HL.
Qed.

Lemma firstn_S_nth {A} (l : list A) k d : k < length l -> firstn (S k) l = firstn k l ++ [nth k l d].
Proof.
  revert k; induction l as [|x l IH]; intros k Hk; [cbn in Hk; lia|].
  destruct k as [|k]; [reflexivity|]. cbn [firstn nth app]. f_equal. apply IH. cbn in Hk. lia.
Qed.

(* the complete decoder entry, COBS/R tail-inline wrapper included *)
Theorem dec_call_honest v F st buf frags res : cinv v F st buf ->
  let '(r, st', buf') := dec_call_res v st buf frags res false in
  call_post v F (dcurr st) buf r st' buf'.
Proof.
  intros Hc. unfold dec_call_res.
  pose proof (dec_regular_honest v F st buf frags res Hc) as Hr.
  destruct (dec_regular_res v st buf frags res false) as [[r0 st0] buf0]. destruct Hr as [Hcp Hmd].
  destruct (inl v) eqn:Hinl; [|exact Hcp].
  destruct r0 as [| |e|]; try exact Hcp. destruct e; try exact Hcp.
  destruct (Nat.eqb_spec (dcode st0) 0) as [|Hcode]; [exact Hcp|].
  destruct (Nat.leb_spec (length buf0) (dpos st0 + dlen st0)) as [|Hroom]; [exact I|].
  specialize (Hmd Hcode). cbn zeta in Hmd.
  destruct Hmd as (k & Hk & Hcur & Hlen & Hsk & Hgeo & Hmsg & Hz & Hh & Hlt).
  set (unread := skipn (dcurr st) buf) in *.
  unfold call_post. fold unread.
  exists (S k), (F ++ firstn k unread).
  split; [lia|]. split; [cbn [dcurr]; lia|].
  split; [rewrite splice_length by (cbn [length]; lia); exact Hlen|].
  split.
  { cbn [dcurr]. rewrite splice_skipn by (cbn [length]; lia).
    assert (E : forall l : list byte, skipn (S (dcurr st0)) l = skipn 1 (skipn (dcurr st0) l)).
    { intros l. rewrite skipn_skipn'. f_equal. lia. }
    rewrite (E buf0), (E buf), Hsk. reflexivity. }
  split.
  { rewrite (firstn_S_nth unread k 1%N Hk), Hz, app_assoc. reflexivity. }
  assert (Hdec : decoded (mkd 0 0 (S (dcurr st0)) (dpos st0) (S (dlen st0)) (Some (S (dlen st0))))
                         (splice buf0 (dpos st0 + dlen st0) [nb (dcode st0)]) = decoded st0 buf0 ++ [nb (dcode st0)]).
  { unfold decoded. cbn [dlen dpos].
    pose proof (firstn_skipn_splice buf0 (dpos st0 + dlen st0) [nb (dcode st0)] (dpos st0)
                  ltac:(cbn [length]; lia) ltac:(lia)) as E.
    replace (dpos st0 + dlen st0 - dpos st0) with (dlen st0) in E by lia. cbn [length] in E.
    replace (S (dlen st0)) with (dlen st0 + 1) by lia. exact E. }
  split; [rewrite Hdec; apply (hon_inline v _ _ _ _ Hinl Hh Hlt)|].
  split; [|reflexivity].
  unfold cinv. cbn [dpos dlen dcurr dmsg dcode]. split; [lia|].
  split; [rewrite splice_length by (cbn [length]; lia); unfold unread in Hk; rewrite skipn_length in Hk; lia|]. auto.
Qed.

(* ---------- histories of calls on a growing buffer ---------- *)
(* HCall: one decoder call (any fragment geometry / alignment residues); HFeed: the caller
   appends received bytes behind the unread input *)
Inductive hop := HCall (frags res : list nat) | HFeed (more : list byte).

Record hs := mkhs { hs_st : dstate; hs_buf : list byte; hs_msgs : list (list byte); hs_stop : bool }.

(* an error ends the history: nothing is claimed about later calls *)
Definition hstep (v : variant) (s : hs) (o : hop) : hs :=
  if hs_stop s then s else
  match o with
  | HFeed more => mkhs (hs_st s) (hs_buf s ++ more) (hs_msgs s) false
  | HCall frags res =>
    let '(r, st', buf') := dec_call_res v (hs_st s) (hs_buf s) frags res false in
    match r with
    | DMsg => mkhs st' buf' (hs_msgs s ++ [decoded st' buf']) false
    | DMore => mkhs st' buf' (hs_msgs s) false
    | _ => mkhs st' buf' (hs_msgs s) true
    end
  end.

Definition hrun (v : variant) (s : hs) (ops : list hop) : hs := fold_left (hstep v) ops s.

Definition fed (o : hop) : list byte := match o with HFeed more => more | HCall _ _ => [] end.

(* [I]: all input handed over so far (the unread bytes of the start state and everything fed) *)
Definition hinv (v : variant) (I : list byte) (s : hs) : Prop :=
  exists C F, frames_of v (hs_msgs s) C /\
    if hs_stop s then exists rest, I = C ++ rest
    else I = C ++ F ++ skipn (dcurr (hs_st s)) (hs_buf s) /\ cinv v F (hs_st s) (hs_buf s).

Lemma decoded_app st buf more : dpos st + dlen st <= length buf -> decoded st (buf ++ more) = decoded st buf.
Proof.
  intros H. unfold decoded. rewrite skipn_app, firstn_app, skipn_length.
  replace (dlen st - (length buf - dpos st)) with 0 by lia. cbn [firstn]. apply app_nil_r.
Qed.

Lemma cinv_feed v F st buf more : cinv v F st buf -> cinv v F st (buf ++ more).
Proof.
  intros (G1 & G2 & Hm). split; [assumption|]. split; [rewrite app_length; lia|].
  destruct (dmsg st); [assumption|]. destruct (dcode st =? 0); [assumption|].
  rewrite decoded_app by lia. assumption.
Qed.

Lemma hstep_inv v I s o : hinv v I s -> hinv v (I ++ fed o) (hstep v s o).
Proof.
  intros (C & F & Hf & Hs). unfold hstep. destruct (hs_stop s) eqn:Est.
  - exists C, F. split; [assumption|]. rewrite Est. destruct Hs as (rest & ->).
    exists (rest ++ fed o). rewrite app_assoc. reflexivity.
  - destruct Hs as [HI Hc]. destruct o as [frags res|more]; cbn [fed].
    + rewrite app_nil_r.
      pose proof (dec_call_honest v F (hs_st s) (hs_buf s) frags res Hc) as Hp.
      destruct (dec_call_res v (hs_st s) (hs_buf s) frags res false) as [[r st'] buf'].
      set (unread := skipn (dcurr (hs_st s)) (hs_buf s)) in *.
      assert (Hsplit : forall k, k <= length unread -> dcurr st' = dcurr (hs_st s) + k ->
                skipn (dcurr st') buf' = skipn (dcurr st') (hs_buf s) ->
                unread = firstn k unread ++ skipn (dcurr st') buf').
      { intros k Hk Hcur Hsk. rewrite Hsk, Hcur.
        replace (skipn (dcurr (hs_st s) + k) (hs_buf s)) with (skipn k unread) by (unfold unread; apply skipn_skipn').
        symmetry. apply firstn_skipn. }
      destruct r as [| |e|]; unfold call_post in Hp; fold unread in Hp.
      * destruct Hp as (k & body & Hk & Hcur & Hlen & Hsk & Hb & Hsd & Hc' & Hm').
        exists (C ++ body ++ [0%N]), []. cbn [hs_msgs hs_stop hs_st hs_buf].
        split; [apply frames_of_snoc; [assumption|assumption|apply (sdec_nozero v body _ Hsd)]|].
        split; [|assumption]. cbn [app].
        rewrite HI, (Hsplit k Hk Hcur Hsk). rewrite (app_assoc F), Hb. rewrite <- !app_assoc. reflexivity.
      * destruct Hp as (k & Hk & Hcur & Hlen & Hsk & Hc' & _).
        exists C, (F ++ firstn k unread). cbn [hs_msgs hs_stop hs_st hs_buf].
        split; [assumption|]. split; [|assumption].
        rewrite HI, (Hsplit k Hk Hcur Hsk) at 1. rewrite <- !app_assoc. reflexivity.
      * exists C, F. cbn [hs_msgs hs_stop]. split; [assumption|]. eexists. exact HI.
      * exists C, F. cbn [hs_msgs hs_stop]. split; [assumption|]. eexists. exact HI.
    + exists C, F. cbn [hs_msgs hs_stop hs_st hs_buf]. split; [assumption|].
      destruct Hc as (G1 & G2 & Hm). split; [|apply cinv_feed; repeat split; assumption].
      rewrite skipn_app. replace (dcurr (hs_st s) - length (hs_buf s)) with 0 by lia. cbn [skipn].
      rewrite HI, <- !app_assoc. reflexivity.
Qed.

Theorem hrun_inv v : forall ops I s, hinv v I s -> hinv v (I ++ concat (map fed ops)) (hrun v s ops).
Proof.
  induction ops as [|o ops IH]; intros I s Hi; cbn [hrun fold_left map concat].
  - rewrite app_nil_r. exact Hi.
  - rewrite app_assoc. apply IH. apply hstep_inv. exact Hi.
Qed.

(* MAIN: start anywhere between messages (e.g. the initial state with any gap), make any calls
   with any fragment geometry, feed any bytes in any pieces in between: the messages delivered
   are, in order, the reference decodings of the successive frames at the front of the input *)
Theorem dec_history_delivers v st0 buf0 ops :
  cinv v [] st0 buf0 ->
  let s := hrun v (mkhs st0 buf0 [] false) ops in
  exists C rest, skipn (dcurr st0) buf0 ++ concat (map fed ops) = C ++ rest /\ frames_of v (hs_msgs s) C.
Proof.
  intros Hc s.
  assert (H0 : hinv v (skipn (dcurr st0) buf0) (mkhs st0 buf0 [] false)).
  { exists [], []. cbn [hs_msgs hs_stop hs_st hs_buf app]. split; [constructor|]. split; [reflexivity|assumption]. }
  pose proof (hrun_inv v ops _ _ H0) as (C & F & Hf & Hs). fold s in Hf, Hs.
  exists C. destruct (hs_stop s).
  - destruct Hs as (rest & HI). exists rest. split; assumption.
  - destruct Hs as [HI _]. eexists. split; [exact HI|assumption].
Qed.

Lemma cinv_init v gap buf : gap <= length buf -> cinv v [] (dinit gap) buf.
Proof. intros H. unfold cinv, dinit. cbn [dpos dlen dcurr dmsg dcode Nat.eqb]. repeat split; lia. Qed.
