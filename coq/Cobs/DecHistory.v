(* Cobs/DecHistory.v — call level: what a sequence of decoder calls on a growing buffer
   delivers.  The state the C decoder keeps between calls (decode_state: resume code and
   position, read position, position and length of the decoded bytes) is tied to the
   stream-level invariant [hon] of the block loop, so that whatever the calls deliver is the
   reference decoding of the successive frames of the consumed input, for every way the input
   arrives (every split into calls, every target alignment, every gap). *)
From MptV Require Import Base.Mem Base.Tactics Cobs.CobsModel Cobs.DecModel Cobs.EncProofs Cobs.EncTheorems Cobs.DecProofs
  Cobs.DecCall Cobs.DecComplete.
Local Open Scope nat_scope.

(* ---------- the block loop with an accumulator ---------- *)
Definition add_out (out : list byte) (r : lres) : lres :=
  mkl (lr r) (out ++ lout r) (lcons r) (lproc r) (lcode r) (lpos r).

Lemma dec_loop_out v peek : forall inp code pos proc out cons,
  dec_loop v peek inp code pos proc out cons = add_out out (dec_loop v peek inp code pos proc [] cons).
Proof.
  induction inp as [|b rest IH]; intros code pos proc out cons; cbn [dec_loop].
  - destruct (pos <? len_data v code); [|destruct peek]; unfold add_out; cbn [lr lout lcons lproc lcode lpos];
      rewrite app_nil_r; reflexivity.
  - destruct (pos <? len_data v code).
    + destruct (bz b); [unfold add_out; cbn [lr lout lcons lproc lcode lpos]; rewrite app_nil_r; reflexivity|].
      destruct (proc =? 0); [unfold add_out; cbn [lr lout lcons lproc lcode lpos]; rewrite app_nil_r; reflexivity|].
      rewrite (IH code (S pos) proc (out ++ [b]) (S cons)).
      rewrite (IH code (S pos) proc ([] ++ [b]) (S cons)).
      unfold add_out. cbn [lr lout lcons lproc lcode lpos app]. rewrite <- app_assoc. reflexivity.
    + destruct peek; [unfold add_out; cbn [lr lout lcons lproc lcode lpos]; rewrite app_nil_r; reflexivity|].
      set (k := len_data v code + len_zero v code b - pos).
      destruct (proc <? k); [unfold add_out; cbn [lr lout lcons lproc lcode lpos app]; reflexivity|].
      destruct (bz b); [unfold add_out; cbn [lr lout lcons lproc lcode lpos app]; reflexivity|].
      rewrite (IH (bn b) 0 (proc - k + 1) (out ++ zeros k) (S cons)).
      rewrite (IH (bn b) 0 (proc - k + 1) ([] ++ zeros k) (S cons)).
      unfold add_out. cbn [lr lout lcons lproc lcode lpos app]. rewrite <- app_assoc. reflexivity.
Qed.

(* a loop entered inside the data part of a block never reports a position behind it when it
   asks for more input *)
Lemma dec_loop_pos_le v : forall inp code pos proc out cons,
  pos <= len_data v code ->
  let r := dec_loop v false inp code pos proc out cons in
  lr r = DMore -> lpos r <= len_data v (lcode r).
Proof.
  induction inp as [|b rest IH]; intros code pos proc out cons Hp; cbn [dec_loop].
  - destruct (pos <? len_data v code); cbn [lr lpos lcode]; intros _; assumption.
  - destruct (Nat.ltb_spec pos (len_data v code)).
    + destruct (bz b); [cbn [lr]; discriminate|].
      destruct (proc =? 0); [cbn [lr lpos lcode]; intros _; assumption|].
      apply IH. lia.
    + set (k := len_data v code + len_zero v code b - pos).
      destruct (proc <? k); [cbn [lr]; discriminate|].
      destruct (bz b); [cbn [lr]; discriminate|].
      apply IH. lia.
Qed.

(* ---------- the reference decoder accepts only bodies without a zero byte ---------- *)
Lemma nozero_app a b : nozero (a ++ b) = nozero a && nozero b.
Proof. unfold nozero. apply forallb_app. Qed.

Lemma sdec_body_nozero v : forall fuel body m, sdec_body fuel v body = Some m -> nozero body = true.
Proof.
  induction fuel as [|fuel IH]; intros body m H; [discriminate|].
  cbn [sdec_body] in H. destruct body as [|c rest]; [discriminate|].
  destruct (bz c) eqn:Hc; [discriminate|].
  cbn [nozero forallb]. rewrite Hc. cbn [negb andb]. fold (nozero rest).
  destruct (length rest <? len_data v (bn c)).
  - destruct (inl v); [|discriminate]. cbn [andb] in H. destruct (nozero rest); [reflexivity|discriminate].
  - destruct (nozero (firstn (len_data v (bn c)) rest)) eqn:Hd; [|discriminate]. cbn [negb] in H.
    rewrite <- (firstn_skipn (len_data v (bn c)) rest), nozero_app, Hd. cbn [andb].
    destruct (skipn (len_data v (bn c)) rest) as [|x t] eqn:Es; [reflexivity|].
    destruct (sdec_body fuel v (x :: t)) as [t'|] eqn:Et; [|discriminate].
    apply (IH _ _ Et).
Qed.

Lemma sdec_nozero v body m : sdec v body = Some m -> nozero body = true.
Proof. apply sdec_body_nozero. Qed.

(* the alignment skip never exceeds the gap *)
Lemma align_post_le off rest proc : align_post off rest proc <= proc.
Proof.
  unfold align_post.
  destruct (8 <=? rest); cbn [andb]; [destruct (Nat.leb_spec (off mod 16) proc); [assumption|]|];
  (destruct (4 <=? rest); cbn [andb]; [destruct (Nat.leb_spec (off mod 8) proc); [assumption|]|]);
  (destruct (2 <=? rest); cbn [andb]; [destruct (Nat.leb_spec (off mod 4) proc); [assumption|]|]);
  (destruct (1 <=? rest); cbn [andb]; [destruct (Nat.leb_spec (off mod 2) proc); [assumption|]|]); lia.
Qed.

(* ---------- running out of gap inside the zeros a block implies ---------- *)
(* the loop stops with MissingBuffer only at the end of a block's data, with the next byte in
   view: [j] of the zeros that byte asks for have been written, strictly fewer than needed *)
Lemma dec_loop_mb v : forall inp F code pos proc out cons,
  hon v F out code pos ->
  let r := dec_loop v false inp code pos proc out cons in
  lr r = DErr MissingBuffer ->
  exists base j next rest',
    hon v (F ++ firstn (lcons r - cons) inp) base (lcode r) (len_data v (lcode r)) /\
    lout r = base ++ zeros j /\ lpos r = len_data v (lcode r) + j /\ lproc r = 0 /\
    skipn (lcons r - cons) inp = next :: rest' /\ j < len_zero v (lcode r) next.
Proof.
  induction inp as [|b rest IH]; intros F code pos proc out cons Hh.
  - cbn [dec_loop]. destruct (pos <? len_data v code); cbn [lr]; discriminate.
  - pose proof Hh as (bs & d & Hbs & Hd & HF & Hl & Hp & H1 & Hm).
    cbn [dec_loop].
    destruct (Nat.ltb_spec pos (len_data v code)) as [Hlt|Hge].
    + destruct (bz b) eqn:Hb; [cbn [lr]; discriminate|].
      destruct (Nat.eqb_spec proc 0); [cbn [lr]; discriminate|].
      assert (Hh' : hon v (F ++ [b]) (out ++ [b]) code (S pos)).
      { exists bs, (d ++ [b]). split; [assumption|]. split.
        - rewrite nozero_app, Hd. cbn. rewrite Hb. reflexivity.
        - split; [rewrite HF, <- app_assoc; reflexivity|]. split; [rewrite app_length; cbn; lia|].
          split; [lia|]. split; [assumption|]. rewrite Hm, <- !app_assoc. reflexivity. }
      specialize (IH (F ++ [b]) code (S pos) proc (out ++ [b]) (S cons) Hh').
      pose proof (dec_loop_gap v false rest code (S pos) proc (out ++ [b]) (S cons)) as (a & _ & G1 & G2 & _).
      cbn zeta in *.
      set (r := dec_loop v false rest code (S pos) proc (out ++ [b]) (S cons)) in *.
      intros Hr. specialize (IH Hr).
      replace (lcons r - cons) with (S (lcons r - S cons)) by lia. cbn [firstn skipn].
      replace (F ++ b :: firstn (lcons r - S cons) rest) with ((F ++ [b]) ++ firstn (lcons r - S cons) rest)
        by (rewrite <- app_assoc; reflexivity).
      exact IH.
    + assert (Hpn : pos = len_data v code) by lia.
      set (k := len_data v code + len_zero v code b - pos).
      destruct (Nat.ltb_spec proc k) as [Hshort|Hok].
      * cbn [lr lout lcons lproc lcode lpos]. intros _.
        exists out, proc, b, rest. rewrite Nat.sub_diag. cbn [firstn skipn]. rewrite app_nil_r.
        split; [rewrite <- Hpn; exact Hh|]. split; [reflexivity|]. split; [lia|]. split; [reflexivity|].
        split; [reflexivity|]. unfold k in Hshort. lia.
      * destruct (bz b) eqn:Hb; [cbn [lr]; discriminate|].
        assert (Hk : k = zeros_after v code).
        { unfold k. rewrite (len_zero_nz v code b Hb). lia. }
        assert (Hh' : hon v (F ++ [b]) (out ++ zeros k) (bn b) 0).
        { exists (bs ++ [(code, d)]), []. split.
          - apply Forall_app. split; [assumption|]. constructor; [|constructor].
            unfold block_ok. cbn [fst snd]. repeat split; try assumption; lia.
          - split; [reflexivity|]. split.
            + rewrite flat_snoc, HF, nb_bn, <- app_assoc. reflexivity.
            + split; [reflexivity|]. split; [lia|]. split; [apply bn_pos; assumption|].
              rewrite dec_closed_snoc, Hm, Hk, app_nil_r, <- !app_assoc. reflexivity. }
        specialize (IH (F ++ [b]) (bn b) 0 (proc - k + 1) (out ++ zeros k) (S cons) Hh').
        pose proof (dec_loop_gap v false rest (bn b) 0 (proc - k + 1) (out ++ zeros k) (S cons)) as (a & _ & G1 & G2 & _).
        cbn zeta in *.
        set (r := dec_loop v false rest (bn b) 0 (proc - k + 1) (out ++ zeros k) (S cons)) in *.
        intros Hr. specialize (IH Hr).
        replace (lcons r - cons) with (S (lcons r - S cons)) by lia. cbn [firstn skipn].
        replace (F ++ b :: firstn (lcons r - S cons) rest) with ((F ++ [b]) ++ firstn (lcons r - S cons) rest)
          by (rewrite <- app_assoc; reflexivity).
        exact IH.
Qed.

(* resuming after [j] of the implied zeros were written = resuming before them with [j] more gap *)
Lemma dec_loop_partial_zeros v next rest code j proc cons :
  j <= len_zero v code next ->
  let n := len_data v code in
  let r := dec_loop v false (next :: rest) code (n + j) proc [] cons in
  let rv := dec_loop v false (next :: rest) code n (proc + j) [] cons in
  lr rv = lr r /\ lout rv = zeros j ++ lout r /\ lcons rv = lcons r /\ lproc rv = lproc r /\
  lcode rv = lcode r /\ lpos rv = lpos r.
Proof.
  intros Hj n r rv. subst r rv. cbn [dec_loop]. fold n.
  destruct (Nat.ltb_spec (n + j) n); [lia|]. destruct (Nat.ltb_spec n n); [lia|].
  set (lz := len_zero v code next) in *.
  replace (n + lz - (n + j)) with (lz - j) by lia. replace (n + lz - n) with lz by lia.
  destruct (Nat.ltb_spec proc (lz - j)); destruct (Nat.ltb_spec (proc + j) lz); try lia.
  - cbn [lr lout lcons lproc lcode lpos app]. rewrite (Nat.add_comm proc j), zeros_app.
    repeat split; try reflexivity; lia.
  - destruct (bz next).
    + cbn [lr lout lcons lproc lcode lpos app].
      rewrite <- zeros_app. replace (j + (lz - j)) with lz by lia.
      repeat split; try reflexivity. lia.
    + replace (proc + j - lz + 1) with (proc - (lz - j) + 1) by lia.
      rewrite (dec_loop_out v false rest (bn next) 0 (proc - (lz - j) + 1) ([] ++ zeros lz) (S cons)).
      rewrite (dec_loop_out v false rest (bn next) 0 (proc - (lz - j) + 1) ([] ++ zeros (lz - j)) (S cons)).
      unfold add_out. cbn [lr lout lcons lproc lcode lpos app].
      rewrite app_assoc, <- zeros_app. replace (j + (lz - j)) with lz by lia.
      repeat split; reflexivity.
Qed.

(* ---------- the state between calls ---------- *)
Definition decoded (st : dstate) (buf : list byte) : list byte := firstn (dlen st) (skipn (dpos st) buf).

(* the open block of a suspended decoder: inside the data part ([hon]), or behind it with [j] of
   the zeros asked for by the next byte [next] already written (after MissingBuffer) *)
Definition honz (v : variant) (F dec : list byte) (code pos : nat) (unread : list byte) : Prop :=
  (pos <= len_data v code /\ hon v F dec code pos) \/
  (exists base j next rest', 1 <= j /\ pos = len_data v code + j /\ dec = base ++ zeros j /\
     unread = next :: rest' /\ j < len_zero v code next /\ hon v F base code (len_data v code)).

(* [F]: the bytes of the current frame consumed so far *)
Definition cinv (v : variant) (F : list byte) (st : dstate) (buf : list byte) : Prop :=
  dpos st + dlen st <= dcurr st /\ dcurr st <= length buf /\
  match dmsg st with
  | Some c => c = dlen st /\ dcode st = 0 /\ F = []
  | None => if dcode st =? 0 then dlen st = 0 /\ F = []
            else honz v F (decoded st buf) (dcode st) (dpos8 st) (skipn (dcurr st) buf)
  end.

(* what one call establishes; [used] = the input bytes it consumed *)
Definition call_post (v : variant) (F : list byte) (curr : nat) (buf : list byte)
           (r : dres) (st' : dstate) (buf' : list byte) : Prop :=
  let unread := skipn curr buf in
  match r with
  | DMsg => exists k body, k <= length unread /\ dcurr st' = curr + k /\
              length buf' = length buf /\ skipn (dcurr st') buf' = skipn (dcurr st') buf /\
              F ++ firstn k unread = body ++ [0%N] /\
              sdec v body = Some (decoded st' buf') /\ cinv v [] st' buf' /\ dmsg st' = Some (dlen st')
  | DMore => exists k, k <= length unread /\ dcurr st' = curr + k /\
              length buf' = length buf /\ skipn (dcurr st') buf' = skipn (dcurr st') buf /\
              cinv v (F ++ firstn k unread) st' buf' /\ dmsg st' = None
  | DErr MissingBuffer =>
            (* out of gap: the state stays valid; the caller makes room and calls again *)
            exists k, k <= length unread /\ dcurr st' = curr + k /\
              length buf' = length buf /\ skipn (dcurr st') buf' = skipn (dcurr st') buf /\
              cinv v (F ++ firstn k unread) st' buf' /\ dmsg st' = None
  | _ => True
  end.

(* additionally, for a zero inside a block (the tail-inline case of COBS/R) *)
Definition md_post (v : variant) (F : list byte) (curr : nat) (buf : list byte)
           (r : dres) (st' : dstate) (buf' : list byte) : Prop :=
  match r with
  | DErr MissingData => dcode st' <> 0 ->
      let unread := skipn curr buf in
      exists k, k < length unread /\ dcurr st' = curr + k /\
        length buf' = length buf /\ skipn (dcurr st') buf' = skipn (dcurr st') buf /\
        dpos st' + dlen st' <= dcurr st' /\ dmsg st' = None /\
        nth k unread 1%N = 0%N /\
        hon v (F ++ firstn k unread) (decoded st' buf') (dcode st') (dpos8 st') /\
        dpos8 st' < len_data v (dcode st')
  | _ => True
  end.

Lemma firstn_skipn_splice buf W d n : W + length d <= length buf -> n <= W ->
  firstn (W - n + length d) (skipn n (splice buf W d)) = firstn (W - n) (skipn n buf) ++ d.
Proof.
  intros Hl Hn. unfold splice.
  rewrite skipn_app, firstn_length. replace (Nat.min W (length buf)) with W by lia.
  replace (n - W) with 0 by lia. cbn [skipn].
  rewrite firstn_app. rewrite skipn_length, firstn_length.
  replace (Nat.min W (length buf) - n) with (W - n) by lia.
  replace (W - n + length d - (W - n)) with (length d) by lia.
  rewrite firstn_all2 by (rewrite skipn_length, firstn_length; lia).
  rewrite firstn_app, Nat.sub_diag. cbn [firstn]. rewrite app_nil_r, firstn_all.
  f_equal.
  (* skipn n (firstn W buf) = firstn (W-n) (skipn n buf) *)
  apply (nth_ext' _ _ 0%N).
  - rewrite skipn_length, !firstn_length, skipn_length. lia.
  - intros i Hi. rewrite skipn_length, firstn_length in Hi.
    rewrite nth_skipn'. rewrite nth_firstn' by lia. rewrite nth_firstn' by lia. rewrite nth_skipn'. reflexivity.
Qed.

Lemma hon_code_pos v F m code pos : hon v F m code pos -> 1 <= code /\ pos <= len_data v code.
Proof. intros (bs & d & _ & _ & _ & _ & Hp & H1 & _). split; assumption. Qed.

(* the block loop entered from a call: [pre] = the code byte the call read before the loop *)
Lemma loop_result_post v F buf done2 mlen proc2 pre inp3 code pos :
  let W := done2 + mlen in
  let curr := W + proc2 in
  curr <= length buf -> skipn curr buf = pre ++ inp3 -> length pre <= 1 ->
  hon v (F ++ pre) (firstn mlen (skipn done2 buf)) code pos ->
  let r := dec_loop v false inp3 code pos (proc2 + length pre) [] (length pre) in
  let mlen' := mlen + length (lout r) in
  let buf' := splice buf W (lout r) in
  let curr' := done2 + mlen' + lproc r in
  let '(res, st', b') := match lr r with
       | DMsg => (DMsg, mkd 0 0 curr' done2 mlen' (Some mlen'), buf')
       | other => (other, mkd (lcode r) (lpos r) curr' done2 mlen' None, buf')
       end in
  call_post v F curr buf res st' b' /\ md_post v F curr buf res st' b'.
Proof.
  intros W curr Hcur Hun Hpre Hhon r mlen' buf' curr'.
  set (c0 := length pre) in *. set (dec0 := firstn mlen (skipn done2 buf)) in *.
  pose proof (dec_loop_gap v false inp3 code pos (proc2 + c0) [] c0) as (added & Ho & G1 & G2 & G3).
  fold r in Ho, G1, G2, G3. cbn [app] in Ho. subst added.
  pose proof (dec_loop_honest v inp3 (F ++ pre) code pos (proc2 + c0) dec0 c0 Hhon) as Hh.
  rewrite (dec_loop_out v false inp3 code pos (proc2 + c0) dec0 c0) in Hh. fold r in Hh.
  unfold honest_post, add_out in Hh. cbn [lr lout lcons lproc lcode lpos] in Hh.
  destruct (hon_code_pos _ _ _ _ _ Hhon) as [Hc1 Hpl].
  pose proof (dec_loop_pos_le v inp3 code pos (proc2 + c0) [] c0 Hpl) as Hple. fold r in Hple. cbn zeta in Hple.
  assert (Hlu : length (skipn curr buf) = c0 + length inp3) by (rewrite Hun, app_length; reflexivity).
  assert (Hlb : length buf = curr + c0 + length inp3) by (rewrite skipn_length in Hlu; lia).
  set (k := lcons r) in *.
  assert (Hk : k <= length (skipn curr buf)) by lia.
  assert (Hcurr' : curr' = curr + k) by (unfold curr', mlen', curr, W; lia).
  assert (Hlen' : length buf' = length buf) by (unfold buf'; apply splice_length; unfold W, curr in *; lia).
  assert (Hsk' : skipn curr' buf' = skipn curr' buf)
    by (unfold buf'; apply splice_skipn; unfold curr', mlen', W, curr in *; lia).
  assert (Hused : F ++ firstn k (skipn curr buf) = (F ++ pre) ++ firstn (k - c0) inp3).
  { rewrite Hun, firstn_app. fold c0. rewrite (firstn_all2 pre) by (fold c0; lia). rewrite app_assoc. reflexivity. }
  assert (Hdec' : firstn mlen' (skipn done2 buf') = dec0 ++ lout r).
  { unfold buf', mlen'. replace mlen with (W - done2) at 1 by (unfold W; lia).
    rewrite firstn_skipn_splice by (unfold W, curr in *; lia).
    replace (W - done2) with mlen by (unfold W; lia). reflexivity. }
  destruct (lr r) as [| |e|] eqn:Elr.
  - (* message complete *)
    split; [|exact I]. destruct Hh as (body & Hb & Hs).
    exists k, body. split; [exact Hk|]. split; [exact Hcurr'|]. split; [exact Hlen'|]. split; [exact Hsk'|].
    split; [rewrite Hused; exact Hb|].
    unfold decoded. cbn [dlen dpos]. rewrite Hdec'. split; [exact Hs|].
    split; [|reflexivity].
    unfold cinv. cbn [dpos dlen dcurr dmsg dcode]. split; [unfold curr', mlen'; lia|]. split; [lia|]. auto.
  - (* more input needed *)
    split; [|exact I]. specialize (Hh (Hple eq_refl)).
    exists k. split; [exact Hk|]. split; [exact Hcurr'|]. split; [exact Hlen'|]. split; [exact Hsk'|].
    split; [|reflexivity].
    unfold cinv. cbn [dpos dlen dcurr dmsg dcode dpos8]. split; [unfold curr', mlen'; lia|]. split; [lia|].
    destruct (hon_code_pos _ _ _ _ _ Hh) as [Hc1' Hpl'].
    destruct (Nat.eqb_spec (lcode r) 0); [lia|].
    unfold decoded. cbn [dlen dpos]. rewrite Hdec', Hused. left. split; assumption.
  - destruct e; try (split; exact I).
    2:{ (* out of gap inside the zeros of a block *)
      split; [|exact I].
      pose proof (dec_loop_mb v inp3 (F ++ pre) code pos (proc2 + c0) dec0 c0 Hhon) as Hmb.
      rewrite (dec_loop_out v false inp3 code pos (proc2 + c0) dec0 c0) in Hmb. fold r in Hmb.
      unfold add_out in Hmb. cbn [lr lout lcons lproc lcode lpos] in Hmb. specialize (Hmb Elr).
      destruct Hmb as (base & j & next & rest' & Hhb & Hob & Hpb & Hprb & Hsb & Hjb). fold k in Hhb, Hsb.
      exists k. split; [exact Hk|]. split; [exact Hcurr'|]. split; [exact Hlen'|]. split; [exact Hsk'|].
      split; [|reflexivity].
      unfold cinv. cbn [dpos dlen dcurr dmsg dcode dpos8]. split; [unfold curr', mlen'; lia|]. split; [lia|].
      destruct (hon_code_pos _ _ _ _ _ Hhb) as [Hc1' _].
      destruct (Nat.eqb_spec (lcode r) 0); [lia|].
      unfold decoded. cbn [dlen dpos]. rewrite Hdec', Hused, Hob, Hpb.
      destruct (Nat.eq_dec j 0) as [->|Hj0].
      - left. cbn [zeros repeat]. rewrite app_nil_r, Nat.add_0_r. split; [lia|exact Hhb].
      - right. exists base, j, next, rest'. split; [lia|]. split; [reflexivity|]. split; [reflexivity|].
        split; [|split; assumption].
        rewrite Hsk', Hcurr'. replace (skipn (curr + k) buf) with (skipn k (skipn curr buf)) by apply skipn_skipn'.
        rewrite Hun. rewrite skipn_app. fold c0. rewrite (skipn_all2 pre) by (fold c0; lia). cbn [app]. exact Hsb. }
    split; [exact I|].
    intros _. destruct Hh as (Hh & Hlt & (rest & Hz)).
    assert (Hk2 : k - c0 < length inp3).
    { assert (length (skipn (k - c0) inp3) = S (length rest)) by (rewrite Hz; reflexivity).
      rewrite skipn_length in H. lia. }
    exists k. split; [lia|]. split; [exact Hcurr'|]. split; [exact Hlen'|]. split; [exact Hsk'|].
    cbn [dpos dlen dcurr dmsg dcode dpos8]. split; [unfold curr', mlen'; lia|]. split; [reflexivity|].
    split.
    + rewrite Hun, app_nth2 by (fold c0; lia). fold c0.
      rewrite <- (firstn_skipn (k - c0) inp3), app_nth2 by (rewrite firstn_length; lia).
      rewrite firstn_length. replace (k - c0 - Nat.min (k - c0) (length inp3)) with 0 by lia.
      rewrite Hz. reflexivity.
    + unfold decoded. cbn [dlen dpos]. rewrite Hdec', Hused. split; assumption.
  - split; exact I.
Qed.

(* ---------- one call of the decoder (not peeking) ---------- *)
Theorem dec_regular_honest v F st buf frags res : cinv v F st buf ->
  let '(r, st', buf') := dec_regular_res v st buf frags res false in
  call_post v F (dcurr st) buf r st' buf' /\ md_post v F (dcurr st) buf r st' buf'.
Proof.
  intros (G1 & G2 & Hm). unfold dec_regular_res. lazy beta iota zeta.
  set (dl := dpos st + dlen st) in *.
  destruct (Nat.ltb_spec (dcurr st) dl); [lia|]. destruct (Nat.ltb_spec (length buf) dl); [lia|]. cbn [orb].
  set (proc0 := dcurr st - dl).
  destruct (locate frags res dl) as [[rs off] rest].
  (* the two ways into the core: a fresh message (alignment, code byte) or a resumed one *)
  assert (Hfresh : forall st1, dcode st1 = 0 -> dlen st1 = 0 -> dmsg st1 = None -> dcurr st1 = dcurr st -> F = [] ->
    let '(r, st', buf') :=
      (let post := align_post (rs + off) rest proc0 in
       let st2 := mkd (dcode st1) (dpos8 st1) (dcurr st1) (dl + post) (dlen st1) (dmsg st1) in
       let done2 := dl + post in let proc2 := proc0 - post in
       if length buf <? done2 + 0 + proc2 then (DErr BadArgument, st2, buf)
       else match (if dcode st2 =? 0
                   then match firstn (length buf - (done2 + 0 + proc2)) (skipn (done2 + 0 + proc2) buf) with
                        | [] => None
                        | c :: rest0 => Some (bn c, 0, proc2 + 1, rest0, 1)
                        end
                   else Some (dcode st2, dpos8 st2, proc2,
                              firstn (length buf - (done2 + 0 + proc2)) (skipn (done2 + 0 + proc2) buf), 0)) with
            | None => (DMore, st2, buf)
            | Some (code, pos, proc, inp, c0) =>
              if code =? 0 then (DErr BadValue, mkd (dcode st2) (dpos8 st2) (done2 + 0 + proc) (dpos st2) (dlen st2) (dmsg st2), buf)
              else
                let r := dec_loop v false inp code pos proc [] c0 in
                let mlen' := 0 + length (lout r) in
                let buf' := splice buf (done2 + 0) (lout r) in
                let curr' := done2 + mlen' + lproc r in
                match lr r with
                | DMsg => (DMsg, mkd 0 0 curr' done2 mlen' (Some mlen'), buf')
                | other => (other, mkd (lcode r) (lpos r) curr' (dpos st2) mlen' (dmsg st2), buf')
                end
            end) in
    call_post v F (dcurr st) buf r st' buf' /\ md_post v F (dcurr st) buf r st' buf').
  { intros st1 Hc0 Hl0 Hm0 Hcu HF. subst F. cbn zeta.
    set (post := align_post (rs + off) rest proc0).
    pose proof (align_post_le (rs + off) rest proc0) as Hpost. fold post in Hpost.
    set (done2 := dl + post). set (proc2 := proc0 - post).
    assert (Hcurr : done2 + 0 + proc2 = dcurr st) by (unfold done2, proc2, proc0; lia).
    rewrite Hcurr. destruct (Nat.ltb_spec (length buf) (dcurr st)); [lia|].
    cbn [dcode dpos8 dpos dlen dmsg]. rewrite Hc0. cbn [Nat.eqb].
    rewrite firstn_all2 by (rewrite skipn_length; lia).
    destruct (skipn (dcurr st) buf) as [|c rest0] eqn:Eun.
    - (* nothing to read *)
      split; [|exact I]. exists 0. cbn [length firstn]. split; [lia|]. split; [cbn [dcurr]; lia|].
      split; [reflexivity|]. split; [reflexivity|]. split; [|cbn [dmsg]; exact Hm0].
      unfold cinv. cbn [dpos dlen dcurr dmsg dcode]. rewrite Hl0, Hm0, Hcu. cbn [Nat.eqb app].
      split; [unfold done2; unfold proc0 in Hpost; lia|]. split; [lia|]. auto.
    - destruct (Nat.eqb_spec (bn c) 0) as [Hz|Hnz]; [split; exact I|].
      pose proof (loop_result_post v [] buf done2 0 proc2 [c] rest0 (bn c) 0) as HL.
      lazy zeta in HL. rewrite Hcurr in HL. specialize (HL ltac:(lia) Eun ltac:(cbn; lia)).
      cbn [firstn app length] in HL.
      specialize (HL ltac:(rewrite <- (nb_bn c) at 1; apply hon_start; lia)).
      rewrite Hm0.
      destruct (lr (dec_loop v false rest0 (bn c) 0 (proc2 + 1) [] 1)); cbn [Nat.add] in HL |- *; exact HL. }
  destruct (dmsg st) as [c|] eqn:Em.
  - (* a delivered message is consumed first *)
    destruct Hm as (Hc & Hcode & HF). subst c. cbn [dcode dlen]. rewrite Nat.sub_diag, Hcode. cbn [Nat.eqb andb].
    apply (Hfresh (mkd 0 (dpos8 st) (dcurr st) (dpos st) 0 None)); try reflexivity; assumption.
  - destruct (Nat.eqb_spec (dcode st) 0) as [Hcode|Hcode].
    + destruct Hm as [Hl0 HF]. rewrite Hl0. cbn [Nat.eqb andb].
      apply (Hfresh (mkd (dcode st) (dpos8 st) (dcurr st) (dpos st) 0 (dmsg st))); cbn [dcode dlen dmsg dcurr];
        try assumption; reflexivity.
    + (* resumed inside a message *)
      rewrite andb_false_r.
      assert (Hcurr : dpos st + dlen st + proc0 = dcurr st) by (unfold proc0, dl; lia).
      rewrite Hcurr. destruct (Nat.ltb_spec (length buf) (dcurr st)); [lia|].
      destruct (Nat.eqb_spec (dcode st) 0); [contradiction|].
      rewrite firstn_all2 by (rewrite skipn_length; lia).
      destruct (Nat.eqb_spec (dcode st) 0); [contradiction|].
      rewrite Em.
      destruct Hm as [[Hple Hhon]|(base & j & next & rest' & Hj1 & Hpos & Hdec & Hun & Hjl & Hhb)].
      * pose proof (loop_result_post v F buf (dpos st) (dlen st) proc0 [] (skipn (dcurr st) buf) (dcode st) (dpos8 st)) as HL.
        lazy zeta in HL. rewrite Hcurr in HL. specialize (HL ltac:(lia) eq_refl ltac:(cbn; lia)).
        rewrite app_nil_r in HL. specialize (HL Hhon). cbn [length] in HL. rewrite Nat.add_0_r in HL.
        destruct (lr (dec_loop v false (skipn (dcurr st) buf) (dcode st) (dpos8 st) proc0 [] 0)); exact HL.
      * (* resumed behind the data part with j zeros already written: same as resuming before
           them with j more bytes of gap *)
        assert (Hdl : length (decoded st buf) = dlen st)
          by (unfold decoded; rewrite firstn_length, skipn_length; unfold dl in *; lia).
        assert (Hbl : dlen st = length base + j) by (rewrite <- Hdl, Hdec, app_length, zeros_length; reflexivity).
        assert (Hbase : firstn (dlen st - j) (skipn (dpos st) buf) = base).
        { replace (dlen st - j) with (length base) by lia.
          replace (firstn (length base) (skipn (dpos st) buf)) with (firstn (length base) (decoded st buf)).
          - rewrite Hdec. apply firstn_app_exact.
          - unfold decoded. rewrite firstn_firstn. f_equal. lia. }
        assert (Hz : firstn j (skipn (dpos st + dlen st - j) buf) = zeros j).
        { replace (firstn j (skipn (dpos st + dlen st - j) buf)) with (skipn (length base) (decoded st buf)).
          - rewrite Hdec. apply skipn_app_exact.
          - unfold decoded. apply (nth_ext' _ _ 0%N).
            + rewrite skipn_length, !firstn_length, !skipn_length. unfold dl in *. lia.
            + intros i Hi. rewrite skipn_length, firstn_length, skipn_length in Hi.
              rewrite nth_skipn', nth_firstn' by (unfold dl in *; lia).
              rewrite nth_firstn' by (unfold dl in *; lia). rewrite !nth_skipn'. f_equal. lia. }
        pose proof (loop_result_post v F buf (dpos st) (dlen st - j) (proc0 + j) [] (skipn (dcurr st) buf) (dcode st)
                      (len_data v (dcode st))) as HL.
        lazy zeta in HL.
        replace (dpos st + (dlen st - j) + (proc0 + j)) with (dcurr st) in HL by lia.
        specialize (HL ltac:(lia) eq_refl ltac:(cbn; lia)).
        rewrite app_nil_r, Hbase in HL. specialize (HL Hhb). cbn [length] in HL. rewrite Nat.add_0_r in HL.
        pose proof (dec_loop_partial_zeros v next rest' (dcode st) j proc0 0 ltac:(lia)) as Hpz. cbn zeta in Hpz.
        rewrite <- Hun, <- Hpos in Hpz.
        set (r := dec_loop v false (skipn (dcurr st) buf) (dcode st) (dpos8 st) proc0 [] 0) in *.
        set (rv := dec_loop v false (skipn (dcurr st) buf) (dcode st) (len_data v (dcode st)) (proc0 + j) [] 0) in *.
        destruct Hpz as (E1 & E2 & E3 & E4 & E5 & E6).
        assert (Ebuf : splice buf (dpos st + (dlen st - j)) (lout rv) = splice buf (dpos st + dlen st) (lout r)).
        { rewrite E2. unfold splice. rewrite app_length, zeros_length.
          replace (dpos st + (dlen st - j) + (j + length (lout r))) with (dpos st + dlen st + length (lout r)) by lia.
          rewrite !app_assoc. f_equal. f_equal.
          rewrite <- (firstn_skipn (dpos st + dlen st - j) (firstn (dpos st + dlen st) buf)).
          rewrite firstn_firstn. replace (Nat.min (dpos st + dlen st - j) (dpos st + dlen st)) with (dpos st + (dlen st - j)) by lia.
          f_equal. rewrite <- Hz.
          apply (nth_ext' _ _ 0%N).
          - rewrite skipn_length, !firstn_length, skipn_length. unfold dl in *. lia.
          - intros i Hi. rewrite firstn_length, skipn_length in Hi.
            rewrite nth_firstn' by lia. rewrite !nth_skipn'. rewrite nth_firstn' by (unfold dl in *; lia). reflexivity. }
        assert (Elen : dlen st - j + length (lout rv) = dlen st + length (lout r))
          by (rewrite E2, app_length, zeros_length; lia).
        rewrite E1, E4, E5, E6, Ebuf, Elen in HL.
        destruct (lr r); exact HL.
Qed.

Lemma firstn_S_nth {A} (l : list A) k d : k < length l -> firstn (S k) l = firstn k l ++ [nth k l d].
Proof.
  revert k; induction l as [|x l IH]; intros k Hk; [cbn in Hk; lia|].
  destruct k as [|k]; [reflexivity|]. cbn [firstn nth app]. f_equal. apply IH. cbn in Hk. lia.
Qed.

(* the complete decoder entry, COBS/R tail-inline wrapper included *)
Theorem dec_call_honest v F st buf frags res : cinv v F st buf ->
  let '(r, st', buf') := dec_call_res v st buf frags res false in
  call_post v F (dcurr st) buf r st' buf'.
Proof.
  intros Hc. unfold dec_call_res.
  pose proof (dec_regular_honest v F st buf frags res Hc) as Hr.
  destruct (dec_regular_res v st buf frags res false) as [[r0 st0] buf0]. destruct Hr as [Hcp Hmd].
  destruct (inl v) eqn:Hinl; [|exact Hcp].
  destruct r0 as [| |e|]; try exact Hcp. destruct e; try exact Hcp.
  destruct (Nat.eqb_spec (dcode st0) 0) as [|Hcode]; [exact Hcp|].
  destruct (Nat.leb_spec (length buf0) (dpos st0 + dlen st0)) as [Hno|Hroom].
  { (* cannot happen: the zero that stopped the loop is still unread behind the decoded bytes *)
    exfalso. pose proof (Hmd Hcode) as X. cbn zeta in X.
    destruct X as (k & Hk & Hcur & Hlen & _ & Hgeo & _). rewrite skipn_length in Hk. lia. }
  specialize (Hmd Hcode). cbn zeta in Hmd.
  destruct Hmd as (k & Hk & Hcur & Hlen & Hsk & Hgeo & Hmsg & Hz & Hh & Hlt).
  set (unread := skipn (dcurr st) buf) in *.
  unfold call_post. fold unread.
  exists (S k), (F ++ firstn k unread).
  split; [lia|]. split; [cbn [dcurr]; lia|].
  split; [rewrite splice_length by (cbn [length]; lia); exact Hlen|].
  split.
  { cbn [dcurr]. rewrite splice_skipn by (cbn [length]; lia).
    assert (E : forall l : list byte, skipn (S (dcurr st0)) l = skipn 1 (skipn (dcurr st0) l)).
    { intros l. rewrite skipn_skipn'. f_equal. lia. }
    rewrite (E buf0), (E buf), Hsk. reflexivity. }
  split.
  { rewrite (firstn_S_nth unread k 1%N Hk), Hz, app_assoc. reflexivity. }
  assert (Hdec : decoded (mkd 0 0 (S (dcurr st0)) (dpos st0) (S (dlen st0)) (Some (S (dlen st0))))
                         (splice buf0 (dpos st0 + dlen st0) [nb (dcode st0)]) = decoded st0 buf0 ++ [nb (dcode st0)]).
  { unfold decoded. cbn [dlen dpos].
    pose proof (firstn_skipn_splice buf0 (dpos st0 + dlen st0) [nb (dcode st0)] (dpos st0)
                  ltac:(cbn [length]; lia) ltac:(lia)) as E.
    replace (dpos st0 + dlen st0 - dpos st0) with (dlen st0) in E by lia. cbn [length] in E.
    replace (S (dlen st0)) with (dlen st0 + 1) by lia. exact E. }
  split; [rewrite Hdec; apply (hon_inline v _ _ _ _ Hinl Hh Hlt)|].
  split; [|reflexivity].
  unfold cinv. cbn [dpos dlen dcurr dmsg dcode]. split; [lia|].
  split; [rewrite splice_length by (cbn [length]; lia); unfold unread in Hk; rewrite skipn_length in Hk; lia|]. auto.
Qed.

(* the caller makes room: everything outside the decoded bytes and the unread input may be
   replaced (new prefix, new gap of any size) *)
Definition st_rebuf (st : dstate) (npre ngap : nat) : dstate :=
  mkd (dcode st) (dpos8 st) (npre + dlen st + ngap) npre (dlen st) (dmsg st).
Definition buf_rebuf (st : dstate) (buf pre gap : list byte) : list byte :=
  pre ++ decoded st buf ++ gap ++ skipn (dcurr st) buf.

(* ---------- histories of calls on a growing buffer ---------- *)
(* HCall: one decoder call (any fragment geometry / alignment residues); HFeed: the caller
   appends received bytes behind the unread input *)
Inductive hop := HCall (frags res : list nat) | HFeed (more : list byte) | HRebuf (pre gap : list byte).

Record hs := mkhs { hs_st : dstate; hs_buf : list byte; hs_msgs : list (list byte); hs_stop : bool }.

(* an error other than MissingBuffer ends the history: nothing is claimed about later calls;
   after MissingBuffer the caller provides room (HRebuf) and calls again *)
Definition hstep (v : variant) (s : hs) (o : hop) : hs :=
  if hs_stop s then s else
  match o with
  | HFeed more => mkhs (hs_st s) (hs_buf s ++ more) (hs_msgs s) false
  | HRebuf pre gap =>
    mkhs (st_rebuf (hs_st s) (length pre) (length gap)) (buf_rebuf (hs_st s) (hs_buf s) pre gap) (hs_msgs s) false
  | HCall frags res =>
    let '(r, st', buf') := dec_call_res v (hs_st s) (hs_buf s) frags res false in
    match r with
    | DMsg => mkhs st' buf' (hs_msgs s ++ [decoded st' buf']) false
    | DMore | DErr MissingBuffer => mkhs st' buf' (hs_msgs s) false
    | _ => mkhs st' buf' (hs_msgs s) true
    end
  end.

Definition hrun (v : variant) (s : hs) (ops : list hop) : hs := fold_left (hstep v) ops s.

Definition fed (o : hop) : list byte := match o with HFeed more => more | _ => [] end.

(* [I]: all input handed over so far (the unread bytes of the start state and everything fed) *)
Definition hinv (v : variant) (I : list byte) (s : hs) : Prop :=
  exists C F, frames_of v (hs_msgs s) C /\
    if hs_stop s then exists rest, I = C ++ rest
    else I = C ++ F ++ skipn (dcurr (hs_st s)) (hs_buf s) /\ cinv v F (hs_st s) (hs_buf s).

Lemma decoded_app st buf more : dpos st + dlen st <= length buf -> decoded st (buf ++ more) = decoded st buf.
Proof.
  intros H. unfold decoded. rewrite skipn_app, firstn_app, skipn_length.
  replace (dlen st - (length buf - dpos st)) with 0 by lia. cbn [firstn]. apply app_nil_r.
Qed.

Lemma cinv_feed v F st buf more : cinv v F st buf -> cinv v F st (buf ++ more).
Proof.
  intros (G1 & G2 & Hm). split; [assumption|]. split; [rewrite app_length; lia|].
  destruct (dmsg st); [assumption|]. destruct (dcode st =? 0); [assumption|].
  rewrite decoded_app by lia. rewrite skipn_app. replace (dcurr st - length buf) with 0 by lia. cbn [skipn].
  destruct Hm as [Hm|(base & j & next & rest' & H1 & H2 & H3 & H4 & H5 & H6)]; [left; assumption|].
  right. exists base, j, next, (rest' ++ more). rewrite H4. repeat split; assumption.
Qed.

Lemma cinv_rebuf v F st buf pre gap : cinv v F st buf ->
  cinv v F (st_rebuf st (length pre) (length gap)) (buf_rebuf st buf pre gap) /\
  skipn (dcurr (st_rebuf st (length pre) (length gap))) (buf_rebuf st buf pre gap) = skipn (dcurr st) buf.
Proof.
  intros (G1 & G2 & Hm).
  assert (Hdl : length (decoded st buf) = dlen st) by (unfold decoded; rewrite firstn_length, skipn_length; lia).
  assert (Hun : skipn (length pre + dlen st + length gap) (buf_rebuf st buf pre gap) = skipn (dcurr st) buf).
  { unfold buf_rebuf. rewrite !app_assoc. rewrite skipn_app.
    rewrite skipn_all2 by (rewrite !app_length; lia). rewrite !app_length, Hdl.
    replace (length pre + dlen st + length gap - (length pre + dlen st + length gap)) with 0 by lia. reflexivity. }
  assert (Hde : decoded (st_rebuf st (length pre) (length gap)) (buf_rebuf st buf pre gap) = decoded st buf).
  { unfold decoded at 1, st_rebuf, buf_rebuf. cbn [dlen dpos]. rewrite skipn_app, Nat.sub_diag, skipn_all. cbn [skipn app].
    rewrite firstn_app, Hdl, Nat.sub_diag. cbn [firstn]. rewrite app_nil_r. apply firstn_all2. lia. }
  split; [|exact Hun].
  unfold cinv. cbn [st_rebuf dpos dlen dcurr dmsg dcode dpos8]. split; [lia|].
  split; [unfold buf_rebuf; rewrite !app_length, Hdl; lia|].
  destruct (dmsg st); [assumption|]. destruct (dcode st =? 0); [assumption|].
  fold (st_rebuf st (length pre) (length gap)). rewrite Hde, Hun. assumption.
Qed.

Lemma hstep_inv v I s o : hinv v I s -> hinv v (I ++ fed o) (hstep v s o).
Proof.
  intros (C & F & Hf & Hs). unfold hstep. destruct (hs_stop s) eqn:Est.
  - exists C, F. split; [assumption|]. rewrite Est. destruct Hs as (rest & ->).
    exists (rest ++ fed o). rewrite app_assoc. reflexivity.
  - destruct Hs as [HI Hc]. destruct o as [frags res|more|pre gap]; cbn [fed].
    + rewrite app_nil_r.
      pose proof (dec_call_honest v F (hs_st s) (hs_buf s) frags res Hc) as Hp.
      destruct (dec_call_res v (hs_st s) (hs_buf s) frags res false) as [[r st'] buf'].
      set (unread := skipn (dcurr (hs_st s)) (hs_buf s)) in *.
      assert (Hsplit : forall k, k <= length unread -> dcurr st' = dcurr (hs_st s) + k ->
                skipn (dcurr st') buf' = skipn (dcurr st') (hs_buf s) ->
                unread = firstn k unread ++ skipn (dcurr st') buf').
      { intros k Hk Hcur Hsk. rewrite Hsk, Hcur.
        replace (skipn (dcurr (hs_st s) + k) (hs_buf s)) with (skipn k unread) by (unfold unread; apply skipn_skipn').
        symmetry. apply firstn_skipn. }
      assert (Hcont : (exists k, k <= length unread /\ dcurr st' = dcurr (hs_st s) + k /\
                         length buf' = length (hs_buf s) /\ skipn (dcurr st') buf' = skipn (dcurr st') (hs_buf s) /\
                         cinv v (F ++ firstn k unread) st' buf' /\ dmsg st' = None) ->
                      hinv v I (mkhs st' buf' (hs_msgs s) false)).
      { intros (k & Hk & Hcur & Hlen & Hsk & Hc' & _).
        exists C, (F ++ firstn k unread). cbn [hs_msgs hs_stop hs_st hs_buf].
        split; [assumption|]. split; [|assumption].
        rewrite HI, (Hsplit k Hk Hcur Hsk) at 1. rewrite <- !app_assoc. reflexivity. }
      destruct r as [| |e|]; unfold call_post in Hp; fold unread in Hp.
      * destruct Hp as (k & body & Hk & Hcur & Hlen & Hsk & Hb & Hsd & Hc' & Hm').
        exists (C ++ body ++ [0%N]), []. cbn [hs_msgs hs_stop hs_st hs_buf].
        split; [apply frames_of_snoc; [assumption|assumption|apply (sdec_nozero v body _ Hsd)]|].
        split; [|assumption]. cbn [app].
        rewrite HI, (Hsplit k Hk Hcur Hsk). rewrite (app_assoc F), Hb. rewrite <- !app_assoc. reflexivity.
      * apply Hcont. exact Hp.
      * destruct e; try (exists C, F; cbn [hs_msgs hs_stop]; split; [assumption|]; eexists; exact HI).
        apply Hcont. exact Hp.
      * exists C, F. cbn [hs_msgs hs_stop]. split; [assumption|]. eexists. exact HI.
    + exists C, F. cbn [hs_msgs hs_stop hs_st hs_buf]. split; [assumption|].
      destruct Hc as (G1 & G2 & Hm). split; [|apply cinv_feed; repeat split; assumption].
      rewrite skipn_app. replace (dcurr (hs_st s) - length (hs_buf s)) with 0 by lia. cbn [skipn].
      rewrite HI, <- !app_assoc. reflexivity.
    + rewrite app_nil_r. exists C, F. cbn [hs_msgs hs_stop hs_st hs_buf]. split; [assumption|].
      destruct (cinv_rebuf v F (hs_st s) (hs_buf s) pre gap Hc) as [Hc' Hun]. split; [|exact Hc'].
      rewrite Hun. exact HI.
Qed.

Theorem hrun_inv v : forall ops I s, hinv v I s -> hinv v (I ++ concat (map fed ops)) (hrun v s ops).
Proof.
  induction ops as [|o ops IH]; intros I s Hi; cbn [hrun fold_left map concat].
  - rewrite app_nil_r. exact Hi.
  - rewrite app_assoc. apply IH. apply hstep_inv. exact Hi.
Qed.

(* MAIN: start anywhere between messages (e.g. the initial state with any gap), make any calls
   with any fragment geometry, feed any bytes in any pieces in between: the messages delivered
   are, in order, the reference decodings of the successive frames at the front of the input *)
Theorem dec_history_delivers v st0 buf0 ops :
  cinv v [] st0 buf0 ->
  let s := hrun v (mkhs st0 buf0 [] false) ops in
  exists C rest, skipn (dcurr st0) buf0 ++ concat (map fed ops) = C ++ rest /\ frames_of v (hs_msgs s) C.
Proof.
  intros Hc s.
  assert (H0 : hinv v (skipn (dcurr st0) buf0) (mkhs st0 buf0 [] false)).
  { exists [], []. cbn [hs_msgs hs_stop hs_st hs_buf app]. split; [constructor|]. split; [reflexivity|assumption]. }
  pose proof (hrun_inv v ops _ _ H0) as (C & F & Hf & Hs). fold s in Hf, Hs.
  exists C. destruct (hs_stop s).
  - destruct Hs as (rest & HI). exists rest. split; assumption.
  - destruct Hs as [HI _]. eexists. split; [exact HI|assumption].
Qed.

Lemma cinv_init v gap buf : gap <= length buf -> cinv v [] (dinit gap) buf.
Proof. intros H. unfold cinv, dinit. cbn [dpos dlen dcurr dmsg dcode Nat.eqb]. repeat split; lia. Qed.

(* ---------- completeness at call level ---------- *)
Lemma align_post_lt16 off rest proc : align_post off rest proc <= 15.
Proof.
  unfold align_post.
  pose proof (Nat.mod_upper_bound off 16 ltac:(lia)). pose proof (Nat.mod_upper_bound off 8 ltac:(lia)).
  pose proof (Nat.mod_upper_bound off 4 ltac:(lia)). pose proof (Nat.mod_upper_bound off 2 ltac:(lia)).
  destruct ((8 <=? rest) && (off mod 16 <=? proc)); [lia|].
  destruct ((4 <=? rest) && (off mod 8 <=? proc)); [lia|].
  destruct ((2 <=? rest) && (off mod 4 <=? proc)); [lia|].
  destruct ((1 <=? rest) && (off mod 2 <=? proc)); lia.
Qed.

(* the result triple the call builds from a loop result *)
Definition call_result (buf : list byte) (done2 : nat) (r : lres) : dres * dstate * list byte :=
  match lr r with
  | DMsg => (DMsg, mkd 0 0 (done2 + (0 + length (lout r)) + lproc r) done2 (0 + length (lout r))
                       (Some (0 + length (lout r))), splice buf (done2 + 0) (lout r))
  | other => (other, mkd (lcode r) (lpos r) (done2 + (0 + length (lout r)) + lproc r) done2 (0 + length (lout r)) None,
              splice buf (done2 + 0) (lout r))
  end.

(* a call that starts a new message: which block loop it runs *)
Lemma dec_regular_fresh v st buf frags res c rest0 :
  dpos st + dlen st <= dcurr st -> dcurr st <= length buf -> dcode st = 0 ->
  (dmsg st = Some (dlen st) \/ (dmsg st = None /\ dlen st = 0)) ->
  skipn (dcurr st) buf = c :: rest0 -> bn c <> 0 ->
  exists post, post <= 15 /\ post <= dcurr st - (dpos st + dlen st) /\
    dec_regular_res v st buf frags res false =
    call_result buf (dpos st + dlen st + post)
      (dec_loop v false rest0 (bn c) 0 (dcurr st - (dpos st + dlen st) - post + 1) [] 1).
Proof.
  intros G1 G2 Hcode Hmsg Hun Hnz. unfold dec_regular_res, call_result. lazy beta iota zeta.
  set (dl := dpos st + dlen st) in *.
  destruct (Nat.ltb_spec (dcurr st) dl); [lia|]. destruct (Nat.ltb_spec (length buf) dl); [lia|]. cbn [orb].
  set (proc0 := dcurr st - dl).
  destruct (locate frags res dl) as [[rs off] rest].
  exists (align_post (rs + off) rest proc0).
  split; [apply align_post_lt16|]. split; [apply align_post_le|].
  set (post := align_post (rs + off) rest proc0).
  pose proof (align_post_le (rs + off) rest proc0) as Hpost. fold post in Hpost.
  assert (Hcurr : dl + post + 0 + (proc0 - post) = dcurr st) by (unfold proc0; lia).
  destruct Hmsg as [Hm|[Hm Hl0]]; rewrite Hm.
  - cbn [dcode dlen dpos8 dpos dmsg]. rewrite Nat.sub_diag, Hcode. cbn [Nat.eqb andb].
    rewrite Hcurr. destruct (Nat.ltb_spec (length buf) (dcurr st)); [lia|].
    rewrite firstn_all2 by (rewrite skipn_length; lia). rewrite Hun.
    cbn [dcode dpos8 dpos dlen dmsg Nat.eqb].
    destruct (Nat.eqb_spec (bn c) 0); [contradiction|]. reflexivity.
  - rewrite Hl0, Hcode. cbn [Nat.eqb andb dcode dlen dpos8 dpos dmsg].
    rewrite Hcurr. destruct (Nat.ltb_spec (length buf) (dcurr st)); [lia|].
    rewrite firstn_all2 by (rewrite skipn_length; lia). rewrite Hun.
    cbn [dcode dpos8 dpos dlen dmsg Nat.eqb]. rewrite ?Hcode. cbn [Nat.eqb].
    destruct (Nat.eqb_spec (bn c) 0); [contradiction|]. rewrite ?Hm. reflexivity.
Qed.

Lemma nozero_split_unique : forall (b1 b2 t1 t2 : list byte),
  nozero b1 = true -> nozero b2 = true -> b1 ++ 0%N :: t1 = b2 ++ 0%N :: t2 -> b1 = b2 /\ t1 = t2.
Proof.
  induction b1 as [|x b1 IH]; intros b2 t1 t2 H1 H2 E.
  - destruct b2 as [|y b2]; [cbn in E; inversion E; auto|].
    cbn [app] in E. inversion E; subst. rewrite nozero_cons in H2. cbn in H2. discriminate.
  - destruct b2 as [|y b2].
    + cbn [app] in E. inversion E; subst. rewrite nozero_cons in H1. cbn in H1. discriminate.
    + cbn [app] in E. inversion E; subst. rewrite nozero_cons in H1, H2.
      apply andb_prop in H1. apply andb_prop in H2.
      destruct (IH b2 t1 t2 (proj2 H1) (proj2 H2) H3) as [-> ->]. auto.
Qed.

(* COMPLETENESS of one call: the decoder is between messages, the unread input starts with a
   frame the reference decoder accepts, and the gap exceeds the frame length by 16 (alignment
   may skip up to 15 bytes): the call delivers exactly that message and consumes exactly the
   frame, whatever follows it, for every fragment geometry *)
Theorem dec_call_complete v st buf frags res body m tl :
  dpos st + dlen st <= dcurr st -> dcurr st <= length buf -> dcode st = 0 ->
  (dmsg st = Some (dlen st) \/ (dmsg st = None /\ dlen st = 0)) ->
  skipn (dcurr st) buf = body ++ 0%N :: tl -> sdec v body = Some m ->
  length body + 16 <= dcurr st - (dpos st + dlen st) ->
  let '(r, st', buf') := dec_call_res v st buf frags res false in
  r = DMsg /\ decoded st' buf' = m /\ dmsg st' = Some (length m) /\
  dcurr st' = dcurr st + length body + 1 /\ skipn (dcurr st') buf' = tl.
Proof.
  intros G1 G2 Hcode Hmsg Hun Hs Hgap.
  assert (Hc : cinv v [] st buf).
  { unfold cinv. split; [assumption|]. split; [assumption|].
    destruct Hmsg as [Hm|[Hm Hl]]; rewrite Hm; [auto|]. rewrite Hcode. cbn [Nat.eqb]. auto. }
  pose proof (sdec_nozero v body m Hs) as Hnz.
  destruct body as [|c0 rest]; [cbv in Hs; discriminate|].
  rewrite nozero_cons in Hnz. apply andb_prop in Hnz. destruct Hnz as [Hc0 Hnzr].
  apply Bool.negb_true_iff in Hc0. pose proof (bn_pos c0 Hc0) as Hbn.
  cbn [app] in Hun.
  destruct (dec_regular_fresh v st buf frags res c0 (rest ++ 0%N :: tl) G1 G2 Hcode Hmsg Hun ltac:(lia))
    as (post & Hp15 & Hpp & Heq).
  pose proof (dec_complete_sdec v (c0 :: rest) m c0 rest tl
                (dcurr st - (dpos st + dlen st) - post + 1) 1 Hs eq_refl ltac:(cbn [length] in *; lia)) as Hdel.
  pose proof (dec_regular_honest v [] st buf frags res Hc) as Hreg.
  pose proof (dec_call_honest v [] st buf frags res Hc) as Hcall.
  unfold dec_call_res in *. rewrite Heq in *. unfold call_result in *.
  set (r := dec_loop v false (rest ++ 0%N :: tl) (bn c0) 0 (dcurr st - (dpos st + dlen st) - post + 1) [] 1) in *.
  assert (Hfinal : forall st' buf', call_post v [] (dcurr st) buf DMsg st' buf' ->
            decoded st' buf' = m /\ dmsg st' = Some (length m) /\
            dcurr st' = dcurr st + length (c0 :: rest) + 1 /\ skipn (dcurr st') buf' = tl).
  { intros st' buf' (k & body' & Hk & Hcur & Hlen & Hsk & Hb & Hsd & Hc' & Hm').
    cbn [app] in Hb. rewrite Hun in *.
    assert (E : (c0 :: rest) ++ 0%N :: tl = body' ++ 0%N :: skipn k (c0 :: rest ++ 0%N :: tl)).
    { pose proof (firstn_skipn k (c0 :: rest ++ 0%N :: tl)) as E0. rewrite Hb, <- app_assoc in E0.
      symmetry. exact E0. }
    destruct (nozero_split_unique _ _ _ _ ltac:(rewrite nozero_cons, Hc0, Hnzr; reflexivity)
                (sdec_nozero v body' _ Hsd) E) as [Eb Et].
    subst body'. rewrite Hs in Hsd. inversion Hsd as [Hd]. split; [reflexivity|].
    assert (Hk' : k = length (c0 :: rest) + 1).
    { apply (f_equal (@length _)) in Hb. rewrite firstn_length, app_length in Hb. cbn [length] in *. lia. }
    destruct Hc' as (Gc1 & Gc2 & _).
    split.
    - rewrite Hm'. f_equal. unfold decoded. rewrite firstn_length, skipn_length. lia.
    - split; [lia|]. rewrite Hsk, Hcur. rewrite <- skipn_skipn'. rewrite Hun. symmetry. exact Et. }
  destruct Hdel as [[Hlr Hout]|(Hinl & Hlr & Hout & Hlt)].
  - rewrite Hlr in *. destruct (inl v); (split; [reflexivity|]); apply Hfinal; exact Hcall.
  - rewrite Hlr, Hinl in *. cbn [dcode dpos dlen dcurr] in *.
    assert (Hcn : lcode r <> 0).
    { intros E0. rewrite E0 in Hlt. unfold len_data in Hlt. destruct (zpe v); [destruct (0 <=? maxlen v)|]; cbn in Hlt; lia. }
    destruct (Nat.eqb_spec (lcode r) 0); [contradiction|].
    destruct Hreg as [_ Hmd]. cbn [md_post dcode] in Hmd. specialize (Hmd Hcn). cbn zeta in Hmd.
    destruct Hmd as (k & Hk & Hcur & Hlen & _ & Hgeo & _). cbn [dcurr dpos dlen] in *.
    rewrite skipn_length in Hk.
    destruct (Nat.leb_spec (length (splice buf (dpos st + dlen st + post + 0) (lout r)))
                           (dpos st + dlen st + post + (0 + length (lout r)))) as [Hno|_]; [lia|].
    split; [reflexivity|]. apply Hfinal. exact Hcall.
Qed.

(* ---------- liveness for a reader that provides space ---------- *)
(* between messages the caller makes room (gap = unread length + 16, any prefix) and calls once *)
Definition spaced_step (v : variant) (s : hs) (pre : list byte) (frags res : list nat) : hs :=
  let gap := repeat 0%N (length (skipn (dcurr (hs_st s)) (hs_buf s)) + 16) in
  hstep v (hstep v s (HRebuf pre gap)) (HCall frags res).

Definition idle_between (v : variant) (s : hs) : Prop :=
  hs_stop s = false /\ cinv v [] (hs_st s) (hs_buf s) /\ dcode (hs_st s) = 0.

Lemma spaced_step_delivers v s pre frags res body m tl :
  idle_between v s -> skipn (dcurr (hs_st s)) (hs_buf s) = body ++ 0%N :: tl -> sdec v body = Some m ->
  let s' := spaced_step v s pre frags res in
  idle_between v s' /\ hs_msgs s' = hs_msgs s ++ [m] /\ skipn (dcurr (hs_st s')) (hs_buf s') = tl.
Proof.
  intros (Hstop & Hc & Hcode) Hun Hs. unfold spaced_step. cbn zeta.
  set (gap := repeat 0%N (length (skipn (dcurr (hs_st s)) (hs_buf s)) + 16)).
  destruct (cinv_rebuf v [] (hs_st s) (hs_buf s) pre gap Hc) as [Hc1 Hun1].
  set (st1 := st_rebuf (hs_st s) (length pre) (length gap)) in *.
  set (buf1 := buf_rebuf (hs_st s) (hs_buf s) pre gap) in *.
  assert (E1 : hstep v s (HRebuf pre gap) = mkhs st1 buf1 (hs_msgs s) false)
    by (unfold hstep; rewrite Hstop; reflexivity).
  rewrite E1. unfold hstep. cbn [hs_stop hs_st hs_buf hs_msgs].
  assert (Hgl : length gap = length (skipn (dcurr (hs_st s)) (hs_buf s)) + 16) by (unfold gap; apply repeat_length).
  pose proof Hc1 as (G1 & G2 & Hm1).
  assert (Hidle1 : dmsg st1 = Some (dlen st1) \/ (dmsg st1 = None /\ dlen st1 = 0)).
  { unfold st1, st_rebuf. cbn [dmsg dlen]. destruct Hc as (_ & _ & Hm). destruct (dmsg (hs_st s)) as [c|].
    - destruct Hm as (-> & _ & _). left. reflexivity.
    - rewrite Hcode in Hm. cbn [Nat.eqb] in Hm. right. split; [reflexivity|apply Hm]. }
  pose proof (dec_call_complete v st1 buf1 frags res body m tl G1 G2
                ltac:(unfold st1, st_rebuf; cbn [dcode]; exact Hcode) Hidle1
                ltac:(rewrite Hun1; exact Hun) Hs
                ltac:(unfold st1, st_rebuf; cbn [dcurr dpos dlen]; rewrite Hgl, Hun, app_length; cbn [length]; lia)) as Hcomp.
  pose proof (dec_call_honest v [] st1 buf1 frags res Hc1) as Hhon.
  destruct (dec_call_res v st1 buf1 frags res false) as [[r st2] buf2].
  destruct Hcomp as (-> & Hdec & Hmsg & Hcur & Hun2).
  destruct Hhon as (k & body' & _ & _ & _ & _ & _ & _ & Hc2 & Hm2).
  cbn [hs_stop hs_st hs_buf hs_msgs]. split; [|split; [rewrite Hdec; reflexivity|exact Hun2]].
  split; [reflexivity|]. split; [exact Hc2|].
  destruct Hc2 as (_ & _ & Hx). rewrite Hm2 in Hx. apply Hx.
Qed.

(* every complete frame at the front of the unread input is delivered, one per step *)
Theorem spaced_reader_delivers v : forall ms W, frames_of v ms W ->
  forall s tl (steps : list (list byte * list nat * list nat)),
    idle_between v s -> skipn (dcurr (hs_st s)) (hs_buf s) = W ++ tl -> length steps = length ms ->
    let s' := fold_left (fun s x => spaced_step v s (fst (fst x)) (snd (fst x)) (snd x)) steps s in
    idle_between v s' /\ hs_msgs s' = hs_msgs s ++ ms /\ skipn (dcurr (hs_st s')) (hs_buf s') = tl.
Proof.
  induction 1 as [|m ms body rest Hs Hz Hf IH]; intros s tl steps Hi Hun Hl.
  - destruct steps; [|discriminate]. cbn [fold_left]. rewrite app_nil_r. cbn [app] in Hun. auto.
  - destruct steps as [|[[pre frags] res] steps]; [discriminate|]. cbn [fold_left fst snd].
    destruct (spaced_step_delivers v s pre frags res body m (rest ++ tl) Hi
                ltac:(rewrite Hun, <- !app_assoc; reflexivity) Hs) as (Hi1 & Hm1 & Hu1).
    cbn [length] in Hl.
    destruct (IH (spaced_step v s pre frags res) tl steps Hi1 Hu1 ltac:(lia)) as (Hi2 & Hm2 & Hu2).
    cbn zeta in *. split; [exact Hi2|]. split; [|exact Hu2].
    rewrite Hm2, Hm1, <- app_assoc. reflexivity.
Qed.
