(* Cobs/TextHistory.v — the command (zero-terminated text) decoder over histories of calls on a
   growing buffer: whatever the bytes and however they arrive, the messages delivered are, in
   order, header ++ text for the successive zero-terminated texts at the front of the input. *)
From MptV Require Import Base.Mem Base.Tactics Cobs.CobsModel Cobs.DecModel Cobs.EncProofs Cobs.DecProofs Cobs.DecCall Cobs.TextModel Cobs.TextProofs.
Local Open Scope nat_scope.

Lemma find_zero_some : forall l k z, find_zero l k = Some z ->
  exists m tl, l = m ++ 0%N :: tl /\ nozero m = true /\ z = k + length m.
Proof.
  induction l as [|b l IH]; intros k z H; [discriminate|].
  cbn [find_zero] in H. destruct (bz b) eqn:Hb.
  - inversion H; subst. exists [], l. cbn. split; [f_equal; apply N.eqb_eq; exact Hb|]. split; [reflexivity|lia].
  - destruct (IH _ _ H) as (m & tl & -> & Hz & ->). exists (b :: m), tl.
    split; [reflexivity|]. split; [rewrite nozero_cons, Hb, Hz; reflexivity|cbn [length]; lia].
Qed.

Lemma find_zero_none : forall l k, find_zero l k = None -> nozero l = true.
Proof.
  induction l as [|b l IH]; intros k H; [reflexivity|].
  cbn [find_zero] in H. destruct (bz b) eqn:Hb; [discriminate|].
  rewrite nozero_cons, Hb. cbn. apply (IH _ H).
Qed.

(* [G]: the text bytes of the open message consumed so far *)
Definition tinv (G : list byte) (st : cstate_t) (buf : list byte) : Prop :=
  tcurr st <= length buf /\
  ((( tmsg st = Some (tlen st) \/ (tmsg st = None /\ tlen st = 0)) /\ G = []) \/
   (tmsg st = None /\ tlen st = 2 + length G /\ tcurr st = tpos st + tlen st /\ nozero G = true /\
    firstn (tlen st) (skipn (tpos st) buf) = cmd_header ++ G)).

Definition tdecoded (st : cstate_t) (buf : list byte) : list byte := firstn (tlen st) (skipn (tpos st) buf).

(* one call: what it consumed and what it left *)
Definition tcall_post (G : list byte) (curr : nat) (buf : list byte) (r : tres) (st' : cstate_t) (buf' : list byte) : Prop :=
  let unread := skipn curr buf in
  match r with
  | TMsg => exists body tl, unread = body ++ 0%N :: tl /\ nozero body = true /\
              tdecoded st' buf' = cmd_header ++ G ++ body /\ tmsg st' = Some (tlen st') /\
              skipn (tcurr st') buf' = tl /\ tinv [] st' buf'
  | TMore => nozero unread = true /\ skipn (tcurr st') buf' = [] /\ tinv (G ++ unread) st' buf'
  | TErr _ => st' = (* unchanged *) st' /\ buf' = buf
  end.

Lemma header_splice_skipn (buf : list byte) pos : 2 <= pos -> pos <= length buf ->
  skipn pos (firstn (pos - 2) buf ++ cmd_header ++ skipn pos buf) = skipn pos buf.
Proof.
  intros H2 HL. rewrite app_assoc.
  replace pos with (length (firstn (pos - 2) buf ++ cmd_header)) at 1
    by (rewrite app_length, firstn_length; cbn [cmd_header length]; lia).
  apply skipn_app_exact.
Qed.

Lemma header_splice_decoded (buf : list byte) pos n : 2 <= pos -> pos <= length buf ->
  firstn (2 + n) (skipn (pos - 2) (firstn (pos - 2) buf ++ cmd_header ++ skipn pos buf)) =
  cmd_header ++ firstn n (skipn pos buf).
Proof.
  intros H2 HL.
  replace (pos - 2) with (length (firstn (pos - 2) buf)) at 1 by (rewrite firstn_length; lia).
  rewrite skipn_app_exact. cbn [cmd_header app firstn Nat.add]. reflexivity.
Qed.

Theorem cmd_call_honest G st buf : tinv G st buf ->
  let '(r, st', buf') := cmd_call st buf in
  match r with TErr _ => st' = st /\ buf' = buf | _ => tcall_post G (tcurr st) buf r st' buf' end.
Proof.
  intros [HL Hcase]. unfold cmd_call.
  set (len := match tmsg st with Some c => tlen st - c | None => tlen st end).
  destruct Hcase as [[Hidle HG]|(Hm & Hl & Hc & Hz & Hd)].
  - (* between messages *)
    assert (Hlen : len = 0) by (unfold len; destruct Hidle as [->|[-> ->]]; lia).
    rewrite Hlen. cbn [Nat.eqb]. subst G.
    destruct (Nat.ltb_spec (tcurr st) 2) as [|H2]; [auto|].
    destruct (Nat.ltb_spec (length buf) (tcurr st - 2)); [auto|].
    destruct (Nat.ltb_spec (length buf) (tcurr st)); [lia|].
    set (pos := tcurr st) in *.
    set (buf' := firstn (pos - 2) buf ++ cmd_header ++ skipn pos buf).
    assert (Hsk : skipn pos buf' = skipn pos buf) by (apply header_splice_skipn; assumption).
    assert (Hlb : length buf' = length buf).
    { unfold buf'. rewrite !app_length, firstn_length, skipn_length. cbn [cmd_header length]. lia. }
    rewrite Hsk.
    destruct (find_zero (skipn pos buf) pos) as [z|] eqn:Ez.
    + destruct (find_zero_some _ _ _ Ez) as (body & tl & Hun & Hbz & ->).
      unfold tcall_post. exists body, tl. split; [exact Hun|]. split; [exact Hbz|].
      assert (Hpl : pos + length body < length buf).
      { apply (f_equal (@length _)) in Hun. rewrite skipn_length, app_length in Hun. cbn [length] in Hun. lia. }
      unfold tdecoded. cbn [tlen tpos tmsg tcurr].
      replace (pos + length body - (pos - 2)) with (2 + length body) by lia.
      split.
      { unfold buf'. rewrite header_splice_decoded by assumption. rewrite Hun. cbn [app]. rewrite firstn_app_exact. reflexivity. }
      split; [reflexivity|]. split.
      { replace (S (pos + length body)) with (pos + S (length body)) by lia.
        rewrite <- skipn_skipn', Hsk, Hun.
        replace (S (length body)) with (length (body ++ [0%N])) by (rewrite app_length; cbn; lia).
        replace (body ++ 0%N :: tl) with ((body ++ [0%N]) ++ tl) by (rewrite <- app_assoc; reflexivity).
        apply skipn_app_exact. }
      split; [cbn [tcurr]; lia|]. left. cbn [tmsg tlen]. auto.
    + pose proof (find_zero_none _ _ Ez) as Hnz.
      unfold tcall_post. split; [exact Hnz|]. cbn [tcurr tpos tlen tmsg].
      split; [rewrite skipn_all2 by lia; reflexivity|].
      split; [cbn [tcurr]; lia|]. right. cbn [tmsg tlen tpos tcurr app].
      assert (Hul : length (skipn pos buf) = length buf - pos) by apply skipn_length.
      split; [reflexivity|]. split; [lia|]. split; [lia|]. split; [exact Hnz|].
      replace (length buf - (pos - 2)) with (2 + (length buf - pos)) by lia.
      unfold buf'. rewrite header_splice_decoded by assumption.
      rewrite firstn_all2 by lia. reflexivity.
  - (* inside a message *)
    assert (Hlen : len = tlen st) by (unfold len; rewrite Hm; reflexivity).
    rewrite Hlen. destruct (Nat.eqb_spec (tlen st) 0); [lia|].
    destruct (Nat.eqb_spec (tcurr st) (tpos st + tlen st)); [|contradiction]. cbn [negb].
    destruct (Nat.ltb_spec (length buf) (tcurr st)); [lia|].
    set (pos := tcurr st) in *.
    destruct (find_zero (skipn pos buf) pos) as [z|] eqn:Ez.
    + destruct (find_zero_some _ _ _ Ez) as (body & tl & Hun & Hbz & ->).
      assert (Hpl : pos + length body < length buf).
      { apply (f_equal (@length _)) in Hun. rewrite skipn_length, app_length in Hun. cbn [length] in Hun. lia. }
      unfold tcall_post. exists body, tl. split; [exact Hun|]. split; [exact Hbz|].
      unfold tdecoded. cbn [tlen tpos tmsg tcurr].
      split.
      { replace (pos + length body - tpos st) with (tlen st + length body) by lia.
        rewrite <- (firstn_skipn (tlen st) (skipn (tpos st) buf)) at 1.
        rewrite firstn_app, firstn_length, skipn_length.
        replace (Nat.min (tlen st) (length buf - tpos st)) with (tlen st) by lia.
        rewrite firstn_all2 by (rewrite firstn_length, skipn_length; lia).
        replace (tlen st + length body - tlen st) with (length body) by lia.
        rewrite Hd, skipn_skipn'. replace (tpos st + tlen st) with pos by lia. rewrite Hun.
        rewrite firstn_app_exact, <- app_assoc. reflexivity. }
      split; [reflexivity|]. split.
      { replace (S (pos + length body)) with (pos + S (length body)) by lia.
        rewrite <- skipn_skipn', Hun.
        replace (S (length body)) with (length (body ++ [0%N])) by (rewrite app_length; cbn; lia).
        replace (body ++ 0%N :: tl) with ((body ++ [0%N]) ++ tl) by (rewrite <- app_assoc; reflexivity).
        apply skipn_app_exact. }
      split; [cbn [tcurr]; lia|]. left. cbn [tmsg tlen]. auto.
    + pose proof (find_zero_none _ _ Ez) as Hnz.
      unfold tcall_post. split; [exact Hnz|]. cbn [tcurr tpos tlen tmsg].
      split; [rewrite skipn_all2 by lia; reflexivity|].
      split; [cbn [tcurr]; lia|]. right. cbn [tmsg tlen tpos tcurr].
      assert (Hul : length (skipn pos buf) = length buf - pos) by apply skipn_length.
      split; [exact Hm|]. split; [rewrite app_length; lia|]. split; [lia|].
      split; [rewrite nozero_app, Hz, Hnz; reflexivity|].
      replace (length buf - tpos st) with (tlen st + (length buf - pos)) by lia.
      rewrite <- (firstn_skipn (tlen st) (skipn (tpos st) buf)) at 1.
      rewrite firstn_app, firstn_length, skipn_length.
      replace (Nat.min (tlen st) (length buf - tpos st)) with (tlen st) by lia.
      rewrite firstn_all2 by (rewrite firstn_length, skipn_length; lia).
      replace (tlen st + (length buf - pos) - tlen st) with (length buf - pos) by lia.
      rewrite Hd, skipn_skipn'. replace (tpos st + tlen st) with pos by lia.
      rewrite firstn_all2 by lia. rewrite <- app_assoc. reflexivity.
Qed.

(* ---------- histories ---------- *)
Inductive top := TCall | TFeed (more : list byte).

Record ths := mkths { ts_st : cstate_t; ts_buf : list byte; ts_msgs : list (list byte) }.

(* an error leaves state and buffer unchanged (the caller may provide space or data and retry) *)
Definition tstep (s : ths) (o : top) : ths :=
  match o with
  | TFeed more => mkths (ts_st s) (ts_buf s ++ more) (ts_msgs s)
  | TCall =>
    let '(r, st', buf') := cmd_call (ts_st s) (ts_buf s) in
    match r with
    | TMsg => mkths st' buf' (ts_msgs s ++ [tdecoded st' buf'])
    | _ => mkths st' buf' (ts_msgs s)
    end
  end.

Definition trun (s : ths) (ops : list top) : ths := fold_left tstep ops s.
Definition tfed (o : top) : list byte := match o with TFeed m => m | TCall => [] end.

(* the zero-terminated texts at the front of a stream *)
Inductive texts_of : list (list byte) -> list byte -> Prop :=
| TO_nil : texts_of [] []
| TO_snoc bodies C body : texts_of bodies C -> nozero body = true -> texts_of (bodies ++ [body]) (C ++ body ++ [0%N]).

Definition thinv (I : list byte) (s : ths) : Prop :=
  exists bodies C G, texts_of bodies C /\ ts_msgs s = map (app cmd_header) bodies /\
    I = C ++ G ++ skipn (tcurr (ts_st s)) (ts_buf s) /\ tinv G (ts_st s) (ts_buf s).

Lemma tinv_feed G st buf more : tinv G st buf -> tinv G st (buf ++ more).
Proof.
  intros [HL Hc]. split; [rewrite app_length; lia|].
  destruct Hc as [Hc|(Hm & Hl & Hcu & Hz & Hd)]; [left; exact Hc|right].
  split; [assumption|]. split; [assumption|]. split; [assumption|]. split; [assumption|].
  rewrite skipn_app, firstn_app, skipn_length.
  replace (tlen st - (length buf - tpos st)) with 0 by lia. cbn [firstn]. rewrite app_nil_r. exact Hd.
Qed.

Lemma tstep_inv I s o : thinv I s -> thinv (I ++ tfed o) (tstep s o).
Proof.
  intros (bodies & C & G & Ht & Hm & HI & Hinv). destruct o as [|more]; cbn [tstep tfed].
  - rewrite app_nil_r.
    pose proof (cmd_call_honest G (ts_st s) (ts_buf s) Hinv) as Hp.
    destruct (cmd_call (ts_st s) (ts_buf s)) as [[r st'] buf'].
    destruct r as [| |e].
    + destruct Hp as (body & tl & Hun & Hbz & Hdec & _ & Hsk & Hinv').
      exists (bodies ++ [G ++ body]), (C ++ (G ++ body) ++ [0%N]), []. cbn [ts_msgs ts_st ts_buf].
      assert (HzG : nozero G = true).
      { destruct Hinv as [_ [[_ ->]|(_ & _ & _ & Hz & _)]]; [reflexivity|assumption]. }
      split; [constructor; [assumption|rewrite nozero_app, HzG, Hbz; reflexivity]|].
      split; [rewrite map_app, Hm, Hdec; cbn [map]; reflexivity|].
      split; [|assumption].
      rewrite HI, Hun, Hsk. cbn [app]. rewrite <- !app_assoc. reflexivity.
    + destruct Hp as (Hnz & Hsk & Hinv').
      exists bodies, C, (G ++ skipn (tcurr (ts_st s)) (ts_buf s)). cbn [ts_msgs ts_st ts_buf].
      split; [assumption|]. split; [assumption|]. split; [|assumption].
      rewrite HI, Hsk, app_nil_r. reflexivity.
    + destruct Hp as [-> ->]. exists bodies, C, G. cbn [ts_msgs ts_st ts_buf].
      split; [assumption|]. split; [assumption|]. split; assumption.
  - exists bodies, C, G. cbn [ts_msgs ts_st ts_buf]. split; [assumption|]. split; [assumption|].
    destruct Hinv as [HL Hc]. split; [|apply tinv_feed; split; assumption].
    rewrite skipn_app. replace (tcurr (ts_st s) - length (ts_buf s)) with 0 by lia. cbn [skipn].
    rewrite HI, <- !app_assoc. reflexivity.
Qed.

Theorem trun_inv : forall ops I s, thinv I s -> thinv (I ++ concat (map tfed ops)) (trun s ops).
Proof.
  induction ops as [|o ops IH]; intros I s Hi; cbn [trun fold_left map concat].
  - rewrite app_nil_r. exact Hi.
  - rewrite app_assoc. apply IH. apply tstep_inv. exact Hi.
Qed.

(* MAIN: start with at least two bytes of space in front of the input, make any calls, feed any
   bytes in any pieces: the messages delivered are header ++ text for the successive
   zero-terminated texts at the front of the input, in order *)
Theorem cmd_history_delivers slack inp ops : 2 <= length slack ->
  let s := trun (mkths (mkt (length slack) 0 0 None) (slack ++ inp) []) ops in
  exists bodies C rest, inp ++ concat (map tfed ops) = C ++ rest /\ texts_of bodies C /\
    ts_msgs s = map (app cmd_header) bodies.
Proof.
  intros Hs s.
  assert (H0 : thinv inp (mkths (mkt (length slack) 0 0 None) (slack ++ inp) [])).
  { exists [], [], []. cbn [ts_msgs ts_st ts_buf tcurr app map]. split; [constructor|]. split; [reflexivity|].
    split; [rewrite skipn_app_exact; reflexivity|].
    split; [cbn [tcurr]; rewrite app_length; lia|]. left. cbn [tmsg tlen]. auto. }
  destruct (trun_inv ops _ _ H0) as (bodies & C & G & Ht & Hm & HI & _). fold s in Hm, HI.
  exists bodies, C. eexists. split; [exact HI|]. split; assumption.
Qed.
