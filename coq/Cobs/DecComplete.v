(* Cobs/DecComplete.v — every frame the reference decoder accepts is a list of well-formed
   blocks, and the decoder loop delivers exactly the reference decoding of it. *)
From MptV Require Import Base.Mem Base.Tactics Cobs.CobsModel Cobs.DecModel Cobs.EncProofs Cobs.DecProofs.
Local Open Scope nat_scope.

(* shape of an accepted frame body *)
Inductive frame_shape (v : variant) (body m : list byte) : Prop :=
| FS_regular bs c d : Forall (block_ok v) bs -> block_ok v (c, d) ->
    body = flat bs ++ nb c :: d -> m = dec_closed v bs ++ d ++ zeros (zeros_last v c) ->
    frame_shape v body m
| FS_inline bs e d : inl v = true -> Forall (block_ok v) bs -> nozero d = true -> bz e = false ->
    length d < len_data v (bn e) ->
    body = flat bs ++ e :: d -> m = dec_closed v bs ++ d ++ [e] ->
    frame_shape v body m.

Lemma flat_cons c d bs : flat ((c, d) :: bs) = nb c :: d ++ flat bs.
Proof. reflexivity. Qed.

Lemma dec_closed_cons v c d bs :
  dec_closed v ((c, d) :: bs) = (d ++ zeros (zeros_after v c)) ++ dec_closed v bs.
Proof. reflexivity. Qed.

Lemma sdec_body_inv v : forall fuel body m, sdec_body fuel v body = Some m -> frame_shape v body m.
Proof.
  induction fuel as [|fuel IH]; intros body m H; [discriminate|].
  cbn [sdec_body] in H. destruct body as [|c rest]; [discriminate|].
  destruct (bz c) eqn:Hc; [discriminate|].
  destruct (Nat.ltb_spec (length rest) (len_data v (bn c))) as [Hshort|Hlong].
  - destruct (inl v) eqn:Hi; [|discriminate]. cbn [andb] in H.
    destruct (nozero rest) eqn:Hz; [|discriminate]. inversion H; subst m.
    apply (FS_inline v _ _ [] c rest); try assumption; try reflexivity. constructor.
  - set (n := len_data v (bn c)) in *.
    destruct (nozero (firstn n rest)) eqn:Hz; [|discriminate]. cbn [negb] in H.
    assert (Hb : block_ok v (bn c, firstn n rest)).
    { unfold block_ok. cbn [fst snd]. split; [apply bn_pos; assumption|]. split; [|assumption].
      rewrite firstn_length. unfold n. lia. }
    assert (Hsplit : rest = firstn n rest ++ skipn n rest) by (symmetry; apply firstn_skipn).
    destruct (skipn n rest) as [|x rest'] eqn:Es.
    + inversion H; subst m.
      apply (FS_regular v _ _ [] (bn c) (firstn n rest)); try assumption; [constructor| |reflexivity].
      rewrite nb_bn. cbn [flat map concat app]. rewrite Hsplit at 1. rewrite app_nil_r. reflexivity.
    + destruct (sdec_body fuel v (x :: rest')) as [t|] eqn:Et; [|discriminate].
      inversion H; subst m. specialize (IH _ _ Et).
      destruct IH as [bs c2 d2 Hbs Hb2 Hbody Hm | bs e d2 Hi Hbs Hd2 He Hl Hbody Hm].
      * apply (FS_regular v _ _ ((bn c, firstn n rest) :: bs) c2 d2); try assumption.
        -- constructor; assumption.
        -- rewrite flat_cons, nb_bn. cbn [app]. rewrite <- app_assoc, <- Hbody. rewrite Hsplit at 1. reflexivity.
        -- rewrite dec_closed_cons, Hm, <- !app_assoc. reflexivity.
      * apply (FS_inline v _ _ ((bn c, firstn n rest) :: bs) e d2); try assumption.
        -- constructor; assumption.
        -- rewrite flat_cons, nb_bn. cbn [app]. rewrite <- app_assoc, <- Hbody. rewrite Hsplit at 1. reflexivity.
        -- rewrite dec_closed_cons, Hm, <- !app_assoc. reflexivity.
Qed.

Lemma sdec_inv v body m : sdec v body = Some m -> frame_shape v body m.
Proof. apply sdec_body_inv. Qed.

Lemma tail_bytes_flat bs : tail_bytes bs = flat bs ++ [0%N].
Proof.
  induction bs as [|[c d] bs IH]; [reflexivity|].
  cbn [tail_bytes fst snd]. rewrite IH, flat_cons. cbn [app]. rewrite <- app_assoc. reflexivity.
Qed.

(* a block cut short by the delimiter: the loop reports the zero, the decoded bytes are those
   of the complete blocks and the partial data *)
Lemma dec_loop_truncated v : forall more c d proc out cons e dl tl,
  block_ok v (c, d) -> Forall (block_ok v) more -> gapok v proc ((c, d) :: more ++ [(bn e, dl)]) ->
  nozero dl = true -> bz e = false -> length dl < len_data v (bn e) ->
  exists p' k, dec_loop v false (d ++ flat more ++ e :: dl ++ 0%N :: tl) c 0 proc out cons =
    mkl (DErr MissingData) (out ++ dec_closed v ((c, d) :: more) ++ dl) k p' (bn e) (length dl).
Proof.
  induction more as [|[c2 d2] more IH]; intros c d proc out cons e dl tl (H1 & H2 & H3) Hm Hg Hdl He Hlen;
    cbn [fst snd] in *; cbn [gapok fst snd app] in Hg; destruct Hg as (Hg1 & Hg2 & Hg3).
  - cbn [flat map concat app].
    rewrite dec_loop_data by (assumption || lia).
    cbn [dec_loop Nat.add]. destruct (Nat.ltb_spec (length d) (len_data v c)); [lia|].
    rewrite (len_zero_nz v c e He).
    replace (len_data v c + zeros_after v c - length d) with (zeros_after v c) by lia.
    destruct (Nat.ltb_spec proc (zeros_after v c)); [lia|]. rewrite He.
    (* data of the cut block, then the delimiter inside it *)
    cbn [gapok fst snd] in Hg3. destruct Hg3 as (_ & _ & _).
    assert (Hp : dl <> [] -> 1 <= proc - zeros_after v c + 1) by (intros; lia).
    rewrite (dec_loop_data v dl (0%N :: tl) (bn e) 0 (proc - zeros_after v c + 1)) by (assumption || lia).
    cbn [dec_loop Nat.add]. destruct (Nat.ltb_spec (length dl) (len_data v (bn e))); [|lia].
    cbn [bz N.eqb]. eexists; eexists. f_equal.
    rewrite dec_closed_cons. cbn [dec_closed map concat]. rewrite app_nil_r, <- !app_assoc. reflexivity.
  - rewrite flat_cons. cbn [app]. rewrite <- !app_assoc.
    rewrite dec_loop_data by (assumption || lia).
    inversion Hm as [|x y Hb2 Hm']; subst. pose proof Hb2 as (Hc2 & Hd2 & Hz2). cbn [fst snd] in *.
    cbn [dec_loop Nat.add]. destruct (Nat.ltb_spec (length d) (len_data v c)); [lia|].
    assert (Hnz : bz (nb c2) = false) by (apply bz_nb; assumption).
    rewrite (len_zero_nz v c (nb c2) Hnz).
    replace (len_data v c + zeros_after v c - length d) with (zeros_after v c) by lia.
    destruct (Nat.ltb_spec proc (zeros_after v c)); [lia|].
    rewrite Hnz, bn_nb.
    destruct (IH c2 d2 (proc - zeros_after v c + 1) ((out ++ d) ++ zeros (zeros_after v c))
                (S (cons + length d)) e dl tl Hb2 Hm' Hg3 Hdl He Hlen) as (p' & k & ->).
    eexists; eexists. f_equal.
    rewrite (dec_closed_cons v c d). rewrite <- !app_assoc. reflexivity.
Qed.

Lemma zeros_after_le2 v c : zeros_after v c <= 2 /\ zeros_last v c <= 2.
Proof.
  unfold zeros_after, zeros_last. destruct (zpe v && (224 <=? c)); [lia|]. destruct (c <? maxlen v); lia.
Qed.

(* a gap of one byte per block (plus one) is always enough, whatever the framing *)
Lemma gapok_enough v : forall bl proc, length bl + 1 <= proc -> gapok v proc bl.
Proof.
  induction bl as [|b m IH]; intros proc Hp; [exact I|].
  cbn [gapok length] in *.
  pose proof (zeros_after_le2 v (fst b)) as [Ha Hl].
  split; [intros; lia|]. split; [destruct m; lia|]. apply IH. destruct m; cbn [length] in *; lia.
Qed.

(* what the decoder makes of a frame: delivered directly, or (COBS/R) reported as a zero
   inside the last block, which the wrapper completes with the code byte *)
Definition delivers (v : variant) (r : lres) (m : list byte) : Prop :=
  (lr r = DMsg /\ lout r = m) \/
  (inl v = true /\ lr r = DErr MissingData /\ lout r ++ [nb (lcode r)] = m /\
   lpos r < len_data v (lcode r)).

Definition shape_blocks (v : variant) (body m : list byte) (bl : list block) : Prop :=
  (exists bs c d, bl = bs ++ [(c, d)] /\ Forall (block_ok v) bl /\ body = flat bl /\
                  m = dec_closed v bs ++ d ++ zeros (zeros_last v c)) \/
  (exists bs e d, bl = bs ++ [(bn e, d)] /\ inl v = true /\ Forall (block_ok v) bs /\ nozero d = true /\
                  bz e = false /\ length d < len_data v (bn e) /\ body = flat bs ++ e :: d /\
                  m = dec_closed v bs ++ d ++ [e]).

Lemma frame_shape_blocks v body m : frame_shape v body m -> exists bl, shape_blocks v body m bl.
Proof.
  intros [bs c d Hbs Hb Hbody Hm | bs e d Hi Hbs Hd He Hl Hbody Hm].
  - exists (bs ++ [(c, d)]). left. exists bs, c, d. split; [reflexivity|].
    split; [apply Forall_app; split; [assumption|constructor; [assumption|constructor]]|].
    split; [rewrite flat_snoc; assumption|assumption].
  - exists (bs ++ [(bn e, d)]). right. exists bs, e, d. repeat split; assumption.
Qed.

Theorem dec_complete_shape v body m bl c0 rest tl proc cons :
  shape_blocks v body m bl -> body = c0 :: rest -> gapok v proc bl ->
  delivers v (dec_loop v false (rest ++ 0%N :: tl) (bn c0) 0 proc [] cons) m.
Proof.
  intros [(bs & c & d & Hbl & Hok & Hbody & Hm) | (bs & e & d & Hbl & Hi & Hbs & Hd & He & Hl & Hbody & Hm)] Hc0 Hg.
  - left. subst bl. destruct bs as [|[c1 d1] bs'].
    + cbn [app] in *. rewrite Hbody in Hc0. unfold flat in Hc0. cbn [map concat fst snd app] in Hc0.
      rewrite app_nil_r in Hc0. inversion Hc0; subst c0 rest. rewrite bn_nb.
      pose proof (Forall_inv Hok) as Hb.
      destruct (dec_loop_complete v [] c d proc [] cons tl Hb (Forall_nil _) Hg) as (p' & E).
      cbn [tail_bytes app] in E. rewrite E. cbn [lr lout]. split; [reflexivity|].
      rewrite Hm. cbn [msg_of fst snd app dec_closed map concat]. rewrite app_nil_r. reflexivity.
    + cbn [app] in *. rewrite Hbody, flat_cons in Hc0. inversion Hc0; subst c0 rest. rewrite bn_nb.
      pose proof (Forall_inv Hok) as Hb1. pose proof (Forall_inv_tail Hok) as Hrest.
      destruct (dec_loop_complete v (bs' ++ [(c, d)]) c1 d1 proc [] cons tl Hb1 Hrest Hg) as (p' & E).
      rewrite tail_bytes_flat in E. rewrite <- !app_assoc in *. cbn [app] in E. rewrite E.
      cbn [lr lout]. split; [reflexivity|]. cbn [app].
      assert (Hb : block_ok v (c, d)).
      { apply Forall_app in Hrest. destruct Hrest as [_ Hlast]. inversion Hlast; assumption. }
      assert (Hbs' : Forall (block_ok v) ((c1, d1) :: bs')).
      { constructor; [assumption|]. apply Forall_app in Hrest. destruct Hrest; assumption. }
      pose proof (msg_of_sdec v ((c1, d1) :: bs') c d Hbs' Hb) as Hms. cbn [app] in Hms.
      rewrite Hm. exact Hms.
  - right. subst bl. split; [assumption|]. destruct bs as [|[c1 d1] bs'].
    + cbn [app flat map concat] in *. inversion Hc0 as [[Hce Hr]]. rewrite Hbody in Hc0. inversion Hc0; subst c0 rest.
      cbn [gapok fst snd] in Hg. destruct Hg as (Hg1 & Hg2 & _).
      rewrite (dec_loop_data v d (0%N :: tl) (bn e) 0 proc [] cons) by (assumption || lia).
      cbn [dec_loop Nat.add app]. destruct (Nat.ltb_spec (length d) (len_data v (bn e))); [|lia].
      cbn [bz N.eqb lr lout lcode lpos]. rewrite nb_bn.
      split; [reflexivity|]. split; [rewrite Hm; reflexivity|assumption].
    + cbn [app] in *. rewrite Hbody, flat_cons in Hc0. cbn [app] in Hc0. inversion Hc0; subst c0 rest. rewrite bn_nb.
      pose proof (Forall_inv Hbs) as Hb1. pose proof (Forall_inv_tail Hbs) as Hrest.
      destruct (dec_loop_truncated v bs' c1 d1 proc [] cons e d tl Hb1 Hrest Hg Hd He Hl) as (p' & k & E).
      rewrite <- !app_assoc in *. cbn [app] in *. rewrite E. cbn [lr lout lcode lpos]. rewrite nb_bn.
      split; [reflexivity|]. split; [|assumption].
      rewrite Hm, <- !app_assoc. reflexivity.
Qed.

(* every frame the reference decoder accepts is delivered as its reference decoding, if the
   gap is at least the frame length plus one (any framing) ... *)
Theorem dec_complete_sdec v body m c0 rest tl proc cons :
  sdec v body = Some m -> body = c0 :: rest -> length body + 1 <= proc ->
  delivers v (dec_loop v false (rest ++ 0%N :: tl) (bn c0) 0 proc [] cons) m.
Proof.
  intros Hs Hb Hp. destruct (frame_shape_blocks v body m (sdec_inv v body m Hs)) as (bl & Hsh).
  apply (dec_complete_shape v body m bl); try assumption.
  apply gapok_enough.
  assert (length bl <= length body); [|lia].
  destruct Hsh as [(bs & c & d & Hbl & Hok & Hbody & Hm) | (bs & e & d & Hbl & Hi & Hbs & Hd & He & Hl & Hbody & Hm)].
  - rewrite Hbody. clear. induction bl as [|[c d] bl IH]; [cbn; lia|].
    rewrite flat_cons. cbn [length]. rewrite app_length. lia.
  - rewrite Hbody, Hbl, !app_length. cbn [length].
    assert (length bs <= length (flat bs)); [|lia].
    clear. induction bs as [|[c d] bs IH]; [cbn; lia|]. rewrite flat_cons. cbn [length]. rewrite app_length. lia.
Qed.

(* ... and for COBS and COBS/R the one byte gained by reading the first code byte suffices *)
Theorem dec_complete_sdec_cobs v body m c0 rest tl proc cons :
  zpe v = false -> sdec v body = Some m -> body = c0 :: rest -> 1 <= proc ->
  delivers v (dec_loop v false (rest ++ 0%N :: tl) (bn c0) 0 proc [] cons) m.
Proof.
  intros Hz Hs Hb Hp. destruct (frame_shape_blocks v body m (sdec_inv v body m Hs)) as (bl & Hsh).
  apply (dec_complete_shape v body m bl); try assumption.
  apply gapok_cobs; assumption.
Qed.
