(* Cobs/EncTheorems.v — round trip of the encoders for every way of handing the message over
   in pieces and every schedule of granting output space. *)
From MptV Require Import Base.Mem Base.Tactics Cobs.CobsModel Cobs.EncProofs.
Local Open Scope nat_scope.

(* one action of a caller: enlarge the output window by [inc] bytes (0 allowed), then either
   offer the next [take] bytes of what is left of the message, or try to finish the message.
   What the encoder does not consume stays to be offered again; an error changes nothing. *)
Inductive call := Offer (inc take : nat) | Finish (inc : nat).

Record run := mkr { rst : estate; rbuf : list byte; rcap : nat; rrem : list byte; rdone : bool }.

Definition run_step (v : variant) (r : run) (c : call) : run :=
  if rdone r then r else
  match c with
  | Offer inc take =>
    let cap := rcap r + inc in
    match enc_call v (rst r) (rbuf r) cap (Some (firstn take (rrem r))) with
    | (EInt k, st', buf') => mkr st' buf' cap (skipn k (rrem r)) false
    | (_, st', buf') => mkr st' buf' cap (rrem r) false
    end
  | Finish inc =>
    let cap := rcap r + inc in
    match enc_call v (rst r) (rbuf r) cap None with
    | (EInt _, st', buf') => mkr st' buf' cap (rrem r) true
    | (_, st', buf') => mkr st' buf' cap (rrem r) false
    end
  end.

Definition run_script (v : variant) (r : run) (script : list call) : run :=
  fold_left (run_step v) script r.

Definition framed (v : variant) (pre m : list byte) (r : run) : Prop :=
  exists body, rbuf r = pre ++ body ++ [0%N] /\
    sdec v body = Some (firstn (length m - length (rrem r)) m) /\
    nozero body = true /\ idle_state (rst r) (rbuf r) /\ length (rbuf r) <= rcap r.

Definition run_inv (v : variant) (pre m : list byte) (r : run) : Prop :=
  if rdone r then framed v pre m r
  else exists consumed, m = consumed ++ rrem r /\
         enc_inv v pre consumed (rst r) (rbuf r) /\ edone (rst r) + escr (rst r) <= rcap r.

Lemma firstn_skipn_take {A} (l : list A) take k : k <= length (firstn take l) ->
  firstn k (firstn take l) = firstn k l.
Proof.
  intros H. rewrite firstn_firstn. rewrite firstn_length in H. f_equal. lia.
Qed.

Lemma run_step_inv v pre m r c : variant_ok v -> run_inv v pre m r -> run_inv v pre m (run_step v r c).
Proof.
  intros Hv Hinv. unfold run_step. destruct (rdone r) eqn:Hd; [assumption|].
  unfold run_inv in Hinv. rewrite Hd in Hinv. destruct Hinv as (consumed & Hm & Hei & Hwin).
  destruct c as [inc take|inc].
  - pose proof (enc_data_call v pre consumed (rst r) (rbuf r) (rcap r + inc) (firstn take (rrem r)) Hv Hei) as H.
    destruct (enc_call v (rst r) (rbuf r) (rcap r + inc) (Some (firstn take (rrem r)))) as [[res st'] buf'].
    destruct res as [k|e|]; unfold run_inv; cbn [rdone rst rbuf rcap rrem].
    + destruct H as (Hk & Hei' & Hwin').
      exists (consumed ++ firstn k (rrem r)). split.
      * rewrite <- app_assoc, firstn_skipn. assumption.
      * rewrite firstn_skipn_take in Hei' by assumption. split; assumption.
    + destruct H as [-> ->]. exists consumed. split; [assumption|]. split; [assumption|lia].
    + contradiction.
  - pose proof (enc_term_call v pre consumed (rst r) (rbuf r) (rcap r + inc) Hv Hei ltac:(lia)) as H.
    destruct (enc_call v (rst r) (rbuf r) (rcap r + inc) None) as [[res st'] buf'].
    destruct res as [k|e|]; unfold run_inv; cbn [rdone rst rbuf rcap rrem].
    + destruct H as (body & Hb & Hs & Hnz & Hidle & Hlen).
      exists body. cbn [rbuf rrem rst rcap]. split; [assumption|]. split.
      * rewrite Hs. f_equal.
        assert (El : length m - length (rrem r) = length consumed) by (rewrite Hm, app_length; lia).
        rewrite El, Hm. symmetry. apply firstn_app_exact.
      * split; [assumption|]. split; assumption.
    + destruct H as [-> ->]. exists consumed. split; [assumption|]. split; [assumption|lia].
    + contradiction.
Qed.

Lemma run_script_inv v pre m script : variant_ok v -> forall r,
  run_inv v pre m r -> run_inv v pre m (run_script v r script).
Proof.
  intros Hv. induction script as [|c script IH]; intros r Hr; [assumption|].
  cbn [run_script fold_left]. apply IH. apply run_step_inv; assumption.
Qed.

(* ROUND TRIP: however the message is cut into offers and however the window grows, once the
   finish call succeeds the window ends with one frame that the reference decoder maps to
   the bytes handed over, and the frame body contains no zero byte. *)
Theorem enc_roundtrip v pre m st0 cap0 script : variant_ok v ->
  idle_state st0 pre -> length pre <= cap0 ->
  let r := run_script v (mkr st0 pre cap0 m false) script in
  rdone r = true -> framed v pre m r.
Proof.
  intros Hv [H0 Hd] Hcap r Hdone.
  assert (Hinv : run_inv v pre m (mkr st0 pre cap0 m false)).
  { unfold run_inv. cbn [rdone rst rbuf rcap rrem]. exists []. split; [reflexivity|].
    split; [apply EI_idle; auto|lia]. }
  pose proof (run_script_inv v pre m script Hv _ Hinv) as H. fold r in H.
  unfold run_inv in H. rewrite Hdone in H. assumption.
Qed.

Corollary enc_roundtrip_complete v pre m st0 cap0 script : variant_ok v ->
  idle_state st0 pre -> length pre <= cap0 ->
  let r := run_script v (mkr st0 pre cap0 m false) script in
  rdone r = true -> rrem r = [] ->
  exists body, rbuf r = pre ++ body ++ [0%N] /\ sdec v body = Some m /\ nozero body = true.
Proof.
  intros Hv Hi Hc r Hdone Hrem.
  destruct (enc_roundtrip v pre m st0 cap0 script Hv Hi Hc Hdone) as (body & Hb & Hs & Hnz & _).
  fold r in Hb, Hs. exists body. rewrite Hrem in Hs. cbn [length] in Hs.
  rewrite Nat.sub_0_r, firstn_all in Hs. auto.
Qed.

(* SEQUENCE: messages encoded one after the other into the same window, without the finished
   bytes being taken away in between, leave the concatenation of their frames. *)
Fixpoint run_messages (v : variant) (st : estate) (buf : list byte) (cap : nat)
         (msgs : list (list byte * list call)) : run :=
  match msgs with
  | [] => mkr st buf cap [] true
  | (m, script) :: rest =>
    let r := run_script v (mkr st buf cap m false) script in
    if rdone r && (length (rrem r) =? 0) then
      match rest with
      | [] => r
      | _ => run_messages v (rst r) (rbuf r) (rcap r) rest
      end
    else mkr (rst r) (rbuf r) (rcap r) (rrem r) false
  end.

Inductive frames_of (v : variant) : list (list byte) -> list byte -> Prop :=
| FO_nil : frames_of v [] []
| FO_cons m ms body rest : sdec v body = Some m -> nozero body = true ->
    frames_of v ms rest -> frames_of v (m :: ms) (body ++ [0%N] ++ rest).

Lemma frames_of_snoc v ms w m body : frames_of v ms w -> sdec v body = Some m -> nozero body = true ->
  frames_of v (ms ++ [m]) (w ++ body ++ [0%N]).
Proof.
  induction 1 as [|m0 ms0 b0 rest Hs Hz Hf IH]; intros Hsb Hzb.
  - cbn [app]. rewrite <- (app_nil_r (body ++ [0%N])), <- app_assoc. constructor; [assumption|assumption|constructor].
  - cbn [app]. rewrite <- !app_assoc. change ((m0 :: ms0) ++ [m]) with (m0 :: (ms0 ++ [m])).
    replace (b0 ++ [0%N] ++ rest ++ body ++ [0%N]) with (b0 ++ [0%N] ++ (rest ++ body ++ [0%N])) by reflexivity.
    constructor; [assumption|assumption|]. apply IH; assumption.
Qed.

Theorem enc_sequence v : variant_ok v -> forall msgs pre st0 cap0,
  idle_state st0 pre -> length pre <= cap0 ->
  let r := run_messages v st0 pre cap0 msgs in
  rdone r = true ->
  exists wire, rbuf r = pre ++ wire /\ frames_of v (map fst msgs) wire.
Proof.
  intros Hv. induction msgs as [|[m script] rest IH]; intros pre st0 cap0 Hi Hc r Hdone.
  - exists []. cbn. split; [rewrite app_nil_r; reflexivity|constructor].
  - cbn [run_messages] in r.
    set (r1 := run_script v (mkr st0 pre cap0 m false) script) in *.
    destruct (rdone r1 && (length (rrem r1) =? 0)) eqn:E.
    + apply andb_prop in E. destruct E as [E1 E2]. apply Nat.eqb_eq in E2.
      apply length_zero_iff_nil in E2.
      destruct (enc_roundtrip v pre m st0 cap0 script Hv Hi Hc E1) as (body & Hb & Hs & Hnz & Hidle & Hlen).
      fold r1 in Hb, Hs, Hidle, Hlen. rewrite E2 in Hs. cbn [length] in Hs.
      rewrite Nat.sub_0_r, firstn_all in Hs.
      destruct rest as [|p rest'].
      * exists (body ++ [0%N] ++ []). subst r. split; [rewrite Hb, app_nil_r; reflexivity|].
        cbn [map fst]. constructor; [assumption|assumption|constructor].
      * specialize (IH (rbuf r1) (rst r1) (rcap r1) Hidle Hlen).
        cbn zeta in IH. specialize (IH Hdone).
        destruct IH as (wire & Hw & Hf).
        exists (body ++ [0%N] ++ wire). split.
        -- subst r. rewrite Hw, Hb. rewrite <- !app_assoc. reflexivity.
        -- cbn [map fst]. constructor; assumption.
    + subst r. cbn [rdone] in Hdone. discriminate.
Qed.
