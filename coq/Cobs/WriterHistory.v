(* Cobs/WriterHistory.v — histories of the framed output queue (ring level).

   A writer history is any sequence of
     WData d   one mpt_queue_push(queue, len, data)   (may take all, part or nothing)
     WTerm     one mpt_queue_push(queue, 0, 0)        (terminate the message)
     WWire k   the transport takes up to k finished bytes off the front of the ring
               (the writer half of do_wire in StreamRun.v: mpt_queue_get + mpt_queue_crop + done -= k)
     WGrow n f the caller enlarges the ring (mpt_queue_prepare, as mpt_stream_push does)
   run on the ring-level model [equeue_push] of QueueCodec.v.  The theorem: whatever the
   history, the bytes handed to the transport followed by the bytes still in the ring are
   the frames of the completed messages, in order, followed by the open frame of the bytes
   consumed so far — the same stream-level invariant [enc_inv] the flat encoder carries.

   All branches of mpt_queue_push are covered (aligned, upper part, lower part, out-of-band copy
   of a straddling open block, align-and-retry, second push); the run returns None only if the
   model itself reports a fault (which the theorem excludes). *)
From MptV Require Import Base.Mem Base.Tactics C13.QueueModel C13.QueueSpec C13.QueueProofs C13.QueueAlign C13.IoQueueProofs
  Cobs.CobsModel Cobs.EncProofs Cobs.EncTheorems Cobs.EncShift Cobs.QueueCodec Cobs.QueuePushProofs
  Cobs.QueuePushTheorem Cobs.StreamRun Cobs.DecModel Cobs.DecComplete Cobs.StreamProofs.
Local Open Scope nat_scope.

Inductive wop := WData (d : list byte) | WTerm | WWire (k : nat)
  | WGrow (n : nat) (fill : byte).   (* mpt_queue_prepare on the output ring (mpt_stream_push) *)

(* writer half of do_wire *)
Definition wire_writer (e : equeue) (n : nat) : res (equeue * list byte) :=
  let k := Nat.min (edone (eq_st e)) n in
  if k =? 0 then Ok (e, []) else
  match qget (eq_q e) 0 k with
  | Fault => Fault
  | Err _ => Ok (e, [])
  | Ok bytes =>
    do wq <- (match qcrop (eq_q e) 0 k with Ok q' => Ok q' | Err _ => Ok (eq_q e) | Fault => Fault end);
    let st := eq_st e in
    Ok (mkeq wq (mke (ectx st) (edone st - k) (escr st)), bytes)
  end.

(* state of a writer history: ring, bytes handed to the transport, completed messages, bytes
   of the open message consumed so far *)
Record wh := mkwh { wh_e : equeue; wh_sent : list byte; wh_done : list (list byte); wh_cur : list byte }.

(* a zero-length push IS the terminate call (mpt_queue_push: len = 0) *)
Definition wh_step (v : variant) (s : wh) (o : wop) : option wh :=
  match o with
  | WData (x :: d) =>
    match equeue_push v (wh_e s) (Some (x :: d)) with
    | Ok (EInt k, e') => Some (mkwh e' (wh_sent s) (wh_done s) (wh_cur s ++ firstn k (x :: d)))
    | Ok (EErr _, e') => Some (mkwh e' (wh_sent s) (wh_done s) (wh_cur s))
    | _ => None
    end
  | WData [] | WTerm =>
    match equeue_push v (wh_e s) None with
    | Ok (EInt _, e') => Some (mkwh e' (wh_sent s) (wh_done s ++ [wh_cur s]) [])
    | Ok (EErr _, e') => Some (mkwh e' (wh_sent s) (wh_done s) (wh_cur s))
    | _ => None
    end
  | WWire n =>
    match wire_writer (wh_e s) n with
    | Ok (e', bytes) => Some (mkwh e' (wh_sent s ++ bytes) (wh_done s) (wh_cur s))
    | _ => None
    end
  | WGrow n fill =>
    match qprepare (eq_q (wh_e s)) n fill with
    | Ok (q', _) => Some (mkwh (mkeq q' (eq_st (wh_e s))) (wh_sent s) (wh_done s) (wh_cur s))
    | Err _ => Some s
    | Fault => None
    end
  end.

Fixpoint wh_run (v : variant) (s : wh) (ops : list wop) : option wh :=
  match ops with
  | [] => Some s
  | o :: ops => match wh_step v s o with Some s' => wh_run v s' ops | None => None end
  end.

(* the invariant of writer histories *)
Definition wh_inv (v : variant) (s : wh) : Prop :=
  qoff (eq_q (wh_e s)) < qmax (eq_q (wh_e s)) /\
  exists pre, frames_of v (wh_done s) pre /\ rinv v pre (wh_cur s) (wh_sent s) (wh_e s).


Lemma qcrop0_off_lt q n : qinv q -> n <= qlen q -> qoff q < qmax q ->
  exists o, qcrop q 0 n = Ok (mkq (qbuf q) (qlen q - n) (qmax q) o) /\ o < qmax q.
Proof.
  intros (Hb & Hl & Ho) Hn Hlt. unfold qcrop, qdata, cidx.
  destruct (Nat.ltb_spec (qmax q - qoff q) (qlen q)); cbn [Nat.eqb];
    repeat cases_if; try lia; unfold set_off, set_len; cbn [qbuf qlen qmax qoff];
    eexists; (split; [reflexivity|]); lia.
Qed.

Lemma wire_writer_inv v pre consumed sent e n e' bytes :
  rinv v pre consumed sent e -> qoff (eq_q e) < qmax (eq_q e) -> wire_writer e n = Ok (e', bytes) ->
  rinv v pre consumed (sent ++ bytes) e' /\ qoff (eq_q e') < qmax (eq_q e').
Proof.
  intros [[Hq Hl] Hinv] Hlt H. unfold wire_writer in H. pose proof Hq as (Hb & Hlm & Ho).
  set (k := Nat.min (edone (eq_st e)) n) in *.
  destruct (Nat.eqb_spec k 0) as [Hk|Hk].
  { inversion H; subst e' bytes. rewrite app_nil_r. split; [split; [split|]; assumption|assumption]. }
  assert (Hkd : k <= edone (eq_st e)) by (unfold k; lia).
  pose proof (qget_spec (eq_q e) 0 k Hq ltac:(lia)) as Hg.
  destruct (Nat.leb_spec (0 + k) (qlen (eq_q e))) as [_|Hbad]; [|lia].
  rewrite Hg in H. unfold slice in H. cbn [skipn] in H.
  destruct (qcrop0_ok (eq_q e) k Hq ltac:(lia)) as (o & Hcrop & Hom & Hc).
  destruct (qcrop0_off_lt (eq_q e) k Hq ltac:(lia) Hlt) as (o2 & Hcrop2 & Holt).
  rewrite Hcrop in Hcrop2. inversion Hcrop2; subst o2. clear Hcrop2.
  rewrite Hcrop in H. cbn [bind] in H. inversion H; subst e' bytes. clear H.
  pose proof (contents_crop0 (eq_q e) k o Hq ltac:(lia) Hom Hc) as Hcc.
  split; [|cbn [eq_q qoff qmax]; exact Holt].
  split; [split|]; cbn [eq_q eq_st].
  - unfold qinv. cbn [qbuf qlen qmax qoff]. lia.
  - cbn [qlen edone escr]. lia.
  - rewrite Hcc. rewrite <- app_assoc, firstn_skipn.
    replace (shift_st (mke (ectx (eq_st e)) (edone (eq_st e) - k) (escr (eq_st e)))
               (length (sent ++ firstn k (contents (eq_q e)))))
      with (shift_st (eq_st e) (length sent)); [exact Hinv|].
    unfold shift_st. cbn [ectx edone escr]. rewrite app_length, firstn_length, contents_length by assumption.
    f_equal. lia.
Qed.

(* after a terminated message the invariant restarts with the longer finished prefix *)
Lemma term_restart v pre consumed sent e :
  (einv e /\ exists body, sent ++ contents (eq_q e) = pre ++ body ++ [0%N] /\ sdec v body = Some consumed /\
      nozero body = true /\ idle_state (shift_st (eq_st e) (length sent)) (sent ++ contents (eq_q e))) ->
  exists body, sdec v body = Some consumed /\ nozero body = true /\
    rinv v (pre ++ body ++ [0%N]) [] sent e.
Proof.
  intros [He (body & Hb & Hs & Hz & [Hi1 Hi2])]. exists body. split; [assumption|]. split; [assumption|].
  split; [assumption|]. apply EI_idle; [assumption| rewrite <- Hb; assumption | assumption | reflexivity].
Qed.

(* enlarging keeps contents and length; the offset stays inside the (larger) storage *)
Lemma qprepare_grow q n f : qinv q -> (qoff q < qmax q \/ qmax q = 0) ->
  exists q' r, qprepare q n f = Ok (q', r) /\ qinv q' /\ contents q' = contents q /\ qlen q' = qlen q /\
    (0 < n \/ 0 < qmax q -> qoff q' < qmax q') /\ n <= qmax q' - qlen q'.
Proof.
  intros Hq Hoff. pose proof Hq as (Hb & Hl & Ho).
  destruct (IoQueueProofs.qprepare_full q n f Hq) as (q' & r & E & Hq' & Hm & Hc & Hlen & Hr).
  exists q', r. split; [exact E|]. split; [exact Hq'|]. split; [exact Hc|]. split; [exact Hlen|].
  split; [|rewrite Hm, Hlen; apply IoQueueProofs.grow_cap_room; exact Hl].
  intros Hpos. unfold qprepare in E.
  destruct (Nat.ltb_spec (qmax q - qlen q) n) as [Hlt|Hge].
  - set (want := n - (qmax q - qlen q) + qmax q) in *.
    pose proof (align8_ge want ltac:(unfold want; lia)) as Ha.
    unfold qresize in E.
    destruct (Nat.eqb_spec (align8 want) 0); [unfold want in *; lia|].
    destruct (Nat.ltb_spec (align8 want) (qmax q)); [unfold want in *; lia|].
    destruct (Nat.ltb_spec (qmax q) (align8 want)); [|unfold want in *; lia].
    destruct (qfrag q) eqn:Ef.
    + destruct (qalign_spec q 0 Hq) as (q1 & E1 & Hq1 & Hm1 & Hl1 & Ho1 & Hc1). rewrite E1 in E. cbn [bind] in E.
      inversion E; subst q' r. cbn [qoff qmax]. rewrite (Ho1 eq_refl). lia.
    + cbn [bind] in E. inversion E; subst q' r. cbn [qoff qmax]. unfold want in *. lia.
  - inversion E; subst q' r. destruct Hoff; lia.
Qed.

Lemma wh_grow_inv v s n fill s' : wh_inv v s ->
  match qprepare (eq_q (wh_e s)) n fill with
  | Ok (q', _) => Some (mkwh (mkeq q' (eq_st (wh_e s))) (wh_sent s) (wh_done s) (wh_cur s))
  | Err _ => Some s
  | Fault => None
  end = Some s' -> wh_inv v s'.
Proof.
  intros (Hlt & pre & Hf & [[Hq Hl] Hinv]) H.
  destruct (qprepare_grow (eq_q (wh_e s)) n fill Hq ltac:(left; exact Hlt)) as (q' & r & E & Hq' & Hc & Hlen & Hoff & _).
  rewrite E in H. inversion H; subst s'; clear H. unfold wh_inv. cbn [wh_e wh_sent wh_done wh_cur].
  split; [cbn [eq_q]; apply Hoff; right; lia|]. exists pre. split; [exact Hf|].
  split; [split; cbn [eq_q eq_st]; [exact Hq'|rewrite Hlen; exact Hl]|]. cbn [eq_q eq_st]. rewrite Hc. exact Hinv.
Qed.

Lemma wh_term_inv v s s' : variant_ok v -> wh_inv v s ->
  match equeue_push v (wh_e s) None with
  | Ok (EInt _, e') => Some (mkwh e' (wh_sent s) (wh_done s ++ [wh_cur s]) [])
  | Ok (EErr _, e') => Some (mkwh e' (wh_sent s) (wh_done s) (wh_cur s))
  | _ => None
  end = Some s' -> wh_inv v s'.
Proof.
  intros Hv (Hlt & pre & Hf & Hr) H.
  pose proof (equeue_push_refines v (wh_e s) (wh_sent s) pre (wh_cur s) None Hv Hr Hlt) as Hp.
  destruct (equeue_push v (wh_e s) None) as [[r e']| |]; [|discriminate|discriminate].
  cbn [push_ok norm_arg] in Hp. destruct Hp as (Hp & Hm & Ho).
  assert (Hlt' : qoff (eq_q e') < qmax (eq_q e')) by (destruct Ho as [Ho|Ho]; rewrite Ho, Hm; lia).
  cbn [push_post] in Hp.
  destruct r as [k|er|]; [| |discriminate]; inversion H; subst s'; clear H; (split; [exact Hlt'|]).
  - destruct (term_restart v pre (wh_cur s) (wh_sent s) e' Hp) as (body & Hs & Hz & Hr').
    exists (pre ++ body ++ [0%N]). cbn [wh_done wh_cur wh_sent wh_e]. split; [|exact Hr'].
    apply frames_of_snoc; assumption.
  - exists pre. cbn [wh_done wh_cur wh_sent wh_e]. split; assumption.
Qed.

Theorem wh_step_inv v s o s' : variant_ok v -> wh_inv v s -> wh_step v s o = Some s' -> wh_inv v s'.
Proof.
  intros Hv Hi H. destruct o as [[|x d]| |n|n fill]; cbn [wh_step] in H; [| | | |apply (wh_grow_inv v s n fill s' Hi H)].
  - apply (wh_term_inv v s s' Hv Hi H).
  - destruct Hi as (Hlt & pre & Hf & Hr).
    pose proof (equeue_push_refines v (wh_e s) (wh_sent s) pre (wh_cur s) (Some (x :: d)) Hv Hr Hlt) as Hp.
    destruct (equeue_push v (wh_e s) (Some (x :: d))) as [[r e']| |]; [|discriminate|discriminate].
    cbn [push_ok norm_arg] in Hp. destruct Hp as (Hp & Hm & Ho).
    assert (Hlt' : qoff (eq_q e') < qmax (eq_q e')) by (destruct Ho as [Ho|Ho]; rewrite Ho, Hm; lia).
    cbn [push_post] in Hp.
    destruct r as [k|er|]; [| |discriminate]; inversion H; subst s'; clear H; (split; [exact Hlt'|]); exists pre;
      cbn [wh_done wh_cur wh_sent wh_e]; (split; [assumption|]).
    + destruct Hp as [_ Hp]. exact Hp.
    + exact Hp.
  - apply (wh_term_inv v s s' Hv Hi H).
  - destruct Hi as (Hlt & pre & Hf & Hr).
    destruct (wire_writer (wh_e s) n) as [[e' bytes]| |] eqn:Hw; [|discriminate|discriminate].
    inversion H; subst s'; clear H.
    destruct (wire_writer_inv v pre (wh_cur s) (wh_sent s) (wh_e s) n e' bytes Hr Hlt Hw) as [Hr' Hlt'].
    split; [exact Hlt'|]. exists pre. cbn [wh_done wh_cur wh_sent wh_e]. split; assumption.
Qed.

(* no history makes the model fault: every step is defined *)
Theorem wh_step_total v s o : variant_ok v -> wh_inv v s -> exists s', wh_step v s o = Some s'.
Proof.
  intros Hv (Hlt & pre & Hf & Hr).
  assert (Hpush : forall arg, match equeue_push v (wh_e s) arg with Ok (EInt _, _) | Ok (EErr _, _) => True | _ => False end).
  { intros arg. pose proof (equeue_push_refines v (wh_e s) (wh_sent s) pre (wh_cur s) arg Hv Hr Hlt) as Hp.
    destruct (equeue_push v (wh_e s) arg) as [[r e']| |]; try contradiction.
    cbn [push_ok] in Hp. destruct Hp as (Hp & _). destruct r; try exact I.
    destruct (norm_arg arg); contradiction. }
  destruct o as [[|x d]| |n|n fill]; cbn [wh_step];
    [| | | |destruct Hr as [[Hq _] _]; destruct (qprepare_spec (eq_q (wh_e s)) n fill Hq) as (q' & r & -> & _); eexists; reflexivity].
  - specialize (Hpush None). destruct (equeue_push v (wh_e s) None) as [[[k|er|] e']| |]; try contradiction; eexists; reflexivity.
  - specialize (Hpush (Some (x :: d))).
    destruct (equeue_push v (wh_e s) (Some (x :: d))) as [[[k|er|] e']| |]; try contradiction; eexists; reflexivity.
  - specialize (Hpush None). destruct (equeue_push v (wh_e s) None) as [[[k|er|] e']| |]; try contradiction; eexists; reflexivity.
  - destruct Hr as [[Hq Hl] Hinv]. pose proof Hq as (Hb & Hlm & Ho). unfold wire_writer.
    set (k := Nat.min (edone (eq_st (wh_e s))) n).
    destruct (Nat.eqb_spec k 0); [eexists; reflexivity|].
    pose proof (qget_spec (eq_q (wh_e s)) 0 k Hq ltac:(lia)) as Hg.
    destruct (Nat.leb_spec (0 + k) (qlen (eq_q (wh_e s)))) as [_|Hbad]; [|unfold k in Hbad; lia].
    rewrite Hg. destruct (qcrop0_ok (eq_q (wh_e s)) k Hq ltac:(unfold k; lia)) as (o & -> & _).
    cbn [bind]. eexists; reflexivity.
Qed.

Theorem wh_run_inv v : variant_ok v -> forall ops s s', wh_inv v s -> wh_run v s ops = Some s' -> wh_inv v s'.
Proof.
  intros Hv. induction ops as [|o ops IH]; intros s s' Hi H; cbn [wh_run] in H.
  - inversion H; subst; assumption.
  - destruct (wh_step v s o) as [s1|] eqn:E; [|discriminate].
    apply (IH s1 s'); [apply (wh_step_inv v s o s1 Hv Hi E)|assumption].
Qed.

(* an empty ring of any capacity and offset *)
Definition wh_init (buf : mem) (off : nat) : wh :=
  mkwh (mkeq (mkq buf 0 (length buf) off) (mke 0 0 0)) [] [] [].

Lemma wh_init_inv v buf off : off < length buf -> wh_inv v (wh_init buf off).
Proof.
  intros Ho. split; [exact Ho|]. exists []. split; [constructor|]. split; [split|]; cbn [wh_init wh_e eq_q eq_st wh_sent wh_cur].
  - unfold qinv. cbn [qbuf qlen qmax qoff]. lia.
  - reflexivity.
  - apply EI_idle; try reflexivity. cbn [app]. apply length_zero_iff_nil.
    rewrite contents_length by (unfold qinv; cbn [qbuf qlen qmax qoff]; lia). reflexivity.
Qed.

(* what the stream looks like when no message is open and nothing is pending in the encoder *)
Lemma rinv_idle_stream v pre sent e :
  rinv v pre [] sent e -> escr (eq_st e) = 0 -> sent ++ contents (eq_q e) = pre.
Proof.
  intros [_ Hinv] Hs. destruct Hinv as [_ _ Hb _|bs open Hl _ _]; [assumption|].
  destruct Hl as [_ _ Hc _ _]. cbn [shift_st escr] in Hc. unfold shift_st in Hc. cbn [escr] in Hc. lia.
Qed.

(* MAIN: every writer history on a ring
   of any size and offset leaves transport bytes + ring contents = the frames of the completed
   messages, in order, whenever the encoder is between messages *)
Theorem writer_history_stream v buf off ops s : variant_ok v -> off < length buf ->
  wh_run v (wh_init buf off) ops = Some s ->
  wh_cur s = [] -> escr (eq_st (wh_e s)) = 0 ->
  frames_of v (wh_done s) (wh_sent s ++ contents (eq_q (wh_e s))).
Proof.
  intros Hv Ho Hrun Hc Hs.
  destruct (wh_run_inv v Hv ops _ s (wh_init_inv v buf off Ho) Hrun) as (_ & pre & Hf & Hr).
  rewrite Hc in Hr. rewrite (rinv_idle_stream v pre _ _ Hr Hs). exact Hf.
Qed.

Theorem writer_history_delivered v buf off ops s : variant_ok v -> off < length buf ->
  wh_run v (wh_init buf off) ops = Some s ->
  wh_cur s = [] -> escr (eq_st (wh_e s)) = 0 ->
  exists bodies, split_frames [] (wh_sent s ++ contents (eq_q (wh_e s))) = (bodies, []) /\
    bodies_of v (wh_done s) bodies /\
    Forall2 (fun m body => forall c0 rest tl proc cons,
               body = c0 :: rest -> length body + 1 <= proc ->
               delivers v (dec_loop v false (rest ++ 0%N :: tl) (bn c0) 0 proc [] cons) m)
            (wh_done s) bodies.
Proof.
  intros Hv Ho Hr Hc Hs.
  destruct (wire_splits v _ _ (writer_history_stream v buf off ops s Hv Ho Hr Hc Hs)) as (bodies & Hsp & Hb).
  exists bodies. split; [exact Hsp|]. split; [exact Hb|]. exact (bodies_delivered v _ _ Hb).
Qed.

(* the run never stops: no history makes the ring-level model fault or abort *)
Theorem wh_run_total v : variant_ok v -> forall ops s, wh_inv v s -> exists s', wh_run v s ops = Some s'.
Proof.
  intros Hv. induction ops as [|o ops IH]; intros s Hi; cbn [wh_run].
  - eexists; reflexivity.
  - destruct (wh_step_total v s o Hv Hi) as (s1 & E). rewrite E.
    apply IH. apply (wh_step_inv v s o s1 Hv Hi E).
Qed.
