(* Cobs/ReaderLive.v — LIVENESS of the framed input queue (ring level).

   A reader that calls mpt_queue_recv and, when no message came out, enlarges the ring with
   mpt_queue_prepare and calls again -- what mpt_stream_poll / mpt_stream_dispatch do -- obtains
   a message whose frame is completely in the ring after at most that one enlargement by
   (frame length + 17) bytes: the decoder never asks for more input on complete data, never
   reports a decoding error on a frame the reference decoder accepts, and the recovery path of
   mpt_queue_recv (prefix space, chunked move, second decoding) turns all free space of the
   ring into scratch space.  Iterated over a stream of frames: every message arrives. *)
From MptV Require Import Base.Mem Base.Tactics C13.QueueModel C13.QueueSpec C13.QueueProofs C13.QueueAlign C13.IoQueueProofs
  Cobs.CobsModel Cobs.DecModel Cobs.EncProofs Cobs.EncTheorems Cobs.DecProofs Cobs.DecCall Cobs.DecHistory
  Cobs.DecLive Cobs.QueueCodec Cobs.ReaderHistory.
Local Open Scope nat_scope.

Definition rh_unread (s : rh) : list byte := skipn (dcurr (dq_st (rh_d s))) (contents (dq_q (rh_d s))).
Definition rh_free (s : rh) : nat := qmax (dq_q (rh_d s)) - qlen (dq_q (rh_d s)).
Definition rh_live (v : variant) (s : rh) : Prop := slive v (dq_st (rh_d s)) (contents (dq_q (rh_d s))).

Lemma gapof_rebuf st npre ngap : gapof (st_rebuf st npre ngap) = ngap.
Proof. unfold gapof, st_rebuf. cbn [dcurr dpos dlen]. lia. Qed.

Lemma slive_rebuf v F st buf pre gap : cinv v F st buf -> slive v st buf -> gapof st <= length gap ->
  slive v (st_rebuf st (length pre) (length gap)) (buf_rebuf st buf pre gap).
Proof.
  intros Hc Hl Hg. destruct (cinv_rebuf v F st buf pre gap Hc) as [_ Hun].
  unfold slive in *. rewrite Hun. rewrite gapof_rebuf. unfold st_rebuf at 1 2 3 4. cbn [dcode dpos8].
  destruct (dcode st =? 0); [assumption|]. destruct Hl as [Hw Hp]. split; [assumption|]. intros H. specialize (Hp H). lia.
Qed.

(* a delivered message: the consumed prefix is cropped, the message counted *)
Lemma deliver_outcome v s q1 st1 : qinv q1 -> cinv v [] st1 (contents q1) -> dmsg st1 = Some (dlen st1) ->
  let s1 := rh_after s (recv_deliver (mkdq q1 st1)) in
  rh_stop s1 = false /\ rh_in s1 = rh_in s /\ length (rh_msgs s1) = S (length (rh_msgs s)) /\
  dcode (dq_st (rh_d s1)) = 0 /\ rh_unread s1 = skipn (dcurr st1) (contents q1).
Proof.
  intros Hq Hc Hm.
  destruct (recv_deliver_spec v [] q1 st1 Hq Hc) as (c & d' & E & Hd & Hst' & Hq' & Hcc).
  cbn zeta. rewrite E, Hm. cbn [rh_after rh_stop rh_in rh_msgs rh_d].
  split; [reflexivity|]. split; [reflexivity|]. split; [rewrite app_length; cbn [length]; lia|].
  destruct Hc as (_ & _ & Hmm). rewrite Hm in Hmm. destruct Hmm as (_ & Hcode & _).
  split; [rewrite Hst'; cbn [st_drop dcode]; exact Hcode|].
  unfold rh_unread. cbn [rh_d]. rewrite Hst', Hcc. cbn [st_drop dcurr].
  apply unread_drop. apply Hd.
Qed.

Lemma unread_tail (pre pre' tl tl' : list byte) j :
  pre ++ 0%N :: tl = pre' ++ 0%N :: tl' -> nozero pre = true -> nozero pre' = true -> j = length pre' + 1 ->
  skipn j (pre ++ 0%N :: tl) = tl.
Proof.
  intros E H1 H2 ->. destruct (nozero_split_unique _ _ _ _ H1 H2 E) as [-> ->].
  rewrite skipn_app. rewrite skipn_all2 by lia. replace (length pre' + 1 - length pre') with 1 by lia. reflexivity.
Qed.

(* ONE mpt_queue_recv on a ring whose unread bytes complete (or start) a well-formed frame *)
Theorem ring_recv_outcome v s pre tl :
  rh_inv v s -> rh_stop s = false -> rh_live v s -> rh_unread s = pre ++ 0%N :: tl -> nozero pre = true ->
  let s1 := rh_step v s RRecv in
  rh_stop s1 = false /\ rh_in s1 = rh_in s /\
  ((length (rh_msgs s1) = S (length (rh_msgs s)) /\ dcode (dq_st (rh_d s1)) = 0 /\ rh_unread s1 = tl) \/
   (rh_msgs s1 = rh_msgs s /\ rh_live v s1 /\ rh_free s < length pre + 17 /\
    exists pre1, rh_unread s1 = pre1 ++ 0%N :: tl /\ nozero pre1 = true /\ length pre1 <= length pre /\
      length pre1 + rh_free s <= length pre + 17)).
Proof.
  intros [Hh Hq] Est Hl Hun Hz. specialize (Hq Est). cbn zeta. unfold rh_step. rewrite Est.
  unfold rh_unread in Hun. unfold rh_live in Hl. unfold rh_free.
  set (q := dq_q (rh_d s)) in *. set (st := dq_st (rh_d s)) in *.
  assert (Hne : qlen q <> 0).
  { apply (f_equal (@length _)) in Hun. rewrite skipn_length, contents_length, app_length in Hun by assumption.
    cbn [length] in Hun. lia. }
  destruct (Nat.eqb_spec (qlen q) 0); [contradiction|].
  unfold flat_of in Hh. rewrite Est in Hh. destruct Hh as (C & F & Hf & HI & Hc).
  cbn [hs_msgs hs_stop hs_st hs_buf] in HI, Hc. fold q st in HI, Hc.
  pose proof (decode_ring_spec v F (rh_d s) Hq Hc) as Hdr. fold q st in Hdr.
  pose proof (dec_call_live v F st (contents q) (ring_frags q) [qoff q mod 16] Hc Hl) as Hlive.
  pose proof (dec_call_honest v F st (contents q) (ring_frags q) [qoff q mod 16] Hc) as Hpost.
  unfold dqueue_recv. fold q st. destruct (Nat.eqb_spec (qlen q) 0); [contradiction|].
  destruct (dec_call_res v st (contents q) (ring_frags q) [qoff q mod 16] false) as [[r st1] flat1].
  destruct Hdr as (q1 & -> & Hq1 & Hc1 & Hl1 & Hm1 & Ho1). cbn [bind].
  destruct Hlive as [(-> & pre' & tl' & Eu & Hz' & Hcur)|(-> & Hl1' & j & Hcur & Hzj & Hgap & Hcons)].
  - (* delivered by the first decoding *)
    destruct Hpost as (k & body & _ & _ & _ & Hsk & _ & _ & Hc' & Hm').
    destruct (deliver_outcome v s q1 st1 Hq1 ltac:(rewrite Hc1; exact Hc') Hm') as (S1 & S2 & S3 & S4 & S5).
    split; [exact S1|]. split; [exact S2|]. left. split; [exact S3|]. split; [exact S4|].
    rewrite S5, Hc1, Hsk, Hcur. rewrite <- Nat.add_assoc, <- skipn_skipn', Hun.
    apply (unread_tail pre pre' tl tl'); try assumption; [|reflexivity]. rewrite <- Hun. exact Eu.
  - (* out of scratch space: recovery *)
    destruct Hpost as (k & _ & _ & _ & Hsk & Hc' & Hm').
    pose proof (nozero_firstn_le pre tl j ltac:(rewrite <- Hun; exact Hzj)) as Hj.
    assert (Hun1 : skipn (dcurr st1) flat1 = skipn j pre ++ 0%N :: tl).
    { rewrite Hsk, Hcur, <- skipn_skipn', Hun. apply skipn_before_zero. exact Hj. }
    assert (Hz1 : nozero (skipn j pre) = true) by (apply nozero_skipn; exact Hz).
    assert (Hlen1 : length (skipn j pre) <= length pre) by (rewrite skipn_length; lia).
    rewrite <- Hl1.
    destruct (recv_recover_spec v _ q1 st1 Hq1 ltac:(rewrite Hc1; exact Hc'))
      as [[Hfull ->]|(q3 & pre_ & gap & Hq3 & Hc3 & Hgl & ->)].
    + (* no free space at all *)
      unfold rh_unread, rh_live. cbn [rh_after rh_stop rh_in rh_msgs rh_d dq_q dq_st].
      split; [reflexivity|]. split; [reflexivity|]. right. split; [reflexivity|].
      split; [rewrite Hc1; exact Hl1'|]. split; [lia|].
      exists (skipn j pre). rewrite Hc1. split; [exact Hun1|]. split; [assumption|]. split; [assumption|lia].
    + (* free space became scratch space: second decoding *)
      rewrite Hc1 in Hc3.
      set (st3 := st_rebuf st1 (length pre_) (length gap)) in *.
      destruct (cinv_rebuf v _ st1 flat1 pre_ gap Hc') as [Hc3' Hun3]. fold st3 in Hc3', Hun3. rewrite <- Hc3 in Hc3', Hun3.
      assert (Hl3 : slive v st3 (contents q3)).
      { rewrite Hc3. apply (slive_rebuf v _ st1 flat1 pre_ gap Hc' Hl1'). unfold gapof. lia. }
      pose proof (decode_ring_spec v _ (mkdq q3 st3) Hq3 Hc3') as Hdr3. cbn [dq_q dq_st] in Hdr3.
      pose proof (dec_call_live v _ st3 (contents q3) (ring_frags q3) [qoff q3 mod 16] Hc3' Hl3) as Hlive3.
      pose proof (dec_call_honest v _ st3 (contents q3) (ring_frags q3) [qoff q3 mod 16] Hc3') as Hpost3.
      destruct (dec_call_res v st3 (contents q3) (ring_frags q3) [qoff q3 mod 16] false) as [[r2 st2] flat2].
      destruct Hdr3 as (q4 & -> & Hq4 & Hc4 & _). cbn [bind].
      unfold live_result in Hlive3. rewrite Hun3, Hun1 in Hlive3.
      destruct Hlive3 as [(-> & pre' & tl' & Eu & Hz' & Hcur3)|(-> & Hl2 & j2 & Hcur3 & Hzj2 & Hgap3 & Hcons3)].
      * destruct Hpost3 as (k3 & body & _ & _ & _ & Hsk3 & _ & _ & Hc2' & Hm2').
        destruct (deliver_outcome v s q4 st2 Hq4 ltac:(rewrite Hc4; exact Hc2') Hm2') as (S1 & S2 & S3 & S4 & S5).
        split; [exact S1|]. split; [exact S2|]. left. split; [exact S3|]. split; [exact S4|].
        rewrite S5, Hc4, Hsk3, Hcur3. rewrite <- Nat.add_assoc, <- skipn_skipn', Hun3, Hun1.
        apply (unread_tail (skipn j pre) pre' tl tl'); try assumption. reflexivity.
      * destruct Hpost3 as (k3 & _ & _ & _ & Hsk3 & Hc2' & Hm2').
        unfold rh_unread, rh_live. cbn [rh_after rh_stop rh_in rh_msgs rh_d dq_q dq_st].
        split; [reflexivity|]. split; [reflexivity|]. right. split; [reflexivity|].
        split; [rewrite Hc4; exact Hl2|].
        pose proof (Hgap3 (skipn j pre) tl eq_refl Hz1) as Hg3. unfold st3 in Hg3. rewrite gapof_rebuf in Hg3.
        split; [lia|].
        pose proof (nozero_firstn_le (skipn j pre) tl j2 Hzj2) as Hj2.
        exists (skipn j2 (skipn j pre)). rewrite Hc4, Hsk3, Hcur3, <- skipn_skipn', Hun3, Hun1.
        split; [apply skipn_before_zero; exact Hj2|].
        split; [apply nozero_skipn; exact Hz1|].
        unfold st3 in Hcons3. rewrite gapof_rebuf in Hcons3. rewrite !skipn_length in *. split; lia.
Qed.

(* ---------- receive; if nothing came out, enlarge and receive again ---------- *)
Definition rh_round (v : variant) (n : nat) (fill : byte) (s : rh) : rh :=
  let s1 := rh_step v s RRecv in
  if length (rh_msgs s1) =? length (rh_msgs s) then rh_step v (rh_step v s1 (RGrow n fill)) RRecv else s1.

Lemma grow_outcome v s n fill : rh_inv v s -> rh_stop s = false ->
  let s2 := rh_step v s (RGrow n fill) in
  rh_stop s2 = false /\ rh_in s2 = rh_in s /\ rh_msgs s2 = rh_msgs s /\ rh_unread s2 = rh_unread s /\
  (rh_live v s -> rh_live v s2) /\ n <= rh_free s2.
Proof.
  intros [_ Hq] Est. specialize (Hq Est). cbn zeta. unfold rh_step. rewrite Est.
  destruct (qprepare_full (dq_q (rh_d s)) n fill Hq) as (q' & r & -> & Hq' & Hm & Hc & Hl & _).
  unfold rh_unread, rh_live, rh_free. cbn [rh_stop rh_in rh_msgs rh_d dq_q dq_st]. rewrite Hc.
  repeat (split; [reflexivity|]). split; [auto|].
  rewrite Hm, Hl. apply grow_cap_room. apply Hq.
Qed.

Theorem ring_round_delivers v s pre tl n fill :
  rh_inv v s -> rh_stop s = false -> rh_live v s -> rh_unread s = pre ++ 0%N :: tl -> nozero pre = true ->
  length pre + 17 <= n ->
  let s' := rh_round v n fill s in
  rh_inv v s' /\ rh_stop s' = false /\ rh_in s' = rh_in s /\
  length (rh_msgs s') = S (length (rh_msgs s)) /\ dcode (dq_st (rh_d s')) = 0 /\ rh_unread s' = tl.
Proof.
  intros Hi Est Hl Hun Hz Hn. cbn zeta. unfold rh_round.
  pose proof (rh_step_inv v s RRecv Hi) as Hi1.
  destruct (ring_recv_outcome v s pre tl Hi Est Hl Hun Hz) as (Est1 & Hin1 & [(Hm1 & Hc1 & Hu1)|(Hm1 & Hl1 & Hfree & pre1 & Hu1 & Hz1 & Hlen1 & Hcons1)]).
  - rewrite Hm1. destruct (Nat.eqb_spec (S (length (rh_msgs s))) (length (rh_msgs s))); [lia|].
    repeat (split; [assumption|]). assumption.
  - rewrite Hm1, Nat.eqb_refl.
    set (s1 := rh_step v s RRecv) in *.
    destruct (grow_outcome v s1 n fill Hi1 Est1) as (Est2 & Hin2 & Hm2 & Hu2 & Hl2 & Hfree2).
    pose proof (rh_step_inv v s1 (RGrow n fill) Hi1) as Hi2.
    set (s2 := rh_step v s1 (RGrow n fill)) in *.
    pose proof (rh_step_inv v s2 RRecv Hi2) as Hi3.
    destruct (ring_recv_outcome v s2 pre1 tl Hi2 Est2 (Hl2 Hl1) ltac:(rewrite Hu2; exact Hu1) Hz1)
      as (Est3 & Hin3 & [(Hm3 & Hc3 & Hu3)|(_ & _ & Hfree3 & _)]); [|lia].
    split; [assumption|]. split; [assumption|]. split; [congruence|]. split; [congruence|]. split; assumption.
Qed.

(* ---------- a stream of complete frames ---------- *)
Fixpoint rh_rounds (v : variant) (n : nat) (fill : byte) (k : nat) (s : rh) : rh :=
  match k with 0 => s | S k => rh_rounds v n fill k (rh_round v n fill s) end.

Lemma frames_of_app v : forall ms1 C1, frames_of v ms1 C1 -> forall ms2 C2, frames_of v ms2 C2 ->
  frames_of v (ms1 ++ ms2) (C1 ++ C2).
Proof.
  induction 1 as [|m ms body rest Hs Hz Hf IH]; intros ms2 C2 H2; [exact H2|].
  cbn [app]. rewrite <- !app_assoc. constructor; [assumption|assumption|]. apply IH. exact H2.
Qed.

Lemma idle_live v s C ms : dcode (dq_st (rh_d s)) = 0 -> rh_unread s = C -> frames_of v ms C -> ms <> [] -> rh_live v s.
Proof.
  intros Hc Hu Hf Hne. unfold rh_live, slive. rewrite Hc. cbn [Nat.eqb]. unfold rh_unread in Hu. rewrite Hu.
  destruct Hf as [|m ms' body rest Hs Hz Hf]; [contradiction|]. cbn [app]. apply (sdec_wfd0 v body m rest Hs).
Qed.

Theorem ring_rounds_count v : forall ms C, frames_of v ms C -> forall s n fill,
  rh_inv v s -> rh_stop s = false -> dcode (dq_st (rh_d s)) = 0 -> rh_unread s = C -> length C + 17 <= n ->
  let s' := rh_rounds v n fill (length ms) s in
  rh_inv v s' /\ rh_stop s' = false /\ rh_in s' = rh_in s /\
  length (rh_msgs s') = length (rh_msgs s) + length ms /\ dcode (dq_st (rh_d s')) = 0 /\ rh_unread s' = [].
Proof.
  induction 1 as [|m ms body rest Hs Hz Hf IH]; intros s n fill Hi Est Hc Hu Hn; cbn [length rh_rounds].
  - repeat (split; [assumption || reflexivity || lia|]). assumption.
  - assert (Hl : rh_live v s).
    { apply (idle_live v s (body ++ [0%N] ++ rest) (m :: ms) Hc Hu); [constructor; assumption|discriminate]. }
    rewrite !app_length in Hn. cbn [length] in Hn.
    destruct (ring_round_delivers v s body rest n fill Hi Est Hl Hu Hz ltac:(lia)) as (Hi1 & Est1 & Hin1 & Hm1 & Hc1 & Hu1).
    destruct (IH (rh_round v n fill s) n fill Hi1 Est1 Hc1 Hu1 ltac:(lia)) as (Hi2 & Est2 & Hin2 & Hm2 & Hc2 & Hu2).
    cbn zeta in *. split; [assumption|]. split; [assumption|]. split; [congruence|]. split; [lia|]. split; assumption.
Qed.

(* ---------- the growth policy of mpt_stream_dispatch: 64 bytes per attempt ---------- *)
(* one round with ANY enlargement n >= 18: the message, or at least n - 17 bytes of the frame
   consumed (every byte of scratch space is paid for by a consumed byte) *)
Theorem ring_round_progress v s pre tl n fill :
  rh_inv v s -> rh_stop s = false -> rh_live v s -> rh_unread s = pre ++ 0%N :: tl -> nozero pre = true ->
  let s' := rh_round v n fill s in
  rh_inv v s' /\ rh_stop s' = false /\ rh_in s' = rh_in s /\
  ((length (rh_msgs s') = S (length (rh_msgs s)) /\ dcode (dq_st (rh_d s')) = 0 /\ rh_unread s' = tl) \/
   (rh_msgs s' = rh_msgs s /\ rh_live v s' /\
    exists pre2, rh_unread s' = pre2 ++ 0%N :: tl /\ nozero pre2 = true /\ length pre2 + n <= length pre + 17)).
Proof.
  intros Hi Est Hl Hun Hz. cbn zeta. unfold rh_round.
  pose proof (rh_step_inv v s RRecv Hi) as Hi1.
  destruct (ring_recv_outcome v s pre tl Hi Est Hl Hun Hz) as (Est1 & Hin1 & [(Hm1 & Hc1 & Hu1)|(Hm1 & Hl1 & Hfree & pre1 & Hu1 & Hz1 & Hlen1 & Hcons1)]).
  - rewrite Hm1. destruct (Nat.eqb_spec (S (length (rh_msgs s))) (length (rh_msgs s))); [lia|].
    split; [assumption|]. split; [assumption|]. split; [assumption|]. left. split; [assumption|]. split; assumption.
  - rewrite Hm1, Nat.eqb_refl.
    set (s1 := rh_step v s RRecv) in *.
    destruct (grow_outcome v s1 n fill Hi1 Est1) as (Est2 & Hin2 & Hm2 & Hu2 & Hl2 & Hfree2).
    pose proof (rh_step_inv v s1 (RGrow n fill) Hi1) as Hi2.
    set (s2 := rh_step v s1 (RGrow n fill)) in *.
    pose proof (rh_step_inv v s2 RRecv Hi2) as Hi3.
    destruct (ring_recv_outcome v s2 pre1 tl Hi2 Est2 (Hl2 Hl1) ltac:(rewrite Hu2; exact Hu1) Hz1)
      as (Est3 & Hin3 & [(Hm3 & Hc3 & Hu3)|(Hm3 & Hl3 & _ & pre2 & Hu3 & Hz3 & Hlen3 & Hcons3)]).
    + split; [assumption|]. split; [assumption|]. split; [congruence|]. left. split; [congruence|]. split; assumption.
    + split; [assumption|]. split; [assumption|]. split; [congruence|]. right. split; [congruence|]. split; [assumption|].
      exists pre2. split; [assumption|]. split; [assumption|]. lia.
Qed.

(* rounds until the first delivery *)
Fixpoint rh_until (v : variant) (n : nat) (fill : byte) (k : nat) (s : rh) : rh :=
  match k with
  | 0 => s
  | S k => let s' := rh_round v n fill s in
           if length (rh_msgs s') =? length (rh_msgs s) then rh_until v n fill k s' else s'
  end.

(* with the dispatcher's policy (one enlargement by n = 64 per attempt): a complete frame of
   [length pre] bytes is delivered after at most length pre / (n - 17) + 1 attempts *)
Theorem ring_until_delivers v n fill : 18 <= n -> forall k s pre tl,
  rh_inv v s -> rh_stop s = false -> rh_live v s -> rh_unread s = pre ++ 0%N :: tl -> nozero pre = true ->
  length pre < (n - 17) * k ->
  let s' := rh_until v n fill k s in
  rh_inv v s' /\ rh_stop s' = false /\ rh_in s' = rh_in s /\
  length (rh_msgs s') = S (length (rh_msgs s)) /\ dcode (dq_st (rh_d s')) = 0 /\ rh_unread s' = tl.
Proof.
  intros Hn. induction k as [|k IH]; intros s pre tl Hi Est Hl Hun Hz Hk; [lia|].
  cbn [rh_until]. cbn zeta.
  destruct (ring_round_progress v s pre tl n fill Hi Est Hl Hun Hz) as (Hi' & Est' & Hin' & [(Hm' & Hc' & Hu')|(Hm' & Hl' & pre2 & Hu' & Hz' & Hlen')]).
  - rewrite Hm'. destruct (Nat.eqb_spec (S (length (rh_msgs s))) (length (rh_msgs s))); [lia|].
    split; [assumption|]. split; [assumption|]. split; [assumption|]. split; [assumption|]. split; assumption.
  - rewrite Hm', Nat.eqb_refl.
    destruct (IH (rh_round v n fill s) pre2 tl Hi' Est' Hl' Hu' Hz' ltac:(nia)) as (H1 & H2 & H3 & H4 & H5 & H6).
    cbn zeta in *. split; [assumption|]. split; [assumption|]. split; [congruence|]. split; [congruence|]. split; assumption.
Qed.
