(* Cobs/CobsModel.v — mechanism-level model of the resumable COBS encoders
   (mptcore/convert/encode_cobs.c, encode_cobs_r.c, encode_cobs_zpe.c).  No proofs.

   The four encoders are one C function under macros; [variant] carries the macro
   values.  The output window is modelled by its defined prefix [buf]
   (= finished bytes ++ open block), [cap] is the window size of the call.
   Inside the byte loop the open block is kept as (fin, open, code): the window
   holds  fin ++ [code] ++ open  when the call returns, because every exit of the
   C loop stores the placeholder  dst[-code] = code. *)
From MptV Require Export Base.Mem.
Local Open Scope nat_scope.

Record variant := mkv { maxlen : nat; zpe : bool; inl : bool }.
Definition v_cobs   := mkv 255 false false.
Definition v_cobs_r := mkv 255 false true.
Definition v_zpe    := mkv 223 true false.
Definition v_zpe_r  := mkv 223 true true.

Definition bz (b : byte) : bool := N.eqb b 0%N.
Definition nb (n : nat) : byte := N.of_nat n.
Definition bn (b : byte) : nat := N.to_nat b.

Record estate := mke { ectx : nat; edone : nat; escr : nat }.

(* result of one call: consumed count or error *)
Inductive eres := EInt (n : nat) | EErr (e : err) | EFault.  (* EFault: write outside the window *)

(* the byte loop of mpt_encode_cobs; returns (fin, open, code, left, unconsumed) *)
Fixpoint enc_loop (v : variant) (fin open : list byte) (code left : nat) (src : list byte)
  : list byte * list byte * nat * nat * list byte :=
  match src with
  | [] => (fin, open, code, left, [])
  | b :: rest =>
    if bz b then
      (* MPT_cobs_zero: close the block; ZPE folds a following zero of the same push *)
      match rest with
      | b2 :: rest2 =>
        if zpe v && (1 <? code) && (code <? 32) && bz b2 then
          let fin' := fin ++ nb (code + maxlen v) :: open in
          if left - 1 =? 0 then (fin', [], 1, 0, rest2) else enc_loop v fin' [] 1 (left - 1) rest2
        else
          let fin' := fin ++ nb code :: open in
          if left - 1 =? 0 then (fin', [], 1, 0, rest) else enc_loop v fin' [] 1 (left - 1) rest
      | [] =>
        let fin' := fin ++ nb code :: open in
        (fin', [], 1, left - 1, [])
      end
    else
      if S code =? maxlen v then
        if left - 1 =? 0 then (fin, open, code, left, src)          (* roll the byte back *)
        else
          let fin' := fin ++ nb (S code) :: (open ++ [b]) in
          if left - 2 =? 0 then (fin', [], 1, 0, rest) else enc_loop v fin' [] 1 (left - 2) rest
      else
        if left - 1 =? 0 then (fin, open ++ [b], S code, 0, rest)
        else enc_loop v fin (open ++ [b]) (S code) (left - 1) rest
  end.

Definition fin_of (st : estate) (buf : list byte) := firstn (edone st) buf.
Definition open_of (st : estate) (buf : list byte) := skipn (S (edone st)) buf.

(* mpt_encode_cobs (regular part), arg = None: terminate, Some chunk: data *)
Definition enc_regular (v : variant) (st : estate) (buf : list byte) (cap : nat)
           (arg : option (list byte)) : eres * estate * list byte :=
  let code := escr st in
  let len := edone st in
  if (cap <? len) || (cap - len <? code) then (EErr BadArgument, st, buf) else
  let left := cap - len in
  let fin := fin_of st buf in
  let open := open_of st buf in
  match arg with
  | None =>
    if left <=? code then (EErr MissingBuffer, st, buf)
    else if code =? 0 then
      if left <? 2 then (EErr MissingBuffer, st, buf)
      else (EInt 0, mke 0 (len + 2) 0, fin ++ [1%N; 0%N])
    else (EInt 0, mke 0 (len + code + 1) 0, fin ++ nb code :: open ++ [0%N])
  | Some src =>
    if length src =? 0 then (EErr BadValue, st, buf) else
    let start :=
      if negb (code =? 0) then
        if left - code =? 0 then None
        else if (left - code <? 2) && (code =? maxlen v - 1) then None
        else Some (open, code, left - code)
      else
        if left <=? 1 then None else Some ([], 1, left - 1) in
    match start with
    | None => (EErr MissingBuffer, st, buf)
    | Some (open0, code0, left0) =>
      let '(fin', open', code', left', rest) := enc_loop v fin open0 code0 left0 src in
      let total := cap - left' in
      (EInt (length src - length rest),
       mke (ectx st + (total - edone st - escr st)) (total - code') code',
       fin' ++ nb code' :: open')
    end
  end.

(* MPT_cobs_check_inline *)
Definition check_inline (v : variant) (code : nat) (e : byte) : bool :=
  if zpe v then (code <=? maxlen v) && (code <? bn e) && (bn e <=? maxlen v)
  else code <? bn e.

(* mpt_encode_cobs_r: termination with tail inlining *)
Definition enc_r_term (v : variant) (st : estate) (buf : list byte) (cap : nat)
  : eres * estate * list byte :=
  let code := escr st in
  let off := edone st in
  if cap <? off then (EErr BadArgument, st, buf) else
  (* the C function does not re-check that the open block lies inside the window *)
  if cap <? off + code then (EFault, st, buf) else
  let fin := fin_of st buf in
  let open := open_of st buf in
  let e := last open 0%N in
  if (1 <? code) && check_inline v code e then
    (EInt 0, mke 0 (off + code) 0, fin ++ e :: removelast open ++ [0%N])
  else if cap - off <=? code then (EErr MissingBuffer, st, buf)
  else (EInt 0, mke 0 (off + code + 1) 0, fin ++ nb code :: open ++ [0%N]).

Definition enc_call (v : variant) (st : estate) (buf : list byte) (cap : nat)
           (arg : option (list byte)) : eres * estate * list byte :=
  match arg with
  | None => if inl v && negb (escr st =? 0) then enc_r_term v st buf cap
            else enc_regular v st buf cap None
  | Some _ => enc_regular v st buf cap arg
  end.

(* ---------- reference decoder (specification side), by block recursion ---------- *)
Definition len_data (v : variant) (c : nat) : nat :=
  if zpe v then (if c <=? maxlen v then c - 1 else c - 224) else c - 1.
(* zeros implied after a block that is followed by another block *)
Definition zeros_after (v : variant) (c : nat) : nat :=
  if zpe v && (224 <=? c) then 2 else if c <? maxlen v then 1 else 0.
(* zeros implied after the last block of a frame *)
Definition zeros_last (v : variant) (c : nat) : nat :=
  if zpe v && (224 <=? c) then 2 else 0.

Definition nozero (l : list byte) : bool := forallb (fun b => negb (bz b)) l.
Definition zeros (n : nat) : list byte := repeat 0%N n.

(* [body] = frame without its delimiter *)
Fixpoint sdec_body (fuel : nat) (v : variant) (body : list byte) : option (list byte) :=
  match fuel with
  | 0 => None
  | S fuel =>
    match body with
    | [] => None
    | c :: rest =>
      if bz c then None else
      let n := len_data v (bn c) in
      if length rest <? n then
        (* block cut short by the delimiter: only COBS/R, the code byte is the last data byte *)
        if inl v && nozero rest then Some (rest ++ [c]) else None
      else
        let d := firstn n rest in
        let rest' := skipn n rest in
        if negb (nozero d) then None else
        match rest' with
        | [] => Some (d ++ zeros (zeros_last v (bn c)))
        | _ => match sdec_body fuel v rest' with
               | Some t => Some (d ++ zeros (zeros_after v (bn c)) ++ t)
               | None => None
               end
        end
    end
  end.

Definition sdec (v : variant) (body : list byte) : option (list byte) :=
  sdec_body (S (length body)) v body.

(* split a byte stream at its zero delimiters: (complete frame bodies, unterminated rest) *)
Fixpoint split_frames (cur : list byte) (s : list byte) : list (list byte) * list byte :=
  match s with
  | [] => ([], cur)
  | b :: s' => if bz b then let '(fs, r) := split_frames [] s' in (cur :: fs, r)
               else split_frames (cur ++ [b]) s'
  end.

(* ---------- operations as data (driver level) ---------- *)
Inductive cop :=
| CCall (cap : nat) (d : list byte)     (* one data call *)
| CTerm (cap : nat)                     (* one termination call *)
| CPushAll (sched : list nat) (d : list byte)   (* array_push-like loop with growth schedule *)
| CTermAll (sched : list nat)
| CMsg
| CPy (m frame : list byte)    (* a frame produced by mpt.py:encode_cobs for m *)
| CAPush (d : list byte)       (* mpt_array_push(arr, len, data); len = 0 terminates *)
| CATerm.                      (* mpt_array_push(arr, 0, 0) *)

Record cstate := mkc { cst : estate; cbuf : list byte; ccap : nat }.

(* the retry loop: on MissingBuffer grow by the next increment (cyclic) *)
Fixpoint push_loop (fuel : nat) (v : variant) (st : estate) (buf : list byte) (cap : nat)
         (sched : list nat) (sp : nat) (d : option (list byte)) (off : nat)
  : eres * estate * list byte * nat :=
  match fuel with
  | 0 => (EErr BadOperation, st, buf, cap)
  | S fuel =>
    let arg := match d with Some l => Some (skipn off l) | None => None end in
    let '(r, st', buf') := enc_call v st buf cap arg in
    match r with
    | EErr MissingBuffer =>
      let inc := nth (sp mod (length sched)) sched 0 in
      if inc =? 0 then (r, st', buf', cap)
      else push_loop fuel v st' buf' (cap + inc) sched (S sp) d off
    | EErr _ | EFault => (r, st', buf', cap)
    | EInt k =>
      match d with
      | None => (EInt 0, st', buf', cap)
      | Some l => if length l <=? off + k then (EInt (off + k), st', buf', cap)
                  else if k =? 0 then (EInt off, st', buf', cap)   (* no progress: harness gives up *)
                  else push_loop fuel v st' buf' cap sched sp d (off + k)
      end
    end
  end.

(* ---------- mpt_array_push (mptcore/array/array_push.c) with an encoder ---------- *)
(* the encode_array owns a private raw buffer; [buf] = its used bytes = the encoder window
   (used = done + scratch), [cap] = its size, 0 = no buffer yet.
   _mpt_buffer_alloc rounds sizes: 128-byte pages minus the 64-byte header. *)
Definition abuf_size (len : nat) : nat := ((len + 64 - 1) / 128 + 1) * 128 - 64.
(* detach of a private buffer: kept if large enough, else moved to a new block *)
Definition abuf_detach (cap len : nat) : nat := if len <=? cap then cap else abuf_size len.

Definition encfn := estate -> list byte -> nat -> option (list byte) -> eres * estate * list byte.

Fixpoint apush_loop (fuel : nat) (enc : encfn) (st : estate) (buf : list byte) (cap : nat)
         (d : option (list byte)) (off : nat) : eres * estate * list byte * nat :=
  match fuel with
  | 0 => (EFault, st, buf, cap)
  | S fuel =>
    let arg := match d with Some l => Some (skipn off l) | None => None end in
    let '(r, st', buf') := enc st buf cap arg in
    if cap <? edone st' + escr st' then (EErr BadEncoding, mke 0 0 0, buf', cap)   (* "invalid encoder data size" *)
    else
    match r with
    | EErr MissingBuffer => apush_loop fuel enc st' buf' (abuf_detach cap (cap + 64)) d off
    | EErr e => (if off =? 0 then EErr e else EInt off, st', buf', cap)
    | EFault => (EFault, st', buf', cap)
    | EInt k =>
      match d with
      | None => (EInt (off + k), st', buf', cap)
      | Some l =>
        let len := length l - off in
        if len <? k then (EErr BadEncoding, mke 0 0 0, buf', cap)    (* "bad encoder return size" *)
        else if len - k =? 0 then (EInt (off + k), st', buf', cap)
        else apush_loop fuel enc st' buf' cap d (off + k)
      end
    end
  end.

(* [d] = Some data | None (len = 0: terminate) *)
Definition apush (enc : encfn) (st : estate) (buf : list byte) (cap : nat) (d : option (list byte))
  : eres * estate * list byte * nat :=
  let d := match d with Some [] => None | x => x end in
  let len := match d with Some l => length l | None => 0 end in
  let max := edone st + escr st in
  let add := Nat.max len 64 in
  if (cap =? 0) && negb (max =? 0) then (EErr BadArgument, st, buf, cap) else
  let cap1 := if cap =? 0 then abuf_size add else abuf_detach cap (max + add) in
  if length buf <? max then (EErr BadArgument, st, buf, cap1) else
  apush_loop (4 * len + 64) enc st buf cap1 d 0.
