From MptV Require Import Base.Mem Cobs.CobsModel Cobs.CobsRun Cobs.EncDelete.
Require Import ExtrOcamlBasic.
Extraction "cobs_model.ml" crun csrun cinit sinit v_cobs v_cobs_r v_zpe v_zpe_r sdec FCobs FText cstep cspec_step enc_delete_current.
