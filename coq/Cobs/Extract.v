From MptV Require Import Base.Mem Cobs.CobsModel Cobs.CobsRun.
Require Import ExtrOcamlBasic.
Extraction "cobs_model.ml" crun csrun cinit sinit v_cobs v_cobs_r v_zpe v_zpe_r sdec FCobs FText.
