(* Cobs/EncDelete.v — the encoder's bookkeeping of the message in progress ([_ctx], the number of
   output bytes the current message occupies so far) and the request built on it: DELETE THE MESSAGE
   IN PROGRESS (mpt_encode_cobs with a source of length 1 and no data; what mpt_stream_reply rolls
   back with through mpt_stream_push(srm, 1, 0)).  As patched in /repo (ea46206): the message in
   progress starts [_ctx] bytes before the end of the used output, its finished blocks are part of
   it.  Theorems: every data call keeps [_ctx] exact, a termination clears it, and the deletion
   restores exactly the stream of the completed messages, in the idle state. *)
From MptV Require Import Base.Mem Base.Tactics Cobs.CobsModel Cobs.EncProofs.
Local Open Scope nat_scope.

(* [ectx] = output bytes of the message in progress ([pre] = the frames of the completed messages) *)
Definition ctx_ok (pre : list byte) (st : estate) : Prop :=
  ectx st + length pre = edone st + escr st.

(* the deletion request for the message in progress, mpt_encode_cobs lines 100-125 with len = 1 *)
Definition enc_delete_current (st : estate) (buf : list byte) : option (eres * estate * list byte) :=
  if ectx st =? 0 then None     (* nothing in progress: the request concerns finished messages (not modelled) *)
  else
    let curr := edone st + escr st in
    if curr <? ectx st then Some (EErr BadValue, st, buf)
    else let pos := curr - ectx st in Some (EInt pos, mke 0 pos 0, firstn pos buf).

Lemma enc_loop_left v : forall n src fin open code left, length src <= n ->
  let '(_, _, _, left', _) := enc_loop v fin open code left src in left' <= left.
Proof.
  induction n as [|n IH]; intros src fin open code left Hn.
  { destruct src; [cbn [enc_loop]; lia|cbn in Hn; lia]. }
  destruct src as [|b rest]; [cbn [enc_loop]; lia|]. cbn [length] in Hn. cbn [enc_loop].
  destruct (bz b).
  - destruct rest as [|b2 rest2]; [lia|]. cbn [length] in Hn.
    destruct (zpe v && (1 <? code) && (code <? 32) && bz b2).
    + destruct (left - 1 =? 0); [lia|].
      pose proof (IH rest2 (fin ++ nb (code + maxlen v) :: open) [] 1 (left - 1) ltac:(lia)) as H.
      destruct (enc_loop v (fin ++ nb (code + maxlen v) :: open) [] 1 (left - 1) rest2) as [[[[? ?] ?] l'] ?]. lia.
    + destruct (left - 1 =? 0); [lia|].
      pose proof (IH (b2 :: rest2) (fin ++ nb code :: open) [] 1 (left - 1) ltac:(cbn [length]; lia)) as H.
      destruct (enc_loop v (fin ++ nb code :: open) [] 1 (left - 1) (b2 :: rest2)) as [[[[? ?] ?] l'] ?]. lia.
  - destruct (S code =? maxlen v).
    + destruct (left - 1 =? 0); [lia|]. destruct (left - 2 =? 0); [lia|].
      pose proof (IH rest (fin ++ nb (S code) :: open ++ [b]) [] 1 (left - 2) ltac:(lia)) as H.
      destruct (enc_loop v (fin ++ nb (S code) :: open ++ [b]) [] 1 (left - 2) rest) as [[[[? ?] ?] l'] ?]. lia.
    + destruct (left - 1 =? 0); [lia|].
      pose proof (IH rest fin (open ++ [b]) (S code) (left - 1) ltac:(lia)) as H.
      destruct (enc_loop v fin (open ++ [b]) (S code) (left - 1) rest) as [[[[? ?] ?] l'] ?]. lia.
Qed.

Lemma enc_loop_conserve v : forall n src fin open code left, length src <= n ->
  code = S (length open) -> 1 <= left ->
  let '(fin', _, code', left', _) := enc_loop v fin open code left src in
  length fin' + code' + left' = length fin + code + left.
Proof.
  induction n as [|n IH]; intros src fin open code left Hn Hc Hl.
  { destruct src; [cbn [enc_loop]; lia|cbn in Hn; lia]. }
  destruct src as [|b rest]; [cbn [enc_loop]; lia|]. cbn [length] in Hn. cbn [enc_loop].
  destruct (bz b).
  - destruct rest as [|b2 rest2]; [rewrite app_length; cbn [length]; lia|]. cbn [length] in Hn.
    destruct (zpe v && (1 <? code) && (code <? 32) && bz b2).
    + destruct (Nat.eqb_spec (left - 1) 0); [rewrite app_length; cbn [length]; lia|].
      pose proof (IH rest2 (fin ++ nb (code + maxlen v) :: open) [] 1 (left - 1) ltac:(lia) eq_refl ltac:(lia)) as H.
      destruct (enc_loop v (fin ++ nb (code + maxlen v) :: open) [] 1 (left - 1) rest2) as [[[[f' ?] c'] l'] ?].
      rewrite app_length in H. cbn [length] in H. lia.
    + destruct (Nat.eqb_spec (left - 1) 0); [rewrite app_length; cbn [length]; lia|].
      pose proof (IH (b2 :: rest2) (fin ++ nb code :: open) [] 1 (left - 1) ltac:(cbn [length]; lia) eq_refl ltac:(lia)) as H.
      destruct (enc_loop v (fin ++ nb code :: open) [] 1 (left - 1) (b2 :: rest2)) as [[[[f' ?] c'] l'] ?].
      rewrite app_length in H. cbn [length] in H. lia.
  - destruct (S code =? maxlen v).
    + destruct (Nat.eqb_spec (left - 1) 0); [lia|].
      destruct (Nat.eqb_spec (left - 2) 0); [rewrite !app_length; cbn [length]; rewrite app_length; cbn [length]; lia|].
      pose proof (IH rest (fin ++ nb (S code) :: open ++ [b]) [] 1 (left - 2) ltac:(lia) eq_refl ltac:(lia)) as H.
      destruct (enc_loop v (fin ++ nb (S code) :: open ++ [b]) [] 1 (left - 2) rest) as [[[[f' ?] c'] l'] ?].
      rewrite app_length in H. cbn [length] in H. rewrite app_length in H. cbn [length] in H. lia.
    + destruct (Nat.eqb_spec (left - 1) 0); [lia|].
      pose proof (IH rest fin (open ++ [b]) (S code) (left - 1) ltac:(lia) ltac:(rewrite app_length; cbn [length]; lia) ltac:(lia)) as H.
      destruct (enc_loop v fin (open ++ [b]) (S code) (left - 1) rest) as [[[[f' ?] c'] l'] ?]. lia.
Qed.

Lemma enc_inv_used v pre consumed st buf : enc_inv v pre consumed st buf ->
  length buf = edone st + escr st /\ firstn (length pre) buf = pre /\ length pre <= edone st.
Proof.
  intros [H0 Hd Hb Hc | bs open Hli Hd Hb].
  - subst buf. rewrite H0, Hd, firstn_all. split; [lia|]. split; [reflexivity|lia].
  - destruct Hli as [_ _ Hcode _ _]. subst buf. rewrite !app_length in *. cbn [length].
    split; [lia|].
    split; [rewrite <- app_assoc; apply firstn_app_exact|lia].
Qed.

(* a data call keeps the count exact *)
Lemma enc_data_call_ctx v pre consumed st buf cap src : variant_ok v ->
  enc_inv v pre consumed st buf -> ctx_ok pre st ->
  match enc_call v st buf cap (Some src) with
  | (EInt _, st', _) => ctx_ok pre st'
  | (EErr _, st', _) => st' = st
  | (EFault, _, _) => False
  end.
Proof.
  intros Hv Hinv Hctx.
  pose proof (enc_data_call v pre consumed st buf cap src Hv Hinv) as Hcall.
  pose proof (enc_inv_used v pre consumed st buf Hinv) as (_ & _ & Hpre).
  unfold ctx_ok in *. cbn [enc_call] in *. unfold enc_regular in *.
  destruct ((cap <? edone st) || (cap - edone st <? escr st)) eqn:Hchk; [reflexivity|].
  apply orb_false_elim in Hchk. destruct Hchk as [Hc1 Hc2]. apply Nat.ltb_ge in Hc1, Hc2.
  destruct (Nat.eqb_spec (length src) 0); [reflexivity|].
  set (start := if negb (escr st =? 0)
                then if cap - edone st - escr st =? 0 then None
                     else if (cap - edone st - escr st <? 2) && (escr st =? maxlen v - 1) then None
                     else Some (open_of st buf, escr st, cap - edone st - escr st)
                else if cap - edone st <=? 1 then None else Some ([], 1, cap - edone st - 1)) in *.
  destruct start as [[[open0 code0] left0]|] eqn:Es; [|reflexivity].
  assert (Hleft : left0 + edone st + escr st <= cap /\ (escr st = 0 -> left0 + edone st + 1 = cap) /\ (escr st <> 0 -> left0 + edone st + escr st = cap)).
  { unfold start in Es. destruct (Nat.eqb_spec (escr st) 0) as [E0|E0]; cbn [negb] in Es.
    - destruct (Nat.leb_spec (cap - edone st) 1); [discriminate|]. inversion Es; subst. repeat split; lia.
    - destruct (cap - edone st - escr st =? 0) eqn:Z; [discriminate|]. apply Nat.eqb_neq in Z.
      destruct ((cap - edone st - escr st <? 2) && (escr st =? maxlen v - 1)); [discriminate|].
      inversion Es; subst. repeat split; lia. }
  assert (Hcode0 : code0 = S (length open0) /\ 1 <= left0 /\ (escr st = 0 -> code0 = 1) /\ (escr st <> 0 -> code0 = escr st)).
  { unfold start in Es. destruct (Nat.eqb_spec (escr st) 0) as [E0|E0]; cbn [negb] in Es.
    - destruct (Nat.leb_spec (cap - edone st) 1); [discriminate|]. inversion Es; subst. repeat split; try reflexivity; lia.
    - destruct (cap - edone st - escr st =? 0) eqn:Z; [discriminate|]. apply Nat.eqb_neq in Z.
      destruct ((cap - edone st - escr st <? 2) && (escr st =? maxlen v - 1)); [discriminate|].
      inversion Es; subst.
      destruct (enc_inv_fin v pre consumed st buf Hinv) as [(H0 & _)|(bs & open & Hi & _ & Hopen & _)]; [lia|].
      destruct Hi as [_ _ Hc _ _]. rewrite Hopen. repeat split; try assumption; try lia; intros; congruence. }
  destruct Hcode0 as (Hc0 & Hl0 & Hn0 & Hn1).
  pose proof (enc_loop_left v (length src) src (fin_of st buf) open0 code0 left0 (le_n _)) as Hl.
  pose proof (enc_loop_conserve v (length src) src (fin_of st buf) open0 code0 left0 (le_n _) Hc0 Hl0) as Hcons.
  destruct (enc_loop v (fin_of st buf) open0 code0 left0 src) as [[[[fin' open'] code'] left'] rest'].
  destruct Hcall as (_ & Hinv' & Hcap). cbn [edone escr ectx] in *.
  (* the new state is (ectx + grown, total - code', code') with total = cap - left' *)
  assert (Hfin : length (fin_of st buf) = edone st).
  { unfold fin_of. rewrite firstn_length. pose proof (enc_inv_used v pre consumed st buf Hinv) as (Hlen & _). lia. }
  destruct Hleft as (H1 & H2 & H3).
  destruct (Nat.eq_dec (escr st) 0) as [E0|E0]; [specialize (H2 E0); specialize (Hn0 E0)|specialize (H3 E0); specialize (Hn1 E0)]; lia.
Qed.

(* a termination ends the message: nothing is in progress, the whole output is finished frames *)
Lemma enc_term_call_ctx v pre consumed st buf cap : variant_ok v ->
  enc_inv v pre consumed st buf -> edone st + escr st <= cap ->
  match enc_call v st buf cap None with
  | (EInt _, st', buf') => ectx st' = 0 /\ ctx_ok buf' st'
  | (EErr _, st', _) => st' = st
  | (EFault, _, _) => False
  end.
Proof.
  intros Hv Hinv Hwin.
  pose proof (enc_term_call v pre consumed st buf cap Hv Hinv Hwin) as Hcall.
  assert (Hz : match enc_call v st buf cap None with (EInt _, st', _) => ectx st' = 0 | _ => True end).
  { cbn [enc_call]. destruct (inl v && negb (escr st =? 0)).
    - unfold enc_r_term. repeat (match goal with |- context [if ?c then _ else _] => destruct c end; try exact I; try reflexivity).
    - unfold enc_regular. repeat (match goal with |- context [if ?c then _ else _] => destruct c end; try exact I; try reflexivity). }
  destruct (enc_call v st buf cap None) as [[r st'] buf']. destruct r as [k|e|]; [|apply Hcall|exact Hcall].
  destruct Hcall as (body & _ & _ & _ & [Hs Hd] & _). split; [exact Hz|]. unfold ctx_ok. rewrite Hz, Hs, Hd. lia.
Qed.

(* DELETION of the message in progress restores the stream of the completed messages exactly *)
Theorem enc_delete_restores v pre consumed st buf :
  enc_inv v pre consumed st buf -> ctx_ok pre st -> ectx st <> 0 ->
  enc_delete_current st buf = Some (EInt (length pre), mke 0 (length pre) 0, pre) /\
  enc_inv v pre [] (mke 0 (length pre) 0) pre /\ ctx_ok pre (mke 0 (length pre) 0).
Proof.
  intros Hinv Hctx Hne. pose proof (enc_inv_used v pre consumed st buf Hinv) as (Hlen & Hfirst & Hpre).
  unfold ctx_ok in Hctx. unfold enc_delete_current.
  destruct (Nat.eqb_spec (ectx st) 0); [contradiction|].
  destruct (Nat.ltb_spec (edone st + escr st) (ectx st)); [lia|].
  replace (edone st + escr st - ectx st) with (length pre) by lia. rewrite Hfirst.
  split; [reflexivity|]. split; [constructor; reflexivity|]. unfold ctx_ok. cbn [ectx edone escr]. lia.
Qed.

(* ... and while nothing is in progress the count is zero: the request does not concern this message *)
Lemma ctx_idle pre st : ctx_ok pre st -> escr st = 0 -> edone st = length pre -> ectx st = 0.
Proof. unfold ctx_ok. intros. lia. Qed.

(* non-vacuity: two finished frames, a message in progress with a closed and an open block, then the deletion *)
Example enc_delete_example :
  let pre := [2; 65; 0; 1; 0]%N in
  let '(_, st1, buf1) := enc_call v_cobs (mke 0 5 0) pre 64 (Some [7; 0; 8; 9]%N) in
  ectx st1 = 5 /\ buf1 = (pre ++ [2; 7; 3; 8; 9])%N /\
  enc_delete_current st1 buf1 = Some (EInt 5, mke 0 5 0, pre).
Proof. vm_compute. repeat split; reflexivity. Qed.
