(* Cobs/DecProofs.v — the block loop of the in-place decoder: gap accounting (writes stay
   behind reads), independence of the segmentation, honesty (a delivered message is the
   reference decoding of the consumed frame) and completeness on well-formed frames. *)
From MptV Require Import Base.Mem Base.Tactics Cobs.CobsModel Cobs.DecModel Cobs.EncProofs.
Local Open Scope nat_scope.

Lemma nb_bn b : nb (bn b) = b.
Proof. unfold nb, bn. apply N2Nat.id. Qed.

Lemma bn_pos b : bz b = false -> 1 <= bn b.
Proof. unfold bz, bn. intros H. apply N.eqb_neq in H. lia. Qed.

Lemma zeros_length n : length (zeros n) = n.
Proof. apply repeat_length. Qed.

Lemma zeros_app a b : zeros (a + b) = zeros a ++ zeros b.
Proof. unfold zeros. apply repeat_app. Qed.

(* ---------- 1. gap accounting ---------- *)
(* writes + gap = reads: every byte appended to the output was paid for by a consumed input
   byte or by the gap, so the write position never passes the read position *)
Lemma dec_loop_gap v peek : forall inp code pos proc out cons,
  let r := dec_loop v peek inp code pos proc out cons in
  exists added, lout r = out ++ added /\ cons <= lcons r /\ lcons r - cons <= length inp /\
    length added + lproc r = proc + (lcons r - cons).
Proof.
  induction inp as [|b rest IH]; intros code pos proc out cons; cbn [dec_loop].
  - destruct (pos <? len_data v code); [|destruct peek];
      cbn [lout lcons lproc]; exists []; rewrite app_nil_r; cbn [length]; repeat split; lia.
  - destruct (pos <? len_data v code).
    + destruct (bz b); [cbn [lout lcons lproc]; exists []; rewrite app_nil_r; cbn [length]; repeat split; lia|].
      destruct (Nat.eqb_spec proc 0); [cbn [lout lcons lproc]; exists []; rewrite app_nil_r; cbn [length]; repeat split; lia|].
      specialize (IH code (S pos) proc (out ++ [b]) (S cons)). cbn zeta in IH.
      destruct IH as (added & Ho & Hc1 & Hc2 & Hg).
      exists (b :: added). rewrite Ho, <- app_assoc. cbn [app length] in *. repeat split; lia.
    + destruct peek; [cbn [lout lcons lproc]; exists []; rewrite app_nil_r; cbn [length]; repeat split; lia|].
      set (k := len_data v code + len_zero v code b - pos).
      destruct (Nat.ltb_spec proc k).
      * cbn [lout lcons lproc]. exists (zeros proc). rewrite zeros_length. cbn [length]. repeat split; lia.
      * destruct (bz b).
        -- cbn [lout lcons lproc]. exists (zeros k). rewrite zeros_length. cbn [length]. repeat split; lia.
        -- specialize (IH (bn b) 0 (proc - k + 1) (out ++ zeros k) (S cons)). cbn zeta in IH.
           destruct IH as (added & Ho & Hc1 & Hc2 & Hg).
           exists (zeros k ++ added). rewrite Ho, <- app_assoc, app_length, zeros_length.
           cbn [length] in *. repeat split; lia.
Qed.

(* ---------- 2. segmentation independence ---------- *)
(* if a call stopped because the readable input ran out, continuing with more input gives the
   same result as one call on the concatenation *)
Lemma dec_loop_app v : forall inp1 inp2 code pos proc out cons,
  let r1 := dec_loop v false inp1 code pos proc out cons in
  lr r1 = DMore -> lcons r1 - cons = length inp1 ->
  dec_loop v false (inp1 ++ inp2) code pos proc out cons =
  dec_loop v false inp2 (lcode r1) (lpos r1) (lproc r1) (lout r1) (lcons r1).
Proof.
  induction inp1 as [|b rest IH]; intros inp2 code pos proc out cons r1 Hr Hc.
  - subst r1. cbn [dec_loop app] in *. destruct (pos <? len_data v code); reflexivity.
  - subst r1. cbn [dec_loop app length] in *.
    destruct (pos <? len_data v code).
    + destruct (bz b); [discriminate|].
      destruct (Nat.eqb_spec proc 0); [cbn [lcons] in Hc; lia|].
      pose proof (dec_loop_gap v false rest code (S pos) proc (out ++ [b]) (S cons)) as (a & _ & G1 & G2 & _).
      apply IH; [assumption|lia].
    + set (k := len_data v code + len_zero v code b - pos) in *.
      destruct (Nat.ltb_spec proc k); [discriminate|].
      destruct (bz b); [discriminate|].
      pose proof (dec_loop_gap v false rest (bn b) 0 (proc - k + 1) (out ++ zeros k) (S cons)) as (a & _ & G1 & G2 & _).
      apply IH; [assumption|lia].
Qed.

(* ---------- 3. honesty ---------- *)
Lemma sdec_last_general v c d : 1 <= c -> length d = len_data v c -> nozero d = true ->
  forall f, length (nb c :: d) < f -> sdec_body f v (nb c :: d) = Some (d ++ zeros (zeros_last v c)).
Proof.
  intros H1 H2 H3 f Hf. destruct f as [|f]; [lia|].
  cbn [sdec_body]. rewrite bz_nb by assumption. rewrite bn_nb.
  destruct (Nat.ltb_spec (length d) (len_data v c)); [lia|].
  assert (Hfn : firstn (len_data v c) d = d) by (rewrite <- H2; apply firstn_all).
  assert (Hsk : skipn (len_data v c) d = []) by (rewrite <- H2; apply skipn_all).
  rewrite Hfn, Hsk, H3. reflexivity.
Qed.

Lemma sdec_frame_general v bs c d : Forall (block_ok v) bs ->
  1 <= c -> length d = len_data v c -> nozero d = true ->
  sdec v (flat bs ++ nb c :: d) = Some (dec_closed v bs ++ d ++ zeros (zeros_last v c)).
Proof.
  intros Hbs H1 H2 H3. unfold sdec.
  apply (sdec_closed v bs Hbs (nb c :: d) (d ++ zeros (zeros_last v c))); [discriminate| |lia].
  apply sdec_last_general; assumption.
Qed.

(* F: the bytes of the current frame consumed so far (from its first code byte on);
   msg: the bytes decoded so far; (code, pos): the resume context, inside the data part *)
Definition hon (v : variant) (F msg : list byte) (code pos : nat) : Prop :=
  exists bs d, Forall (block_ok v) bs /\ nozero d = true /\
    F = flat bs ++ nb code :: d /\ length d = pos /\ pos <= len_data v code /\ 1 <= code /\
    msg = dec_closed v bs ++ d.

Lemma len_zero_nz v c b : bz b = false -> len_zero v c b = zeros_after v c.
Proof. intros H. unfold len_zero, zeros_after. rewrite H. cbn [negb]. rewrite andb_true_r. reflexivity. Qed.

Lemma len_zero_z v c b : bz b = true -> len_zero v c b = zeros_last v c.
Proof.
  intros H. unfold len_zero, zeros_last. rewrite H. cbn [negb]. rewrite andb_false_r.
  destruct (zpe v && (224 <=? c)); reflexivity.
Qed.

Definition honest_post (v : variant) (F inp : list byte) (cons : nat) (r : lres) : Prop :=
  let used := firstn (lcons r - cons) inp in
  match lr r with
  | DMsg => exists body, F ++ used = body ++ [0%N] /\ sdec v body = Some (lout r)
  | DMore => lpos r <= len_data v (lcode r) -> hon v (F ++ used) (lout r) (lcode r) (lpos r)
  | DErr MissingData =>
      hon v (F ++ used) (lout r) (lcode r) (lpos r) /\ lpos r < len_data v (lcode r) /\
      (exists rest, skipn (lcons r - cons) inp = 0%N :: rest)
  | _ => True
  end.

Lemma dec_loop_honest v : forall inp F code pos proc out cons,
  hon v F out code pos ->
  honest_post v F inp cons (dec_loop v false inp code pos proc out cons).
Proof.
  induction inp as [|b rest IH]; intros F code pos proc out cons Hh.
  - cbn [dec_loop]. unfold honest_post.
    destruct (pos <? len_data v code); cbn [lr lcons lout lcode lpos];
      rewrite Nat.sub_diag; cbn [firstn]; rewrite app_nil_r; intros _; assumption.
  - destruct Hh as (bs & d & Hbs & Hd & HF & Hl & Hp & H1 & Hm).
    cbn [dec_loop].
    destruct (Nat.ltb_spec pos (len_data v code)) as [Hlt|Hge].
    + destruct (bz b) eqn:Hb.
      * unfold honest_post. cbn [lr lcons lout lcode lpos]. rewrite Nat.sub_diag. cbn [firstn skipn].
        rewrite app_nil_r. split; [exists bs, d; repeat split; assumption|]. split; [assumption|].
        exists rest. f_equal. apply N.eqb_eq. exact Hb.
      * destruct (Nat.eqb_spec proc 0).
        { unfold honest_post. cbn [lr lcons lout lcode lpos]. rewrite Nat.sub_diag. cbn [firstn].
          rewrite app_nil_r. intros _. exists bs, d. repeat split; assumption. }
        assert (Hh' : hon v (F ++ [b]) (out ++ [b]) code (S pos)).
        { exists bs, (d ++ [b]). split; [assumption|]. split.
          - rewrite nozero_app, Hd. cbn. rewrite Hb. reflexivity.
          - split; [rewrite HF, <- app_assoc; reflexivity|]. split; [rewrite app_length; cbn; lia|].
            split; [lia|]. split; [assumption|]. rewrite Hm, <- !app_assoc. reflexivity. }
        specialize (IH (F ++ [b]) code (S pos) proc (out ++ [b]) (S cons) Hh').
        pose proof (dec_loop_gap v false rest code (S pos) proc (out ++ [b]) (S cons)) as (a & _ & G1 & G2 & _).
        unfold honest_post in *.
        set (r := dec_loop v false rest code (S pos) proc (out ++ [b]) (S cons)) in *.
        replace (lcons r - cons) with (S (lcons r - S cons)) by lia. cbn [firstn skipn].
        replace (F ++ b :: firstn (lcons r - S cons) rest) with ((F ++ [b]) ++ firstn (lcons r - S cons) rest)
          by (rewrite <- app_assoc; reflexivity).
        exact IH.
    + assert (Hpn : pos = len_data v code) by lia.
      set (k := len_data v code + len_zero v code b - pos).
      destruct (Nat.ltb_spec proc k); [exact I|].
      destruct (bz b) eqn:Hb.
      * (* delimiter: message complete *)
        assert (b = 0%N) by (apply N.eqb_eq; exact Hb). subst b.
        unfold honest_post. cbn [lr lcons lout lcode lpos].
        replace (S cons - cons) with 1 by lia. cbn [firstn].
        exists F. split; [reflexivity|].
        rewrite HF. rewrite (sdec_frame_general v bs code d Hbs H1 ltac:(lia) Hd).
        f_equal. rewrite Hm. unfold k. rewrite (len_zero_z v code 0%N Hb).
        replace (len_data v code + zeros_last v code - pos) with (zeros_last v code) by lia.
        rewrite <- app_assoc. reflexivity.
      * (* next block *)
        assert (Hk : k = zeros_after v code).
        { unfold k. rewrite (len_zero_nz v code b Hb). lia. }
        assert (Hh' : hon v (F ++ [b]) (out ++ zeros k) (bn b) 0).
        { exists (bs ++ [(code, d)]), []. split.
          - apply Forall_app. split; [assumption|]. constructor; [|constructor].
            unfold block_ok. cbn [fst snd]. repeat split; try assumption; lia.
          - split; [reflexivity|]. split.
            + rewrite flat_snoc, HF, nb_bn, <- app_assoc. reflexivity.
            + split; [reflexivity|]. split; [lia|]. split; [apply bn_pos; assumption|].
              rewrite dec_closed_snoc, Hm, Hk, app_nil_r, <- !app_assoc. reflexivity. }
        specialize (IH (F ++ [b]) (bn b) 0 (proc - k + 1) (out ++ zeros k) (S cons) Hh').
        pose proof (dec_loop_gap v false rest (bn b) 0 (proc - k + 1) (out ++ zeros k) (S cons)) as (a & _ & G1 & G2 & _).
        unfold honest_post in *.
        set (r := dec_loop v false rest (bn b) 0 (proc - k + 1) (out ++ zeros k) (S cons)) in *.
        replace (lcons r - cons) with (S (lcons r - S cons)) by lia. cbn [firstn skipn].
        replace (F ++ b :: firstn (lcons r - S cons) rest) with ((F ++ [b]) ++ firstn (lcons r - S cons) rest)
          by (rewrite <- app_assoc; reflexivity).
        exact IH.
Qed.

(* COBS/R: the wrapper turns "zero inside the last block" into the tail-inline decoding *)
Lemma hon_inline v F msg code pos : inl v = true -> hon v F msg code pos -> pos < len_data v code ->
  sdec v F = Some (msg ++ [nb code]).
Proof.
  intros Hi (bs & d & Hbs & Hd & HF & Hl & Hp & H1 & Hm) Hlt.
  rewrite HF, Hm. rewrite <- app_assoc.
  apply sdec_frame_inline; try assumption.
  - apply bz_nb. assumption.
  - rewrite bn_nb. lia.
Qed.

(* ---------- 4. completeness on well-formed frames ---------- *)
(* data phase: the bytes of a block are copied as long as the gap is not empty *)
Lemma dec_loop_data v : forall d X code pos proc out cons,
  nozero d = true -> pos + length d <= len_data v code -> (d <> [] -> 1 <= proc) ->
  dec_loop v false (d ++ X) code pos proc out cons =
  dec_loop v false X code (pos + length d) proc (out ++ d) (cons + length d).
Proof.
  induction d as [|b d IH]; intros X code pos proc out cons Hz Hl Hp.
  - cbn [app length]. rewrite !Nat.add_0_r, app_nil_r. reflexivity.
  - cbn [app length] in *. rewrite nozero_cons in Hz. apply andb_prop in Hz. destruct Hz as [Hb Hz].
    cbn [dec_loop]. destruct (Nat.ltb_spec pos (len_data v code)); [|lia].
    destruct (bz b); [discriminate|].
    specialize (Hp ltac:(discriminate)).
    destruct (Nat.eqb_spec proc 0); [lia|].
    rewrite IH by (assumption || lia || (intros; lia)).
    f_equal; try lia. rewrite <- app_assoc. reflexivity.
Qed.

(* bytes that follow the data of the current block, up to and including the delimiter *)
Fixpoint tail_bytes (more : list block) : list byte :=
  match more with
  | [] => [0%N]
  | b :: m => nb (fst b) :: snd b ++ tail_bytes m
  end.

Fixpoint msg_of (v : variant) (bl : list block) : list byte :=
  match bl with
  | [] => []
  | b :: m => snd b ++ zeros (match m with [] => zeros_last v (fst b) | _ => zeros_after v (fst b) end)
              ++ msg_of v m
  end.

(* the gap suffices for every block: one byte while data is copied, and the implied zeros *)
Fixpoint gapok (v : variant) (proc : nat) (bl : list block) : Prop :=
  match bl with
  | [] => True
  | b :: m =>
    let z := match m with [] => zeros_last v (fst b) | _ => zeros_after v (fst b) end in
    (snd b <> [] -> 1 <= proc) /\ z <= proc /\ gapok v (proc - z + 1) m
  end.

Lemma dec_loop_complete v : forall more c d proc out cons tl,
  block_ok v (c, d) -> Forall (block_ok v) more -> gapok v proc ((c, d) :: more) ->
  exists p', dec_loop v false (d ++ tail_bytes more ++ tl) c 0 proc out cons =
    mkl DMsg (out ++ msg_of v ((c, d) :: more)) (cons + length (d ++ tail_bytes more)) p' 0 0.
Proof.
  induction more as [|[c2 d2] more IH]; intros c d proc out cons tl (H1 & H2 & H3) Hm Hg;
    cbn [fst snd] in *; cbn [gapok fst snd] in Hg; destruct Hg as (Hg1 & Hg2 & Hg3).
  - cbn [tail_bytes msg_of fst snd].
    rewrite dec_loop_data by (assumption || lia).
    cbn [app dec_loop Nat.add]. destruct (Nat.ltb_spec (length d) (len_data v c)); [lia|].
    rewrite (len_zero_z v c 0%N eq_refl).
    replace (len_data v c + zeros_last v c - length d) with (zeros_last v c) by lia.
    destruct (Nat.ltb_spec proc (zeros_last v c)); [lia|].
    cbn [bz N.eqb]. eexists. f_equal.
    + rewrite app_nil_r, <- app_assoc. reflexivity.
    + rewrite app_length. cbn [length]. lia.
  - cbn [tail_bytes msg_of fst snd].
    rewrite dec_loop_data by (assumption || lia).
    inversion Hm as [|x y Hb2 Hm']; subst. pose proof Hb2 as (Hc2 & Hd2 & Hz2). cbn [fst snd] in *.
    cbn [app dec_loop Nat.add]. destruct (Nat.ltb_spec (length d) (len_data v c)); [lia|].
    assert (Hnz : bz (nb c2) = false) by (apply bz_nb; assumption).
    rewrite (len_zero_nz v c (nb c2) Hnz).
    replace (len_data v c + zeros_after v c - length d) with (zeros_after v c) by lia.
    destruct (Nat.ltb_spec proc (zeros_after v c)); [lia|].
    rewrite Hnz, bn_nb. rewrite <- (app_assoc d2).
    destruct (IH c2 d2 (proc - zeros_after v c + 1) ((out ++ d) ++ zeros (zeros_after v c))
                (S (cons + length d)) tl Hb2 Hm' Hg3) as (p' & ->).
    rewrite <- app_assoc. eexists. f_equal.
    + rewrite <- !app_assoc. reflexivity.
    + rewrite !app_length. cbn [length]. rewrite app_length. lia.
Qed.

(* the message so delivered is the reference decoding of the frame *)
Lemma msg_of_sdec v : forall bs c d, Forall (block_ok v) bs -> block_ok v (c, d) ->
  msg_of v (bs ++ [(c, d)]) = dec_closed v bs ++ d ++ zeros (zeros_last v c).
Proof.
  induction bs as [|[c1 d1] bs IH]; intros c d Hbs Hb.
  - cbn [app msg_of fst snd dec_closed map concat]. rewrite app_nil_r. reflexivity.
  - inversion Hbs; subst. cbn [app msg_of fst snd].
    rewrite IH by assumption.
    destruct (bs ++ [(c, d)]) eqn:E; [destruct bs; discriminate|].
    unfold dec_closed. cbn [map concat fst snd]. rewrite <- !app_assoc. reflexivity.
Qed.

(* for the framings without zero-pair codes a gap of one byte is always enough *)
Lemma gapok_cobs v : zpe v = false -> forall bl proc, 1 <= proc -> gapok v proc bl.
Proof.
  intros Hz. induction bl as [|b m IH]; intros proc Hp; [exact I|].
  cbn [gapok]. assert (Hle : forall c, zeros_after v c <= 1 /\ zeros_last v c = 0).
  { intros c. unfold zeros_after, zeros_last. rewrite Hz. cbn [andb]. destruct (c <? maxlen v); lia. }
  destruct m as [|b2 m2].
  - destruct (Hle (fst b)) as [_ ->]. split; [intros; lia|]. split; [lia|exact I].
  - destruct (Hle (fst b)) as [H1 _]. split; [intros; lia|]. split; [lia|]. apply IH. lia.
Qed.

(* a zero inside a block is reported with that zero still unread *)
Lemma dec_loop_md v peek : forall inp code pos proc out cons,
  lr (dec_loop v peek inp code pos proc out cons) = DErr MissingData ->
  lcons (dec_loop v peek inp code pos proc out cons) - cons < length inp.
Proof.
  induction inp as [|b rest IH]; intros code pos proc out cons; cbn [dec_loop].
  - destruct (pos <? len_data v code); [|destruct peek]; cbn [lr]; discriminate.
  - destruct (pos <? len_data v code).
    + destruct (bz b); [cbn [lr lcons length]; intros _; lia|].
      destruct (Nat.eqb_spec proc 0); [cbn [lr]; discriminate|].
      intros H. specialize (IH _ _ _ _ _ H).
      pose proof (dec_loop_gap v peek rest code (S pos) proc (out ++ [b]) (S cons)) as (a & _ & G1 & _).
      cbn [length]. lia.
    + destruct peek; [cbn [lr]; discriminate|].
      destruct (_ <? _); [cbn [lr]; discriminate|].
      destruct (bz b); [cbn [lr]; discriminate|].
      intros H. specialize (IH _ _ _ _ _ H).
      match goal with |- context [dec_loop v false rest ?c ?p ?pr ?o ?cn] =>
        pose proof (dec_loop_gap v false rest c p pr o cn) as (a & _ & G1 & _) end.
      cbn [length]. lia.
Qed.

Lemma delivered_is_sdec v bs c d : Forall (block_ok v) bs -> block_ok v (c, d) ->
  msg_of v (bs ++ [(c, d)]) = dec_closed v bs ++ d ++ zeros (zeros_last v c) /\
  sdec v (flat bs ++ nb c :: d) = Some (dec_closed v bs ++ d ++ zeros (zeros_last v c)).
Proof.
  intros Hbs Hb. split; [apply msg_of_sdec; assumption|].
  destruct Hb as (H1 & H2 & H3). apply sdec_frame_general; assumption.
Qed.

(* the invariant holds right after the first code byte of a frame has been read *)
Lemma hon_start v c : 1 <= c -> hon v [nb c] [] c 0.
Proof.
  intros Hc. exists [], []. split; [constructor|]. split; [reflexivity|]. split; [reflexivity|].
  split; [reflexivity|]. split; [lia|]. split; [assumption|reflexivity].
Qed.
