(* Cobs/QueuePushProofs.v — mpt_queue_push on a ring refines encoder calls on the flat byte
   stream: each encoder window over the ring storage is a call on  sent ++ contents  with the
   window size enlarged accordingly, so the invariant of the flat encoder (C01) is preserved
   by the ring layer for every capacity, offset and fill. *)
From MptV Require Import Base.Mem Base.Tactics C13.QueueModel C13.QueueProofs C13.QueueAlign
  Cobs.CobsModel Cobs.EncProofs Cobs.EncShift Cobs.QueueCodec.
Local Open Scope nat_scope.

Lemma enc_inv_length v pre consumed st buf : enc_inv v pre consumed st buf ->
  length buf = edone st + escr st.
Proof.
  intros [H0 Hd Hb Hc | bs open [Hbs Hop Hcode Hlt Hdec] Hd Hb].
  - rewrite Hb, H0, Hd. lia.
  - rewrite Hb, app_length, Hd. cbn [length]. rewrite Hcode. lia.
Qed.

(* ---------- geometry of a window inside the ring ---------- *)
(* the contents are P ++ W; W lies at the start of the window [wbase, wbase+wlen) of the
   storage and P lies outside the window *)
Record window_geo (q : queue) (np : nat) (wbase wlen : nat) : Prop := {
  wg_in : forall j, j < wlen -> np + j < qmax q -> cidx q (np + j) = wbase + j;
  wg_out : forall i, i < np -> cidx q i < wbase \/ wbase + wlen <= cidx q i;
  wg_fit : wbase + wlen <= qmax q;
  wg_cap : np + wlen <= qmax q }.

Lemma window_read q P W wbase wlen : qinv q -> qlen q = length P + length W ->
  contents q = P ++ W -> window_geo q (length P) wbase wlen -> length W <= wlen ->
  slice wbase (length W) (qbuf q) = W.
Proof.
  intros Hq Hl Hc [Hin Hout Hfit Hcap] HW. pose proof Hq as (Hb & Hlm & Ho).
  apply (nth_ext' _ _ 0%N).
  - apply length_slice. lia.
  - intros j Hj. rewrite length_slice in Hj by lia. rewrite nth_slice by assumption.
    rewrite <- (Hin j) by lia.
    rewrite <- contents_nth by (assumption || lia). rewrite Hc, nth_app.
    destruct (Nat.ltb_spec (length P + j) (length P)); [lia|]. f_equal. lia.
Qed.

Lemma window_update q P W buf' wbase wlen : qinv q -> qlen q = length P + length W ->
  contents q = P ++ W -> window_geo q (length P) wbase wlen -> length buf' <= wlen ->
  let q' := set_len (set_buf q (upd (qbuf q) wbase buf')) (length P + length buf') in
  qinv q' /\ contents q' = P ++ buf'.
Proof.
  intros Hq Hl Hc [Hin Hout Hfit Hcap] HB q'. pose proof Hq as (Hb & Hlm & Ho).
  assert (Hq' : qinv q').
  { unfold q', qinv, set_len, set_buf. cbn [qbuf qlen qmax qoff]. rewrite upd_length by lia. lia. }
  split; [assumption|].
  apply contents_of_nth; [assumption| unfold q'; cbn [set_len qlen]; rewrite app_length; reflexivity|].
  intros i Hi. unfold q' in Hi |- *. cbn [set_len set_buf qlen qbuf] in *.
  replace (cidx (set_len (set_buf q (upd (qbuf q) wbase buf')) (length P + length buf')) i) with (cidx q i) by reflexivity.
  rewrite nth_upd by lia. rewrite nth_app.
  destruct (Nat.ltb_spec i (length P)) as [HiP|HiP].
  - destruct (Hout i HiP) as [Hlo|Hhi].
    + destruct (Nat.leb_spec wbase (cidx q i)); [lia|]. cbn [andb].
      rewrite <- contents_nth by (assumption || lia). rewrite Hc, nth_app.
      destruct (Nat.ltb_spec i (length P)); [reflexivity|lia].
    + destruct (Nat.ltb_spec (cidx q i) (wbase + length buf')); [lia|]. rewrite andb_false_r.
      rewrite <- contents_nth by (assumption || lia). rewrite Hc, nth_app.
      destruct (Nat.ltb_spec i (length P)); [reflexivity|lia].
  - assert (Hci : cidx q i = wbase + (i - length P)).
    { pose proof (Hin (i - length P) ltac:(lia) ltac:(lia)) as Hx.
      replace (length P + (i - length P)) with i in Hx by lia. exact Hx. }
    rewrite Hci.
    destruct (Nat.leb_spec wbase (wbase + (i - length P))); [|lia].
    destruct (Nat.ltb_spec (wbase + (i - length P)) (wbase + length buf')); [|lia]. cbn [andb].
    f_equal. lia.
Qed.

(* ---------- one encoder call on a ring window, read as a call on the flat stream ---------- *)
Definition wstate (st : estate) (np : nat) : estate := mke (ectx st) (edone st - np) (escr st).
Definition unw (stw : estate) (np : nat) : estate := mke (ectx stw) (np + edone stw) (escr stw).

Lemma win_call_eq v q st sent P W wbase wlen arg :
  qinv q -> contents q = P ++ W -> qlen q = length P + length W ->
  length P <= edone st -> length W = (edone st - length P) + escr st ->
  window_geo q (length P) wbase wlen -> length W <= wlen ->
  let '(r, stw', buf') := enc_call v (wstate st (length P)) W wlen arg in
  win_enc v (wstate st (length P)) (qbuf q) wbase wlen arg = (r, stw', wr (qbuf q) wbase buf') /\
  enc_call v (shift_st st (length sent)) (sent ++ contents q) (length sent + (length P + wlen)) arg =
    (r, shift_st (unw stw' (length P)) (length sent), sent ++ P ++ buf').
Proof.
  intros Hq Hc Hl HP HW Hgeo Hfit.
  pose proof (window_read q P W wbase wlen Hq Hl Hc Hgeo Hfit) as Hread.
  unfold win_enc. cbn [wstate edone escr].
  replace (Nat.min (edone st - length P + escr st) wlen) with (length W) by lia.
  rewrite Hread.
  assert (Hpre : length W = edone (wstate st (length P)) + escr (wstate st (length P))) by (cbn; lia).
  pose proof (enc_call_shift v (wstate st (length P)) (sent ++ P) W wlen arg Hpre) as Hs.
  destruct (enc_call v (wstate st (length P)) W wlen arg) as [[r stw'] buf'].
  split; [reflexivity|].
  rewrite Hc. rewrite app_length in Hs.
  replace (shift_st (wstate st (length P)) (length sent + length P)) with (shift_st st (length sent)) in Hs
    by (unfold shift_st, wstate; cbn [ectx edone escr]; f_equal; lia).
  rewrite <- app_assoc in Hs. rewrite <- Nat.add_assoc in Hs. rewrite Hs.
  f_equal; [f_equal|rewrite <- app_assoc; reflexivity].
  unfold shift_st, unw. cbn [ectx edone escr]. f_equal. lia.
Qed.

Lemma upd_same m i n : i + n <= length m -> upd m i (slice i n m) = m.
Proof.
  intros H. apply (nth_ext' _ _ 0%N).
  - rewrite upd_length; rewrite ?length_slice by lia; lia.
  - intros j Hj. rewrite upd_length in Hj by (rewrite length_slice by lia; lia).
    rewrite nth_upd by (rewrite length_slice by lia; lia). rewrite length_slice by lia.
    destruct (Nat.leb_spec i j); destruct (Nat.ltb_spec j (i + n)); cbn [andb]; try reflexivity.
    rewrite nth_slice by lia. f_equal. lia.
Qed.

(* the stream-level encoder invariant carried by a framed output queue:
   [sent] = bytes already handed to the transport *)
Definition einv (e : equeue) : Prop :=
  qinv (eq_q e) /\ qlen (eq_q e) = edone (eq_st e) + escr (eq_st e).
Definition rinv (v : variant) (pre consumed sent : list byte) (e : equeue) : Prop :=
  einv e /\ enc_inv v pre consumed (shift_st (eq_st e) (length sent)) (sent ++ contents (eq_q e)).

(* data call on a window *)
Lemma win_data v q st sent pre consumed P W wbase wlen src :
  variant_ok v -> qinv q -> contents q = P ++ W -> qlen q = length P + length W ->
  length P <= edone st -> length W = (edone st - length P) + escr st ->
  window_geo q (length P) wbase wlen -> length W <= wlen ->
  enc_inv v pre consumed (shift_st st (length sent)) (sent ++ contents q) ->
  let '(r, stw', m) := win_enc v (wstate st (length P)) (qbuf q) wbase wlen (Some src) in
  exists m', m = Ok m' /\
  let st' := unw stw' (length P) in
  let q' := set_len (set_buf q m') (edone st' + escr st') in
  match r with
  | EInt k => k <= length src /\ rinv v pre (consumed ++ firstn k src) sent (mkeq q' st')
  | EErr _ => st' = st /\ m' = qbuf q
  | EFault => False
  end.
Proof.
  intros Hv Hq Hc Hl HP HW Hgeo Hfit Hinv.
  pose proof (win_call_eq v q st sent P W wbase wlen (Some src) Hq Hc Hl HP HW Hgeo Hfit) as Heq.
  pose proof (enc_data_call v pre consumed (shift_st st (length sent)) (sent ++ contents q)
                (length sent + (length P + wlen)) src Hv Hinv) as Hdc.
  destruct (enc_call v (wstate st (length P)) W wlen (Some src)) as [[r stw'] buf'] eqn:Ecall.
  destruct Heq as [Hwin Hflat]. rewrite Hwin. rewrite Hflat in Hdc.
  pose proof Hq as (Hb & Hlm & Ho). destruct Hgeo as [Hin Hout Hgfit Hcap] eqn:Eg.
  destruct r as [k|e|].
  - destruct Hdc as (Hk & Hinv' & Hbound). cbn [shift_st unw edone escr] in Hbound.
    pose proof (enc_inv_length _ _ _ _ _ Hinv') as Hlen.
    rewrite !app_length in Hlen. cbn [shift_st unw edone escr] in Hlen.
    assert (Hbl : length buf' <= wlen) by lia.
    rewrite wr_ok by lia. eexists; split; [reflexivity|]. cbn zeta.
    split; [assumption|].
    fold (upd (qbuf q) wbase buf').
    replace (edone (unw stw' (length P)) + escr (unw stw' (length P))) with (length P + length buf')
      by (cbn [unw edone escr]; lia).
    destruct (window_update q P W buf' wbase wlen Hq Hl Hc (Build_window_geo _ _ _ _ Hin Hout Hgfit Hcap) Hbl) as [Hq' Hc'].
    split.
    + split; [exact Hq'|]. cbn [eq_q eq_st set_len qlen unw edone escr]. lia.
    + cbn [eq_q eq_st]. rewrite Hc'. exact Hinv'.
  - destruct Hdc as [Hst Hbuf].
    assert (Hbw : buf' = W).
    { apply app_inv_head in Hbuf. rewrite Hc in Hbuf. apply app_inv_head in Hbuf. exact Hbuf. }
    subst buf'.
    rewrite wr_ok by lia. eexists; split; [reflexivity|]. cbn zeta. split.
    + unfold shift_st, unw in Hst. destruct st as [sa sb sc], stw' as [ta tb tc]. cbn [ectx edone escr] in *.
      inversion Hst. unfold unw. cbn [ectx edone escr]. f_equal; lia.
    + fold (upd (qbuf q) wbase W).
      rewrite <- (window_read q P W wbase wlen Hq Hl Hc (Build_window_geo _ _ _ _ Hin Hout Hgfit Hcap) Hfit) at 1.
      apply upd_same. lia.
  - contradiction.
Qed.

(* termination call on a window *)
Lemma win_term v q st sent pre consumed P W wbase wlen :
  variant_ok v -> qinv q -> contents q = P ++ W -> qlen q = length P + length W ->
  length P <= edone st -> length W = (edone st - length P) + escr st ->
  window_geo q (length P) wbase wlen -> length W <= wlen ->
  enc_inv v pre consumed (shift_st st (length sent)) (sent ++ contents q) ->
  let '(r, stw', m) := win_enc v (wstate st (length P)) (qbuf q) wbase wlen None in
  exists m', m = Ok m' /\
  let st' := unw stw' (length P) in
  let q' := set_len (set_buf q m') (edone st' + escr st') in
  match r with
  | EInt _ => einv (mkeq q' st') /\
      exists body, sent ++ contents q' = pre ++ body ++ [0%N] /\ sdec v body = Some consumed /\
        nozero body = true /\ idle_state (shift_st st' (length sent)) (sent ++ contents q')
  | EErr _ => st' = st /\ m' = qbuf q
  | EFault => False
  end.
Proof.
  intros Hv Hq Hc Hl HP HW Hgeo Hfit Hinv.
  pose proof (win_call_eq v q st sent P W wbase wlen None Hq Hc Hl HP HW Hgeo Hfit) as Heq.
  pose proof (enc_term_call v pre consumed (shift_st st (length sent)) (sent ++ contents q)
                (length sent + (length P + wlen)) Hv Hinv ltac:(cbn [shift_st edone escr]; lia)) as Htc.
  destruct (enc_call v (wstate st (length P)) W wlen None) as [[r stw'] buf'] eqn:Ecall.
  destruct Heq as [Hwin Hflat]. rewrite Hwin. rewrite Hflat in Htc.
  pose proof Hq as (Hb & Hlm & Ho). destruct Hgeo as [Hin Hout Hgfit Hcap].
  destruct r as [k|e|].
  - destruct Htc as (body & Hbody & Hs & Hnz & Hidle & Hbound).
    destruct Hidle as [Hi0 Hi1]. cbn [shift_st unw edone escr] in Hi0, Hi1.
    rewrite !app_length in Hi1, Hbound.
    assert (Hbl : length buf' <= wlen) by lia.
    rewrite wr_ok by lia. eexists; split; [reflexivity|]. cbn zeta.
    fold (upd (qbuf q) wbase buf').
    replace (edone (unw stw' (length P)) + escr (unw stw' (length P))) with (length P + length buf')
      by (cbn [unw edone escr]; lia).
    destruct (window_update q P W buf' wbase wlen Hq Hl Hc (Build_window_geo _ _ _ _ Hin Hout Hgfit Hcap) Hbl) as [Hq' Hc'].
    split.
    + split; [exact Hq'|]. cbn [eq_q eq_st set_len qlen unw edone escr]. lia.
    + exists body. rewrite Hc'. split; [exact Hbody|]. split; [exact Hs|]. split; [exact Hnz|].
      split; cbn [shift_st unw edone escr]; [exact Hi0|]. rewrite !app_length. lia.
  - destruct Htc as [Hst Hbuf].
    assert (Hbw : buf' = W).
    { apply app_inv_head in Hbuf. rewrite Hc in Hbuf. apply app_inv_head in Hbuf. exact Hbuf. }
    subst buf'.
    rewrite wr_ok by lia. eexists; split; [reflexivity|]. cbn zeta. split.
    + unfold shift_st, unw in Hst. destruct st as [sa sb sc], stw' as [ta tb tc]. cbn [ectx edone escr] in *.
      inversion Hst. unfold unw. cbn [ectx edone escr]. f_equal; lia.
    + fold (upd (qbuf q) wbase W).
      rewrite <- (window_read q P W wbase wlen Hq Hl Hc (Build_window_geo _ _ _ _ Hin Hout Hgfit Hcap) Hfit) at 1.
      apply upd_same. lia.
  - contradiction.
Qed.

(* ---------- the window geometries of mpt_queue_push ---------- *)
(* whole storage, data starts at offset 0 *)
Lemma geo_aligned q : qinv q -> qoff q = 0 -> window_geo q 0 0 (qmax q).
Proof.
  intros (Hb & Hl & Ho) H0. constructor; try lia.
  intros j Hj _. unfold cidx. rewrite H0. cbn [Nat.add]. destruct (Nat.ltb_spec j (qmax q)); lia.
Qed.

(* lower part: window [off, max), data does not reach the wrap yet *)
Lemma geo_lower q : qinv q -> qoff q < qmax q -> window_geo q 0 (qoff q) (qmax q - qoff q).
Proof.
  intros (Hb & Hl & Ho) Hlt. constructor; try lia.
  intros j Hj _. unfold cidx. cbn [Nat.add]. destruct (Nat.ltb_spec (qoff q + j) (qmax q)); lia.
Qed.

(* upper part: the first segment [off, max) is full of finished data, window = [0, off) *)
Lemma geo_upper q : qinv q -> 0 < qoff q -> qoff q < qmax q ->
  window_geo q (qmax q - qoff q) 0 (qoff q).
Proof.
  intros (Hb & Hl & Ho) H0 Hlt. constructor; try lia.
  - intros j Hj _. unfold cidx. destruct (Nat.ltb_spec (qoff q + (qmax q - qoff q + j)) (qmax q)); lia.
  - intros i Hi. right. unfold cidx. destruct (Nat.ltb_spec (qoff q + i) (qmax q)); lia.
Qed.
