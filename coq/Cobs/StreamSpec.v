(* Cobs/StreamSpec.v — C02 at the level of the property: what a framed stream must deliver.
   The specification is two lists: the messages handed to the writer completely (in order)
   and the messages the reader has delivered; whatever the segmentation of the wire, the
   second list is always a prefix of the first and equals it once everything was drained. *)
From MptV Require Import Base.Mem Cobs.CobsModel.
Local Open Scope nat_scope.

Inductive sop := SSend (m : list byte) | SPart (m : list byte) | SFin | SWire (n : nat) | SRecv | SDrain
  | SPeek (n : nat) (dst : bool)    (* mpt_queue_peek on the reader: no effect on what is delivered *)
  | SRaw (bytes : list byte)       (* arbitrary bytes put into the reader ring (C03: malformed input) *)
  | SOpen (blk : list byte).      (* an open block [code; data] placed in the writer ring by a raw push (it may straddle the ring end) *)

Record spec_st := mkss { sent : list (list byte); cur : list byte; open_ : bool }.

(* messages completely handed over after each operation (an empty [part] does not open a message) *)
Definition sspec_step (s : spec_st) (o : sop) : spec_st :=
  match o with
  | SSend m => mkss (sent s ++ [cur s ++ m]) [] false
  | SPart m => match m with [] => s | _ => mkss (sent s) (cur s ++ m) true end
  | SFin => mkss (sent s ++ [cur s]) [] false
  | SOpen blk => match tl blk with [] => s | m => mkss (sent s) (cur s ++ m) true end
  | _ => s
  end.

Fixpoint sspec_run (s : spec_st) (ops : list sop) : list (list (list byte)) :=
  match ops with
  | [] => []
  | o :: ops => let s' := sspec_step s o in sent s' :: sspec_run s' ops
  end.
