(* Cobs/TextProofs.v — round trip of the zero-terminated command text framing. *)
From MptV Require Import Base.Mem Base.Tactics Cobs.CobsModel Cobs.EncProofs Cobs.EncTheorems Cobs.TextModel.
Local Open Scope nat_scope.

(* caller actions as in EncTheorems, on mpt_encode_string *)
Definition str_step (r : run) (c : call) : run :=
  if rdone r then r else
  match c with
  | Offer inc take =>
    let cap := rcap r + inc in
    match str_call (rst r) (rbuf r) cap (Some (firstn take (rrem r))) with
    | (EInt k, st', buf') => mkr st' buf' cap (skipn k (rrem r)) false
    | (_, st', buf') => mkr st' buf' cap (rrem r) false
    end
  | Finish inc =>
    let cap := rcap r + inc in
    match str_call (rst r) (rbuf r) cap None with
    | (EInt _, st', buf') => mkr st' buf' cap (rrem r) true
    | (_, st', buf') => mkr st' buf' cap (rrem r) false
    end
  end.

Definition str_script (r : run) (script : list call) : run := fold_left str_step script r.

Definition str_inv (pre m : list byte) (r : run) : Prop :=
  exists consumed, m = consumed ++ rrem r /\ nozero consumed = true /\
    escr (rst r) = 0 /\ edone (rst r) = length (rbuf r) /\
    rbuf r = pre ++ consumed ++ (if rdone r then [0%N] else []).

Lemma existsb_bz_nozero l : existsb bz l = negb (nozero l).
Proof.
  induction l as [|b l IH]; [reflexivity|]. cbn [existsb nozero forallb]. fold (nozero l).
  rewrite IH. destruct (bz b); reflexivity.
Qed.

Ltac same := match goal with H : forall cap, str_inv _ _ _ |- _ => apply H end.

Lemma str_step_inv pre m r c : str_inv pre m r -> str_inv pre m (str_step r c).
Proof.
  intros Hinv. unfold str_step. destruct (rdone r) eqn:Hd; [assumption|].
  destruct Hinv as (consumed & Hm & Hz & Hs & Hdn & Hb). rewrite Hd in Hb. rewrite app_nil_r in Hb.
  assert (Hsame : forall cap, str_inv pre m (mkr (rst r) (rbuf r) cap (rrem r) false)).
  { intros cap. exists consumed. cbn [rdone rst rbuf rrem]. rewrite app_nil_r. repeat split; assumption. }
  destruct c as [inc take|inc]; unfold str_call; rewrite Hs, Nat.add_0_r.
  - destruct (rcap r + inc <? edone (rst r)); [same|].
    destruct (length (firstn take (rrem r)) =? 0); [same|].
    destruct (rcap r + inc - edone (rst r) =? 0); [same|].
    set (mx := Nat.min (length (firstn take (rrem r))) (rcap r + inc - edone (rst r))).
    rewrite existsb_bz_nozero.
    destruct (nozero (firstn mx (firstn take (rrem r)))) eqn:Hnz; cbn [negb];
      [|same].
    assert (Hf : firstn mx (firstn take (rrem r)) = firstn mx (rrem r)).
    { rewrite firstn_firstn. f_equal. unfold mx. rewrite firstn_length. lia. }
    rewrite Hf in *.
    exists (consumed ++ firstn mx (rrem r)). cbn [rdone rst rbuf rrem escr edone].
    split; [rewrite <- app_assoc, firstn_skipn; assumption|].
    split; [rewrite nozero_app, Hz, Hnz; reflexivity|]. split; [reflexivity|].
    split.
    + rewrite app_length, firstn_length, Hdn. unfold mx. rewrite !firstn_length. lia.
    + rewrite Hb, app_nil_r, <- app_assoc. reflexivity.
  - destruct (rcap r + inc <? edone (rst r)); [same|].
    destruct (rcap r + inc - edone (rst r) =? 0); [same|].
    exists consumed. cbn [rdone rst rbuf rrem escr edone].
    split; [assumption|]. split; [assumption|]. split; [reflexivity|].
    split; [rewrite app_length; cbn [length]; lia|].
    rewrite Hb, <- app_assoc. reflexivity.
Qed.

(* TEXT ENCODER: however the text is handed over and however space is granted, once the finish
   call succeeds the window holds the bytes consumed followed by the delimiter, and they
   contain no delimiter byte themselves *)
Theorem str_roundtrip pre m st0 cap0 script :
  escr st0 = 0 -> edone st0 = length pre ->
  let r := str_script (mkr st0 pre cap0 m false) script in
  rdone r = true ->
  exists consumed, m = consumed ++ rrem r /\ nozero consumed = true /\
    rbuf r = pre ++ consumed ++ [0%N] /\ text_decode consumed = Some (cmd_header ++ consumed).
Proof.
  intros Hs Hd r Hdone.
  assert (Hinv : str_inv pre m (mkr st0 pre cap0 m false)).
  { exists []. cbn [rdone rst rbuf rrem app]. rewrite app_nil_r. auto. }
  assert (H : forall script r0, str_inv pre m r0 -> str_inv pre m (str_script r0 script)).
  { induction script0 as [|c sc IH]; intros r0 H0; [assumption|]. cbn [str_script fold_left].
    apply IH. apply str_step_inv. assumption. }
  specialize (H script _ Hinv). fold r in H.
  destruct H as (consumed & Hm & Hz & _ & _ & Hb). rewrite Hdone in Hb.
  exists consumed. split; [assumption|]. split; [assumption|]. split; [assumption|].
  unfold text_decode. rewrite Hz. reflexivity.
Qed.

(* TEXT DECODER: a delimiter-free text followed by the delimiter, with at least two bytes of
   consumed space in front, is delivered as header ++ text in place, whatever follows *)
Lemma find_zero_nozero m : nozero m = true -> forall tl k,
  find_zero (m ++ 0%N :: tl) k = Some (k + length m).
Proof.
  induction m as [|b m IH]; intros Hz tl k.
  - cbn. f_equal. lia.
  - rewrite nozero_cons in Hz. apply andb_prop in Hz. destruct Hz as [Hb Hz].
    cbn [app find_zero length]. destruct (bz b); [discriminate|].
    rewrite IH by assumption. f_equal. lia.
Qed.

Theorem cmd_delivers slack m tl : 2 <= length slack -> nozero m = true ->
  let buf := slack ++ m ++ 0%N :: tl in
  let '(r, st', buf') := cmd_call (mkt (length slack) 0 0 None) buf in
  r = TMsg /\ tmsg st' = Some (2 + length m) /\
  firstn (2 + length m) (skipn (tpos st') buf') = cmd_header ++ m /\
  tcurr st' = length slack + length m + 1.
Proof.
  intros Hs Hz buf. unfold cmd_call. cbn [tcurr tpos tlen tmsg Nat.eqb].
  destruct (Nat.ltb_spec (length slack) 2); [lia|].
  assert (HL : length buf = length slack + length m + S (length tl)).
  { unfold buf. rewrite !app_length. cbn [length]. lia. }
  destruct (Nat.ltb_spec (length buf) (length slack - 2)); [lia|].
  destruct (Nat.ltb_spec (length buf) (length slack)); [lia|].
  assert (Hsk : skipn (length slack) buf = m ++ 0%N :: tl) by (unfold buf; apply skipn_app_exact).
  set (buf' := firstn (length slack - 2) buf ++ cmd_header ++ skipn (length slack) buf).
  assert (Hsk' : skipn (length slack) buf' = m ++ 0%N :: tl).
  { unfold buf'. rewrite Hsk.
    replace (firstn (length slack - 2) buf ++ cmd_header ++ m ++ 0%N :: tl)
      with ((firstn (length slack - 2) buf ++ cmd_header) ++ m ++ 0%N :: tl) by (rewrite <- app_assoc; reflexivity).
    replace (length slack) with (length (firstn (length slack - 2) buf ++ cmd_header)) at 1
      by (rewrite app_length, firstn_length; cbn [length cmd_header]; lia).
    apply skipn_app_exact. }
  rewrite Hsk', find_zero_nozero by assumption. cbn [tmsg tpos tcurr].
  split; [reflexivity|]. split; [f_equal; lia|]. split; [|lia].
  replace (2 + length m) with (length (cmd_header ++ m)) by (rewrite app_length; reflexivity).
  unfold buf'. rewrite Hsk.
  replace (length slack - 2) with (length (firstn (length slack - 2) buf)) at 1 by (rewrite firstn_length; lia).
  rewrite skipn_app_exact.
  replace (cmd_header ++ m ++ 0%N :: tl) with ((cmd_header ++ m) ++ 0%N :: tl) by (rewrite <- app_assoc; reflexivity).
  apply firstn_app_exact.
Qed.
