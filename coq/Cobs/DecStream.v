(* Cobs/DecStream.v — the decoder never reports a decoding error on a prefix of a well-formed
   stream.

   [wfs v inp code pos]: from the resume context (code, pos) the bytes [inp] are a PREFIX of a
   well-formed stream: every frame in it is well formed ([wfd] of DecLive.v for the complete
   ones), the last one may be cut anywhere.  On such input a decoder call, in any state the call
   invariant allows and with any gap, delivers a message, asks for more input having consumed
   everything, or runs out of gap (MissingBuffer) -- and the unread rest is again such a prefix.
   It never reports BadValue / MissingData / BadEncoding.  The byte stream a framed output queue
   produces has this form at every moment (EncProofs.v), so a reader fed from a correct writer
   never sees a decoding error, whatever the segmentation. *)
From MptV Require Import Base.Mem Base.Tactics Cobs.CobsModel Cobs.DecModel Cobs.EncProofs Cobs.EncTheorems
  Cobs.DecProofs Cobs.DecComplete Cobs.DecCall Cobs.DecHistory Cobs.DecLive.
Local Open Scope nat_scope.

Fixpoint wfs (v : variant) (inp : list byte) (code pos : nat) : bool :=
  match inp with
  | [] => true
  | b :: rest =>
    if bz b then
      (if pos <? len_data v code then inl v else true) &&
      match rest with [] => true | c :: rest' => negb (bz c) && wfs v rest' (bn c) 0 end
    else if pos <? len_data v code then wfs v rest code (S pos) else wfs v rest (bn b) 0
  end.

Definition wfs0 (v : variant) (inp : list byte) : bool :=
  match inp with [] => true | c :: rest => negb (bz c) && wfs v rest (bn c) 0 end.

Lemma wfs_zero v rest code pos :
  wfs v (0%N :: rest) code pos = (if pos <? len_data v code then inl v else true) && wfs0 v rest.
Proof. reflexivity. Qed.

Lemma wfs_nz v b rest code pos : bz b = false ->
  wfs v (b :: rest) code pos = if pos <? len_data v code then wfs v rest code (S pos) else wfs v rest (bn b) 0.
Proof. intros H. cbn [wfs]. rewrite H. reflexivity. Qed.

Lemma wfs_zero_phase v inp code pos : len_data v code <= pos -> wfs v inp code pos = wfs v inp code (len_data v code).
Proof.
  intros H. destruct inp as [|b rest]; [reflexivity|]. cbn [wfs].
  destruct (Nat.ltb_spec pos (len_data v code)); [lia|].
  destruct (Nat.ltb_spec (len_data v code) (len_data v code)); [lia|]. reflexivity.
Qed.

(* prefixes of prefixes *)
Lemma wfs_prefix v : forall a,
  (forall b code pos, wfs v (a ++ b) code pos = true -> wfs v a code pos = true) /\
  (forall b, wfs0 v (a ++ b) = true -> wfs0 v a = true).
Proof.
  induction a as [|x a [IH1 IH2]]; [split; reflexivity|]. split.
  - intros b code pos H. cbn [app] in H. destruct (bz x) eqn:Hx.
    + apply N.eqb_eq in Hx. subst x. rewrite wfs_zero in H. rewrite wfs_zero. apply andb_prop in H. destruct H as [H1 H2].
      rewrite H1. cbn [andb]. apply (IH2 b H2).
    + rewrite (wfs_nz v x (a ++ b) code pos Hx) in H. rewrite (wfs_nz v x a code pos Hx).
      destruct (pos <? len_data v code); apply (IH1 b _ _ H).
  - intros b H. cbn [app wfs0] in *. apply andb_prop in H. destruct H as [H1 H2]. rewrite H1. cbn [andb]. apply (IH1 b _ _ H2).
Qed.

Lemma wfs_app_l v a b code pos : wfs v (a ++ b) code pos = true -> wfs v a code pos = true.
Proof. apply (proj1 (wfs_prefix v a)). Qed.
Lemma wfs0_app_l v a b : wfs0 v (a ++ b) = true -> wfs0 v a = true.
Proof. apply (proj2 (wfs_prefix v a)). Qed.

Lemma wfs_data v : forall d X code pos, nozero d = true -> pos + length d <= len_data v code ->
  wfs v (d ++ X) code pos = wfs v X code (pos + length d).
Proof.
  induction d as [|b d IH]; intros X code pos Hz Hl.
  - cbn [app length]. rewrite Nat.add_0_r. reflexivity.
  - cbn [app length] in *. rewrite nozero_cons in Hz. apply andb_prop in Hz. destruct Hz as [Hb Hz].
    apply Bool.negb_true_iff in Hb. rewrite (wfs_nz v b _ code pos Hb).
    destruct (Nat.ltb_spec pos (len_data v code)); [|lia].
    rewrite IH by (assumption || lia). f_equal. lia.
Qed.

(* a complete well-formed frame in front: what follows decides *)
Lemma wfs_frame v : forall pre tl code pos, nozero pre = true -> wfd v (pre ++ 0%N :: tl) code pos = true ->
  wfs v (pre ++ 0%N :: tl) code pos = wfs0 v tl.
Proof.
  induction pre as [|b pre IH]; intros tl code pos Hz Hw.
  - cbn [app] in *. rewrite wfs_zero. cbn [wfd bz N.eqb] in Hw. rewrite Hw. reflexivity.
  - cbn [app] in *. rewrite nozero_cons in Hz. apply andb_prop in Hz. destruct Hz as [Hb Hz].
    apply Bool.negb_true_iff in Hb. rewrite (wfs_nz v b _ code pos Hb). cbn [wfd] in Hw. rewrite Hb in Hw.
    destruct (pos <? len_data v code); apply IH; assumption.
Qed.

Lemma wfs0_frame v body m tl : sdec v body = Some m -> wfs0 v (body ++ 0%N :: tl) = wfs0 v tl.
Proof.
  intros Hs. pose proof (sdec_wfd0 v body m tl Hs) as Hw. pose proof (sdec_nozero v body m Hs) as Hz.
  destruct body as [|c rest]; [cbv in Hs; discriminate|].
  cbn [app wfd0 wfs0] in *. apply andb_prop in Hw. destruct Hw as [Hc Hw]. rewrite Hc. cbn [andb].
  rewrite nozero_cons in Hz. apply andb_prop in Hz. apply (wfs_frame v rest tl _ _ (proj2 Hz) Hw).
Qed.

Lemma wfs0_frames v ms C : frames_of v ms C -> forall R, wfs0 v (C ++ R) = wfs0 v R.
Proof.
  induction 1 as [|m ms body rest Hs Hz Hf IH]; intros R; [reflexivity|].
  rewrite <- !app_assoc. cbn [app]. rewrite (wfs0_frame v body m _ Hs). apply IH.
Qed.

(* complete blocks in front *)
Lemma wfs_block v c d b R : block_ok v (c, d) -> bz b = false ->
  wfs v (d ++ b :: R) c 0 = wfs v R (bn b) 0.
Proof.
  intros (H1 & H2 & H3) Hb. cbn [fst snd] in *.
  rewrite wfs_data by (assumption || lia). cbn [Nat.add]. rewrite (wfs_nz v b R c (length d) Hb).
  destruct (Nat.ltb_spec (length d) (len_data v c)); [lia|reflexivity].
Qed.

Lemma wfs0_blocks v : forall bs c R, Forall (block_ok v) bs -> 1 <= c ->
  wfs0 v (flat bs ++ nb c :: R) = wfs v R c 0.
Proof.
  induction bs as [|[c1 d1] bs IH]; intros c R Hbs Hc.
  - cbn [flat map concat app wfs0]. rewrite (bz_nb c Hc), bn_nb. reflexivity.
  - inversion Hbs as [|x y Hb Hbs']; subst. pose proof Hb as (Hc1 & _ & _). cbn [fst] in Hc1.
    rewrite flat_cons. cbn [app wfs0]. rewrite (bz_nb c1 Hc1), bn_nb. cbn [negb andb]. rewrite <- app_assoc.
    specialize (IH c R Hbs' Hc).
    destruct bs as [|[c2 d2] bs'].
    + cbn [flat map concat app] in *. rewrite (wfs_block v c1 d1 (nb c) R Hb (bz_nb c Hc)), bn_nb. reflexivity.
    + rewrite flat_cons in *. cbn [app] in *. pose proof (Forall_inv Hbs') as (Hc2 & _). cbn [fst] in Hc2.
      rewrite (wfs_block v c1 d1 (nb c2) _ Hb (bz_nb c2 Hc2)), bn_nb.
      cbn [wfs0] in IH. rewrite (bz_nb c2 Hc2), bn_nb in IH. cbn [negb andb] in IH. exact IH.
Qed.

(* the consumed part of the open frame leads to the resume context *)
Lemma hon_wfs v F msg code pos U : hon v F msg code pos -> wfs0 v (F ++ U) = wfs v U code pos.
Proof.
  intros (bs & d & Hbs & Hd & HF & Hl & Hp & H1 & _). subst F. rewrite <- app_assoc. cbn [app].
  rewrite (wfs0_blocks v bs code _ Hbs H1). rewrite wfs_data by (assumption || lia). rewrite Hl. reflexivity.
Qed.

Lemma honz_wfs v F dec code pos unread U : honz v F dec code pos unread -> wfs0 v (F ++ U) = wfs v U code pos.
Proof.
  intros [[_ Hh]|(base & j & next & rest' & _ & Hpos & _ & _ & _ & Hh)].
  - apply (hon_wfs v F dec code pos U Hh).
  - rewrite (hon_wfs v F base code _ U Hh). symmetry. rewrite Hpos. apply wfs_zero_phase. lia.
Qed.

(* ---------- the block loop on a prefix of a well-formed stream ---------- *)
Definition stream_post (v : variant) (inp : list byte) (cons : nat) (r : lres) : Prop :=
  match lr r with
  | DMsg => exists pre tl, inp = pre ++ 0%N :: tl /\ nozero pre = true /\ lcons r = cons + length pre + 1 /\ wfs0 v tl = true
  | DErr MissingData =>
      inl v = true /\ lpos r < len_data v (lcode r) /\ 1 <= lcode r /\
      exists pre tl, inp = pre ++ 0%N :: tl /\ nozero pre = true /\ lcons r = cons + length pre /\ wfs0 v tl = true
  | DErr MissingBuffer =>
      wfs v (skipn (lcons r - cons) inp) (lcode r) (lpos r) = true /\ len_data v (lcode r) <= lpos r /\ 1 <= lcode r
  | DMore => lcons r = cons + length inp /\ 1 <= lcode r /\ (lpos r < len_data v (lcode r) -> 1 <= lproc r)
  | _ => False
  end.

Lemma stream_post_cons v b rest cons r : bz b = false -> S cons <= lcons r ->
  stream_post v rest (S cons) r -> stream_post v (b :: rest) cons r.
Proof.
  intros Hb Hc H. unfold stream_post in *. destruct (lr r) as [| |e|]; try assumption.
  - destruct H as (pre & tl & -> & Hz & Hl & Hw). exists (b :: pre), tl. split; [reflexivity|].
    split; [rewrite nozero_cons, Hb, Hz; reflexivity|]. split; [cbn [length]; lia|exact Hw].
  - destruct H as (Hl & H1 & Hp). split; [cbn [length]; lia|]. split; assumption.
  - destruct e; try assumption.
    + destruct H as (Hi & Hp & H1 & pre & tl & -> & Hz & Hl & Hw). split; [assumption|]. split; [assumption|].
      split; [assumption|]. exists (b :: pre), tl. split; [reflexivity|].
      split; [rewrite nozero_cons, Hb, Hz; reflexivity|]. split; [cbn [length]; lia|exact Hw].
    + destruct H as (Hw & Hp & H1). replace (lcons r - cons) with (S (lcons r - S cons)) by lia.
      cbn [skipn]. split; [assumption|]. split; assumption.
Qed.

Lemma dec_loop_stream v : forall inp code pos proc out cons,
  wfs v inp code pos = true -> (pos < len_data v code -> 1 <= proc) -> 1 <= code ->
  stream_post v inp cons (dec_loop v false inp code pos proc out cons).
Proof.
  induction inp as [|b rest IH]; intros code pos proc out cons Hw Hp Hc.
  { cbn [dec_loop]. unfold stream_post. destruct (Nat.ltb_spec pos (len_data v code)); cbn [lr lcons lcode lpos lproc length];
      (split; [lia|]); (split; [assumption|]); intros; auto; lia. }
  cbn [dec_loop].
  destruct (Nat.ltb_spec pos (len_data v code)) as [Hlt|Hge].
  - destruct (bz b) eqn:Hb.
    + apply N.eqb_eq in Hb. subst b. rewrite wfs_zero in Hw. apply andb_prop in Hw. destruct Hw as [Hw1 Hw2].
      destruct (Nat.ltb_spec pos (len_data v code)); [|lia].
      unfold stream_post. cbn [lr lpos lcode lcons]. split; [assumption|]. split; [assumption|]. split; [assumption|].
      exists [], rest. split; [reflexivity|]. split; [reflexivity|]. split; [cbn [length]; lia|exact Hw2].
    + rewrite (wfs_nz v b rest code pos Hb) in Hw. destruct (Nat.ltb_spec pos (len_data v code)); [|lia].
      specialize (Hp Hlt). destruct (Nat.eqb_spec proc 0); [lia|].
      pose proof (dec_loop_gap v false rest code (S pos) proc (out ++ [b]) (S cons)) as (a & _ & G1 & _).
      apply stream_post_cons; [assumption|exact G1|]. apply IH; [assumption|intros; lia|assumption].
  - set (k := len_data v code + len_zero v code b - pos).
    destruct (Nat.ltb_spec proc k) as [Hk|Hk].
    + unfold stream_post. cbn [lr lpos lcode lcons]. rewrite Nat.sub_diag. cbn [skipn].
      split; [|split; [lia|assumption]].
      rewrite wfs_zero_phase by lia. rewrite <- (wfs_zero_phase v (b :: rest) code pos) by lia. exact Hw.
    + destruct (bz b) eqn:Hb.
      * apply N.eqb_eq in Hb. subst b. rewrite wfs_zero in Hw. apply andb_prop in Hw. destruct Hw as [_ Hw2].
        unfold stream_post. cbn [lr lcons].
        exists [], rest. split; [reflexivity|]. split; [reflexivity|]. split; [cbn [length]; lia|exact Hw2].
      * rewrite (wfs_nz v b rest code pos Hb) in Hw. destruct (Nat.ltb_spec pos (len_data v code)); [lia|].
        pose proof (dec_loop_gap v false rest (bn b) 0 (proc - k + 1) (out ++ zeros k) (S cons)) as (a & _ & G1 & _).
        apply stream_post_cons; [assumption|exact G1|].
        apply IH; [assumption|intros; lia|apply bn_pos; assumption].
Qed.

(* ---------- one decoder call ---------- *)
Definition gapinv (v : variant) (st : dstate) : Prop :=
  dcode st <> 0 -> dpos8 st < len_data v (dcode st) -> 1 <= gapof st.

Definition sstream (v : variant) (st : dstate) (buf : list byte) : Prop :=
  (if dcode st =? 0 then wfs0 v (skipn (dcurr st) buf) = true
   else wfs v (skipn (dcurr st) buf) (dcode st) (dpos8 st) = true) /\ gapinv v st.

(* between messages with nothing to read: more input is asked for *)
Lemma dec_regular_idle_empty v st buf frags res :
  dpos st + dlen st <= dcurr st -> dcurr st <= length buf -> dcode st = 0 ->
  (dmsg st = Some (dlen st) \/ (dmsg st = None /\ dlen st = 0)) -> skipn (dcurr st) buf = [] ->
  exists st', dec_regular_res v st buf frags res false = (DMore, st', buf) /\ dcode st' = 0 /\ dcurr st' = dcurr st.
Proof.
  intros G1 G2 Hcode Hmsg Hun. unfold dec_regular_res. lazy beta iota zeta.
  set (dl := dpos st + dlen st) in *.
  destruct (Nat.ltb_spec (dcurr st) dl); [lia|]. destruct (Nat.ltb_spec (length buf) dl); [lia|]. cbn [orb].
  set (proc0 := dcurr st - dl).
  destruct (locate frags res dl) as [[rs off] rest].
  set (post := align_post (rs + off) rest proc0).
  pose proof (align_post_le (rs + off) rest proc0) as Hpost. fold post in Hpost.
  assert (Hcurr : dl + post + 0 + (proc0 - post) = dcurr st) by (unfold proc0; lia).
  destruct Hmsg as [Hm|[Hm Hl0]]; rewrite Hm.
  - cbn [dcode dlen dpos8 dpos dmsg]. rewrite Nat.sub_diag, Hcode. cbn [Nat.eqb andb].
    rewrite Hcurr. destruct (Nat.ltb_spec (length buf) (dcurr st)); [lia|].
    rewrite Hun. cbn [firstn dcode Nat.eqb]. rewrite firstn_nil.
    eexists. split; [reflexivity|]. cbn [dcode dcurr]. split; reflexivity.
  - rewrite Hl0, Hcode. cbn [Nat.eqb andb dcode dlen dpos8 dpos dmsg].
    rewrite Hcurr. destruct (Nat.ltb_spec (length buf) (dcurr st)); [lia|].
    rewrite Hun. rewrite firstn_nil. cbn [dcode Nat.eqb]. rewrite ?Hcode. cbn [Nat.eqb].
    eexists. split; [reflexivity|]. cbn [dcode dcurr]. split; reflexivity.
Qed.

Lemma sstream_make v (buf buf' : list byte) curr curr' j code pos done mlen (inp : list byte) :
  curr' = curr + j -> skipn curr' buf' = skipn curr' buf -> skipn curr buf = inp ->
  wfs v (skipn j inp) code pos = true -> 1 <= code ->
  (pos < len_data v code -> 1 <= curr' - (done + mlen)) ->
  sstream v (mkd code pos curr' done mlen None) buf'.
Proof.
  intros -> Hsk Hun Hw Hc Hg. unfold sstream, gapinv, gapof. cbn [dcode dcurr dpos8 dpos dlen].
  destruct (Nat.eqb_spec code 0); [lia|].
  rewrite Hsk. rewrite <- skipn_skipn', Hun. split; [assumption|]. intros _. exact Hg.
Qed.

Lemma sstream_idle v (buf buf' : list byte) curr curr' j done mlen m (inp : list byte) :
  curr' = curr + j -> skipn curr' buf' = skipn curr' buf -> skipn curr buf = inp ->
  wfs0 v (skipn j inp) = true -> sstream v (mkd 0 0 curr' done mlen m) buf'.
Proof.
  intros -> Hsk Hun Hw. unfold sstream, gapinv. cbn [dcode dcurr Nat.eqb].
  rewrite Hsk. rewrite <- skipn_skipn', Hun. split; [assumption|]. intros H; contradiction.
Qed.

Lemma skipn_tail (pre tl : list byte) : skipn (length pre + 1) (pre ++ 0%N :: tl) = tl.
Proof.
  rewrite skipn_app. rewrite skipn_all2 by lia. replace (length pre + 1 - length pre) with 1 by lia. reflexivity.
Qed.

(* NO DECODING ERROR on a prefix of a well-formed stream: a message, more input (everything
   consumed) or MissingBuffer -- and the state is again of this kind *)
Theorem dec_call_stream v F st buf frags res : cinv v F st buf -> sstream v st buf ->
  let '(r, st', buf') := dec_call_res v st buf frags res false in
  sstream v st' buf' /\ (r = DMsg \/ r = DErr MissingBuffer \/ r = DMore).
Proof.
  intros Hc [Hl Hgi]. pose proof Hc as (G1 & G2 & Hm).
  unfold dec_call_res.
  destruct (Nat.eqb_spec (dcode st) 0) as [Hcode|Hcode].
  - (* between messages *)
    assert (Hmsg : dmsg st = Some (dlen st) \/ (dmsg st = None /\ dlen st = 0)).
    { destruct (dmsg st) as [c|]; [destruct Hm as (-> & _ & _); left; reflexivity|].
      right. split; [reflexivity|apply Hm]. }
    destruct (skipn (dcurr st) buf) as [|c rest0] eqn:Hun.
    { destruct (dec_regular_idle_empty v st buf frags res G1 G2 Hcode Hmsg Hun) as (st' & -> & Hc' & Hcur').
      destruct (inl v); (split; [|right; right; reflexivity]);
        unfold sstream, gapinv; rewrite Hc', Hcur', Hun; cbn [Nat.eqb]; (split; [reflexivity|intros H; contradiction]). }
    cbn [wfs0] in Hl. apply andb_prop in Hl. destruct Hl as [Hc0 Hw]. apply Bool.negb_true_iff in Hc0.
    pose proof (bn_pos c Hc0) as Hbn.
    destruct (dec_regular_fresh v st buf frags res c rest0 G1 G2 Hcode Hmsg Hun ltac:(lia)) as (post & Hp15 & Hpp & Heq).
    rewrite Heq. unfold call_result.
    set (proc := dcurr st - (dpos st + dlen st) - post + 1) in *.
    pose proof (dec_loop_stream v rest0 (bn c) 0 proc [] 1 Hw ltac:(intros; unfold proc; lia) Hbn) as Hlive.
    pose proof (dec_loop_gap v false rest0 (bn c) 0 proc [] 1) as (added & Ho & Gc1 & Gc2 & Gc3). cbn [app] in Ho. subst added.
    set (r := dec_loop v false rest0 (bn c) 0 proc [] 1) in *.
    assert (Hlb : length buf = dcurr st + S (length rest0)).
    { apply (f_equal (@length _)) in Hun. rewrite skipn_length in Hun. cbn [length] in Hun. lia. }
    set (done2 := dpos st + dlen st + post) in *.
    assert (Hcur : done2 + (0 + length (lout r)) + lproc r = dcurr st + lcons r) by (unfold done2, proc in *; lia).
    assert (Hsk : skipn (done2 + (0 + length (lout r)) + lproc r) (splice buf (done2 + 0) (lout r)) =
                  skipn (done2 + (0 + length (lout r)) + lproc r) buf)
      by (apply splice_skipn; unfold done2, proc in *; lia).
    unfold stream_post in Hlive.
    destruct (lr r) as [| |e|] eqn:Elr; try contradiction.
    + (* message *)
      destruct Hlive as (pre & tl & Erest & Hz & Hlc & Hwt).
      assert (Hres : sstream v (mkd 0 0 (done2 + (0 + length (lout r)) + lproc r) done2 (0 + length (lout r)) (Some (0 + length (lout r))))
                       (splice buf (done2 + 0) (lout r))).
      { apply (sstream_idle v buf _ (dcurr st) _ (lcons r) _ _ _ (c :: rest0) Hcur Hsk Hun).
        rewrite Hlc, Erest. replace (1 + length pre + 1) with (S (length pre + 1)) by lia. cbn [skipn]. rewrite skipn_tail. exact Hwt. }
      destruct (inl v); (split; [exact Hres|left; reflexivity]).
    + (* more input: everything consumed *)
      destruct Hlive as (Hlc & Hlc1 & Hgap).
      assert (Hres : sstream v (mkd (lcode r) (lpos r) (done2 + (0 + length (lout r)) + lproc r) done2 (0 + length (lout r)) None)
                       (splice buf (done2 + 0) (lout r))).
      { apply (sstream_make v buf _ (dcurr st) _ (lcons r) _ _ _ _ (c :: rest0) Hcur Hsk Hun); [|assumption|intros H; specialize (Hgap H); lia].
        rewrite Hlc. replace (1 + length rest0) with (length (c :: rest0)) by reflexivity. rewrite skipn_all. reflexivity. }
      destruct (inl v); (split; [exact Hres|right; right; reflexivity]).
    + destruct e; try contradiction.
      * (* zero inside the last block: COBS/R *)
        destruct Hlive as (Hi & Hlp & Hlc1 & pre & tl & Erest & Hz & Hlc & Hwt).
        rewrite Hi. cbn [dcode dpos dlen dcurr].
        destruct (Nat.eqb_spec (lcode r) 0); [lia|].
        rewrite Erest, app_length in Hlb. cbn [length] in Hlb.
        rewrite splice_length by (unfold done2, proc in *; lia).
        destruct (Nat.leb_spec (length buf) (done2 + (0 + length (lout r)))) as [Hno|_];
          [unfold done2, proc in *; lia|].
        split; [|left; reflexivity].
        unfold sstream, gapinv. cbn [dcode dcurr Nat.eqb]. split; [|intros H; contradiction].
        set (b1 := splice buf (done2 + 0) (lout r)) in *.
        assert (Hb1 : skipn (S (done2 + (0 + length (lout r)) + lproc r)) (splice b1 (done2 + (0 + length (lout r))) [nb (lcode r)]) =
                      skipn (S (done2 + (0 + length (lout r)) + lproc r)) b1).
        { apply splice_skipn; cbn [length]; unfold b1; rewrite ?splice_length by (unfold done2, proc in *; lia);
            unfold done2, proc in *; lia. }
        rewrite Hb1. replace (S (done2 + (0 + length (lout r)) + lproc r)) with ((done2 + (0 + length (lout r)) + lproc r) + 1) by lia.
        rewrite <- (skipn_skipn' b1 1 (done2 + (0 + length (lout r)) + lproc r)). rewrite Hsk, Hcur.
        rewrite <- (skipn_skipn' buf (lcons r) (dcurr st)), Hun, Hlc, Erest.
        rewrite (skipn_skipn' (c :: pre ++ 0%N :: tl) 1 (1 + length pre)).
        replace (1 + length pre + 1) with (S (length pre + 1)) by lia. cbn [skipn]. rewrite skipn_tail. exact Hwt.
      * (* out of gap *)
        destruct Hlive as (Hw' & Hlp & Hlc1).
        assert (Hres : sstream v (mkd (lcode r) (lpos r) (done2 + (0 + length (lout r)) + lproc r) done2 (0 + length (lout r)) None)
                         (splice buf (done2 + 0) (lout r))).
        { apply (sstream_make v buf _ (dcurr st) _ (lcons r) _ _ _ _ (c :: rest0) Hcur Hsk Hun); [|assumption|intros; lia].
          replace (lcons r) with (S (lcons r - 1)) by lia. cbn [skipn]. exact Hw'. }
        destruct (inl v); (split; [exact Hres|right; left; reflexivity]).
  - (* resumed inside a message *)
    destruct (dmsg st) as [c|] eqn:Em; [destruct Hm as (_ & Hz & _); contradiction|].
    destruct (Nat.eqb_spec (dcode st) 0); [contradiction|]. clear Hm.
    rewrite (dec_regular_resumed v st buf frags res G1 G2 Hcode Em). lazy zeta.
    set (inp := skipn (dcurr st) buf) in *.
    assert (Hc1 : 1 <= dcode st) by lia.
    pose proof (dec_loop_stream v inp (dcode st) (dpos8 st) (gapof st) [] 0 Hl (Hgi Hcode) Hc1) as Hlive.
    pose proof (dec_loop_gap v false inp (dcode st) (dpos8 st) (gapof st) [] 0) as (added & Ho & Gc1 & Gc2 & Gc3).
    cbn [app] in Ho. subst added.
    set (r := dec_loop v false inp (dcode st) (dpos8 st) (gapof st) [] 0) in *.
    assert (Hlb : length buf = dcurr st + length inp) by (unfold inp; rewrite skipn_length; lia).
    assert (Hcur : dpos st + (dlen st + length (lout r)) + lproc r = dcurr st + lcons r) by (unfold gapof in *; lia).
    assert (Hsk : skipn (dpos st + (dlen st + length (lout r)) + lproc r) (splice buf (dpos st + dlen st) (lout r)) =
                  skipn (dpos st + (dlen st + length (lout r)) + lproc r) buf)
      by (apply splice_skipn; unfold gapof in *; lia).
    unfold stream_post in Hlive. rewrite Nat.sub_0_r in *. cbn [Nat.add] in Hlive.
    destruct (lr r) as [| |e|] eqn:Elr; try contradiction.
    + destruct Hlive as (pre & tl & Erest & Hz & Hlc & Hwt).
      assert (Hres : sstream v (mkd 0 0 (dpos st + (dlen st + length (lout r)) + lproc r) (dpos st) (dlen st + length (lout r))
                                    (Some (dlen st + length (lout r)))) (splice buf (dpos st + dlen st) (lout r))).
      { apply (sstream_idle v buf _ (dcurr st) _ (lcons r) _ _ _ inp Hcur Hsk eq_refl).
        rewrite Hlc, Erest, skipn_tail. exact Hwt. }
      destruct (inl v); (split; [exact Hres|left; reflexivity]).
    + destruct Hlive as (Hlc & Hlc1 & Hgap).
      assert (Hres : sstream v (mkd (lcode r) (lpos r) (dpos st + (dlen st + length (lout r)) + lproc r) (dpos st)
                                    (dlen st + length (lout r)) None) (splice buf (dpos st + dlen st) (lout r))).
      { apply (sstream_make v buf _ (dcurr st) _ (lcons r) _ _ _ _ inp Hcur Hsk eq_refl); [|assumption|intros H; specialize (Hgap H); lia].
        rewrite Hlc, skipn_all. reflexivity. }
      destruct (inl v); (split; [exact Hres|right; right; reflexivity]).
    + destruct e; try contradiction.
      * destruct Hlive as (Hi & Hlp & Hlc1 & pre & tl & Erest & Hz & Hlc & Hwt).
        rewrite Hi. cbn [dcode dpos dlen dcurr].
        destruct (Nat.eqb_spec (lcode r) 0); [lia|].
        rewrite Erest, app_length in Hlb. cbn [length] in Hlb.
        rewrite splice_length by (unfold gapof in *; lia).
        destruct (Nat.leb_spec (length buf) (dpos st + (dlen st + length (lout r)))) as [Hno|_];
          [unfold gapof in *; lia|].
        split; [|left; reflexivity].
        unfold sstream, gapinv. cbn [dcode dcurr Nat.eqb]. split; [|intros H; contradiction].
        set (b1 := splice buf (dpos st + dlen st) (lout r)) in *.
        assert (Hb1 : skipn (S (dpos st + (dlen st + length (lout r)) + lproc r)) (splice b1 (dpos st + (dlen st + length (lout r))) [nb (lcode r)]) =
                      skipn (S (dpos st + (dlen st + length (lout r)) + lproc r)) b1).
        { apply splice_skipn; cbn [length]; unfold b1; rewrite ?splice_length by (unfold gapof in *; lia);
            unfold gapof in *; lia. }
        rewrite Hb1. replace (S (dpos st + (dlen st + length (lout r)) + lproc r)) with ((dpos st + (dlen st + length (lout r)) + lproc r) + 1) by lia.
        rewrite <- (skipn_skipn' b1 1 (dpos st + (dlen st + length (lout r)) + lproc r)). rewrite Hsk, Hcur.
        rewrite <- (skipn_skipn' buf (lcons r) (dcurr st)). fold inp. rewrite Hlc, Erest.
        rewrite (skipn_skipn' (pre ++ 0%N :: tl) 1 (length pre)). rewrite skipn_tail. exact Hwt.
      * destruct Hlive as (Hw' & Hlp & Hlc1).
        assert (Hres : sstream v (mkd (lcode r) (lpos r) (dpos st + (dlen st + length (lout r)) + lproc r) (dpos st)
                                      (dlen st + length (lout r)) None) (splice buf (dpos st + dlen st) (lout r))).
        { apply (sstream_make v buf _ (dcurr st) _ (lcons r) _ _ _ _ inp Hcur Hsk eq_refl); [exact Hw'|assumption|intros; lia]. }
        destruct (inl v); (split; [exact Hres|right; left; reflexivity]).
Qed.
