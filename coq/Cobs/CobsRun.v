(* Cobs/CobsRun.v — histories of encoder operations on model and specification level
   (what the drivers of C01 execute).  No proofs. *)
From MptV Require Import Base.Mem Cobs.CobsModel Cobs.PyModel Cobs.TextModel.

Inductive framing := FCobs (v : variant) | FText.

Definition enc_any (f : framing) := match f with FCobs v => enc_call v | FText => str_call end.
Definition dec_any (f : framing) (body : list byte) := match f with FCobs v => sdec v body | FText => text_decode body end.
Local Open Scope nat_scope.

(* observation of one operation *)
Inductive cobs_obs :=
| OCall (r : eres) (st : estate) (buf : list byte) (over : bool)
| OPush (r : eres) (st : estate) (buf : list byte) (cap : nat)
| OMsg (zeros : nat) (msgs : list (option (list byte))) (rest : nat)
| OPy (decoded : option (list byte)) (frame : list byte)
| OAny.

(* the retry loop of CobsModel.push_loop, for either kind of encoder *)
Fixpoint push_loop_any (fuel : nat) (f : framing) (st : estate) (buf : list byte) (cap : nat)
         (sched : list nat) (sp : nat) (d : option (list byte)) (off : nat)
  : eres * estate * list byte * nat :=
  match fuel with
  | 0 => (EErr BadOperation, st, buf, cap)
  | S fuel =>
    let arg := match d with Some l => Some (skipn off l) | None => None end in
    let '(r, st', buf') := enc_any f st buf cap arg in
    match r with
    | EErr MissingBuffer =>
      let inc := nth (sp mod (length sched)) sched 0 in
      if inc =? 0 then (r, st', buf', cap)
      else push_loop_any fuel f st' buf' (cap + inc) sched (S sp) d off
    | EErr _ | EFault => (r, st', buf', cap)
    | EInt k =>
      match d with
      | None => (EInt 0, st', buf', cap)
      | Some l => if length l <=? off + k then (EInt (off + k), st', buf', cap)
                  else if k =? 0 then (EInt off, st', buf', cap)
                  else push_loop_any fuel f st' buf' cap sched sp d (off + k)
      end
    end
  end.

Definition count_zeros (l : list byte) : nat := length (filter bz l).

Definition set_cap (s : cstate) (n : nat) : cstate := mkc (cst s) (firstn n (cbuf s)) n.

Definition cstep (v : framing) (s : cstate) (o : cop) : cstate * cobs_obs :=
  match o with
  | CCall cap d =>
    let s1 := set_cap s cap in
    let '(r, st', buf') := enc_any v (cst s1) (cbuf s1) cap (Some d) in
    (mkc st' buf' cap, OCall r st' buf' (cap <? edone st' + escr st'))
  | CTerm cap =>
    let s1 := set_cap s cap in
    let '(r, st', buf') := enc_any v (cst s1) (cbuf s1) cap None in
    (mkc st' buf' cap, OCall r st' buf' (cap <? edone st' + escr st'))
  | CPushAll sched d =>
    let '(r, st', buf', cap') := push_loop_any (4 * length d + 64) v (cst s) (cbuf s) (ccap s) sched 0 (Some d) 0 in
    (mkc st' buf' cap', OPush r st' buf' cap')
  | CTermAll sched =>
    let '(r, st', buf', cap') := push_loop_any 600 v (cst s) (cbuf s) (ccap s) sched 0 None 0 in
    (mkc st' buf' cap', OPush r st' buf' cap')
  | CMsg =>
    let fin := firstn (edone (cst s)) (cbuf s) in
    let '(bodies, rest) := split_frames [] fin in
    (s, OMsg (count_zeros fin) (map (dec_any v) bodies) (length rest))
  | CPy m _ =>
    (* model level: the transcribed Python encoder's frame and what the reference decoder makes of it *)
    let f := py_encode_cobs m in
    (s, OPy (sdec v_cobs (removelast f)) f)
  | CAPush d =>
    let '(r, st', buf', cap') := apush (enc_any v) (cst s) (cbuf s) (ccap s) (Some d) in
    (mkc st' buf' cap', OPush r st' buf' cap')
  | CATerm =>
    let '(r, st', buf', cap') := apush (enc_any v) (cst s) (cbuf s) (ccap s) None in
    (mkc st' buf' cap', OPush r st' buf' cap')
  end.

Fixpoint crun (v : framing) (s : cstate) (ops : list cop) : list cobs_obs :=
  match ops with
  | [] => []
  | o :: ops => let '(s', ob) := cstep v s o in ob :: crun v s' ops
  end.

(* specification level: the messages handed over completely and terminated; raw
   single calls are outside the specification's vocabulary (any outcome allowed,
   and the message they belong to is not predicted) *)
Record sstate := mks { sfin : list (list byte); scur : list byte; sraw : bool }.

Definition expect_msg (f : framing) (m : list byte) : list byte :=
  match f with FCobs _ => m | FText => cmd_header ++ m end.
Definition admits (f : framing) (m : list byte) : bool :=
  match f with FCobs _ => true | FText => text_admits m end.

Definition cspec_step (f : framing) (s : sstate) (o : cop) : sstate * cobs_obs :=
  match o with
  | CCall _ _ | CTerm _ => (mks (sfin s) (scur s) true, OAny)
  | CPushAll sched d =>
    if existsb (fun i => i =? 0) sched || (length d =? 0) || negb (admits f d) then (mks (sfin s) (scur s) true, OAny)
    else (mks (sfin s) (scur s ++ d) (sraw s), OPush (EInt (length d)) (mke 0 0 0) [] 0)
  | CTermAll sched =>
    if existsb (fun i => i =? 0) sched then (mks (sfin s) (scur s) true, OAny)
    else (mks (sfin s ++ [scur s]) [] (sraw s), OPush (EInt 0) (mke 0 0 0) [] 0)
  | CMsg =>
    if sraw s then (s, OAny)
    else (s, OMsg (length (sfin s)) (map (fun m => Some (expect_msg f m)) (sfin s)) 0)
  | CPy m _ => (s, OPy (Some m) [])
  | CAPush d =>
    if (length d =? 0) then (mks (sfin s ++ [scur s]) [] (sraw s), OPush (EInt 0) (mke 0 0 0) [] 0)
    else if negb (admits f d) then (mks (sfin s) (scur s) true, OAny)
    else (mks (sfin s) (scur s ++ d) (sraw s), OPush (EInt (length d)) (mke 0 0 0) [] 0)
  | CATerm => (mks (sfin s ++ [scur s]) [] (sraw s), OPush (EInt 0) (mke 0 0 0) [] 0)
  end.

Fixpoint csrun (f : framing) (s : sstate) (ops : list cop) : list cobs_obs :=
  match ops with
  | [] => []
  | o :: ops => let '(s', ob) := cspec_step f s o in ob :: csrun f s' ops
  end.

Definition cinit : cstate := mkc (mke 0 0 0) [] 0.
Definition sinit : sstate := mks [] [] false.
