(* Cobs/DecModel.v — mechanism-level model of the in-place COBS decoders
   (mptcore/convert/decode_cobs.c, decode_cobs_zpe.c).  No proofs.

   The iovec list is modelled by its concatenation [buf] (flat byte list) plus the
   fragment lengths [frags] (only used for the target alignment step and for peek
   mode, which sees the first fragment only).  All fragment bases are 16-byte
   aligned in the correspondence harness, so the address residue the C code adds
   is the offset inside the fragment.  Decoding is in place: decoded bytes are
   written behind the read position; [wr_behind] faults if a write would not be. *)
From MptV Require Export Base.Mem Cobs.CobsModel.
Local Open Scope nat_scope.

Record dstate := mkd { dcode : nat; dpos8 : nat; dcurr : nat; dpos : nat; dlen : nat; dmsg : option nat }.
Definition dinit (curr : nat) : dstate := mkd 0 0 curr 0 0 None.

(* MPT_cobs_len_zero(c, next) *)
Definition len_zero (v : variant) (c : nat) (next : byte) : nat :=
  if zpe v && (224 <=? c) then 2
  else if (c <? maxlen v) && negb (bz next) then 1 else 0.

Inductive dres := DMsg | DMore | DErr (e : err) | DFault.

(* result of the block loop: what was appended to the decoded bytes, how many input
   bytes were consumed, the gap left, the resume context *)
Record lres := mkl { lr : dres; lout : list byte; lcons : nat; lproc : nat; lcode : nat; lpos : nat }.

(* the main loop of _decode from "position in last save operation" on; [code] <> 0.
   [inp] = the readable bytes from the read position on *)
Fixpoint dec_loop (v : variant) (peek : bool) (inp : list byte)
         (code pos proc : nat) (out : list byte) (cons : nat) : lres :=
  let n := len_data v code in
  if pos <? n then
    match inp with
    | [] => mkl DMore out cons proc code pos
    | b :: rest =>
      if bz b then mkl (DErr MissingData) out cons proc code pos
      else if proc =? 0 then mkl DMore out cons proc code pos
      else dec_loop v peek rest code (S pos) proc (out ++ [b]) (S cons)
    end
  else if peek then mkl DMore out cons proc code pos
  else
    match inp with
    | [] => mkl DMore out cons proc code pos
    | next :: rest =>
      let k := n + len_zero v code next - pos in
      if proc <? k then mkl (DErr MissingBuffer) (out ++ zeros proc) cons 0 code (pos + proc)
      else
        let out' := out ++ zeros k in
        let proc' := proc - k + 1 in
        if bz next then mkl DMsg out' (S cons) proc' 0 0
        else dec_loop v peek rest (bn next) 0 proc' out' (S cons)
    end.

(* position of flat index [i] inside the fragment list, following mpt_message_read:
   (address residue of the fragment's base, offset inside its fragment, bytes left in that
   fragment); [res] = residues mod 16 of the fragment base addresses (missing = aligned) *)
Fixpoint locate (frags res : list nat) (i : nat) : nat * nat * nat :=
  match frags with
  | [] => (0, 0, 0)
  | f :: rest =>
    if i <? f then (hd 0 res, i, f - i)
    else match rest with
         | [] => (hd 0 res, f, 0)            (* at the very end: base + used, nothing left *)
         | _ => locate rest (tl res) (i - f)
         end
  end.

(* target base alignment: how many bytes of the gap are skipped *)
Definition align_post (off rest proc : nat) : nat :=
  if (8 <=? rest) && (off mod 16 <=? proc) then off mod 16
  else if (4 <=? rest) && (off mod 8 <=? proc) then off mod 8
  else if (2 <=? rest) && (off mod 4 <=? proc) then off mod 4
  else if (1 <=? rest) && (off mod 2 <=? proc) then off mod 2
  else 0.

Definition splice (buf : list byte) (at_ : nat) (d : list byte) : list byte :=
  firstn at_ buf ++ d ++ skipn (at_ + length d) buf.

(* one call of the decoder with a source; [vis] = number of readable bytes *)
Definition dec_regular_res (v : variant) (st : dstate) (buf : list byte) (frags res : list nat) (peek : bool)
  : dres * dstate * list byte :=
  let L := if peek then Nat.min (length buf) (hd 0 frags) else length buf in
  let mlen := dlen st in
  let done := dpos st in
  let proc := dcurr st in
  let dl := done + mlen in
  if (proc <? dl) || (L <? dl) then (DErr BadArgument, st, buf) else
  let proc := proc - dl in
  (* consume previous message *)
  match (match dmsg st with
         | Some c => if peek then None else Some (done + c, mlen - c, mkd (dcode st) (dpos8 st) (dcurr st) (dpos st) (mlen - c) None)
         | None => Some (done, mlen, st)
         end) with
  | None => (DErr BadOperation, st, buf)
  | Some (done, mlen, st) =>
    (* align offset for target data *)
    match (if (mlen =? 0) && (dcode st =? 0) then
             if peek then None else
             let '(rs, off, rest) := locate (if peek then firstn 1 frags else frags) res dl in
             let post := align_post (rs + off) rest proc in
             Some (dl + post, proc - post, mkd (dcode st) (dpos8 st) (dcurr st) (dl + post) (dlen st) (dmsg st))
           else Some (done, proc, st)) with
    | None => (DErr BadOperation, st, buf)
    | Some (done, proc, st) =>
      let W := done + mlen in
      if L <? W + proc then (DErr BadArgument, st, buf) else
      let inp := firstn (L - (W + proc)) (skipn (W + proc) buf) in
      (* finished with complete block/message: read a code byte *)
      match (if dcode st =? 0 then
               match inp with
               | [] => None
               | c :: rest => Some (bn c, 0, proc + 1, rest, 1)
               end
             else Some (dcode st, dpos8 st, proc, inp, 0)) with
      | None => (DMore, st, buf)
      | Some (code, pos, proc, inp, c0) =>
        if code =? 0 then (DErr BadValue, mkd (dcode st) (dpos8 st) (W + proc) (dpos st) (dlen st) (dmsg st), buf)
        else
          let r := dec_loop v peek inp code pos proc [] c0 in
          let mlen' := mlen + length (lout r) in
          let buf' := splice buf W (lout r) in
          let curr' := done + mlen' + lproc r in
          match lr r with
          | DMsg => (DMsg, mkd 0 0 curr' done mlen' (Some mlen'), buf')
          | other => (other, mkd (lcode r) (lpos r) curr' (dpos st) mlen' (dmsg st), buf')
          end
      end
    end
  end.

Definition dec_regular v st buf frags peek := dec_regular_res v st buf frags [] peek.

(* _decode_r: a zero inside the last block is the tail-inline encoding *)
Definition dec_call_res (v : variant) (st : dstate) (buf : list byte) (frags res : list nat) (peek : bool)
  : dres * dstate * list byte :=
  let '(r, st', buf') := dec_regular_res v st buf frags res peek in
  if inl v then
    match r with
    | DErr MissingData =>
      if dcode st' =? 0 then (r, st', buf') else
      let at_ := dpos st' + dlen st' in
      let L := if peek then 0 else length buf' in   (* tmp.clen = sourcelen *)
      if L <=? at_ then (DErr MissingBuffer, st', buf')
      else (DMsg, mkd 0 0 (S (dcurr st')) (dpos st') (S (dlen st')) (Some (S (dlen st'))),
            splice buf' at_ [nb (dcode st')])
    | _ => (r, st', buf')
    end
  else (r, st', buf').

Definition dec_call v st buf frags peek := dec_call_res v st buf frags [] peek.

(* MPT_cobs_max_dec *)
Definition max_dec (v : variant) (c : nat) : nat := if zpe v then c * 2 else c - c / maxlen v.
