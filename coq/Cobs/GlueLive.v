(* Cobs/GlueLive.v — LIVENESS of the stream glue's reader side: once the unread bytes of the
   input ring contain a complete frame the reference decoder accepts, ONE mpt_stream_dispatch
   hands the message to the handler -- the dispatcher enlarges the ring itself, in steps of 64,
   as often as the decoder asks for scratch space (streamRecv), and every such step consumes at
   least 47 bytes of the frame, so the loop ends well within the rounds the model allows. *)
From MptV Require Import Base.Mem Base.Tactics C13.QueueModel C13.QueueSpec C13.QueueProofs C13.QueueAlign C13.IoQueueProofs
  Cobs.CobsModel Cobs.DecModel Cobs.EncProofs Cobs.EncTheorems Cobs.DecProofs Cobs.DecCall Cobs.DecHistory
  Cobs.DecLive Cobs.DecStream Cobs.QueueCodec Cobs.StreamSpec Cobs.StreamRun Cobs.GlueRun
  Cobs.WriterHistory Cobs.ReaderHistory Cobs.ReaderStream Cobs.ReaderLive Cobs.GlueProofs.
Local Open Scope nat_scope.

(* on live input mpt_queue_recv yields the message or MissingBuffer, nothing else *)
Lemma dqueue_recv_live_kind v F d r d1 : qinv (dq_q d) -> cinv v F (dq_st d) (contents (dq_q d)) ->
  slive v (dq_st d) (contents (dq_q d)) -> qlen (dq_q d) <> 0 -> dqueue_recv v d = Ok (r, d1) ->
  r = RMsg \/ r = RErr MissingBuffer.
Proof.
  intros Hq Hc Hs Hne H. unfold dqueue_recv in H.
  destruct (Nat.eqb_spec (qlen (dq_q d)) 0); [contradiction|].
  pose proof (decode_ring_spec v F d Hq Hc) as Hdr.
  pose proof (dec_call_honest v F (dq_st d) (contents (dq_q d)) (ring_frags (dq_q d)) [qoff (dq_q d) mod 16] Hc) as Hpost.
  pose proof (dec_call_live v F (dq_st d) (contents (dq_q d)) (ring_frags (dq_q d)) [qoff (dq_q d) mod 16] Hc Hs) as Hlive.
  destruct (dec_call_res v (dq_st d) (contents (dq_q d)) (ring_frags (dq_q d)) [qoff (dq_q d) mod 16] false) as [[r0 st1] flat1].
  destruct Hdr as (q1 & E & Hq1 & Hc1 & Hl1 & Hm1 & _). rewrite E in H. cbn [bind] in H.
  assert (Hdel : forall q st x, qinv q -> cinv v [] st (contents q) -> dmsg st = Some (dlen st) ->
            recv_deliver (mkdq q st) = Ok x -> x = (r, d1) -> r = RMsg).
  { intros q st x Hqq Hcc Hmm Ed Ex. destruct (recv_deliver_spec v [] q st Hqq Hcc) as (c & d' & Ed' & _).
    rewrite Ed', Ex, Hmm in Ed. inversion Ed. reflexivity. }
  destruct Hlive as [(-> & _)|(-> & Hl1' & _)].
  - destruct Hpost as (k & body & _ & _ & _ & _ & _ & _ & Hc' & Hm').
    left. apply (Hdel q1 st1 _ Hq1 ltac:(rewrite Hc1; exact Hc') Hm' H eq_refl).
  - destruct Hpost as (k & _ & _ & _ & _ & Hc' & Hm').
    rewrite <- Hl1 in H.
    destruct (recv_recover_spec v _ q1 st1 Hq1 ltac:(rewrite Hc1; exact Hc')) as [[_ Er]|(q3 & pre & gap & Hq3 & Hc3 & Hgl & Er)];
      rewrite Er in H.
    + inversion H. right. reflexivity.
    + rewrite Hc1 in Hc3.
      destruct (cinv_rebuf v _ st1 flat1 pre gap Hc') as [Hc3' _]. rewrite <- Hc3 in Hc3'.
      assert (Hs3 : slive v (st_rebuf st1 (length pre) (length gap)) (contents q3)).
      { rewrite Hc3. apply (slive_rebuf v _ st1 flat1 pre gap Hc' Hl1'). unfold gapof. lia. }
      pose proof (decode_ring_spec v _ (mkdq q3 (st_rebuf st1 (length pre) (length gap))) Hq3 Hc3') as Hdr3. cbn [dq_q dq_st] in Hdr3.
      pose proof (dec_call_honest v _ (st_rebuf st1 (length pre) (length gap)) (contents q3) (ring_frags q3) [qoff q3 mod 16] Hc3') as Hpost3.
      pose proof (dec_call_live v _ (st_rebuf st1 (length pre) (length gap)) (contents q3) (ring_frags q3) [qoff q3 mod 16] Hc3' Hs3) as Hlive3.
      destruct (dec_call_res v (st_rebuf st1 (length pre) (length gap)) (contents q3) (ring_frags q3) [qoff q3 mod 16] false) as [[r2 st2] flat2].
      destruct Hdr3 as (q4 & E4 & Hq4 & Hc4 & _). rewrite E4 in H. cbn [bind] in H.
      destruct Hlive3 as [(-> & _)|(-> & _)].
      * destruct Hpost3 as (k3 & body & _ & _ & _ & _ & _ & _ & Hc2' & Hm2').
        left. apply (Hdel q4 st2 _ Hq4 ltac:(rewrite Hc4; exact Hc2') Hm2' H eq_refl).
      * inversion H. right. reflexivity.
Qed.

Lemma grecv_loop_msg fuel v d : grecv_loop fuel v RMsg d = Ok (1%Z, d).
Proof. destruct fuel; reflexivity. Qed.

(* the state of a reader ring, as far as liveness is concerned *)
Definition dlive (v : variant) (d : dqueue) (pre tl : list byte) : Prop :=
  slive v (dq_st d) (contents (dq_q d)) /\
  skipn (dcurr (dq_st d)) (contents (dq_q d)) = pre ++ 0%N :: tl /\ nozero pre = true.

(* the enlargement loop of streamRecv from a MissingBuffer state *)
Lemma grecv_loop_delivers v : forall fuel rs1 pre1 tl z d',
  rh_inv v rs1 -> rh_stop rs1 = false -> dlive v (rh_d rs1) pre1 tl -> length pre1 < 47 * fuel ->
  grecv_loop fuel v (RErr MissingBuffer) (rh_d rs1) = Ok (z, d') ->
  z = 1%Z /\ dcode (dq_st d') = 0 /\ skipn (dcurr (dq_st d')) (contents (dq_q d')) = tl.
Proof.
  induction fuel as [|fuel IH]; intros rs1 pre1 tl z d' Hi1 Est1 (Hl1 & Hu1 & Hz1) Hlen H; [lia|].
  cbn [grecv_loop] in H.
  destruct (rh_cinv v rs1 Hi1 Est1) as (Hq1 & _).
  destruct (qprepare_spec (dq_q (rh_d rs1)) 64 FILL Hq1) as (q' & fr & Eq & _ & _ & Hcq'). rewrite Eq in H.
  (* the ghost steps: enlarge, receive *)
  destruct (grow_outcome v rs1 64 FILL Hi1 Est1) as (Est2 & Hin2 & Hm2 & Hu2 & Hl2 & Hfree2).
  pose proof (rh_step_inv v rs1 (RGrow 64 FILL) Hi1) as Hi2.
  set (rs2 := rh_step v rs1 (RGrow 64 FILL)) in *.
  assert (E2 : rh_d rs2 = mkdq q' (dq_st (rh_d rs1))).
  { unfold rs2, rh_step. rewrite Est1, Eq. reflexivity. }
  destruct (dqueue_recv v (mkdq q' (dq_st (rh_d rs1)))) as [[r2 d2]| |] eqn:E3; [|discriminate|discriminate]. cbn [bind] in H.
  destruct (ring_recv_outcome v rs2 pre1 tl Hi2 Est2 (Hl2 Hl1) ltac:(rewrite Hu2; exact Hu1) Hz1)
    as (Est3 & Hin3 & Hcase3).
  destruct (recv_step v rs2 r2 d2 Hi2 Est2 ltac:(rewrite E2; exact E3)) as (Hd3 & _ & Hcase3' & _).
  destruct (rh_cinv v rs2 Hi2 Est2) as (Hq2 & F2 & Hc2).
  assert (Hne2 : qlen (dq_q (rh_d rs2)) <> 0).
  { unfold rh_unread in Hu2. rewrite Hu1 in Hu2. apply (f_equal (@length _)) in Hu2.
    rewrite skipn_length, contents_length, app_length in Hu2 by assumption. cbn [length] in Hu2. lia. }
  pose proof (dqueue_recv_live_kind v F2 (rh_d rs2) r2 d2 Hq2 Hc2 (Hl2 Hl1) Hne2 ltac:(rewrite E2; exact E3)) as [->| ->].
  - rewrite grecv_loop_msg in H. inversion H; subst z d'. split; [reflexivity|].
    destruct Hcase3 as [(_ & Hc3 & Hu3)|(Hm3 & _)].
    + rewrite Hd3 in Hc3. unfold rh_unread in Hu3. rewrite Hd3 in Hu3. split; assumption.
    + destruct Hcase3' as [Hs|[_ [Hp' Hm']]]; [congruence|]. rewrite Hm' in Hm3.
      apply (f_equal (@length _)) in Hm3. rewrite app_length in Hm3. destruct (pend d2); [contradiction|cbn [length] in Hm3; lia].
  - (* still MissingBuffer: at least 47 bytes of the frame were consumed *)
    destruct Hcase3 as [(Hlen3 & _)|(Hm3 & Hl3 & _ & pre2 & Hu3 & Hz3 & _ & Hcons3)].
    + (* the ghost delivered, yet the result was MissingBuffer: impossible *)
      destruct Hcase3' as [Hs|[_ [_ Hm']]]; [congruence|]. rewrite Hm' in Hlen3. lia.
    + apply (IH (rh_step v rs2 RRecv) pre2 tl z d' (rh_step_inv v rs2 RRecv Hi2) Est3).
      * unfold dlive. unfold rh_live, rh_unread in *. split; [exact Hl3|]. split; assumption.
      * lia.
      * rewrite Hd3. exact H.
Qed.

(* streamRecv on a ring whose unread bytes complete (or start) an accepted frame: the message *)
Theorem grecv_delivers v rs pre tl z d' :
  rh_inv v rs -> rh_stop rs = false -> dlive v (rh_d rs) pre tl ->
  grecv v (rh_d rs) = Ok (z, d') ->
  z = 1%Z /\ dcode (dq_st d') = 0 /\ skipn (dcurr (dq_st d')) (contents (dq_q d')) = tl.
Proof.
  intros Hi Est (Hl & Hu & Hz) H. unfold grecv in H.
  destruct (dqueue_recv v (rh_d rs)) as [[r d1]| |] eqn:E1; [|discriminate|discriminate]. cbn [bind] in H.
  destruct (rh_cinv v rs Hi Est) as (Hq & F & Hc).
  assert (Hne : qlen (dq_q (rh_d rs)) <> 0).
  { apply (f_equal (@length _)) in Hu. rewrite skipn_length, contents_length, app_length in Hu by assumption. cbn [length] in Hu. lia. }
  assert (Hql : length pre < qlen (dq_q (rh_d rs))).
  { apply (f_equal (@length _)) in Hu. rewrite skipn_length, contents_length, app_length in Hu by assumption. cbn [length] in Hu. lia. }
  destruct (ring_recv_outcome v rs pre tl Hi Est Hl Hu Hz) as (Est1 & Hin1 & Hcase1).
  destruct (recv_step v rs r d1 Hi Est E1) as (Hd1 & _ & Hcase1' & _).
  pose proof (dqueue_recv_live_kind v F (rh_d rs) r d1 Hq Hc Hl Hne E1) as [->| ->].
  - rewrite grecv_loop_msg in H. inversion H; subst z d'. split; [reflexivity|].
    destruct Hcase1 as [(_ & Hc1' & Hu1')|(Hm1 & _)].
    + rewrite Hd1 in Hc1'. unfold rh_unread in Hu1'. rewrite Hd1 in Hu1'. split; assumption.
    + destruct Hcase1' as [Hs|[_ [Hp' Hm']]]; [congruence|]. rewrite Hm' in Hm1.
      apply (f_equal (@length _)) in Hm1. rewrite app_length in Hm1. destruct (pend d1); [contradiction|cbn [length] in Hm1; lia].
  - destruct Hcase1 as [(Hlen1 & _)|(Hm1 & Hl1 & _ & pre1 & Hu1 & Hz1 & Hlen1 & _)].
    + destruct Hcase1' as [Hs|[_ [_ Hm']]]; [congruence|]. rewrite Hm' in Hlen1. lia.
    + apply (grecv_loop_delivers v (S (qlen (dq_q (rh_d rs)))) (rh_step v rs RRecv) pre1 tl z d'
               (rh_step_inv v rs RRecv Hi) Est1).
      * unfold dlive. unfold rh_live, rh_unread in *. split; [exact Hl1|]. split; assumption.
      * lia.
      * rewrite Hd1. exact H.
Qed.

(* mpt_stream_dispatch on such a ring hands a message to the handler *)
Theorem gdisp_delivers v w g pre tl z m w' : grel v w g ->
  dlive v (gr w) pre tl \/ dmsg (dq_st (gr w)) <> None ->
  gdisp v w = Ok (z, m, w') -> exists x, m = Some x.
Proof.
  intros Hg Hlive H. pose proof (stream_of_rel v w g Hg) as Hstream.
  destruct Hg as (_ & _ & (Hi & Est & Hd & _ & Hmsgs) & _).
  destruct (rh_cinv v (g_rs g) Hi Est) as (_ & F & Hc). rewrite Hd in Hc.
  unfold gdisp in H.
  assert (Hgo : forall d0, (exists x, dqueue_message d0 = Some x) ->
            (do '(z2, d2) <- grecv v d0; Ok ((if (0 <? z2)%Z then RETRY else 0%Z), dqueue_message d0, mkgw (gw w) d2 (gwire w))) = Ok (z, m, w') ->
            exists x, m = Some x).
  { intros d0 (x & Hx) E. destruct (grecv v d0) as [[z2 d2]| |]; [|discriminate|discriminate]. cbn [bind] in E.
    inversion E; subst. exists x. exact Hx. }
  destruct (dmsg (dq_st (gr w))) as [c|] eqn:Em.
  - cbn [bind] in H. apply (Hgo (gr w)); [|exact H].
    rewrite (dqueue_message_decoded v F (gr w) Hc), Em. eexists. reflexivity.
  - destruct Hlive as [Hl|Hbad]; [|contradiction].
    destruct (grecv v (gr w)) as [[zf d0]| |] eqn:Eg; [|discriminate|discriminate]. cbn [bind] in H.
    destruct (grecv_delivers v (g_rs g) pre tl zf d0 Hi Est ltac:(rewrite Hd; exact Hl) ltac:(rewrite Hd; exact Eg)) as (-> & _ & _).
    cbn [Z.ltb Z.eqb Z.compare] in H.
    destruct (grecv_sim v (g_rs g) 1%Z d0 Hi Est ltac:(rewrite Hd; exact Eg)) as (rops & Hi0 & Hd0 & _ & Hcase0 & Hns0).
    destruct (Hns0 ltac:(rewrite Hd; exact Hstream)) as [Hs0 _].
    apply (Hgo d0); [|exact H].
    destruct Hcase0 as [Hs|[_ [(_ & Hp & _)|(Hz' & _)]]]; [congruence| |lia].
    destruct (rh_cinv v _ Hi0 Hs0) as (_ & F0 & Hc0). rewrite Hd0 in Hc0.
    destruct (pend_single v F0 d0 Hc0 Hp) as (x & _ & Hx). exists x. exact Hx.
Qed.

(* ---------- everything that has arrived is handed over ---------- *)
(* the reader ring holds, unread, exactly the frames of [ms]; a message may be held in front *)
Definition atframes (v : variant) (d : dqueue) (n : nat) : Prop :=
  exists ms C, frames_of v ms C /\ skipn (dcurr (dq_st d)) (contents (dq_q d)) = C /\ dcode (dq_st d) = 0 /\
    n = length ms + (match dmsg (dq_st d) with Some _ => 1 | None => 0 end).

Lemma idle_dlive v d m body rest : dcode (dq_st d) = 0 ->
  skipn (dcurr (dq_st d)) (contents (dq_q d)) = body ++ [0%N] ++ rest -> sdec v body = Some m -> nozero body = true ->
  dlive v d body rest.
Proof.
  intros Hc Hu Hs Hz. unfold dlive, slive. rewrite Hc. cbn [Nat.eqb]. rewrite Hu. cbn [app].
  split; [apply (sdec_wfd0 v body m rest Hs)|]. split; [reflexivity|exact Hz].
Qed.

(* nothing unread, between messages: the receive reports "more" (or an empty queue) and stays there *)
Lemma dqueue_recv_nothing v F d r d1 : qinv (dq_q d) -> cinv v F (dq_st d) (contents (dq_q d)) ->
  dcode (dq_st d) = 0 -> skipn (dcurr (dq_st d)) (contents (dq_q d)) = [] ->
  dqueue_recv v d = Ok (r, d1) ->
  (r = RMore \/ r = RErr MissingData) /\ dcode (dq_st d1) = 0 /\ dmsg (dq_st d1) = None /\
  skipn (dcurr (dq_st d1)) (contents (dq_q d1)) = [].
Proof.
  intros Hq Hc Hcode Hun H. unfold dqueue_recv in H.
  destruct (Nat.eqb_spec (qlen (dq_q d)) 0) as [Hz|Hz].
  { inversion H; subst r d1. split; [right; reflexivity|]. cbn [dq_st dq_q]. unfold dst_consumed.
    destruct (dmsg (dq_st d)) eqn:Em; cbn [dcode dmsg dcurr]; rewrite ?Em; repeat split; assumption. }
  pose proof Hc as (G1 & G2 & Hm).
  assert (Hmsg : dmsg (dq_st d) = Some (dlen (dq_st d)) \/ (dmsg (dq_st d) = None /\ dlen (dq_st d) = 0)).
  { destruct (dmsg (dq_st d)) as [c|]; [destruct Hm as (-> & _ & _); left; reflexivity|].
    rewrite Hcode in Hm. cbn [Nat.eqb] in Hm. right. split; [reflexivity|apply Hm]. }
  destruct (dec_regular_idle_empty v (dq_st d) (contents (dq_q d)) (ring_frags (dq_q d)) [qoff (dq_q d) mod 16] G1 G2 Hcode Hmsg Hun)
    as (st' & Ereg & Hc' & Hcur').
  pose proof (decode_ring_spec v F d Hq Hc) as Hdr.
  pose proof (dec_call_honest v F (dq_st d) (contents (dq_q d)) (ring_frags (dq_q d)) [qoff (dq_q d) mod 16] Hc) as Hpost.
  unfold dec_call_res in Hdr, Hpost. rewrite Ereg in Hdr, Hpost.
  assert (Hsame : (if inl v then (DMore, st', contents (dq_q d)) else (DMore, st', contents (dq_q d))) = (DMore, st', contents (dq_q d)))
    by (destruct (inl v); reflexivity).
  rewrite Hsame in Hdr, Hpost.
  destruct Hdr as (q1 & E & Hq1 & Hc1 & _). rewrite E in H. cbn [bind] in H.
  destruct Hpost as (k & _ & _ & _ & _ & Hcc & Hmm).
  destruct (recv_deliver_spec v _ q1 st' Hq1 ltac:(rewrite Hc1; exact Hcc)) as (c & d' & Ed & Hdrop & Hst' & _ & Hcd').
  rewrite Ed, Hmm in H. inversion H; subst r d1. split; [left; reflexivity|].
  rewrite Hst', Hcd', Hc1. cbn [st_drop dcode dmsg dcurr]. split; [exact Hc'|]. split; [exact Hmm|].
  destruct Hdrop as [Hd1 _]. rewrite unread_drop by exact Hd1. rewrite Hcur'. exact Hun.
Qed.

(* one streamRecv between messages: what is left afterwards *)
Lemma lookahead_frames v rs n z d2 : rh_inv v rs -> rh_stop rs = false ->
  sstream v (dq_st (rh_d rs)) (contents (dq_q (rh_d rs))) ->
  (exists ms C, frames_of v ms C /\ skipn (dcurr (dq_st (rh_d rs))) (contents (dq_q (rh_d rs))) = C /\
     dcode (dq_st (rh_d rs)) = 0 /\ n = length ms) ->
  grecv v (rh_d rs) = Ok (z, d2) -> atframes v d2 n /\ (n <> 0 -> z = 1%Z).
Proof.
  intros Hi Est Hss (ms & C & Hf & Hu & Hcode & ->) H.
  destruct (rh_cinv v rs Hi Est) as (Hq & F & Hc).
  destruct Hf as [|m ms body rest Hs Hz Hf].
  - (* nothing left *)
    split; [|intros Hn; contradiction].
    unfold grecv in H. destruct (dqueue_recv v (rh_d rs)) as [[r d1]| |] eqn:E1; [|discriminate|discriminate]. cbn [bind] in H.
    destruct (dqueue_recv_nothing v F (rh_d rs) r d1 Hq Hc Hcode Hu E1) as (Hr & Hc1 & Hm1 & Hu1).
    assert (Ed : d2 = d1).
    { destruct Hr as [-> | ->]; destruct (S (qlen (dq_q (rh_d rs)))); cbn [grecv_loop rres_z bind] in H; inversion H; reflexivity. }
    subst d2. exists [], []. split; [constructor|]. split; [exact Hu1|]. split; [exact Hc1|]. rewrite Hm1. reflexivity.
  - (* a complete frame: it is decoded and held *)
    pose proof (idle_dlive v (rh_d rs) m body rest Hcode Hu Hs Hz) as Hl.
    destruct (grecv_delivers v rs body rest z d2 Hi Est Hl H) as (-> & Hc2 & Hu2).
    split; [|intros _; reflexivity].
    destruct (grecv_sim v rs 1%Z d2 Hi Est H) as (rops & _ & _ & _ & Hcase & Hns).
    destruct (Hns Hss) as [Hst _].
    assert (Hm2 : dmsg (dq_st d2) <> None).
    { destruct Hcase as [Hs'|[_ [(_ & Hp & _)|(Hz' & _)]]]; [congruence| |lia].
      unfold pend in Hp. destruct (dmsg (dq_st d2)); [discriminate|contradiction]. }
    exists ms, rest. split; [exact Hf|]. split; [exact Hu2|]. split; [exact Hc2|].
    cbn [length]. destruct (dmsg (dq_st d2)); [lia|contradiction].
Qed.

(* one mpt_stream_dispatch while messages are left: it hands one over, one less is left *)
Theorem gdisp_frames v w g n z m w' : grel v w g -> atframes v (gr w) (S n) ->
  gdisp v w = Ok (z, m, w') -> (exists x, m = Some x) /\ atframes v (gr w') n.
Proof.
  intros Hg Hat H. pose proof (stream_of_rel v w g Hg) as Hstream.
  destruct Hg as (_ & _ & (Hi & Est & Hd & _ & Hmsgs) & _).
  destruct (rh_cinv v (g_rs g) Hi Est) as (_ & F & Hc). rewrite Hd in Hc.
  destruct Hat as (ms & C & Hf & Hu & Hcode & Hn).
  unfold gdisp in H.
  (* the second half: deliver the held message of [d0], look ahead *)
  assert (Hgo : forall rs0 d0 ms0 C0, rh_inv v rs0 -> rh_stop rs0 = false -> rh_d rs0 = d0 ->
            sstream v (dq_st d0) (contents (dq_q d0)) -> (exists x, dqueue_message d0 = Some x) ->
            frames_of v ms0 C0 -> skipn (dcurr (dq_st d0)) (contents (dq_q d0)) = C0 -> dcode (dq_st d0) = 0 -> n = length ms0 ->
            (do '(z2, d2) <- grecv v d0; Ok ((if (0 <? z2)%Z then RETRY else 0%Z), dqueue_message d0, mkgw (gw w) d2 (gwire w))) = Ok (z, m, w') ->
            (exists x, m = Some x) /\ atframes v (gr w') n).
  { intros rs0 d0 ms0 C0 Hi0 Es0 Hd0 Hs0 (x & Hx) Hf0 Hu0 Hc0 Hn0 E.
    destruct (grecv v d0) as [[z2 d2]| |] eqn:Eg; [|discriminate|discriminate]. cbn [bind] in E. inversion E; subst z m w'; clear E.
    split; [exists x; exact Hx|]. cbn [gr].
    apply (lookahead_frames v rs0 n z2 d2 Hi0 Es0 ltac:(rewrite Hd0; exact Hs0)
             ltac:(exists ms0, C0; rewrite Hd0; repeat split; assumption) ltac:(rewrite Hd0; exact Eg)). }
  destruct (dmsg (dq_st (gr w))) as [c|] eqn:Em.
  - (* a message is held *)
    cbn [bind] in H.
    apply (Hgo (g_rs g) (gr w) ms C Hi Est Hd Hstream); try assumption; [|lia].
    rewrite (dqueue_message_decoded v F (gr w) Hc), Em. eexists. reflexivity.
  - (* receive first *)
    destruct (grecv v (gr w)) as [[zf d0]| |] eqn:Eg; [|discriminate|discriminate]. cbn [bind] in H.
    destruct (lookahead_frames v (g_rs g) (S n) zf d0 Hi Est ltac:(rewrite Hd; exact Hstream)
                ltac:(exists ms, C; rewrite Hd; repeat split; try assumption; lia) ltac:(rewrite Hd; exact Eg)) as (Hat0 & Hz).
    rewrite (Hz ltac:(lia)) in *. cbn [Z.ltb Z.eqb Z.compare] in H.
    destruct (grecv_sim v (g_rs g) 1%Z d0 Hi Est ltac:(rewrite Hd; exact Eg)) as (rops & Hi0 & Hd0 & _ & Hcase0 & Hns0).
    destruct (Hns0 ltac:(rewrite Hd; exact Hstream)) as [Hst0 Hs0].
    destruct Hat0 as (ms0 & C0 & Hf0 & Hu0 & Hc0 & Hn0).
    assert (Hp0 : pend d0 <> []) by (destruct Hcase0 as [Hs'|[_ [(_ & Hp & _)|(Hz' & _)]]]; [congruence|exact Hp|lia]).
    assert (Hm0 : dmsg (dq_st d0) <> None) by (unfold pend in Hp0; destruct (dmsg (dq_st d0)); [discriminate|contradiction]).
    destruct (rh_cinv v _ Hi0 Hst0) as (_ & F0 & Hcc0). rewrite Hd0 in Hcc0.
    destruct (pend_single v F0 d0 Hcc0 Hp0) as (x & _ & Hx).
    apply (Hgo (rh_run v (g_rs g) rops) d0 ms0 C0 Hi0 Hst0 Hd0 Hs0 ltac:(exists x; exact Hx) Hf0 Hu0 Hc0); [|exact H].
    destruct (dmsg (dq_st d0)); [lia|contradiction].
Qed.

Fixpoint gdisp_n (v : variant) (k : nat) (w : gworld) (acc : list (list byte)) : res (gworld * list (list byte)) :=
  match k with
  | 0 => Ok (w, acc)
  | S k => do '(z, m, w1) <- gdisp v w; gdisp_n v k w1 (acc ++ match m with Some x => [x] | None => [] end)
  end.

Lemma gdisp_n_prefix v : forall k ww a ww' gg, gdisp_n v k ww a = Ok (ww', gg) -> exists more, gg = a ++ more.
Proof.
  induction k as [|k IHk]; intros ww a ww' gg E; cbn [gdisp_n] in E.
  - inversion E; subst. exists []. rewrite app_nil_r. reflexivity.
  - destruct (gdisp v ww) as [[[z m] w1]| |]; [|discriminate|discriminate]. cbn [bind] in E.
    destruct (IHk _ _ _ _ E) as (more & ->). rewrite <- app_assoc. eexists. reflexivity.
Qed.

(* ALL messages whose frames have arrived are handed over by as many dispatches: none stalls *)
Theorem glue_dispatch_all v : forall n w g acc w' got, grel v w g -> atframes v (gr w) n ->
  gdisp_n v n w acc = Ok (w', got) ->
  length got = length acc + n /\ atframes v (gr w') 0 /\ exists g', grel v w' g' /\ g_del g' = g_del g ++ skipn (length acc) got.
Proof.
  induction n as [|n IH]; intros w g acc w' got Hg Hat H; cbn [gdisp_n] in H.
  - inversion H; subst. split; [lia|]. split; [exact Hat|]. exists g. split; [exact Hg|].
    rewrite skipn_all, app_nil_r. reflexivity.
  - destruct (gdisp v w) as [[[z m] w1]| |] eqn:E; [|discriminate|discriminate]. cbn [bind] in H.
    destruct (gdisp_frames v w g n z m w1 Hg Hat E) as ((x & ->) & Hat1).
    destruct (gdisp_sim v w g z (Some x) w1 Hg E) as (g1 & Hg1 & _ & _ & _ & Hd1).
    destruct (IH w1 g1 (acc ++ [x]) w' got Hg1 Hat1 H) as (Hl & Hat' & g' & Hg' & Hd').
    rewrite app_length in Hl. cbn [length] in Hl. split; [lia|]. split; [exact Hat'|].
    exists g'. split; [exact Hg'|]. rewrite Hd', Hd1, <- app_assoc. f_equal.
    destruct (gdisp_n_prefix v _ _ _ _ _ H) as (more & ->).
    rewrite (skipn_app_exact (acc ++ [x]) more). rewrite <- app_assoc. rewrite (skipn_app_exact acc ([x] ++ more)). reflexivity.
Qed.

(* the same from the middle of a frame: the reader has consumed part of the current frame (in any
   state [dlive] allows), the rest of it and the frames of [ms] are unread *)
Theorem gdisp_mid v w g pre tl ms z m w' : grel v w g -> dmsg (dq_st (gr w)) = None ->
  dlive v (gr w) pre tl -> frames_of v ms tl ->
  gdisp v w = Ok (z, m, w') -> (exists x, m = Some x) /\ atframes v (gr w') (length ms).
Proof.
  intros Hg Em Hl Hf H. pose proof (stream_of_rel v w g Hg) as Hstream.
  destruct Hg as (_ & _ & (Hi & Est & Hd & _ & Hmsgs) & _).
  unfold gdisp in H. rewrite Em in H.
  destruct (grecv v (gr w)) as [[zf d0]| |] eqn:Eg; [|discriminate|discriminate]. cbn [bind] in H.
  destruct (grecv_delivers v (g_rs g) pre tl zf d0 Hi Est ltac:(rewrite Hd; exact Hl) ltac:(rewrite Hd; exact Eg)) as (-> & Hc0 & Hu0).
  cbn [Z.ltb Z.eqb Z.compare] in H.
  destruct (grecv_sim v (g_rs g) 1%Z d0 Hi Est ltac:(rewrite Hd; exact Eg)) as (rops & Hi0 & Hd0 & _ & Hcase0 & Hns0).
  destruct (Hns0 ltac:(rewrite Hd; exact Hstream)) as [Hst0 Hs0].
  assert (Hp0 : pend d0 <> []) by (destruct Hcase0 as [Hs'|[_ [(_ & Hp & _)|(Hz' & _)]]]; [congruence|exact Hp|lia]).
  destruct (rh_cinv v _ Hi0 Hst0) as (_ & F0 & Hcc0). rewrite Hd0 in Hcc0.
  destruct (pend_single v F0 d0 Hcc0 Hp0) as (x & _ & Hx).
  destruct (grecv v d0) as [[z2 d2]| |] eqn:Eg2; [|discriminate|discriminate]. cbn [bind] in H. inversion H; subst z m w'; clear H.
  split; [exists x; exact Hx|]. cbn [gr].
  apply (lookahead_frames v (rh_run v (g_rs g) rops) (length ms) z2 d2 Hi0 Hst0 ltac:(rewrite Hd0; exact Hs0)
           ltac:(exists ms, tl; rewrite Hd0; repeat split; assumption) ltac:(rewrite Hd0; exact Eg2)).
Qed.

(* ---------- transfer progress with a kernel that takes what it is offered ---------- *)
(* a flush whose write takes everything offered empties the finished part of the output ring *)
Theorem gflush_all v w ws k z w' n : wh_inv0 v ws -> wh_e ws = gw w ->
  (Z.of_nat (edone (eq_st (gw w))) <= k)%Z -> gflush w k = Ok (z, w', n) ->
  n = edone (eq_st (gw w)) /\ edone (eq_st (gw w')) = 0 /\ length (gwire w') = length (gwire w) + n.
Proof.
  intros Hi He Hk H. pose proof (wh_inv0_einv v ws Hi) as [Hq Hl]. rewrite He in Hq, Hl.
  unfold gflush in H.
  destruct (Nat.eqb_spec (edone (eq_st (gw w))) 0) as [Hz|Hz].
  { inversion H; subst. repeat split; lia. }
  destruct k as [|p|p]; try lia.
  set (m := Nat.min (Z.to_nat (Z.pos p)) (edone (eq_st (gw w)))) in *.
  assert (Hm : m = edone (eq_st (gw w))) by (unfold m; lia).
  pose proof (qget_spec (eq_q (gw w)) 0 m Hq ltac:(lia)) as Hg.
  destruct (Nat.leb_spec (0 + m) (qlen (eq_q (gw w)))) as [_|Hbad]; [|lia].
  rewrite Hg in H. cbn [bind] in H.
  destruct (qcrop0_ok (eq_q (gw w)) m Hq ltac:(lia)) as (o & Hcrop & _).
  rewrite Hcrop in H. cbn [bind] in H. inversion H; subst z w' n; clear H.
  cbn [gw gwire eq_st edone]. split; [exact Hm|]. split; [lia|].
  rewrite app_length, length_slice; [reflexivity|]. rewrite contents_length by assumption. lia.
Qed.

(* a poll whose read takes at least one byte loads at least one byte: a full ring is enlarged first *)
Theorem gpoll_progress v w g k z w' n : grel v w g -> 1 <= k -> gwire w <> [] ->
  gpoll w k = Ok (z, w', n) -> 1 <= n /\ gwire w' = skipn n (gwire w).
Proof.
  intros (_ & _ & (Hi & Est & Hd & _) & _) Hk Hw H.
  destruct (rh_cinv v (g_rs g) Hi Est) as (Hq & F & Hc). rewrite Hd in Hq, Hc.
  unfold gpoll in H.
  destruct (dqueue_shift_spec v F (gr w) Hq Hc) as (c & d1 & Es & _ & _ & Hq1 & _). rewrite Es in H. cbn [bind] in H.
  destruct (qprepare_full (dq_q d1) 64 FILL Hq1) as (q' & fr & Eq & Hq' & Hm' & _ & Hl' & _).
  pose proof (grow_cap_room (qmax (dq_q d1)) (qlen (dq_q d1)) 64 ltac:(apply Hq1)) as Hroom.
  assert (Hx : exists q2, (if qlen (dq_q d1) =? qmax (dq_q d1)
                  then match qprepare (dq_q d1) 64 FILL with Ok (q', _) => Ok (Some q') | Err _ => Ok None | Fault => Fault end
                  else Ok (Some (dq_q d1))) = Ok (Some q2) /\ qinv q2 /\ 1 <= qmax q2 - qlen q2).
  { destruct (Nat.eqb_spec (qlen (dq_q d1)) (qmax (dq_q d1))) as [Hfull|Hnf].
    - exists q'. rewrite Eq. split; [reflexivity|]. split; [exact Hq'|]. rewrite Hm', Hl'. lia.
    - exists (dq_q d1). split; [reflexivity|]. split; [exact Hq1|]. destruct Hq1 as (_ & Hle & _). lia. }
  destruct Hx as (q2 & Ex & Hq2 & Hfree). rewrite Ex in H. cbn [bind] in H.
  set (m := Nat.min (Nat.min k (length (gwire w))) (qmax q2 - qlen q2)) in *.
  assert (Hm1 : 1 <= m).
  { unfold m. destruct (gwire w); [contradiction|]. cbn [length]. lia. }
  destruct (Nat.eqb_spec m 0); [lia|].
  destruct (match qpush q2 (firstn m (gwire w)) with Ok q' => Ok q' | Err _ => Ok q2 | Fault => Fault end) as [q3| |]; [|discriminate|discriminate].
  cbn [bind] in H. inversion H; subst. split; [exact Hm1|reflexivity].
Qed.
