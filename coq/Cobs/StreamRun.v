(* Cobs/StreamRun.v — the transport the C02 harness plays around the two framed queues
   (harness/c02_stream.c: do_wire, do_recv, pump, push_all and the case operations), modelled
   step for step on top of QueueCodec.v so that implementation and model can be compared
   after every operation at mechanism level (ring offsets, encoder/decoder state, contents).
   No proofs. *)
From MptV Require Import Base.Mem C13.QueueModel Cobs.CobsModel Cobs.DecModel Cobs.QueueCodec Cobs.StreamSpec.
Local Open Scope nat_scope.

Record world := mkwd { ww : equeue; wr_ : dqueue }.

Definition FILL : byte := 238%N.

(* do_wire(n): returns the world and the number of bytes moved *)
Definition do_wire (w : world) (n : nat) : res (world * nat) :=
  let e := ww w in
  let k := Nat.min (edone (eq_st e)) n in
  if k =? 0 then Ok (w, 0) else
  let rq := dq_q (wr_ w) in
  do rq1 <- (if qmax rq - qlen rq <? k then
               match qprepare rq k FILL with Ok (q', _) => Ok q' | Err _ => Ok rq | Fault => Fault end
             else Ok rq);
  if qmax rq1 - qlen rq1 <? k then Ok (w, 0) else
  match qget (eq_q e) 0 k with
  | Fault => Fault
  | Err _ => Ok (w, 0)
  | Ok bytes =>
    do wq <- (match qcrop (eq_q e) 0 k with Ok q' => Ok q' | Err _ => Ok (eq_q e) | Fault => Fault end);
    let st := eq_st e in
    do rq2 <- (match qpush rq1 bytes with Ok q' => Ok q' | Err _ => Ok rq1 | Fault => Fault end);
    Ok (mkwd (mkeq wq (mke (ectx st) (edone st - k) (escr st))) (mkdq rq2 (dq_st (wr_ w))), k)
  end.

(* do_recv(): one receive attempt (the reader enlarges its ring when the decoder asks for
   buffer); returns the delivered message if any *)
Definition do_recv (v : variant) (w : world) : res (world * option (list byte)) :=
  do '(r, d1) <- dqueue_recv v (wr_ w);
  do '(r, d2) <-
    (match r with
     | RErr MissingBuffer =>
       match qprepare (dq_q d1) 64 FILL with
       | Ok (q', free) => if free =? 0 then Ok (r, d1) else dqueue_recv v (mkdq q' (dq_st d1))
       | Err _ => Ok (r, d1)
       | Fault => Fault
       end
     | _ => Ok (r, d1)
     end);
  let w' := mkwd (ww w) d2 in
  match r with
  | RMsg => Ok (w', dqueue_message d2)
  | RFault => Fault
  | _ => Ok (w', None)
  end.

(* pump(): wire everything and receive until three idle rounds *)
Fixpoint pump (fuel : nat) (v : variant) (w : world) (idle : nat) (got : list (list byte))
  : res (world * list (list byte)) :=
  match fuel with
  | 0 => Ok (w, got)
  | S fuel =>
    if 3 <=? idle then Ok (w, got) else
    do '(w1, k) <- do_wire w (edone (eq_st (ww w)));
    do '(w2, m) <- do_recv v w1;
    let got' := match m with Some x => got ++ [x] | None => got end in
    let progress := negb (k =? 0) || (match m with Some _ => true | None => false end) in
    pump fuel v w2 (if progress then 0 else S idle) got'
  end.

Definition pump_fuel (w : world) : nat :=
  2 * (qlen (eq_q (ww w)) + qlen (dq_q (wr_ w))) + 16.

Inductive pstat := PSOk | PSFail (code : Z) | PSPeek (rc : eres) (data : list byte).

Definition err_z (e : err) : Z :=
  match e with
  | BadArgument => -1 | BadValue => -2 | BadType => -3 | BadOperation => -4 | BadEncoding => -8
  | MissingData => -16 | MissingBuffer => -17 | ERange => -34 | EInval => -22
  end%Z.

(* push_all(d): push until everything is consumed, making room by pumping when a push makes
   no progress; d = None terminates the message *)
Fixpoint push_all (fuel : nat) (v : variant) (w : world) (d : option (list byte)) (off stuck : nat)
         (got : list (list byte)) : res (world * pstat * list (list byte)) :=
  match fuel with
  | 0 => Ok (w, PSFail (-98), got)
  | S fuel =>
    let arg := match d with Some l => Some (skipn off l) | None => None end in
    do '(r, e') <- equeue_push v (ww w) arg;
    let w1 := mkwd e' (wr_ w) in
    let again (w1 : world) (got : list (list byte)) :=
      if 3 <=? stuck then
        Ok (w1, PSFail (match r with EErr e => err_z e | EFault => (-97)%Z | EInt _ => (-99)%Z end), got)
      else
        do '(w2, got') <- pump (pump_fuel w1) v w1 0 got;
        push_all fuel v w2 d off (S stuck) got' in
    match d, r with
    | None, EInt _ => Ok (w1, PSOk, got)
    | Some l, EInt (S k) =>
      if length l <=? off + S k then Ok (w1, PSOk, got)
      else push_all fuel v w1 d (off + S k) 0 got
    | _, _ => again w1 got
    end
  end.

Definition push_fuel (d : option (list byte)) : nat :=
  match d with Some l => 5 * length l + 16 | None => 16 end.

(* observation of one harness operation: received messages, status, and the mechanism state *)
Record sobs := mkso { so_got : list (list byte); so_stat : pstat; so_w : equeue; so_r : dqueue }.

Definition wstep (v : variant) (w : world) (o : sop) : res (world * list (list byte) * pstat) :=
  match o with
  | SSend m =>
    do '(w1, st, got) <- (match m with
                          | [] => Ok (w, PSOk, [])
                          | _ => push_all (push_fuel (Some m)) v w (Some m) 0 0 []
                          end);
    match st with
    | PSOk => do '(w2, st2, got2) <- push_all (push_fuel None) v w1 None 0 0 got; Ok (w2, got2, st2)
    | _ => Ok (w1, got, st)
    end
  | SPart m =>
    match m with
    | [] => Ok (w, [], PSOk)
    | _ => do '(w1, st, got) <- push_all (push_fuel (Some m)) v w (Some m) 0 0 []; Ok (w1, got, st)
    end
  | SFin => do '(w1, st, got) <- push_all (push_fuel None) v w None 0 0 []; Ok (w1, got, st)
  | SWire n => do '(w1, _) <- do_wire w n; Ok (w1, [], PSOk)
  | SRecv => do '(w1, m) <- do_recv v w; Ok (w1, match m with Some x => [x] | None => [] end, PSOk)
  | SDrain => do '(w1, got) <- pump (pump_fuel w) v w 0 []; Ok (w1, got, PSOk)
  | SPeek n dst =>
    do '(rc, data, d') <- dqueue_peek v (wr_ w) n dst;
    Ok (mkwd (ww w) d', [], PSPeek rc data)
  | SRaw bytes =>
    (* the reader half of do_wire with bytes that do not come from the writer *)
    let k := length bytes in
    if k =? 0 then Ok (w, [], PSOk) else
    let rq := dq_q (wr_ w) in
    do rq1 <- (if qmax rq - qlen rq <? k then
                 match qprepare rq k FILL with Ok (q', _) => Ok q' | Err _ => Ok rq | Fault => Fault end
               else Ok rq);
    if qmax rq1 - qlen rq1 <? k then Ok (mkwd (ww w) (mkdq rq1 (dq_st (wr_ w))), [], PSOk) else
    do rq2 <- (match qpush rq1 bytes with Ok q' => Ok q' | Err _ => Ok rq1 | Fault => Fault end);
    Ok (mkwd (ww w) (mkdq rq2 (dq_st (wr_ w))), [], PSOk)
  | SOpen blk =>
    (* mpt_queue_push without encoder (raw append: mpt_qpush, scratch += len) while no block is open
       and the ring has room: the bytes become the open block of the encoder installed afterwards.
       This is the only way the scratch bytes come to straddle the ring end (the state the
       out-of-band branch of mpt_queue_push handles) *)
    let e := ww w in
    let k := length blk in
    if (escr (eq_st e) =? 0) && (1 <=? k) && (k <=? qmax (eq_q e) - qlen (eq_q e)) then
      do q' <- (match qpush (eq_q e) blk with Ok q' => Ok q' | Err _ => Ok (eq_q e) | Fault => Fault end);
      Ok (mkwd (mkeq q' (mke (ectx (eq_st e)) (edone (eq_st e)) k)) (wr_ w), [], PSOk)
    else Ok (w, [], PSOk)
  end.

Fixpoint wrun (v : variant) (w : world) (ops : list sop) : list (option sobs) :=
  match ops with
  | [] => []
  | o :: ops =>
    match wstep v w o with
    | Ok (w', got, st) => Some (mkso got st (ww w') (wr_ w')) :: wrun v w' ops
    | _ => [None]
    end
  end.

Definition ring_init (cap off : nat) : queue :=
  mkq (repeat FILL cap) 0 cap (if cap =? 0 then 0 else off mod cap).

Definition world_init (wcap woff rcap roff : nat) : world :=
  mkwd (mkeq (ring_init wcap woff) (mke 0 0 0)) (mkdq (ring_init rcap roff) (dinit 0)).
