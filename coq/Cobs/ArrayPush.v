(* Cobs/ArrayPush.v — mpt_array_push (the library's own retry loop: grow the buffer on
   MissingBuffer, continue after partial consumption) keeps the encoder invariant: what it
   reports as consumed is encoded, a termination leaves a complete frame of the message. *)
From MptV Require Import Base.Mem Base.Tactics Cobs.CobsModel Cobs.EncProofs Cobs.EncTheorems.
Local Open Scope nat_scope.

Lemma abuf_size_ge len : len <= abuf_size len.
Proof.
  unfold abuf_size. pose proof (Nat.div_mod (len + 64 - 1) 128 ltac:(lia)).
  pose proof (Nat.mod_upper_bound (len + 64 - 1) 128 ltac:(lia)). lia.
Qed.

Lemma abuf_detach_ge cap len : cap <= abuf_detach cap len /\ len <= abuf_detach cap len.
Proof.
  unfold abuf_detach. destruct (Nat.leb_spec len cap); [lia|]. pose proof (abuf_size_ge len). lia.
Qed.

(* data: [l] is being pushed, [off] bytes of it are consumed; [c0] = bytes of the message consumed
   by earlier pushes *)
Lemma apush_loop_data v pre l : variant_ok v -> forall fuel st buf cap off c0,
  off <= length l -> enc_inv v pre (c0 ++ firstn off l) st buf -> edone st + escr st <= cap ->
  let '(r, st', buf', cap') := apush_loop fuel (enc_call v) st buf cap (Some l) off in
  cap <= cap' /\
  match r with
  | EInt k => off <= k /\ k <= length l /\ enc_inv v pre (c0 ++ firstn k l) st' buf' /\ edone st' + escr st' <= cap'
  | EErr _ => off = 0 /\ enc_inv v pre c0 st' buf' /\ edone st' + escr st' <= cap'
  | EFault => True
  end.
Proof.
  intros Hv. induction fuel as [|fuel IH]; intros st buf cap off c0 Hoff Hinv Hcap; cbn [apush_loop].
  { split; [lia|exact I]. }
  pose proof (enc_data_call v pre (c0 ++ firstn off l) st buf cap (skipn off l) Hv Hinv) as Hd.
  destruct (enc_call v st buf cap (Some (skipn off l))) as [[r st'] buf'].
  destruct r as [k|e|]; [| |contradiction].
  - destruct Hd as (Hk & Hinv' & Hcap'). rewrite skipn_length in Hk.
    destruct (Nat.ltb_spec cap (edone st' + escr st')); [lia|].
    destruct (Nat.ltb_spec (length l - off) k); [lia|].
    assert (Hcons : (c0 ++ firstn off l) ++ firstn k (skipn off l) = c0 ++ firstn (off + k) l).
    { rewrite <- app_assoc. f_equal. clear. revert l. induction off as [|off IH]; intros l; [reflexivity|].
      destruct l as [|x l]; [cbn; rewrite firstn_nil; reflexivity|]. cbn [firstn skipn app Nat.add]. f_equal. apply IH. }
    rewrite Hcons in Hinv'.
    destruct (Nat.eqb_spec (length l - off - k) 0).
    + split; [lia|]. split; [lia|]. split; [lia|]. split; assumption.
    + specialize (IH st' buf' cap (off + k) c0 ltac:(lia) Hinv' Hcap').
      destruct (apush_loop fuel (enc_call v) st' buf' cap (Some l) (off + k)) as [[[r2 st2] buf2] cap2].
      destruct IH as [Hc2 IH]. split; [assumption|].
      destruct r2 as [k2|e2|]; [| |exact I].
      * destruct IH as (H1 & H2 & H3 & H4). repeat split; try assumption; lia.
      * (* an error is reported only when nothing of this push was consumed *)
        destruct IH as (Hz0 & Hi2 & Hc2'). split; [lia|]. split; assumption.
  - destruct Hd as [-> ->].
    destruct (Nat.ltb_spec cap (edone st + escr st)); [lia|].
    assert (Hother : let '(r, st', buf', cap') := (if off =? 0 then EErr e else EInt off, st, buf, cap) in
              cap <= cap' /\ match r with
              | EInt k => off <= k /\ k <= length l /\ enc_inv v pre (c0 ++ firstn k l) st' buf' /\ edone st' + escr st' <= cap'
              | EErr _ => off = 0 /\ enc_inv v pre c0 st' buf' /\ edone st' + escr st' <= cap'
              | EFault => True end).
    { split; [lia|]. destruct (Nat.eqb_spec off 0) as [->|Hne].
      { split; [reflexivity|]. cbn [firstn] in Hinv. rewrite app_nil_r in Hinv. split; assumption. }
      split; [lia|]. split; [lia|]. split; assumption. }
    destruct e; try exact Hother.
    (* MissingBuffer: larger buffer, same state *)
    destruct (abuf_detach_ge cap (cap + 64)) as [Hg1 Hg2].
    specialize (IH st buf (abuf_detach cap (cap + 64)) off c0 Hoff Hinv ltac:(lia)).
    destruct (apush_loop fuel (enc_call v) st buf (abuf_detach cap (cap + 64)) (Some l) off) as [[[r2 st2] buf2] cap2].
    destruct IH as [Hc2 IH]. split; [lia|exact IH].
Qed.

Lemma apush_loop_term v pre : variant_ok v -> forall fuel st buf cap consumed,
  enc_inv v pre consumed st buf -> edone st + escr st <= cap ->
  let '(r, st', buf', cap') := apush_loop fuel (enc_call v) st buf cap None 0 in
  cap <= cap' /\
  match r with
  | EInt _ => exists body, buf' = pre ++ body ++ [0%N] /\ sdec v body = Some consumed /\
                nozero body = true /\ idle_state st' buf' /\ length buf' <= cap'
  | EErr _ => enc_inv v pre consumed st' buf' /\ edone st' + escr st' <= cap'
  | EFault => True
  end.
Proof.
  intros Hv. induction fuel as [|fuel IH]; intros st buf cap consumed Hinv Hcap; cbn [apush_loop].
  { split; [lia|exact I]. }
  pose proof (enc_term_call v pre consumed st buf cap Hv Hinv Hcap) as Hd.
  destruct (enc_call v st buf cap None) as [[r st'] buf'].
  destruct r as [k|e|]; [| |contradiction].
  - destruct Hd as (body & Hb & Hs & Hnz & Hidle & Hlen).
    assert (Hst : edone st' + escr st' = length buf') by (destruct Hidle as [-> ->]; lia).
    destruct (Nat.ltb_spec cap (edone st' + escr st')); [lia|].
    split; [lia|]. exists body. repeat split; try assumption; apply Hidle.
  - destruct Hd as [-> ->].
    destruct (Nat.ltb_spec cap (edone st + escr st)); [lia|].
    destruct e; try (split; [lia|]; cbn [Nat.eqb]; split; assumption).
    destruct (abuf_detach_ge cap (cap + 64)) as [Hg1 Hg2].
    specialize (IH st buf (abuf_detach cap (cap + 64)) consumed Hinv ltac:(lia)).
    destruct (apush_loop fuel (enc_call v) st buf (abuf_detach cap (cap + 64)) None 0) as [[[r2 st2] buf2] cap2].
    destruct IH as [Hc2 IH]. split; [lia|exact IH].
Qed.

Lemma enc_inv_len v pre consumed st buf : enc_inv v pre consumed st buf -> length buf = edone st + escr st.
Proof.
  intros [H0 Hd Hb Hc | bs open [Hbs Hop Hcode Hlt Hdec] Hd Hb].
  - rewrite Hb, H0, Hd. lia.
  - rewrite Hb, app_length, Hd. cbn [length]. rewrite Hcode. lia.
Qed.

(* the state an encode_array is in: its buffer (if any) holds the encoder window *)
Definition arr_ok (st : estate) (cap : nat) : Prop :=
  edone st + escr st <= cap \/ (cap = 0 /\ edone st + escr st = 0).

(* mpt_array_push(arr, len > 0, data) *)
Theorem apush_data v pre c0 st buf cap l : variant_ok v -> l <> [] ->
  enc_inv v pre c0 st buf -> arr_ok st cap ->
  let '(r, st', buf', cap') := apush (enc_call v) st buf cap (Some l) in
  match r with
  | EInt k => k <= length l /\ enc_inv v pre (c0 ++ firstn k l) st' buf' /\ arr_ok st' cap'
  | EErr _ => enc_inv v pre c0 st' buf' /\ arr_ok st' cap'
  | EFault => True
  end.
Proof.
  intros Hv Hne Hinv Hok. unfold apush. destruct l as [|x l]; [contradiction|]. set (d := x :: l) in *.
  pose proof (enc_inv_len v pre c0 st buf Hinv) as Hlen.
  set (mx := edone st + escr st) in *. set (add := Nat.max (length d) 64).
  destruct Hok as [Hok|[Hc0 Hm0]].
  - destruct (Nat.eqb_spec cap 0) as [Hz|Hz].
    + assert (Hmx0 : mx = 0) by lia. destruct (Nat.eqb_spec mx 0); [|lia]. cbn [negb andb].
      destruct (Nat.ltb_spec (length buf) mx); [lia|].
      pose proof (apush_loop_data v pre d Hv (4 * length d + 64) st buf (abuf_size add) 0 c0 ltac:(lia)
                    ltac:(cbn [firstn]; rewrite app_nil_r; exact Hinv) ltac:(lia)) as HL.
      destruct (apush_loop (4 * length d + 64) (enc_call v) st buf (abuf_size add) (Some d) 0) as [[[r st'] buf'] cap'].
      destruct HL as [_ HL]. destruct r as [k|er|]; [| |exact I].
      * destruct HL as (_ & Hk & Hi & Hc). split; [assumption|]. split; [assumption|left; assumption].
      * destruct HL as (_ & Hi & Hc). split; [assumption|left; assumption].
    + cbn [andb]. destruct (abuf_detach_ge cap (mx + add)) as [Hg1 Hg2].
      destruct (Nat.ltb_spec (length buf) mx); [lia|].
      pose proof (apush_loop_data v pre d Hv (4 * length d + 64) st buf (abuf_detach cap (mx + add)) 0 c0 ltac:(lia)
                    ltac:(cbn [firstn]; rewrite app_nil_r; exact Hinv) ltac:(lia)) as HL.
      destruct (apush_loop (4 * length d + 64) (enc_call v) st buf (abuf_detach cap (mx + add)) (Some d) 0) as [[[r st'] buf'] cap'].
      destruct HL as [_ HL]. destruct r as [k|er|]; [| |exact I].
      * destruct HL as (_ & Hk & Hi & Hc). split; [assumption|]. split; [assumption|left; assumption].
      * destruct HL as (_ & Hi & Hc). split; [assumption|left; assumption].
  - subst cap. cbn [Nat.eqb andb]. destruct (Nat.eqb_spec mx 0); [|lia]. cbn [negb].
    destruct (Nat.ltb_spec (length buf) mx); [lia|].
    pose proof (apush_loop_data v pre d Hv (4 * length d + 64) st buf (abuf_size add) 0 c0 ltac:(lia)
                  ltac:(cbn [firstn]; rewrite app_nil_r; exact Hinv) ltac:(lia)) as HL.
    destruct (apush_loop (4 * length d + 64) (enc_call v) st buf (abuf_size add) (Some d) 0) as [[[r st'] buf'] cap'].
    destruct HL as [_ HL]. destruct r as [k|er|]; [| |exact I].
    + destruct HL as (_ & Hk & Hi & Hc). split; [assumption|]. split; [assumption|left; assumption].
    + destruct HL as (_ & Hi & Hc). split; [assumption|left; assumption].
Qed.

(* mpt_array_push(arr, 0, 0): the message is closed *)
Theorem apush_term v pre consumed st buf cap : variant_ok v ->
  enc_inv v pre consumed st buf -> arr_ok st cap ->
  let '(r, st', buf', cap') := apush (enc_call v) st buf cap None in
  match r with
  | EInt _ => exists body, buf' = pre ++ body ++ [0%N] /\ sdec v body = Some consumed /\
                nozero body = true /\ idle_state st' buf' /\ arr_ok st' cap'
  | EErr _ => enc_inv v pre consumed st' buf' /\ arr_ok st' cap'
  | EFault => True
  end.
Proof.
  intros Hv Hinv Hok. unfold apush. cbn [length Nat.mul Nat.add].
  pose proof (enc_inv_len v pre consumed st buf Hinv) as Hlen.
  set (mx := edone st + escr st) in *.
  assert (Hmain : forall cap1, mx <= cap1 ->
     let '(r, st', buf', cap') := apush_loop 64 (enc_call v) st buf cap1 None 0 in
     match r with
     | EInt _ => exists body, buf' = pre ++ body ++ [0%N] /\ sdec v body = Some consumed /\
                   nozero body = true /\ idle_state st' buf' /\ arr_ok st' cap'
     | EErr _ => enc_inv v pre consumed st' buf' /\ arr_ok st' cap'
     | EFault => True
     end).
  { intros cap1 Hc1.
    pose proof (apush_loop_term v pre Hv 64 st buf cap1 consumed Hinv Hc1) as H.
    destruct (apush_loop 64 (enc_call v) st buf cap1 None 0) as [[[r st'] buf'] cap'].
    destruct H as [_ H]. destruct r as [k|er|]; [| |exact I].
    - destruct H as (body & Hb & Hs & Hnz & Hidle & Hl). exists body. repeat split; try assumption; try apply Hidle.
      left. destruct Hidle as [-> ->]. lia.
    - destruct H as [Hi Hc]. split; [assumption|left; assumption]. }
  destruct Hok as [Hok|[Hc0 Hm0]].
  - destruct (Nat.eqb_spec cap 0) as [Hz|Hz].
    + assert (Hmx0 : mx = 0) by lia. destruct (Nat.eqb_spec mx 0); [|lia]. cbn [negb andb].
      destruct (Nat.ltb_spec (length buf) mx); [lia|]. apply Hmain. lia.
    + cbn [andb]. destruct (abuf_detach_ge cap (mx + Nat.max 0 64)) as [Hg1 Hg2].
      destruct (Nat.ltb_spec (length buf) mx); [lia|]. apply Hmain. lia.
  - subst cap. cbn [Nat.eqb andb]. destruct (Nat.eqb_spec mx 0); [|lia]. cbn [negb].
    destruct (Nat.ltb_spec (length buf) mx); [lia|]. apply Hmain. lia.
Qed.

(* a whole message through the library's own loop: every way of cutting it into pushes *)
Theorem apush_message v pre st0 cap0 pieces : variant_ok v -> idle_state st0 pre -> arr_ok st0 cap0 ->
  Forall (fun p => p <> []) pieces ->
  forall c0 st buf cap, enc_inv v pre c0 st buf -> arr_ok st cap ->
  (* push every piece completely, then terminate *)
  let run := fold_left (fun (acc : option (estate * list byte * nat)) p =>
               match acc with
               | Some (st, buf, cap) =>
                 match apush (enc_call v) st buf cap (Some p) with
                 | (EInt k, st', buf', cap') => if k =? length p then Some (st', buf', cap') else None
                 | _ => None
                 end
               | None => None
               end) pieces (Some (st, buf, cap)) in
  match run with
  | Some (st1, buf1, cap1) =>
    match apush (enc_call v) st1 buf1 cap1 None with
    | (EInt _, st2, buf2, cap2) =>
      exists body, buf2 = pre ++ body ++ [0%N] /\ sdec v body = Some (c0 ++ concat pieces) /\ nozero body = true /\
        idle_state st2 buf2 /\ arr_ok st2 cap2
    | _ => True
    end
  | None => True
  end.
Proof.
  intros Hv _ _ Hne. induction pieces as [|p pieces IH]; intros c0 st buf cap Hinv Hok; cbn [fold_left].
  - cbn [concat]. rewrite app_nil_r.
    pose proof (apush_term v pre c0 st buf cap Hv Hinv Hok) as H.
    destruct (apush (enc_call v) st buf cap None) as [[[r st2] buf2] cap2]. destruct r; try exact I. exact H.
  - inversion Hne as [|? ? Hp Hrest]; subst.
    pose proof (apush_data v pre c0 st buf cap p Hv Hp Hinv Hok) as H.
    destruct (apush (enc_call v) st buf cap (Some p)) as [[[r st'] buf'] cap'].
    destruct r as [k|e|].
    + destruct H as (Hk & Hi & Ho). destruct (Nat.eqb_spec k (length p)) as [->|].
      * rewrite firstn_all in Hi. specialize (IH Hrest (c0 ++ p) st' buf' cap' Hi Ho).
        cbn [concat]. rewrite app_assoc. exact IH.
      * assert (Hn : forall l, fold_left (fun (acc : option (estate * list byte * nat)) p0 =>
               match acc with
               | Some (st, buf, cap) =>
                 match apush (enc_call v) st buf cap (Some p0) with
                 | (EInt k, st', buf', cap') => if k =? length p0 then Some (st', buf', cap') else None
                 | _ => None
                 end
               | None => None
               end) l None = None) by (induction l; [reflexivity|assumption]).
        rewrite Hn. exact I.
    + assert (Hn : forall l, fold_left (fun (acc : option (estate * list byte * nat)) p0 =>
               match acc with
               | Some (st, buf, cap) =>
                 match apush (enc_call v) st buf cap (Some p0) with
                 | (EInt k, st', buf', cap') => if k =? length p0 then Some (st', buf', cap') else None
                 | _ => None
                 end
               | None => None
               end) l None = None) by (induction l; [reflexivity|assumption]).
      rewrite Hn. exact I.
    + assert (Hn : forall l, fold_left (fun (acc : option (estate * list byte * nat)) p0 =>
               match acc with
               | Some (st, buf, cap) =>
                 match apush (enc_call v) st buf cap (Some p0) with
                 | (EInt k, st', buf', cap') => if k =? length p0 then Some (st', buf', cap') else None
                 | _ => None
                 end
               | None => None
               end) l None = None) by (induction l; [reflexivity|assumption]).
      rewrite Hn. exact I.
Qed.

(* ---------- progress: a data call that succeeds consumes at least one byte ---------- *)
Lemma enc_loop_rest_le v : forall n src fin open code left, length src <= n ->
  let '(_, _, _, _, rest) := enc_loop v fin open code left src in length rest <= length src.
Proof.
  induction n as [|n IH]; intros src fin open code left Hn.
  { destruct src; [cbn; lia|cbn in Hn; lia]. }
  destruct src as [|b rest]; [cbn; lia|]. cbn [length] in Hn. cbn [enc_loop].
  destruct (bz b).
  - destruct rest as [|b2 rest2]; [cbn; lia|]. cbn [length] in *.
    destruct (zpe v && (1 <? code) && (code <? 32) && bz b2).
    + destruct (left - 1 =? 0); [cbn [length]; lia|].
      specialize (IH rest2 (fin ++ nb (code + maxlen v) :: open) [] 1 (left - 1) ltac:(lia)).
      destruct (enc_loop v (fin ++ nb (code + maxlen v) :: open) [] 1 (left - 1) rest2) as [[[[f o] c] l] r]. lia.
    + destruct (left - 1 =? 0); [cbn [length]; lia|].
      specialize (IH (b2 :: rest2) (fin ++ nb code :: open) [] 1 (left - 1) ltac:(cbn [length]; lia)).
      destruct (enc_loop v (fin ++ nb code :: open) [] 1 (left - 1) (b2 :: rest2)) as [[[[f o] c] l] r]. cbn [length] in IH. lia.
  - destruct (S code =? maxlen v).
    + destruct (left - 1 =? 0); [cbn [length]; lia|].
      destruct (left - 2 =? 0); [cbn [length]; lia|].
      specialize (IH rest (fin ++ nb (S code) :: open ++ [b]) [] 1 (left - 2) ltac:(lia)).
      destruct (enc_loop v (fin ++ nb (S code) :: open ++ [b]) [] 1 (left - 2) rest) as [[[[f o] c] l] r]. cbn [length]. lia.
    + destruct (left - 1 =? 0); [cbn [length]; lia|].
      specialize (IH rest fin (open ++ [b]) (S code) (left - 1) ltac:(lia)).
      destruct (enc_loop v fin (open ++ [b]) (S code) (left - 1) rest) as [[[[f o] c] l] r]. cbn [length]. lia.
Qed.

Lemma enc_loop_progress v b rest fin open code left :
  1 <= left -> ~ (S code = maxlen v /\ left = 1) ->
  let '(_, _, _, _, r) := enc_loop v fin open code left (b :: rest) in length r <= length rest.
Proof.
  intros Hl Hno. cbn [enc_loop]. destruct (bz b).
  - destruct rest as [|b2 rest2]; [cbn; lia|]. cbn [length].
    destruct (zpe v && (1 <? code) && (code <? 32) && bz b2).
    + destruct (left - 1 =? 0); [cbn [length]; lia|].
      pose proof (enc_loop_rest_le v (length rest2) rest2 (fin ++ nb (code + maxlen v) :: open) [] 1 (left - 1) ltac:(lia)) as H.
      destruct (enc_loop v (fin ++ nb (code + maxlen v) :: open) [] 1 (left - 1) rest2) as [[[[f o] c] l] r]. lia.
    + destruct (left - 1 =? 0); [cbn [length]; lia|].
      pose proof (enc_loop_rest_le v (S (length rest2)) (b2 :: rest2) (fin ++ nb code :: open) [] 1 (left - 1) ltac:(cbn [length]; lia)) as H.
      destruct (enc_loop v (fin ++ nb code :: open) [] 1 (left - 1) (b2 :: rest2)) as [[[[f o] c] l] r]. cbn [length] in H. lia.
  - destruct (Nat.eqb_spec (S code) (maxlen v)) as [E|E].
    + destruct (Nat.eqb_spec (left - 1) 0); [exfalso; apply Hno; split; [assumption|lia]|].
      destruct (left - 2 =? 0); [cbn [length]; lia|].
      pose proof (enc_loop_rest_le v (length rest) rest (fin ++ nb (S code) :: open ++ [b]) [] 1 (left - 2) ltac:(lia)) as H.
      destruct (enc_loop v (fin ++ nb (S code) :: open ++ [b]) [] 1 (left - 2) rest) as [[[[f o] c] l] r]. lia.
    + destruct (left - 1 =? 0); [cbn [length]; lia|].
      pose proof (enc_loop_rest_le v (length rest) rest fin (open ++ [b]) (S code) (left - 1) ltac:(lia)) as H.
      destruct (enc_loop v fin (open ++ [b]) (S code) (left - 1) rest) as [[[[f o] c] l] r]. lia.
Qed.

(* the encoders never report success without consuming anything (mpt_array_push would spin) *)
Theorem enc_data_progress v st buf cap src : 3 <= maxlen v -> src <> [] ->
  match enc_call v st buf cap (Some src) with
  | (EInt k, _, _) => 1 <= k
  | _ => True
  end.
Proof.
  intros Hm Hne. cbn [enc_call]. unfold enc_regular.
  destruct ((cap <? edone st) || (cap - edone st <? escr st)); [exact I|].
  destruct src as [|b rest]; [contradiction|]. cbn [length Nat.eqb].
  set (left := cap - edone st). set (code := escr st).
  destruct (negb (code =? 0)) eqn:Ec.
  - destruct (Nat.eqb_spec (left - code) 0); [exact I|].
    destruct ((left - code <? 2) && (code =? maxlen v - 1)) eqn:E2; [exact I|].
    pose proof (enc_loop_progress v b rest (fin_of st buf) (open_of st buf) code (left - code) ltac:(lia)) as HP.
    assert (Hno : ~ (S code = maxlen v /\ left - code = 1)).
    { intros [H1 H2]. apply andb_false_iff in E2. destruct E2 as [E2|E2].
      - apply Nat.ltb_ge in E2. lia.
      - apply Nat.eqb_neq in E2. lia. }
    specialize (HP Hno).
    destruct (enc_loop v (fin_of st buf) (open_of st buf) code (left - code) (b :: rest)) as [[[[f o] c] l] r].
    cbn [length]. lia.
  - destruct (Nat.leb_spec left 1); [exact I|].
    pose proof (enc_loop_progress v b rest (fin_of st buf) [] 1 (left - 1) ltac:(lia) ltac:(lia)) as HP.
    destruct (enc_loop v (fin_of st buf) [] 1 (left - 1) (b :: rest)) as [[[[f o] c] l] r].
    cbn [length]. lia.
Qed.

(* ---------- TERMINATION of the mpt_array_push loop ---------- *)
(* with two bytes of room behind the open block the encoders accept *)
Lemma enc_data_room v st buf cap src : src <> [] -> edone st + escr st + 2 <= cap ->
  exists k st' buf', enc_call v st buf cap (Some src) = (EInt k, st', buf').
Proof.
  intros Hne Hr. cbn [enc_call]. unfold enc_regular.
  destruct (Nat.ltb_spec cap (edone st)); [lia|]. destruct (Nat.ltb_spec (cap - edone st) (escr st)); [lia|]. cbn [orb].
  destruct src as [|b rest]; [contradiction|]. cbn [length Nat.eqb].
  destruct (Nat.eqb_spec (escr st) 0) as [Hz|Hz]; cbn [negb].
  - destruct (Nat.leb_spec (cap - edone st) 1); [lia|].
    destruct (enc_loop v (fin_of st buf) [] 1 (cap - edone st - 1) (b :: rest)) as [[[[f o] c] l] r]. eauto.
  - destruct (Nat.eqb_spec (cap - edone st - escr st) 0); [lia|].
    destruct (Nat.ltb_spec (cap - edone st - escr st) 2); [lia|]. cbn [andb].
    destruct (enc_loop v (fin_of st buf) (open_of st buf) (escr st) (cap - edone st - escr st) (b :: rest)) as [[[[f o] c] l] r]. eauto.
Qed.

Lemma enc_term_room v st buf cap : edone st + escr st + 2 <= cap ->
  exists k st' buf', enc_call v st buf cap None = (EInt k, st', buf').
Proof.
  intros Hr. cbn [enc_call].
  destruct (inl v && negb (escr st =? 0)).
  - unfold enc_r_term. destruct (Nat.ltb_spec cap (edone st)); [lia|].
    destruct (Nat.ltb_spec cap (edone st + escr st)); [lia|].
    destruct ((1 <? escr st) && check_inline v (escr st) (last (open_of st buf) 0%N)); [eauto|].
    destruct (Nat.leb_spec (cap - edone st) (escr st)); [lia|eauto].
  - unfold enc_regular. destruct (Nat.ltb_spec cap (edone st)); [lia|].
    destruct (Nat.ltb_spec (cap - edone st) (escr st)); [lia|]. cbn [orb].
    destruct (Nat.leb_spec (cap - edone st) (escr st)); [lia|].
    destruct (escr st =? 0); [|eauto]. destruct (Nat.ltb_spec (cap - edone st) 2); [lia|eauto].
Qed.

Definition roomy (st : estate) (cap : nat) : nat := if edone st + escr st + 2 <=? cap then 0 else 1.

(* every round consumes at least one byte or enlarges the buffer, and an enlarged buffer has
   room: at most two rounds per byte *)
Lemma apush_loop_data_total v pre l : variant_ok v -> 3 <= maxlen v -> forall fuel st buf cap off c0,
  off < length l -> enc_inv v pre (c0 ++ firstn off l) st buf -> edone st + escr st <= cap ->
  2 * (length l - off) + roomy st cap <= fuel ->
  fst (fst (fst (apush_loop fuel (enc_call v) st buf cap (Some l) off))) <> EFault.
Proof.
  intros Hv Hm3. induction fuel as [|fuel IH]; intros st buf cap off c0 Hoff Hinv Hcap Hfuel; [lia|].
  cbn [apush_loop].
  assert (Hne : skipn off l <> []).
  { intros E. apply (f_equal (@length _)) in E. rewrite skipn_length in E. cbn [length] in E. lia. }
  pose proof (enc_data_call v pre (c0 ++ firstn off l) st buf cap (skipn off l) Hv Hinv) as Hd.
  pose proof (enc_data_progress v st buf cap (skipn off l) Hm3 Hne) as Hp.
  pose proof (enc_data_room v st buf cap (skipn off l) Hne) as Hroom.
  destruct (enc_call v st buf cap (Some (skipn off l))) as [[r st'] buf'].
  destruct r as [k|e|]; [| |contradiction].
  - destruct Hd as (Hk & Hinv' & Hcap'). rewrite skipn_length in Hk.
    destruct (Nat.ltb_spec cap (edone st' + escr st')); [cbn; discriminate|].
    destruct (Nat.ltb_spec (length l - off) k); [cbn; discriminate|].
    destruct (Nat.eqb_spec (length l - off - k) 0); [cbn; discriminate|].
    assert (Hcons : (c0 ++ firstn off l) ++ firstn k (skipn off l) = c0 ++ firstn (off + k) l).
    { rewrite <- app_assoc. f_equal. clear. revert l. induction off as [|off IH]; intros l; [reflexivity|].
      destruct l as [|x l]; [cbn; rewrite firstn_nil; reflexivity|]. cbn [firstn skipn app Nat.add]. f_equal. apply IH. }
    rewrite Hcons in Hinv'.
    apply (IH st' buf' cap (off + k) c0); [lia|assumption|assumption|].
    unfold roomy in *. destruct (edone st' + escr st' + 2 <=? cap); lia.
  - destruct Hd as [-> ->].
    destruct (Nat.ltb_spec cap (edone st + escr st)); [cbn; discriminate|].
    destruct e; try (cbn; destruct (off =? 0); discriminate).
    (* MissingBuffer: only without room; the enlarged buffer has room *)
    destruct (abuf_detach_ge cap (cap + 64)) as [Hg1 Hg2].
    assert (Hnr : roomy st cap = 1).
    { unfold roomy. destruct (Nat.leb_spec (edone st + escr st + 2) cap) as [Hr|]; [|reflexivity].
      destruct (Hroom Hr) as (k & s2 & b2 & E). discriminate. }
    apply (IH st buf (abuf_detach cap (cap + 64)) off c0); [assumption|assumption|lia|].
    unfold roomy. destruct (Nat.leb_spec (edone st + escr st + 2) (abuf_detach cap (cap + 64))); lia.
Qed.

Lemma apush_loop_term_total v pre : variant_ok v -> forall fuel st buf cap consumed,
  enc_inv v pre consumed st buf -> edone st + escr st <= cap -> 1 + roomy st cap <= fuel ->
  fst (fst (fst (apush_loop fuel (enc_call v) st buf cap None 0))) <> EFault.
Proof.
  intros Hv. induction fuel as [|fuel IH]; intros st buf cap consumed Hinv Hcap Hfuel; [lia|].
  cbn [apush_loop].
  pose proof (enc_term_call v pre consumed st buf cap Hv Hinv Hcap) as Hd.
  pose proof (enc_term_room v st buf cap) as Hroom.
  destruct (enc_call v st buf cap None) as [[r st'] buf'].
  destruct r as [k|e|]; [| |contradiction].
  - destruct (cap <? edone st' + escr st'); cbn; discriminate.
  - destruct Hd as [-> ->].
    destruct (Nat.ltb_spec cap (edone st + escr st)); [cbn; discriminate|].
    destruct e; try (cbn; discriminate).
    destruct (abuf_detach_ge cap (cap + 64)) as [Hg1 Hg2].
    assert (Hnr : roomy st cap = 1).
    { unfold roomy. destruct (Nat.leb_spec (edone st + escr st + 2) cap) as [Hr|]; [|reflexivity].
      destruct (Hroom Hr) as (k & s2 & b2 & E). discriminate. }
    apply (IH st buf (abuf_detach cap (cap + 64)) consumed); [assumption|lia|].
    unfold roomy. destruct (Nat.leb_spec (edone st + escr st + 2) (abuf_detach cap (cap + 64))); lia.
Qed.

(* mpt_array_push terminates: the loop never runs out of the rounds the model gives it
   (4 * len + 64), for data of any length and for the terminating call *)
Theorem apush_total v pre c0 st buf cap d : variant_ok v -> 3 <= maxlen v ->
  enc_inv v pre c0 st buf -> arr_ok st cap ->
  fst (fst (fst (apush (enc_call v) st buf cap d))) <> EFault.
Proof.
  intros Hv Hm3 Hinv Hok. unfold apush.
  pose proof (enc_inv_len v pre c0 st buf Hinv) as Hlen.
  set (d' := match d with Some [] => None | x => x end).
  set (len := match d' with Some l => length l | None => 0 end).
  set (mx := edone st + escr st) in *.
  destruct ((cap =? 0) && negb (mx =? 0)); [cbn; discriminate|].
  set (cap1 := if cap =? 0 then abuf_size (Nat.max len 64) else abuf_detach cap (mx + Nat.max len 64)).
  destruct (Nat.ltb_spec (length buf) mx); [cbn; discriminate|].
  assert (Hcap1 : mx <= cap1).
  { unfold cap1. destruct (Nat.eqb_spec cap 0).
    - destruct Hok as [Hok|[_ Hok]]; [fold mx in Hok; lia|fold mx in Hok; lia].
    - destruct (abuf_detach_ge cap (mx + Nat.max len 64)). lia. }
  assert (Hr : roomy st cap1 <= 1) by (unfold roomy; destruct (edone st + escr st + 2 <=? cap1); lia).
  destruct d' as [l|] eqn:Ed.
  - assert (Hl : l <> []).
    { unfold d' in Ed. destruct d as [[|x t]|]; inversion Ed; discriminate. }
    apply (apush_loop_data_total v pre l Hv Hm3 (4 * len + 64) st buf cap1 0 c0).
    + destruct l; [contradiction|cbn [length]; lia].
    + cbn [firstn]. rewrite app_nil_r. exact Hinv.
    + exact Hcap1.
    + unfold len. lia.
  - apply (apush_loop_term_total v pre Hv (4 * len + 64) st buf cap1 c0 Hinv Hcap1). lia.
Qed.
