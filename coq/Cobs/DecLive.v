(* Cobs/DecLive.v — LIVENESS of the in-place decoder on complete frames.

   [wfd v inp code pos]: from the resume context (code, pos) the bytes [inp] continue a
   well-formed frame up to (and including) its delimiter; what follows the delimiter is
   irrelevant.  It is the block loop run with an unlimited gap, reduced to its verdict.

   On such input the block loop, with ANY gap, either completes the message, or (COBS/R)
   reports the zero inside the last block, or runs out of gap (MissingBuffer) in a state from
   which the rest of the input still continues the frame: it never asks for more input and
   never reports a decoding error.  With a gap of (bytes up to the delimiter) + 2 it cannot
   run out of gap.  [dec_call_live] lifts this to one decoder call in any state the call
   invariant [cinv] allows (between messages, inside a block, behind the data part with some
   zeros written). *)
From MptV Require Import Base.Mem Base.Tactics Cobs.CobsModel Cobs.DecModel Cobs.EncProofs Cobs.EncTheorems
  Cobs.DecProofs Cobs.DecComplete Cobs.DecCall Cobs.DecHistory.
Local Open Scope nat_scope.

Fixpoint wfd (v : variant) (inp : list byte) (code pos : nat) : bool :=
  match inp with
  | [] => false
  | b :: rest =>
    if bz b then (if pos <? len_data v code then inl v else true)
    else if pos <? len_data v code then wfd v rest code (S pos) else wfd v rest (bn b) 0
  end.

Definition wfd0 (v : variant) (inp : list byte) : bool :=
  match inp with [] => false | c :: rest => negb (bz c) && wfd v rest (bn c) 0 end.

Lemma len_zero_le2 v c b : len_zero v c b <= 2.
Proof. unfold len_zero. destruct (zpe v && (224 <=? c)); [lia|]. destruct ((c <? maxlen v) && negb (bz b)); lia. Qed.

Lemma wfd_zero_phase v inp code pos : len_data v code <= pos -> wfd v inp code pos = wfd v inp code (len_data v code).
Proof.
  intros H. destruct inp as [|b rest]; [reflexivity|]. cbn [wfd].
  destruct (Nat.ltb_spec pos (len_data v code)); [lia|].
  destruct (Nat.ltb_spec (len_data v code) (len_data v code)); [lia|]. reflexivity.
Qed.

Lemma wfd_data v : forall d X code pos, nozero d = true -> pos + length d <= len_data v code ->
  wfd v (d ++ X) code pos = wfd v X code (pos + length d).
Proof.
  induction d as [|b d IH]; intros X code pos Hz Hl.
  - cbn [app length]. rewrite Nat.add_0_r. reflexivity.
  - cbn [app length] in *. rewrite nozero_cons in Hz. apply andb_prop in Hz. destruct Hz as [Hb Hz].
    apply Bool.negb_true_iff in Hb. cbn [wfd]. rewrite Hb.
    destruct (Nat.ltb_spec pos (len_data v code)); [|lia].
    rewrite IH by (assumption || lia). f_equal. lia.
Qed.

(* every frame the reference decoder accepts is well formed in this sense, whatever follows *)
Lemma sdec_body_wfd0 v : forall fuel body m tl, sdec_body fuel v body = Some m -> wfd0 v (body ++ 0%N :: tl) = true.
Proof.
  induction fuel as [|f IH]; intros body m tl Hs; [discriminate|].
  cbn [sdec_body] in Hs. destruct body as [|c rest]; [discriminate|].
  destruct (bz c) eqn:Hc; [discriminate|]. cbn [app wfd0]. rewrite Hc. cbn [negb andb].
  set (n := len_data v (bn c)) in *.
  destruct (Nat.ltb_spec (length rest) n) as [Hlt|Hge].
  - destruct (inl v) eqn:Hi; [|discriminate]. destruct (nozero rest) eqn:Hz; [|discriminate].
    rewrite wfd_data by (assumption || (fold n; lia)). cbn [wfd bz N.eqb Nat.add]. fold n.
    destruct (Nat.ltb_spec (length rest) n); [assumption|lia].
  - destruct (nozero (firstn n rest)) eqn:Hz; [|discriminate]. cbn [negb] in Hs.
    rewrite <- (firstn_skipn n rest), <- app_assoc.
    rewrite wfd_data by (assumption || (rewrite firstn_length; fold n; lia)).
    rewrite firstn_length, Nat.min_l by lia. cbn [Nat.add].
    destruct (skipn n rest) as [|c2 r2] eqn:Er.
    + cbn [app wfd bz N.eqb]. fold n. destruct (Nat.ltb_spec n n); [lia|reflexivity].
    + destruct (sdec_body f v (c2 :: r2)) as [t|] eqn:Et; [|discriminate].
      specialize (IH (c2 :: r2) t tl Et). cbn [app wfd0] in IH.
      apply andb_prop in IH. destruct IH as [Hc2 Hw]. apply Bool.negb_true_iff in Hc2.
      cbn [app wfd]. rewrite Hc2. fold n. destruct (Nat.ltb_spec n n); [lia|exact Hw].
Qed.

Lemma sdec_wfd0 v body m tl : sdec v body = Some m -> wfd0 v (body ++ 0%N :: tl) = true.
Proof. apply sdec_body_wfd0. Qed.

(* ---------- the block loop on the rest of a well-formed frame ---------- *)
Definition live_post (v : variant) (inp : list byte) (cons : nat) (r : lres) : Prop :=
  match lr r with
  | DMsg => exists pre tl, inp = pre ++ 0%N :: tl /\ nozero pre = true /\ lcons r = cons + length pre + 1
  | DErr MissingData =>
      inl v = true /\ lpos r < len_data v (lcode r) /\ 1 <= lcode r /\
      exists pre tl, inp = pre ++ 0%N :: tl /\ nozero pre = true /\ lcons r = cons + length pre
  | DErr MissingBuffer =>
      wfd v (skipn (lcons r - cons) inp) (lcode r) (lpos r) = true /\ len_data v (lcode r) <= lpos r /\
      1 <= lcode r /\ nozero (firstn (lcons r - cons) inp) = true
  | _ => False
  end.

Lemma live_post_cons v b rest cons r : bz b = false -> S cons <= lcons r ->
  live_post v rest (S cons) r -> live_post v (b :: rest) cons r.
Proof.
  intros Hb Hc H. unfold live_post in *. destruct (lr r) as [| |e|]; try assumption.
  - destruct H as (pre & tl & -> & Hz & Hl). exists (b :: pre), tl. split; [reflexivity|].
    split; [rewrite nozero_cons, Hb, Hz; reflexivity|]. cbn [length]. lia.
  - destruct e; try assumption.
    + destruct H as (Hi & Hp & H1 & pre & tl & -> & Hz & Hl). split; [assumption|]. split; [assumption|].
      split; [assumption|]. exists (b :: pre), tl. split; [reflexivity|].
      split; [rewrite nozero_cons, Hb, Hz; reflexivity|]. cbn [length]. lia.
    + destruct H as (Hw & Hp & H1 & Hz). replace (lcons r - cons) with (S (lcons r - S cons)) by lia.
      cbn [skipn firstn]. split; [assumption|]. split; [assumption|]. split; [assumption|].
      rewrite nozero_cons, Hb, Hz. reflexivity.
Qed.

Lemma dec_loop_live v : forall inp code pos proc out cons,
  wfd v inp code pos = true -> (pos < len_data v code -> 1 <= proc) -> 1 <= code ->
  live_post v inp cons (dec_loop v false inp code pos proc out cons).
Proof.
  induction inp as [|b rest IH]; intros code pos proc out cons Hw Hp Hc; [discriminate|].
  cbn [wfd] in Hw. cbn [dec_loop].
  destruct (Nat.ltb_spec pos (len_data v code)) as [Hlt|Hge].
  - destruct (bz b) eqn:Hb.
    + unfold live_post. cbn [lr lpos lcode lcons]. split; [assumption|]. split; [assumption|]. split; [assumption|].
      exists [], rest. apply N.eqb_eq in Hb. subst b. split; [reflexivity|]. split; [reflexivity|]. cbn [length]. lia.
    + specialize (Hp Hlt). destruct (Nat.eqb_spec proc 0); [lia|].
      pose proof (dec_loop_gap v false rest code (S pos) proc (out ++ [b]) (S cons)) as (a & _ & G1 & _).
      apply live_post_cons; [assumption|exact G1|]. apply IH; [assumption|intros; lia|assumption].
  - set (k := len_data v code + len_zero v code b - pos).
    destruct (Nat.ltb_spec proc k) as [Hk|Hk].
    + unfold live_post. cbn [lr lpos lcode lcons]. rewrite Nat.sub_diag. cbn [skipn firstn].
      split; [|split; [lia|split; [assumption|reflexivity]]].
      rewrite wfd_zero_phase by lia. rewrite <- (wfd_zero_phase v (b :: rest) code pos) by lia.
      cbn [wfd]. destruct (Nat.ltb_spec pos (len_data v code)); [lia|]. exact Hw.
    + destruct (bz b) eqn:Hb.
      * unfold live_post. cbn [lr lcons]. apply N.eqb_eq in Hb. subst b.
        exists [], rest. split; [reflexivity|]. split; [reflexivity|]. cbn [length]. lia.
      * pose proof (dec_loop_gap v false rest (bn b) 0 (proc - k + 1) (out ++ zeros k) (S cons)) as (a & _ & G1 & _).
        apply live_post_cons; [assumption|exact G1|].
        apply IH; [assumption|intros; lia|apply bn_pos; assumption].
Qed.

(* with a gap of (bytes up to the delimiter) + 2 the loop cannot run out of gap *)
Lemma dec_loop_enough v : forall pre tl code pos proc out cons,
  nozero pre = true -> length pre + 2 <= proc ->
  lr (dec_loop v false (pre ++ 0%N :: tl) code pos proc out cons) <> DErr MissingBuffer.
Proof.
  induction pre as [|b pre IH]; intros tl code pos proc out cons Hz Hp; cbn [app dec_loop length] in *.
  - cbn [bz N.eqb]. destruct (Nat.ltb_spec pos (len_data v code)); [cbn [lr]; discriminate|].
    pose proof (len_zero_le2 v code 0%N).
    destruct (Nat.ltb_spec proc (len_data v code + len_zero v code 0%N - pos)); [lia|cbn [lr]; discriminate].
  - rewrite nozero_cons in Hz. apply andb_prop in Hz. destruct Hz as [Hb Hz]. apply Bool.negb_true_iff in Hb.
    rewrite Hb. destruct (Nat.ltb_spec pos (len_data v code)) as [Hlt|Hge].
    + destruct (Nat.eqb_spec proc 0); [lia|]. apply IH; [assumption|lia].
    + pose proof (len_zero_le2 v code b).
      destruct (Nat.ltb_spec proc (len_data v code + len_zero v code b - pos)); [lia|].
      apply IH; [assumption|lia].
Qed.

(* no zero in the consumed part: the delimiter is still ahead *)
Lemma nozero_firstn_le (pre tl : list byte) j : nozero (firstn j (pre ++ 0%N :: tl)) = true -> j <= length pre.
Proof.
  intros H. destruct (Nat.leb_spec j (length pre)); [assumption|]. exfalso.
  rewrite firstn_app in H. rewrite firstn_all2 in H by lia.
  rewrite nozero_app in H. apply andb_prop in H. destruct H as [_ H].
  destruct (j - length pre) as [|x] eqn:E; [lia|]. cbn [firstn] in H. rewrite nozero_cons in H. cbn in H. discriminate.
Qed.

Lemma skipn_before_zero (pre tl : list byte) j : j <= length pre ->
  skipn j (pre ++ 0%N :: tl) = skipn j pre ++ 0%N :: tl.
Proof. intros H. rewrite skipn_app. replace (j - length pre) with 0 by lia. reflexivity. Qed.

Lemma nozero_skipn (l : list byte) j : nozero l = true -> nozero (skipn j l) = true.
Proof.
  intros H. rewrite <- (firstn_skipn j l) in H. rewrite nozero_app in H. apply andb_prop in H. apply H.
Qed.

(* running out of gap costs input: every byte of gap is used up by a consumed byte *)
Lemma dec_loop_mb_consumed v : forall inp code pos proc out cons,
  lr (dec_loop v false inp code pos proc out cons) = DErr MissingBuffer ->
  proc <= lcons (dec_loop v false inp code pos proc out cons) - cons + 1.
Proof.
  induction inp as [|b rest IH]; intros code pos proc out cons H; cbn [dec_loop] in *.
  - destruct (pos <? len_data v code); discriminate.
  - destruct (Nat.ltb_spec pos (len_data v code)) as [Hlt|Hge].
    + destruct (bz b); [discriminate|]. destruct (Nat.eqb_spec proc 0); [discriminate|].
      specialize (IH code (S pos) proc (out ++ [b]) (S cons) H).
      pose proof (dec_loop_gap v false rest code (S pos) proc (out ++ [b]) (S cons)) as (a & _ & G1 & _). lia.
    + pose proof (len_zero_le2 v code b) as Hz.
      set (k := len_data v code + len_zero v code b - pos) in *.
      destruct (Nat.ltb_spec proc k) as [Hk|Hk]; [cbn [lcons]; lia|].
      destruct (bz b); [discriminate|].
      specialize (IH (bn b) 0 (proc - k + 1) (out ++ zeros k) (S cons) H).
      pose proof (dec_loop_gap v false rest (bn b) 0 (proc - k + 1) (out ++ zeros k) (S cons)) as (a & _ & G1 & _).
      unfold k in *. lia.
Qed.

(* ---------- one decoder call ---------- *)
Definition gapof (st : dstate) : nat := dcurr st - (dpos st + dlen st).

(* the unread bytes continue (or start) a well-formed frame; inside the data part of a block
   the gap is not empty (it never is: reading a code byte always leaves one byte) *)
Definition slive (v : variant) (st : dstate) (buf : list byte) : Prop :=
  if dcode st =? 0 then wfd0 v (skipn (dcurr st) buf) = true
  else wfd v (skipn (dcurr st) buf) (dcode st) (dpos8 st) = true /\
       (dpos8 st < len_data v (dcode st) -> 1 <= gapof st).

(* a call that resumes inside a message: which block loop it runs *)
Lemma dec_regular_resumed v st buf frags res :
  dpos st + dlen st <= dcurr st -> dcurr st <= length buf -> dcode st <> 0 -> dmsg st = None ->
  dec_regular_res v st buf frags res false =
  (let r := dec_loop v false (skipn (dcurr st) buf) (dcode st) (dpos8 st) (gapof st) [] 0 in
   let mlen' := dlen st + length (lout r) in
   let buf' := splice buf (dpos st + dlen st) (lout r) in
   let curr' := dpos st + mlen' + lproc r in
   match lr r with
   | DMsg => (DMsg, mkd 0 0 curr' (dpos st) mlen' (Some mlen'), buf')
   | other => (other, mkd (lcode r) (lpos r) curr' (dpos st) mlen' None, buf')
   end).
Proof.
  intros G1 G2 Hcode Em. unfold dec_regular_res, gapof. lazy beta iota zeta.
  set (dl := dpos st + dlen st) in *.
  destruct (Nat.ltb_spec (dcurr st) dl); [lia|]. destruct (Nat.ltb_spec (length buf) dl); [lia|]. cbn [orb].
  rewrite Em.
  destruct (Nat.eqb_spec (dcode st) 0); [contradiction|]. rewrite andb_false_r.
  replace (dpos st + dlen st + (dcurr st - dl)) with (dcurr st) by (unfold dl; lia).
  destruct (Nat.ltb_spec (length buf) (dcurr st)); [lia|].
  rewrite firstn_all2 by (rewrite skipn_length; lia).
  destruct (Nat.eqb_spec (dcode st) 0); [contradiction|].
  rewrite Em. cbv zeta.
  destruct (Nat.eqb_spec (dcode st) 0); [contradiction|].
  destruct (lr (dec_loop v false (skipn (dcurr st) buf) (dcode st) (dpos8 st) (dcurr st - dl) [] 0)); reflexivity.
Qed.

(* what one call on live input yields: the message, or MissingBuffer in a live state with the
   delimiter still ahead -- and the latter only when the gap was short *)
Definition live_result (v : variant) (st : dstate) (buf : list byte) (r : dres) (st' : dstate) (buf' : list byte) : Prop :=
  let unread := skipn (dcurr st) buf in
  (r = DMsg /\ exists pre tl, unread = pre ++ 0%N :: tl /\ nozero pre = true /\
     dcurr st' = dcurr st + length pre + 1) \/
  (r = DErr MissingBuffer /\ slive v st' buf' /\
   exists j, dcurr st' = dcurr st + j /\ nozero (firstn j unread) = true /\
     (forall pre tl, unread = pre ++ 0%N :: tl -> nozero pre = true -> gapof st < length pre + 17) /\
     gapof st <= j + 17).

Lemma slive_after_mb v (buf buf' : list byte) curr curr' j code pos done mlen inp :
  curr' = curr + j -> skipn curr' buf' = skipn curr' buf -> skipn curr buf = inp ->
  wfd v (skipn j inp) code pos = true -> len_data v code <= pos -> 1 <= code ->
  slive v (mkd code pos curr' done mlen None) buf'.
Proof.
  intros -> Hsk Hun Hw Hp Hc. unfold slive. cbn [dcode dcurr dpos8].
  destruct (Nat.eqb_spec code 0); [lia|].
  rewrite Hsk. rewrite <- skipn_skipn', Hun. split; [assumption|]. intros; lia.
Qed.

Theorem dec_call_live v F st buf frags res : cinv v F st buf -> slive v st buf ->
  let '(r, st', buf') := dec_call_res v st buf frags res false in live_result v st buf r st' buf'.
Proof.
  intros Hc Hl. pose proof Hc as (G1 & G2 & Hm).
  pose proof (dec_regular_honest v F st buf frags res Hc) as Hreg.
  unfold dec_call_res. unfold slive in Hl.
  destruct (Nat.eqb_spec (dcode st) 0) as [Hcode|Hcode].
  - (* between messages *)
    assert (Hmsg : dmsg st = Some (dlen st) \/ (dmsg st = None /\ dlen st = 0)).
    { destruct (dmsg st) as [c|]; [destruct Hm as (-> & _ & _); left; reflexivity|].
      right. split; [reflexivity|apply Hm]. }
    destruct (skipn (dcurr st) buf) as [|c rest0] eqn:Hun; [discriminate|].
    cbn [wfd0] in Hl. apply andb_prop in Hl. destruct Hl as [Hc0 Hw]. apply Bool.negb_true_iff in Hc0.
    pose proof (bn_pos c Hc0) as Hbn.
    destruct (dec_regular_fresh v st buf frags res c rest0 G1 G2 Hcode Hmsg Hun ltac:(lia)) as (post & Hp15 & Hpp & Heq).
    rewrite Heq in *. unfold call_result in *.
    set (proc := dcurr st - (dpos st + dlen st) - post + 1) in *.
    pose proof (dec_loop_live v rest0 (bn c) 0 proc [] 1 Hw ltac:(intros; unfold proc; lia) Hbn) as Hlive.
    pose proof (dec_loop_gap v false rest0 (bn c) 0 proc [] 1) as (added & Ho & Gc1 & Gc2 & Gc3). cbn [app] in Ho. subst added.
    set (r := dec_loop v false rest0 (bn c) 0 proc [] 1) in *.
    assert (Hlb : length buf = dcurr st + S (length rest0)).
    { apply (f_equal (@length _)) in Hun. rewrite skipn_length in Hun. cbn [length] in Hun. lia. }
    unfold live_post in Hlive. unfold live_result. rewrite Hun.
    destruct (lr r) as [| |e|] eqn:Elr; try contradiction.
    + (* message *)
      assert (Hres : live_result v st buf DMsg
                (mkd 0 0 (dpos st + dlen st + post + (0 + length (lout r)) + lproc r) (dpos st + dlen st + post)
                     (0 + length (lout r)) (Some (0 + length (lout r))))
                (splice buf (dpos st + dlen st + post + 0) (lout r))).
      { left. split; [reflexivity|]. destruct Hlive as (pre & tl & -> & Hz & Hlc).
        exists (c :: pre), tl. rewrite Hun. split; [reflexivity|].
        split; [rewrite nozero_cons, Hc0, Hz; reflexivity|]. cbn [dcurr length]. unfold proc in *. lia. }
      unfold live_result in Hres. rewrite Hun in Hres. destruct (inl v); exact Hres.
    + destruct e; try contradiction.
      * (* zero inside the last block: COBS/R *)
        destruct Hlive as (Hi & Hlp & Hlc1 & pre & tl & -> & Hz & Hlc).
        rewrite Hi. cbn [dcode dpos dlen dcurr].
        destruct (Nat.eqb_spec (lcode r) 0); [lia|].
        rewrite app_length in Hlb. cbn [length] in Hlb.
        rewrite splice_length by (unfold proc in *; lia).
        destruct (Nat.leb_spec (length buf) (dpos st + dlen st + post + (0 + length (lout r)))) as [Hno|_];
          [unfold proc in *; lia|].
        left. split; [reflexivity|]. exists (c :: pre), tl. split; [reflexivity|].
        split; [rewrite nozero_cons, Hc0, Hz; reflexivity|]. cbn [dcurr length]. unfold proc in *. lia.
      * (* out of gap *)
        destruct Hlive as (Hw' & Hlp & Hlc1 & Hz).
        assert (Hres : live_result v st buf (DErr MissingBuffer)
                  (mkd (lcode r) (lpos r) (dpos st + dlen st + post + (0 + length (lout r)) + lproc r)
                       (dpos st + dlen st + post) (0 + length (lout r)) None)
                  (splice buf (dpos st + dlen st + post + 0) (lout r))).
        { right. split; [reflexivity|].
          assert (Hcur : dpos st + dlen st + post + (0 + length (lout r)) + lproc r = dcurr st + lcons r)
            by (unfold proc in *; lia).
          split.
          - apply (slive_after_mb v buf _ (dcurr st) _ (lcons r) _ _ _ _ (c :: rest0)); try assumption.
            + apply splice_skipn; unfold proc in *; lia.
            + replace (lcons r) with (S (lcons r - 1)) by lia. cbn [skipn]. exact Hw'.
          - exists (lcons r). cbn [dcurr]. split; [exact Hcur|]. rewrite Hun. split.
            + replace (lcons r) with (S (lcons r - 1)) by lia. cbn [firstn]. rewrite nozero_cons, Hc0, Hz. reflexivity.
            + split.
              * intros pre tl Epre Hzp. destruct pre as [|c' pre']; [cbn [app] in Epre; inversion Epre; subst c; discriminate|].
                cbn [app] in Epre. inversion Epre; subst c' rest0.
                rewrite nozero_cons in Hzp. apply andb_prop in Hzp. destruct Hzp as [_ Hzp].
                destruct (Nat.ltb_spec (gapof st) (length (c :: pre') + 17)); [assumption|]. exfalso.
                apply (dec_loop_enough v pre' tl (bn c) 0 proc [] 1 Hzp); [|exact Elr].
                unfold gapof, proc in *. cbn [length] in *. lia.
              * pose proof (dec_loop_mb_consumed v rest0 (bn c) 0 proc [] 1 Elr) as Hmc. fold r in Hmc.
                unfold gapof, proc in *. lia. }
        unfold live_result in Hres. rewrite Hun in Hres. destruct (inl v); exact Hres.
  - (* resumed inside a message *)
    destruct (dmsg st) as [c|] eqn:Em; [destruct Hm as (_ & Hz & _); contradiction|].
    destruct (Nat.eqb_spec (dcode st) 0); [contradiction|]. clear Hm.
    destruct Hl as [Hw Hgap].
    rewrite (dec_regular_resumed v st buf frags res G1 G2 Hcode Em) in *. lazy zeta in *.
    set (inp := skipn (dcurr st) buf) in *.
    assert (Hc1 : 1 <= dcode st) by lia.
    pose proof (dec_loop_live v inp (dcode st) (dpos8 st) (gapof st) [] 0 Hw Hgap Hc1) as Hlive.
    pose proof (dec_loop_gap v false inp (dcode st) (dpos8 st) (gapof st) [] 0) as (added & Ho & Gc1 & Gc2 & Gc3).
    cbn [app] in Ho. subst added.
    set (r := dec_loop v false inp (dcode st) (dpos8 st) (gapof st) [] 0) in *.
    assert (Hlb : length buf = dcurr st + length inp) by (unfold inp; rewrite skipn_length; lia).
    unfold live_post in Hlive. unfold live_result. fold inp. rewrite Nat.sub_0_r in *. cbn [Nat.add] in Hlive.
    destruct (lr r) as [| |e|] eqn:Elr; try contradiction.
    + assert (Hres : live_result v st buf DMsg
                (mkd 0 0 (dpos st + (dlen st + length (lout r)) + lproc r) (dpos st)
                     (dlen st + length (lout r)) (Some (dlen st + length (lout r))))
                (splice buf (dpos st + dlen st) (lout r))).
      { left. split; [reflexivity|]. destruct Hlive as (pre & tl & Ei & Hz & Hlc). fold inp.
        exists pre, tl. split; [exact Ei|]. split; [exact Hz|]. cbn [dcurr]. unfold gapof in *. lia. }
      unfold live_result in Hres. fold inp in Hres. destruct (inl v); exact Hres.
    + destruct e; try contradiction.
      * destruct Hlive as (Hi & Hlp & Hlc1 & pre & tl & Ei & Hz & Hlc).
        rewrite Hi. cbn [dcode dpos dlen dcurr].
        destruct (Nat.eqb_spec (lcode r) 0); [lia|].
        rewrite Ei, app_length in Hlb. cbn [length] in Hlb.
        rewrite splice_length by (unfold gapof in *; lia).
        destruct (Nat.leb_spec (length buf) (dpos st + (dlen st + length (lout r)))) as [Hno|_];
          [unfold gapof in *; lia|].
        left. split; [reflexivity|]. exists pre, tl. split; [exact Ei|]. split; [exact Hz|].
        cbn [dcurr]. unfold gapof in *. lia.
      * destruct Hlive as (Hw' & Hlp & Hlc1 & Hz).
        assert (Hres : live_result v st buf (DErr MissingBuffer)
                  (mkd (lcode r) (lpos r) (dpos st + (dlen st + length (lout r)) + lproc r) (dpos st)
                       (dlen st + length (lout r)) None)
                  (splice buf (dpos st + dlen st) (lout r))).
        { right. split; [reflexivity|].
          assert (Hcur : dpos st + (dlen st + length (lout r)) + lproc r = dcurr st + lcons r)
            by (unfold gapof in *; lia).
          split.
          - apply (slive_after_mb v buf _ (dcurr st) _ (lcons r) _ _ _ _ inp); try assumption; try reflexivity.
            apply splice_skipn; unfold gapof in *; lia.
          - exists (lcons r). cbn [dcurr]. split; [exact Hcur|]. fold inp. split; [exact Hz|]. split.
            + intros pre tl Epre Hzp.
              destruct (Nat.ltb_spec (gapof st) (length pre + 17)); [assumption|]. exfalso.
              unfold r in Elr. rewrite Epre in Elr.
              apply (dec_loop_enough v pre tl (dcode st) (dpos8 st) (gapof st) [] 0 Hzp); [lia|exact Elr].
            + pose proof (dec_loop_mb_consumed v inp (dcode st) (dpos8 st) (gapof st) [] 0 Elr) as Hmc. fold r in Hmc. lia. }
        unfold live_result in Hres. fold inp in Hres. destruct (inl v); exact Hres.
Qed.
