(* Cobs/DecCall.v — one decoder call on caller memory: only the already consumed part of the
   input region is written, whatever the bytes and whatever the resume state. *)
From MptV Require Import Base.Mem Base.Tactics Cobs.CobsModel Cobs.DecModel Cobs.EncProofs Cobs.DecProofs.
Local Open Scope nat_scope.

Lemma splice_length buf at_ d : at_ + length d <= length buf -> length (splice buf at_ d) = length buf.
Proof. intros H. unfold splice. rewrite !app_length, firstn_length, skipn_length. lia. Qed.

Lemma splice_firstn buf at_ d n : n <= at_ -> at_ <= length buf -> firstn n (splice buf at_ d) = firstn n buf.
Proof.
  intros H Hl. unfold splice. rewrite firstn_app, firstn_firstn, firstn_length.
  replace (Nat.min n at_) with n by lia. replace (n - Nat.min at_ (length buf)) with 0 by lia.
  cbn [firstn]. apply app_nil_r.
Qed.

Lemma skipn_skipn' {A} (l : list A) a b : skipn a (skipn b l) = skipn (b + a) l.
Proof.
  revert l; induction b as [|b IH]; intros l; [reflexivity|].
  destruct l as [|x l]; [rewrite !skipn_nil; reflexivity|]. cbn [skipn Nat.add]. apply IH.
Qed.

Lemma splice_skipn buf at_ d n : at_ + length d <= n -> at_ + length d <= length buf ->
  skipn n (splice buf at_ d) = skipn n buf.
Proof.
  intros H Hl. unfold splice. rewrite skipn_app, firstn_length.
  replace (Nat.min at_ (length buf)) with at_ by lia.
  rewrite (skipn_all2 (firstn at_ buf)) by (rewrite firstn_length; lia). cbn [app].
  rewrite skipn_app. rewrite (skipn_all2 d) by lia. cbn [app].
  rewrite skipn_skipn'. f_equal. lia.
Qed.

(* what a call may touch: nothing before the decoded data of the state it was given, nothing
   at or after the read position it leaves behind; the region keeps its size *)
Definition touches_only (st : dstate) (buf : list byte) (st' : dstate) (buf' : list byte) : Prop :=
  length buf' = length buf /\
  firstn (dpos st + dlen st) buf' = firstn (dpos st + dlen st) buf /\
  (buf' <> buf -> dcurr st' <= length buf /\ skipn (dcurr st') buf' = skipn (dcurr st') buf).

Lemma touches_same st buf st' : touches_only st buf st' buf.
Proof. unfold touches_only. split; [reflexivity|]. split; [reflexivity|]. intros Hne. contradiction. Qed.

Lemma touches_splice st buf st' W d :
  dpos st + dlen st <= W -> W + length d <= dcurr st' -> dcurr st' <= length buf ->
  touches_only st buf st' (splice buf W d).
Proof.
  intros H1 H2 H3. unfold touches_only. split; [apply splice_length; lia|]. split.
  - apply splice_firstn; lia.
  - intros _. split; [assumption|]. apply splice_skipn; lia.
Qed.

(* after a zero inside a block the decoded bytes end at or before the read position *)
Definition md_bounds (st : dstate) (buf : list byte) (r : dres) (st' : dstate) (buf' : list byte) : Prop :=
  match r with
  | DErr MissingData => dpos st + dlen st <= dpos st' + dlen st' /\ dpos st' + dlen st' <= dcurr st' /\
                        dcurr st' < length buf /\ skipn (dcurr st') buf' = skipn (dcurr st') buf
  | _ => True
  end.

(* states the decoder produces: a held message is exactly the decoded data *)
Definition dwf (st : dstate) : Prop := forall c, dmsg st = Some c -> c = dlen st /\ dcode st = 0.

Theorem dec_regular_touches v st buf frags res peek : dwf st ->
  let '(r, st', buf') := dec_regular_res v st buf frags res peek in
  touches_only st buf st' buf' /\ md_bounds st buf r st' buf'.
Proof.
  intros Hwf. unfold dec_regular_res.
  set (L := if peek then Nat.min (length buf) (hd 0 frags) else length buf).
  assert (HL : L <= length buf) by (unfold L; destruct peek; lia).
  set (dl := dpos st + dlen st).
  destruct ((dcurr st <? dl) || (L <? dl)) eqn:E0; [split; [apply touches_same|exact I]|].
  apply orb_false_elim in E0. destruct E0 as [E1 E2]. apply Nat.ltb_ge in E1, E2.
  (* previous message *)
  assert (Hprev : forall x, (match dmsg st with
         | Some c => if peek then None
                     else Some (dpos st + c, dlen st - c,
                                mkd (dcode st) (dpos8 st) (dcurr st) (dpos st) (dlen st - c) None)
         | None => Some (dpos st, dlen st, st) end) = Some x ->
         let '(done, mlen, st1) := x in dl <= done + mlen /\ dcurr st1 = dcurr st /\ dpos st1 <= done /\
                                        (dl <= dpos st1 + mlen \/ (mlen = 0 /\ dcode st1 = 0))).
  { intros [[done mlen] st1]. destruct (dmsg st) as [c|] eqn:Em.
    - destruct peek; [discriminate|]. intros H. inversion H; subst. cbn [dcurr dpos]. unfold dl.
      destruct (Hwf c Em) as [Hc0 Hcode0]. rewrite Hc0. cbn [dcode].
      split; [lia|]. split; [reflexivity|]. split; [lia|]. right. split; [lia|assumption].
    - intros H. inversion H; subst. unfold dl. repeat split; lia. }
  destruct (match dmsg st with
         | Some c => if peek then None
                     else Some (dpos st + c, dlen st - c,
                                mkd (dcode st) (dpos8 st) (dcurr st) (dpos st) (dlen st - c) None)
         | None => Some (dpos st, dlen st, st) end) as [[[done mlen] st1]|] eqn:Ep; [|split; [apply touches_same|exact I]].
  specialize (Hprev _ eq_refl). cbn beta iota in Hprev. destruct Hprev as (Hw1 & Hc1 & Hd1 & He1).
  (* alignment *)
  set (proc0 := dcurr st - dl) in *.
  assert (Hal : forall x, (if (mlen =? 0) && (dcode st1 =? 0) then
             if peek then None else
             let '(rs, off, rest) := locate (if peek then firstn 1 frags else frags) res dl in
             let post := align_post (rs + off) rest proc0 in
             Some (dl + post, proc0 - post, mkd (dcode st1) (dpos8 st1) (dcurr st1) (dl + post) (dlen st1) (dmsg st1))
           else Some (done, proc0, st1)) = Some x ->
         let '(done2, proc2, st2) := x in dl <= done2 + mlen /\ dl <= dpos st2 + mlen /\ dpos st2 <= done2).
  { intros [[done2 proc2] st2]. destruct (Nat.eqb_spec mlen 0) as [Em0|Em0]; cbn [andb]; [destruct (Nat.eqb_spec (dcode st1) 0)|].
    - destruct peek; [discriminate|].
      destruct (locate frags res dl) as [[rs off] rest]. intros H. inversion H; subst. cbn [dcode dpos]. repeat split; lia.
    - intros H. inversion H; subst. repeat split; lia.
    - intros H. inversion H; subst. repeat split; lia. }
  destruct (if (mlen =? 0) && (dcode st1 =? 0) then
             if peek then None else
             let '(rs, off, rest) := locate (if peek then firstn 1 frags else frags) res dl in
             let post := align_post (rs + off) rest proc0 in
             Some (dl + post, proc0 - post, mkd (dcode st1) (dpos8 st1) (dcurr st1) (dl + post) (dlen st1) (dmsg st1))
           else Some (done, proc0, st1)) as [[[done2 proc2] st2]|] eqn:Ea; [|split; [apply touches_same|exact I]].
  specialize (Hal _ eq_refl). cbn beta iota in Hal. destruct Hal as (Hw2 & Hlo2 & Hd2).
  set (W := done2 + mlen) in *.
  destruct (Nat.ltb_spec L (W + proc2)); [split; [apply touches_same|exact I]|].
  set (inp := firstn (L - (W + proc2)) (skipn (W + proc2) buf)).
  assert (Hinp : length inp <= L - (W + proc2)) by (unfold inp; rewrite firstn_length; lia).
  (* the rest is the same for both ways of entering the loop *)
  assert (Hmain : forall code pos proc3 inp3 c0,
     proc3 + length inp3 <= proc2 + length inp + c0 -> c0 <= 1 ->
     (c0 = 1 -> 1 <= length inp /\ proc3 + length inp3 <= proc2 + length inp) ->
     let r := dec_loop v peek inp3 code pos proc3 [] c0 in
     let mlen' := mlen + length (lout r) in
     let buf' := splice buf W (lout r) in
     let curr' := done2 + mlen' + lproc r in
     let '(res, st', b') := match lr r with
       | DMsg => (DMsg, mkd 0 0 curr' done2 mlen' (Some mlen'), buf')
       | other => (other, mkd (lcode r) (lpos r) curr' (dpos st2) mlen' (dmsg st2), buf')
       end in touches_only st buf st' b' /\ md_bounds st buf res st' b').
  { intros code pos proc3 inp3 c0 Hb Hc0 Hc1'.
    pose proof (dec_loop_gap v peek inp3 code pos proc3 [] c0) as (added & Ho & G1 & G2 & G3).
    pose proof (dec_loop_md v peek inp3 code pos proc3 [] c0) as Gmd.
    cbn zeta. set (r := dec_loop v peek inp3 code pos proc3 [] c0) in *.
    cbn [app] in Ho. rewrite Ho in *.
    assert (Hend : W + length added + lproc r <= length buf).
    { destruct (Nat.eq_dec c0 1) as [->|]; [destruct (Hc1' eq_refl)|]; lia. }
    destruct (lr r) as [| |e|] eqn:Elr; (split; [apply touches_splice; cbn [dcurr]; unfold W in *; lia|]);
      try exact I.
    destruct e; try exact I. unfold md_bounds. cbn [dpos dlen dcurr]. fold dl.
    specialize (Gmd eq_refl).
    split; [unfold W in *; lia|]. split; [unfold W in *; lia|].
    split; [destruct (Nat.eq_dec c0 1) as [->|]; [destruct (Hc1' eq_refl)|]; unfold W in *; lia|].
    apply splice_skipn; unfold W in *; lia. }
  destruct (Nat.eqb_spec (dcode st2) 0).
  - destruct inp as [|c rest] eqn:Ei; [split; [apply touches_same|exact I]|].
    destruct (Nat.eqb_spec (bn c) 0); [split; [apply touches_same|exact I]|].
    apply (Hmain (bn c) 0 (proc2 + 1) rest 1); cbn [length] in *; try lia.
  - destruct (Nat.eqb_spec (dcode st2) 0); [contradiction|].
    apply (Hmain (dcode st2) (dpos8 st2) proc2 inp 0); lia.
Qed.

(* the decoder keeps its state well formed *)
Lemma dec_regular_dwf v st buf frags res peek : dwf st ->
  let '(r, st', buf') := dec_regular_res v st buf frags res peek in dwf st'.
Proof.
  intros Hwf. unfold dec_regular_res.
  destruct ((dcurr st <? dpos st + dlen st) || _); [assumption|].
  assert (Hprev : forall x, (match dmsg st with
         | Some c => if peek then None
                     else Some (dpos st + c, dlen st - c,
                                mkd (dcode st) (dpos8 st) (dcurr st) (dpos st) (dlen st - c) None)
         | None => Some (dpos st, dlen st, st) end) = Some x ->
         let '(done, mlen, st1) := x in dmsg st1 = None).
  { intros [[done mlen] st1]. destruct (dmsg st) as [c|] eqn:Em.
    - destruct peek; [discriminate|]. intros H. inversion H; subst. reflexivity.
    - intros H. inversion H; subst. assumption. }
  destruct (match dmsg st with Some c => _ | None => _ end) as [[[done mlen] st1]|]; [|assumption].
  specialize (Hprev _ eq_refl). cbn beta iota in Hprev.
  assert (Hal : forall x, (if (mlen =? 0) && (dcode st1 =? 0) then
             if peek then None else
             let '(rs, off, rest) := locate (if peek then firstn 1 frags else frags) res (dpos st + dlen st) in
             let post := align_post (rs + off) rest (dcurr st - (dpos st + dlen st)) in
             Some (dpos st + dlen st + post, dcurr st - (dpos st + dlen st) - post,
                   mkd (dcode st1) (dpos8 st1) (dcurr st1) (dpos st + dlen st + post) (dlen st1) (dmsg st1))
           else Some (done, dcurr st - (dpos st + dlen st), st1)) = Some x ->
         let '(done2, proc2, st2) := x in dmsg st2 = None).
  { intros [[done2 proc2] st2]. destruct (mlen =? 0); cbn [andb]; [destruct (dcode st1 =? 0)|].
    - destruct peek; [discriminate|].
      destruct (locate frags res (dpos st + dlen st)) as [[rs off] rest]. intros H. inversion H; subst. assumption.
    - intros H. inversion H; subst. assumption.
    - intros H. inversion H; subst. assumption. }
  destruct (if (mlen =? 0) && (dcode st1 =? 0) then _ else _) as [[[done2 proc2] st2]|]; [|intros c Hc; rewrite Hprev in Hc; discriminate].
  specialize (Hal _ eq_refl). cbn beta iota in Hal.
  assert (Hn : dwf st2) by (intros c Hc; rewrite Hal in Hc; discriminate).
  destruct (_ <? _); [assumption|].
  match goal with |- context [match ?X with None => _ | Some _ => _ end] => destruct X as [[[[[code pos] proc3] inp3] c0]|] end;
    [|assumption].
  destruct (code =? 0).
  - intros c Hc. cbn [dmsg] in Hc. rewrite Hal in Hc. discriminate.
  - destruct (lr _); intros c Hc; cbn [dmsg dlen dcode] in *;
      first [ inversion Hc; split; reflexivity | rewrite Hal in Hc; discriminate ].
Qed.

(* the complete decoder entry (COBS/R wrapper included) *)
Theorem dec_call_touches_res v st buf frags res peek : dwf st ->
  let '(r, st', buf') := dec_call_res v st buf frags res peek in
  touches_only st buf st' buf' /\ dwf st'.
Proof.
  intros Hwf. unfold dec_call_res.
  pose proof (dec_regular_touches v st buf frags res peek Hwf) as Ht.
  pose proof (dec_regular_dwf v st buf frags res peek Hwf) as Hd.
  destruct (dec_regular_res v st buf frags res peek) as [[r st'] buf']. destruct Ht as [Ht Hb].
  destruct (inl v); [|split; assumption].
  destruct r as [| |e|]; try (split; assumption).
  destruct e; try (split; assumption).
  destruct (dcode st' =? 0); [split; assumption|].
  unfold md_bounds in Hb. destruct Hb as (Hlo & Hhi & Hcl & Hsk).
  pose proof Ht as Ht0. destruct Ht as (Hlen & Hfn & _).
  destruct (Nat.leb_spec (if peek then 0 else length buf') (dpos st' + dlen st')); [split; [exact Ht0|exact Hd]|].
  assert (Hat : dpos st' + dlen st' < length buf') by (destruct peek; lia).
  split.
  - unfold touches_only. cbn [dcurr]. split; [rewrite splice_length; cbn [length]; lia|]. split.
    + rewrite splice_firstn by lia. assumption.
    + intros _. split; [lia|].
      rewrite splice_skipn by (cbn [length]; lia).
      (* behind the new read position nothing changed *)
      assert (E : forall l : list byte, skipn (S (dcurr st')) l = skipn 1 (skipn (dcurr st') l)).
      { intros l. rewrite skipn_skipn'. f_equal. lia. }
      rewrite (E buf'), (E buf), Hsk. reflexivity.
  - intros c Hc. cbn [dmsg dlen dcode] in *. inversion Hc. split; reflexivity.
Qed.

Theorem dec_call_touches v st buf frags peek : dwf st ->
  let '(r, st', buf') := dec_call v st buf frags peek in
  touches_only st buf st' buf' /\ dwf st'.
Proof. intros Hwf. apply (dec_call_touches_res v st buf frags [] peek Hwf). Qed.
