(* Cobs/PyProofs.v — frames of the Python client's COBS encoder decode to the message. *)
From MptV Require Import Base.Mem Base.Tactics Cobs.CobsModel Cobs.EncProofs Cobs.PyModel.
Local Open Scope nat_scope.

Lemma v_cobs_ok : variant_ok v_cobs.
Proof. unfold variant_ok; cbn. split; [lia|]. split; [lia|]. discriminate. Qed.

Lemma set_item_mid (a : list byte) p x b : set_item (a ++ p :: b) (length a) x = a ++ x :: b.
Proof.
  unfold set_item. rewrite app_length. cbn [length].
  destruct (Nat.ltb_spec (length a) (length a + S (length b))); [|lia].
  rewrite firstn_app_exact.
  replace (S (length a)) with (length (a ++ [p])) by (rewrite app_length; cbn; lia).
  replace (a ++ p :: b) with ((a ++ [p]) ++ b) by (rewrite <- app_assoc; reflexivity).
  rewrite skipn_app_exact. reflexivity.
Qed.

Lemma py_loop_spec : forall msg bs open code consumed,
  loop_inv v_cobs bs open code consumed ->
  let '(ret', code') := py_loop (flat bs ++ nb 1 :: open) code msg in
  exists bs' open', ret' = flat bs' ++ nb 1 :: open' /\
    loop_inv v_cobs bs' open' code' (consumed ++ msg).
Proof.
  induction msg as [|b rest IH]; intros bs open code consumed Hinv.
  { cbn [py_loop]. exists bs, open. rewrite app_nil_r. auto. }
  destruct Hinv as [Hbs Hop Hcode Hlt Hdec]. cbn [py_loop maxlen v_cobs] in *.
  destruct (bz b) eqn:Hb; cbn [negb].
  - assert (b = 0%N) by (apply N.eqb_eq; exact Hb). subst b.
    destruct (block_ok_zero v_cobs open v_cobs_ok Hop ltac:(cbn; lia)) as [Hok Hz].
    assert (Hret : (if negb (code =? 1) then set_item (flat bs ++ nb 1 :: open) (length (flat bs ++ nb 1 :: open) - code) (nb code)
                    else flat bs ++ nb 1 :: open) = flat (bs ++ [(code, open)])).
    { rewrite flat_snoc. destruct (Nat.eqb_spec code 1) as [E|E]; cbn [negb].
      - rewrite E. reflexivity.
      - replace (length (flat bs ++ nb 1 :: open) - code) with (length (flat bs))
          by (rewrite app_length; cbn [length]; lia).
        apply set_item_mid. }
    rewrite Hret.
    assert (Hinv1 : loop_inv v_cobs (bs ++ [(code, open)]) [] 1 (consumed ++ [0%N])).
    { subst code. constructor; [apply Forall_app; split; [assumption|constructor; [assumption|constructor]]
        | reflexivity | reflexivity | cbn; lia |].
      rewrite dec_closed_snoc, Hz, app_nil_r. cbn [zeros repeat]. rewrite app_assoc, Hdec. reflexivity. }
    specialize (IH (bs ++ [(code, open)]) [] 1 (consumed ++ [0%N]) Hinv1).
    destruct (py_loop (flat (bs ++ [(code, open)]) ++ [nb 1]) 1 rest) as [ret' code'].
    destruct IH as (bs' & open' & Hr & Hi). exists bs', open'. split; [assumption|].
    rewrite <- app_assoc in Hi. exact Hi.
  - destruct (Nat.leb_spec 254 code) as [Hfull|Hnf].
    + assert (Em : S code = maxlen v_cobs) by (cbn; lia).
      subst code.
      destruct (block_ok_full v_cobs open b v_cobs_ok Hop Hb Em) as [Hokf Hzf].
      assert (Hret : set_item ((flat bs ++ nb 1 :: open) ++ [b])
                       (length ((flat bs ++ nb 1 :: open) ++ [b]) - S (length open) - 1)
                       (nb (S (length open) + 1))
                     = flat (bs ++ [(S (S (length open)), open ++ [b])])).
      { rewrite flat_snoc.
        replace (length ((flat bs ++ nb 1 :: open) ++ [b]) - S (length open) - 1) with (length (flat bs))
          by (rewrite !app_length; cbn [length]; lia).
        rewrite <- app_assoc. cbn [app].
        replace (S (length open) + 1) with (S (S (length open))) by lia.
        apply set_item_mid. }
      rewrite Hret.
      assert (Hinv3 : loop_inv v_cobs (bs ++ [(S (S (length open)), open ++ [b])]) [] 1 (consumed ++ [b])).
      { constructor; [apply Forall_app; split; [assumption|constructor; [assumption|constructor]]
          | reflexivity | reflexivity | cbn; lia |].
        rewrite dec_closed_snoc, Hzf, app_nil_r. cbn [zeros repeat]. rewrite app_nil_r, app_assoc, Hdec. reflexivity. }
      specialize (IH _ [] 1 (consumed ++ [b]) Hinv3).
      destruct (py_loop (flat (bs ++ [(S (S (length open)), open ++ [b])]) ++ [nb 1]) 1 rest) as [ret' code'].
      destruct IH as (bs' & open' & Hr & Hi). exists bs', open'. split; [assumption|].
      rewrite <- app_assoc in Hi. exact Hi.
    + assert (Hinv4 : loop_inv v_cobs bs (open ++ [b]) (code + 1) (consumed ++ [b])).
      { constructor; [assumption | rewrite nozero_app, Hop; cbn; rewrite Hb; reflexivity
                     | rewrite app_length; cbn [length]; lia | cbn; lia |].
        rewrite app_assoc, Hdec. reflexivity. }
      specialize (IH bs (open ++ [b]) (code + 1) (consumed ++ [b]) Hinv4).
      replace ((flat bs ++ nb 1 :: open) ++ [b]) with (flat bs ++ nb 1 :: (open ++ [b]))
        by (rewrite <- app_assoc; reflexivity).
      destruct (py_loop (flat bs ++ nb 1 :: (open ++ [b])) (code + 1) rest) as [ret' code'].
      destruct IH as (bs' & open' & Hr & Hi). exists bs', open'. split; [assumption|].
      rewrite <- app_assoc in Hi. exact Hi.
Qed.

Theorem py_roundtrip m :
  exists body, py_encode_cobs m = body ++ [0%N] /\ sdec v_cobs body = Some m /\ nozero body = true.
Proof.
  unfold py_encode_cobs.
  assert (Hi0 : loop_inv v_cobs [] [] 1 []).
  { constructor; [constructor|reflexivity|reflexivity|cbn; lia|reflexivity]. }
  pose proof (py_loop_spec m [] [] 1 [] Hi0) as H. rewrite flat_nil in H. cbn [app] in H.
  destruct (py_loop [nb 1] 1 m) as [ret code].
  destruct H as (bs & open & -> & [Hbs Hop Hcode Hlt Hdec]). cbn [app] in Hdec.
  exists (flat bs ++ nb code :: open).
  replace (length (flat bs ++ nb 1 :: open) - code) with (length (flat bs))
    by (rewrite app_length; cbn [length]; lia).
  rewrite set_item_mid. split; [reflexivity|]. split.
  - rewrite <- Hdec. apply sdec_frame_regular; try assumption; try lia.
    + rewrite len_data_small by (apply v_cobs_ok || lia). lia.
    + apply zeros_last_small; [apply v_cobs_ok|assumption].
  - rewrite nozero_app, (flat_nozero v_cobs bs Hbs). cbn [nozero forallb].
    rewrite bz_nb by lia. cbn [negb andb]. exact Hop.
Qed.

Lemma variants_ok : variant_ok v_cobs /\ variant_ok v_cobs_r /\ variant_ok v_zpe /\ variant_ok v_zpe_r.
Proof. unfold variant_ok; cbn. repeat split; try lia; try discriminate; reflexivity. Qed.
