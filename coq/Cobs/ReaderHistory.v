(* Cobs/ReaderHistory.v — histories of the framed input queue (ring level).

   A reader history is any sequence of
     RWire bytes   the transport appends received bytes to the ring (mpt_qpush; refused when
                   they do not fit)
     RRecv         one mpt_queue_recv: decoder call on the ring's fragments, in-place result
                   stored back, mpt_queue_shift of the consumed prefix; a delivered message is
                   read with mpt_message_get
   run on the ring-level model [dqueue_recv] of QueueCodec.v.  Each step is a step of the
   flat call-level history of DecHistory.v on  contents(ring)  followed by dropping a consumed
   prefix, so the messages delivered are the reference decodings of the frames at the front
   of everything wired in.

   The MissingBuffer recovery of mpt_queue_recv (prefix space by mpt_qpre, chunked move of the
   decoded bytes, second decoding) and the enlargement of the ring by the caller (RGrow =
   mpt_queue_prepare, as mpt_stream_poll does) are covered: MissingBuffer leaves a valid state.
   Only a genuine decoding error (bad code byte, zero inside a block without COBS/R, bad
   arguments) ends the history for the theorem. *)
From MptV Require Import Base.Mem Base.Tactics C13.QueueModel C13.QueueProofs C13.QueueAlign
  Cobs.CobsModel Cobs.DecModel Cobs.EncProofs Cobs.EncTheorems Cobs.DecProofs Cobs.DecCall Cobs.DecHistory
  Cobs.QueueCodec.
Local Open Scope nat_scope.

Inductive rop := RWire (bytes : list byte) | RRecv | RGrow (n : nat) (fill : byte)
  | RShift.   (* mpt_queue_shift alone (mpt_stream_poll calls it before it loads input) *)

(* [rh_in]: ghost — the bytes the ring accepted so far *)
Record rh := mkrh { rh_d : dqueue; rh_msgs : list (list byte); rh_stop : bool; rh_in : list byte }.

(* how the result of mpt_queue_recv continues the history: MissingBuffer leaves a valid state
   (the caller enlarges the ring and calls again), any other error ends the history *)
Definition rh_after (s : rh) (x : res (rres * dqueue)) : rh :=
  match x with
  | Ok (RMsg, d') =>
    mkrh d' (rh_msgs s ++ [match dqueue_message d' with Some m => m | None => [] end]) false (rh_in s)
  | Ok (RMore, d') | Ok (RErr MissingBuffer, d') => mkrh d' (rh_msgs s) false (rh_in s)
  | Ok (_, d') => mkrh d' (rh_msgs s) true (rh_in s)
  | _ => mkrh (rh_d s) (rh_msgs s) true (rh_in s)
  end.

Definition rh_step (v : variant) (s : rh) (o : rop) : rh :=
  if rh_stop s then s else
  match o with
  | RWire bytes =>
    match qpush (dq_q (rh_d s)) bytes with
    | Ok q' => mkrh (mkdq q' (dq_st (rh_d s))) (rh_msgs s) false (rh_in s ++ bytes)
    | Err _ => s
    | Fault => mkrh (rh_d s) (rh_msgs s) true (rh_in s)
    end
  | RGrow n fill =>
    match qprepare (dq_q (rh_d s)) n fill with
    | Ok (q', _) => mkrh (mkdq q' (dq_st (rh_d s))) (rh_msgs s) false (rh_in s)
    | Err _ => s
    | Fault => mkrh (rh_d s) (rh_msgs s) true (rh_in s)
    end
  | RRecv =>
    if qlen (dq_q (rh_d s)) =? 0
    then mkrh (mkdq (dq_q (rh_d s)) (dst_consumed (dq_st (rh_d s)))) (rh_msgs s) false (rh_in s)
    else rh_after s (dqueue_recv v (rh_d s))
  | RShift =>
    match dqueue_shift (rh_d s) with
    | Ok d' => mkrh d' (rh_msgs s) false (rh_in s)
    | _ => mkrh (rh_d s) (rh_msgs s) true (rh_in s)
    end
  end.

Definition rh_run (v : variant) (s : rh) (ops : list rop) : rh := fold_left (rh_step v) ops s.

(* the flat history state a ring reader state stands for *)
Definition flat_of (s : rh) : hs :=
  mkhs (dq_st (rh_d s)) (contents (dq_q (rh_d s))) (rh_msgs s) (rh_stop s).

Definition rh_inv (v : variant) (s : rh) : Prop :=
  hinv v (rh_in s) (flat_of s) /\ (rh_stop s = false -> qinv (dq_q (rh_d s))).

(* ---------- dropping a consumed prefix ---------- *)
Definition st_drop (st : dstate) (c : nat) : dstate :=
  mkd (dcode st) (dpos8 st) (dcurr st - c) (dpos st - c) (dlen st) (dmsg st).

(* what may be dropped: bytes before the decoded data, or everything consumed when nothing is held *)
Definition dropok (st : dstate) (c : nat) : Prop :=
  c <= dcurr st /\ (c <= dpos st \/ (dlen st = 0 /\ dcode st = 0)).

Lemma cinv_drop v F st buf c : cinv v F st buf -> dropok st c -> cinv v F (st_drop st c) (skipn c buf).
Proof.
  intros (G1 & G2 & Hm) [Hc1 Hc]. unfold cinv, st_drop. cbn [dpos dlen dcurr dmsg dcode dpos8].
  split; [lia|]. split; [rewrite skipn_length; lia|].
  destruct (dmsg st); [assumption|]. destruct (Nat.eqb_spec (dcode st) 0); [assumption|].
  destruct Hc as [Hc|[_ Hc]]; [|contradiction].
  rewrite (skipn_skipn' buf (dcurr st - c) c). replace (c + (dcurr st - c)) with (dcurr st) by lia.
  unfold decoded in *. cbn [dlen dpos]. rewrite skipn_skipn'. replace (c + (dpos st - c)) with (dpos st) by lia.
  assumption.
Qed.

Lemma decoded_drop st (buf : list byte) c : dropok st c -> decoded (st_drop st c) (skipn c buf) = decoded st buf.
Proof.
  intros [_ [Hc|[Hl _]]]; unfold decoded, st_drop; cbn [dlen dpos].
  - rewrite skipn_skipn'. replace (c + (dpos st - c)) with (dpos st) by lia. reflexivity.
  - rewrite Hl. reflexivity.
Qed.

Lemma unread_drop st (buf : list byte) c : c <= dcurr st -> skipn (dcurr st - c) (skipn c buf) = skipn (dcurr st) buf.
Proof. intros H. rewrite skipn_skipn'. f_equal. lia. Qed.

(* ---------- the ring operations in flat terms ---------- *)
Lemma ring_store_spec q flat : qinv q -> length flat = qlen q ->
  exists q', ring_store q flat = Ok q' /\ qinv q' /\ contents q' = flat /\
    qlen q' = qlen q /\ qmax q' = qmax q /\ qoff q' = qoff q.
Proof.
  intros Hq Hl. unfold ring_store. destruct flat as [|b0 bt].
  - exists q. unfold qset. cbn [length Nat.eqb]. split; [reflexivity|]. split; [assumption|].
    split; [|auto]. apply length_zero_iff_nil. rewrite contents_length by assumption. cbn in Hl. lia.
  - set (flat := b0 :: bt) in *.
    pose proof (qset_spec q 0 flat Hq ltac:(cbn [flat length]; lia)) as Hs.
    destruct (Nat.leb_spec (0 + length flat) (qlen q)); [|lia].
    destruct Hs as (b & -> & Hqb & Hc). exists (set_buf q b). split; [reflexivity|]. split; [assumption|].
    split; [|auto]. rewrite Hc. unfold upd. cbn [firstn app Nat.add].
    rewrite skipn_all2 by (rewrite contents_length by assumption; lia). apply app_nil_r.
Qed.

Lemma cinv_dwf v F st buf : cinv v F st buf -> dwf st.
Proof.
  intros (_ & _ & Hm) c Hc. rewrite Hc in Hm. destruct Hm as (-> & Hd & _). split; [reflexivity|assumption].
Qed.

Lemma st_drop_0 st : st_drop st 0 = st.
Proof. destruct st as [a b c d e f]. unfold st_drop. cbn [DecModel.dcode DecModel.dpos8 DecModel.dcurr DecModel.dpos DecModel.dlen DecModel.dmsg]. rewrite !Nat.sub_0_r. reflexivity. Qed.

(* mpt_queue_shift *)
Lemma dqueue_shift_spec v F d : qinv (dq_q d) -> cinv v F (dq_st d) (contents (dq_q d)) ->
  exists c d', dqueue_shift d = Ok d' /\ dropok (dq_st d) c /\ dq_st d' = st_drop (dq_st d) c /\
    qinv (dq_q d') /\ contents (dq_q d') = skipn c (contents (dq_q d)).
Proof.
  intros Hq (G1 & G2 & Hm). rewrite contents_length in G2 by assumption.
  set (st := dq_st d) in *. set (q := dq_q d) in *.
  assert (Hnone : exists c d', Ok d = Ok d' /\ dropok st c /\ dq_st d' = st_drop st c /\
                    qinv (dq_q d') /\ contents (dq_q d') = skipn c (contents q)).
  { exists 0, d. split; [reflexivity|]. split; [split; [lia|left; lia]|]. fold st. rewrite st_drop_0.
    split; [reflexivity|]. split; [assumption|reflexivity]. }
  assert (Hcrop : forall c pos', c <= dcurr st -> dropok st c -> pos' = dpos st - c ->
            exists c0 d', match qcrop q 0 c with
                          | Ok q' => Ok (mkdq q' (mkd (dcode st) (dpos8 st) (dcurr st - c) pos' (dlen st) (dmsg st)))
                          | Err _ => Ok d | Fault => Fault end = Ok d' /\ dropok st c0 /\
              dq_st d' = st_drop st c0 /\ qinv (dq_q d') /\ contents (dq_q d') = skipn c0 (contents q)).
  { intros c pos' Hc Hd ->. destruct (qcrop0_ok q c Hq ltac:(lia)) as (o & -> & Ho & Hco).
    exists c. eexists. split; [reflexivity|]. split; [assumption|]. cbn [dq_st dq_q]. split; [reflexivity|].
    pose proof Hq as (Hb & Hl & Hoff).
    split; [unfold qinv; cbn [qbuf qlen qmax qoff]; lia|].
    apply contents_crop0; try assumption; lia. }
  unfold dqueue_shift. fold st q.
  destruct (Nat.eqb_spec (dcurr st) 0); [exact Hnone|].
  destruct (negb (dpos st =? 0) || negb (dlen st =? 0) || negb (dcode st =? 0) || negb (dpos8 st =? 0)) eqn:EA.
  - destruct (Nat.ltb_spec (dpos st) (dcurr st)) as [Hlt|Hge].
    + destruct (Nat.eqb_spec (dpos st) 0) as [Hp0|Hp0]; [exact Hnone|].
      apply Hcrop; [lia|split; [lia|left; lia]|lia].
    + apply Hcrop; [lia|split; [lia|left; lia]|reflexivity].
  - apply Bool.orb_false_elim in EA. destruct EA as [EA E4].
    apply Bool.orb_false_elim in EA. destruct EA as [EA E3].
    apply Bool.orb_false_elim in EA. destruct EA as [E1 E2].
    apply Bool.negb_false_iff, Nat.eqb_eq in E1, E2, E3, E4.
    apply Hcrop; [lia|split; [lia|right; split; assumption]|lia].
Qed.

(* ---------- steps and histories ---------- *)
Lemma hinv_drop v I st buf msgs c : hinv v I (mkhs st buf msgs false) -> dropok st c ->
  hinv v I (mkhs (st_drop st c) (skipn c buf) msgs false).
Proof.
  intros (C & F & Hf & HI & Hc) Hd. cbn [hs_msgs hs_stop hs_st hs_buf] in *.
  exists C, F. cbn [hs_msgs hs_stop hs_st hs_buf]. split; [assumption|].
  split; [|apply cinv_drop; assumption].
  destruct Hd as [Hd _]. cbn [st_drop dcurr]. rewrite unread_drop by assumption. exact HI.
Qed.

(* ---------- the MissingBuffer recovery of mpt_queue_recv ---------- *)
(* the chunked move of [len] bytes from position pos+n down to pos *)
Lemma move_chunks_spec : forall fuel q pos n len, qinv q -> pos + n + len <= qlen q -> 1 <= n ->
  len <= 256 * fuel ->
  exists q', move_chunks fuel q pos n len = Ok q' /\ qinv q' /\ qlen q' = qlen q /\ qmax q' = qmax q /\
    qoff q' = qoff q /\
    contents q' = firstn pos (contents q) ++ slice (pos + n) len (contents q) ++ skipn (pos + len) (contents q).
Proof.
  induction fuel as [|fuel IH]; intros q pos n len Hq Hfit Hn Hfuel.
  - assert (len = 0) by lia. subst len. exists q. cbn [move_chunks]. split; [reflexivity|]. split; [assumption|].
    repeat (split; [reflexivity|]). unfold slice. cbn [firstn app]. rewrite Nat.add_0_r. symmetry. apply firstn_skipn.
  - cbn [move_chunks]. destruct (Nat.eqb_spec len 0) as [->|Hl0].
    { exists q. split; [reflexivity|]. split; [assumption|].
      repeat (split; [reflexivity|]). unfold slice. cbn [firstn app]. rewrite Nat.add_0_r. symmetry. apply firstn_skipn. }
    set (part := Nat.min len 256).
    assert (Hp1 : 1 <= part) by (unfold part; lia). assert (Hp2 : part <= len) by (unfold part; lia).
    pose proof (qget_spec q (pos + n) part Hq ltac:(lia)) as Hg.
    destruct (Nat.leb_spec (pos + n + part) (qlen q)); [|lia]. rewrite Hg. cbn [bind].
    set (bytes := slice (pos + n) part (contents q)).
    assert (Hbl : length bytes = part) by (unfold bytes; apply length_slice; rewrite contents_length by assumption; lia).
    pose proof (qset_spec q pos bytes Hq ltac:(lia)) as Hs. rewrite Hbl in Hs.
    destruct (Nat.leb_spec (pos + part) (qlen q)); [|lia].
    destruct Hs as (b & -> & Hqb & Hcb). cbn [bind].
    destruct (IH (set_buf q b) (pos + part) n (len - part) Hqb ltac:(cbn [set_buf qlen]; lia) Hn ltac:(unfold part in *; lia))
      as (q' & -> & Hq' & Hl' & Hm' & Ho' & Hc').
    exists q'. split; [reflexivity|]. split; [assumption|]. split; [exact Hl'|]. split; [exact Hm'|]. split; [exact Ho'|].
    rewrite Hc', Hcb. pose proof Hq as (Hb0 & Hlm0 & Ho0).
    assert (Hcl : length (contents q) = qlen q) by (apply contents_length; assumption).
    apply (nth_ext' _ _ 0%N).
    + rewrite !app_length, !firstn_length, !skipn_length.
      rewrite !length_slice by (rewrite ?upd_length; rewrite ?Hcl; rewrite ?Hbl; lia).
      rewrite upd_length by (rewrite Hcl, Hbl; lia). lia.
    + intros i Hi. rewrite !app_length, !firstn_length, !skipn_length in Hi.
      rewrite length_slice in Hi by (rewrite upd_length; rewrite ?Hcl; rewrite ?Hbl; lia).
      rewrite upd_length in Hi by (rewrite Hcl, Hbl; lia).
      assert (Hul : length (upd (contents q) pos bytes) = qlen q) by (rewrite upd_length; rewrite ?Hcl; rewrite ?Hbl; lia).
      rewrite !nth_app. rewrite !firstn_length, Hul, Hcl.
      rewrite !length_slice by (rewrite ?Hul; rewrite ?Hcl; lia).
      replace (Nat.min (pos + part) (qlen q)) with (pos + part) by lia.
      replace (Nat.min pos (qlen q)) with pos by lia.
      destruct (Nat.ltb_spec i (pos + part)) as [Ha|Ha].
      * rewrite nth_firstn' by assumption. rewrite nth_upd by (rewrite Hcl, Hbl; lia). rewrite Hbl.
        destruct (Nat.ltb_spec i pos) as [Hb|Hb].
        -- destruct (Nat.leb_spec pos i); [lia|]. cbn [andb]. rewrite nth_firstn' by assumption. reflexivity.
        -- destruct (Nat.leb_spec pos i); [|lia]. destruct (Nat.ltb_spec i (pos + part)); [|lia]. cbn [andb].
           destruct (Nat.ltb_spec (i - pos) len); [|lia].
           unfold bytes. rewrite !nth_slice by lia. reflexivity.
      * destruct (Nat.ltb_spec i pos); [lia|].
        destruct (Nat.ltb_spec (i - (pos + part)) (len - part)) as [Hc|Hc].
        -- destruct (Nat.ltb_spec (i - pos) len); [|lia].
           rewrite !nth_slice by lia. rewrite nth_upd by (rewrite Hcl, Hbl; lia). rewrite Hbl.
           destruct (Nat.leb_spec pos (pos + part + n + (i - (pos + part)))); [|lia].
           destruct (Nat.ltb_spec (pos + part + n + (i - (pos + part))) (pos + part)); [lia|]. rewrite andb_false_r.
           f_equal. lia.
        -- destruct (Nat.ltb_spec (i - pos) len); [lia|].
           rewrite !nth_skipn'. rewrite nth_upd by (rewrite Hcl, Hbl; lia). rewrite Hbl.
           destruct (Nat.ltb_spec (pos + part + (len - part) + (i - (pos + part) - (len - part))) (pos + part)); [lia|].
           rewrite andb_false_r. f_equal. lia.
Qed.

Lemma decode_ring_spec v F d : qinv (dq_q d) -> cinv v F (dq_st d) (contents (dq_q d)) ->
  let '(r, st1, flat1) := dec_call_res v (dq_st d) (contents (dq_q d)) (ring_frags (dq_q d)) [qoff (dq_q d) mod 16] false in
  exists q1, decode_ring v d = Ok (r, mkdq q1 st1) /\ qinv q1 /\ contents q1 = flat1 /\
    qlen q1 = qlen (dq_q d) /\ qmax q1 = qmax (dq_q d) /\ qoff q1 = qoff (dq_q d).
Proof.
  intros Hq Hc.
  pose proof (dec_call_touches_res v (dq_st d) (contents (dq_q d)) (ring_frags (dq_q d)) [qoff (dq_q d) mod 16] false
                (cinv_dwf v F _ _ Hc)) as Ht.
  unfold decode_ring.
  destruct (dec_call_res v (dq_st d) (contents (dq_q d)) (ring_frags (dq_q d)) [qoff (dq_q d) mod 16] false)
    as [[r st1] flat1].
  destruct Ht as [(Hlen & _ & _) _]. rewrite contents_length in Hlen by assumption.
  destruct (ring_store_spec (dq_q d) flat1 Hq Hlen) as (q1 & Hst & Hq1 & Hc1 & Hl1 & Hm1 & Ho1).
  exists q1. rewrite Hst. cbn [bind]. split; [reflexivity|]. split; [assumption|]. split; [assumption|].
  split; [assumption|]. split; assumption.
Qed.

Lemma recv_deliver_spec v F q1 st1 : qinv q1 -> cinv v F st1 (contents q1) ->
  exists c d', recv_deliver (mkdq q1 st1) = Ok (match dmsg st1 with Some _ => RMsg | None => RMore end, d') /\
    dropok st1 c /\ dq_st d' = st_drop st1 c /\ qinv (dq_q d') /\ contents (dq_q d') = skipn c (contents q1).
Proof.
  intros Hq Hc.
  destruct (dqueue_shift_spec v F (mkdq q1 st1) Hq Hc) as (c & d' & Hs & Hd & Hst' & Hq' & Hcc). cbn [dq_q dq_st] in *.
  exists c, d'. unfold recv_deliver. rewrite Hs. cbn [bind]. rewrite Hst'. cbn [st_drop dmsg].
  split; [reflexivity|]. split; [assumption|]. split; [reflexivity|]. split; assumption.
Qed.

Lemma div_fuel n : n <= 256 * S (n / 256 + 1).
Proof. pose proof (Nat.div_mod n 256 ltac:(lia)). pose proof (Nat.mod_upper_bound n 256 ltac:(lia)). lia. Qed.

(* the recovery path up to the second decoding = making room in the flat view *)
Lemma recv_recover_spec v F q1 st1 : qinv q1 -> cinv v F st1 (contents q1) ->
  (qmax q1 <= qlen q1 /\ recv_recover v (mkdq q1 st1) (qlen q1) = Ok (RErr MissingBuffer, mkdq q1 st1)) \/
  exists q3 pre gap, qinv q3 /\ contents q3 = buf_rebuf st1 (contents q1) pre gap /\
    length gap = dcurr st1 - (dpos st1 + dlen st1) + (qmax q1 - qlen q1) /\
    recv_recover v (mkdq q1 st1) (qlen q1) =
      (do '(r2, d2) <- decode_ring v (mkdq q3 (st_rebuf st1 (length pre) (length gap)));
       match r2 with
       | DMsg | DMore => recv_deliver d2
       | DErr e => Ok (RErr e, d2)
       | DFault => Ok (RFault, d2)
       end).
Proof.
  intros Hq Hc. pose proof Hc as (G1 & G2 & _). rewrite contents_length in G2 by assumption.
  pose proof Hq as (Hb & Hlm & Ho).
  unfold recv_recover. cbn [dq_q dq_st].
  destruct (Nat.leb_spec (qmax q1) (qlen q1)); [left; split; [assumption|reflexivity]|].
  set (n := qmax q1 - qlen q1).
  pose proof (qpre_spec q1 n Hq) as Hp.
  destruct (Nat.leb_spec n (qmax q1 - qlen q1)); [|unfold n in *; lia].
  destruct (Nat.eqb_spec (qmax q1 - qlen q1) 0); [lia|]. cbn [andb negb] in Hp.
  destruct Hp as (o & -> & Hom & Hidx).
  set (q2 := mkq (qbuf q1) (qlen q1 + n) (qmax q1) o) in *.
  assert (Hq2 : qinv q2) by (unfold qinv, q2; cbn [qbuf qlen qmax qoff]; unfold n; lia).
  assert (Hc2 : skipn n (contents q2) = contents q1).
  { apply (nth_ext' _ _ 0%N).
    - rewrite skipn_length, !contents_length by assumption. cbn [q2 qlen]. lia.
    - intros i Hi. rewrite skipn_length, contents_length in Hi by assumption. cbn [q2 qlen] in Hi.
      rewrite nth_skipn'. rewrite !contents_nth by (assumption || cbn [q2 qlen]; lia).
      rewrite (Hidx i ltac:(lia)). reflexivity. }
  destruct (move_chunks_spec (S (dlen st1 / 256 + 1)) q2 (dpos st1) n (dlen st1) Hq2
              ltac:(cbn [q2 qlen]; lia) ltac:(unfold n; lia) (div_fuel (dlen st1)))
    as (q3 & -> & Hq3 & Hl3 & Hm3 & Ho3 & Hc3).
  cbn [bind]. right.
  set (c2 := contents q2) in *.
  assert (Hl2 : length c2 = qlen q1 + n) by (unfold c2; rewrite contents_length by assumption; reflexivity).
  set (pre := firstn (dpos st1) c2).
  set (gap := slice (dpos st1 + dlen st1) (dcurr st1 + n - (dpos st1 + dlen st1)) c2).
  assert (Hpl : length pre = dpos st1) by (unfold pre; rewrite firstn_length; lia).
  assert (Hgl : length gap = dcurr st1 + n - (dpos st1 + dlen st1)) by (unfold gap; apply length_slice; lia).
  exists q3, pre, gap. split; [assumption|]. split; [|split; [rewrite Hgl; unfold n; lia|]].
  - rewrite Hc3. unfold buf_rebuf. f_equal. f_equal.
    + (* the moved bytes are the decoded bytes *)
      unfold decoded, slice. rewrite <- Hc2. rewrite skipn_skipn'. f_equal. f_equal. lia.
    + (* the rest: the new gap and the unread input *)
      rewrite <- (firstn_skipn (dcurr st1 + n - (dpos st1 + dlen st1)) (skipn (dpos st1 + dlen st1) c2)).
      f_equal. rewrite skipn_skipn'. rewrite <- Hc2, skipn_skipn'. f_equal. lia.
  - unfold st_rebuf. rewrite Hpl, Hgl.
    replace (dpos st1 + dlen st1 + (dcurr st1 + n - (dpos st1 + dlen st1))) with (dcurr st1 + n) by lia.
    reflexivity.
Qed.

(* one decoding on the ring followed by the result handling shared by both decoding attempts *)
Lemma finish_recv v s st0 q0 : rh_stop s = false -> qinv q0 ->
  hinv v (rh_in s) (mkhs st0 (contents q0) (rh_msgs s) false) ->
  let '(r, st1, flat1) := dec_call_res v st0 (contents q0) (ring_frags q0) [qoff q0 mod 16] false in
  forall q1, qinv q1 -> contents q1 = flat1 ->
  rh_inv v (rh_after s (match r with
                        | DMsg | DMore => recv_deliver (mkdq q1 st1)
                        | DErr e => Ok (RErr e, mkdq q1 st1)
                        | DFault => Ok (RFault, mkdq q1 st1)
                        end)).
Proof.
  intros Est Hq0 Hh.
  pose proof (hstep_inv v (rh_in s) _ (HCall (ring_frags q0) [qoff q0 mod 16]) Hh) as Hstep.
  destruct Hh as (C & F & Hf & HI & Hc). cbn [hs_msgs hs_stop hs_st hs_buf] in *.
  pose proof (dec_call_honest v F st0 (contents q0) (ring_frags q0) [qoff q0 mod 16] Hc) as Hpost.
  unfold hstep in Hstep. cbn [hs_stop hs_st hs_buf hs_msgs fed] in Hstep. rewrite app_nil_r in Hstep.
  destruct (dec_call_res v st0 (contents q0) (ring_frags q0) [qoff q0 mod 16] false) as [[r st1] flat1].
  intros q1 Hq1 Hc1.
  assert (Hstopped : forall d', rh_inv v (mkrh d' (rh_msgs s) true (rh_in s))).
  { intros d'. split; [|discriminate]. exists C, F. unfold flat_of. cbn [hs_msgs hs_stop rh_msgs rh_stop rh_in].
    split; [assumption|]. eexists. exact HI. }
  destruct r as [| |e|].
  - (* message *)
    destruct Hpost as (k & body & _ & _ & _ & _ & _ & _ & Hc' & Hm1).
    destruct (recv_deliver_spec v [] q1 st1 Hq1 ltac:(rewrite Hc1; exact Hc')) as (c & d' & -> & Hd & Hst' & Hq' & Hcc).
    rewrite Hm1. cbn [rh_after]. split; [|intros _; exact Hq'].
    pose proof (hinv_drop v (rh_in s) st1 flat1 _ c Hstep Hd) as H.
    unfold flat_of. cbn [rh_d rh_msgs rh_stop rh_in]. rewrite Hst', Hcc, Hc1.
    replace (match dqueue_message d' with Some m => m | None => [] end) with (decoded st1 flat1); [exact H|].
    unfold dqueue_message. rewrite Hst'. cbn [st_drop dmsg dpos]. rewrite Hm1, Hcc, Hc1.
    pose proof (decoded_drop st1 flat1 c Hd) as E. unfold decoded, st_drop in E. cbn [dlen dpos] in E.
    unfold slice. symmetry. exact E.
  - (* more *)
    destruct Hpost as (k & _ & _ & _ & _ & Hc' & Hm1).
    destruct (recv_deliver_spec v _ q1 st1 Hq1 ltac:(rewrite Hc1; exact Hc')) as (c & d' & -> & Hd & Hst' & Hq' & Hcc).
    rewrite Hm1. cbn [rh_after]. split; [|intros _; exact Hq'].
    pose proof (hinv_drop v (rh_in s) st1 flat1 _ c Hstep Hd) as H.
    unfold flat_of. cbn [rh_d rh_msgs rh_stop rh_in]. rewrite Hst', Hcc, Hc1. exact H.
  - destruct e; cbn [rh_after]; try apply Hstopped.
    (* out of gap: the state stays valid *)
    split; [|intros _; exact Hq1]. unfold flat_of. cbn [rh_d rh_msgs rh_stop rh_in dq_q dq_st]. rewrite Hc1. exact Hstep.
  - cbn [rh_after]. apply Hstopped.
Qed.

Theorem rh_step_inv v s o : rh_inv v s -> rh_inv v (rh_step v s o).
Proof.
  intros [Hh Hq]. unfold rh_step. destruct (rh_stop s) eqn:Est; [split; [assumption|rewrite Est; discriminate]|].
  specialize (Hq eq_refl). destruct o as [bytes| |n fill|].
  4:{ (* shift alone *)
    unfold flat_of in Hh. rewrite Est in Hh. pose proof Hh as (C & F & Hf & HI & Hc).
    cbn [hs_msgs hs_stop hs_st hs_buf] in Hc.
    destruct (dqueue_shift_spec v F (rh_d s) Hq Hc) as (c & d' & -> & Hd & Hst' & Hq' & Hcc).
    split; [|intros _; exact Hq'].
    pose proof (hinv_drop v (rh_in s) _ _ _ c Hh Hd) as H.
    unfold flat_of. cbn [rh_d rh_msgs rh_stop rh_in]. rewrite Hst', Hcc. exact H. }
  - (* wire *)
    pose proof (qpush_spec (dq_q (rh_d s)) bytes Hq) as Hp.
    destruct ((length bytes <=? qmax (dq_q (rh_d s)) - qlen (dq_q (rh_d s))) &&
              negb (qmax (dq_q (rh_d s)) - qlen (dq_q (rh_d s)) =? 0)).
    + destruct Hp as (q' & -> & Hq' & _ & Hc'). split; [|intros _; exact Hq'].
      pose proof (hstep_inv v (rh_in s) (flat_of s) (HFeed bytes) Hh) as H.
      unfold hstep, flat_of in H. cbn [hs_stop hs_st hs_buf hs_msgs fed] in H. rewrite Est in H.
      unfold flat_of. cbn [rh_d rh_msgs rh_stop rh_in dq_q dq_st]. rewrite Hc'. exact H.
    + destruct Hp as (e & ->). split; [assumption|intros _; assumption].
  - (* receive *)
    destruct (Nat.eqb_spec (qlen (dq_q (rh_d s))) 0) as [Hz|Hne].
    { (* empty queue: a held message is marked consumed *)
      split; [|intros _; exact Hq].
      destruct Hh as (C & F & Hf & Hs). unfold flat_of in *. cbn [hs_msgs hs_stop hs_st hs_buf rh_d rh_msgs rh_stop rh_in dq_q dq_st] in *.
      rewrite Est in Hs. destruct Hs as [HI (G1 & G2 & Hm)].
      exists C, F. cbn [hs_msgs hs_stop hs_st hs_buf]. split; [assumption|].
      rewrite contents_length in G2 by assumption.
      unfold dst_consumed. destruct (dmsg (dq_st (rh_d s))) as [c|] eqn:Em.
      - destruct Hm as (Hc & Hcode & HF). cbn [dcurr]. split; [exact HI|].
        unfold cinv. cbn [dpos dlen dcurr dmsg dcode]. split; [assumption|]. split; [rewrite contents_length by assumption; lia|].
        rewrite Hcode. cbn [Nat.eqb]. split; [lia|assumption].
      - split; [exact HI|]. unfold cinv. rewrite Em. split; [assumption|]. split; [rewrite contents_length by assumption; lia|assumption]. }
    unfold flat_of in Hh. rewrite Est in Hh.
    set (q := dq_q (rh_d s)) in *. set (st := dq_st (rh_d s)) in *.
    pose proof (finish_recv v s st q Est Hq Hh) as Hfin.
    pose proof (hstep_inv v (rh_in s) _ (HCall (ring_frags q) [qoff q mod 16]) Hh) as Hstep.
    pose proof Hh as (C & F & Hf & HI & Hc). cbn [hs_msgs hs_stop hs_st hs_buf] in HI, Hc.
    pose proof (decode_ring_spec v F (rh_d s) Hq Hc) as Hdr. fold q st in Hdr.
    unfold hstep in Hstep. cbn [hs_stop hs_st hs_buf hs_msgs fed] in Hstep. rewrite app_nil_r in Hstep.
    unfold dqueue_recv. fold q st. destruct (Nat.eqb_spec (qlen q) 0); [contradiction|].
    destruct (dec_call_res v st (contents q) (ring_frags q) [qoff q mod 16] false) as [[r st1] flat1].
    destruct Hdr as (q1 & -> & Hq1 & Hc1 & Hl1 & Hm1 & Ho1). cbn [bind].
    specialize (Hfin q1 Hq1 Hc1).
    destruct r as [| |e|]; try exact Hfin.
    destruct e; try exact Hfin.
    (* MissingBuffer: recovery *)
    destruct Hstep as (C1 & F1 & Hf1 & HI1 & Hc1'). cbn [hs_msgs hs_stop hs_st hs_buf] in *.
    rewrite <- Hl1.
    destruct (recv_recover_spec v F1 q1 st1 Hq1 ltac:(rewrite Hc1; exact Hc1')) as [[_ ->]|(q3 & pre & gap & Hq3 & Hc3 & _ & ->)];
      [exact Hfin|].
    assert (Hh3 : hinv v (rh_in s) (mkhs (st_rebuf st1 (length pre) (length gap)) (contents q3) (rh_msgs s) false)).
    { pose proof (hstep_inv v (rh_in s) (mkhs st1 flat1 (rh_msgs s) false) (HRebuf pre gap)
                    ltac:(exists C1, F1; cbn [hs_msgs hs_stop hs_st hs_buf]; split; [assumption|]; split; assumption)) as H.
      unfold hstep in H. cbn [hs_stop hs_st hs_buf hs_msgs fed] in H. rewrite app_nil_r in H.
      rewrite Hc3, Hc1. exact H. }
    pose proof (finish_recv v s _ q3 Est Hq3 Hh3) as Hfin3.
    pose proof Hh3 as (C3 & F3 & _ & _ & Hcc3). cbn [hs_msgs hs_stop hs_st hs_buf] in Hcc3.
    pose proof (decode_ring_spec v F3 (mkdq q3 (st_rebuf st1 (length pre) (length gap))) Hq3 Hcc3) as Hdr3.
    cbn [dq_q dq_st] in Hdr3.
    destruct (dec_call_res v (st_rebuf st1 (length pre) (length gap)) (contents q3) (ring_frags q3) [qoff q3 mod 16] false)
      as [[r2 st2] flat2].
    destruct Hdr3 as (q4 & -> & Hq4 & Hc4 & _). cbn [bind].
    exact (Hfin3 q4 Hq4 Hc4).
  - (* the ring is enlarged *)
    destruct (qprepare_spec (dq_q (rh_d s)) n fill Hq) as (q' & r & -> & Hq' & _ & Hc').
    split; [|intros _; exact Hq']. unfold flat_of in *. cbn [rh_d rh_msgs rh_stop rh_in dq_q dq_st].
    rewrite Hc', <- Est. exact Hh.
Qed.

Theorem rh_run_inv v : forall ops s, rh_inv v s -> rh_inv v (rh_run v s ops).
Proof.
  induction ops as [|o ops IH]; intros s Hi; cbn [rh_run fold_left]; [exact Hi|].
  apply IH. apply rh_step_inv. exact Hi.
Qed.

(* an empty ring of any capacity and offset, decoder in its initial state *)
Definition rh_init (buf : mem) (off : nat) : rh :=
  mkrh (mkdq (mkq buf 0 (length buf) off) (dinit 0)) [] false [].

Lemma rh_init_inv v buf off : off <= length buf -> rh_inv v (rh_init buf off).
Proof.
  intros Ho. assert (Hq : qinv (mkq buf 0 (length buf) off)) by (unfold qinv; cbn [qbuf qlen qmax qoff]; lia).
  split; [|intros _; exact Hq].
  assert (Hc : contents (mkq buf 0 (length buf) off) = []).
  { apply length_zero_iff_nil. rewrite contents_length by assumption. reflexivity. }
  exists [], []. unfold flat_of, rh_init. cbn [rh_d rh_msgs rh_stop rh_in dq_q dq_st hs_msgs hs_stop hs_st hs_buf].
  split; [constructor|]. rewrite Hc. split; [reflexivity|]. apply cinv_init. cbn. lia.
Qed.

(* MAIN (ends only at a genuine decoding error): whatever is wired in,
   in whatever pieces, and whenever receives happen, the messages a framed input ring delivers
   are, in order, the reference decodings of the frames at the front of the accepted bytes *)
Theorem reader_history_delivers v buf off ops : off <= length buf ->
  let s := rh_run v (rh_init buf off) ops in
  exists C rest, rh_in s = C ++ rest /\ frames_of v (rh_msgs s) C.
Proof.
  intros Ho s. destruct (rh_run_inv v ops _ (rh_init_inv v buf off Ho)) as [(C & F & Hf & Hs) _]. fold s in Hf, Hs.
  unfold flat_of in Hf, Hs. cbn [hs_msgs hs_stop hs_st hs_buf] in Hf, Hs.
  exists C. destruct (rh_stop s).
  - destruct Hs as (rest & HI). exists rest. split; assumption.
  - destruct Hs as [HI _]. eexists. split; [exact HI|assumption].
Qed.

