(* Cobs/ReaderHistory.v — histories of the framed input queue (ring level).

   A reader history is any sequence of
     RWire bytes   the transport appends received bytes to the ring (mpt_qpush; refused when
                   they do not fit)
     RRecv         one mpt_queue_recv: decoder call on the ring's fragments, in-place result
                   stored back, mpt_queue_shift of the consumed prefix; a delivered message is
                   read with mpt_message_get
   run on the ring-level model [dqueue_recv] of QueueCodec.v.  Each step is a step of the
   flat call-level history of DecHistory.v on  contents(ring)  followed by dropping a consumed
   prefix, so the messages delivered are the reference decodings of the frames at the front
   of everything wired in.

   PARTIAL: a receive that meets MissingBuffer (scratch space exhausted: the recovery path of
   mpt_queue_recv with mpt_qpre and the chunked move) or any other error ends the history for
   the theorem; that path is modelled and compared with the implementation, not proved. *)
From MptV Require Import Base.Mem Base.Tactics C13.QueueModel C13.QueueProofs
  Cobs.CobsModel Cobs.DecModel Cobs.EncProofs Cobs.EncTheorems Cobs.DecProofs Cobs.DecCall Cobs.DecHistory
  Cobs.QueueCodec.
Local Open Scope nat_scope.

Inductive rop := RWire (bytes : list byte) | RRecv.

(* [rh_in]: ghost — the bytes the ring accepted so far *)
Record rh := mkrh { rh_d : dqueue; rh_msgs : list (list byte); rh_stop : bool; rh_in : list byte }.

Definition rh_step (v : variant) (s : rh) (o : rop) : rh :=
  if rh_stop s then s else
  match o with
  | RWire bytes =>
    match qpush (dq_q (rh_d s)) bytes with
    | Ok q' => mkrh (mkdq q' (dq_st (rh_d s))) (rh_msgs s) false (rh_in s ++ bytes)
    | Err _ => s
    | Fault => mkrh (rh_d s) (rh_msgs s) true (rh_in s)
    end
  | RRecv =>
    if qlen (dq_q (rh_d s)) =? 0 then s else
    let q := dq_q (rh_d s) in
    let '(r, _, _) := dec_call_res v (dq_st (rh_d s)) (contents q) (ring_frags q) [qoff q mod 16] false in
    (* the history ends for the theorem when the decoder itself reports an error (MissingBuffer included) *)
    if (match r with DMsg | DMore => false | _ => true end) then mkrh (rh_d s) (rh_msgs s) true (rh_in s) else
    match dqueue_recv v (rh_d s) with
    | Ok (RMsg, d') =>
      mkrh d' (rh_msgs s ++ [match dqueue_message d' with Some m => m | None => [] end]) false (rh_in s)
    | Ok (RMore, d') => mkrh d' (rh_msgs s) false (rh_in s)
    | Ok (_, d') => mkrh d' (rh_msgs s) true (rh_in s)
    | _ => mkrh (rh_d s) (rh_msgs s) true (rh_in s)
    end
  end.

Definition rh_run (v : variant) (s : rh) (ops : list rop) : rh := fold_left (rh_step v) ops s.

(* the flat history state a ring reader state stands for *)
Definition flat_of (s : rh) : hs :=
  mkhs (dq_st (rh_d s)) (contents (dq_q (rh_d s))) (rh_msgs s) (rh_stop s).

Definition rh_inv (v : variant) (s : rh) : Prop :=
  hinv v (rh_in s) (flat_of s) /\ (rh_stop s = false -> qinv (dq_q (rh_d s))).

(* ---------- dropping a consumed prefix ---------- *)
Definition st_drop (st : dstate) (c : nat) : dstate :=
  mkd (dcode st) (dpos8 st) (dcurr st - c) (dpos st - c) (dlen st) (dmsg st).

(* what may be dropped: bytes before the decoded data, or everything consumed when nothing is held *)
Definition dropok (st : dstate) (c : nat) : Prop :=
  c <= dcurr st /\ (c <= dpos st \/ (dlen st = 0 /\ dcode st = 0)).

Lemma cinv_drop v F st buf c : cinv v F st buf -> dropok st c -> cinv v F (st_drop st c) (skipn c buf).
Proof.
  intros (G1 & G2 & Hm) [Hc1 Hc]. unfold cinv, st_drop. cbn [dpos dlen dcurr dmsg dcode dpos8].
  split; [lia|]. split; [rewrite skipn_length; lia|].
  destruct (dmsg st); [assumption|]. destruct (Nat.eqb_spec (dcode st) 0); [assumption|].
  destruct Hc as [Hc|[_ Hc]]; [|contradiction].
  unfold decoded in *. cbn [dlen dpos]. rewrite skipn_skipn'. replace (c + (dpos st - c)) with (dpos st) by lia.
  assumption.
Qed.

Lemma decoded_drop st (buf : list byte) c : dropok st c -> decoded (st_drop st c) (skipn c buf) = decoded st buf.
Proof.
  intros [_ [Hc|[Hl _]]]; unfold decoded, st_drop; cbn [dlen dpos].
  - rewrite skipn_skipn'. replace (c + (dpos st - c)) with (dpos st) by lia. reflexivity.
  - rewrite Hl. reflexivity.
Qed.

Lemma unread_drop st (buf : list byte) c : c <= dcurr st -> skipn (dcurr st - c) (skipn c buf) = skipn (dcurr st) buf.
Proof. intros H. rewrite skipn_skipn'. f_equal. lia. Qed.

(* ---------- the ring operations in flat terms ---------- *)
Lemma ring_store_spec q flat : qinv q -> length flat = qlen q ->
  exists q', ring_store q flat = Ok q' /\ qinv q' /\ contents q' = flat /\
    qlen q' = qlen q /\ qmax q' = qmax q /\ qoff q' = qoff q.
Proof.
  intros Hq Hl. unfold ring_store. destruct flat as [|b0 bt].
  - exists q. unfold qset. cbn [length Nat.eqb]. split; [reflexivity|]. split; [assumption|].
    split; [|auto]. apply length_zero_iff_nil. rewrite contents_length by assumption. cbn in Hl. lia.
  - set (flat := b0 :: bt) in *.
    pose proof (qset_spec q 0 flat Hq ltac:(cbn [flat length]; lia)) as Hs.
    destruct (Nat.leb_spec (0 + length flat) (qlen q)); [|lia].
    destruct Hs as (b & -> & Hqb & Hc). exists (set_buf q b). split; [reflexivity|]. split; [assumption|].
    split; [|auto]. rewrite Hc. unfold upd. cbn [firstn app Nat.add].
    rewrite skipn_all2 by (rewrite contents_length by assumption; lia). apply app_nil_r.
Qed.

Lemma cinv_dwf v F st buf : cinv v F st buf -> dwf st.
Proof.
  intros (_ & _ & Hm) c Hc. rewrite Hc in Hm. destruct Hm as (-> & Hd & _). split; [reflexivity|assumption].
Qed.

Lemma st_drop_0 st : st_drop st 0 = st.
Proof. destruct st as [a b c d e f]. unfold st_drop. cbn [DecModel.dcode DecModel.dpos8 DecModel.dcurr DecModel.dpos DecModel.dlen DecModel.dmsg]. rewrite !Nat.sub_0_r. reflexivity. Qed.

(* mpt_queue_shift *)
Lemma dqueue_shift_spec v F d : qinv (dq_q d) -> cinv v F (dq_st d) (contents (dq_q d)) ->
  exists c d', dqueue_shift d = Ok d' /\ dropok (dq_st d) c /\ dq_st d' = st_drop (dq_st d) c /\
    qinv (dq_q d') /\ contents (dq_q d') = skipn c (contents (dq_q d)).
Proof.
  intros Hq (G1 & G2 & Hm). rewrite contents_length in G2 by assumption.
  set (st := dq_st d) in *. set (q := dq_q d) in *.
  assert (Hnone : exists c d', Ok d = Ok d' /\ dropok st c /\ dq_st d' = st_drop st c /\
                    qinv (dq_q d') /\ contents (dq_q d') = skipn c (contents q)).
  { exists 0, d. split; [reflexivity|]. split; [split; [lia|left; lia]|]. fold st. rewrite st_drop_0.
    split; [reflexivity|]. split; [assumption|reflexivity]. }
  assert (Hcrop : forall c pos', c <= dcurr st -> dropok st c -> pos' = dpos st - c ->
            exists c0 d', match qcrop q 0 c with
                          | Ok q' => Ok (mkdq q' (mkd (dcode st) (dpos8 st) (dcurr st - c) pos' (dlen st) (dmsg st)))
                          | Err _ => Ok d | Fault => Fault end = Ok d' /\ dropok st c0 /\
              dq_st d' = st_drop st c0 /\ qinv (dq_q d') /\ contents (dq_q d') = skipn c0 (contents q)).
  { intros c pos' Hc Hd ->. destruct (qcrop0_ok q c Hq ltac:(lia)) as (o & -> & Ho & Hco).
    exists c. eexists. split; [reflexivity|]. split; [assumption|]. cbn [dq_st dq_q]. split; [reflexivity|].
    pose proof Hq as (Hb & Hl & Hoff).
    split; [unfold qinv; cbn [qbuf qlen qmax qoff]; lia|].
    apply contents_crop0; try assumption; lia. }
  unfold dqueue_shift. fold st q.
  destruct (Nat.eqb_spec (dcurr st) 0); [exact Hnone|].
  destruct (negb (dpos st =? 0) || negb (dlen st =? 0) || negb (dcode st =? 0) || negb (dpos8 st =? 0)) eqn:EA.
  - destruct (Nat.ltb_spec (dpos st) (dcurr st)) as [Hlt|Hge].
    + destruct (Nat.eqb_spec (dpos st) 0) as [Hp0|Hp0]; [exact Hnone|].
      apply Hcrop; [lia|split; [lia|left; lia]|lia].
    + apply Hcrop; [lia|split; [lia|left; lia]|reflexivity].
  - apply Bool.orb_false_elim in EA. destruct EA as [EA E4].
    apply Bool.orb_false_elim in EA. destruct EA as [EA E3].
    apply Bool.orb_false_elim in EA. destruct EA as [E1 E2].
    apply Bool.negb_false_iff, Nat.eqb_eq in E1, E2, E3, E4.
    apply Hcrop; [lia|split; [lia|right; split; assumption]|lia].
Qed.

(* mpt_queue_recv when the decoder does not ask for buffer space *)
Lemma dqueue_recv_spec v F d : qinv (dq_q d) -> qlen (dq_q d) <> 0 -> cinv v F (dq_st d) (contents (dq_q d)) ->
  let '(r, st1, flat1) := dec_call_res v (dq_st d) (contents (dq_q d)) (ring_frags (dq_q d)) [qoff (dq_q d) mod 16] false in
  match r with
  | DMsg | DMore =>
    cinv v (match r with DMsg => [] | _ => F ++ firstn (dcurr st1 - dcurr (dq_st d)) (skipn (dcurr (dq_st d)) (contents (dq_q d))) end)
         st1 flat1 ->
    exists c d', dqueue_recv v d = Ok (match dmsg st1 with Some _ => RMsg | None => RMore end, d') /\
      dropok st1 c /\ dq_st d' = st_drop st1 c /\ qinv (dq_q d') /\ contents (dq_q d') = skipn c flat1
  | _ => True
  end.
Proof.
  intros Hq Hne Hc.
  pose proof (dec_call_touches_res v (dq_st d) (contents (dq_q d)) (ring_frags (dq_q d)) [qoff (dq_q d) mod 16] false
                (cinv_dwf v F _ _ Hc)) as Ht.
  unfold dqueue_recv, decode_ring. destruct (Nat.eqb_spec (qlen (dq_q d)) 0); [contradiction|].
  destruct (dec_call_res v (dq_st d) (contents (dq_q d)) (ring_frags (dq_q d)) [qoff (dq_q d) mod 16] false)
    as [[r st1] flat1].
  destruct Ht as [(Hlen & _ & _) _]. rewrite contents_length in Hlen by assumption.
  destruct (ring_store_spec (dq_q d) flat1 Hq Hlen) as (q1 & Hst & Hq1 & Hc1 & _).
  assert (Hdel : forall F', cinv v F' st1 flat1 ->
     exists c d', (do d' <- dqueue_shift (mkdq q1 st1);
                   Ok (match dmsg (dq_st d') with Some _ => RMsg | None => RMore end, d'))
                  = Ok (match dmsg st1 with Some _ => RMsg | None => RMore end, d') /\
       dropok st1 c /\ dq_st d' = st_drop st1 c /\ qinv (dq_q d') /\ contents (dq_q d') = skipn c flat1).
  { intros F' Hc'. destruct (dqueue_shift_spec v F' (mkdq q1 st1) Hq1 ltac:(cbn [dq_q dq_st]; rewrite Hc1; exact Hc'))
      as (c & d' & Hs & Hd & Hst' & Hq' & Hcc). cbn [dq_q dq_st] in *.
    exists c, d'. rewrite Hs. cbn [bind]. rewrite Hst'. cbn [st_drop dmsg].
    split; [reflexivity|]. split; [assumption|]. split; [reflexivity|]. split; [assumption|]. rewrite Hcc, Hc1. reflexivity. }
  destruct r as [| |e|]; try exact I; intros Hc'; rewrite Hst; cbn [bind]; apply (Hdel _ Hc').
Qed.

(* ---------- steps and histories ---------- *)
Lemma hinv_drop v I st buf msgs c : hinv v I (mkhs st buf msgs false) -> dropok st c ->
  hinv v I (mkhs (st_drop st c) (skipn c buf) msgs false).
Proof.
  intros (C & F & Hf & HI & Hc) Hd. cbn [hs_msgs hs_stop hs_st hs_buf] in *.
  exists C, F. cbn [hs_msgs hs_stop hs_st hs_buf]. split; [assumption|].
  split; [|apply cinv_drop; assumption].
  destruct Hd as [Hd _]. cbn [st_drop dcurr]. rewrite unread_drop by assumption. exact HI.
Qed.

Theorem rh_step_inv v s o : rh_inv v s -> rh_inv v (rh_step v s o).
Proof.
  intros [Hh Hq]. unfold rh_step. destruct (rh_stop s) eqn:Est; [split; [assumption|rewrite Est; discriminate]|].
  specialize (Hq eq_refl). destruct o as [bytes|].
  - (* wire *)
    pose proof (qpush_spec (dq_q (rh_d s)) bytes Hq) as Hp.
    destruct ((length bytes <=? qmax (dq_q (rh_d s)) - qlen (dq_q (rh_d s))) &&
              negb (qmax (dq_q (rh_d s)) - qlen (dq_q (rh_d s)) =? 0)).
    + destruct Hp as (q' & -> & Hq' & _ & Hc'). split; [|intros _; exact Hq'].
      pose proof (hstep_inv v (rh_in s) (flat_of s) (HFeed bytes) Hh) as H.
      unfold hstep, flat_of in H. cbn [hs_stop hs_st hs_buf hs_msgs fed] in H. rewrite Est in H.
      unfold flat_of. cbn [rh_d rh_msgs rh_stop rh_in dq_q dq_st]. rewrite Hc'. exact H.
    + destruct Hp as (e & ->). split; [assumption|intros _; assumption].
  - (* receive *)
    destruct (Nat.eqb_spec (qlen (dq_q (rh_d s))) 0) as [|Hne]; [split; [assumption|intros _; assumption]|].
    pose proof Hh as (C & F & Hf & Hs). unfold flat_of in Hs. cbn [hs_stop hs_st hs_buf] in Hs. rewrite Est in Hs.
    destruct Hs as [HI Hc].
    pose proof (dqueue_recv_spec v F (rh_d s) Hq Hne Hc) as Hr.
    pose proof (hstep_inv v (rh_in s) (flat_of s) (HCall (ring_frags (dq_q (rh_d s))) [qoff (dq_q (rh_d s)) mod 16]) Hh) as Hstep.
    pose proof (dec_call_honest v F (dq_st (rh_d s)) (contents (dq_q (rh_d s)))
                  (ring_frags (dq_q (rh_d s))) [qoff (dq_q (rh_d s)) mod 16] Hc) as Hpost.
    unfold hstep, flat_of in Hstep. cbn [hs_stop hs_st hs_buf hs_msgs fed] in Hstep. rewrite Est, app_nil_r in Hstep.
    destruct (dec_call_res v (dq_st (rh_d s)) (contents (dq_q (rh_d s))) (ring_frags (dq_q (rh_d s)))
                [qoff (dq_q (rh_d s)) mod 16] false) as [[r st1] flat1].
    destruct r as [| |e|]; cbn match.
    + (* message *)
      destruct Hpost as (k & body & _ & _ & _ & _ & _ & _ & Hc1 & Hm1).
      destruct (Hr Hc1) as (c & d' & -> & Hd & Hst' & Hq' & Hcc). rewrite Hm1.
      split; [|intros _; exact Hq'].
      pose proof (hinv_drop v (rh_in s) st1 flat1 _ c Hstep Hd) as H.
      unfold flat_of. cbn [rh_d rh_msgs rh_stop rh_in]. rewrite Hst', Hcc.
      replace (match dqueue_message d' with Some m => m | None => [] end) with (decoded st1 flat1); [exact H|].
      unfold dqueue_message. rewrite Hst'. cbn [st_drop dmsg dpos]. rewrite Hm1, Hcc.
      pose proof (decoded_drop st1 flat1 c Hd) as E. unfold decoded, st_drop in E. cbn [dlen dpos] in E.
      unfold slice. symmetry. exact E.
    + (* more *)
      destruct Hpost as (k & Hk & Hcur & _ & _ & Hc1 & Hm1).
      replace (dcurr st1 - dcurr (dq_st (rh_d s))) with k in Hr by lia.
      destruct (Hr Hc1) as (c & d' & -> & Hd & Hst' & Hq' & Hcc). rewrite Hm1.
      split; [|intros _; exact Hq'].
      pose proof (hinv_drop v (rh_in s) st1 flat1 _ c Hstep Hd) as H.
      unfold flat_of. cbn [rh_d rh_msgs rh_stop rh_in]. rewrite Hst', Hcc. exact H.
    + split; [|discriminate]. exists C, F. unfold flat_of. cbn [hs_msgs hs_stop rh_msgs rh_stop rh_in].
      split; [assumption|]. eexists. exact HI.
    + split; [|discriminate]. exists C, F. unfold flat_of. cbn [hs_msgs hs_stop rh_msgs rh_stop rh_in].
      split; [assumption|]. eexists. exact HI.
Qed.

Theorem rh_run_inv v : forall ops s, rh_inv v s -> rh_inv v (rh_run v s ops).
Proof.
  induction ops as [|o ops IH]; intros s Hi; cbn [rh_run fold_left]; [exact Hi|].
  apply IH. apply rh_step_inv. exact Hi.
Qed.

(* an empty ring of any capacity and offset, decoder in its initial state *)
Definition rh_init (buf : mem) (off : nat) : rh :=
  mkrh (mkdq (mkq buf 0 (length buf) off) (dinit 0)) [] false [].

Lemma rh_init_inv v buf off : off <= length buf -> rh_inv v (rh_init buf off).
Proof.
  intros Ho. assert (Hq : qinv (mkq buf 0 (length buf) off)) by (unfold qinv; cbn [qbuf qlen qmax qoff]; lia).
  split; [|intros _; exact Hq].
  assert (Hc : contents (mkq buf 0 (length buf) off) = []).
  { apply length_zero_iff_nil. rewrite contents_length by assumption. reflexivity. }
  exists [], []. unfold flat_of, rh_init. cbn [rh_d rh_msgs rh_stop rh_in dq_q dq_st hs_msgs hs_stop hs_st hs_buf].
  split; [constructor|]. rewrite Hc. split; [reflexivity|]. apply cinv_init. cbn. lia.
Qed.

(* MAIN (partial: ends at the first decoder error, MissingBuffer included): whatever is wired in,
   in whatever pieces, and whenever receives happen, the messages a framed input ring delivers
   are, in order, the reference decodings of the frames at the front of the accepted bytes *)
Theorem reader_history_delivers v buf off ops : off <= length buf ->
  let s := rh_run v (rh_init buf off) ops in
  exists C rest, rh_in s = C ++ rest /\ frames_of v (rh_msgs s) C.
Proof.
  intros Ho s. destruct (rh_run_inv v ops _ (rh_init_inv v buf off Ho)) as [(C & F & Hf & Hs) _]. fold s in Hf, Hs.
  unfold flat_of in Hf, Hs. cbn [hs_msgs hs_stop hs_st hs_buf] in Hf, Hs.
  exists C. destruct (rh_stop s).
  - destruct Hs as (rest & HI). exists rest. split; assumption.
  - destruct Hs as [HI _]. eexists. split; [exact HI|assumption].
Qed.
