(* placeholder until the C03 theorems are in place *)
From MptV Require Import Base.Mem Cobs.CobsModel Cobs.DecModel.
Example C03_len_zero_example : len_zero v_zpe 225 65%N = 2.
Proof. reflexivity. Qed.
Print Assumptions C03_len_zero_example.
