(* C03 — Decoders are safe and honest on arbitrary bytes.
   Only the property theorems, their non-vacuity examples and Print Assumptions.

   Reading guide.  [dec_call v st buf frags peek] transcribes one call of mpt_decode_cobs /
   _cobs_r / _cobs_zpe / _cobs_zpe_r on the concatenation [buf] of the caller's iovecs
   (DecModel.v); [st] is the resume state (context code/pos, curr, data.pos/len/msg).
   [dec_loop] is the block loop inside it: it reads the bytes [inp] from the read position
   on, with [proc] = the gap between write and read position, and appends to the decoded
   bytes [out].  [sdec v] is the reference decoder (CobsModel.v).  The theorems hold for
   EVERY byte list, every resume state and every variant record — no well-formedness of
   the input is assumed unless stated. *)
From MptV Require Import Base.Mem Cobs.CobsModel Cobs.DecModel Cobs.EncProofs Cobs.EncTheorems Cobs.DecProofs Cobs.DecCall
  Cobs.DecComplete Cobs.DecHistory Cobs.DecLive Cobs.DecStream Cobs.TextModel Cobs.TextHistory.

(* SAFETY, one call, arbitrary bytes and (well-formed) resume state: the region keeps its
   size; nothing before the state's decoded data is written; if anything was written, the
   read position left behind lies inside the region and everything at or after it is
   untouched — i.e. decoded bytes only go into the already consumed part of the input.
   The resulting state is again well formed, so this covers every reachable resume state. *)
Theorem C03_call_writes_only_consumed_part :
  forall v st buf frags peek, dwf st ->
    let '(r, st', buf') := dec_call v st buf frags peek in
    touches_only st buf st' buf' /\ dwf st'.
Proof. exact dec_call_touches. Qed.

(* gap accounting of the block loop: bytes written + gap left = gap before + bytes read, and
   no more is read than is readable — the write position never passes the read position *)
Theorem C03_loop_gap_accounting :
  forall v peek inp code pos proc out cons,
    let r := dec_loop v peek inp code pos proc out cons in
    exists added, lout r = out ++ added /\ cons <= lcons r /\ lcons r - cons <= length inp /\
      length added + lproc r = proc + (lcons r - cons).
Proof. exact dec_loop_gap. Qed.

(* SEGMENTATION: stopping because the readable bytes ran out and continuing later with more
   bytes gives exactly the result of one call on the concatenation *)
Theorem C03_segmentation_independent :
  forall v inp1 inp2 code pos proc out cons,
    let r1 := dec_loop v false inp1 code pos proc out cons in
    lr r1 = DMore -> lcons r1 - cons = length inp1 ->
    dec_loop v false (inp1 ++ inp2) code pos proc out cons =
    dec_loop v false inp2 (lcode r1) (lpos r1) (lproc r1) (lout r1) (lcons r1).
Proof. exact dec_loop_app. Qed.

(* HONESTY: for arbitrary input bytes, if the loop delivers a message, the bytes consumed for
   it are  body ++ [0]  and the message is the reference decoding of body; until then the
   decoded bytes are the reference decoding of the blocks seen so far ([hon]).  A zero inside
   a block is reported (MissingData) with the zero still unread and never becomes a message
   for COBS and COBS/ZPE. *)
Theorem C03_delivery_is_reference_decoding :
  forall v inp F code pos proc out cons,
    hon v F out code pos ->
    honest_post v F inp cons (dec_loop v false inp code pos proc out cons).
Proof. exact dec_loop_honest. Qed.

(* ... and for COBS/R and COBS/ZPE+R that report is the tail-inline encoding: the message the
   wrapper delivers (decoded bytes ++ the code byte) is again the reference decoding *)
Theorem C03_inline_tail_is_reference_decoding :
  forall v F msg code pos, inl v = true -> hon v F msg code pos -> pos < len_data v code ->
    sdec v F = Some (msg ++ [nb code]).
Proof. exact hon_inline. Qed.

(* COMPLETENESS on well-formed frames: blocks that are well formed are delivered as exactly
   the reference decoding, provided the gap suffices ([gapok]) ... *)
Theorem C03_wellformed_frame_delivered :
  forall v more c d proc out cons tl,
    block_ok v (c, d) -> Forall (block_ok v) more -> gapok v proc ((c, d) :: more) ->
    exists p', dec_loop v false (d ++ tail_bytes more ++ tl) c 0 proc out cons =
      mkl DMsg (out ++ msg_of v ((c, d) :: more)) (cons + length (d ++ tail_bytes more)) p' 0 0.
Proof. exact dec_loop_complete. Qed.

Theorem C03_delivered_message_is_sdec :
  forall v bs c d, Forall (block_ok v) bs -> block_ok v (c, d) ->
    msg_of v (bs ++ [(c, d)]) = dec_closed v bs ++ d ++ zeros (zeros_last v c) /\
    sdec v (flat bs ++ nb c :: d) = Some (dec_closed v bs ++ d ++ zeros (zeros_last v c)).
Proof. exact delivered_is_sdec. Qed.

(* ... and without zero-pair codes (COBS, COBS/R) one byte of gap — the code byte just read —
   is always enough: these decoders need no extra room *)
Theorem C03_cobs_needs_no_slack :
  forall v, zpe v = false -> forall bl proc, 1 <= proc -> gapok v proc bl.
Proof. exact gapok_cobs. Qed.

(* WELL-FORMED INPUT, in the reference decoder's own terms: whenever the reference decoder accepts
   a frame body ([sdec v body = Some m]) the decoder loop, started after the frame's first code
   byte with a gap of at least |body|+1 bytes, delivers exactly m — directly, or for COBS/R as the
   reported zero inside the last block that the wrapper completes with the code byte
   ([delivers]); whatever bytes [tl] follow the delimiter. *)
Theorem C03_accepted_frame_is_delivered :
  forall v body m c0 rest tl proc cons,
    sdec v body = Some m -> body = c0 :: rest -> length body + 1 <= proc ->
    delivers v (dec_loop v false (rest ++ 0%N :: tl) (bn c0) 0 proc [] cons) m.
Proof. exact dec_complete_sdec. Qed.

(* for COBS and COBS/R the single byte gained by reading the first code byte is enough *)
Theorem C03_accepted_frame_is_delivered_cobs :
  forall v body m c0 rest tl proc cons,
    zpe v = false -> sdec v body = Some m -> body = c0 :: rest -> 1 <= proc ->
    delivers v (dec_loop v false (rest ++ 0%N :: tl) (bn c0) 0 proc [] cons) m.
Proof. exact dec_complete_sdec_cobs. Qed.

(* CALL LEVEL.  [cinv v F st buf]: the state the C decoder keeps between calls (resume code and
   position, read position, position/length of the decoded bytes, held message) describes a
   decoder that has consumed the bytes [F] of the current frame and holds their decoding in the
   buffer.  One call (any fragment geometry and alignment residues, COBS/R wrapper included)
   from such a state: if it reports a message, the bytes it consumed complete a frame whose
   reference decoding is exactly the message handed out; if it asks for more, the invariant
   holds with the consumed bytes added; the unread input is untouched. *)
Theorem C03_call_delivers_reference_decoding :
  forall v F st buf frags res, cinv v F st buf ->
    let '(r, st', buf') := dec_call_res v st buf frags res false in
    call_post v F (dcurr st) buf r st' buf'.
Proof. exact dec_call_honest. Qed.

(* HISTORIES.  Start between messages (e.g. the initial state, any gap), make any number of calls
   with any fragment geometry, append any bytes in any pieces between the calls: the messages
   delivered (until the first error, if any) are, in order, the reference decodings of the
   successive zero-terminated frames at the front of all the input handed over — whatever the
   bytes are.  Segmentation of the input therefore cannot change what is delivered. *)
Theorem C03_history_delivers_frames :
  forall v st0 buf0 ops, cinv v [] st0 buf0 ->
    let s := hrun v (mkhs st0 buf0 [] false) ops in
    exists C rest, skipn (dcurr st0) buf0 ++ concat (map fed ops) = C ++ rest /\ frames_of v (hs_msgs s) C.
Proof. exact dec_history_delivers. Qed.

(* COMPLETENESS at call level: between messages, with a frame the reference decoder accepts at the
   front of the unread input and a gap of at least the frame length + 16 (the target alignment may
   skip up to 15 bytes): ONE call delivers exactly that message, consumes exactly the frame and
   leaves what follows untouched — every fragment geometry, every variant, whatever follows *)
Theorem C03_call_delivers_accepted_frame :
  forall v st buf frags res body m tl,
    dpos st + dlen st <= dcurr st -> dcurr st <= length buf -> dcode st = 0 ->
    (dmsg st = Some (dlen st) \/ (dmsg st = None /\ dlen st = 0)) ->
    skipn (dcurr st) buf = body ++ 0%N :: tl -> sdec v body = Some m ->
    length body + 16 <= dcurr st - (dpos st + dlen st) ->
    let '(r, st', buf') := dec_call_res v st buf frags res false in
    r = DMsg /\ decoded st' buf' = m /\ dmsg st' = Some (length m) /\
    dcurr st' = dcurr st + length body + 1 /\ skipn (dcurr st') buf' = tl.
Proof. exact dec_call_complete. Qed.

(* LIVENESS for a reader that provides space: between messages the caller makes room (any new prefix,
   a gap of the unread length + 16) and calls once — then EVERY complete frame at the front of the
   unread input is delivered, one per step, in order, and exactly the frames are consumed.  With
   C03_history_delivers_frames (nothing else is ever delivered) this is "nothing lost, nothing
   invented" for such a reader. *)
Theorem C03_spaced_reader_delivers_every_frame :
  forall v ms W, frames_of v ms W ->
    forall s tl (steps : list (list byte * list nat * list nat)),
      idle_between v s -> skipn (dcurr (hs_st s)) (hs_buf s) = W ++ tl -> length steps = length ms ->
      let s' := fold_left (fun s x => spaced_step v s (fst (fst x)) (snd (fst x)) (snd x)) steps s in
      idle_between v s' /\ hs_msgs s' = hs_msgs s ++ ms /\ skipn (dcurr (hs_st s')) (hs_buf s') = tl.
Proof. exact spaced_reader_delivers. Qed.

(* THE COMMAND DECODER (mpt_decode_command: zero-terminated text, message header prepended in
   place).  [tinv G st buf]: between messages, or inside one whose text bytes [G] so far sit behind
   the header.  One call from such a state: a message is header ++ the text up to the next zero;
   otherwise all unread bytes (none of them zero) were taken into the open message; an error
   changes nothing. *)
Theorem C03_command_call_honest :
  forall G st buf, tinv G st buf ->
    let '(r, st', buf') := cmd_call st buf in
    match r with TErr _ => st' = st /\ buf' = buf | _ => tcall_post G (tcurr st) buf r st' buf' end.
Proof. exact cmd_call_honest. Qed.

(* ... and over every history of calls and feeds, whatever the bytes and however they are cut:
   the messages delivered are header ++ text for the successive zero-terminated texts at the
   front of the input, in order *)
Theorem C03_command_history_delivers :
  forall slack inp ops, 2 <= length slack ->
    let s := trun (mkths (mkt (length slack) 0 0 None) (slack ++ inp) []) ops in
    exists bodies C rest, inp ++ concat (map tfed ops) = C ++ rest /\ texts_of bodies C /\
      ts_msgs s = map (app cmd_header) bodies.
Proof. exact cmd_history_delivers. Qed.

(* ---- non-vacuity ---- *)
(* NO FALSE REFUSAL, any state, any gap: when the unread bytes complete (or, between messages,
   start) a frame the reference decoder accepts -- [slive]; every accepted frame qualifies by
   [C03_accepted_frame_is_live] -- a call in ANY state the call invariant allows (between messages,
   inside a block, behind the data part with some zeros written) and with ANY gap either delivers
   the message, consuming exactly up to the delimiter, or reports MissingBuffer in a state that is
   live again with the delimiter still ahead, and the latter only when the gap was shorter than
   (bytes up to the delimiter) + 17.  It never asks for more input and never reports a decoding
   error on such data *)
Theorem C03_accepted_frame_is_live :
  forall v body m tl, sdec v body = Some m -> wfd0 v (body ++ 0%N :: tl) = true.
Proof. exact sdec_wfd0. Qed.

Theorem C03_call_never_refuses_complete_frame :
  forall v F st buf frags res, cinv v F st buf -> slive v st buf ->
    let '(r, st', buf') := dec_call_res v st buf frags res false in live_result v st buf r st' buf'.
Proof. exact dec_call_live. Qed.

(* non-vacuity: a ZPE frame in a buffer without any gap: MissingBuffer, live again *)
Example C03_example_live :
  let buf := [225;65;225;66;1;0]%N in
  cinv v_zpe [] (dinit 0) buf /\ slive v_zpe (dinit 0) buf /\
  let '(r, st', buf') := dec_call_res v_zpe (dinit 0) buf [6] [] false in
  r = DErr MissingBuffer /\ dcurr st' = 2 /\ dcode st' = 225.
Proof. split; [apply cinv_init; cbn; lia|]. vm_compute. auto. Qed.

(* NO FALSE ERROR on a prefix of a well-formed stream ([wfs]: complete well-formed frames, the last
   one cut anywhere -- the form the output of the encoders has at every moment): a call in any
   state and with any gap delivers a message, asks for more input (having consumed everything) or
   reports MissingBuffer, and the state is of the same kind again; BadValue / MissingData /
   BadEncoding are never reported *)
Theorem C03_call_no_error_on_stream_prefix :
  forall v F st buf frags res, cinv v F st buf -> sstream v st buf ->
    let '(r, st', buf') := dec_call_res v st buf frags res false in
    sstream v st' buf' /\ (r = DMsg \/ r = DErr MissingBuffer \/ r = DMore).
Proof. exact dec_call_stream. Qed.

Theorem C03_stream_of_accepted_frames_is_wellformed :
  forall v ms C, frames_of v ms C -> forall R, wfs0 v (C ++ R) = wfs0 v R.
Proof. exact wfs0_frames. Qed.

(* non-vacuity: a frame and a half *)
Example C03_example_stream_prefix :
  let buf := [3;65;66;0;4;67]%N in
  cinv v_cobs [] (dinit 0) buf /\ sstream v_cobs (dinit 0) buf.
Proof. split; [apply cinv_init; cbn; lia|]. split; [vm_compute; reflexivity|]. intros H. cbn in H. contradiction. Qed.

Example C03_hon_start : forall v c, 1 <= c -> hon v [nb c] [] c 0.
Proof. exact hon_start. Qed.

Example C03_example_call :
  let '(r, st', buf') := dec_call v_zpe (dinit 3) [238;238;238;225;65;2;66;1;0]%N [9] false in
  r = DMsg /\ dmsg st' = Some 5 /\ firstn 5 (skipn (dpos st') buf') = [65;0;0;66;0]%N.
Proof. vm_compute. auto. Qed.

Example C03_example_malformed :
  let '(r, st', buf') := dec_call v_cobs (dinit 0) [3;65;0;66;0]%N [5] false in
  r = DErr MissingData /\ dmsg st' = None.
Proof. vm_compute. auto. Qed.

Example C03_cinv_init : forall v gap buf, gap <= length buf -> cinv v [] (dinit gap) buf.
Proof. exact cinv_init. Qed.

(* two frames arriving in three pieces, calls in between; gap of 3 bytes *)
Example C03_example_history :
  let s := hrun v_zpe (mkhs (dinit 3) [238;238;238;225;65]%N [] false)
             [HCall [5] []; HFeed [2;66]%N; HCall [7] []; HFeed [1;0;2;7;0]%N; HCall [12] []; HCall [12] []] in
  hs_stop s = false /\ hs_msgs s = [[65;0;0;66;0]; [7]]%N.
Proof. vm_compute. auto. Qed.

(* two commands arriving in three pieces *)
Example C03_example_command_history :
  let s := trun (mkths (mkt 2 0 0 None) [238;238;97;98]%N []) [TCall; TFeed [99;0;100]%N; TCall; TCall; TFeed [0]%N; TCall] in
  ts_msgs s = [[4;32;97;98;99]; [4;32;100]]%N.
Proof. vm_compute. reflexivity. Qed.

Example C03_dwf_init : forall n, dwf (dinit n).
Proof. intros n c H. discriminate. Qed.

Print Assumptions C03_call_writes_only_consumed_part.
Print Assumptions C03_loop_gap_accounting.
Print Assumptions C03_segmentation_independent.
Print Assumptions C03_delivery_is_reference_decoding.
Print Assumptions C03_inline_tail_is_reference_decoding.
Print Assumptions C03_wellformed_frame_delivered.
Print Assumptions C03_delivered_message_is_sdec.
Print Assumptions C03_cobs_needs_no_slack.
Print Assumptions C03_accepted_frame_is_delivered.
Print Assumptions C03_accepted_frame_is_delivered_cobs.
Print Assumptions C03_call_delivers_reference_decoding.
Print Assumptions C03_history_delivers_frames.
Print Assumptions C03_call_delivers_accepted_frame.
Print Assumptions C03_command_call_honest.
Print Assumptions C03_command_history_delivers.
Print Assumptions C03_spaced_reader_delivers_every_frame.
Print Assumptions C03_accepted_frame_is_live.
Print Assumptions C03_call_never_refuses_complete_frame.
Print Assumptions C03_call_no_error_on_stream_prefix.
Print Assumptions C03_stream_of_accepted_frames_is_wellformed.
