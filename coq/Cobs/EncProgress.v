(* Cobs/EncProgress.v — with enough output space a data call consumes its whole chunk and
   the finish call succeeds: the hypotheses of the round-trip theorem can always be met. *)
From MptV Require Import Base.Mem Base.Tactics Cobs.CobsModel Cobs.EncProofs Cobs.EncTheorems.
Local Open Scope nat_scope.

Lemma enc_loop_all v : forall n src fin open code left,
  length src <= n -> 2 * length src < left ->
  let '(_, _, _, _, rest) := enc_loop v fin open code left src in rest = [].
Proof.
  induction n as [|n IH]; intros src fin open code left Hn Hl.
  { destruct src; [reflexivity|cbn in Hn; lia]. }
  destruct src as [|b rest]; [reflexivity|]. cbn [length] in *.
  cbn [enc_loop]. destruct (bz b).
  - destruct rest as [|b2 rest2]; [reflexivity|]. cbn [length] in *.
    destruct (zpe v && (1 <? code) && (code <? 32) && bz b2).
    + destruct (Nat.eqb_spec (left - 1) 0); [lia|]. apply IH; lia.
    + destruct (Nat.eqb_spec (left - 1) 0); [lia|]. apply IH; cbn [length]; lia.
  - destruct (S code =? maxlen v).
    + destruct (Nat.eqb_spec (left - 1) 0); [lia|].
      destruct (Nat.eqb_spec (left - 2) 0); [lia|]. apply IH; lia.
    + destruct (Nat.eqb_spec (left - 1) 0); [lia|]. apply IH; lia.
Qed.

(* a data call with 2*|chunk|+2 free bytes consumes the whole chunk *)
Lemma enc_data_all v st buf cap src :
  0 < length src -> edone st + escr st + 2 * length src + 2 <= cap ->
  match enc_call v st buf cap (Some src) with
  | (EInt k, _, _) => k = length src
  | _ => False
  end.
Proof.
  intros Hs Hc. cbn [enc_call]. unfold enc_regular.
  destruct (Nat.ltb_spec cap (edone st)); [lia|]. cbn [orb].
  destruct (Nat.ltb_spec (cap - edone st) (escr st)); [lia|].
  destruct (Nat.eqb_spec (length src) 0); [lia|].
  destruct (Nat.eqb_spec (escr st) 0) as [E|E]; cbn [negb].
  - destruct (Nat.leb_spec (cap - edone st) 1); [lia|].
    pose proof (enc_loop_all v (length src) src (fin_of st buf) [] 1 (cap - edone st - 1) (le_n _) ltac:(lia)) as HA.
    destruct (enc_loop v (fin_of st buf) [] 1 (cap - edone st - 1) src) as [[[[f o] c] l] r].
    rewrite HA. cbn [length]. lia.
  - destruct (Nat.eqb_spec (cap - edone st - escr st) 0); [lia|].
    destruct (Nat.ltb_spec (cap - edone st - escr st) 2); [lia|]. cbn [andb].
    pose proof (enc_loop_all v (length src) src (fin_of st buf) (open_of st buf) (escr st)
                  (cap - edone st - escr st) (le_n _) ltac:(lia)) as HA.
    destruct (enc_loop v (fin_of st buf) (open_of st buf) (escr st) (cap - edone st - escr st) src) as [[[[f o] c] l] r].
    rewrite HA. cbn [length]. lia.
Qed.

(* the finish call succeeds with two free bytes *)
Lemma enc_term_ok v st buf cap : edone st + escr st + 2 <= cap ->
  match enc_call v st buf cap None with (EInt _, _, _) => True | _ => False end.
Proof.
  intros Hc. cbn [enc_call].
  destruct (inl v && negb (escr st =? 0)) eqn:E.
  - unfold enc_r_term. destruct (Nat.ltb_spec cap (edone st)); [lia|].
    destruct (Nat.ltb_spec cap (edone st + escr st)); [lia|].
    destruct ((1 <? escr st) && check_inline v (escr st) (last (open_of st buf) 0%N)); [exact I|].
    destruct (Nat.leb_spec (cap - edone st) (escr st)); [lia|exact I].
  - unfold enc_regular. destruct (Nat.ltb_spec cap (edone st)); [lia|]. cbn [orb].
    destruct (Nat.ltb_spec (cap - edone st) (escr st)); [lia|].
    destruct (Nat.leb_spec (cap - edone st) (escr st)); [lia|].
    destruct (escr st =? 0); [|exact I].
    destruct (Nat.ltb_spec (cap - edone st) 2); [lia|exact I].
Qed.

(* hence: the two-call script "offer everything with ample space, finish" always completes *)
Lemma offer_all v pre m st0 cap0 inc : variant_ok v ->
  idle_state st0 pre -> length pre <= cap0 -> 0 < length m -> 2 * length m + 2 <= inc ->
  let r := run_step v (mkr st0 pre cap0 m false) (Offer inc (length m)) in
  rdone r = false /\ rrem r = [] /\ edone (rst r) + escr (rst r) <= rcap r.
Proof.
  intros Hv [H0 Hd] Hcap Hlen Hinc. unfold run_step. cbn [rdone rst rbuf rcap rrem].
  rewrite firstn_all.
  pose proof (enc_data_all v st0 pre (cap0 + inc) m Hlen ltac:(lia)) as H.
  pose proof (enc_data_call v pre [] st0 pre (cap0 + inc) m Hv (EI_idle v pre [] st0 pre H0 Hd eq_refl eq_refl)) as H2.
  destruct (enc_call v st0 pre (cap0 + inc) (Some m)) as [[res st'] buf'].
  destruct res as [k| |]; try contradiction. subst k. destruct H2 as (_ & _ & Hwin).
  cbn [rdone rst rbuf rcap rrem]. rewrite skipn_all. auto.
Qed.

Lemma finish_ok v r inc : rdone r = false -> edone (rst r) + escr (rst r) + 2 <= rcap r + inc ->
  let r' := run_step v r (Finish inc) in rdone r' = true /\ rrem r' = rrem r.
Proof.
  intros Hd Hc. unfold run_step. rewrite Hd.
  pose proof (enc_term_ok v (rst r) (rbuf r) (rcap r + inc) Hc) as H.
  destruct (enc_call v (rst r) (rbuf r) (rcap r + inc) None) as [[res st'] buf'].
  destruct res; try contradiction. cbn [rdone rrem]. auto.
Qed.

Theorem enc_can_complete v pre m st0 cap0 : variant_ok v ->
  idle_state st0 pre -> length pre <= cap0 ->
  let r := run_script v (mkr st0 pre cap0 m false) [Offer (2 * length m + 2) (length m); Finish 2] in
  rdone r = true /\ rrem r = [].
Proof.
  intros Hv Hi Hcap. unfold run_script. cbn [fold_left].
  destruct (Nat.eq_dec (length m) 0) as [E|E].
  - apply length_zero_iff_nil in E. subst m.
    set (r1 := run_step v _ (Offer _ _)).
    assert (H1 : rdone r1 = false /\ rrem r1 = [] /\ edone (rst r1) + escr (rst r1) <= rcap r1).
    { unfold r1, run_step. cbn [rdone rst rbuf rcap rrem firstn length].
      destruct Hi as [H0 Hd].
      assert (Hc : enc_call v st0 pre (cap0 + (2 * 0 + 2)) (Some []) = (EErr BadValue, st0, pre)).
      { cbn [enc_call]. unfold enc_regular. rewrite H0, Hd.
        destruct (Nat.ltb_spec (cap0 + (2 * 0 + 2)) (length pre)); [lia|]. cbn [orb].
        destruct (Nat.ltb_spec (cap0 + (2 * 0 + 2) - length pre) 0); [lia|]. reflexivity. }
      rewrite Hc. cbn [rdone rst rbuf rcap rrem]. rewrite H0, Hd. repeat split; lia. }
    destruct H1 as (Hd1 & Hr1 & Hw1).
    destruct (finish_ok v r1 2 Hd1 ltac:(lia)) as [Hd2 Hr2]. rewrite Hr2. auto.
  - destruct (offer_all v pre m st0 cap0 (2 * length m + 2) Hv Hi Hcap ltac:(lia) ltac:(lia)) as (Hd1 & Hr1 & Hw1).
    set (r1 := run_step v _ (Offer _ _)) in *.
    destruct (finish_ok v r1 2 Hd1 ltac:(lia)) as [Hd2 Hr2]. rewrite Hr2. auto.
Qed.
