(* Cobs/GlueDrain.v — the dispatcher hands over EXACTLY the messages whose frames have arrived,
   in ANY reachable state of the stream glue (no assumption on where in a frame the reader is,
   on what is held, on the shape of the ring), and a world in which nothing can move any more
   has delivered every message the writer completed:

     navail d            = number of delimiters among the unread bytes of the input ring
                           (+ 1 when a decoded message is held)
     gdisp_count         : one mpt_stream_dispatch hands over a message iff navail >= 1, and
                           navail decreases by exactly one
     gdisp_all_count     : the dispatch loop of a drain round hands over exactly navail messages
     glue_quiescent_all  : nothing finished in the output ring, nothing in flight, navail = 0
                           ==> handed to the handler = completed by the writer
     glue_round_progress : otherwise a round of flush / poll / dispatch moves a byte or hands
                           over a message
     gdrain_delivers_all : GDrain (kernel that takes what it is offered) ends in such a world. *)
From MptV Require Import Base.Mem Base.Tactics C13.QueueModel C13.QueueSpec C13.QueueProofs C13.QueueAlign C13.IoQueueProofs
  Cobs.CobsModel Cobs.DecModel Cobs.EncProofs Cobs.EncTheorems Cobs.DecProofs Cobs.DecCall Cobs.DecHistory
  Cobs.DecLive Cobs.DecStream Cobs.QueueCodec Cobs.StreamSpec Cobs.StreamRun Cobs.GlueRun
  Cobs.EncShift Cobs.QueuePushProofs Cobs.WriterHistory Cobs.ReaderHistory Cobs.ReaderStream Cobs.ReaderLive Cobs.GlueProofs Cobs.GlueLive.
Local Open Scope nat_scope.

(* ---------- counting delimiters ---------- *)
Definition zc (l : list byte) : nat := length (filter bz l).

Lemma zc_app a b : zc (a ++ b) = zc a + zc b.
Proof. unfold zc. rewrite filter_app, app_length. reflexivity. Qed.

Lemma zc_cons x l : zc (x :: l) = (if bz x then 1 else 0) + zc l.
Proof. unfold zc. cbn [filter]. destruct (bz x); reflexivity. Qed.

Lemma zc_nozero l : nozero l = true <-> zc l = 0.
Proof.
  induction l as [|x l IH]; [split; reflexivity|].
  rewrite nozero_cons, zc_cons. destruct (bz x); cbn [negb andb]; [split; [discriminate|lia]|].
  rewrite IH. cbn [Nat.add]. reflexivity.
Qed.

Lemma zc_le l : zc l <= length l.
Proof. induction l as [|x l IH]; [reflexivity|]. rewrite zc_cons. cbn [length]. destruct (bz x); lia. Qed.

Lemma zc_frames v ms C : frames_of v ms C -> zc C = length ms.
Proof.
  induction 1 as [|m ms body rest Hs Hz Hf IH]; [reflexivity|].
  rewrite !zc_app, IH. apply zc_nozero in Hz. rewrite Hz. reflexivity.
Qed.

(* the first delimiter *)
Lemma zc_split l : 1 <= zc l -> exists pre tl, l = pre ++ 0%N :: tl /\ nozero pre = true.
Proof.
  induction l as [|x l IH]; intros H; [cbn in H; lia|].
  rewrite zc_cons in H. destruct (bz x) eqn:Hx.
  - apply N.eqb_eq in Hx. subst x. exists [], l. split; reflexivity.
  - destruct (IH ltac:(cbn [Nat.add] in H; exact H)) as (pre & tl & -> & Hz).
    exists (x :: pre), tl. split; [reflexivity|]. rewrite nozero_cons, Hx, Hz. reflexivity.
Qed.

(* the consumed part of the current frame holds no delimiter *)
Lemma hon_nozero v F msg code pos : hon v F msg code pos -> nozero F = true.
Proof.
  intros (bs & d & Hbs & Hd & -> & _ & _ & Hc & _).
  rewrite nozero_app, (flat_nozero v bs Hbs), nozero_cons, (bz_nb code Hc), Hd. reflexivity.
Qed.

Lemma cinv_nozero v F st buf : cinv v F st buf -> nozero F = true.
Proof.
  intros (_ & _ & Hm). destruct (dmsg st); [destruct Hm as (_ & _ & ->); reflexivity|].
  destruct (dcode st =? 0); [destruct Hm as (_ & ->); reflexivity|].
  destruct Hm as [(_ & Hh)|(base & j & next & rest' & _ & _ & _ & _ & _ & Hh)]; apply (hon_nozero v _ _ _ _ Hh).
Qed.

Definition unread (d : dqueue) : list byte := skipn (dcurr (dq_st d)) (contents (dq_q d)).
Definition held (d : dqueue) : nat := match dmsg (dq_st d) with Some _ => 1 | None => 0 end.
Definition navail (d : dqueue) : nat := zc (unread d) + held d.

(* accepted delimiters = decoded messages + delimiters still unread *)
Lemma rh_count v rs : rh_inv v rs -> rh_stop rs = false ->
  zc (rh_in rs) = length (rh_msgs rs) + zc (unread (rh_d rs)).
Proof.
  intros [Hh _] Est. unfold flat_of in Hh. rewrite Est in Hh.
  destruct Hh as (C & F & Hf & HI & Hc). cbn [hs_msgs hs_st hs_buf] in *.
  rewrite HI, !zc_app, (zc_frames v _ _ Hf). pose proof (cinv_nozero v F _ _ Hc) as Hz. apply zc_nozero in Hz.
  rewrite Hz. reflexivity.
Qed.

Lemma pend_length d : length (pend d) = held d.
Proof. unfold pend, held. destruct (dmsg (dq_st d)); reflexivity. Qed.

(* a prefix of a well-formed stream that holds a delimiter continues a complete frame *)
Lemma wfs_wfd v : forall pre tl code pos, nozero pre = true ->
  wfs v (pre ++ 0%N :: tl) code pos = true -> wfd v (pre ++ 0%N :: tl) code pos = true.
Proof.
  induction pre as [|b pre IH]; intros tl code pos Hz Hw.
  - cbn [app] in *. rewrite wfs_zero in Hw. apply andb_prop in Hw. cbn [wfd bz N.eqb]. apply Hw.
  - cbn [app] in *. rewrite nozero_cons in Hz. apply andb_prop in Hz. destruct Hz as [Hb Hz].
    apply Bool.negb_true_iff in Hb. rewrite (wfs_nz v b _ code pos Hb) in Hw. cbn [wfd]. rewrite Hb.
    destruct (pos <? len_data v code); apply IH; assumption.
Qed.

Lemma sstream_slive v st buf pre tl : sstream v st buf -> skipn (dcurr st) buf = pre ++ 0%N :: tl -> nozero pre = true ->
  slive v st buf.
Proof.
  intros [Hw Hg] Hu Hz. unfold slive. rewrite Hu in *.
  destruct (dcode st =? 0) eqn:Ec.
  - destruct pre as [|c pre]; cbn [app wfs0 wfd0] in *; [cbn [bz N.eqb negb andb] in Hw; discriminate|].
    apply andb_prop in Hw. destruct Hw as [Hc Hw]. rewrite Hc. cbn [andb].
    rewrite nozero_cons in Hz. apply andb_prop in Hz. apply (wfs_wfd v pre tl _ _ (proj2 Hz) Hw).
  - split; [apply (wfs_wfd v pre tl _ _ Hz Hw)|]. apply Nat.eqb_neq in Ec. intros Hp. apply (Hg Ec Hp).
Qed.

(* ---------- one streamRecv, by the number of delimiters among the unread bytes ---------- *)
Lemma grecv_count v rs z d' : rh_inv v rs -> rh_stop rs = false ->
  sstream v (dq_st (rh_d rs)) (contents (dq_q (rh_d rs))) ->
  grecv v (rh_d rs) = Ok (z, d') ->
  (1 <= zc (unread (rh_d rs)) -> z = 1%Z /\ held d' = 1 /\ zc (unread d') = zc (unread (rh_d rs)) - 1) /\
  (zc (unread (rh_d rs)) = 0 -> (z <= 0)%Z /\ held d' = 0 /\ zc (unread d') = 0).
Proof.
  intros Hi Est Hss H.
  destruct (grecv_sim v rs z d' Hi Est H) as (rops & Hi' & Hd' & Hin' & Hcase & Hns).
  destruct (Hns Hss) as [Est' _].
  pose proof (rh_count v rs Hi Est) as Hc0. pose proof (rh_count v _ Hi' Est') as Hc1.
  rewrite Hin', Hd' in Hc1.
  destruct Hcase as [Hs|[_ Hcase]]; [congruence|].
  assert (Hlen : length (rh_msgs (rh_run v rs rops)) = length (rh_msgs rs) + held d' /\
                 ((0 < z)%Z /\ held d' = 1 \/ (z <= 0)%Z /\ held d' = 0)).
  { unfold pend, held in *. destruct (dmsg (dq_st d')) as [c|].
    - destruct Hcase as [(Hz & Hp & Hm)|(Hz & Hp & Hm)]; [|discriminate]. rewrite Hm, app_length. cbn [length].
      split; [reflexivity|]. left. split; [exact Hz|reflexivity].
    - destruct Hcase as [(Hz & Hp & Hm)|(Hz & Hp & Hm)]; [contradiction|]. rewrite Hm.
      split; [lia|]. right. split; [exact Hz|reflexivity]. }
  destruct Hlen as [Hlen Hz].
  split.
  - intros Hone. destruct (zc_split _ Hone) as (pre & tl & Hu & Hpz).
    pose proof (sstream_slive v _ _ pre tl Hss Hu Hpz) as Hl.
    destruct (grecv_delivers v rs pre tl z d' Hi Est ltac:(split; [exact Hl|split; [exact Hu|exact Hpz]]) H) as (-> & _ & _).
    destruct Hz as [[_ Hh]|[Hz _]]; [|lia]. split; [reflexivity|]. split; [exact Hh|]. lia.
  - intros Hnone. destruct Hz as [[_ Hh]|[Hz Hh]]; [lia|]. split; [exact Hz|]. split; [exact Hh|]. lia.
Qed.

(* ---------- one mpt_stream_dispatch, in any reachable state ---------- *)
Lemma held_pend d : held d = 1 -> pend d <> [].
Proof. unfold held, pend. destruct (dmsg (dq_st d)); [discriminate|discriminate]. Qed.

Theorem gdisp_count v w g z m w' : grel v w g -> gdisp v w = Ok (z, m, w') ->
  (1 <= navail (gr w) -> exists x, m = Some x) /\ (navail (gr w) = 0 -> m = None) /\
  navail (gr w') = navail (gr w) - 1.
Proof.
  intros Hg H. pose proof (stream_of_rel v w g Hg) as Hstream.
  destruct Hg as (_ & _ & (Hi & Est & Hd & _ & Hmsgs) & _).
  destruct (rh_cinv v (g_rs g) Hi Est) as (_ & F & Hc). rewrite Hd in Hc.
  unfold gdisp in H.
  (* the second half: hand over the held message of [d0], look ahead *)
  assert (Hgo : forall rs0 d0, rh_inv v rs0 -> rh_stop rs0 = false -> rh_d rs0 = d0 ->
            sstream v (dq_st d0) (contents (dq_q d0)) -> (exists x, dqueue_message d0 = Some x) ->
            (do '(z2, d2) <- grecv v d0; Ok ((if (0 <? z2)%Z then RETRY else 0%Z), dqueue_message d0, mkgw (gw w) d2 (gwire w))) = Ok (z, m, w') ->
            (exists x, m = Some x) /\ navail (gr w') = zc (unread d0)).
  { intros rs0 d0 Hi0 Es0 Hd0 Hs0 (x & Hx) E.
    destruct (grecv v d0) as [[z2 d2]| |] eqn:Eg; [|discriminate|discriminate]. cbn [bind] in E. inversion E; subst z m w'; clear E.
    split; [exists x; exact Hx|]. cbn [gr].
    destruct (grecv_count v rs0 z2 d2 Hi0 Es0 ltac:(rewrite Hd0; exact Hs0) ltac:(rewrite Hd0; exact Eg)) as [H1 H0].
    rewrite Hd0 in H1, H0. unfold navail.
    destruct (Nat.eq_dec (zc (unread d0)) 0) as [Hz|Hz].
    - destruct (H0 Hz) as (_ & Hh & Hu). lia.
    - destruct (H1 ltac:(lia)) as (_ & Hh & Hu). lia. }
  unfold navail at 1 2 4. unfold held at 1 2 3.
  destruct (dmsg (dq_st (gr w))) as [c|] eqn:Em.
  - (* a message is held *)
    cbn [bind] in H.
    destruct (Hgo (g_rs g) (gr w) Hi Est Hd Hstream
                ltac:(rewrite (dqueue_message_decoded v F (gr w) Hc), Em; eexists; reflexivity) H) as [Hm Hn].
    split; [intros _; exact Hm|]. split; [lia|]. lia.
  - (* receive first *)
    destruct (grecv v (gr w)) as [[zf d0]| |] eqn:Eg; [|discriminate|discriminate]. cbn [bind] in H.
    destruct (grecv_count v (g_rs g) zf d0 Hi Est ltac:(rewrite Hd; exact Hstream) ltac:(rewrite Hd; exact Eg)) as [H1 H0].
    rewrite Hd in H1, H0.
    destruct (Nat.eq_dec (zc (unread (gr w))) 0) as [Hz|Hz].
    + destruct (H0 Hz) as (Hzf & Hh & Hu).
      assert (E : m = None /\ w' = mkgw (gw w) d0 (gwire w)).
      { destruct (zf <? 0)%Z eqn:E1; [inversion H; split; reflexivity|].
        destruct (zf =? 0)%Z eqn:E2; [inversion H; split; reflexivity|]. lia. }
      destruct E as [-> ->]. cbn [gr]. unfold navail. rewrite Hz, Hh, Hu.
      split; [lia|]. split; [reflexivity|reflexivity].
    + destruct (H1 ltac:(lia)) as (-> & Hh & Hu). cbn [Z.ltb Z.eqb Z.compare] in H.
      destruct (grecv_sim v (g_rs g) 1%Z d0 Hi Est ltac:(rewrite Hd; exact Eg)) as (rops & Hi0 & Hd0 & _ & _ & Hns0).
      destruct (Hns0 ltac:(rewrite Hd; exact Hstream)) as [Hst0 Hs0].
      destruct (rh_cinv v _ Hi0 Hst0) as (_ & F0 & Hcc0). rewrite Hd0 in Hcc0.
      destruct (pend_single v F0 d0 Hcc0 (held_pend d0 Hh)) as (x & _ & Hx).
      destruct (Hgo (rh_run v (g_rs g) rops) d0 Hi0 Hst0 Hd0 Hs0 ltac:(exists x; exact Hx) H) as [Hm Hn].
      split; [intros _; exact Hm|]. split; [lia|]. lia.
Qed.

(* ---------- the dispatch loop of a drain round ---------- *)
Lemma navail_bound d : qinv (dq_q d) -> navail d <= S (qlen (dq_q d)).
Proof.
  intros Hq. unfold navail, unread. pose proof (zc_le (skipn (dcurr (dq_st d)) (contents (dq_q d)))) as H.
  rewrite skipn_length, contents_length in H by exact Hq. unfold held. destruct (dmsg (dq_st d)); lia.
Qed.

Theorem gdisp_all_count v : forall fuel w g got w' got', grel v w g -> navail (gr w) <= fuel ->
  gdisp_all fuel v w got = Ok (w', got') ->
  length got' = length got + navail (gr w) /\ navail (gr w') = 0.
Proof.
  induction fuel as [|fuel IH]; intros w g got w' got' Hg Hn H; cbn [gdisp_all] in H.
  - inversion H; subst. split; lia.
  - destruct (gdisp v w) as [[[z m] w1]| |] eqn:E; [|discriminate|discriminate]. cbn [bind] in H.
    destruct (gdisp_count v w g z m w1 Hg E) as (H1 & H0 & Hn1).
    destruct (disp_keeps v w g z m w1 Hg E) as (g1 & Hg1 & _).
    destruct (Nat.eq_dec (navail (gr w)) 0) as [Hz|Hz].
    + rewrite (H0 Hz) in H. inversion H; subst. split; lia.
    + destruct (H1 ltac:(lia)) as (x & ->).
      destruct (IH w1 g1 (got ++ [x]) w' got' Hg1 ltac:(lia) H) as [Hl Hq].
      rewrite app_length in Hl. cbn [length] in Hl. split; [lia|exact Hq].
Qed.

(* ---------- a world in which nothing can move has delivered everything ---------- *)
Lemma writer_flushed_count v ws : wh_inv0 v ws -> edone (eq_st (wh_e ws)) = 0 ->
  zc (wh_sent ws) = length (wh_done ws).
Proof.
  intros [(Hlt & pre & Hfp & [[Hq Hl] Hinv])|(_ & _ & _ & Hs0 & Hd0 & _)] Hd; [|rewrite Hs0, Hd0; reflexivity].
  rewrite <- (zc_frames v _ _ Hfp).
  destruct Hinv as [H0 Hdn Hb Hcn | bs open Hli Hdn Hb]; cbn [shift_st edone escr] in *; rewrite Hd, Nat.add_0_r in Hdn.
  - apply (f_equal (@length _)) in Hb as Hlen. rewrite app_length in Hlen.
    assert (Hc : contents (eq_q (wh_e ws)) = []) by (apply length_zero_iff_nil; lia).
    rewrite Hc, app_nil_r in Hb. rewrite Hb. reflexivity.
  - apply (f_equal (firstn (length (wh_sent ws)))) in Hb.
    rewrite firstn_app_exact in Hb. rewrite Hdn, firstn_app_exact in Hb. rewrite Hb, zc_app.
    pose proof (flat_nozero v bs (li_blocks _ _ _ _ _ Hli)) as Hz. apply zc_nozero in Hz. rewrite Hz. lia.
Qed.

Definition quiet (w : gworld) : Prop :=
  edone (eq_st (gw w)) = 0 /\ gwire w = [] /\ navail (gr w) = 0.

Theorem glue_quiescent_all v w g : grel v w g -> quiet w -> g_del g = wh_done (g_ws g).
Proof.
  intros Hg (Hd & Hw & Hn). pose proof (grel_prefix v w g Hg) as Hpre.
  destruct Hg as (Hws & He & (Hi & Est & Hrd & Hsent & Hm) & _).
  pose proof (writer_flushed_count v (g_ws g) Hws ltac:(rewrite He; exact Hd)) as Hc.
  pose proof (rh_count v (g_rs g) Hi Est) as Hr. rewrite Hrd in Hr.
  unfold navail in Hn. assert (Hu : zc (unread (gr w)) = 0) by lia. assert (Hh : held (gr w) = 0) by lia.
  rewrite Hw, app_nil_r in Hsent. rewrite Hsent, Hr, Hu, Hm, app_length, pend_length, Hh in Hc.
  rewrite Hpre. replace (length (g_del g)) with (length (wh_done (g_ws g))) by lia. apply firstn_all.
Qed.

(* ---------- GDrain ends in a quiet world ---------- *)
Lemma gdisp_all_same v : forall fuel w g got w' got', grel v w g ->
  gdisp_all fuel v w got = Ok (w', got') -> gw w' = gw w /\ gwire w' = gwire w.
Proof.
  induction fuel as [|fuel IH]; intros w g got w' got' Hg H; cbn [gdisp_all] in H.
  - inversion H; subst. split; reflexivity.
  - destruct (gdisp v w) as [[[z m] w1]| |] eqn:E; [|discriminate|discriminate]. cbn [bind] in H.
    destruct (gdisp_sim v w g z m w1 Hg E) as (g1 & Hg1 & _ & Hgw & Hwire & _).
    destruct m as [x|].
    + destruct (IH w1 g1 _ w' got' Hg1 H) as [H1 H2]. split; congruence.
    + inversion H; subst. split; assumption.
Qed.

Definition inflight (w : gworld) : nat := edone (eq_st (gw w)) + length (gwire w).

(* one round of flush / poll / dispatch with a kernel that takes what it is offered *)
Lemma drain_round v w g got : variant_ok v -> grel v w g ->
  forall z1 w1 n1 z2 w2 n2 w3 got3,
  (if edone (eq_st (gw w)) =? 0 then Ok (0%Z, w, 0) else gflush w (Z.of_nat (edone (eq_st (gw w))))) = Ok (z1, w1, n1) ->
  (match gwire w1 with [] => Ok (0%Z, w1, 0) | _ => gpoll w1 (length (gwire w1)) end) = Ok (z2, w2, n2) ->
  gdisp_all (S (qlen (dq_q (gr w2)))) v w2 got = Ok (w3, got3) ->
  edone (eq_st (gw w3)) = 0 /\ navail (gr w3) = 0 /\
  (inflight w = 0 -> n1 = 0 /\ n2 = 0 /\ gwire w3 = [] /\ length got3 = length got + navail (gr w)) /\
  (1 <= inflight w -> (1 <= n1 \/ 1 <= n2) /\ inflight w3 <= inflight w - 1).
Proof.
  intros Hv Hg z1 w1 n1 z2 w2 n2 w3 got3 E1 E2 E3.
  pose proof Hg as (Hws & He & _).
  (* flush *)
  assert (K1 : exists g1, grel v w1 g1 /\ edone (eq_st (gw w1)) = 0 /\ length (gwire w1) = inflight w /\
                 n1 = edone (eq_st (gw w)) /\ gr w1 = gr w /\ (edone (eq_st (gw w)) = 0 -> w1 = w)).
  { destruct (Nat.eqb_spec (edone (eq_st (gw w))) 0) as [Hz|Hz].
    - inversion E1; subst. exists g. unfold inflight. rewrite Hz. split; [exact Hg|]. split; [reflexivity|].
      split; [reflexivity|]. split; [reflexivity|]. split; [reflexivity|]. intros _; reflexivity.
    - destruct (flush_keeps v w g _ z1 w1 n1 Hv Hg E1) as (g1 & Hg1 & _).
      destruct (gflush_all v w (g_ws g) (Z.of_nat (edone (eq_st (gw w)))) z1 w1 n1 Hws He (Z.le_refl _) E1) as (Hn & Hd & Hl).
      destruct (gflush_sim v w _ (g_ws g) z1 w1 n1 Hws He E1) as (_ & _ & _ & _ & _ & _ & _ & Hgr & _).
      exists g1. unfold inflight. split; [exact Hg1|]. split; [exact Hd|]. split; [lia|]. split; [exact Hn|].
      split; [exact Hgr|]. intros; lia. }
  destruct K1 as (g1 & Hg1 & Hd1 & Hl1 & Hn1 & Hgr1 & Hsame1).
  (* poll *)
  assert (K2 : exists g2, grel v w2 g2 /\ edone (eq_st (gw w2)) = 0 /\
                 (inflight w = 0 -> n2 = 0 /\ w2 = w1) /\
                 (1 <= inflight w -> 1 <= n2 /\ length (gwire w2) <= inflight w - 1)).
  { destruct (gwire w1) as [|b wire] eqn:Ew.
    - inversion E2; subst. exists g1. cbn [length] in Hl1. split; [exact Hg1|]. split; [exact Hd1|].
      split; [intros _; split; reflexivity|]. intros; lia.
    - destruct (poll_keeps v w1 g1 _ z2 w2 n2 Hg1 E2) as (g2 & Hg2 & _).
      destruct (gpoll_progress v w1 g1 (length (b :: wire)) z2 w2 n2 Hg1 ltac:(cbn [length]; lia) ltac:(rewrite Ew; discriminate) E2) as (Hn2 & Hw2).
      pose proof Hg1 as (_ & _ & (Hi1 & Est1 & Hrd1 & _) & _).
      destruct (rh_cinv v _ Hi1 Est1) as (Hq1 & F1 & Hc1). rewrite Hrd1 in Hq1, Hc1.
      destruct (gpoll_state v w1 _ z2 w2 n2 F1 Hq1 Hc1 E2) as (Hgw2 & _).
      exists g2. split; [exact Hg2|]. split; [rewrite Hgw2; exact Hd1|].
      split; [intros H0; cbn [length] in Hl1; lia|].
      intros _. split; [exact Hn2|]. rewrite Hw2, Ew, skipn_length. lia. }
  destruct K2 as (g2 & Hg2 & Hd2 & H20 & H21).
  (* dispatch *)
  pose proof Hg2 as (_ & _ & (Hi2 & Est2 & Hrd2 & _) & _).
  destruct (rh_cinv v _ Hi2 Est2) as (Hq2 & _). rewrite Hrd2 in Hq2.
  destruct (gdisp_all_count v _ w2 g2 got w3 got3 Hg2 (navail_bound _ Hq2) E3) as [Hlen Hn3].
  destruct (gdisp_all_same v _ w2 g2 got w3 got3 Hg2 E3) as [Hgw3 Hwire3].
  split; [rewrite Hgw3; exact Hd2|]. split; [exact Hn3|]. split.
  - intros H0. unfold inflight in H0. assert (Ew1 : w1 = w) by (apply Hsame1; lia). subst w1.
    destruct (H20 ltac:(unfold inflight; lia)) as [-> ->]. split; [lia|]. split; [reflexivity|].
    split; [rewrite Hwire3; apply length_zero_iff_nil; lia|exact Hlen].
  - intros H1. destruct (H21 H1) as [Hn2 Hl2]. split; [right; exact Hn2|].
    unfold inflight at 1. rewrite Hgw3, Hd2, Hwire3. cbn [Nat.add]. exact Hl2.
Qed.

Theorem gdrain_quiet v : variant_ok v -> forall fuel w g got w' got', grel v w g ->
  (inflight w + 2 <= fuel \/ (navail (gr w) = 0 /\ inflight w + 1 <= fuel)) ->
  gdrain fuel v w got = Ok (w', got') -> quiet w'.
Proof.
  intros Hv. induction fuel as [|fuel IH]; intros w g got w' got' Hg Hf H; [lia|].
  cbn [gdrain] in H.
  destruct (if edone (eq_st (gw w)) =? 0 then Ok (0%Z, w, 0) else gflush w (Z.of_nat (edone (eq_st (gw w))))) as [[[z1 w1] n1]| |] eqn:E1;
    [|discriminate|discriminate]. cbn [bind] in H.
  destruct (match gwire w1 with [] => Ok (0%Z, w1, 0) | _ :: _ => gpoll w1 (length (gwire w1)) end) as [[[z2 w2] n2]| |] eqn:E2;
    [|discriminate|discriminate]. cbn [bind] in H.
  destruct (gdisp_all (S (qlen (dq_q (gr w2)))) v w2 got) as [[w3 got3]| |] eqn:E3; [|discriminate|discriminate]. cbn [bind] in H.
  destruct (drain_round v w g got Hv Hg z1 w1 n1 z2 w2 n2 w3 got3 E1 E2 E3) as (Hd3 & Hn3 & H0 & H1).
  (* the world after the round is reachable too *)
  assert (K3 : exists g3, grel v w3 g3).
  { assert (E : gdrain 1 v w got = Ok (w3, got3)).
    { cbn [gdrain]. rewrite E1. cbn [bind]. rewrite E2. cbn [bind]. rewrite E3. cbn [bind].
      destruct ((n1 =? 0) && (n2 =? 0) && (length got3 =? length got)); reflexivity. }
    destruct (drain_keeps v Hv 1 w g got w3 got3 Hg E) as (_ & _ & g3 & Hg3 & _). exists g3. exact Hg3. }
  destruct K3 as (g3 & Hg3).
  destruct (Nat.eq_dec (inflight w) 0) as [Hz|Hz].
  - destruct (H0 Hz) as (-> & -> & Hw3 & Hlen). cbn [Nat.eqb andb] in H.
    destruct (Nat.eqb_spec (length got3) (length got)) as [Heq|Hne].
    + inversion H; subst. split; [exact Hd3|]. split; [exact Hw3|exact Hn3].
    + apply (IH w3 g3 got3 w' got' Hg3); [|exact H]. right. split; [exact Hn3|].
      unfold inflight. rewrite Hd3, Hw3. cbn [length Nat.add].
      destruct Hf as [Hf|[Hna _]]; [lia|lia].
  - destruct (H1 ltac:(lia)) as [Hmove Hless].
    assert (Hb : (n1 =? 0) && (n2 =? 0) && (length got3 =? length got) = false).
    { destruct Hmove as [Hm|Hm]; [destruct n1; [lia|reflexivity]|destruct n2; [lia|]; rewrite andb_false_r; reflexivity]. }
    rewrite Hb in H. apply (IH w3 g3 got3 w' got' Hg3); [|exact H]. right. split; [exact Hn3|].
    destruct Hf as [Hf|[_ Hf]]; lia.
Qed.

(* GDrain hands over every message the writer has completed *)
Theorem gdrain_delivers_all v w g w' got : variant_ok v -> grel v w g ->
  gdrain (gdrain_fuel w) v w [] = Ok (w', got) ->
  quiet w' /\ g_del g ++ got = wh_done (g_ws g).
Proof.
  intros Hv Hg H.
  assert (Hq : quiet w').
  { apply (gdrain_quiet v Hv (gdrain_fuel w) w g [] w' got Hg); [|exact H]. left.
    destruct Hg as (Hws & He & _). pose proof (wh_inv0_einv v _ Hws) as [_ Hl]. rewrite He in Hl.
    unfold gdrain_fuel, inflight. lia. }
  split; [exact Hq|].
  destruct (drain_keeps v Hv (gdrain_fuel w) w g [] w' got Hg H) as (more & Hm & g' & Hg' & Hd' & Hdn' & _).
  cbn [app] in Hm. subst more. rewrite <- Hd', <- Hdn'. apply (glue_quiescent_all v w' g' Hg' Hq).
Qed.

(* ... from fresh streams, after ANY history of pushes, flushes, polls and dispatches with ANY
   kernel behaviour: a final drain delivers exactly the completed messages *)
Theorem glue_history_drain_complete v wcap woff rcap roff ops w' sp' del' : variant_ok v ->
  gfold v (gworld_init wcap woff rcap roff) (mkgsp [] []) [] (ops ++ [GDrain]) = Ok (w', sp', del') ->
  del' = sp_done sp' /\ quiet w'.
Proof.
  intros Hv H.
  assert (Hsplit : forall ops1 w0 sp0 del0 o, gfold v w0 sp0 del0 (ops1 ++ [o]) = Ok (w', sp', del') ->
            exists w1 sp1 del1 z got, gfold v w0 sp0 del0 ops1 = Ok (w1, sp1, del1) /\ gstep v w1 o = Ok (w', z, got) /\
              sp' = gspec_step sp1 o z /\ del' = del1 ++ got).
  { induction ops1 as [|o1 ops1 IH]; intros w0 sp0 del0 o E; cbn [app gfold] in E.
    - destruct (gstep v w0 o) as [[[w1 z] got]| |] eqn:Es; [|discriminate|discriminate]. cbn [bind] in E. inversion E; subst.
      exists w0, sp0, del0, z, got. repeat split; reflexivity || assumption.
    - destruct (gstep v w0 o1) as [[[w1 z] got]| |] eqn:Es; [|discriminate|discriminate]. cbn [bind] in E.
      destruct (IH _ _ _ _ E) as (w2 & sp2 & del2 & z2 & got2 & E2 & Es2 & Hsp & Hdel).
      exists w2, sp2, del2, z2, got2. cbn [gfold]. rewrite Es. cbn [bind]. repeat split; assumption. }
  destruct (Hsplit ops _ _ _ _ H) as (w1 & sp1 & del1 & z & got & E1 & Es & -> & ->).
  destruct (glue_history_safe v wcap woff rcap roff ops w1 sp1 del1 Hv E1) as (_ & g1 & Hg1 & Hd1 & Hdn1 & _).
  cbn [gstep] in Es.
  destruct (gdrain (gdrain_fuel w1) v w1 []) as [[w2 got2]| |] eqn:Ed; [|discriminate|discriminate]. cbn [bind] in Es.
  inversion Es; subst w2 z got2. cbn [gspec_step].
  destruct (gdrain_delivers_all v w1 g1 w' got Hv Hg1 Ed) as [Hq Hall].
  split; [rewrite <- Hd1, <- Hdn1; exact Hall|exact Hq].
Qed.
