(* Cobs/GlueDrain.v — the dispatcher hands over EXACTLY the messages whose frames have arrived,
   in ANY reachable state of the stream glue (no assumption on where in a frame the reader is,
   on what is held, on the shape of the ring), and a world in which nothing can move any more
   has delivered every message the writer completed:

     navail d            = number of delimiters among the unread bytes of the input ring
                           (+ 1 when a decoded message is held)
     gdisp_count         : one mpt_stream_dispatch hands over a message iff navail >= 1, and
                           navail decreases by exactly one
     gdisp_all_count     : the dispatch loop of a drain round hands over exactly navail messages
     glue_quiescent_all  : nothing finished in the output ring, nothing in flight, navail = 0
                           ==> handed to the handler = completed by the writer
     glue_round_progress : otherwise a round of flush / poll / dispatch moves a byte or hands
                           over a message
     gdrain_delivers_all : GDrain (kernel that takes what it is offered) ends in such a world. *)
From MptV Require Import Base.Mem Base.Tactics C13.QueueModel C13.QueueSpec C13.QueueProofs C13.QueueAlign C13.IoQueueProofs
  Cobs.CobsModel Cobs.DecModel Cobs.EncProofs Cobs.EncTheorems Cobs.DecProofs Cobs.DecCall Cobs.DecHistory
  Cobs.DecLive Cobs.DecStream Cobs.QueueCodec Cobs.StreamSpec Cobs.StreamRun Cobs.GlueRun
  Cobs.WriterHistory Cobs.ReaderHistory Cobs.ReaderStream Cobs.ReaderLive Cobs.GlueProofs Cobs.GlueLive.
Local Open Scope nat_scope.

(* ---------- counting delimiters ---------- *)
Definition zc (l : list byte) : nat := length (filter bz l).

Lemma zc_app a b : zc (a ++ b) = zc a + zc b.
Proof. unfold zc. rewrite filter_app, app_length. reflexivity. Qed.

Lemma zc_cons x l : zc (x :: l) = (if bz x then 1 else 0) + zc l.
Proof. unfold zc. cbn [filter]. destruct (bz x); reflexivity. Qed.

Lemma zc_nozero l : nozero l = true <-> zc l = 0.
Proof.
  induction l as [|x l IH]; [split; reflexivity|].
  rewrite nozero_cons, zc_cons. destruct (bz x); cbn [negb andb]; [split; [discriminate|lia]|].
  rewrite IH. cbn [Nat.add]. reflexivity.
Qed.

Lemma zc_le l : zc l <= length l.
Proof. induction l as [|x l IH]; [reflexivity|]. rewrite zc_cons. cbn [length]. destruct (bz x); lia. Qed.

Lemma zc_frames v ms C : frames_of v ms C -> zc C = length ms.
Proof.
  induction 1 as [|m ms body rest Hs Hz Hf IH]; [reflexivity|].
  rewrite !zc_app, IH. apply zc_nozero in Hz. rewrite Hz. reflexivity.
Qed.

(* the first delimiter *)
Lemma zc_split l : 1 <= zc l -> exists pre tl, l = pre ++ 0%N :: tl /\ nozero pre = true.
Proof.
  induction l as [|x l IH]; intros H; [cbn in H; lia|].
  rewrite zc_cons in H. destruct (bz x) eqn:Hx.
  - apply N.eqb_eq in Hx. subst x. exists [], l. split; reflexivity.
  - destruct (IH ltac:(cbn [Nat.add] in H; exact H)) as (pre & tl & -> & Hz).
    exists (x :: pre), tl. split; [reflexivity|]. rewrite nozero_cons, Hx, Hz. reflexivity.
Qed.

(* the consumed part of the current frame holds no delimiter *)
Lemma hon_nozero v F msg code pos : hon v F msg code pos -> nozero F = true.
Proof.
  intros (bs & d & Hbs & Hd & -> & _ & _ & Hc & _).
  rewrite nozero_app, (flat_nozero v bs Hbs), nozero_cons, (bz_nb code Hc), Hd. reflexivity.
Qed.

Lemma cinv_nozero v F st buf : cinv v F st buf -> nozero F = true.
Proof.
  intros (_ & _ & Hm). destruct (dmsg st); [destruct Hm as (_ & _ & ->); reflexivity|].
  destruct (dcode st =? 0); [destruct Hm as (_ & ->); reflexivity|].
  destruct Hm as [(_ & Hh)|(base & j & next & rest' & _ & _ & _ & _ & _ & Hh)]; apply (hon_nozero v _ _ _ _ Hh).
Qed.

Definition unread (d : dqueue) : list byte := skipn (dcurr (dq_st d)) (contents (dq_q d)).
Definition held (d : dqueue) : nat := match dmsg (dq_st d) with Some _ => 1 | None => 0 end.
Definition navail (d : dqueue) : nat := zc (unread d) + held d.

(* accepted delimiters = decoded messages + delimiters still unread *)
Lemma rh_count v rs : rh_inv v rs -> rh_stop rs = false ->
  zc (rh_in rs) = length (rh_msgs rs) + zc (unread (rh_d rs)).
Proof.
  intros [Hh _] Est. unfold flat_of in Hh. rewrite Est in Hh.
  destruct Hh as (C & F & Hf & HI & Hc). cbn [hs_msgs hs_st hs_buf] in *.
  rewrite HI, !zc_app, (zc_frames v _ _ Hf). pose proof (cinv_nozero v F _ _ Hc) as Hz. apply zc_nozero in Hz.
  rewrite Hz. reflexivity.
Qed.

Lemma pend_length d : length (pend d) = held d.
Proof. unfold pend, held. destruct (dmsg (dq_st d)); reflexivity. Qed.

(* a prefix of a well-formed stream that holds a delimiter continues a complete frame *)
Lemma wfs_wfd v : forall pre tl code pos, nozero pre = true ->
  wfs v (pre ++ 0%N :: tl) code pos = true -> wfd v (pre ++ 0%N :: tl) code pos = true.
Proof.
  induction pre as [|b pre IH]; intros tl code pos Hz Hw.
  - cbn [app] in *. rewrite wfs_zero in Hw. apply andb_prop in Hw. cbn [wfd bz N.eqb]. apply Hw.
  - cbn [app] in *. rewrite nozero_cons in Hz. apply andb_prop in Hz. destruct Hz as [Hb Hz].
    apply Bool.negb_true_iff in Hb. rewrite (wfs_nz v b _ code pos Hb) in Hw. cbn [wfd]. rewrite Hb.
    destruct (pos <? len_data v code); apply IH; assumption.
Qed.

Lemma sstream_slive v st buf pre tl : sstream v st buf -> skipn (dcurr st) buf = pre ++ 0%N :: tl -> nozero pre = true ->
  slive v st buf.
Proof.
  intros [Hw Hg] Hu Hz. unfold slive. rewrite Hu in *.
  destruct (dcode st =? 0) eqn:Ec.
  - destruct pre as [|c pre]; cbn [app wfs0 wfd0] in *; [cbn [bz N.eqb negb andb] in Hw; discriminate|].
    apply andb_prop in Hw. destruct Hw as [Hc Hw]. rewrite Hc. cbn [andb].
    rewrite nozero_cons in Hz. apply andb_prop in Hz. apply (wfs_wfd v pre tl _ _ (proj2 Hz) Hw).
  - split; [apply (wfs_wfd v pre tl _ _ Hz Hw)|]. apply Nat.eqb_neq in Ec. intros Hp. apply (Hg Ec Hp).
Qed.

(* ---------- one streamRecv, by the number of delimiters among the unread bytes ---------- *)
Lemma grecv_count v rs z d' : rh_inv v rs -> rh_stop rs = false ->
  sstream v (dq_st (rh_d rs)) (contents (dq_q (rh_d rs))) ->
  grecv v (rh_d rs) = Ok (z, d') ->
  (1 <= zc (unread (rh_d rs)) -> z = 1%Z /\ held d' = 1 /\ zc (unread d') = zc (unread (rh_d rs)) - 1) /\
  (zc (unread (rh_d rs)) = 0 -> (z <= 0)%Z /\ held d' = 0 /\ zc (unread d') = 0).
Proof.
  intros Hi Est Hss H.
  destruct (grecv_sim v rs z d' Hi Est H) as (rops & Hi' & Hd' & Hin' & Hcase & Hns).
  destruct (Hns Hss) as [Est' _].
  pose proof (rh_count v rs Hi Est) as Hc0. pose proof (rh_count v _ Hi' Est') as Hc1.
  rewrite Hin', Hd' in Hc1.
  destruct Hcase as [Hs|[_ Hcase]]; [congruence|].
  assert (Hlen : length (rh_msgs (rh_run v rs rops)) = length (rh_msgs rs) + held d' /\
                 ((0 < z)%Z /\ held d' = 1 \/ (z <= 0)%Z /\ held d' = 0)).
  { unfold pend, held in *. destruct (dmsg (dq_st d')) as [c|].
    - destruct Hcase as [(Hz & Hp & Hm)|(Hz & Hp & Hm)]; [|discriminate]. rewrite Hm, app_length. cbn [length].
      split; [reflexivity|]. left. split; [exact Hz|reflexivity].
    - destruct Hcase as [(Hz & Hp & Hm)|(Hz & Hp & Hm)]; [contradiction|]. rewrite Hm.
      split; [lia|]. right. split; [exact Hz|reflexivity]. }
  destruct Hlen as [Hlen Hz].
  split.
  - intros Hone. destruct (zc_split _ Hone) as (pre & tl & Hu & Hpz).
    pose proof (sstream_slive v _ _ pre tl Hss Hu Hpz) as Hl.
    destruct (grecv_delivers v rs pre tl z d' Hi Est ltac:(split; [exact Hl|split; [exact Hu|exact Hpz]]) H) as (-> & _ & _).
    destruct Hz as [[_ Hh]|[Hz _]]; [|lia]. split; [reflexivity|]. split; [exact Hh|]. lia.
  - intros Hnone. destruct Hz as [[_ Hh]|[Hz Hh]]; [lia|]. split; [exact Hz|]. split; [exact Hh|]. lia.
Qed.
