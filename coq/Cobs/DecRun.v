(* Cobs/DecRun.v — decoder histories on model and specification level (drivers of C03). *)
From MptV Require Import Base.Mem Cobs.CobsModel Cobs.DecModel.
Local Open Scope nat_scope.

Inductive dop := DVis (n : nat) | DDec | DPeek | DReset | DSize (n : nat).

Inductive dobs :=
| ODec (r : dres) (st : dstate) (img : list byte)
| ONum (n : nat)
| OSpec (frames : list (option (list byte)))   (* specification: reference decodings of all frames *)
| ONone.

(* world: the full layout (slack ++ stream) with its fragment lengths, and how much is visible *)
Record dworld := mkw { wbuf : list byte; wfrags : list nat; wvis : nat; wst : dstate }.

(* fragments truncated to the visible prefix; fragments that start at or after it are not passed *)
Fixpoint vis_frags (frags : list nat) (vis : nat) (first : bool) : list nat :=
  match frags with
  | [] => []
  | f :: rest =>
    if first || (0 <? vis) then Nat.min f vis :: vis_frags rest (vis - f) false else []
  end.

Definition dstep (v : variant) (w : dworld) (o : dop) : dworld * dobs :=
  match o with
  | DVis n => (mkw (wbuf w) (wfrags w) (Nat.min n (length (wbuf w))) (wst w), ONone)
  | DDec | DPeek =>
    let peek := match o with DPeek => true | _ => false end in
    let vb := firstn (wvis w) (wbuf w) in
    let '(r, st', vb') := dec_call v (wst w) vb (vis_frags (wfrags w) (wvis w) true) peek in
    (mkw (vb' ++ skipn (wvis w) (wbuf w)) (wfrags w) (wvis w) st', ODec r st' vb')
  | DReset => (mkw (wbuf w) (wfrags w) (wvis w)
                   (mkd 0 0 (dcurr (wst w)) (dpos (wst w)) (dlen (wst w)) (dmsg (wst w))), ONone)
  | DSize n => (w, ONum (max_dec v n + dlen (wst w)))
  end.

Fixpoint drun (v : variant) (w : dworld) (ops : list dop) : list dobs :=
  match ops with
  | [] => []
  | o :: ops => let '(w', ob) := dstep v w o in ob :: drun v w' ops
  end.

(* specification level: the reference decodings of all frames of the stream, in order
   (None = that frame is malformed).  The messages a decoder delivers must be a subsequence of
   the well-formed ones, in order: nothing invented, nothing reordered, nothing duplicated.
   Not delivering is allowed here (progress is C02's subject). *)
Definition frame_msgs (v : variant) (stream : list byte) : list (option (list byte)) :=
  map (sdec v) (fst (split_frames [] stream)).

Fixpoint dsrun (v : variant) (stream : list byte) (ops : list dop) : list dobs :=
  match ops with
  | [] => []
  | (DDec | DPeek) :: ops => OSpec (frame_msgs v stream) :: dsrun v stream ops
  | _ :: ops => ONone :: dsrun v stream ops
  end.
