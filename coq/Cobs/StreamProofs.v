(* Cobs/StreamProofs.v — C02 at the flat (byte stream) level: the wire of a message sequence
   splits uniquely at its delimiters into the frames, and the decoder delivers each of them. *)
From MptV Require Import Base.Mem Base.Tactics Cobs.CobsModel Cobs.DecModel Cobs.EncProofs
  Cobs.EncTheorems Cobs.DecProofs Cobs.DecComplete.
Local Open Scope nat_scope.

Lemma split_frames_nozero body : nozero body = true -> forall cur rest,
  split_frames cur (body ++ 0%N :: rest) =
  let '(fs, r) := split_frames [] rest in ((cur ++ body) :: fs, r).
Proof.
  induction body as [|b body IH]; intros Hz cur rest.
  - cbn [app split_frames bz N.eqb]. rewrite app_nil_r. reflexivity.
  - rewrite nozero_cons in Hz. apply andb_prop in Hz. destruct Hz as [Hb Hz].
    cbn [app split_frames]. destruct (bz b); [discriminate|].
    rewrite IH by assumption. rewrite <- app_assoc. reflexivity.
Qed.

(* the wire of a message sequence: its delimiters cut it into exactly the frame bodies, each
   of which the reference decoder maps to its message *)
Inductive bodies_of (v : variant) : list (list byte) -> list (list byte) -> Prop :=
| BO_nil : bodies_of v [] []
| BO_cons m ms b bs : sdec v b = Some m -> nozero b = true -> bodies_of v ms bs ->
    bodies_of v (m :: ms) (b :: bs).

Theorem wire_splits v ms wire : frames_of v ms wire ->
  exists bodies, split_frames [] wire = (bodies, []) /\ bodies_of v ms bodies.
Proof.
  induction 1 as [|m ms body rest Hs Hz Hf IH].
  - exists []. split; [reflexivity|constructor].
  - destruct IH as (bs & Hsp & Hb). exists (body :: bs). split.
    + cbn [app]. rewrite split_frames_nozero by assumption. rewrite Hsp. reflexivity.
    + constructor; assumption.
Qed.

(* every frame body of such a wire is delivered by the decoder loop as its message, given
   a gap of the frame length plus one (for COBS and COBS/R: one byte) *)
Theorem bodies_delivered v ms bodies : bodies_of v ms bodies ->
  Forall2 (fun m body => forall c0 rest tl proc cons,
             body = c0 :: rest -> length body + 1 <= proc ->
             delivers v (dec_loop v false (rest ++ 0%N :: tl) (bn c0) 0 proc [] cons) m) ms bodies.
Proof.
  induction 1 as [|m ms b bs Hs Hz Hb IH]; constructor; [|assumption].
  intros c0 rest tl proc cons Hbody Hp. apply (dec_complete_sdec v b m); assumption.
Qed.

(* STREAM INTEGRITY (flat level): messages encoded one after the other — each handed over in
   any pieces with any capacity schedule — give a wire that splits into one frame per message,
   in order, and each frame is delivered as exactly its message *)
Theorem stream_integrity v : variant_ok v -> forall msgs st0 cap0,
  idle_state st0 [] ->
  let r := run_messages v st0 [] cap0 msgs in
  rdone r = true ->
  exists bodies, split_frames [] (rbuf r) = (bodies, []) /\
    bodies_of v (map fst msgs) bodies /\
    Forall2 (fun m body => forall c0 rest tl proc cons,
               body = c0 :: rest -> length body + 1 <= proc ->
               delivers v (dec_loop v false (rest ++ 0%N :: tl) (bn c0) 0 proc [] cons) m)
            (map fst msgs) bodies.
Proof.
  intros Hv msgs st0 cap0 Hi r Hd.
  destruct (enc_sequence v Hv msgs [] st0 cap0 Hi ltac:(cbn; lia) Hd) as (wire & Hw & Hf).
  fold r in Hw. cbn [app] in Hw.
  destruct (wire_splits v _ wire Hf) as (bodies & Hsp & Hb).
  exists bodies. rewrite Hw. split; [assumption|]. split; [assumption|].
  apply bodies_delivered. assumption.
Qed.
