(* Cobs/EncShift.v — the encoders are invariant under a prefix of finished bytes: a call on
   a window that starts behind [p] (with the finished size counted from the window start) is
   the same as a call on the whole stream  p ++ window  with the window size enlarged by |p|.
   This is what lets a ring window be read as a call on the flat byte stream. *)
From MptV Require Import Base.Mem Base.Tactics Cobs.CobsModel.
Local Open Scope nat_scope.

Definition shift_st (st : estate) (n : nat) : estate := mke (ectx st) (n + edone st) (escr st).

Lemma enc_loop_prefix_n v p : forall n src fin open code left, length src <= n ->
  enc_loop v (p ++ fin) open code left src =
  let '(f, o, c, l, r) := enc_loop v fin open code left src in (p ++ f, o, c, l, r).
Proof.
  induction n as [|n IH]; intros src fin open code left Hn.
  { destruct src; [reflexivity|cbn in Hn; lia]. }
  destruct src as [|b rest]; [reflexivity|]. cbn [length] in Hn.
  cbn [enc_loop]. destruct (bz b).
  - destruct rest as [|b2 rest2].
    + rewrite <- app_assoc. reflexivity.
    + cbn [length] in Hn. destruct (zpe v && (1 <? code) && (code <? 32) && bz b2).
      * rewrite <- app_assoc. destruct (left - 1 =? 0); [reflexivity|].
        apply IH. lia.
      * rewrite <- app_assoc. destruct (left - 1 =? 0); [reflexivity|].
        apply IH. cbn [length]. lia.
  - destruct (S code =? maxlen v).
    + destruct (left - 1 =? 0); [reflexivity|].
      rewrite <- app_assoc. destruct (left - 2 =? 0); [reflexivity|].
      apply IH. lia.
    + destruct (left - 1 =? 0); [reflexivity|]. apply IH. lia.
Qed.

Lemma enc_loop_prefix v p src fin open code left :
  enc_loop v (p ++ fin) open code left src =
  let '(f, o, c, l, r) := enc_loop v fin open code left src in (p ++ f, o, c, l, r).
Proof. apply (enc_loop_prefix_n v p (length src)). apply le_n. Qed.

(* space accounting of the byte loop: window bytes are conserved *)
Lemma enc_loop_acct v : forall n src fin open code left, length src <= n ->
  code = S (length open) -> 1 <= left ->
  let '(f, o, c, l, r) := enc_loop v fin open code left src in
  length f + c + l = length fin + code + left /\ c = S (length o).
Proof.
  induction n as [|n IH]; intros src fin open code left Hn Hc Hl.
  { destruct src; [cbn; lia|cbn in Hn; lia]. }
  destruct src as [|b rest]; [cbn; lia|]. cbn [length] in Hn.
  cbn [enc_loop]. destruct (bz b).
  - destruct rest as [|b2 rest2].
    + rewrite app_length. cbn [length]. lia.
    + cbn [length] in Hn. destruct (zpe v && (1 <? code) && (code <? 32) && bz b2).
      * destruct (Nat.eqb_spec (left - 1) 0).
        -- rewrite app_length. cbn [length]. lia.
        -- specialize (IH rest2 (fin ++ nb (code + maxlen v) :: open) [] 1 (left - 1) ltac:(lia) eq_refl ltac:(lia)).
           destruct (enc_loop v (fin ++ nb (code + maxlen v) :: open) [] 1 (left - 1) rest2) as [[[[f o] c] l] r].
           rewrite app_length in IH. cbn [length] in IH. lia.
      * destruct (Nat.eqb_spec (left - 1) 0).
        -- rewrite app_length. cbn [length]. lia.
        -- specialize (IH (b2 :: rest2) (fin ++ nb code :: open) [] 1 (left - 1) ltac:(cbn [length]; lia) eq_refl ltac:(lia)).
           destruct (enc_loop v (fin ++ nb code :: open) [] 1 (left - 1) (b2 :: rest2)) as [[[[f o] c] l] r].
           rewrite app_length in IH. cbn [length] in IH. lia.
  - destruct (S code =? maxlen v).
    + destruct (Nat.eqb_spec (left - 1) 0); [lia|].
      destruct (Nat.eqb_spec (left - 2) 0).
      * rewrite app_length. cbn [length]. rewrite app_length. cbn [length]. lia.
      * specialize (IH rest (fin ++ nb (S code) :: (open ++ [b])) [] 1 (left - 2) ltac:(lia) eq_refl ltac:(lia)).
        destruct (enc_loop v (fin ++ nb (S code) :: (open ++ [b])) [] 1 (left - 2) rest) as [[[[f o] c] l] r].
        rewrite app_length in IH. cbn [length] in IH. rewrite app_length in IH. cbn [length] in IH. lia.
    + destruct (Nat.eqb_spec (left - 1) 0).
      * rewrite app_length. cbn [length]. lia.
      * specialize (IH rest fin (open ++ [b]) (S code) (left - 1) ltac:(lia) ltac:(rewrite app_length; cbn [length]; lia) ltac:(lia)).
        destruct (enc_loop v fin (open ++ [b]) (S code) (left - 1) rest) as [[[[f o] c] l] r]. lia.
Qed.

Lemma fin_of_shift st p pre : fin_of (shift_st st (length p)) (p ++ pre) = p ++ fin_of st pre.
Proof.
  unfold fin_of, shift_st. cbn [edone]. rewrite firstn_app.
  replace (length p + edone st - length p) with (edone st) by lia.
  rewrite firstn_all2 by lia. reflexivity.
Qed.

Lemma open_of_shift st p pre : open_of (shift_st st (length p)) (p ++ pre) = open_of st pre.
Proof.
  unfold open_of, shift_st. cbn [edone]. rewrite skipn_app.
  rewrite skipn_all2 by lia. cbn [app]. f_equal. lia.
Qed.

(* one call, shifted *)
Lemma enc_regular_shift v st p pre wlen arg : length pre = edone st + escr st ->
  enc_regular v (shift_st st (length p)) (p ++ pre) (length p + wlen) arg =
  let '(r, st', buf') := enc_regular v st pre wlen arg in (r, shift_st st' (length p), p ++ buf').
Proof.
  intros Hpre. unfold enc_regular. rewrite fin_of_shift, open_of_shift.
  cbn [shift_st edone escr ectx].
  replace (length p + wlen <? length p + edone st) with (wlen <? edone st)
    by (destruct (Nat.ltb_spec wlen (edone st)); destruct (Nat.ltb_spec (length p + wlen) (length p + edone st)); try reflexivity; lia).
  replace (length p + wlen - (length p + edone st)) with (wlen - edone st) by lia.
  destruct ((wlen <? edone st) || (wlen - edone st <? escr st)) eqn:Echk; [reflexivity|].
  apply orb_false_elim in Echk. destruct Echk as [E1 E2]. apply Nat.ltb_ge in E1, E2.
  assert (Hfin : length (fin_of st pre) = edone st) by (unfold fin_of; rewrite firstn_length; lia).
  assert (Hop : length (open_of st pre) = escr st - 1) by (unfold open_of; rewrite skipn_length; lia).
  destruct arg as [src|].
  - destruct (length src =? 0); [reflexivity|].
    destruct (if negb (escr st =? 0)
              then if wlen - edone st - escr st =? 0 then None
                   else if (wlen - edone st - escr st <? 2) && (escr st =? maxlen v - 1) then None
                        else Some (open_of st pre, escr st, wlen - edone st - escr st)
              else if wlen - edone st <=? 1 then None else Some ([], 1, wlen - edone st - 1))
      as [[[o0 c0] l0]|] eqn:Es; [|reflexivity].
    assert (Hst : c0 = S (length o0) /\ 1 <= l0 /\ edone st + c0 + l0 = wlen).
    { destruct (Nat.eqb_spec (escr st) 0); cbn [negb] in Es.
      - destruct (Nat.leb_spec (wlen - edone st) 1); [discriminate|]. inversion Es; subst. cbn [length]. lia.
      - destruct (Nat.eqb_spec (wlen - edone st - escr st) 0); [discriminate|].
        destruct ((wlen - edone st - escr st <? 2) && (escr st =? maxlen v - 1)); [discriminate|].
        inversion Es; subst. lia. }
    destruct Hst as (Hc0 & Hl0 & Hsum).
    rewrite enc_loop_prefix.
    pose proof (enc_loop_acct v (length src) src (fin_of st pre) o0 c0 l0 (le_n _) Hc0 Hl0) as Hacct.
    destruct (enc_loop v (fin_of st pre) o0 c0 l0 src) as [[[[f o] c] l] r].
    destruct Hacct as [Hacct _].
    f_equal; [f_equal|rewrite <- app_assoc; reflexivity].
    unfold shift_st. cbn [ectx edone escr]. f_equal; lia.
  - destruct (wlen - edone st <=? escr st); [reflexivity|].
    destruct (escr st =? 0).
    + destruct (wlen - edone st <? 2); [reflexivity|].
      f_equal; [f_equal|rewrite <- app_assoc; reflexivity].
      unfold shift_st. cbn [ectx edone escr]. f_equal; lia.
    + f_equal; [f_equal|rewrite <- app_assoc; reflexivity].
      unfold shift_st. cbn [ectx edone escr]. f_equal; lia.
Qed.

Lemma enc_r_term_shift v st p pre wlen : length pre = edone st + escr st ->
  enc_r_term v (shift_st st (length p)) (p ++ pre) (length p + wlen) =
  let '(r, st', buf') := enc_r_term v st pre wlen in (r, shift_st st' (length p), p ++ buf').
Proof.
  intros Hpre. unfold enc_r_term. rewrite fin_of_shift, open_of_shift.
  cbn [shift_st edone escr ectx].
  replace (length p + wlen <? length p + edone st) with (wlen <? edone st)
    by (destruct (Nat.ltb_spec wlen (edone st)); destruct (Nat.ltb_spec (length p + wlen) (length p + edone st)); try reflexivity; lia).
  destruct (wlen <? edone st); [reflexivity|].
  replace (length p + wlen <? length p + edone st + escr st) with (wlen <? edone st + escr st)
    by (destruct (Nat.ltb_spec wlen (edone st + escr st)); destruct (Nat.ltb_spec (length p + wlen) (length p + edone st + escr st)); try reflexivity; lia).
  destruct (wlen <? edone st + escr st); [reflexivity|].
  replace (length p + wlen - (length p + edone st)) with (wlen - edone st) by lia.
  destruct ((1 <? escr st) && check_inline v (escr st) (last (open_of st pre) 0%N)).
  - f_equal; [f_equal|rewrite <- app_assoc; reflexivity].
    unfold shift_st. cbn [ectx edone escr]. f_equal; lia.
  - destruct (wlen - edone st <=? escr st); [reflexivity|].
    f_equal; [f_equal|rewrite <- app_assoc; reflexivity].
    unfold shift_st. cbn [ectx edone escr]. f_equal; lia.
Qed.

Theorem enc_call_shift v st p pre wlen arg : length pre = edone st + escr st ->
  enc_call v (shift_st st (length p)) (p ++ pre) (length p + wlen) arg =
  let '(r, st', buf') := enc_call v st pre wlen arg in (r, shift_st st' (length p), p ++ buf').
Proof.
  intros Hpre. unfold enc_call. destruct arg as [src|].
  - apply enc_regular_shift. assumption.
  - cbn [shift_st escr]. destruct (inl v && negb (escr st =? 0)).
    + apply enc_r_term_shift. assumption.
    + apply enc_regular_shift. assumption.
Qed.
