(* C01 — Message framing round-trip for every codec.
   Only the property theorems, their non-vacuity examples and Print Assumptions.

   Reading guide.  [enc_call v st buf cap arg] transcribes one call of mpt_encode_cobs /
   _cobs_r / _cobs_zpe / _cobs_zpe_r ([v] = macro values of the variant; [buf] = the bytes the
   output window holds so far, [cap] = the window size granted to this call, [arg] = the
   chunk of message bytes offered, or None to finish the message).  A [script] is any sequence
   of caller actions [Offer inc take] / [Finish inc]: enlarge the window by [inc] (0 allowed),
   then offer the next [take] bytes that are still unconsumed, or try to finish; whatever the
   encoder does not consume is offered again later, errors change nothing.  [sdec v] is the
   reference decoder (block recursion over the published COBS, COBS/R, COBS/ZPE schemes,
   CobsModel.v).  [pre] are bytes of earlier frames still in the window. *)
From MptV Require Import Base.Mem Cobs.CobsModel Cobs.PyModel Cobs.EncProofs Cobs.EncTheorems
  Cobs.EncProgress Cobs.PyProofs Cobs.TextModel Cobs.TextProofs Cobs.ArrayPush Cobs.EncDelete.

(* the four framings are instances of the variant record the theorems quantify over *)
Theorem C01_variants_ok :
  variant_ok v_cobs /\ variant_ok v_cobs_r /\ variant_ok v_zpe /\ variant_ok v_zpe_r.
Proof. exact variants_ok. Qed.

(* ROUND TRIP, all messages x all splits into offers x all capacity schedules: when the finish
   call has succeeded the window is  pre ++ body ++ [0], the reference decoder maps [body] to
   exactly the bytes consumed so far, and [body] contains no zero byte. *)
Theorem C01_enc_roundtrip :
  forall v pre m st0 cap0 script, variant_ok v ->
    idle_state st0 pre -> length pre <= cap0 ->
    let r := run_script v (mkr st0 pre cap0 m false) script in
    rdone r = true -> framed v pre m r.
Proof. exact enc_roundtrip. Qed.

(* ... and when nothing of the message is left, [body] decodes to the whole message *)
Theorem C01_enc_roundtrip_complete :
  forall v pre m st0 cap0 script, variant_ok v ->
    idle_state st0 pre -> length pre <= cap0 ->
    let r := run_script v (mkr st0 pre cap0 m false) script in
    rdone r = true -> rrem r = [] ->
    exists body, rbuf r = pre ++ body ++ [0%N] /\ sdec v body = Some m /\ nozero body = true.
Proof. exact enc_roundtrip_complete. Qed.

(* the hypotheses can always be met: offering everything with ample space and finishing completes *)
Theorem C01_enc_can_complete :
  forall v pre m st0 cap0, variant_ok v -> idle_state st0 pre -> length pre <= cap0 ->
    let r := run_script v (mkr st0 pre cap0 m false) [Offer (2 * length m + 2) (length m); Finish 2] in
    rdone r = true /\ rrem r = [].
Proof. exact enc_can_complete. Qed.

(* SEQUENCE: messages encoded one after the other into the same window leave the concatenation
   of their frames; earlier frames are never disturbed. *)
Theorem C01_enc_sequence :
  forall v, variant_ok v -> forall msgs pre st0 cap0,
    idle_state st0 pre -> length pre <= cap0 ->
    let r := run_messages v st0 pre cap0 msgs in
    rdone r = true ->
    exists wire, rbuf r = pre ++ wire /\ frames_of v (map fst msgs) wire.
Proof. exact enc_sequence. Qed.

(* the bundled Python client's encoder (mpt.py:encode_cobs, transcribed in PyModel.v) *)
Theorem C01_py_roundtrip :
  forall m, exists body,
    py_encode_cobs m = body ++ [0%N] /\ sdec v_cobs body = Some m /\ nozero body = true.
Proof. exact py_roundtrip. Qed.

(* the fifth framing: zero-terminated command text (mpt_encode_string / mpt_decode_command).
   Encoder: any pieces, any capacity schedule; the window ends with the consumed text and the
   delimiter, and the text holds no delimiter byte (chunks containing one are refused). *)
Theorem C01_text_encoder_roundtrip :
  forall pre m st0 cap0 script,
    escr st0 = 0 -> edone st0 = length pre ->
    let r := str_script (mkr st0 pre cap0 m false) script in
    rdone r = true ->
    exists consumed, m = consumed ++ rrem r /\ nozero consumed = true /\
      rbuf r = pre ++ consumed ++ [0%N] /\ text_decode consumed = Some (cmd_header ++ consumed).
Proof. exact str_roundtrip. Qed.

(* Decoder: such a text, with two consumed bytes in front for the message header the decoder
   prepends, is delivered in place as header ++ text, and the read position ends behind the
   delimiter — whatever follows. *)
Theorem C01_text_decoder_delivers :
  forall slack m tl, 2 <= length slack -> nozero m = true ->
    let buf := slack ++ m ++ 0%N :: tl in
    let '(r, st', buf') := cmd_call (mkt (length slack) 0 0 None) buf in
    r = TMsg /\ tmsg st' = Some (2 + length m) /\
    firstn (2 + length m) (skipn (tpos st') buf') = cmd_header ++ m /\
    tcurr st' = length slack + length m + 1.
Proof. exact cmd_delivers. Qed.

(* ---- non-vacuity ---- *)
(* THE LIBRARY'S OWN PUSH LOOP, mpt_array_push on an encode_array ([apush]: buffer allocated on first
   use, enlarged by detach on MissingBuffer, continued after partial consumption).  [arr_ok]: the
   buffer, if any, holds the encoder window.  A data push reports k bytes consumed: exactly those are
   encoded; an error leaves a valid state with nothing of this push consumed. *)
Theorem C01_array_push_data :
  forall v pre c0 st buf cap l, variant_ok v -> l <> [] ->
    enc_inv v pre c0 st buf -> arr_ok st cap ->
    let '(r, st', buf', cap') := apush (enc_call v) st buf cap (Some l) in
    match r with
    | EInt k => k <= length l /\ enc_inv v pre (c0 ++ firstn k l) st' buf' /\ arr_ok st' cap'
    | EErr _ => enc_inv v pre c0 st' buf' /\ arr_ok st' cap'
    | EFault => True
    end.
Proof. exact apush_data. Qed.

Theorem C01_array_push_term :
  forall v pre consumed st buf cap, variant_ok v ->
    enc_inv v pre consumed st buf -> arr_ok st cap ->
    let '(r, st', buf', cap') := apush (enc_call v) st buf cap None in
    match r with
    | EInt _ => exists body, buf' = pre ++ body ++ [0%N] /\ sdec v body = Some consumed /\
                  nozero body = true /\ idle_state st' buf' /\ arr_ok st' cap'
    | EErr _ => enc_inv v pre consumed st' buf' /\ arr_ok st' cap'
    | EFault => True
    end.
Proof. exact apush_term. Qed.

(* TERMINATION of mpt_array_push: every round of its `while (1)` loop consumes at least one byte or
   enlarges the buffer, and an enlarged buffer has room for the encoder -- at most two rounds per
   byte; the model's round budget (4 * len + 64) is never exhausted, for data of any length and
   for the terminating call: the result is never EFault *)
Theorem C01_array_push_terminates :
  forall v pre c0 st buf cap d, variant_ok v -> 3 <= maxlen v ->
    enc_inv v pre c0 st buf -> arr_ok st cap ->
    fst (fst (fst (apush (enc_call v) st buf cap d))) <> EFault.
Proof. exact apush_total. Qed.

(* PROGRESS: a data call that reports success has consumed at least one byte (block limit >= 3, as in
   all four framings) — mpt_array_push's `while (1)` loop continues only after real progress or
   after enlarging the buffer, it cannot spin on a call that returns 0 *)
Theorem C01_encoder_progress :
  forall v st buf cap src, 3 <= maxlen v -> src <> [] ->
    match enc_call v st buf cap (Some src) with
    | (EInt k, _, _) => 1 <= k
    | _ => True
    end.
Proof. exact enc_data_progress. Qed.

(* non-vacuity: a 100-byte message through mpt_array_push on an empty encode_array (the buffer is
   allocated, enlarged on the way) and the termination: the frame decodes to the message *)
Example C01_example_array_push :
  let m := repeat 65%N 70 ++ [0%N] ++ repeat 66%N 29 in
  match apush (enc_call v_cobs) (mke 0 0 0) [] 0 (Some m) with
  | (EInt k, st1, buf1, cap1) =>
    k = 100 /\
    match apush (enc_call v_cobs) st1 buf1 cap1 None with
    | (EInt _, st2, buf2, cap2) => sdec v_cobs (removelast buf2) = Some m /\ last buf2 1%N = 0%N
    | _ => False
    end
  | _ => False
  end.
Proof. vm_compute. auto. Qed.

Example C01_example_split_zpe :
  let r := run_script v_zpe (mkr (mke 0 0 0) [] 0 [65;0;0;66;0]%N false)
             [Offer 3 2; Offer 0 2; Offer 1 5; Offer 4 1; Offer 0 3; Finish 0; Finish 2] in
  rdone r = true /\ rrem r = [] /\ rbuf r = [2;65;1;2;66;1;0]%N /\
  sdec v_zpe (removelast (rbuf r)) = Some [65;0;0;66;0]%N.
Proof. vm_compute. auto. Qed.

(* the same message in one offer: the zero pair is folded into one code byte (different wire
   bytes, same decoded message) *)
Example C01_example_single_zpe :
  let r := run_script v_zpe (mkr (mke 0 0 0) [] 0 [65;0;0;66;0]%N false) [Offer 20 5; Finish 0] in
  rdone r = true /\ rbuf r = [225;65;2;66;1;0]%N /\
  sdec v_zpe (removelast (rbuf r)) = Some [65;0;0;66;0]%N.
Proof. vm_compute. auto. Qed.

Example C01_example_inline_r :
  let r := run_script v_cobs_r (mkr (mke 0 0 0) [] 0 [1;2;200]%N false) [Offer 10 3; Finish 0] in
  rdone r = true /\ rbuf r = [200;1;2;0]%N /\ sdec v_cobs_r [200;1;2]%N = Some [1;2;200]%N.
Proof. vm_compute. auto. Qed.

Example C01_example_idle : idle_state (mke 0 0 0) [].
Proof. split; reflexivity. Qed.


(* THE MESSAGE IN PROGRESS CAN BE TAKEN BACK.  The encoder counts the output bytes of the message in
   progress ([ectx]; [ctx_ok pre st]: exactly the bytes behind the frames [pre] of the completed
   messages).  Every data call keeps the count exact, whatever piece it is given and whatever room it
   has; a termination clears it; and the deletion request (a source of length 1 without data, what
   mpt_stream_reply rolls back with) returns the encoder to the idle state behind exactly the
   completed frames -- closed blocks of the deleted message included. *)
Theorem C01_data_call_counts_message_in_progress :
  forall v pre consumed st buf cap src, variant_ok v ->
    enc_inv v pre consumed st buf -> ctx_ok pre st ->
    match enc_call v st buf cap (Some src) with
    | (EInt _, st', _) => ctx_ok pre st'
    | (EErr _, st', _) => st' = st
    | (EFault, _, _) => False
    end.
Proof. exact enc_data_call_ctx. Qed.

Theorem C01_termination_clears_count :
  forall v pre consumed st buf cap, variant_ok v ->
    enc_inv v pre consumed st buf -> edone st + escr st <= cap ->
    match enc_call v st buf cap None with
    | (EInt _, st', buf') => ectx st' = 0 /\ ctx_ok buf' st'
    | (EErr _, st', _) => st' = st
    | (EFault, _, _) => False
    end.
Proof. exact enc_term_call_ctx. Qed.

Theorem C01_delete_restores_completed_stream :
  forall v pre consumed st buf,
    enc_inv v pre consumed st buf -> ctx_ok pre st -> ectx st <> 0 ->
    enc_delete_current st buf = Some (EInt (length pre), mke 0 (length pre) 0, pre) /\
    enc_inv v pre [] (mke 0 (length pre) 0) pre /\ ctx_ok pre (mke 0 (length pre) 0).
Proof. exact enc_delete_restores. Qed.

(* non-vacuity: two finished frames, a message in progress with a closed and an open block, the deletion *)
Example C01_delete_example :
  let pre := [2; 65; 0; 1; 0]%N in
  let '(_, st1, buf1) := enc_call v_cobs (mke 0 5 0) pre 64 (Some [7; 0; 8; 9]%N) in
  ectx st1 = 5 /\ buf1 = (pre ++ [2; 7; 3; 8; 9])%N /\
  enc_delete_current st1 buf1 = Some (EInt 5, mke 0 5 0, pre).
Proof. exact enc_delete_example. Qed.

Print Assumptions C01_enc_roundtrip.
Print Assumptions C01_enc_roundtrip_complete.
Print Assumptions C01_enc_can_complete.
Print Assumptions C01_enc_sequence.
Print Assumptions C01_py_roundtrip.
Print Assumptions C01_variants_ok.
Print Assumptions C01_text_encoder_roundtrip.
Print Assumptions C01_text_decoder_delivers.
Print Assumptions C01_array_push_data.
Print Assumptions C01_array_push_term.
Print Assumptions C01_encoder_progress.
Print Assumptions C01_array_push_terminates.
Print Assumptions C01_data_call_counts_message_in_progress.
Print Assumptions C01_termination_clears_count.
Print Assumptions C01_delete_restores_completed_stream.
