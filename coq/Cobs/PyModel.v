(* Cobs/PyModel.v — transcription of mpt.py:encode_cobs (bytearray semantics: append,
   item assignment at an index).  No proofs. *)
From MptV Require Import Base.Mem Cobs.CobsModel.
Local Open Scope nat_scope.

(* ret[i] = x on a bytearray; an index outside raises IndexError: modelled as unchanged
   (the theorems show the index is always inside) *)
Definition set_item (ret : list byte) (i : nat) (x : byte) : list byte :=
  if i <? length ret then firstn i ret ++ x :: skipn (S i) ret else ret.

Fixpoint py_loop (ret : list byte) (code : nat) (msg : list byte) : list byte * nat :=
  match msg with
  | [] => (ret, code)
  | b :: rest =>
    if negb (bz b) then
      if 254 <=? code then
        let ret1 := ret ++ [b] in
        let ret2 := set_item ret1 (length ret1 - code - 1) (nb (code + 1)) in
        py_loop (ret2 ++ [nb 1]) 1 rest
      else py_loop (ret ++ [b]) (code + 1) rest
    else
      let ret1 := if negb (code =? 1) then set_item ret (length ret - code) (nb code) else ret in
      py_loop (ret1 ++ [nb 1]) 1 rest
  end.

Definition py_encode_cobs (msg : list byte) : list byte :=
  let '(ret, code) := py_loop [nb 1] 1 msg in
  set_item ret (length ret - code) (nb code) ++ [0%N].
