(* Cobs/EndToEnd.v — C02 composed: what any sequence of decoder calls delivers from any
   prefix of the byte stream a framed output ring produced is a prefix of the messages that
   were sent, in order: nothing duplicated, merged, reordered or invented, for every cutting
   of the stream into feeds and every call schedule. *)
From MptV Require Import Base.Mem Base.Tactics C13.QueueModel Cobs.CobsModel Cobs.DecModel Cobs.EncProofs
  Cobs.EncTheorems Cobs.DecProofs Cobs.DecComplete Cobs.DecCall Cobs.DecHistory Cobs.StreamProofs
  Cobs.QueueCodec Cobs.WriterHistory Cobs.ReaderHistory Cobs.DecLive Cobs.ReaderLive.
Local Open Scope nat_scope.

(* the frames at the front of a stream are found by cutting at the delimiters *)
Lemma frames_split_prefix v ms C : frames_of v ms C -> forall rest,
  exists bodies, bodies_of v ms bodies /\
    split_frames [] (C ++ rest) = let '(fs, r) := split_frames [] rest in (bodies ++ fs, r).
Proof.
  induction 1 as [|m ms body rest0 Hs Hz Hf IH]; intros rest.
  - exists []. split; [constructor|]. cbn [app]. destruct (split_frames [] rest). reflexivity.
  - destruct (IH rest) as (bs & Hb & Hsp). exists (body :: bs). split; [constructor; assumption|].
    replace ((body ++ [0%N] ++ rest0) ++ rest) with (body ++ 0%N :: (rest0 ++ rest))
      by (rewrite <- !app_assoc; reflexivity).
    rewrite split_frames_nozero by assumption. rewrite Hsp.
    destruct (split_frames [] rest) as [fs r]. reflexivity.
Qed.

Lemma bodies_of_prefix v : forall ms bodies, bodies_of v ms bodies ->
  forall ms' more, bodies_of v ms' (bodies ++ more) -> ms = firstn (length ms) ms'.
Proof.
  induction 1 as [|m ms b bs Hs Hz Hb IH]; intros ms' more H'; [reflexivity|].
  cbn [app] in H'. inversion H' as [|m' ms2 b' bs' Hs' Hz' Hb']; subst.
  cbn [length firstn]. rewrite Hs in Hs'. inversion Hs'; subst. f_equal. apply (IH _ _ Hb').
Qed.

Theorem frames_prefix v sent W delivered C rest :
  frames_of v sent W -> frames_of v delivered C -> W = C ++ rest ->
  delivered = firstn (length delivered) sent.
Proof.
  intros HW HC E.
  destruct (wire_splits v sent W HW) as (bodiesW & HspW & HbW).
  destruct (frames_split_prefix v delivered C HC rest) as (bodiesC & HbC & HspC).
  rewrite <- E, HspW in HspC. destruct (split_frames [] rest) as [fs r]. inversion HspC; subst.
  apply (bodies_of_prefix v _ _ HbC _ _ HbW).
Qed.

(* ring-level writer, call-level reader *)
Theorem stream_end_to_end v wbuf woff wops ws : variant_ok v -> woff < length wbuf ->
  wh_run v (wh_init wbuf woff) wops = Some ws -> wh_cur ws = [] -> escr (eq_st (wh_e ws)) = 0 ->
  forall st0 buf0 rops n, cinv v [] st0 buf0 ->
    skipn (dcurr st0) buf0 ++ concat (map fed rops) = firstn n (wh_sent ws ++ contents (eq_q (wh_e ws))) ->
    let rs := hrun v (mkhs st0 buf0 [] false) rops in
    hs_msgs rs = firstn (length (hs_msgs rs)) (wh_done ws).
Proof.
  intros Hv Ho Hrun Hc Hs st0 buf0 rops n Hci Hin rs.
  pose proof (writer_history_stream v wbuf woff wops ws Hv Ho Hrun Hc Hs) as HW.
  destruct (dec_history_delivers v st0 buf0 rops Hci) as (C & rest & HI & HC). fold rs in HC.
  apply (frames_prefix v _ _ _ C (rest ++ skipn n (wh_sent ws ++ contents (eq_q (wh_e ws)))) HW HC).
  rewrite app_assoc, <- HI, Hin. symmetry. apply firstn_skipn.
Qed.

(* ring-level writer, ring-level reader (until the reader's decoder reports an error) *)
Theorem ring_to_ring v wbuf woff wops ws : variant_ok v -> woff < length wbuf ->
  wh_run v (wh_init wbuf woff) wops = Some ws -> wh_cur ws = [] -> escr (eq_st (wh_e ws)) = 0 ->
  forall rbuf roff rops n, roff <= length rbuf ->
    let rs := rh_run v (rh_init rbuf roff) rops in
    rh_in rs = firstn n (wh_sent ws ++ contents (eq_q (wh_e ws))) ->
    rh_msgs rs = firstn (length (rh_msgs rs)) (wh_done ws).
Proof.
  intros Hv Ho Hrun Hc Hs rbuf roff rops n Hro rs Hin.
  pose proof (writer_history_stream v wbuf woff wops ws Hv Ho Hrun Hc Hs) as HW.
  destruct (reader_history_delivers v rbuf roff rops Hro) as (C & rest & HI & HC). fold rs in HI, HC.
  apply (frames_prefix v _ _ _ C (rest ++ skipn n (wh_sent ws ++ contents (eq_q (wh_e ws)))) HW HC).
  rewrite app_assoc, <- HI, Hin. symmetry. apply firstn_skipn.
Qed.

(* LIVENESS, composed: a reader that makes room between messages, given the whole stream of a writer
   history, delivers every message that was sent, in order, and consumes the stream completely *)
Theorem stream_delivers_all v wbuf woff wops ws : variant_ok v -> woff < length wbuf ->
  wh_run v (wh_init wbuf woff) wops = Some ws -> wh_cur ws = [] -> escr (eq_st (wh_e ws)) = 0 ->
  forall s (steps : list (list byte * list nat * list nat)),
    idle_between v s ->
    skipn (dcurr (hs_st s)) (hs_buf s) = wh_sent ws ++ contents (eq_q (wh_e ws)) ->
    length steps = length (wh_done ws) ->
    let s' := fold_left (fun s x => spaced_step v s (fst (fst x)) (snd (fst x)) (snd x)) steps s in
    hs_msgs s' = hs_msgs s ++ wh_done ws /\ skipn (dcurr (hs_st s')) (hs_buf s') = [] /\ idle_between v s'.
Proof.
  intros Hv Ho Hrun Hc Hs s steps Hi Hun Hl.
  pose proof (writer_history_stream v wbuf woff wops ws Hv Ho Hrun Hc Hs) as HW.
  destruct (spaced_reader_delivers v _ _ HW s [] steps Hi ltac:(rewrite app_nil_r; exact Hun) Hl) as (H1 & H2 & H3).
  cbn zeta. split; [exact H2|]. split; [exact H3|exact H1].
Qed.

(* LIVENESS at ring level: the framed input queue itself -- mpt_queue_recv with its recovery path,
   enlarged by mpt_queue_prepare only when a receive produced nothing -- delivers every message
   whose frame is in the ring, in order, and consumes the ring completely.  [s] is ANY reachable
   reader state between messages whose unread bytes are the frames of [ms]. *)
Theorem ring_reader_delivers_all v ms C s n fill : frames_of v ms C ->
  rh_inv v s -> rh_stop s = false -> dcode (dq_st (rh_d s)) = 0 -> rh_unread s = C -> length C + 17 <= n ->
  let s' := rh_rounds v n fill (length ms) s in
  rh_stop s' = false /\ rh_msgs s' = rh_msgs s ++ ms /\ rh_unread s' = [] /\ rh_in s' = rh_in s.
Proof.
  intros Hf Hi Est Hc Hu Hn.
  destruct (ring_rounds_count v ms C Hf s n fill Hi Est Hc Hu Hn) as (Hi' & Est' & Hin' & Hm' & Hc' & Hu').
  cbn zeta. set (s' := rh_rounds v n fill (length ms) s) in *.
  split; [assumption|]. split; [|split; assumption].
  (* what was accepted so far, before and after *)
  destruct Hi as [(C0 & F0 & Hf0 & Hs0) _]. unfold flat_of in Hs0, Hf0. cbn [hs_stop hs_st hs_buf hs_msgs] in Hf0, Hs0.
  rewrite Est in Hs0. destruct Hs0 as [HI0 (_ & _ & Hm0)].
  assert (HF0 : F0 = []).
  { destruct (dmsg (dq_st (rh_d s))); [apply Hm0|]. rewrite Hc in Hm0. cbn [Nat.eqb] in Hm0. apply Hm0. }
  subst F0. cbn [app] in HI0. unfold rh_unread in Hu. rewrite Hu in HI0.
  destruct Hi' as [(C1 & F1 & Hf1 & Hs1) _]. unfold flat_of in Hs1, Hf1. cbn [hs_stop hs_st hs_buf hs_msgs] in Hf1, Hs1.
  rewrite Est' in Hs1. destruct Hs1 as [HI1 (_ & _ & Hm1)].
  assert (HF1 : F1 = []).
  { destruct (dmsg (dq_st (rh_d s'))); [apply Hm1|]. rewrite Hc' in Hm1. cbn [Nat.eqb] in Hm1. apply Hm1. }
  subst F1. unfold rh_unread in Hu'. rewrite Hu' in HI1. cbn [app] in HI1. rewrite app_nil_r in HI1.
  pose proof (frames_of_app v _ _ Hf0 _ _ Hf) as Hall.
  pose proof (frames_prefix v _ _ _ C1 [] Hall Hf1 ltac:(rewrite app_nil_r; congruence)) as Hp.
  rewrite Hp. rewrite Hm', <- app_length. apply firstn_all.
Qed.

(* ... composed with the writer: everything a framed output ring produced for complete messages,
   once in the reader ring, comes out as exactly the messages that were sent *)
Theorem ring_to_ring_all v wbuf woff wops ws : variant_ok v -> woff < length wbuf ->
  wh_run v (wh_init wbuf woff) wops = Some ws -> wh_cur ws = [] -> escr (eq_st (wh_e ws)) = 0 ->
  forall s n fill, rh_inv v s -> rh_stop s = false -> dcode (dq_st (rh_d s)) = 0 ->
    rh_unread s = wh_sent ws ++ contents (eq_q (wh_e ws)) ->
    length (wh_sent ws ++ contents (eq_q (wh_e ws))) + 17 <= n ->
    let s' := rh_rounds v n fill (length (wh_done ws)) s in
    rh_stop s' = false /\ rh_msgs s' = rh_msgs s ++ wh_done ws /\ rh_unread s' = [].
Proof.
  intros Hv Ho Hrun Hc Hs s n fill Hi Est Hcode Hu Hn.
  pose proof (writer_history_stream v wbuf woff wops ws Hv Ho Hrun Hc Hs) as HW.
  destruct (ring_reader_delivers_all v _ _ s n fill HW Hi Est Hcode Hu Hn) as (H1 & H2 & H3 & _).
  cbn zeta. auto.
Qed.
