(* Cobs/QueuePushTheorem.v — mpt_queue_push preserves the stream-level encoder invariant. *)
From MptV Require Import Base.Mem Base.Tactics C13.QueueModel C13.QueueProofs C13.QueueAlign
  Cobs.CobsModel Cobs.EncProofs Cobs.EncShift Cobs.QueueCodec Cobs.QueuePushProofs Cobs.QueuePushOob.
Local Open Scope nat_scope.

Lemma wstate_0 st : wstate st 0 = st.
Proof. destruct st as [a b c]. unfold wstate. cbn [ectx edone escr]. rewrite Nat.sub_0_r. reflexivity. Qed.
Lemma unw_0 st : unw st 0 = st.
Proof. destruct st as [a b c]. reflexivity. Qed.

(* what a push must establish; [arg] = Some src (non-empty) | None *)
Definition push_post (v : variant) (pre consumed sent : list byte) (arg : option (list byte))
           (r : eres) (e' : equeue) : Prop :=
  match arg, r with
  | _, EFault => False
  | Some src, EInt k => k <= length src /\ rinv v pre (consumed ++ firstn k src) sent e'
  | None, EInt _ => einv e' /\
      exists body, sent ++ contents (eq_q e') = pre ++ body ++ [0%N] /\ sdec v body = Some consumed /\
        nozero body = true /\ idle_state (shift_st (eq_st e') (length sent)) (sent ++ contents (eq_q e'))
  | _, EErr _ => rinv v pre consumed sent e'
  end.

(* one window call followed by the final length update *)
Lemma finish_window v q st sent pre consumed P W wbase wlen arg :
  variant_ok v -> qinv q -> contents q = P ++ W -> qlen q = length P + length W ->
  length P <= edone st -> length W = (edone st - length P) + escr st ->
  window_geo q (length P) wbase wlen -> length W <= wlen ->
  enc_inv v pre consumed (shift_st st (length sent)) (sent ++ contents q) ->
  (match arg with Some src => src <> [] | None => True end) ->
  let '(r, stw', m) := win_enc v (wstate st (length P)) (qbuf q) wbase wlen arg in
  exists m', m = Ok m' /\
    let st' := unw stw' (length P) in
    let q' := set_len (set_buf q m') (edone st' + escr st') in
    edone st' + escr st' <= qmax q /\ push_post v pre consumed sent arg r (mkeq q' st') /\
    (is_err r = true -> st' = st /\ m' = qbuf q).
Proof.
  intros Hv Hq Hc Hl HP HW Hgeo Hfit Hinv Hne. pose proof Hq as (Hb & Hlm & Ho).
  destruct arg as [src|].
  - pose proof (win_data v q st sent pre consumed P W wbase wlen src Hv Hq Hc Hl HP HW Hgeo Hfit Hinv) as H.
    destruct (win_enc v (wstate st (length P)) (qbuf q) wbase wlen (Some src)) as [[r stw'] m].
    destruct H as (m' & -> & H). exists m'. split; [reflexivity|]. cbn zeta in *.
    destruct r as [k|e|]; [| |contradiction].
    + destruct H as [Hk Hr]. split; [|split; [split; assumption|discriminate]].
      destruct Hr as [[Hq' Hl'] _]. destruct Hq' as (_ & Hx & _). cbn [eq_q eq_st set_len set_buf qlen qmax] in *. lia.
    + destruct H as [-> ->]. split; [lia|]. cbn [push_post]. split; [|auto].
      split; [split; [|cbn [eq_q eq_st set_len qlen]; reflexivity]|].
      * unfold qinv, set_len, set_buf. cbn [eq_q eq_st qbuf qlen qmax qoff]. lia.
      * cbn [eq_q eq_st].
        replace (set_len (set_buf q (qbuf q)) (edone st + escr st)) with q; [assumption|].
        destruct q as [qb ql qm qo]. unfold set_len, set_buf. cbn [qbuf qlen qmax qoff] in *. f_equal. lia.
  - pose proof (win_term v q st sent pre consumed P W wbase wlen Hv Hq Hc Hl HP HW Hgeo Hfit Hinv) as H.
    destruct (win_enc v (wstate st (length P)) (qbuf q) wbase wlen None) as [[r stw'] m].
    destruct H as (m' & -> & H). exists m'. split; [reflexivity|]. cbn zeta in *.
    destruct r as [k|e|]; [| |contradiction].
    + destruct H as [He Hbody]. split; [|split; [split; assumption|discriminate]].
      destruct He as [Hq' Hl']. destruct Hq' as (_ & Hx & _). cbn [eq_q eq_st set_len set_buf qlen qmax] in *. lia.
    + destruct H as [-> ->]. split; [lia|]. cbn [push_post]. split; [|auto].
      split; [split; [|cbn [eq_q eq_st set_len qlen]; reflexivity]|].
      * unfold qinv, set_len, set_buf. cbn [eq_q eq_st qbuf qlen qmax qoff]. lia.
      * cbn [eq_q eq_st].
        replace (set_len (set_buf q (qbuf q)) (edone st + escr st)) with q; [assumption|].
        destruct q as [qb ql qm qo]. unfold set_len, set_buf. cbn [qbuf qlen qmax qoff] in *. f_equal. lia.
Qed.

Lemma set_len_set_buf_idem q m l1 l2 : set_len (set_buf (set_len q l1) m) l2 = set_len (set_buf q m) l2.
Proof. reflexivity. Qed.

Lemma qbuf_set_len q l : qbuf (set_len q l) = qbuf q.
Proof. reflexivity. Qed.

(* a call on the whole storage of a queue whose data starts at offset 0 *)
Lemma push_whole v q st sent pre consumed arg :
  variant_ok v -> qinv q -> qoff q = 0 -> qlen q = edone st + escr st ->
  enc_inv v pre consumed (shift_st st (length sent)) (sent ++ contents q) ->
  (match arg with Some src => src <> [] | None => True end) ->
  let '(r, st', m) := win_enc v st (qbuf q) 0 (qmax q) arg in
  exists m', m = Ok m' /\ edone st' + escr st' <= qmax q /\
    push_post v pre consumed sent arg r (mkeq (set_len (set_buf q m') (edone st' + escr st')) st') /\
    (is_err r = true -> st' = st /\ m' = qbuf q).
Proof.
  intros Hv Hq H0 Hl Hinv Hne. pose proof Hq as (Hb & Hlm & Ho).
  pose proof (finish_window v q st sent pre consumed [] (contents q) 0 (qmax q) arg Hv Hq eq_refl
                ltac:(cbn [length]; rewrite contents_length by assumption; lia) ltac:(cbn [length]; lia)
                ltac:(cbn [length]; rewrite contents_length by assumption; lia)
                (geo_aligned q Hq H0) ltac:(rewrite contents_length by assumption; lia) Hinv Hne) as H.
  cbn [length] in H. rewrite wstate_0 in H.
  destruct (win_enc v st (qbuf q) 0 (qmax q) arg) as [[r st'] m].
  destruct H as (m' & -> & H). rewrite unw_0 in H. exists m'. split; [reflexivity|]. exact H.
Qed.

Lemma firstn_firstn_skipn {A} (l : list A) k1 k2 :
  firstn k1 l ++ firstn k2 (skipn k1 l) = firstn (k1 + k2) l.
Proof.
  revert l; induction k1 as [|k1 IH]; intros l; [reflexivity|].
  destruct l as [|x l]; [cbn; rewrite firstn_nil; reflexivity|].
  cbn [firstn skipn app Nat.add]. f_equal. apply IH.
Qed.

Definition norm_arg (arg : option (list byte)) : option (list byte) :=
  match arg with Some [] => None | a => a end.

Lemma norm_arg_eq arg :
  (if (match arg with Some d => length d | None => 0 end) =? 0 then None else arg) = norm_arg arg.
Proof. destruct arg as [[|x d]|]; reflexivity. Qed.

Lemma norm_arg_len arg :
  match arg with Some d => length d | None => 0 end = match norm_arg arg with Some d => length d | None => 0 end.
Proof. destruct arg as [[|x d]|]; reflexivity. Qed.

Lemma norm_arg_ne arg : match norm_arg arg with Some src => src <> [] | None => True end.
Proof. destruct arg as [[|x d]|]; cbn; try exact I. discriminate. Qed.

(* [q0]: the queue before the push; capacity is kept, the offset is kept or reset by re-alignment *)
Definition push_ok (v : variant) (pre consumed sent : list byte) (arg : option (list byte)) (q0 : queue)
           (x : res (eres * equeue)) : Prop :=
  match x with
  | Ok (r, e') => push_post v pre consumed sent arg r e' /\ qmax (eq_q e') = qmax q0 /\
                  (qoff (eq_q e') = qoff q0 \/ qoff (eq_q e') = 0)
  | _ => False
  end.

Lemma finish_ok v pre consumed sent arg r q st q0 :
  edone st + escr st <= qmax q ->
  push_post v pre consumed sent arg r (mkeq (set_len q (edone st + escr st)) st) ->
  qmax q = qmax q0 -> (qoff q = qoff q0 \/ qoff q = 0) ->
  push_ok v pre consumed sent arg q0 (push_finish r q st).
Proof.
  intros Hle Hp Hm Ho. unfold push_finish. cbn zeta. destruct (Nat.ltb_spec (qmax q) (edone st + escr st)); [lia|].
  cbn [push_ok eq_q set_len qmax qoff]. auto.
Qed.

(* ---------- the out-of-band first step ---------- *)
Lemma push_oob_ok v q st sent pre consumed a :
  variant_ok v -> qinv q -> qlen q = edone st + escr st ->
  enc_inv v pre consumed (shift_st st (length sent)) (sent ++ contents q) ->
  (match a with Some src => src <> [] | None => True end) ->
  exists r q1 st1, push_oob v q st a = Ok (r, q1, st1, edone st1) /\
    qmax q1 = qmax q /\ qoff q1 = qoff q /\ edone st1 + escr st1 <= qmax q /\
    push_post v pre consumed sent a r (mkeq (set_len q1 (edone st1 + escr st1)) st1) /\
    (is_err r = true -> st1 = st /\ q1 = q).
Proof.
  intros Hv Hq Hl Hinv Hne. pose proof Hq as (Hb & Hlm & Ho). unfold push_oob.
  assert (Hself : rinv v pre consumed sent (mkeq (set_len q (edone st + escr st)) st)).
  { rewrite set_len_self by assumption. split; [split|]; assumption. }
  destruct (Nat.leb_spec 256 (escr st)) as [Hbig|Hsmall].
  { exists (EErr BadArgument), q, st. split; [reflexivity|]. split; [reflexivity|]. split; [reflexivity|].
    split; [lia|]. split; [destruct a; exact Hself|auto]. }
  set (done := edone st) in *.
  rewrite (oob_copy q done (escr st) Hq Hl). cbn [bind].
  set (P := firstn done (contents q)). set (W := skipn done (contents q)).
  assert (HcP : contents q = P ++ W) by (symmetry; apply firstn_skipn).
  assert (HlP : length P = done) by (unfold P; rewrite firstn_length, contents_length by assumption; lia).
  assert (HlW : length W = escr st) by (unfold W; rewrite skipn_length, contents_length by assumption; lia).
  set (mx := Nat.min (qmax q - done) 256).
  pose proof (flat_call_eq v q st sent P W mx a HcP ltac:(rewrite HlP; unfold done; lia)
                ltac:(rewrite HlP, HlW; unfold done; lia)) as Hflat.
  rewrite HlP in Hflat.
  replace (wstate st done) with (rebase st 0) in Hflat
    by (unfold wstate, rebase, done; rewrite Nat.sub_diag; reflexivity).
  destruct (enc_call v (rebase st 0) W mx a) as [[r stw'] buf'].
  replace (rebase stw' (done + edone stw')) with (unw stw' done) by reflexivity.
  replace (done + edone stw') with (edone (unw stw' done)) by reflexivity.
  destruct a as [src|].
  - pose proof (enc_data_call v pre consumed (shift_st st (length sent)) (sent ++ contents q)
                  (length sent + (done + mx)) src Hv Hinv) as Hdc.
    rewrite Hflat in Hdc. destruct r as [k|er|]; [| |contradiction]; cbn [is_err].
    + destruct Hdc as (Hk & Hinv' & Hbound). cbn [shift_st unw edone escr] in Hbound.
      pose proof (enc_inv_length _ _ _ _ _ Hinv') as Hlen.
      rewrite !app_length in Hlen. cbn [shift_st unw edone escr] in Hlen. rewrite HlP in Hlen.
      assert (Hset : edone stw' + escr stw' = length buf') by lia. rewrite Hset.
      destruct (Nat.ltb_spec (qmax q) (done + length buf')); [lia|].
      destruct (oob_writeback q done buf' Hq ltac:(unfold done; lia) ltac:(lia))
        as (q'' & -> & Hq'' & Hl'' & Hm'' & Ho'' & Hc''). cbn [bind].
      exists (EInt k), q'', (unw stw' done). split; [reflexivity|]. split; [assumption|]. split; [assumption|].
      assert (Hlq : qlen q'' = edone (unw stw' done) + escr (unw stw' done)) by (cbn [unw edone escr]; lia).
      split; [cbn [unw edone escr]; lia|]. split; [|discriminate].
      cbn [push_post]. split; [assumption|]. rewrite set_len_self by assumption.
      split; [split; assumption|]. cbn [eq_q eq_st]. rewrite Hc''. exact Hinv'.
    + destruct Hdc as [Hst _]. apply unw_eq_of_shift in Hst.
      exists (EErr er), q, (unw stw' done). rewrite Hst. split; [reflexivity|]. split; [reflexivity|].
      split; [reflexivity|]. split; [fold done; lia|]. split; [exact Hself|auto].
  - pose proof (enc_term_call v pre consumed (shift_st st (length sent)) (sent ++ contents q)
                  (length sent + (done + mx)) Hv Hinv ltac:(cbn [shift_st edone escr]; fold done; lia)) as Htc.
    rewrite Hflat in Htc. destruct r as [k|er|]; [| |contradiction]; cbn [is_err].
    + destruct Htc as (body & Hbody & Hs & Hnz & Hidle & Hbound).
      destruct Hidle as [Hi0 Hi1]. cbn [shift_st unw edone escr] in Hi0, Hi1.
      rewrite !app_length in Hi1, Hbound. rewrite HlP in Hi1, Hbound.
      assert (Hset : edone stw' + escr stw' = length buf') by lia. rewrite Hset.
      destruct (Nat.ltb_spec (qmax q) (done + length buf')); [lia|].
      destruct (oob_writeback q done buf' Hq ltac:(unfold done; lia) ltac:(lia))
        as (q'' & -> & Hq'' & Hl'' & Hm'' & Ho'' & Hc''). cbn [bind].
      exists (EInt k), q'', (unw stw' done). split; [reflexivity|]. split; [assumption|]. split; [assumption|].
      assert (Hlq : qlen q'' = edone (unw stw' done) + escr (unw stw' done)) by (cbn [unw edone escr]; lia).
      split; [cbn [unw edone escr]; lia|]. split; [|discriminate].
      cbn [push_post]. rewrite set_len_self by assumption.
      split; [split; assumption|]. cbn [eq_q eq_st]. exists body. rewrite Hc''. fold P.
      split; [exact Hbody|]. split; [exact Hs|]. split; [exact Hnz|].
      split; cbn [shift_st unw edone escr]; [exact Hi0|]. rewrite !app_length, HlP. lia.
    + destruct Htc as [Hst _]. apply unw_eq_of_shift in Hst.
      exists (EErr er), q, (unw stw' done). rewrite Hst. split; [reflexivity|]. split; [reflexivity|].
      split; [reflexivity|]. split; [fold done; lia|]. split; [exact Hself|auto].
Qed.

(* ---------- what follows the first step in the lower part ---------- *)
Lemma push_tail_ok v q st sent pre consumed a r q1 st1 :
  variant_ok v -> qinv q -> qoff q <> 0 -> qoff q < qmax q -> edone st < qmax q - qoff q ->
  qlen q = edone st + escr st ->
  (match a with Some src => src <> [] | None => True end) ->
  qmax q1 = qmax q -> qoff q1 = qoff q ->
  edone st1 + escr st1 <= qmax q ->
  push_post v pre consumed sent a r (mkeq (set_len q1 (edone st1 + escr st1)) st1) ->
  (is_err r = true -> st1 = st /\ q1 = q) ->
  push_ok v pre consumed sent a q
    (push_tail v (qmax q - qoff q) (qoff q) (match a with Some d => length d | None => 0 end) a
               (r, q1, st1, edone st1)).
Proof.
  intros Hv Hq H0 Hoff Hlow Hl Hne Hm1 Ho1 Hle1 Hp1 Herr1. pose proof Hq as (Hb & Hlm & Ho).
  unfold push_tail. set (low := qmax q - qoff q) in *.
  destruct r as [k|er|]; cbn [is_err].
  - (* first call made progress *)
    destruct (Nat.ltb_spec k (match a with Some d => length d | None => 0 end)) as [Hshort|Hfull].
    + (* incomplete: continue with the rest *)
      destruct a as [src|]; [|cbn in Hshort; lia].
      destruct Hp1 as [Hk1 Hr1]. destruct Hr1 as [[Hq1' Hl1'] Hinv1]. cbn [eq_q eq_st] in *.
      assert (Hne2 : skipn k src <> []).
      { intros E. apply (f_equal (@length _)) in E. rewrite skipn_length in E. cbn in E. lia. }
      set (q1' := set_len q1 (edone st1 + escr st1)) in *.
      assert (Hm1' : qmax q1' = qmax q) by exact Hm1.
      assert (Ho1' : qoff q1' = qoff q) by exact Ho1.
      destruct (Nat.ltb_spec (edone st1) low) as [Hd1|Hd1].
      * (* align and continue on the whole storage *)
        destruct (qalign_spec q1' 0 Hq1') as (q2 & Hal & Hq2 & Hm2 & Hl2 & Ho2 & Hc2).
        rewrite Hal. cbn [bind]. specialize (Ho2 eq_refl).
        rewrite <- Hc2 in Hinv1.
        pose proof (push_whole v q2 st1 sent pre (consumed ++ firstn k src) (Some (skipn k src))
                      Hv Hq2 Ho2 ltac:(rewrite Hl2; exact Hl1') Hinv1 Hne2) as H.
        destruct (win_enc v st1 (qbuf q2) 0 (qmax q2) (Some (skipn k src))) as [[r2 st2] m2].
        destruct H as (m2' & -> & Hle2 & Hp2 & _). cbn [bind].
        destruct r2 as [k2|e2|]; [| |contradiction].
        -- apply (finish_ok v pre consumed sent (Some src) (EInt (k + k2)) (set_buf q2 m2') st2 q); [assumption| |cbn [set_buf qmax]; congruence|right; exact Ho2].
           destruct Hp2 as [Hk2 Hr2]. rewrite skipn_length in Hk2. split; [lia|].
           rewrite <- app_assoc, firstn_firstn_skipn in Hr2. exact Hr2.
        -- apply (finish_ok v pre consumed sent (Some src) (EInt k) (set_buf q2 m2') st2 q); [assumption| |cbn [set_buf qmax]; congruence|right; exact Ho2].
           split; [assumption|]. exact Hp2.
      * (* second push into the upper part *)
        assert (HcP : contents q1' = firstn low (contents q1') ++ skipn low (contents q1')) by (symmetry; apply firstn_skipn).
        assert (Hlen1 : qlen q1' = edone st1 + escr st1) by reflexivity.
        assert (HlP : length (firstn low (contents q1')) = low)
          by (rewrite firstn_length, contents_length by assumption; lia).
        assert (HlW : length (skipn low (contents q1')) = qlen q1' - low)
          by (rewrite skipn_length, contents_length by assumption; lia).
        pose proof (finish_window v q1' st1 sent pre (consumed ++ firstn k src)
                      (firstn low (contents q1')) (skipn low (contents q1'))
                      0 (qoff q) (Some (skipn k src)) Hv Hq1' HcP
                      ltac:(rewrite HlP, HlW; lia) ltac:(rewrite HlP; lia) ltac:(rewrite HlP, HlW; lia)) as H.
        rewrite HlP in H.
        assert (Hgeo1 : window_geo q1' low 0 (qoff q)).
        { pose proof (geo_upper q1' Hq1' ltac:(rewrite Ho1'; lia) ltac:(rewrite Ho1', Hm1'; lia)) as G.
          rewrite Ho1', Hm1' in G. exact G. }
        specialize (H Hgeo1 ltac:(rewrite HlW; lia) Hinv1 Hne2).
        unfold rebase. fold (wstate st1 low).
        change (qbuf q1') with (qbuf q1) in H.
        destruct (win_enc v (wstate st1 low) (qbuf q1) 0 (qoff q) (Some (skipn k src))) as [[r2 stw2] m2].
        destruct H as (m2' & -> & Hle2 & Hp2 & _). cbn [bind].
        replace (mke (ectx stw2) (edone stw2 + low) (escr stw2)) with (unw stw2 low)
          by (unfold unw; f_equal; lia).
        change (set_len (set_buf q1' m2') (edone (unw stw2 low) + escr (unw stw2 low)))
          with (set_len (set_buf q1 m2') (edone (unw stw2 low) + escr (unw stw2 low))) in Hp2.
        rewrite Hm1' in Hle2.
        assert (Hle2' : edone (unw stw2 low) + escr (unw stw2 low) <= qmax (set_buf q1 m2'))
          by (cbn [set_buf qmax]; rewrite Hm1; exact Hle2).
        destruct r2 as [k2|e2|]; [| |contradiction].
        -- apply (finish_ok v pre consumed sent (Some src) (EInt (k + k2)) (set_buf q1 m2') (unw stw2 low) q); [exact Hle2'| |exact Hm1|left; exact Ho1].
           destruct Hp2 as [Hk2 Hr2]. rewrite skipn_length in Hk2. split; [lia|].
           rewrite <- app_assoc, firstn_firstn_skipn in Hr2. exact Hr2.
        -- apply (finish_ok v pre consumed sent (Some src) (EInt k) (set_buf q1 m2') (unw stw2 low) q); [exact Hle2'| |exact Hm1|left; exact Ho1].
           split; [assumption|]. exact Hp2.
    + (* complete *)
      apply (finish_ok v pre consumed sent a (EInt k) q1 st1 q); [rewrite Hm1; assumption|assumption|exact Hm1|left; exact Ho1].
  - (* first call refused: align and retry on the whole storage *)
    destruct (Herr1 eq_refl) as [-> ->].
    cbn [push_post] in Hp1.
    assert (Hp1' : rinv v pre consumed sent (mkeq (set_len q (edone st + escr st)) st))
      by (destruct a; exact Hp1).
    rewrite set_len_self in Hp1' by assumption.
    destruct Hp1' as [[Hq1' Hl1'] Hinv1]. cbn [eq_q eq_st] in *.
    destruct (qalign_spec q 0 Hq) as (q2 & Hal & Hq2 & Hm2 & Hl2 & Ho2 & Hc2).
    rewrite Hal. cbn [bind]. specialize (Ho2 eq_refl).
    rewrite <- Hc2 in Hinv1.
    pose proof (push_whole v q2 st sent pre consumed a Hv Hq2 Ho2 ltac:(rewrite Hl2; exact Hl) Hinv1 Hne) as H.
    destruct (win_enc v st (qbuf q2) 0 (qmax q2) a) as [[r2 st2] m2].
    destruct H as (m2' & -> & Hle2 & Hp2 & _). cbn [bind].
    apply (finish_ok v pre consumed sent a r2 (set_buf q2 m2') st2 q); [assumption|assumption|exact Hm2|right; exact Ho2].
  - cbn [push_post] in Hp1. destruct a; contradiction.
Qed.

Theorem equeue_push_refines v e sent pre consumed arg :
  variant_ok v -> rinv v pre consumed sent e -> qoff (eq_q e) < qmax (eq_q e) ->
  push_ok v pre consumed sent (norm_arg arg) (eq_q e) (equeue_push v e arg).
Proof.
  intros Hv [[Hq Hl] Hinv] Hmax. unfold equeue_push. rewrite norm_arg_eq. rewrite (norm_arg_len arg).
  pose proof (norm_arg_ne arg) as Hne. set (a := norm_arg arg) in *.
  set (q := eq_q e) in *. set (st := eq_st e) in *. pose proof Hq as (Hb & Hlm & Ho).
  destruct (Nat.eqb_spec (qoff q) 0) as [H0|H0].
  - (* data aligned at the storage start *)
    pose proof (push_whole v q st sent pre consumed a Hv Hq H0 Hl Hinv Hne) as H.
    destruct (win_enc v st (qbuf q) 0 (qmax q) a) as [[r st'] m].
    destruct H as (m' & -> & Hle & Hp & _). cbn [bind].
    apply (finish_ok v pre consumed sent a r (set_buf q m') st' q); [assumption|assumption|reflexivity|left; reflexivity].
  - destruct (Nat.leb_spec (qmax q - qoff q) (edone st)) as [Hup|Hlow].
    + (* finished data already wraps: window = storage start up to the offset *)
      assert (Hoff : qoff q < qmax q) by exact Hmax.
      set (low := qmax q - qoff q) in *.
      assert (HcP : contents q = firstn low (contents q) ++ skipn low (contents q)) by (symmetry; apply firstn_skipn).
      assert (HlP : length (firstn low (contents q)) = low) by (rewrite firstn_length, contents_length by assumption; lia).
      assert (HlW : length (skipn low (contents q)) = qlen q - low) by (rewrite skipn_length, contents_length by assumption; lia).
      pose proof (finish_window v q st sent pre consumed (firstn low (contents q)) (skipn low (contents q))
                    0 (qoff q) a Hv Hq HcP ltac:(rewrite HlP, HlW; lia) ltac:(rewrite HlP; lia) ltac:(rewrite HlP, HlW; lia)) as H.
      rewrite HlP in H. specialize (H (geo_upper q Hq ltac:(lia) Hoff) ltac:(lia) Hinv Hne).
      unfold rebase. fold (wstate st low).
      destruct (win_enc v (wstate st low) (qbuf q) 0 (qoff q) a) as [[r stw'] m].
      destruct H as (m' & -> & Hle & Hp & _). cbn [bind].
      replace (mke (ectx stw') (edone stw' + low) (escr stw')) with (unw stw' low)
        by (unfold unw; f_equal; lia).
      apply (finish_ok v pre consumed sent a r (set_buf q m') (unw stw' low) q); [assumption|assumption|reflexivity|left; reflexivity].
    + (* start encoding in the lower part *)
      assert (Hoff : qoff q < qmax q) by exact Hmax.
      destruct (Nat.leb_spec (escr st) (qmax q - qoff q - edone st)) as [Hfits|Hoob].
      * (* the open block fits before the storage end *)
        set (low := qmax q - qoff q) in *.
        pose proof (finish_window v q st sent pre consumed [] (contents q) (qoff q) low a Hv Hq eq_refl
                      ltac:(cbn [length]; rewrite contents_length by assumption; lia) ltac:(cbn [length]; lia)
                      ltac:(cbn [length]; rewrite contents_length by assumption; lia)
                      (geo_lower q Hq Hoff) ltac:(rewrite contents_length by assumption; lia) Hinv Hne) as H.
        cbn [length] in H. rewrite wstate_0 in H.
        destruct (win_enc v st (qbuf q) (qoff q) low a) as [[r st1] m].
        destruct H as (m1 & -> & Hle1 & Hp1 & Herr1). rewrite unw_0 in Hp1, Hle1, Herr1. cbn [bind].
        apply (push_tail_ok v q st sent pre consumed a r (set_buf q m1) st1); try assumption; try reflexivity.
        intros E. destruct (Herr1 E) as [-> ->]. split; [reflexivity|]. destruct q; reflexivity.
      * (* out of band *)
        destruct (push_oob_ok v q st sent pre consumed a Hv Hq Hl Hinv Hne)
          as (r & q1 & st1 & -> & Hm1 & Ho1 & Hle1 & Hp1 & Herr1). cbn [bind].
        apply (push_tail_ok v q st sent pre consumed a r q1 st1); assumption.
Qed.
