(* Cobs/ReaderStream.v — mpt_queue_recv never reports a decoding error when the bytes in the
   input ring are a prefix of a well-formed stream (ring level of DecStream.v). *)
From MptV Require Import Base.Mem Base.Tactics C13.QueueModel C13.QueueProofs C13.QueueAlign
  Cobs.CobsModel Cobs.DecModel Cobs.EncProofs Cobs.EncTheorems Cobs.DecProofs Cobs.DecCall Cobs.DecHistory
  Cobs.DecLive Cobs.DecStream Cobs.QueueCodec Cobs.ReaderHistory.
Local Open Scope nat_scope.

Lemma sstream_drop v st (buf : list byte) c : dropok st c -> sstream v st buf -> sstream v (st_drop st c) (skipn c buf).
Proof.
  intros [Hc1 Hc] [Hw Hg]. unfold sstream, gapinv, gapof in *. cbn [st_drop dcode dpos8 dcurr dpos dlen].
  rewrite unread_drop by assumption. split; [exact Hw|].
  intros Hcode Hp. specialize (Hg Hcode Hp). destruct Hc as [Hc|[_ Hc]]; [lia|contradiction].
Qed.

Lemma sstream_rebuf v F st buf pre gap : cinv v F st buf -> sstream v st buf -> gapof st <= length gap ->
  sstream v (st_rebuf st (length pre) (length gap)) (buf_rebuf st buf pre gap).
Proof.
  intros Hc [Hw Hg] Hl. destruct (cinv_rebuf v F st buf pre gap Hc) as [_ Hun].
  unfold sstream. rewrite Hun.
  change (dcode (st_rebuf st (length pre) (length gap))) with (dcode st).
  change (dpos8 (st_rebuf st (length pre) (length gap))) with (dpos8 st).
  split; [exact Hw|]. unfold gapinv in *.
  change (dcode (st_rebuf st (length pre) (length gap))) with (dcode st).
  change (dpos8 (st_rebuf st (length pre) (length gap))) with (dpos8 st).
  intros Hcode Hp. specialize (Hg Hcode Hp).
  assert (E : gapof (st_rebuf st (length pre) (length gap)) = length gap) by (unfold gapof, st_rebuf; cbn [dcurr dpos dlen]; lia).
  rewrite E. lia.
Qed.

Lemma sstream_same v st (b1 b2 : list byte) : skipn (dcurr st) b1 = skipn (dcurr st) b2 -> sstream v st b1 -> sstream v st b2.
Proof. intros E [Hw Hg]. unfold sstream. rewrite <- E. split; assumption. Qed.

Theorem dqueue_recv_stream v F d r d1 : qinv (dq_q d) -> cinv v F (dq_st d) (contents (dq_q d)) ->
  sstream v (dq_st d) (contents (dq_q d)) -> qlen (dq_q d) <> 0 -> dqueue_recv v d = Ok (r, d1) ->
  (r = RMsg \/ r = RMore \/ r = RErr MissingBuffer) /\ sstream v (dq_st d1) (contents (dq_q d1)).
Proof.
  intros Hq Hc Hs Hne H. unfold dqueue_recv in H.
  destruct (Nat.eqb_spec (qlen (dq_q d)) 0); [contradiction|].
  pose proof (decode_ring_spec v F d Hq Hc) as Hdr.
  pose proof (dec_call_honest v F (dq_st d) (contents (dq_q d)) (ring_frags (dq_q d)) [qoff (dq_q d) mod 16] Hc) as Hpost.
  pose proof (dec_call_stream v F (dq_st d) (contents (dq_q d)) (ring_frags (dq_q d)) [qoff (dq_q d) mod 16] Hc Hs) as Hst.
  destruct (dec_call_res v (dq_st d) (contents (dq_q d)) (ring_frags (dq_q d)) [qoff (dq_q d) mod 16] false) as [[r0 st1] flat1].
  destruct Hdr as (q1 & E & Hq1 & Hc1 & Hl1 & Hm1 & _). rewrite E in H. cbn [bind] in H.
  destruct Hst as [Hs1 Hkind].
  assert (Hdel : forall F' q st x, qinv q -> cinv v F' st (contents q) -> sstream v st (contents q) ->
            recv_deliver (mkdq q st) = Ok x -> x = (r, d1) ->
            (r = RMsg \/ r = RMore \/ r = RErr MissingBuffer) /\ sstream v (dq_st d1) (contents (dq_q d1))).
  { intros F' q st x Hqq Hcc Hss Ed Ex. destruct (recv_deliver_spec v F' q st Hqq Hcc) as (c & d' & Ed' & Hdrop & Hst' & _ & Hcc').
    rewrite Ed', Ex in Ed. inversion Ed; subst r d1. split; [destruct (dmsg st); auto|].
    rewrite Hst', Hcc'. apply sstream_drop; assumption. }
  destruct r0 as [| |e|].
  - destruct Hpost as (k & body & _ & _ & _ & _ & _ & _ & Hc' & _).
    apply (Hdel [] q1 st1 _ Hq1 ltac:(rewrite Hc1; exact Hc') ltac:(rewrite Hc1; exact Hs1) H eq_refl).
  - destruct Hpost as (k & _ & _ & _ & _ & Hc' & _).
    apply (Hdel _ q1 st1 _ Hq1 ltac:(rewrite Hc1; exact Hc') ltac:(rewrite Hc1; exact Hs1) H eq_refl).
  - destruct Hkind as [Hk|[Hk|Hk]]; try discriminate. inversion Hk; subst e.
    destruct Hpost as (k & _ & _ & _ & _ & Hc' & Hm').
    rewrite <- Hl1 in H.
    destruct (recv_recover_spec v _ q1 st1 Hq1 ltac:(rewrite Hc1; exact Hc')) as [[_ Er]|(q3 & pre & gap & Hq3 & Hc3 & Hgl & Er)];
      rewrite Er in H.
    + inversion H; subst r d1. split; [auto|]. cbn [dq_q dq_st]. rewrite Hc1. exact Hs1.
    + rewrite Hc1 in Hc3.
      destruct (cinv_rebuf v _ st1 flat1 pre gap Hc') as [Hc3' _]. rewrite <- Hc3 in Hc3'.
      assert (Hs3 : sstream v (st_rebuf st1 (length pre) (length gap)) (contents q3)).
      { rewrite Hc3. apply (sstream_rebuf v _ st1 flat1 pre gap Hc' Hs1). unfold gapof. lia. }
      pose proof (decode_ring_spec v _ (mkdq q3 (st_rebuf st1 (length pre) (length gap))) Hq3 Hc3') as Hdr3. cbn [dq_q dq_st] in Hdr3.
      pose proof (dec_call_honest v _ (st_rebuf st1 (length pre) (length gap)) (contents q3) (ring_frags q3) [qoff q3 mod 16] Hc3') as Hpost3.
      pose proof (dec_call_stream v _ (st_rebuf st1 (length pre) (length gap)) (contents q3) (ring_frags q3) [qoff q3 mod 16] Hc3' Hs3) as Hst3.
      destruct (dec_call_res v (st_rebuf st1 (length pre) (length gap)) (contents q3) (ring_frags q3) [qoff q3 mod 16] false) as [[r2 st2] flat2].
      destruct Hdr3 as (q4 & E4 & Hq4 & Hc4 & _). rewrite E4 in H. cbn [bind] in H.
      destruct Hst3 as [Hs2 Hkind2].
      destruct r2 as [| |e2|].
      * destruct Hpost3 as (k3 & body & _ & _ & _ & _ & _ & _ & Hc2' & _).
        apply (Hdel [] q4 st2 _ Hq4 ltac:(rewrite Hc4; exact Hc2') ltac:(rewrite Hc4; exact Hs2) H eq_refl).
      * destruct Hpost3 as (k3 & _ & _ & _ & _ & Hc2' & _).
        apply (Hdel _ q4 st2 _ Hq4 ltac:(rewrite Hc4; exact Hc2') ltac:(rewrite Hc4; exact Hs2) H eq_refl).
      * destruct Hkind2 as [Hk2|[Hk2|Hk2]]; try discriminate. inversion Hk2; subst e2.
        inversion H; subst r d1. split; [auto|]. cbn [dq_q dq_st]. rewrite Hc4. exact Hs2.
      * destruct Hkind2 as [Hk2|[Hk2|Hk2]]; discriminate.
  - destruct Hkind as [Hk|[Hk|Hk]]; discriminate.
Qed.
