(* C02 — Message stream integrity under arbitrary segmentation.
   Only the property theorems, examples and Print Assumptions.

   What is proved (flat byte-stream level, all four COBS framings, no bound): messages handed
   to the encoder one after the other — each in ANY pieces and with ANY schedule of output
   space ([run_messages], see C01) — produce a wire that its delimiters cut into exactly one
   frame body per message, in order ([wire_splits]); the reference decoder maps body i to
   message i; and the decoder loop of the library (model [dec_loop], see C03) delivers
   exactly message i from body i whatever bytes follow, given a scratch gap of the frame
   length plus one.  Because resuming the decoder after exhausted input equals one call on
   the concatenation (C03_segmentation_independent), the cut points of the wire do not matter.

   Ring level, writer side (QueueCodec.v [equeue_push] = mpt_queue_push over a wrapped ring with
   encoder windows and re-alignment, [wire_writer] = the transport taking finished bytes off the
   front): every history of pushes, terminations and transport steps on a ring of any capacity
   and offset keeps the stream-level encoder invariant, so that transport bytes followed by
   ring contents are exactly the frames of the completed messages
   ([C02_queue_push_refines], [C02_ring_writer_stream]), for every branch of mpt_queue_push
   including the out-of-band copy of an open block that straddles the storage end, and the
   ring-level model never faults ([C02_ring_writer_total]).

   End to end ([C02_stream_end_to_end]): feed ANY prefix of the byte stream such a writer history
   produced, cut into ANY pieces, to ANY sequence of decoder calls (model [dec_call_res] of
   mpt_decode_cobs*, any fragment geometry): the messages delivered are a prefix of the messages
   sent, in order — nothing duplicated, merged, reordered or invented.  (That everything arrives
   once all bytes were fed and enough space is provided is proved per frame at loop level,
   [C02_stream_integrity_flat], not for call histories.)

   Ring level, reader side ([dqueue_recv] = mpt_queue_recv: decoder call on the ring's fragments,
   result stored back, mpt_queue_shift of the consumed prefix, and on MissingBuffer the recovery
   with mpt_qpre + chunked move + second decoding; [dqueue_message] = mpt_message_get; RGrow = the
   caller enlarging the ring with mpt_queue_prepare as mpt_stream_poll does): every history of
   wire-ins, receives and enlargements on a ring of any capacity and offset delivers, in order,
   the reference decodings of the frames at the front of the accepted bytes
   ([C02_ring_reader_delivers]) and, composed with the writer, a prefix of the sent messages
   ([C02_ring_to_ring]): nothing duplicated, merged, reordered or invented, for every cut of the
   stream.  A genuine decoding error (not MissingBuffer) ends the reader history.

   LIVENESS is proved at both levels.  Ring level, the real mechanism: [C02_ring_round_delivers]
   -- whenever the unread bytes of the input ring complete (or start) a frame the reference decoder
   accepts, mpt_queue_recv either delivers the message or reports MissingBuffer in a state from
   which, after ONE enlargement of the ring by (bytes up to the delimiter + 17) with
   mpt_queue_prepare, the next mpt_queue_recv delivers it: the decoder never asks for more input
   on complete data and never reports a decoding error on it, and the recovery path of
   mpt_queue_recv turns all free space into scratch space.  Iterated: [C02_ring_reader_delivers_all]
   (from ANY reachable reader state between messages whose unread bytes are the frames of ms,
   |ms| such rounds deliver exactly ms and empty the ring) and, composed with the writer,
   [C02_ring_to_ring_all].  Call level: [C02_stream_delivers_all] for a reader that makes room
   before each call.

   THE STREAM GLUE (mptio: mpt_stream_push / flush / poll / dispatch, model GlueRun.v with the
   kernel as an oracle): [C02_glue_history_safe] -- for EVERY history of glue operations from fresh
   streams (ring capacities incl. none, any offsets) and EVERY kernel behaviour (partial, zero and
   failing transfers): the reader's decoder NEVER reports a decoding error (the bytes it is fed are
   always a prefix of a well-formed stream: [C02_queue_recv_no_error_on_stream_prefix], DecStream.v),
   and what the dispatcher has handed to the message handler is a prefix of the messages completed
   on the writer side, which are the messages the return values of mpt_stream_push say.  The proof
   shows that each glue operation is a sequence of ring-level writer and reader operations
   ([C02_glue_step_refines]), so the ring theorems above apply.

   Liveness of the glue's reader side: [C02_dispatch_delivers] -- once a complete accepted frame
   is in the input ring (any reachable glue state), one mpt_stream_dispatch delivers a message.

   END TO END THROUGH THE GLUE (GlueDrain.v): [C02_dispatch_iff_frame_arrived] -- in ANY reachable
   glue state one mpt_stream_dispatch hands over a message IF AND ONLY IF a delimiter is among the
   unread bytes of the input ring (or a message is held), and the number of such messages goes
   down by exactly one; [C02_quiet_world_delivered_all] -- a reachable world with nothing finished
   in the output ring, nothing in flight and no delimiter unread has handed EVERY completed message
   to the handler; [C02_drain_round_progress] -- in any other world a round of flush / poll /
   dispatch (kernel that takes what it is offered) moves a byte or hands over a message;
   [C02_history_drain_complete] -- after ANY glue history from fresh streams under ANY kernel
   behaviour, a final GDrain ends in such a quiet world: handed over = completed, exactly.

   What remains outside the theorems (hence "partial" overall): the kernel is an oracle (that a
   real writev/readv eventually takes what it is offered is an assumption about the transport);
   the poll() paths with a timeout, POLLOUT handling and memory-mapped streams are not modelled. *)
From MptV Require Import Base.Mem Cobs.CobsModel Cobs.DecModel Cobs.EncProofs Cobs.EncTheorems
  Cobs.DecProofs Cobs.DecComplete Cobs.StreamSpec Cobs.StreamProofs
  C13.QueueModel Cobs.QueueCodec Cobs.QueuePushProofs Cobs.QueuePushTheorem Cobs.WriterHistory
  Cobs.DecCall Cobs.DecHistory Cobs.ReaderHistory Cobs.DecLive Cobs.ReaderLive Cobs.EndToEnd
  Cobs.DecStream Cobs.ReaderStream Cobs.GlueRun Cobs.GlueProofs Cobs.GlueLive Cobs.GlueDrain.

Theorem C02_wire_splits_into_frames :
  forall v ms wire, frames_of v ms wire ->
    exists bodies, split_frames [] wire = (bodies, []) /\ bodies_of v ms bodies.
Proof. exact wire_splits. Qed.

Theorem C02_stream_integrity_flat :
  forall v, variant_ok v -> forall msgs st0 cap0,
    idle_state st0 [] ->
    let r := run_messages v st0 [] cap0 msgs in
    rdone r = true ->
    exists bodies, split_frames [] (rbuf r) = (bodies, []) /\
      bodies_of v (map fst msgs) bodies /\
      Forall2 (fun m body => forall c0 rest tl proc cons,
                 body = c0 :: rest -> length body + 1 <= proc ->
                 delivers v (dec_loop v false (rest ++ 0%N :: tl) (bn c0) 0 proc [] cons) m)
              (map fst msgs) bodies.
Proof. exact stream_integrity. Qed.

(* one mpt_queue_push on a ring in any state that meets the invariant: the result meets it again
   (with the consumed bytes added, or the message closed), the capacity is unchanged and the
   offset is kept or reset by re-alignment *)
Theorem C02_queue_push_refines :
  forall v e sent pre consumed arg,
    variant_ok v -> rinv v pre consumed sent e -> qoff (eq_q e) < qmax (eq_q e) ->
    push_ok v pre consumed sent (norm_arg arg) (eq_q e) (equeue_push v e arg).
Proof. exact equeue_push_refines. Qed.

Theorem C02_ring_writer_invariant :
  forall v, variant_ok v -> forall ops s s', wh_inv v s -> wh_run v s ops = Some s' -> wh_inv v s'.
Proof. exact wh_run_inv. Qed.

(* no writer history makes the ring-level model fault (no access outside the storage, no abort) *)
Theorem C02_ring_writer_total :
  forall v, variant_ok v -> forall ops s, wh_inv v s -> exists s', wh_run v s ops = Some s'.
Proof. exact wh_run_total. Qed.

(* writer histories on a ring of any size and offset: between messages, transport bytes + ring
   contents are cut by their delimiters into one frame body per completed message, in order, and
   the decoder loop delivers message i from body i *)
Theorem C02_ring_writer_stream :
  forall v buf off ops s, variant_ok v -> off < length buf ->
    wh_run v (wh_init buf off) ops = Some s ->
    wh_cur s = [] -> escr (eq_st (wh_e s)) = 0 ->
    exists bodies, split_frames [] (wh_sent s ++ contents (eq_q (wh_e s))) = (bodies, []) /\
      bodies_of v (wh_done s) bodies /\
      Forall2 (fun m body => forall c0 rest tl proc cons,
                 body = c0 :: rest -> length body + 1 <= proc ->
                 delivers v (dec_loop v false (rest ++ 0%N :: tl) (bn c0) 0 proc [] cons) m)
              (wh_done s) bodies.
Proof. exact writer_history_delivered. Qed.

(* writer on a ring, reader by decoder calls on a flat growing buffer, any cut of the stream *)
Theorem C02_stream_end_to_end :
  forall v wbuf woff wops ws, variant_ok v -> woff < length wbuf ->
    wh_run v (wh_init wbuf woff) wops = Some ws -> wh_cur ws = [] -> escr (eq_st (wh_e ws)) = 0 ->
    forall st0 buf0 rops n, cinv v [] st0 buf0 ->
      skipn (dcurr st0) buf0 ++ concat (map fed rops) = firstn n (wh_sent ws ++ contents (eq_q (wh_e ws))) ->
      let rs := hrun v (mkhs st0 buf0 [] false) rops in
      hs_msgs rs = firstn (length (hs_msgs rs)) (wh_done ws).
Proof. exact stream_end_to_end. Qed.

(* reader ring, recovery after MissingBuffer and enlargement included *)
Theorem C02_ring_reader_delivers :
  forall v buf off ops, off <= length buf ->
    let s := rh_run v (rh_init buf off) ops in
    exists C rest, rh_in s = C ++ rest /\ frames_of v (rh_msgs s) C.
Proof. exact reader_history_delivers. Qed.

Theorem C02_ring_to_ring :
  forall v wbuf woff wops ws, variant_ok v -> woff < length wbuf ->
    wh_run v (wh_init wbuf woff) wops = Some ws -> wh_cur ws = [] -> escr (eq_st (wh_e ws)) = 0 ->
    forall rbuf roff rops n, roff <= length rbuf ->
      let rs := rh_run v (rh_init rbuf roff) rops in
      rh_in rs = firstn n (wh_sent ws ++ contents (eq_q (wh_e ws))) ->
      rh_msgs rs = firstn (length (rh_msgs rs)) (wh_done ws).
Proof. exact ring_to_ring. Qed.

Theorem C02_stream_delivers_all :
  forall v wbuf woff wops ws, variant_ok v -> woff < length wbuf ->
    wh_run v (wh_init wbuf woff) wops = Some ws -> wh_cur ws = [] -> escr (eq_st (wh_e ws)) = 0 ->
    forall s (steps : list (list byte * list nat * list nat)),
      idle_between v s ->
      skipn (dcurr (hs_st s)) (hs_buf s) = wh_sent ws ++ contents (eq_q (wh_e ws)) ->
      length steps = length (wh_done ws) ->
      let s' := fold_left (fun s x => spaced_step v s (fst (fst x)) (snd (fst x)) (snd x)) steps s in
      hs_msgs s' = hs_msgs s ++ wh_done ws /\ skipn (dcurr (hs_st s')) (hs_buf s') = [] /\ idle_between v s'.
Proof. exact stream_delivers_all. Qed.

(* non-vacuity: the stream of [C02_ring_writer_example] in the buffer of an idle decoder; two
   spaced calls (fragment sizes 3 and 20) deliver both messages and leave nothing unread *)
Example C02_stream_delivers_all_example :
  let s := mkhs (dinit 0) [3;1;2;3;0; 232;4;5;6;7;8;9;10;11;12;0]%N [] false in
  let s' := fold_left (fun s x => spaced_step v_zpe_r s (fst (fst x)) (snd (fst x)) (snd x))
              [([7;7]%N, [3], []); ([]%N, [20], [])] s in
  idle_between v_zpe_r s /\
  hs_msgs s' = [[1;2;0;3]; [4;5;6;7;8;9;10;11;0;0;12]]%N /\ skipn (dcurr (hs_st s')) (hs_buf s') = [].
Proof.
  split; [|vm_compute; auto].
  split; [reflexivity|]. split; [|reflexivity]. apply cinv_init. cbn [length]. lia.
Qed.

Theorem C02_ring_round_delivers :
  forall v s pre tl n fill,
    rh_inv v s -> rh_stop s = false -> rh_live v s -> rh_unread s = pre ++ 0%N :: tl -> nozero pre = true ->
    length pre + 17 <= n ->
    let s' := rh_round v n fill s in
    rh_inv v s' /\ rh_stop s' = false /\ rh_in s' = rh_in s /\
    length (rh_msgs s') = S (length (rh_msgs s)) /\ dcode (dq_st (rh_d s')) = 0 /\ rh_unread s' = tl.
Proof. exact ring_round_delivers. Qed.

(* the growth policy of mpt_stream_dispatch (streamRecv: receive; on MissingBuffer enlarge by 64 and
   receive again) iterated: every attempt that does not deliver consumes at least n - 17 = 47 bytes of
   the frame (scratch space is paid for by consumed bytes), so a complete frame whose delimiter is
   [length pre] bytes ahead is delivered after at most length pre / 47 + 1 attempts *)
Theorem C02_ring_round_progress :
  forall v s pre tl n fill,
    rh_inv v s -> rh_stop s = false -> rh_live v s -> rh_unread s = pre ++ 0%N :: tl -> nozero pre = true ->
    let s' := rh_round v n fill s in
    rh_inv v s' /\ rh_stop s' = false /\ rh_in s' = rh_in s /\
    ((length (rh_msgs s') = S (length (rh_msgs s)) /\ dcode (dq_st (rh_d s')) = 0 /\ rh_unread s' = tl) \/
     (rh_msgs s' = rh_msgs s /\ rh_live v s' /\
      exists pre2, rh_unread s' = pre2 ++ 0%N :: tl /\ nozero pre2 = true /\ length pre2 + n <= length pre + 17)).
Proof. exact ring_round_progress. Qed.

Theorem C02_ring_dispatch_policy_delivers :
  forall v n fill, 18 <= n -> forall k s pre tl,
    rh_inv v s -> rh_stop s = false -> rh_live v s -> rh_unread s = pre ++ 0%N :: tl -> nozero pre = true ->
    length pre < (n - 17) * k ->
    let s' := rh_until v n fill k s in
    rh_inv v s' /\ rh_stop s' = false /\ rh_in s' = rh_in s /\
    length (rh_msgs s') = S (length (rh_msgs s)) /\ dcode (dq_st (rh_d s')) = 0 /\ rh_unread s' = tl.
Proof. exact ring_until_delivers. Qed.

(* non-vacuity: a ZPE frame of 200 zero pairs in a full ring, enlargements by 64 only: the first
   two attempts fail, the message arrives within eight *)
Example C02_dispatch_policy_example :
  let frame := concat (repeat [225; 65]%N 200) ++ [1; 0]%N in
  let s0 := rh_run v_zpe (rh_init (repeat 238%N 402) 7) [RWire frame] in
  let s' := rh_until v_zpe 64 238%N 8 s0 in
  rh_stop s0 = false /\ rh_free s0 = 0 /\
  rh_msgs (rh_round v_zpe 64 238%N (rh_round v_zpe 64 238%N s0)) = [] /\
  rh_stop s' = false /\ map (@length byte) (rh_msgs s') = [600] /\ rh_unread s' = [].
Proof. vm_compute. repeat split; reflexivity. Qed.

Theorem C02_ring_reader_delivers_all :
  forall v ms C s n fill, frames_of v ms C ->
    rh_inv v s -> rh_stop s = false -> dcode (dq_st (rh_d s)) = 0 -> rh_unread s = C -> length C + 17 <= n ->
    let s' := rh_rounds v n fill (length ms) s in
    rh_stop s' = false /\ rh_msgs s' = rh_msgs s ++ ms /\ rh_unread s' = [] /\ rh_in s' = rh_in s.
Proof. exact ring_reader_delivers_all. Qed.

Theorem C02_ring_to_ring_all :
  forall v wbuf woff wops ws, variant_ok v -> woff < length wbuf ->
    wh_run v (wh_init wbuf woff) wops = Some ws -> wh_cur ws = [] -> escr (eq_st (wh_e ws)) = 0 ->
    forall s n fill, rh_inv v s -> rh_stop s = false -> dcode (dq_st (rh_d s)) = 0 ->
      rh_unread s = wh_sent ws ++ contents (eq_q (wh_e ws)) ->
      length (wh_sent ws ++ contents (eq_q (wh_e ws))) + 17 <= n ->
      let s' := rh_rounds v n fill (length (wh_done ws)) s in
      rh_stop s' = false /\ rh_msgs s' = rh_msgs s ++ wh_done ws /\ rh_unread s' = [].
Proof. exact ring_to_ring_all. Qed.

(* non-vacuity: a 14-byte ring at offset 3, completely filled with three ZPE frames (no free space:
   the first receive runs out of scratch space and cannot recover); three rounds deliver all
   three messages, the ring was enlarged once *)
Example C02_ring_rounds_example :
  let s0 := rh_run v_zpe (rh_init (repeat 238%N 14) 3) [RWire [225;65;225;66;225;67;1;0; 3;1;2;0; 1;0]%N] in
  let s' := rh_rounds v_zpe 31 238%N 3 s0 in
  rh_inv v_zpe s0 /\ rh_stop s0 = false /\ dcode (dq_st (rh_d s0)) = 0 /\ rh_free s0 = 0 /\
  rh_msgs (rh_step v_zpe s0 RRecv) = [] /\
  rh_stop s' = false /\ rh_msgs s' = [[65;0;0;66;0;0;67;0;0]; [1;2]; []]%N /\ rh_unread s' = [].
Proof.
  split; [apply rh_run_inv, rh_init_inv; cbn [length repeat]; lia|]. vm_compute. repeat split; reflexivity.
Qed.

Theorem C02_glue_step_refines :
  forall v w g o w' z got, variant_ok v -> grel v w g -> gstep v w o = Ok (w', z, got) ->
    exists g', grel v w' g' /\ g_del g' = g_del g ++ got /\ sp_of g' = gspec_step (sp_of g) o z.
Proof. exact gstep_rel. Qed.

Theorem C02_glue_history_safe :
  forall v wcap woff rcap roff ops w' sp' del', variant_ok v ->
    gfold v (gworld_init wcap woff rcap roff) (mkgsp [] []) [] ops = Ok (w', sp', del') ->
    del' = firstn (length del') (sp_done sp') /\
    exists g', grel v w' g' /\ g_del g' = del' /\ wh_done (g_ws g') = sp_done sp' /\ rh_stop (g_rs g') = false.
Proof. exact glue_history_safe. Qed.

(* LIVENESS of the glue's reader side: in ANY state a glue history can reach, once the unread bytes
   of the input ring complete (or start) a frame the reference decoder accepts -- [dlive] -- or a
   message is already held, ONE mpt_stream_dispatch hands a message to the handler: streamRecv
   enlarges the ring in steps of 64 as often as the decoder asks for scratch space, each step
   consumes at least 47 bytes of the frame, and the loop ends within the rounds the model allows
   (so the model never cuts it short) *)
Theorem C02_stream_recv_delivers :
  forall v rs pre tl z d', rh_inv v rs -> rh_stop rs = false -> dlive v (rh_d rs) pre tl ->
    grecv v (rh_d rs) = Ok (z, d') ->
    z = 1%Z /\ dcode (dq_st d') = 0 /\ skipn (dcurr (dq_st d')) (contents (dq_q d')) = tl.
Proof. exact grecv_delivers. Qed.

Theorem C02_dispatch_delivers :
  forall v w g pre tl z m w', grel v w g ->
    dlive v (gr w) pre tl \/ dmsg (dq_st (gr w)) <> None ->
    gdisp v w = Ok (z, m, w') -> exists x, m = Some x.
Proof. exact gdisp_delivers. Qed.

(* ... and iterated: when the unread bytes of the input ring are exactly the frames of n messages
   (one of them possibly decoded already and held), n dispatches hand over n messages -- by
   [C02_glue_history_safe] these are the next n completed messages in order -- and nothing is left *)
Theorem C02_glue_dispatch_all :
  forall v n w g acc w' got, grel v w g -> atframes v (gr w) n ->
    gdisp_n v n w acc = Ok (w', got) ->
    length got = length acc + n /\ atframes v (gr w') 0 /\
    exists g', grel v w' g' /\ g_del g' = g_del g ++ skipn (length acc) got.
Proof. exact glue_dispatch_all. Qed.

(* ... also when the reader is in the middle of a frame (any state [dlive] allows) and the rest of it
   has arrived together with the frames of ms: the first dispatch hands over the message in
   progress and leaves the reader at the frames of ms *)
Theorem C02_glue_dispatch_from_mid_frame :
  forall v w g pre tl ms z m w', grel v w g -> dmsg (dq_st (gr w)) = None ->
    dlive v (gr w) pre tl -> frames_of v ms tl ->
    gdisp v w = Ok (z, m, w') -> (exists x, m = Some x) /\ atframes v (gr w') (length ms).
Proof. exact gdisp_mid. Qed.

(* TRANSFER PROGRESS with a kernel that takes what it is offered: a flush whose write accepts all
   offered bytes empties the finished part of the output ring; a poll whose read moves at least one
   byte loads at least one byte (a full input ring is enlarged first).  Together with
   [C02_glue_dispatch_all]: everything completed is eventually handed over. *)
Theorem C02_glue_flush_all :
  forall v w ws k z w' n, wh_inv0 v ws -> wh_e ws = gw w ->
    (Z.of_nat (edone (eq_st (gw w))) <= k)%Z -> gflush w k = Ok (z, w', n) ->
    n = edone (eq_st (gw w)) /\ edone (eq_st (gw w')) = 0 /\ length (gwire w') = length (gwire w) + n.
Proof. exact gflush_all. Qed.

Theorem C02_glue_poll_progress :
  forall v w g k z w' n, grel v w g -> 1 <= k -> gwire w <> [] ->
    gpoll w k = Ok (z, w', n) -> 1 <= n /\ gwire w' = skipn n (gwire w).
Proof. exact gpoll_progress. Qed.


(* THE DISPATCHER IS EXACT: in any state a glue history can reach, one mpt_stream_dispatch hands a
   message to the handler if and only if a complete frame has arrived -- a delimiter is among the
   unread bytes of the input ring, or a decoded message is held ([navail] counts them) -- and
   afterwards exactly one message less is available.  No assumption on where in a frame the reader
   is, on the ring geometry or on the gap: all of that follows from reachability ([grel]). *)
Theorem C02_dispatch_iff_frame_arrived :
  forall v w g z m w', grel v w g -> gdisp v w = Ok (z, m, w') ->
    (1 <= navail (gr w) -> exists x, m = Some x) /\ (navail (gr w) = 0 -> m = None) /\
    navail (gr w') = navail (gr w) - 1.
Proof. exact gdisp_count. Qed.

(* the dispatch loop of a drain round hands over exactly the available messages *)
Theorem C02_dispatch_loop_hands_over_all :
  forall v fuel w g got w' got', grel v w g -> navail (gr w) <= fuel ->
    gdisp_all fuel v w got = Ok (w', got') ->
    length got' = length got + navail (gr w) /\ navail (gr w') = 0.
Proof. exact gdisp_all_count. Qed.

(* NOTHING IS EVER STUCK: a reachable world in which nothing is finished in the output ring,
   nothing is in flight and no complete frame is unread has delivered every completed message *)
Theorem C02_quiet_world_delivered_all :
  forall v w g, grel v w g -> quiet w -> g_del g = wh_done (g_ws g).
Proof. exact glue_quiescent_all. Qed.

(* ... and a world that is not quiet moves: one round of flush / poll / dispatch with a kernel
   that takes what it is offered transfers at least one byte while bytes are in flight (and the
   number in flight goes down), hands over every available message, and leaves none available *)
Theorem C02_drain_round_progress :
  forall v w g got, variant_ok v -> grel v w g ->
  forall z1 w1 n1 z2 w2 n2 w3 got3,
  (if edone (eq_st (gw w)) =? 0 then Ok (0%Z, w, 0) else gflush w (Z.of_nat (edone (eq_st (gw w))))) = Ok (z1, w1, n1) ->
  (match gwire w1 with [] => Ok (0%Z, w1, 0) | _ => gpoll w1 (length (gwire w1)) end) = Ok (z2, w2, n2) ->
  gdisp_all (S (qlen (dq_q (gr w2)))) v w2 got = Ok (w3, got3) ->
  edone (eq_st (gw w3)) = 0 /\ navail (gr w3) = 0 /\
  (inflight w = 0 -> n1 = 0 /\ n2 = 0 /\ gwire w3 = [] /\ length got3 = length got + navail (gr w)) /\
  (1 <= inflight w -> (1 <= n1 \/ 1 <= n2) /\ inflight w3 <= inflight w - 1).
Proof. exact drain_round. Qed.

(* GDrain (the fuel the model gives it suffices) ends quiet and has handed over all completed messages *)
Theorem C02_drain_delivers_all :
  forall v w g w' got, variant_ok v -> grel v w g ->
    gdrain (gdrain_fuel w) v w [] = Ok (w', got) ->
    quiet w' /\ g_del g ++ got = wh_done (g_ws g).
Proof. exact gdrain_delivers_all. Qed.

(* END TO END THROUGH THE GLUE: whatever happened before -- any pushes (also refused or partial
   ones), flushes and polls with any kernel behaviour incl. failures, dispatches at any time, ring
   capacities from none -- a final drain hands over EXACTLY the messages completed on the writer
   side (the messages the return values of mpt_stream_push say), in order, none lost, none twice *)
Theorem C02_history_drain_complete :
  forall v wcap woff rcap roff ops w' sp' del', variant_ok v ->
    gfold v (gworld_init wcap woff rcap roff) (mkgsp [] []) [] (ops ++ [GDrain]) = Ok (w', sp', del') ->
    del' = sp_done sp' /\ quiet w'.
Proof. exact glue_history_drain_complete. Qed.

(* non-vacuity: a history with failing, empty and partial transfers, a message of 300 bytes that
   makes both rings grow, an early dispatch in the middle of a frame; the final drain completes *)
Example C02_history_drain_example :
  match gfold v_zpe_r (gworld_init 0 0 0 0) (mkgsp [] []) []
          ([GPush [65;0;0;66]%N; GFin; GFlush (-1); GFlush 2; GPoll 1; GDisp; GPush (repeat 7%N 300); GFlush 100; GPoll 70; GDisp;
            GFin; GPush [1;2]%N; GFin; GPush [9]%N] ++ [GDrain]) with
  | Ok (w', sp', del') =>
    del' = sp_done sp' /\ length del' = 3 /\ map (@length _) del' = [4; 300; 2] /\ sp_cur sp' = [9]%N /\
    navail (gr w') = 0 /\ gwire w' = []
  | _ => False
  end.
Proof. vm_compute. repeat split; reflexivity. Qed.

(* non-vacuity: three messages flushed and polled completely into a fresh reader, then three dispatches *)
Example C02_glue_dispatch_all_example :
  match gfold v_zpe_r (gworld_init 0 0 0 0) (mkgsp [] []) []
          [GPush [65;0;0;66]%N; GFin; GPush [7]%N; GFin; GFin; GFlush 1000; GPoll 1000] with
  | Ok (w, sp, del) =>
    del = [] /\ sp_done sp = [[65;0;0;66]; [7]; []]%N /\
    match gdisp_n v_zpe_r 3 w [] with
    | Ok (w', got) => got = [[65;0;0;66]; [7]; []]%N /\ skipn (dcurr (dq_st (gr w'))) (contents (dq_q (gr w'))) = []
    | _ => False
    end
  | _ => False
  end.
Proof. vm_compute. repeat split; reflexivity. Qed.

(* ring level of the same fact: mpt_queue_recv never reports a decoding error while the bytes in
   the input ring are a prefix of a well-formed stream *)
Theorem C02_queue_recv_no_error_on_stream_prefix :
  forall v F d r d1, qinv (dq_q d) -> cinv v F (dq_st d) (contents (dq_q d)) ->
    sstream v (dq_st d) (contents (dq_q d)) -> qlen (dq_q d) <> 0 -> dqueue_recv v d = Ok (r, d1) ->
    (r = RMsg \/ r = RMore \/ r = RErr MissingBuffer) /\ sstream v (dq_st d1) (contents (dq_q d1)).
Proof. exact dqueue_recv_stream. Qed.

(* non-vacuity: fresh streams without buffers, two ZPE messages, a failing write, a write of 0,
   partial writes and single-byte reads, dispatches in between: both messages arrive *)
Example C02_glue_example :
  match gfold v_zpe (gworld_init 0 0 0 0) (mkgsp [] []) []
          [GPush [65;0;0;66]%N; GFin; GFlush (-1); GFlush 0; GFlush 3; GPoll 1; GDisp; GPush [7]%N; GFin;
           GFlush 100; GPoll 2; GDisp; GPoll 100; GDisp; GDisp; GDrain] with
  | Ok (w', sp', del') => sp_done sp' = [[65;0;0;66]; [7]]%N /\ del' = [[65;0;0;66]; [7]]%N /\ gwire w' = []
  | _ => False
  end.
Proof. vm_compute. auto. Qed.

(* non-vacuity: an 8-byte reader ring starting at offset 5 (data wraps, consumed prefixes are
   shifted out), three frames arriving in three pieces; the history does not stop *)
Example C02_ring_reader_example :
  let s := rh_run v_cobs (rh_init (repeat 238%N 8) 5)
             [RWire [3;1;2]%N; RRecv; RWire [2;3;0;2]%N; RRecv; RRecv; RWire [7;0;1;0]%N; RRecv; RRecv; RRecv; RRecv] in
  rh_stop s = false /\ rh_msgs s = [[1;2;0;3]; [7]; []]%N /\ rh_in s = [3;1;2;2;3;0;2;7;0;1;0]%N.
Proof. vm_compute. auto. Qed.

(* ... and a ZPE stream whose zero pairs exhaust the gap: MissingBuffer, recovery by prefix space,
   enlargement of the ring by the caller, and still every message arrives *)
Example C02_ring_reader_recovery_example :
  let s := rh_run v_zpe (rh_init (repeat 238%N 8) 3)
             [RWire [225;65;225;66]%N; RRecv; RGrow 8 238%N; RRecv; RWire [225;67;1;0]%N; RRecv; RGrow 8 238%N; RRecv; RRecv] in
  rh_stop s = false /\ rh_msgs s = [[65;0;0;66;0;0;67;0;0]]%N.
Proof. vm_compute. auto. Qed.

(* non-vacuity of the composition: the stream of the ring example below, fed in two pieces *)
Example C02_end_to_end_example :
  let rs := hrun v_zpe_r (mkhs (dinit 4) [238;238;238;238; 3;1;2;3;0; 232;4]%N [] false)
              [HCall [11] []; HCall [11] []; HFeed [5;6;7;8;9;10;11;12;0]%N; HCall [20] []; HCall [20] []] in
  hs_stop rs = false /\ hs_msgs rs = [[1;2;0;3]; [4;5;6;7;8;9;10;11;0;0;12]]%N.
Proof. vm_compute. auto. Qed.

(* non-vacuity: a history on a 12-byte ring starting at offset 7 (windows wrap, the ring is
   re-aligned, the transport takes bytes in between) *)
Example C02_ring_writer_example :
  let ops := [WData [1;2;0;3]%N; WTerm; WWire 3; WData [4;5;6;7;8]%N; WData [9]%N; WWire 100;
              WData [10;11;0;0;12]%N; WTerm] in
  match wh_run v_zpe_r (wh_init (repeat 238%N 12) 7) ops with
  | Some s => wh_cur s = [] /\ escr (eq_st (wh_e s)) = 0 /\
              wh_done s = [[1;2;0;3]; [4;5;6;7;8;9;10;11;0;0;12]]%N /\
              wh_sent s ++ contents (eq_q (wh_e s)) = [3;1;2;3;0; 232;4;5;6;7;8;9;10;11;12;0]%N
  | None => False
  end.
Proof. vm_compute. auto. Qed.

(* the specification the implementation is compared with: the list of completely sent messages *)
Example C02_spec_example :
  sspec_run (mkss [] [] false) [SSend [1]%N; SPart [2]%N; SWire 1; SRecv; SFin; SDrain]
  = [[[1]]; [[1]]; [[1]]; [[1]]; [[1];[2]]; [[1];[2]]]%N.
Proof. reflexivity. Qed.

Example C02_example_two_messages :
  let r := run_messages v_zpe_r (mke 0 0 0) [] 0
             [([65;0;0;66]%N, [Offer 3 1; Offer 3 3; Finish 4]); ([]%N, [Finish 2]); ([7;200]%N, [Offer 8 2; Finish 0])] in
  rdone r = true /\ fst (split_frames [] (rbuf r)) = [[225;65;66]; [1]; [200;7]]%N /\
  map (sdec v_zpe_r) (fst (split_frames [] (rbuf r))) = [Some [65;0;0;66]; Some []; Some [7;200]]%N.
Proof. vm_compute. auto. Qed.

Print Assumptions C02_wire_splits_into_frames.
Print Assumptions C02_stream_integrity_flat.
Print Assumptions C02_queue_push_refines.
Print Assumptions C02_ring_writer_invariant.
Print Assumptions C02_ring_writer_total.
Print Assumptions C02_ring_writer_stream.
Print Assumptions C02_stream_end_to_end.
Print Assumptions C02_ring_reader_delivers.
Print Assumptions C02_ring_to_ring.
Print Assumptions C02_stream_delivers_all.
Print Assumptions C02_ring_round_delivers.
Print Assumptions C02_ring_reader_delivers_all.
Print Assumptions C02_ring_to_ring_all.
Print Assumptions C02_glue_step_refines.
Print Assumptions C02_glue_history_safe.
Print Assumptions C02_queue_recv_no_error_on_stream_prefix.
Print Assumptions C02_ring_round_progress.
Print Assumptions C02_ring_dispatch_policy_delivers.
Print Assumptions C02_stream_recv_delivers.
Print Assumptions C02_dispatch_delivers.
Print Assumptions C02_glue_dispatch_all.
Print Assumptions C02_glue_dispatch_from_mid_frame.
Print Assumptions C02_glue_flush_all.
Print Assumptions C02_glue_poll_progress.
Print Assumptions C02_dispatch_iff_frame_arrived.
Print Assumptions C02_dispatch_loop_hands_over_all.
Print Assumptions C02_quiet_world_delivered_all.
Print Assumptions C02_drain_round_progress.
Print Assumptions C02_drain_delivers_all.
Print Assumptions C02_history_drain_complete.
