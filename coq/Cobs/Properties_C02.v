(* C02 — Message stream integrity under arbitrary segmentation.
   Only the property theorems, examples and Print Assumptions.

   What is proved (flat byte-stream level, all four COBS framings, no bound): messages handed
   to the encoder one after the other — each in ANY pieces and with ANY schedule of output
   space ([run_messages], see C01) — produce a wire that its delimiters cut into exactly one
   frame body per message, in order ([wire_splits]); the reference decoder maps body i to
   message i; and the decoder loop of the library (model [dec_loop], see C03) delivers
   exactly message i from body i whatever bytes follow, given a scratch gap of the frame
   length plus one.  Because resuming the decoder after exhausted input equals one call on
   the concatenation (C03_segmentation_independent), the cut points of the wire do not matter.

   What is NOT modelled (partial, see level_note): the ring-window mechanics of mpt_queue_push
   (encoder windows over a wrapped ring, out-of-band scratch copy, re-alignment) and of
   mpt_queue_recv / mpt_queue_shift (prefix space after MissingBuffer, cropping).  They are
   decided against the specification [sspec_run] — received = sent, in order, nothing lost,
   duplicated or merged, and everything arrives after a drain — by the correspondence run on
   rings of many capacities and offsets with arbitrary cuts of the wire. *)
From MptV Require Import Base.Mem Cobs.CobsModel Cobs.DecModel Cobs.EncProofs Cobs.EncTheorems
  Cobs.DecProofs Cobs.DecComplete Cobs.StreamSpec Cobs.StreamProofs.

Theorem C02_wire_splits_into_frames :
  forall v ms wire, frames_of v ms wire ->
    exists bodies, split_frames [] wire = (bodies, []) /\ bodies_of v ms bodies.
Proof. exact wire_splits. Qed.

Theorem C02_stream_integrity_flat :
  forall v, variant_ok v -> forall msgs st0 cap0,
    idle_state st0 [] ->
    let r := run_messages v st0 [] cap0 msgs in
    rdone r = true ->
    exists bodies, split_frames [] (rbuf r) = (bodies, []) /\
      bodies_of v (map fst msgs) bodies /\
      Forall2 (fun m body => forall c0 rest tl proc cons,
                 body = c0 :: rest -> length body + 1 <= proc ->
                 delivers v (dec_loop v false (rest ++ 0%N :: tl) (bn c0) 0 proc [] cons) m)
              (map fst msgs) bodies.
Proof. exact stream_integrity. Qed.

(* the specification the implementation is compared with: the list of completely sent messages *)
Example C02_spec_example :
  sspec_run (mkss [] [] false) [SSend [1]%N; SPart [2]%N; SWire 1; SRecv; SFin; SDrain]
  = [[[1]]; [[1]]; [[1]]; [[1]]; [[1];[2]]; [[1];[2]]]%N.
Proof. reflexivity. Qed.

Example C02_example_two_messages :
  let r := run_messages v_zpe_r (mke 0 0 0) [] 0
             [([65;0;0;66]%N, [Offer 3 1; Offer 3 3; Finish 4]); ([]%N, [Finish 2]); ([7;200]%N, [Offer 8 2; Finish 0])] in
  rdone r = true /\ fst (split_frames [] (rbuf r)) = [[225;65;66]; [1]; [200;7]]%N /\
  map (sdec v_zpe_r) (fst (split_frames [] (rbuf r))) = [Some [65;0;0;66]; Some []; Some [7;200]]%N.
Proof. vm_compute. auto. Qed.

Print Assumptions C02_wire_splits_into_frames.
Print Assumptions C02_stream_integrity_flat.
