(* Cobs/QueueCodec.v — mechanism-level model of the framed queues (ring layer of C02):
   mpt_queue_push (mptcore/queue/queue_push.c: encoder windows over a ring),
   mpt_queue_recv / mpt_queue_shift (queue_recv.c, queue_shift.c: in-place decoder over the
   one or two ring segments) and mpt_message_get.  Built on the ring model of C13
   (C13/QueueModel.v), the encoder model (CobsModel.v) and the decoder model (DecModel.v).
   No proofs. *)
From MptV Require Import Base.Mem C13.QueueModel Cobs.CobsModel Cobs.DecModel.
Local Open Scope nat_scope.

(* ---------- writer ---------- *)
Record equeue := mkeq { eq_q : queue; eq_st : estate }.

(* one encoder call on the window [wbase, wbase+wlen) of the storage *)
Definition win_enc (v : variant) (st : estate) (m : mem) (wbase wlen : nat) (arg : option (list byte))
  : eres * estate * res mem :=
  let pre := slice wbase (Nat.min (edone st + escr st) wlen) m in
  let '(r, st', buf') := enc_call v st pre wlen arg in
  (r, st', wr m wbase buf').

Definition is_err (r : eres) : bool := match r with EInt _ => false | _ => true end.
Definition rebase (st : estate) (d : nat) : estate := mke (ectx st) d (escr st).

(* the final length update of mpt_queue_push (MPT_ABORT when the state exceeds the storage) *)
Definition push_finish (r : eres) (q : queue) (st : estate) : res (eres * equeue) :=
  let l := edone st + escr st in
  if qmax q <? l then Fault
  else Ok (r, mkeq (set_len q l) st).

(* first step when the open block straddles the storage end: it is copied to a stack buffer,
   encoded there and written back *)
Definition push_oob (v : variant) (q : queue) (st : estate) (arg : option (list byte))
  : res (eres * queue * estate * nat) :=
  let done := edone st in
  if 256 <=? escr st then Ok (EErr BadArgument, q, st, done)
  else
    let mx := Nat.min (qmax q - done) 256 in
    do ob <- (match qget q done (escr st) with Ok l => Ok l | Err _ => Ok [] | Fault => Fault end);
    let '(r, st', buf') := enc_call v (rebase st 0) ob mx arg in
    if is_err r then Ok (r, q, rebase st' (done + edone st'), done + edone st')
    else
      let set := edone st' + escr st' in
      if qmax q <? done + set then Fault
      else
        let q' := set_len q (done + set) in
        do q'' <- (match qset q' done buf' with Ok x => Ok x | Err _ => Ok q' | Fault => Fault end);
        Ok (r, q'', rebase st' (done + edone st'), done + edone st').

(* what follows the first step in the lower part *)
Definition push_tail (v : variant) (low high len : nat) (arg : option (list byte))
           (x : eres * queue * estate * nat) : res (eres * equeue) :=
  let '(push, q1, st1, done1) := x in
  if is_err push then
    (* bad encoding attempt: align and retry on the whole storage *)
    do q2 <- qalign q1 0;
    let '(r, st', m) := win_enc v st1 (qbuf q2) 0 (qmax q2) arg in
    do m <- m; push_finish r (set_buf q2 m) st'
  else
    let pushed := match push with EInt k => k | _ => 0 end in
    if pushed <? len then
      let rest := match arg with Some d => Some (skipn pushed d) | None => None end in
      if done1 <? low then
        let q1' := set_len q1 (edone st1 + escr st1) in
        do q2 <- qalign q1' 0;
        let '(r2, st', m) := win_enc v st1 (qbuf q2) 0 (qmax q2) rest in
        do m <- m;
        push_finish (match r2 with EInt k2 => EInt (pushed + k2) | _ => push end) (set_buf q2 m) st'
      else
        let '(r2, st', m) := win_enc v (rebase st1 (done1 - low)) (qbuf q1) 0 high rest in
        do m <- m;
        push_finish (match r2 with EInt k2 => EInt (pushed + k2) | _ => push end) (set_buf q1 m)
                    (rebase st' (edone st' + low))
    else push_finish push q1 st1.

(* mpt_queue_push with an encoder; [arg] = Some data | None (terminate).  Result: what the C
   function returns (consumed count or error), the queue and the encoder state *)
Definition equeue_push (v : variant) (e : equeue) (arg : option (list byte)) : res (eres * equeue) :=
  let q := eq_q e in
  let st := eq_st e in
  let len := match arg with Some d => length d | None => 0 end in
  let arg := if len =? 0 then None else arg in
  let high := qoff q in
  if high =? 0 then
    let '(r, st', m) := win_enc v st (qbuf q) 0 (qmax q) arg in
    do m <- m; push_finish r (set_buf q m) st'
  else
    let done := edone st in
    let low := qmax q - high in
    if low <=? done then
      let '(r, st', m) := win_enc v (rebase st (done - low)) (qbuf q) 0 high arg in
      do m <- m; push_finish r (set_buf q m) (rebase st' (edone st' + low))
    else
      (* start encoding in lower part *)
      do x <-
        (if escr st <=? low - done then
           let '(r, st', m) := win_enc v st (qbuf q) high low arg in
           do m <- m; Ok (r, set_buf q m, st', edone st')
         else push_oob v q st arg);
      push_tail v low high len arg x.

(* ---------- reader ---------- *)
Record dqueue := mkdq { dq_q : queue; dq_st : dstate }.

(* vectorSet *)
Definition ring_frags (q : queue) : list nat :=
  if qmax q <? qoff q + qlen q then [qmax q - qoff q; qlen q - (qmax q - qoff q)] else [qlen q].

(* write the (in place decoded) flat view back into the ring *)
Definition ring_store (q : queue) (flat : list byte) : res queue :=
  match qset q 0 flat with Ok q' => Ok q' | Err _ => Ok q | Fault => Fault end.

(* mpt_queue_shift *)
Definition dqueue_shift (d : dqueue) : res dqueue :=
  let st := dq_st d in
  let curr := dcurr st in
  if curr =? 0 then Ok d else
  let pos := dpos st in
  let len := dlen st in
  let '(curr, pos, stop) :=
    if negb (pos =? 0) || negb (len =? 0) || negb (dcode st =? 0) || negb (dpos8 st =? 0) then
      if pos <? curr then (pos, 0, pos =? 0) else (curr, pos - curr, false)
    else (curr, pos, false) in
  if (stop : bool) then Ok d else
  match qcrop (dq_q d) 0 curr with
  | Ok q' => Ok (mkdq q' (mkd (dcode st) (dpos8 st) (dcurr st - curr) pos (dlen st) (dmsg st)))
  | Err _ => Ok d
  | Fault => Fault
  end.

Inductive rres := RMsg | RMore | RErr (e : err) | RFault.

Definition decode_ring (v : variant) (d : dqueue) : res (dres * dqueue) :=
  let q := dq_q d in
  let '(r, st', flat') := dec_call_res v (dq_st d) (contents q) (ring_frags q) [qoff q mod 16] false in
  do q' <- ring_store q flat';
  Ok (r, mkdq q' st').

(* the chunked move of the decoded bytes after the prefix space was added *)
Fixpoint move_chunks (fuel : nat) (q : queue) (pos n len : nat) : res queue :=
  match fuel with
  | 0 => Ok q
  | S fuel =>
    if len =? 0 then Ok q else
    let part := Nat.min len 256 in
    do bytes <- (match qget q (pos + n) part with Ok l => Ok l | Err _ => Ok [] | Fault => Fault end);
    do q' <- (match qset q pos bytes with Ok x => Ok x | Err _ => Ok q | Fault => Fault end);
    move_chunks fuel q' (pos + part) n (len - part)
  end.

Definition dst_consumed (st : dstate) : dstate :=
  match dmsg st with Some _ => mkd (dcode st) (dpos8 st) (dcurr st) (dpos st) (dlen st) None | None => st end.

(* crop what was consumed and report *)
Definition recv_deliver (d : dqueue) : res (rres * dqueue) :=
  do d' <- dqueue_shift d;
  Ok (match dmsg (dq_st d') with Some _ => RMsg | None => RMore end, d').

(* the decoder ran out of scratch space: add prefix space, move the decoded bytes down in
   chunks, decode again; [len0] = queue length before *)
Definition recv_recover (v : variant) (d1 : dqueue) (len0 : nat) : res (rres * dqueue) :=
  let q1 := dq_q d1 in
  if qmax q1 <=? len0 then Ok (RErr MissingBuffer, d1) else
  let n := qmax q1 - len0 in
  match qpre q1 n with
  | Err _ => Ok (RErr MissingBuffer, d1)
  | Fault => Fault
  | Ok q2 =>
    let st := dq_st d1 in
    do q3 <- move_chunks (S (dlen st / 256 + 1)) q2 (dpos st) n (dlen st);
    let st' := mkd (dcode st) (dpos8 st) (dcurr st + n) (dpos st) (dlen st) (dmsg st) in
    do '(r2, d2) <- decode_ring v (mkdq q3 st');
    match r2 with
    | DMsg | DMore => recv_deliver d2
    | DErr e => Ok (RErr e, d2)
    | DFault => Ok (RFault, d2)
    end
  end.

(* mpt_queue_recv (with decoder) *)
Definition dqueue_recv (v : variant) (d : dqueue) : res (rres * dqueue) :=
  let q := dq_q d in
  (* nothing in the queue: a delivered (necessarily empty) message counts as consumed *)
  if qlen q =? 0 then Ok (RErr MissingData, mkdq q (dst_consumed (dq_st d))) else
  do '(r, d1) <- decode_ring v d;
  match r with
  | DMsg | DMore => recv_deliver d1
  | DFault => Ok (RFault, d1)
  | DErr MissingBuffer => recv_recover v d1 (qlen q)
  | DErr e => Ok (RErr e, d1)
  end.

(* mpt_queue_peek (with decoder): preview of the message being decoded.  The decoder is called in
   peek mode (sourcelen = 0) on the ONE fragment that remains after skipping min(curr, pos) bytes;
   returns (error | decoded length so far, the first [mx] decoded bytes when a target is given) *)
Definition dqueue_peek (v : variant) (d : dqueue) (mx : nat) (dst : bool) : res (eres * list byte * dqueue) :=
  let q := dq_q d in
  let st := dq_st d in
  let len := qlen q in
  if len =? 0 then Ok (EErr MissingData, [], d) else
  (* an offset at the wrap position counts as 0 *)
  let qo := if qoff q =? qmax q then 0 else qoff q in
  let used0 := if qmax q - qo <? len then qmax q - qo else len in
  let off := Nat.min (dcurr st) (dpos st) in
  if len <? off then Ok (EErr MissingData, [], d) else
  (* mpt_message_read(&msg, off, 0): the fragment that is current afterwards *)
  let fl := if off <? used0 then used0 - off else len - off in
  let frag := slice off fl (contents q) in
  let st0 := mkd (dcode st) (dpos8 st) (dcurr st - off) (dpos st - off) (dlen st) (dmsg st) in
  let '(r, st1, frag') := dec_call_res v st0 frag [fl] [(qo + off) mod 16] true in
  do q' <- (match qset q off frag' with Ok x => Ok x | Err _ => Ok q | Fault => Fault end);
  let pos1 := dpos st1 in
  let st2 := mkd (dcode st1) (dpos8 st1) (dcurr st1 + off) (pos1 + off) (dlen st1) (dmsg st1) in
  let dl := dlen st1 in
  let failed := match r with DErr _ | DFault => true | _ => false end in
  match r with
  | DFault => Fault
  | _ =>
    if negb dst then Ok (EInt dl, [], mkdq q' st2)
    else if failed then Ok (EInt dl, repeat 238%N (Nat.min dl mx), mkdq q' st2)   (* target left untouched *)
    else Ok (EInt (Nat.min dl mx), slice pos1 (Nat.min dl mx) frag', mkdq q' st2)
  end.

(* the delivered message: mpt_message_get + mpt_message_read *)
Definition dqueue_message (d : dqueue) : option (list byte) :=
  match dmsg (dq_st d) with
  | Some n => Some (slice (dpos (dq_st d)) n (contents (dq_q d)))
  | None => None
  end.
