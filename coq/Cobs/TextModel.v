(* Cobs/TextModel.v — the fifth framing: zero-terminated command text.
   mpt_encode_string (mptcore/convert/encode_string.c) in its single-delimiter mode
   (info->scratch = 0; the delimiter byte is info->_ctx, 0 for command text) and
   mpt_decode_command (decode_command.c) on the flat view of a single fragment.  No proofs. *)
From MptV Require Import Base.Mem Cobs.CobsModel.
Local Open Scope nat_scope.

(* message header the command decoder prepends: { MPT_MESGTYPE(Command), ' ' } *)
Definition cmd_header : list byte := [4%N; 32%N].

(* one call of mpt_encode_string; [st] uses edone only (escr = 0), delimiter = 0 *)
Definition str_call (st : estate) (buf : list byte) (cap : nat) (arg : option (list byte))
  : eres * estate * list byte :=
  let off := edone st + escr st in
  if cap <? off then (EErr BadArgument, st, buf) else
  match arg with
  | None =>
    if cap - off =? 0 then (EErr MissingBuffer, st, buf)
    else (EInt 0, mke (ectx st) (off + 1) (escr st), buf ++ [0%N])
  | Some d =>
    if length d =? 0 then (EErr BadArgument, st, buf)
    else if cap - off =? 0 then (EErr MissingBuffer, st, buf)
    else
      let mx := Nat.min (length d) (cap - off) in
      if existsb bz (firstn mx d) then (EErr BadEncoding, st, buf)
      else (EInt mx, mke (ectx st) (off + mx) (escr st), buf ++ firstn mx d)
  end.

(* index of the first zero byte at or after [from] *)
Fixpoint find_zero (l : list byte) (k : nat) : option nat :=
  match l with
  | [] => None
  | b :: r => if bz b then Some k else find_zero r (S k)
  end.

Record cstate_t := mkt { tcurr : nat; tpos : nat; tlen : nat; tmsg : option nat }.

Inductive tres := TMsg | TMore | TErr (e : err).

(* mpt_decode_command on one fragment [buf], not in peek mode *)
Definition cmd_call (st : cstate_t) (buf : list byte) : tres * cstate_t * list byte :=
  let L := length buf in
  let pos := tcurr st in
  let len := match tmsg st with Some c => tlen st - c | None => tlen st end in
  if len =? 0 then
    if pos <? 2 then (TErr MissingBuffer, st, buf)
    else
      let off := pos - 2 in
      if L <? off then (TErr MissingData, st, buf)
      else if L <? pos then
        (* the header is written byte by byte: the part that fits is stored before the call gives up *)
        (TErr MissingBuffer, st, firstn off buf ++ firstn (L - off) cmd_header ++ skipn L buf)
      else
        let buf' := firstn off buf ++ cmd_header ++ skipn pos buf in
        match find_zero (skipn pos buf') pos with
        | Some z => (TMsg, mkt (S z) off (z - off) (Some (z - off)), buf')
        | None => (TMore, mkt L off (L - off) None, buf')
        end
  else
    let off := tpos st in
    if negb (pos =? off + len) then (TErr BadArgument, st, buf)
    else if L <? pos then (TErr MissingData, st, buf)
    else
      match find_zero (skipn pos buf) pos with
      | Some z => (TMsg, mkt (S z) off (z - off) (Some (z - off)), buf)
      | None => (TMore, mkt L off (L - off) (tmsg st), buf)
      end.

(* reference: the text framing admits messages without the delimiter; the decoded command
   is the header followed by the text *)
Definition text_admits (m : list byte) : bool := nozero m.
Definition text_decode (body : list byte) : option (list byte) :=
  if nozero body then Some (cmd_header ++ body) else None.
