(* Cobs/GlueProofs.v — the stream glue refines the ring-level histories.

   Every operation of the glue model (GlueRun.v: mpt_stream_push, mpt_stream_flush,
   mpt_stream_poll, mpt_stream_dispatch, with ANY kernel behaviour: partial, zero and failing
   transfers) is a sequence of ring-level writer operations (WData/WTerm/WWire/WGrow of
   WriterHistory.v) on the output ring and of ring-level reader operations
   (RShift/RGrow/RWire/RRecv of ReaderHistory.v) on the input ring, and the bytes the reader ring
   accepted are a prefix of the bytes the writer ring handed to the transport.  Hence the
   theorems about those histories apply to every glue history: what the dispatcher hands to the
   message handler is, at every point, a prefix of the messages that were completed on the
   writer side. *)
From MptV Require Import Base.Mem Base.Tactics C13.QueueModel C13.QueueSpec C13.QueueProofs C13.QueueAlign C13.IoQueueProofs
  Cobs.CobsModel Cobs.DecModel Cobs.EncProofs Cobs.EncTheorems Cobs.DecProofs Cobs.DecCall Cobs.DecHistory
  Cobs.DecLive Cobs.DecStream Cobs.QueueCodec Cobs.QueuePushProofs Cobs.StreamSpec Cobs.StreamRun Cobs.GlueRun
  Cobs.WriterHistory Cobs.ReaderHistory Cobs.ReaderStream Cobs.EndToEnd.
Local Open Scope nat_scope.

(* ---------- the output ring before its first allocation ---------- *)
(* a stream starts without buffers: capacity 0; pushes report MissingBuffer and change nothing
   until mpt_stream_push enlarges the ring *)
Definition wempty (s : wh) : Prop :=
  eq_q (wh_e s) = mkq [] 0 0 0 /\ edone (eq_st (wh_e s)) = 0 /\ escr (eq_st (wh_e s)) = 0 /\
  wh_sent s = [] /\ wh_done s = [] /\ wh_cur s = [].

Definition wh_inv0 (v : variant) (s : wh) : Prop := wh_inv v s \/ wempty s.

Lemma push_on_empty v st arg : edone st = 0 -> escr st = 0 ->
  equeue_push v (mkeq (mkq [] 0 0 0) st) arg = Ok (EErr MissingBuffer, mkeq (mkq [] 0 0 0) st).
Proof.
  intros Hd Hs. destruct st as [ctx dn sc]. cbn [edone escr] in *. subst dn sc.
  unfold equeue_push. cbn [eq_q eq_st qoff qmax qbuf Nat.eqb].
  destruct arg as [[|x d]|]; cbn [length Nat.eqb]; unfold win_enc, enc_call, enc_regular;
    cbn [edone escr Nat.add Nat.min slice skipn firstn Nat.eqb negb andb Nat.ltb Nat.leb Nat.sub orb length];
    try (destruct (inl v); cbn [andb]); unfold wr; cbn [length Nat.add Nat.leb firstn skipn app bind];
    unfold push_finish; cbn [edone escr Nat.add qmax Nat.ltb Nat.leb set_buf set_len]; reflexivity.
Qed.

Lemma wh_step_inv0 v s o s' : variant_ok v -> wh_inv0 v s -> wh_step v s o = Some s' -> wh_inv0 v s'.
Proof.
  intros Hv [Hi|He] H; [left; apply (wh_step_inv v s o s' Hv Hi H)|].
  destruct He as (Hq & Hd & Hs & H1 & H2 & H3).
  destruct s as [[q st] sent done cur]. cbn [wh_e wh_sent wh_done wh_cur eq_q eq_st] in *. subst q sent done cur.
  destruct o as [[|x d]| |n|n fill]; cbn [wh_step wh_e wh_sent wh_done wh_cur eq_q eq_st] in H.
  1-3: rewrite (push_on_empty v st _ Hd Hs) in H; inversion H; subst; right; repeat split; assumption.
  - unfold wire_writer in H. cbn [eq_st] in H. rewrite Hd in H. cbn [Nat.min Nat.eqb] in H.
    inversion H; subst. right. repeat split; assumption.
  - destruct n as [|n].
    + unfold qprepare in H. cbn [qmax qlen Nat.sub Nat.ltb Nat.leb] in H. inversion H; subst. right. repeat split; assumption.
    + assert (Hq0 : qinv (mkq [] 0 0 0)) by (unfold qinv; cbn; lia).
      destruct (qprepare_grow (mkq [] 0 0 0) (S n) fill Hq0 ltac:(right; reflexivity))
        as (q' & r & E & Hq' & Hc & Hlen & Hoff & _).
      rewrite E in H. inversion H; subst; clear H. left.
      split; [cbn [wh_e eq_q]; apply Hoff; left; lia|]. exists []. split; [constructor|].
      cbn [wh_e wh_sent wh_cur]. cbn [qlen] in Hlen.
      split; [split; cbn [eq_q eq_st]; [exact Hq'|lia]|].
      cbn [eq_q eq_st app]. destruct st as [ctx dn sc]. cbn [edone escr] in *. subst dn sc.
      apply EI_idle; try reflexivity. apply length_zero_iff_nil.
      rewrite contents_length by assumption. exact Hlen.
Qed.

Lemma wh_run_inv0 v : variant_ok v -> forall ops s s', wh_inv0 v s -> wh_run v s ops = Some s' -> wh_inv0 v s'.
Proof.
  intros Hv. induction ops as [|o ops IH]; intros s s' Hi H; cbn [wh_run] in H.
  - inversion H; subst; assumption.
  - destruct (wh_step v s o) as [s1|] eqn:E; [|discriminate].
    apply (IH s1 s'); [apply (wh_step_inv0 v s o s1 Hv Hi E)|assumption].
Qed.

Lemma wh_run_app v ops1 : forall ops2 s s1, wh_run v s ops1 = Some s1 -> wh_run v s (ops1 ++ ops2) = wh_run v s1 ops2.
Proof.
  induction ops1 as [|o ops1 IH]; intros ops2 s s1 H; cbn [wh_run app] in *.
  - inversion H; reflexivity.
  - destruct (wh_step v s o) as [s'|]; [|discriminate]. apply IH. exact H.
Qed.

(* ---------- mpt_stream_push = pushes and enlargements of the output ring ---------- *)
Lemma firstn_add_skipn {A} (l : list A) a b : firstn (a + b) l = firstn a l ++ firstn b (skipn a l).
Proof.
  revert l. induction a as [|a IH]; intros l; [reflexivity|].
  destruct l as [|x l]; [cbn; rewrite firstn_nil; reflexivity|]. cbn [Nat.add firstn skipn app]. f_equal. apply IH.
Qed.

Lemma gpush_data_sim v l : forall fuel ws off total z e',
  off < length l ->
  gpush_loop fuel v (wh_e ws) (Some l) off total = Ok (z, e') ->
  exists wops ws' k, wh_run v ws wops = Some ws' /\ wh_e ws' = e' /\ wh_sent ws' = wh_sent ws /\
    wh_done ws' = wh_done ws /\ wh_cur ws' = wh_cur ws ++ firstn k (skipn off l) /\
    ((0 <= z)%Z -> z = Z.of_nat (total + k)) /\ ((z < 0)%Z -> total + k = 0).
Proof.
  induction fuel as [|fuel IH]; intros ws off total z e' Hoff H; [discriminate|].
  cbn [gpush_loop] in H.
  destruct (skipn off l) as [|x d] eqn:Esk.
  { apply (f_equal (@length _)) in Esk. rewrite skipn_length in Esk. cbn [length] in Esk. lia. }
  destruct (equeue_push v (wh_e ws) (Some (x :: d))) as [[r e1]| |] eqn:Ep; [|discriminate|discriminate].
  cbn [bind] in H.
  assert (Hstep : r <> EFault ->
            wh_step v ws (WData (x :: d)) =
            Some (mkwh e1 (wh_sent ws) (wh_done ws) (match r with EInt k => wh_cur ws ++ firstn k (x :: d) | _ => wh_cur ws end))).
  { intros Hr. cbn [wh_step]. rewrite Ep. destruct r; [reflexivity|reflexivity|contradiction]. }
  destruct r as [post|er|]; [| |discriminate].
  - (* consumed [post] bytes *)
    set (ws1 := mkwh e1 (wh_sent ws) (wh_done ws) (wh_cur ws ++ firstn post (x :: d))).
    assert (H1 : wh_step v ws (WData (x :: d)) = Some ws1) by (apply Hstep; discriminate).
    destruct (Nat.eqb_spec (length l - off - post) 0) as [Hfin|Hmore].
    + inversion H; subst z e'. exists [WData (x :: d)], ws1, post. cbn [wh_run]. rewrite H1.
      split; [reflexivity|]. split; [reflexivity|]. split; [reflexivity|]. split; [reflexivity|]. split; [reflexivity|].
      split; [intros _; reflexivity|intros Hz; lia].
    + destruct (IH ws1 (off + post) (total + post) z e' ltac:(lia) H) as (wops & ws' & k & Hr & He & Hs & Hd & Hc & Hz1 & Hz2).
      exists (WData (x :: d) :: wops), ws', (post + k). cbn [wh_run]. rewrite H1.
      split; [exact Hr|]. split; [exact He|]. split; [exact Hs|]. split; [exact Hd|].
      split.
      * rewrite Hc. unfold ws1. cbn [wh_cur]. rewrite <- app_assoc. f_equal.
        rewrite firstn_add_skipn. f_equal. rewrite <- Esk, skipn_skipn'. reflexivity.
      * split; [intros Hz; rewrite (Hz1 Hz); f_equal; lia|intros Hz; specialize (Hz2 Hz); lia].
  - (* error *)
    set (ws1 := mkwh e1 (wh_sent ws) (wh_done ws) (wh_cur ws)).
    assert (H1 : wh_step v ws (WData (x :: d)) = Some ws1) by (apply Hstep; discriminate).
    assert (Hret : forall zz, Ok ((if total =? 0 then zz else Z.of_nat total), e1) = Ok (z, e') -> (zz < 0)%Z ->
              exists wops ws' k, wh_run v ws wops = Some ws' /\ wh_e ws' = e' /\ wh_sent ws' = wh_sent ws /\
                wh_done ws' = wh_done ws /\ wh_cur ws' = wh_cur ws ++ firstn k (x :: d) /\
                ((0 <= z)%Z -> z = Z.of_nat (total + k)) /\ ((z < 0)%Z -> total + k = 0)).
    { intros zz E Hzz. inversion E; subst z e'. exists [WData (x :: d)], ws1, 0. cbn [wh_run]. rewrite H1.
      split; [reflexivity|]. split; [reflexivity|]. split; [reflexivity|]. split; [reflexivity|].
      split; [cbn [firstn]; rewrite app_nil_r; reflexivity|].
      destruct (Nat.eqb_spec total 0); split; intros Hz; try lia. }
    destruct er; try (apply (Hret _ H); reflexivity).
    (* MissingBuffer: enlarge by 256 and retry *)
    destruct (qprepare (eq_q e1) 256 FILL) as [[q' fr]|eq|] eqn:Eq; [| |discriminate].
    + set (ws2 := mkwh (mkeq q' (eq_st e1)) (wh_sent ws) (wh_done ws) (wh_cur ws)).
      assert (H2 : wh_step v ws1 (WGrow 256 FILL) = Some ws2) by (cbn [wh_step ws1 wh_e]; rewrite Eq; reflexivity).
      destruct (IH ws2 off total z e' Hoff H) as (wops & ws' & k & Hr & He & Hs & Hd & Hc & Hz1 & Hz2).
      exists (WData (x :: d) :: WGrow 256 FILL :: wops), ws', k. cbn [wh_run]. rewrite H1, H2.
      rewrite Esk in Hc. repeat (split; [assumption|]). assumption.
    + apply (Hret _ H). reflexivity.
Qed.

Lemma gpush_term_sim v : forall fuel ws z e',
  gpush_loop fuel v (wh_e ws) None 0 0 = Ok (z, e') ->
  exists wops ws', wh_run v ws wops = Some ws' /\ wh_e ws' = e' /\ wh_sent ws' = wh_sent ws /\
    (((0 <= z)%Z /\ wh_done ws' = wh_done ws ++ [wh_cur ws] /\ wh_cur ws' = []) \/
     ((z < 0)%Z /\ wh_done ws' = wh_done ws /\ wh_cur ws' = wh_cur ws)).
Proof.
  induction fuel as [|fuel IH]; intros ws z e' H; [discriminate|].
  cbn [gpush_loop] in H.
  destruct (equeue_push v (wh_e ws) None) as [[r e1]| |] eqn:Ep; [|discriminate|discriminate].
  cbn [bind] in H.
  destruct r as [post|er|]; [| |discriminate].
  - inversion H; subst z e'.
    exists [WTerm], (mkwh e1 (wh_sent ws) (wh_done ws ++ [wh_cur ws]) []). cbn [wh_run wh_step]. rewrite Ep.
    repeat (split; [reflexivity|]). left. split; [lia|]. split; reflexivity.
  - set (ws1 := mkwh e1 (wh_sent ws) (wh_done ws) (wh_cur ws)).
    assert (H1 : wh_step v ws WTerm = Some ws1) by (cbn [wh_step]; rewrite Ep; reflexivity).
    assert (Hret : forall zz, Ok (zz, e1) = Ok (z, e') -> (zz < 0)%Z ->
              exists wops ws', wh_run v ws wops = Some ws' /\ wh_e ws' = e' /\ wh_sent ws' = wh_sent ws /\
                (((0 <= z)%Z /\ wh_done ws' = wh_done ws ++ [wh_cur ws] /\ wh_cur ws' = []) \/
                 ((z < 0)%Z /\ wh_done ws' = wh_done ws /\ wh_cur ws' = wh_cur ws))).
    { intros zz E Hzz. inversion E; subst z e'. exists [WTerm], ws1. cbn [wh_run]. rewrite H1.
      repeat (split; [reflexivity|]). right. split; [assumption|]. split; reflexivity. }
    cbn [Nat.eqb] in H.
    destruct er; try (apply (Hret _ H); reflexivity).
    destruct (qprepare (eq_q e1) 256 FILL) as [[q' fr]|eq|] eqn:Eq; [| |discriminate].
    + set (ws2 := mkwh (mkeq q' (eq_st e1)) (wh_sent ws) (wh_done ws) (wh_cur ws)).
      assert (H2 : wh_step v ws1 (WGrow 256 FILL) = Some ws2) by (cbn [wh_step ws1 wh_e]; rewrite Eq; reflexivity).
      destruct (IH ws2 z e' H) as (wops & ws' & Hr & He & Hs & Hcase).
      exists (WTerm :: WGrow 256 FILL :: wops), ws'. cbn [wh_run]. rewrite H1, H2.
      split; [exact Hr|]. split; [exact He|]. split; [exact Hs|exact Hcase].
    + apply (Hret _ H). reflexivity.
Qed.

(* ---------- mpt_stream_flush = the transport takes finished bytes ---------- *)
Lemma wh_inv0_einv v ws : wh_inv0 v ws -> einv (wh_e ws).
Proof.
  intros [(_ & pre & _ & [He _])|(Hq & Hd & Hs & _)]; [exact He|].
  split; [rewrite Hq; unfold qinv; cbn; lia|rewrite Hq, Hd, Hs; reflexivity].
Qed.

Lemma gflush_sim v w k ws z w' n : wh_inv0 v ws -> wh_e ws = gw w -> gflush w k = Ok (z, w', n) ->
  exists wops ws' bytes, wh_run v ws wops = Some ws' /\ wh_e ws' = gw w' /\ wh_sent ws' = wh_sent ws ++ bytes /\
    gwire w' = gwire w ++ bytes /\ gr w' = gr w /\ wh_done ws' = wh_done ws /\ wh_cur ws' = wh_cur ws /\ n = length bytes.
Proof.
  intros Hi He H. pose proof (wh_inv0_einv v ws Hi) as [Hq Hl]. rewrite He in Hq, Hl.
  assert (Hnone : (z, w', n) = (z, w, 0) ->
            exists wops ws' bytes, wh_run v ws wops = Some ws' /\ wh_e ws' = gw w' /\ wh_sent ws' = wh_sent ws ++ bytes /\
              gwire w' = gwire w ++ bytes /\ gr w' = gr w /\ wh_done ws' = wh_done ws /\ wh_cur ws' = wh_cur ws /\ n = length bytes).
  { intros E. inversion E; subst. exists [], ws, []. cbn [wh_run]. rewrite !app_nil_r. repeat split; try reflexivity; assumption. }
  unfold gflush in H.
  destruct (Nat.eqb_spec (edone (eq_st (gw w))) 0) as [Hz|Hz]; [apply Hnone; inversion H; reflexivity|].
  destruct k as [|p|p]; [apply Hnone; inversion H; reflexivity| |apply Hnone; inversion H; reflexivity].
  set (m := Nat.min (Z.to_nat (Z.pos p)) (edone (eq_st (gw w)))) in *.
  assert (Hm : m <> 0) by (unfold m; lia).
  pose proof (qget_spec (eq_q (gw w)) 0 m Hq ltac:(lia)) as Hg.
  destruct (Nat.leb_spec (0 + m) (qlen (eq_q (gw w)))) as [_|Hbad]; [|unfold m in Hbad; lia].
  rewrite Hg in H. cbn [bind] in H.
  destruct (qcrop0_ok (eq_q (gw w)) m Hq ltac:(unfold m; lia)) as (o & Hcrop & _).
  rewrite Hcrop in H. cbn [bind] in H. inversion H; subst z w' n; clear H.
  set (bytes := slice 0 m (contents (eq_q (gw w)))) in *.
  exists [WWire (Z.to_nat (Z.pos p))], (mkwh (mkeq (mkq (qbuf (eq_q (gw w))) (qlen (eq_q (gw w)) - m) (qmax (eq_q (gw w))) o)
                                          (mke (ectx (eq_st (gw w))) (edone (eq_st (gw w)) - m) (escr (eq_st (gw w)))))
                                    (wh_sent ws ++ bytes) (wh_done ws) (wh_cur ws)), bytes.
  cbn [wh_run wh_step]. unfold wire_writer. rewrite He. rewrite (Nat.min_comm (edone (eq_st (gw w)))). fold m.
  destruct (Nat.eqb_spec m 0); [contradiction|]. rewrite Hg, Hcrop. cbn [bind].
  cbn [wh_e wh_sent wh_done wh_cur gw gr gwire]. repeat split; try reflexivity.
  unfold bytes. rewrite length_slice; [reflexivity|]. rewrite contents_length by assumption. unfold m. lia.
Qed.

(* ---------- the input ring ---------- *)
Lemma rh_cinv v rs : rh_inv v rs -> rh_stop rs = false ->
  qinv (dq_q (rh_d rs)) /\ exists F, cinv v F (dq_st (rh_d rs)) (contents (dq_q (rh_d rs))).
Proof.
  intros [Hh Hq] Est. split; [apply Hq; exact Est|].
  unfold flat_of in Hh. rewrite Est in Hh. destruct Hh as (C & F & _ & _ & Hc). exists F. exact Hc.
Qed.

(* the message a reader holds for its caller (delivered by the next dispatch) *)
Definition pend (d : dqueue) : list (list byte) :=
  match dmsg (dq_st d) with Some _ => [decoded (dq_st d) (contents (dq_q d))] | None => [] end.

Lemma dqueue_message_decoded v F d : cinv v F (dq_st d) (contents (dq_q d)) ->
  dqueue_message d = match dmsg (dq_st d) with Some _ => Some (decoded (dq_st d) (contents (dq_q d))) | None => None end.
Proof.
  intros (_ & _ & Hm). unfold dqueue_message, decoded, slice. destruct (dmsg (dq_st d)) as [c|]; [|reflexivity].
  destruct Hm as (-> & _). reflexivity.
Qed.

Lemma rh_run_app v ops1 ops2 s : rh_run v s (ops1 ++ ops2) = rh_run v (rh_run v s ops1) ops2.
Proof. unfold rh_run. apply fold_left_app. Qed.

(* mpt_stream_poll(POLLIN): shift, enlarge a full ring, load *)
Lemma gpoll_sim v w k rs z w' n : rh_inv v rs -> rh_stop rs = false -> rh_d rs = gr w ->
  gpoll w k = Ok (z, w', n) ->
  exists rops, let rs' := rh_run v rs rops in
    rh_stop rs' = false /\ rh_d rs' = gr w' /\ rh_msgs rs' = rh_msgs rs /\
    rh_in rs' = rh_in rs ++ firstn n (gwire w) /\ gwire w' = skipn n (gwire w) /\ gw w' = gw w /\
    pend (gr w') = pend (gr w).
Proof.
  intros Hi Est Hd H. unfold gpoll in H. rewrite <- Hd in H.
  destruct (rh_cinv v rs Hi Est) as (Hq & F & Hc).
  destruct (dqueue_shift_spec v F (rh_d rs) Hq Hc) as (c & d1 & Es & Hdrop & Hst1 & Hq1 & Hc1).
  rewrite Es in H. cbn [bind] in H.
  set (rs1 := rh_step v rs RShift).
  assert (E1 : rs1 = mkrh d1 (rh_msgs rs) false (rh_in rs)) by (unfold rs1, rh_step; rewrite Est, Es; reflexivity).
  assert (Hi1 : rh_inv v rs1) by (apply rh_step_inv; exact Hi).
  assert (Hp1 : pend d1 = pend (rh_d rs)).
  { unfold pend. rewrite Hst1, Hc1. cbn [st_drop dmsg]. destruct (dmsg (dq_st (rh_d rs))); [|reflexivity].
    f_equal. apply (decoded_drop _ _ c Hdrop). }
  (* enlargement of a full ring *)
  set (rs2 := if qlen (dq_q d1) =? qmax (dq_q d1) then rh_step v rs1 (RGrow 64 FILL) else rs1).
  assert (Hi2 : rh_inv v rs2) by (unfold rs2; destruct (qlen (dq_q d1) =? qmax (dq_q d1)); [apply rh_step_inv|]; exact Hi1).
  destruct (qprepare_spec (dq_q d1) 64 FILL Hq1) as (q' & fr & Eq & Hq' & _ & Hcq').
  assert (E2 : exists q2, rs2 = mkrh (mkdq q2 (dq_st d1)) (rh_msgs rs) false (rh_in rs) /\ qinv q2 /\
                 contents q2 = contents (dq_q d1) /\
                 (if qlen (dq_q d1) =? qmax (dq_q d1)
                  then match qprepare (dq_q d1) 64 FILL with Ok (q', _) => Ok (Some q') | Err _ => Ok None | Fault => Fault end
                  else Ok (Some (dq_q d1))) = Ok (Some q2)).
  { unfold rs2. destruct (qlen (dq_q d1) =? qmax (dq_q d1)).
    - exists q'. rewrite E1. unfold rh_step. cbn [rh_stop rh_d dq_q dq_st rh_msgs rh_in]. rewrite Eq.
      split; [reflexivity|]. split; [exact Hq'|]. split; [exact Hcq'|reflexivity].
    - exists (dq_q d1). rewrite E1. destruct d1 as [q1 st1]. cbn [dq_q dq_st] in *. split; [reflexivity|]. split; [exact Hq1|]. split; reflexivity. }
  destruct E2 as (q2 & E2 & Hq2 & Hc2 & Ex). rewrite Ex in H. cbn [bind] in H.
  set (m := Nat.min (Nat.min k (length (gwire w))) (qmax q2 - qlen q2)) in *.
  set (ops12 := RShift :: (if qlen (dq_q d1) =? qmax (dq_q d1) then [RGrow 64 FILL] else [])).
  assert (E12 : rh_run v rs ops12 = rs2).
  { unfold ops12, rs2, rs1, rh_run. destruct (qlen (dq_q d1) =? qmax (dq_q d1)); reflexivity. }
  assert (Hp2 : pend (mkdq q2 (dq_st d1)) = pend (rh_d rs)).
  { rewrite <- Hp1. unfold pend. cbn [dq_q dq_st]. rewrite Hc2. reflexivity. }
  destruct (Nat.eqb_spec m 0) as [Hm0|Hm0].
  - inversion H; subst z w' n; clear H. exists ops12. cbn zeta. rewrite E12, E2.
    cbn [rh_stop rh_d rh_msgs rh_in gr gwire gw firstn skipn]. rewrite app_nil_r, <- Hd.
    repeat split; try reflexivity. exact Hp2.
  - pose proof (qpush_spec q2 (firstn m (gwire w)) Hq2) as Hps.
    assert (Hfl : length (firstn m (gwire w)) = m) by (rewrite firstn_length; unfold m; lia).
    rewrite Hfl in Hps.
    destruct (Nat.leb_spec m (qmax q2 - qlen q2)); [|unfold m in *; lia].
    destruct (Nat.eqb_spec (qmax q2 - qlen q2) 0); [unfold m in *; lia|]. cbn [andb negb] in Hps.
    destruct Hps as (q3 & Ep & Hq3 & _ & Hc3). rewrite Ep in H. cbn [bind] in H.
    inversion H; subst z w' n; clear H.
    exists (ops12 ++ [RWire (firstn m (gwire w))]). cbn zeta. rewrite rh_run_app, E12, E2.
    unfold rh_run. cbn [fold_left]. unfold rh_step. cbn [rh_stop rh_d dq_q dq_st rh_msgs rh_in]. rewrite Ep.
    cbn [rh_stop rh_d rh_msgs rh_in gr gwire gw]. rewrite <- Hd.
    repeat split; try reflexivity.
    rewrite <- Hp2. unfold pend. cbn [dq_q dq_st]. destruct (dmsg (dq_st d1)); [|reflexivity].
    f_equal. rewrite Hc3. apply decoded_app.
    assert (Hcc : cinv v F (dq_st d1) (contents q2)).
    { rewrite Hc2, Hc1, Hst1. apply cinv_drop; assumption. }
    destruct Hcc as (G1 & G2 & _). lia.
Qed.

(* which results of mpt_queue_recv leave a message for the caller *)
Lemma dqueue_recv_kinds v F d r d1 : qinv (dq_q d) -> cinv v F (dq_st d) (contents (dq_q d)) ->
  dqueue_recv v d = Ok (r, d1) ->
  match r with
  | RMsg => dmsg (dq_st d1) <> None
  | RMore | RErr MissingBuffer => dmsg (dq_st d1) = None
  | _ => True
  end.
Proof.
  intros Hq Hc H. unfold dqueue_recv in H.
  destruct (Nat.eqb_spec (qlen (dq_q d)) 0) as [Hz|Hz]; [inversion H; exact I|].
  pose proof (decode_ring_spec v F d Hq Hc) as Hdr.
  pose proof (dec_call_honest v F (dq_st d) (contents (dq_q d)) (ring_frags (dq_q d)) [qoff (dq_q d) mod 16] Hc) as Hpost.
  destruct (dec_call_res v (dq_st d) (contents (dq_q d)) (ring_frags (dq_q d)) [qoff (dq_q d) mod 16] false) as [[r0 st1] flat1].
  destruct Hdr as (q1 & E & Hq1 & Hc1 & Hl1 & _). rewrite E in H. cbn [bind] in H.
  assert (Hdel : forall F' q st x, qinv q -> cinv v F' st (contents q) -> recv_deliver (mkdq q st) = Ok x -> x = (r, d1) ->
            match r with RMsg => dmsg (dq_st d1) <> None | RMore | RErr MissingBuffer => dmsg (dq_st d1) = None | _ => True end).
  { intros F' q st x Hqq Hcc Ed Ex. destruct (recv_deliver_spec v F' q st Hqq Hcc) as (c & d' & Ed' & _ & Hst' & _).
    rewrite Ed', Ex in Ed. inversion Ed; subst r d1. rewrite Hst'. cbn [st_drop dmsg].
    destruct (dmsg st); [discriminate|reflexivity]. }
  destruct r0 as [| |e|].
  - destruct Hpost as (k & body & _ & _ & _ & _ & _ & _ & Hc' & _).
    apply (Hdel [] q1 st1 _ Hq1 ltac:(rewrite Hc1; exact Hc') H eq_refl).
  - destruct Hpost as (k & _ & _ & _ & _ & Hc' & _).
    apply (Hdel _ q1 st1 _ Hq1 ltac:(rewrite Hc1; exact Hc') H eq_refl).
  - destruct e; try (inversion H; exact I).
    destruct Hpost as (k & _ & _ & _ & _ & Hc' & Hm').
    rewrite <- Hl1 in H.
    destruct (recv_recover_spec v _ q1 st1 Hq1 ltac:(rewrite Hc1; exact Hc')) as [[_ Er]|(q3 & pre & gap & Hq3 & Hc3 & _ & Er)];
      rewrite Er in H.
    + inversion H; subst r d1. exact Hm'.
    + rewrite Hc1 in Hc3.
      destruct (cinv_rebuf v _ st1 flat1 pre gap Hc') as [Hc3' _]. rewrite <- Hc3 in Hc3'.
      pose proof (decode_ring_spec v _ (mkdq q3 (st_rebuf st1 (length pre) (length gap))) Hq3 Hc3') as Hdr3. cbn [dq_q dq_st] in Hdr3.
      pose proof (dec_call_honest v _ (st_rebuf st1 (length pre) (length gap)) (contents q3) (ring_frags q3) [qoff q3 mod 16] Hc3') as Hpost3.
      destruct (dec_call_res v (st_rebuf st1 (length pre) (length gap)) (contents q3) (ring_frags q3) [qoff q3 mod 16] false) as [[r2 st2] flat2].
      destruct Hdr3 as (q4 & E4 & Hq4 & Hc4 & _). rewrite E4 in H. cbn [bind] in H.
      destruct r2 as [| |e2|].
      * destruct Hpost3 as (k3 & body & _ & _ & _ & _ & _ & _ & Hc2' & _).
        apply (Hdel [] q4 st2 _ Hq4 ltac:(rewrite Hc4; exact Hc2') H eq_refl).
      * destruct Hpost3 as (k3 & _ & _ & _ & _ & Hc2' & _).
        apply (Hdel _ q4 st2 _ Hq4 ltac:(rewrite Hc4; exact Hc2') H eq_refl).
      * inversion H; subst r d1. destruct e2; try exact I.
        destruct Hpost3 as (k3 & _ & _ & _ & _ & _ & Hm2'). exact Hm2'.
      * inversion H; exact I.
  - inversion H; exact I.
Qed.

(* one mpt_queue_recv as a step of the reader history *)
Lemma recv_step v rs r d1 : rh_inv v rs -> rh_stop rs = false -> dqueue_recv v (rh_d rs) = Ok (r, d1) ->
  let rs' := rh_step v rs RRecv in
  rh_d rs' = d1 /\ rh_in rs' = rh_in rs /\
  (rh_stop rs' = true \/
   (rh_stop rs' = false /\
    match r with
    | RMsg => pend d1 <> [] /\ rh_msgs rs' = rh_msgs rs ++ pend d1
    | _ => pend d1 = [] /\ rh_msgs rs' = rh_msgs rs
    end)) /\
  (sstream v (dq_st (rh_d rs)) (contents (dq_q (rh_d rs))) ->
   rh_stop rs' = false /\ sstream v (dq_st d1) (contents (dq_q d1))).
Proof.
  intros Hi Est H. cbn zeta.
  pose proof (rh_step_inv v rs RRecv Hi) as Hi'.
  destruct (rh_cinv v rs Hi Est) as (Hq & F & Hc).
  pose proof (dqueue_recv_kinds v F (rh_d rs) r d1 Hq Hc H) as Hk.
  assert (Hstream : sstream v (dq_st (rh_d rs)) (contents (dq_q (rh_d rs))) -> qlen (dq_q (rh_d rs)) <> 0 ->
            (r = RMsg \/ r = RMore \/ r = RErr MissingBuffer) /\ sstream v (dq_st d1) (contents (dq_q d1))).
  { intros Hs Hne. apply (dqueue_recv_stream v F (rh_d rs) r d1 Hq Hc Hs Hne H). }
  unfold rh_step in *. rewrite Est in *.
  destruct (Nat.eqb_spec (qlen (dq_q (rh_d rs))) 0) as [Hz|Hz].
  - unfold dqueue_recv in H. destruct (Nat.eqb_spec (qlen (dq_q (rh_d rs))) 0); [|contradiction].
    inversion H; subst r d1. cbn [rh_d rh_in rh_stop rh_msgs]. split; [reflexivity|]. split; [reflexivity|].
    split.
    + right. split; [reflexivity|]. split; [|reflexivity].
      unfold pend, dst_consumed. cbn [dq_st]. destruct (dmsg (dq_st (rh_d rs))) eqn:Em; cbn [dmsg]; rewrite ?Em; reflexivity.
    + intros Hs. split; [reflexivity|]. cbn [dq_q dq_st]. unfold dst_consumed.
      destruct (dmsg (dq_st (rh_d rs))); [|exact Hs]. exact Hs.
  - specialize (fun Hs => Hstream Hs Hz).
    assert (Hns : sstream v (dq_st (rh_d rs)) (contents (dq_q (rh_d rs))) ->
              rh_stop (rh_after rs (Ok (r, d1))) = false /\ sstream v (dq_st d1) (contents (dq_q d1))).
    { intros Hs. destruct (Hstream Hs) as [Hk' Hs1]. destruct Hk' as [Hk'|[Hk'|Hk']]; subst r; (split; [reflexivity|exact Hs1]). }
    rewrite H in *. split; [|split; [|split; [|exact Hns]]]; clear Hns Hstream;
      [destruct r as [| |e|]; try destruct e; reflexivity|destruct r as [| |e|]; try destruct e; reflexivity|].
    destruct r as [| |e|]; cbn [rh_after rh_d rh_in rh_stop rh_msgs] in *.
    + right. split; [reflexivity|].
      destruct (rh_cinv v _ Hi' eq_refl) as (_ & F' & Hc'). cbn [rh_d] in Hc'.
      rewrite (dqueue_message_decoded v F' d1 Hc'). unfold pend.
      destruct (dmsg (dq_st d1)); [|contradiction]. split; [discriminate|reflexivity].
    + right. split; [reflexivity|].
      unfold pend. rewrite Hk. split; reflexivity.
    + destruct e; cbn [rh_after rh_d rh_in rh_stop rh_msgs]; try (left; reflexivity).
      right. split; [reflexivity|]. unfold pend. rewrite Hk. split; reflexivity.
    + left. reflexivity.
Qed.

(* streamRecv: receive; while MissingBuffer enlarge by 64 and receive again *)
Definition recv_out (v : variant) (rs rs' : rh) (z : Z) (d' : dqueue) : Prop :=
  rh_inv v rs' /\ rh_d rs' = d' /\ rh_in rs' = rh_in rs /\
  (rh_stop rs' = true \/
   (rh_stop rs' = false /\
    (((0 < z)%Z /\ pend d' <> [] /\ rh_msgs rs' = rh_msgs rs ++ pend d') \/
     ((z <= 0)%Z /\ pend d' = [] /\ rh_msgs rs' = rh_msgs rs)))) /\
  (sstream v (dq_st (rh_d rs)) (contents (dq_q (rh_d rs))) ->
   rh_stop rs' = false /\ sstream v (dq_st d') (contents (dq_q d'))).

(* the state after one receive, relative to the messages [m0], the input [i0] and the stream
   premise [P0] of the state the whole streamRecv started from *)
Definition recv_rel (v : variant) (m0 : list (list byte)) (i0 : list byte) (P0 : Prop) (rs' : rh) (r : rres) (d' : dqueue) : Prop :=
  rh_inv v rs' /\ rh_d rs' = d' /\ rh_in rs' = i0 /\
  (rh_stop rs' = true \/
   (rh_stop rs' = false /\
    match r with
    | RMsg => pend d' <> [] /\ rh_msgs rs' = m0 ++ pend d'
    | _ => pend d' = [] /\ rh_msgs rs' = m0
    end)) /\
  (P0 -> rh_stop rs' = false /\ sstream v (dq_st d') (contents (dq_q d'))) /\
  (r = RErr MissingBuffer -> rh_stop rs' = false).

Lemma recv_step_rel v rs r d1 : rh_inv v rs -> rh_stop rs = false -> dqueue_recv v (rh_d rs) = Ok (r, d1) ->
  recv_rel v (rh_msgs rs) (rh_in rs) (sstream v (dq_st (rh_d rs)) (contents (dq_q (rh_d rs)))) (rh_step v rs RRecv) r d1.
Proof.
  intros Hi Est H. destruct (recv_step v rs r d1 Hi Est H) as (Hd & Hin & Hcase & Hns).
  split; [apply rh_step_inv; exact Hi|]. split; [exact Hd|]. split; [exact Hin|]. split; [exact Hcase|]. split; [exact Hns|].
  intros ->. unfold rh_step. rewrite Est.
  destruct (Nat.eqb_spec (qlen (dq_q (rh_d rs))) 0); [reflexivity|]. rewrite H. reflexivity.
Qed.

Lemma grecv_loop_sim v m0 i0 (P0 : Prop) : forall fuel rs1 r d1 z d',
  recv_rel v m0 i0 P0 rs1 r d1 -> grecv_loop fuel v r d1 = Ok (z, d') ->
  exists rops, let rs' := rh_run v rs1 rops in
    rh_inv v rs' /\ rh_d rs' = d' /\ rh_in rs' = i0 /\
    (rh_stop rs' = true \/
     (rh_stop rs' = false /\
      (((0 < z)%Z /\ pend d' <> [] /\ rh_msgs rs' = m0 ++ pend d') \/
       ((z <= 0)%Z /\ pend d' = [] /\ rh_msgs rs' = m0)))) /\
    (P0 -> rh_stop rs' = false /\ sstream v (dq_st d') (contents (dq_q d'))).
Proof.
  induction fuel as [|fuel IH]; intros rs1 r d1 z d' (Hi1 & Hd1 & Hin1 & Hcase1 & Hns1 & Hmb1) H.
  - (* no more rounds *)
    assert (Hfin : forall zz, Ok (zz, d1) = Ok (z, d') ->
              (match r with RMsg => (0 < zz)%Z | _ => (zz <= 0)%Z end) ->
              exists rops, let rs' := rh_run v rs1 rops in
                rh_inv v rs' /\ rh_d rs' = d' /\ rh_in rs' = i0 /\
                (rh_stop rs' = true \/
                 (rh_stop rs' = false /\
                  (((0 < z)%Z /\ pend d' <> [] /\ rh_msgs rs' = m0 ++ pend d') \/
                   ((z <= 0)%Z /\ pend d' = [] /\ rh_msgs rs' = m0)))) /\
                (P0 -> rh_stop rs' = false /\ sstream v (dq_st d') (contents (dq_q d')))).
    { intros zz E Hz. inversion E; subst zz d'. exists []. cbn zeta. unfold rh_run. cbn [fold_left].
      split; [exact Hi1|]. split; [exact Hd1|]. split; [exact Hin1|]. split; [|exact Hns1].
      destruct Hcase1 as [Hs|[Hs Hm]]; [left; exact Hs|right; split; [exact Hs|]].
      destruct r as [| |e|]; [left; split; [exact Hz|exact Hm]|right; split; [exact Hz|exact Hm]
                            |right; split; [exact Hz|exact Hm]|right; split; [exact Hz|exact Hm]]. }
    cbn [grecv_loop] in H. destruct r as [| |e|]; cbn [rres_z bind] in H; try discriminate.
    + apply (Hfin _ H). lia.
    + apply (Hfin _ H). lia.
    + destruct e; cbn [rres_z bind] in H; apply (Hfin _ H); cbn; lia.
  - assert (Hfin : forall zz, Ok (zz, d1) = Ok (z, d') ->
              (match r with RMsg => (0 < zz)%Z | _ => (zz <= 0)%Z end) ->
              exists rops, let rs' := rh_run v rs1 rops in
                rh_inv v rs' /\ rh_d rs' = d' /\ rh_in rs' = i0 /\
                (rh_stop rs' = true \/
                 (rh_stop rs' = false /\
                  (((0 < z)%Z /\ pend d' <> [] /\ rh_msgs rs' = m0 ++ pend d') \/
                   ((z <= 0)%Z /\ pend d' = [] /\ rh_msgs rs' = m0)))) /\
                (P0 -> rh_stop rs' = false /\ sstream v (dq_st d') (contents (dq_q d')))).
    { intros zz E Hz. inversion E; subst zz d'. exists []. cbn zeta. unfold rh_run. cbn [fold_left].
      split; [exact Hi1|]. split; [exact Hd1|]. split; [exact Hin1|]. split; [|exact Hns1].
      destruct Hcase1 as [Hs|[Hs Hm]]; [left; exact Hs|right; split; [exact Hs|]].
      destruct r as [| |e|]; [left; split; [exact Hz|exact Hm]|right; split; [exact Hz|exact Hm]
                            |right; split; [exact Hz|exact Hm]|right; split; [exact Hz|exact Hm]]. }
    cbn [grecv_loop] in H. destruct r as [| |e|]; cbn [rres_z bind] in H; try discriminate.
    + apply (Hfin _ H). lia.
    + apply (Hfin _ H). lia.
    + destruct e; try (cbn [rres_z bind] in H; apply (Hfin _ H); cbn; lia).
      (* MissingBuffer: enlarge and receive again *)
      pose proof (Hmb1 eq_refl) as Hs1.
      destruct Hcase1 as [Hbad|[_ [Hp1 Hm1]]]; [congruence|].
      destruct (rh_cinv v rs1 Hi1 Hs1) as (Hq1 & _). rewrite Hd1 in Hq1.
      destruct (qprepare_spec (dq_q d1) 64 FILL Hq1) as (q' & fr & Eq & _ & _ & Hcq'). rewrite Eq in H.
      set (rs2 := rh_step v rs1 (RGrow 64 FILL)).
      assert (E2 : rs2 = mkrh (mkdq q' (dq_st d1)) (rh_msgs rs1) false (rh_in rs1)).
      { unfold rs2, rh_step. rewrite Hs1, Hd1, Eq. reflexivity. }
      pose proof (rh_step_inv v rs1 (RGrow 64 FILL) Hi1) as Hi2. fold rs2 in Hi2.
      destruct (dqueue_recv v (mkdq q' (dq_st d1))) as [[r2 d2]| |] eqn:E3; [|discriminate|discriminate]. cbn [bind] in H.
      pose proof (recv_step_rel v rs2 r2 d2 Hi2 ltac:(rewrite E2; reflexivity) ltac:(rewrite E2; exact E3)) as Hrel.
      assert (Hrel' : recv_rel v m0 i0 P0 (rh_step v rs2 RRecv) r2 d2).
      { destruct Hrel as (A1 & A2 & A3 & A4 & A5 & A6). split; [exact A1|]. split; [exact A2|].
        split; [rewrite A3, E2; cbn [rh_in]; exact Hin1|].
        assert (Hm2 : rh_msgs rs2 = m0) by (rewrite E2; cbn [rh_msgs]; exact Hm1).
        split; [rewrite Hm2 in A4; exact A4|].
        split; [|exact A6].
        intros HP. destruct (Hns1 HP) as [_ Hsd1]. apply A5. rewrite E2. cbn [rh_d dq_q dq_st]. rewrite Hcq'. exact Hsd1. }
      destruct (IH (rh_step v rs2 RRecv) r2 d2 z d' Hrel' H) as (rops & Hfinal).
      exists (RGrow 64 FILL :: RRecv :: rops). cbn zeta. unfold rh_run. cbn [fold_left]. fold rs2. exact Hfinal.
Qed.

Lemma grecv_sim v rs z d' : rh_inv v rs -> rh_stop rs = false -> grecv v (rh_d rs) = Ok (z, d') ->
  exists rops, recv_out v rs (rh_run v rs rops) z d'.
Proof.
  intros Hi Est H. unfold grecv in H.
  destruct (dqueue_recv v (rh_d rs)) as [[r d1]| |] eqn:E1; [|discriminate|discriminate]. cbn [bind] in H.
  pose proof (recv_step_rel v rs r d1 Hi Est E1) as Hrel.
  destruct (grecv_loop_sim v _ _ _ _ _ r d1 z d' Hrel H) as (rops & Hfinal).
  exists (RRecv :: rops). unfold recv_out. unfold rh_run. cbn [fold_left]. exact Hfinal.
Qed.

(* ---------- the ghost state of a glue history ---------- *)
(* [g_ws], [g_rs]: the ring-level writer and reader histories the glue history stands for;
   [g_del]: the messages handed to the message handler so far *)
Record gh := mkgh { g_ws : wh; g_rs : rh; g_del : list (list byte) }.

Definition rrel (v : variant) (w : gworld) (g : gh) : Prop :=
  rh_inv v (g_rs g) /\ rh_stop (g_rs g) = false /\ rh_d (g_rs g) = gr w /\
  wh_sent (g_ws g) = rh_in (g_rs g) ++ gwire w /\ rh_msgs (g_rs g) = g_del g ++ pend (gr w).

(* the reader history never stops: the bytes it is fed are a prefix of a well-formed stream *)
Definition grel (v : variant) (w : gworld) (g : gh) : Prop :=
  wh_inv0 v (g_ws g) /\ wh_e (g_ws g) = gw w /\ rrel v w g /\ gapinv v (dq_st (gr w)).

Lemma pend_single v F d : cinv v F (dq_st d) (contents (dq_q d)) -> pend d <> [] ->
  exists x, pend d = [x] /\ dqueue_message d = Some x.
Proof.
  intros Hc Hp. rewrite (dqueue_message_decoded v F d Hc). unfold pend in *.
  destruct (dmsg (dq_st d)); [|contradiction]. eexists. split; reflexivity.
Qed.

(* everything the writer has finished so far is a prefix of a well-formed stream *)
Lemma enc_inv_finished v pre consumed st buf : enc_inv v pre consumed st buf ->
  wfs0 v (firstn (edone st) buf) = true -> True.
Proof. auto. Qed.

Lemma wfs0_nozero_blocks v bs : Forall (block_ok v) bs -> wfs0 v (flat bs) = true.
Proof.
  intros Hbs. apply (wfs0_app_l v (flat bs) [nb 1]). rewrite (wfs0_blocks v bs 1 [] Hbs ltac:(lia)). reflexivity.
Qed.

Lemma wfs0_stream v ms P X : frames_of v ms P -> (exists bs, Forall (block_ok v) bs /\ X = flat bs) -> wfs0 v (P ++ X) = true.
Proof.
  intros Hf (bs & Hbs & ->). rewrite (wfs0_frames v ms P Hf). apply wfs0_nozero_blocks. exact Hbs.
Qed.

(* what the reader ring holds unread is a prefix of a well-formed stream *)
Lemma stream_of_rel v w g : grel v w g -> sstream v (dq_st (gr w)) (contents (dq_q (gr w))).
Proof.
  intros (Hw & He & (Hi & Est & Hd & Hsent & Hm) & Hg). split; [|exact Hg].
  destruct Hi as [Hh _]. unfold flat_of in Hh. rewrite Est in Hh. destruct Hh as (C & F & HfC & HI & Hc).
  cbn [hs_msgs hs_st hs_buf] in HfC, HI, Hc. rewrite Hd in HI, Hc.
  set (st := dq_st (gr w)) in *. set (unread := skipn (dcurr st) (contents (dq_q (gr w)))) in *.
  (* the finished part of the writer's stream *)
  assert (HT : exists T, wfs0 v T = true /\ exists rest, T = wh_sent (g_ws g) ++ rest).
  { destruct Hw as [(Hlt & pre & Hfp & [[Hq Hl] Hinv])|(Hq & _ & _ & Hs0 & _)].
    - destruct Hinv as [H0 Hdn Hb Hcn | bs open Hli Hdn Hb].
      + exists pre. split; [rewrite <- (app_nil_r pre); apply (wfs0_stream v _ pre [] Hfp); exists []; split; [constructor|reflexivity]|].
        exists (contents (eq_q (wh_e (g_ws g)))). symmetry. exact Hb.
      + exists (pre ++ flat bs). split; [apply (wfs0_stream v _ pre _ Hfp); exists bs; split; [apply Hli|reflexivity]|].
        (* the finished bytes are a prefix of sent ++ contents that covers sent *)
        assert (Hlen : length (wh_sent (g_ws g)) <= length (pre ++ flat bs)).
        { unfold EncShift.shift_st in Hdn. cbn [edone] in Hdn. lia. }
        exists (skipn (length (wh_sent (g_ws g))) (pre ++ flat bs)).
        rewrite <- (firstn_skipn (length (wh_sent (g_ws g))) (pre ++ flat bs)) at 1. f_equal.
        assert (E : firstn (length (wh_sent (g_ws g))) ((pre ++ flat bs) ++ nb (escr (EncShift.shift_st (eq_st (wh_e (g_ws g))) (length (wh_sent (g_ws g))))) :: open) =
                    wh_sent (g_ws g)) by (rewrite <- Hb; apply firstn_app_exact).
        rewrite firstn_app in E. replace (length (wh_sent (g_ws g)) - length (pre ++ flat bs)) with 0 in E by lia.
        cbn [firstn] in E. rewrite app_nil_r in E. exact E.
    - exists []. split; [reflexivity|]. exists []. rewrite Hs0. reflexivity. }
  destruct HT as (T & HwT & rest & ET).
  rewrite Hsent, HI, <- !app_assoc in ET.
  assert (Hsuf : wfs0 v (F ++ unread ++ gwire w ++ rest) = true).
  { rewrite ET in HwT. rewrite (wfs0_frames v _ C HfC) in HwT. exact HwT. }
  destruct Hc as (_ & _ & Hmm).
  destruct (dmsg st) as [c|] eqn:Em.
  - destruct Hmm as (_ & Hcode & ->). rewrite Hcode. cbn [Nat.eqb app] in *. apply (wfs0_app_l v unread _ Hsuf).
  - destruct (Nat.eqb_spec (dcode st) 0) as [Hcode|Hcode].
    + destruct Hmm as [_ ->]. cbn [app] in Hsuf. apply (wfs0_app_l v unread _ Hsuf).
    + rewrite (honz_wfs v F _ _ _ _ _ Hmm) in Hsuf. apply (wfs_app_l v unread _ _ _ Hsuf).
Qed.

(* the second half of mpt_stream_dispatch: hand the held message over, look ahead *)
Lemma disp_go v rs del d0 z m d2 : rh_inv v rs -> rh_stop rs = false -> rh_d rs = d0 ->
  rh_msgs rs = del ++ pend d0 -> pend d0 <> [] -> sstream v (dq_st d0) (contents (dq_q d0)) ->
  grecv v d0 = Ok (z, d2) -> m = dqueue_message d0 ->
  exists x rops, m = Some x /\ let rs' := rh_run v rs rops in
    rh_inv v rs' /\ rh_d rs' = d2 /\ rh_in rs' = rh_in rs /\
    rh_stop rs' = false /\ rh_msgs rs' = (del ++ [x]) ++ pend d2 /\ sstream v (dq_st d2) (contents (dq_q d2)).
Proof.
  intros Hi Est Hd Hm Hp Hs Hg ->.
  destruct (rh_cinv v rs Hi Est) as (_ & F & Hc). rewrite Hd in Hc.
  destruct (pend_single v F d0 Hc Hp) as (x & Hx & Hmsg).
  destruct (grecv_sim v rs z d2 Hi Est ltac:(rewrite Hd; exact Hg)) as (rops & Hi' & Hd' & Hin' & Hcase & Hns).
  destruct (Hns ltac:(rewrite Hd; exact Hs)) as [Hstop' Hs'].
  exists x, rops. split; [exact Hmsg|]. cbn zeta. split; [exact Hi'|]. split; [exact Hd'|]. split; [exact Hin'|].
  split; [exact Hstop'|]. split; [|exact Hs'].
  destruct Hcase as [Hs0|[_ [(Hz & Hp2 & Hm2)|(Hz & Hp2 & Hm2)]]]; [congruence| |].
  - rewrite Hm2, Hm, Hx. reflexivity.
  - rewrite Hm2, Hm, Hx, Hp2, app_nil_r. reflexivity.
Qed.

Lemma sstream_gapinv v st buf : sstream v st buf -> gapinv v st.
Proof. intros [_ H]. exact H. Qed.

Lemma gdisp_sim v w g z m w' : grel v w g -> gdisp v w = Ok (z, m, w') ->
  exists g', grel v w' g' /\ g_ws g' = g_ws g /\ gw w' = gw w /\ gwire w' = gwire w /\
    g_del g' = g_del g ++ (match m with Some x => [x] | None => [] end).
Proof.
  intros Hg H. pose proof (stream_of_rel v w g Hg) as Hs.
  destruct Hg as (Hw & He & (Hi & Est & Hd & Hsent & Hmsgs) & _).
  unfold gdisp in H.
  (* common second half *)
  assert (Hgo : forall rs0 del0 d0, rh_inv v rs0 -> rh_stop rs0 = false -> rh_d rs0 = d0 -> rh_in rs0 = rh_in (g_rs g) ->
            rh_msgs rs0 = del0 ++ pend d0 -> pend d0 <> [] -> sstream v (dq_st d0) (contents (dq_q d0)) -> del0 = g_del g ->
            (do '(z2, d2) <- grecv v d0; Ok ((if (0 <? z2)%Z then RETRY else 0%Z), dqueue_message d0, mkgw (gw w) d2 (gwire w))) = Ok (z, m, w') ->
            exists g', grel v w' g' /\ g_ws g' = g_ws g /\ gw w' = gw w /\ gwire w' = gwire w /\
              g_del g' = g_del g ++ (match m with Some x => [x] | None => [] end)).
  { intros rs0 del0 d0 Hi0 Es0 Hd0 Hin0 Hm0 Hp0 Hs0 -> E.
    destruct (grecv v d0) as [[z2 d2]| |] eqn:Eg; [|discriminate|discriminate]. cbn [bind] in E. inversion E; subst z m w'; clear E.
    destruct (disp_go v rs0 (g_del g) d0 z2 _ d2 Hi0 Es0 Hd0 Hm0 Hp0 Hs0 Eg eq_refl) as (x & rops & Hx & Hi' & Hd' & Hin' & Hst' & Hm' & Hs').
    rewrite Hx. exists (mkgh (g_ws g) (rh_run v rs0 rops) (g_del g ++ [x])). cbn [g_ws g_rs g_del gw gr gwire].
    split; [|repeat split; reflexivity].
    split; [exact Hw|]. split; [exact He|]. split; [|apply (sstream_gapinv v _ _ Hs')].
    unfold rrel. cbn [g_ws g_rs g_del gr gwire].
    split; [exact Hi'|]. split; [exact Hst'|]. split; [exact Hd'|]. split; [rewrite Hin', Hin0; exact Hsent|exact Hm']. }
  destruct (dmsg (dq_st (gr w))) as [c|] eqn:Em.
  - (* a message is held *)
    cbn [bind] in H.
    assert (Hp : pend (gr w) <> []) by (unfold pend; rewrite Em; discriminate).
    apply (Hgo (g_rs g) (g_del g) (gr w) Hi Est Hd eq_refl Hmsgs Hp Hs eq_refl H).
  - assert (Hp0 : pend (gr w) = []) by (unfold pend; rewrite Em; reflexivity).
    rewrite Hp0, app_nil_r in Hmsgs.
    destruct (grecv v (gr w)) as [[zf d0]| |] eqn:Eg; [|discriminate|discriminate]. cbn [bind] in H.
    destruct (grecv_sim v (g_rs g) zf d0 Hi Est ltac:(rewrite Hd; exact Eg)) as (rops & Hi0 & Hd0 & Hin0 & Hcase0 & Hns0).
    destruct (Hns0 ltac:(rewrite Hd; exact Hs)) as [Hst0 Hs0].
    set (rs0 := rh_run v (g_rs g) rops) in *.
    destruct Hcase0 as [Hbad|[_ Hcase0]]; [congruence|].
    assert (Hnomsg : (z, m, w') = (zf, None, mkgw (gw w) d0 (gwire w)) -> (zf <= 0)%Z ->
              exists g', grel v w' g' /\ g_ws g' = g_ws g /\ gw w' = gw w /\ gwire w' = gwire w /\
                g_del g' = g_del g ++ (match m with Some x => [x] | None => [] end)).
    { intros E Hz. inversion E; subst z m w'. exists (mkgh (g_ws g) rs0 (g_del g)). cbn [g_ws g_rs g_del gr gw gwire].
      rewrite app_nil_r. split; [|repeat split; reflexivity].
      split; [exact Hw|]. split; [exact He|]. split; [|apply (sstream_gapinv v _ _ Hs0)].
      destruct Hcase0 as [(Hz' & _)|(_ & Hp2 & Hm2)]; [lia|]. unfold rrel. cbn [g_ws g_rs g_del gr gwire].
      split; [exact Hi0|]. split; [exact Hst0|]. split; [exact Hd0|]. split; [rewrite Hin0; exact Hsent|].
      rewrite Hm2, Hp2, app_nil_r. exact Hmsgs. }
    destruct (Z.ltb_spec zf 0); [apply Hnomsg; [inversion H; reflexivity|lia]|].
    destruct (Z.eqb_spec zf 0); [apply Hnomsg; [inversion H; congruence|lia]|].
    destruct Hcase0 as [(Hz' & Hp2 & Hm2)|(Hz' & _)]; [|lia].
    rewrite Hmsgs in Hm2.
    apply (Hgo rs0 (g_del g) d0 Hi0 Hst0 Hd0 Hin0 Hm2 Hp2 Hs0 eq_refl H).
Qed.

(* ---------- every operation keeps the relation ---------- *)
(* operations that do not push: completed/open message unchanged, [got] handed to the handler *)
Definition keeps (v : variant) (g : gh) (w' : gworld) (got : list (list byte)) : Prop :=
  exists g', grel v w' g' /\ g_del g' = g_del g ++ got /\
    wh_done (g_ws g') = wh_done (g_ws g) /\ wh_cur (g_ws g') = wh_cur (g_ws g).

Lemma flush_keeps v w g k z w' n : variant_ok v -> grel v w g -> gflush w k = Ok (z, w', n) -> keeps v g w' [].
Proof.
  intros Hv (Hw & He & (Hi & Est & Hd & Hsent & Hm) & Hg) H.
  destruct (gflush_sim v w k (g_ws g) z w' n Hw He H) as (wops & ws' & bytes & Hrun & He' & Hs' & Hwire & Hgr & Hd' & Hc' & _).
  exists (mkgh ws' (g_rs g) (g_del g)). cbn [g_ws g_rs g_del]. rewrite app_nil_r.
  split; [|repeat split; assumption].
  split; [apply (wh_run_inv0 v Hv wops _ _ Hw Hrun)|]. split; [exact He'|]. split; [|rewrite Hgr; exact Hg].
  unfold rrel. cbn [g_ws g_rs g_del]. rewrite Hgr, Hs', Hwire, Hsent, app_assoc.
  split; [exact Hi|]. split; [exact Est|]. split; [exact Hd|]. split; [reflexivity|exact Hm].
Qed.

Lemma gapinv_drop v st c : dropok st c -> gapinv v st -> gapinv v (st_drop st c).
Proof.
  intros [Hc1 Hc] Hg. unfold gapinv, gapof in *. cbn [st_drop dcode dpos8 dcurr dpos dlen].
  intros Hcode Hp. specialize (Hg Hcode Hp). destruct Hc as [Hc|[_ Hc]]; [lia|contradiction].
Qed.

Lemma gpoll_state v w k z w' n F : qinv (dq_q (gr w)) -> cinv v F (dq_st (gr w)) (contents (dq_q (gr w))) ->
  gpoll w k = Ok (z, w', n) -> gw w' = gw w /\ exists c, dropok (dq_st (gr w)) c /\ dq_st (gr w') = st_drop (dq_st (gr w)) c.
Proof.
  intros Hq Hc H. unfold gpoll in H.
  destruct (dqueue_shift_spec v F (gr w) Hq Hc) as (c & d1 & Es & Hdrop & Hst1 & _). rewrite Es in H. cbn [bind] in H.
  assert (Hgoal : forall w0, gw w0 = gw w -> dq_st (gr w0) = dq_st d1 ->
            gw w0 = gw w /\ exists c, dropok (dq_st (gr w)) c /\ dq_st (gr w0) = st_drop (dq_st (gr w)) c).
  { intros w0 E1 E2. split; [exact E1|]. exists c. split; [exact Hdrop|]. rewrite E2. exact Hst1. }
  destruct (if qlen (dq_q d1) =? qmax (dq_q d1) then _ else _) as [[q1|]| |]; try discriminate; cbn [bind] in H.
  - destruct (Nat.min _ _ =? 0); [inversion H; apply Hgoal; reflexivity|].
    destruct (match qpush q1 _ with Ok q' => Ok q' | Err _ => Ok q1 | Fault => Fault end) as [q2| |]; [|discriminate|discriminate].
    cbn [bind] in H. inversion H; apply Hgoal; reflexivity.
  - inversion H; apply Hgoal; reflexivity.
Qed.

Lemma poll_keeps v w g k z w' n : grel v w g -> gpoll w k = Ok (z, w', n) -> keeps v g w' [].
Proof.
  intros (Hw & He & (Hi & Est & Hd & Hsent & Hm) & Hg) H.
  destruct (rh_cinv v (g_rs g) Hi Est) as (Hq & F & Hc). rewrite Hd in Hq, Hc.
  destruct (gpoll_state v w k z w' n F Hq Hc H) as (Hgw & c & Hdrop & Hst).
  destruct (gpoll_sim v w k (g_rs g) z w' n Hi Est Hd H) as (rops & Hs' & Hd' & Hm' & Hin' & Hwire' & _ & Hp').
  cbn zeta in *. exists (mkgh (g_ws g) (rh_run v (g_rs g) rops) (g_del g)). cbn [g_ws g_rs g_del]. rewrite app_nil_r.
  split; [|repeat split; reflexivity].
  split; [exact Hw|]. split; [rewrite Hgw; exact He|]. split; [|rewrite Hst; apply gapinv_drop; assumption].
  unfold rrel. cbn [g_ws g_rs g_del].
  split; [apply rh_run_inv; exact Hi|]. split; [exact Hs'|]. split; [exact Hd'|].
  split; [rewrite Hin', Hwire', <- app_assoc, firstn_skipn; exact Hsent|rewrite Hm', Hp'; exact Hm].
Qed.

Lemma disp_keeps v w g z m w' : grel v w g -> gdisp v w = Ok (z, m, w') ->
  keeps v g w' (match m with Some x => [x] | None => [] end).
Proof.
  intros Hg H. destruct (gdisp_sim v w g z m w' Hg H) as (g' & Hg' & Hws & _ & _ & Hdel).
  exists g'. rewrite Hws. split; [exact Hg'|]. split; [exact Hdel|]. split; reflexivity.
Qed.

Lemma keeps_trans v g w1 got1 g1 w2 got2 :
  grel v w1 g1 -> g_del g1 = g_del g ++ got1 -> wh_done (g_ws g1) = wh_done (g_ws g) -> wh_cur (g_ws g1) = wh_cur (g_ws g) ->
  keeps v g1 w2 got2 -> keeps v g w2 (got1 ++ got2).
Proof.
  intros _ Hd Hdn Hc (g2 & Hg2 & Hd2 & Hdn2 & Hc2). exists g2. split; [exact Hg2|].
  split; [rewrite Hd2, Hd, app_assoc; reflexivity|]. split; congruence.
Qed.

Lemma disp_all_keeps v : forall fuel w g got w' got', grel v w g ->
  gdisp_all fuel v w got = Ok (w', got') -> exists more, got' = got ++ more /\ keeps v g w' more.
Proof.
  induction fuel as [|fuel IH]; intros w g got w' got' Hg H; cbn [gdisp_all] in H.
  - inversion H; subst. exists []. rewrite app_nil_r. split; [reflexivity|].
    exists g. rewrite app_nil_r. split; [exact Hg|]. split; [reflexivity|]. split; reflexivity.
  - destruct (gdisp v w) as [[[z m] w1]| |] eqn:E; [|discriminate|discriminate]. cbn [bind] in H.
    destruct (disp_keeps v w g z m w1 Hg E) as (g1 & Hg1 & Hd1 & Hdn1 & Hc1).
    destruct m as [x|].
    + destruct (IH w1 g1 (got ++ [x]) w' got' Hg1 H) as (more & -> & Hk).
      exists ([x] ++ more). rewrite app_assoc. split; [reflexivity|].
      apply (keeps_trans v g w1 [x] g1 w' more Hg1 Hd1 Hdn1 Hc1 Hk).
    + inversion H; subst. exists []. rewrite app_nil_r. split; [reflexivity|].
      exists g1. split; [exact Hg1|]. split; [exact Hd1|]. split; assumption.
Qed.

Lemma drain_keeps v : variant_ok v -> forall fuel w g got w' got', grel v w g ->
  gdrain fuel v w got = Ok (w', got') -> exists more, got' = got ++ more /\ keeps v g w' more.
Proof.
  intros Hv. induction fuel as [|fuel IH]; intros w g got w' got' Hg H; cbn [gdrain] in H.
  - inversion H; subst. exists []. rewrite app_nil_r. split; [reflexivity|].
    exists g. rewrite app_nil_r. split; [exact Hg|]. split; [reflexivity|]. split; reflexivity.
  - (* flush *)
    destruct (if edone (eq_st (gw w)) =? 0 then Ok (0%Z, w, 0) else gflush w (Z.of_nat (edone (eq_st (gw w))))) as [[[z1 w1] n1]| |] eqn:E1;
      [|discriminate|discriminate]. cbn [bind] in H.
    assert (K1 : keeps v g w1 []).
    { destruct (edone (eq_st (gw w)) =? 0).
      - inversion E1; subst. exists g. rewrite app_nil_r. split; [exact Hg|]. split; [reflexivity|]. split; reflexivity.
      - apply (flush_keeps v w g _ z1 w1 n1 Hv Hg E1). }
    destruct K1 as (g1 & Hg1 & Hd1 & Hdn1 & Hc1). rewrite app_nil_r in Hd1.
    destruct (match gwire w1 with [] => Ok (0%Z, w1, 0) | _ :: _ => gpoll w1 (length (gwire w1)) end) as [[[z2 w2] n2]| |] eqn:E2;
      [|discriminate|discriminate]. cbn [bind] in H.
    assert (K2 : keeps v g1 w2 []).
    { destruct (gwire w1).
      - inversion E2; subst. exists g1. rewrite app_nil_r. split; [exact Hg1|]. split; [reflexivity|]. split; reflexivity.
      - apply (poll_keeps v w1 g1 _ z2 w2 n2 Hg1 E2). }
    destruct K2 as (g2 & Hg2 & Hd2 & Hdn2 & Hc2). rewrite app_nil_r in Hd2.
    destruct (gdisp_all (S (qlen (dq_q (gr w2)))) v w2 got) as [[w3 got3]| |] eqn:E3; [|discriminate|discriminate]. cbn [bind] in H.
    destruct (disp_all_keeps v _ w2 g2 got w3 got3 Hg2 E3) as (more3 & -> & (g3 & Hg3 & Hd3 & Hdn3 & Hc3)).
    assert (K3 : keeps v g w3 more3).
    { exists g3. split; [exact Hg3|]. split; [congruence|]. split; congruence. }
    destruct ((n1 =? 0) && (n2 =? 0) && (length (got ++ more3) =? length got)).
    + inversion H; subst. exists more3. split; [reflexivity|exact K3].
    + destruct K3 as (g3' & Hg3' & Hd3' & Hdn3' & Hc3').
      destruct (IH w3 g3' (got ++ more3) w' got' Hg3' H) as (more & -> & Hk).
      exists (more3 ++ more). rewrite app_assoc. split; [reflexivity|].
      apply (keeps_trans v g w3 more3 g3' w' more Hg3' Hd3' Hdn3' Hc3' Hk).
Qed.

(* ---------- whole histories ---------- *)
(* the messages handed over completely, computed from the operations and their return values *)
Record gsp := mkgsp { sp_done : list (list byte); sp_cur : list byte }.

Definition gspec_step (s : gsp) (o : gop) (z : Z) : gsp :=
  match o with
  | GPush d => if (0 <=? z)%Z then mkgsp (sp_done s) (sp_cur s ++ firstn (Z.to_nat z) d) else s
  | GFin => if (0 <=? z)%Z then mkgsp (sp_done s ++ [sp_cur s]) [] else s
  | _ => s
  end.

Fixpoint gfold (v : variant) (w : gworld) (sp : gsp) (del : list (list byte)) (ops : list gop)
  : res (gworld * gsp * list (list byte)) :=
  match ops with
  | [] => Ok (w, sp, del)
  | o :: ops => do '(w', z, got) <- gstep v w o; gfold v w' (gspec_step sp o z) (del ++ got) ops
  end.

Definition sp_of (g : gh) : gsp := mkgsp (wh_done (g_ws g)) (wh_cur (g_ws g)).

Lemma keeps_step v g w' got o z : (match o with GPush _ | GFin => False | _ => True end) ->
  keeps v g w' got -> exists g', grel v w' g' /\ g_del g' = g_del g ++ got /\ sp_of g' = gspec_step (sp_of g) o z.
Proof.
  intros Ho (g' & Hg' & Hd & Hdn & Hc). exists g'. split; [exact Hg'|]. split; [exact Hd|].
  unfold sp_of. rewrite Hdn, Hc. destruct o; try contradiction; reflexivity.
Qed.

Lemma gstep_rel v w g o w' z got : variant_ok v -> grel v w g -> gstep v w o = Ok (w', z, got) ->
  exists g', grel v w' g' /\ g_del g' = g_del g ++ got /\ sp_of g' = gspec_step (sp_of g) o z.
Proof.
  intros Hv Hg H. pose proof Hg as (Hw & He & (Hi & Est & Hd & Hsent & Hm) & Hgap).
  assert (Hpush : forall ws' e', wh_inv0 v ws' -> wh_e ws' = e' -> wh_sent ws' = wh_sent (g_ws g) ->
            grel v (mkgw e' (gr w) (gwire w)) (mkgh ws' (g_rs g) (g_del g))).
  { intros ws' e' Hw' He' Hs'. split; [exact Hw'|]. split; [exact He'|]. split; [|exact Hgap].
    unfold rrel. cbn [g_ws g_rs g_del gr gwire]. rewrite Hs'.
    split; [exact Hi|]. split; [exact Est|]. split; [exact Hd|]. split; [exact Hsent|exact Hm]. }
  destruct o as [d| |k|k| |]; cbn [gstep] in H.
  - (* push *)
    destruct d as [|x d].
    + inversion H; subst w' z got. exists g. rewrite app_nil_r. split; [exact Hg|]. split; [reflexivity|].
      unfold sp_of, gspec_step. cbn [Z.leb Z.to_nat firstn sp_done sp_cur]. rewrite app_nil_r. reflexivity.
    + destruct (gpush_loop (gpush_fuel (Some (x :: d))) v (gw w) (Some (x :: d)) 0 0) as [[zz e']| |] eqn:E; [|discriminate|discriminate].
      cbn [bind] in H. inversion H; subst w' z got; clear H. rewrite <- He in E.
      destruct (gpush_data_sim v (x :: d) _ (g_ws g) 0 0 zz e' ltac:(cbn [length]; lia) E)
        as (wops & ws' & k & Hrun & He' & Hs' & Hd' & Hc' & Hz1 & Hz2).
      exists (mkgh ws' (g_rs g) (g_del g)). rewrite app_nil_r.
      split; [apply Hpush; [apply (wh_run_inv0 v Hv wops _ _ Hw Hrun)|exact He'|exact Hs']|]. split; [reflexivity|].
      unfold sp_of, gspec_step. cbn [g_ws sp_done sp_cur skipn Nat.add] in *. rewrite Hd', Hc'.
      destruct (Z.leb_spec 0 zz) as [Hz|Hz].
      * rewrite (Hz1 Hz). rewrite Nat2Z.id. reflexivity.
      * rewrite (Hz2 Hz). cbn [firstn]. rewrite app_nil_r. reflexivity.
  - (* terminate *)
    destruct (gpush_loop (gpush_fuel None) v (gw w) None 0 0) as [[zz e']| |] eqn:E; [|discriminate|discriminate].
    cbn [bind] in H. inversion H; subst w' z got; clear H. rewrite <- He in E.
    destruct (gpush_term_sim v _ (g_ws g) zz e' E) as (wops & ws' & Hrun & He' & Hs' & Hcase).
    exists (mkgh ws' (g_rs g) (g_del g)). rewrite app_nil_r.
    split; [apply Hpush; [apply (wh_run_inv0 v Hv wops _ _ Hw Hrun)|exact He'|exact Hs']|]. split; [reflexivity|].
    unfold sp_of, gspec_step. cbn [g_ws sp_done sp_cur].
    destruct Hcase as [(Hz & Hd' & Hc')|(Hz & Hd' & Hc')]; rewrite Hd', Hc'.
    + destruct (Z.leb_spec 0 zz); [reflexivity|lia].
    + destruct (Z.leb_spec 0 zz); [lia|reflexivity].
  - destruct (gflush w k) as [[[zz w1] n]| |] eqn:E; [|discriminate|discriminate]. cbn [bind] in H. inversion H; subst.
    apply keeps_step; [exact I|]. apply (flush_keeps v w g k z w' n Hv Hg E).
  - destruct (gpoll w k) as [[[zz w1] n]| |] eqn:E; [|discriminate|discriminate]. cbn [bind] in H. inversion H; subst.
    apply keeps_step; [exact I|]. apply (poll_keeps v w g k z w' n Hg E).
  - destruct (gdisp v w) as [[[zz m] w1]| |] eqn:E; [|discriminate|discriminate]. cbn [bind] in H. inversion H; subst.
    apply keeps_step; [exact I|]. apply (disp_keeps v w g z m w' Hg E).
  - destruct (gdrain (gdrain_fuel w) v w []) as [[w1 got1]| |] eqn:E; [|discriminate|discriminate]. cbn [bind] in H. inversion H; subst.
    apply keeps_step; [exact I|].
    destruct (drain_keeps v Hv _ w g [] w' got Hg E) as (more & Em & Hk). cbn [app] in Em. subst more. exact Hk.
Qed.

Theorem gfold_rel v : variant_ok v -> forall ops w g w' sp' del',
  grel v w g -> gfold v w (sp_of g) (g_del g) ops = Ok (w', sp', del') ->
  exists g', grel v w' g' /\ g_del g' = del' /\ sp_of g' = sp'.
Proof.
  intros Hv. induction ops as [|o ops IH]; intros w g w' sp' del' Hg H; cbn [gfold] in H.
  - inversion H; subst. exists g. split; [exact Hg|]. split; reflexivity.
  - destruct (gstep v w o) as [[[w1 z] got]| |] eqn:E; [|discriminate|discriminate]. cbn [bind] in H.
    destruct (gstep_rel v w g o w1 z got Hv Hg E) as (g1 & Hg1 & Hd1 & Hs1).
    rewrite <- Hd1, <- Hs1 in H. apply (IH w1 g1 w' sp' del' Hg1 H).
Qed.

(* ---------- what the handler has received is a prefix of what was completed ---------- *)
Lemma split_frames_nz : forall X cur, nozero X = true -> split_frames cur X = ([], cur ++ X).
Proof.
  induction X as [|b X IH]; intros cur Hz; cbn [split_frames]; [rewrite app_nil_r; reflexivity|].
  rewrite EncProofs.nozero_cons in Hz. apply andb_prop in Hz. destruct Hz as [Hb Hz]. apply Bool.negb_true_iff in Hb.
  rewrite Hb, (IH _ Hz), <- app_assoc. reflexivity.
Qed.

(* the stream of a writer in the middle of a message: the frames of the completed messages
   followed by bytes without a delimiter *)
Lemma frames_prefix_open v sent P X delivered C rest :
  frames_of v sent P -> nozero X = true -> frames_of v delivered C -> P ++ X = C ++ rest ->
  delivered = firstn (length delivered) sent.
Proof.
  intros HP HX HC E.
  destruct (frames_split_prefix v sent P HP X) as (bodiesP & HbP & HspP).
  destruct (frames_split_prefix v delivered C HC rest) as (bodiesC & HbC & HspC).
  rewrite (split_frames_nz X [] HX) in HspP. cbn [app] in HspP. rewrite app_nil_r in HspP.
  rewrite <- E, HspP in HspC. destruct (split_frames [] rest) as [fs r]. inversion HspC; subst.
  apply (bodies_of_prefix v _ _ HbC _ _ HbP).
Qed.

Lemma enc_inv_stream v pre consumed st buf : enc_inv v pre consumed st buf ->
  exists X, buf = pre ++ X /\ nozero X = true.
Proof.
  intros [H0 Hd Hb Hc | bs open Hi Hd Hb].
  - exists []. rewrite app_nil_r. split; [exact Hb|reflexivity].
  - exists (flat bs ++ nb (escr st) :: open). split; [rewrite Hb, <- app_assoc; reflexivity|].
    destruct Hi as [Hbs Ho Hcode _ _]. rewrite EncProofs.nozero_app, (flat_nozero v bs Hbs). cbn [andb].
    rewrite EncProofs.nozero_cons, Ho, (bz_nb (escr st) ltac:(lia)). reflexivity.
Qed.

Lemma firstn_prefix_trans {A} (a b c : list A) : a = firstn (length a) b -> b = firstn (length b) c -> a = firstn (length a) c.
Proof.
  intros Ha Hb. rewrite Ha at 1. rewrite Hb at 1. rewrite firstn_firstn. f_equal.
  assert (length a <= length b) by (rewrite Ha, firstn_length; lia). lia.
Qed.

Theorem grel_prefix v w g : grel v w g -> g_del g = firstn (length (g_del g)) (wh_done (g_ws g)).
Proof.
  intros (Hw & He & (Hi & Est & Hd & Hsent & Hm) & _).
  destruct Hi as [Hh _]. unfold flat_of in Hh. rewrite Est in Hh. destruct Hh as (C & F & HfC & HI & _).
  cbn [hs_msgs hs_st hs_buf] in HfC, HI.
  assert (Hdel : g_del g = firstn (length (g_del g)) (rh_msgs (g_rs g))).
  { rewrite Hm. rewrite firstn_app, Nat.sub_diag, firstn_all. cbn [firstn]. rewrite app_nil_r. reflexivity. }
  apply (firstn_prefix_trans _ (rh_msgs (g_rs g)) _ Hdel).
  destruct Hw as [(Hlt & pre & Hfp & [_ Hinv])|(Hq & _ & _ & Hs0 & Hd0 & _)].
  - destruct (enc_inv_stream v _ _ _ _ Hinv) as (X & HX & Hz).
    apply (frames_prefix_open v _ pre X _ C (F ++ skipn (dcurr (dq_st (rh_d (g_rs g)))) (contents (dq_q (rh_d (g_rs g)))) ++ gwire w ++ contents (eq_q (wh_e (g_ws g)))) Hfp Hz HfC).
    rewrite <- HX, Hsent, HI, <- !app_assoc. reflexivity.
  - rewrite Hs0 in Hsent. symmetry in Hsent. apply app_eq_nil in Hsent. destruct Hsent as [Hin _].
    rewrite Hin in HI. symmetry in HI. apply app_eq_nil in HI. destruct HI as [HC _]. subst C.
    inversion HfC as [E1 E2|m ms body rest Hs Hz Hf E1 E2].
    + reflexivity.
    + exfalso. destruct body; discriminate.
Qed.

(* ---------- from the initial state ---------- *)
Definition g_init (wcap woff rcap roff : nat) : gh :=
  mkgh (mkwh (mkeq (ring_init wcap woff) (mke 0 0 0)) [] [] [])
       (mkrh (mkdq (ring_init rcap roff) (dinit 0)) [] false []) [].

Lemma g_init_rel v wcap woff rcap roff : grel v (gworld_init wcap woff rcap roff) (g_init wcap woff rcap roff).
Proof.
  unfold grel, g_init, gworld_init. cbn [g_ws g_rs g_del gw gr gwire wh_e]. split; [|split; [reflexivity|split]].
  3:{ unfold gapinv, dinit. cbn [dq_st dcode]. intros H; contradiction. }
  - unfold ring_init. destruct (Nat.eqb_spec wcap 0) as [->|Hc].
    + right. unfold wempty. cbn [wh_e wh_sent wh_done wh_cur eq_q eq_st repeat edone escr]. repeat split; reflexivity.
    + left. pose proof (wh_init_inv v (repeat FILL wcap) (woff mod wcap)) as H. unfold wh_init in H.
      rewrite repeat_length in H. apply H. apply Nat.mod_upper_bound. exact Hc.
  - unfold rrel. cbn [g_ws g_rs g_del gw gr gwire wh_sent rh_stop rh_d rh_in rh_msgs].
    split; [|repeat split; reflexivity].
    pose proof (rh_init_inv v (repeat FILL rcap) (if rcap =? 0 then 0 else roff mod rcap)) as H. unfold rh_init in H.
    rewrite repeat_length in H. apply H. destruct (Nat.eqb_spec rcap 0); [lia|].
    pose proof (Nat.mod_upper_bound roff rcap ltac:(assumption)). lia.
Qed.

(* MAIN: any history of glue operations from fresh streams (any ring capacities incl. none, any
   offsets, any kernel behaviour): the reader's decoder never reports a decoding error (its ring
   history never stops), and the messages handed to the handler so far are a prefix of the
   messages completed on the writer side, which are the ones the return values of
   mpt_stream_push say *)
Theorem glue_history_safe v wcap woff rcap roff ops w' sp' del' : variant_ok v ->
  gfold v (gworld_init wcap woff rcap roff) (mkgsp [] []) [] ops = Ok (w', sp', del') ->
  del' = firstn (length del') (sp_done sp') /\
  exists g', grel v w' g' /\ g_del g' = del' /\ wh_done (g_ws g') = sp_done sp' /\ rh_stop (g_rs g') = false.
Proof.
  intros Hv H.
  destruct (gfold_rel v Hv ops _ (g_init wcap woff rcap roff) w' sp' del' (g_init_rel v wcap woff rcap roff) H)
    as (g' & Hg' & Hd' & Hs').
  split.
  - rewrite <- Hd', <- Hs'. cbn [sp_of sp_done]. apply (grel_prefix v w' g' Hg').
  - exists g'. split; [exact Hg'|]. split; [exact Hd'|]. split; [rewrite <- Hs'; reflexivity|].
    destruct Hg' as (_ & _ & (_ & Est & _) & _). exact Est.
Qed.
