(* Cobs/GlueRun.v — mechanism-level model of the mptio stream glue around the two framed queues:
     mpt_stream_push     (mptio/stream/stream_push.c)   push loop, growth of the output ring by 256
     mpt_stream_flush    (mptio/stream/stream_flush.c)  writev of the finished bytes, crop
     mpt_stream_poll     (mptio/stream/stream_poll.c)   POLLIN fast path: shift, growth of a full
                                                        input ring by 64, mpt_queue_load (readv)
     mpt_stream_dispatch (mptio/stream/stream_dispatch.c) streamRecv (growth on MissingBuffer),
                                                        mpt_message_get, handler, look-ahead
   on top of the ring-level model of QueueCodec.v.  The kernel is an oracle: each flush/poll
   operation carries the number of bytes the (wrapped) writev/readv moves, 0 or a failure; the
   byte pipe between the two descriptors is the list [gwire].  Implementation and model are
   compared after every operation (return value, delivered message, both rings, both coder
   states, bytes in flight).  No proofs in this file. *)
From MptV Require Import Base.Mem C13.QueueModel Cobs.CobsModel Cobs.DecModel Cobs.QueueCodec Cobs.StreamSpec Cobs.StreamRun.
Local Open Scope nat_scope.

Record gworld := mkgw { gw : equeue; gr : dqueue; gwire : list byte }.

Inductive gop :=
| GPush (d : list byte)      (* mpt_stream_push(len > 0, data) *)
| GFin                       (* mpt_stream_push(0, 0) *)
| GFlush (k : Z)             (* mpt_stream_flush; writev moves min(k, offered) bytes, k = 0: returns 0, k < 0: fails *)
| GPoll (k : nat)            (* mpt_stream_poll(POLLIN, -1); readv moves min(k, in flight, free) bytes, 0: fails (EAGAIN) *)
| GDisp                      (* mpt_stream_dispatch with a handler that returns 0 *)
| GDrain.                    (* flush / poll / dispatch with unlimited transfers until nothing moves *)

(* mpt_stream_push *)
Fixpoint gpush_loop (fuel : nat) (v : variant) (e : equeue) (d : option (list byte)) (off total : nat)
  : res (Z * equeue) :=
  match fuel with
  | 0 => Fault
  | S fuel =>
    let arg := match d with Some l => Some (skipn off l) | None => None end in
    do '(r, e1) <- equeue_push v e arg;
    let fail (z : Z) := if total =? 0 then z else Z.of_nat total in
    match r with
    | EInt post =>
      match d with
      | None => Ok (Z.of_nat post, e1)
      | Some l =>
        if length l - off - post =? 0 then Ok (Z.of_nat (total + post), e1)
        else gpush_loop fuel v e1 d (off + post) (total + post)
      end
    | EErr MissingBuffer =>
      match qprepare (eq_q e1) 256 FILL with
      | Ok (q', _) => gpush_loop fuel v (mkeq q' (eq_st e1)) d off total
      | Err _ => Ok (fail (err_z BadOperation), e1)
      | Fault => Fault
      end
    | EErr er => Ok (fail (err_z er), e1)
    | EFault => Fault
    end
  end.

Definition gpush_fuel (d : option (list byte)) : nat :=
  match d with Some l => 4 * length l + 64 | None => 64 end.

(* mpt_stream_flush *)
Definition gflush (w : gworld) (k : Z) : res (Z * gworld * nat) :=
  let e := gw w in
  let st := eq_st e in
  let len := edone st in
  if len =? 0 then Ok (if qlen (eq_q e) =? 0 then 0%Z else 1%Z, w, 0) else
  match k with
  | Z0 => Ok (1%Z, w, 0)
  | Zneg _ => Ok ((-1)%Z, w, 0)
  | Zpos _ =>
    let n := Nat.min (Z.to_nat k) len in
    do bytes <- (match qget (eq_q e) 0 n with Ok l => Ok l | Err _ => Ok [] | Fault => Fault end);
    do q' <- (match qcrop (eq_q e) 0 n with Ok q' => Ok q' | Err _ => Ok (eq_q e) | Fault => Fault end);
    Ok (if qlen q' =? 0 then 0%Z else 1%Z,
        mkgw (mkeq q' (mke (ectx st) (edone st - n) (escr st))) (gr w) (gwire w ++ bytes), n)
  end.

(* mpt_stream_poll(srm, POLLIN, -1) on the reader *)
Definition gpoll (w : gworld) (k : nat) : res (Z * gworld * nat) :=
  do d1 <- dqueue_shift (gr w);
  let q := dq_q d1 in
  let none (q1 : queue) := Ok ((-3)%Z, mkgw (gw w) (mkdq q1 (dq_st d1)) (gwire w), 0) in
  do x <- (if qlen q =? qmax q then
             match qprepare q 64 FILL with Ok (q', _) => Ok (Some q') | Err _ => Ok None | Fault => Fault end
           else Ok (Some q));
  match x with
  | None => none q
  | Some q1 =>
    let n := Nat.min (Nat.min k (length (gwire w))) (qmax q1 - qlen q1) in
    if n =? 0 then none q1 else
    do q2 <- (match qpush q1 (firstn n (gwire w)) with Ok q' => Ok q' | Err _ => Ok q1 | Fault => Fault end);
    Ok (1%Z, mkgw (gw w) (mkdq q2 (dq_st d1)) (skipn n (gwire w)), n)
  end.

Definition rres_z (r : rres) : res Z :=
  match r with RMsg => Ok 1%Z | RMore => Ok 0%Z | RErr e => Ok (err_z e) | RFault => Fault end.

(* streamRecv of stream_dispatch.c: receive; while the decoder lacks scratch space enlarge the
   input ring by 64 and receive again (every such round consumes at least 47 bytes of the frame:
   ReaderLive.v, so the loop ends; the model gives it the length of the ring as fuel) *)
Fixpoint grecv_loop (fuel : nat) (v : variant) (r : rres) (d1 : dqueue) : res (Z * dqueue) :=
  match r with
  | RErr MissingBuffer =>
    match fuel with
    | 0 => Ok (err_z MissingBuffer, d1)
    | S fuel =>
      match qprepare (dq_q d1) 64 FILL with
      | Ok (q', _) => do '(r2, d2) <- dqueue_recv v (mkdq q' (dq_st d1)); grecv_loop fuel v r2 d2
      | Err _ => Ok (err_z MissingBuffer, d1)
      | Fault => Fault
      end
    end
  | _ => do z <- rres_z r; Ok (z, d1)
  end.

Definition grecv (v : variant) (d : dqueue) : res (Z * dqueue) :=
  do '(r, d1) <- dqueue_recv v d;
  grecv_loop (S (qlen (dq_q d))) v r d1.

Definition RETRY : Z := 65536%Z.

(* mpt_stream_dispatch; the handler takes the message and returns 0 *)
Definition gdisp (v : variant) (w : gworld) : res (Z * option (list byte) * gworld) :=
  let setr (d : dqueue) := mkgw (gw w) d (gwire w) in
  do x <- (match dmsg (dq_st (gr w)) with
           | None => do '(z, d0) <- grecv v (gr w); Ok (Some z, d0)
           | Some _ => Ok (None, gr w)
           end);
  let '(first, d0) := x in
  let go :=
    let m := dqueue_message d0 in
    do '(z2, d2) <- grecv v d0;
    Ok ((if (0 <? z2)%Z then RETRY else 0%Z), m, setr d2) in
  match first with
  | Some z => if (z <? 0)%Z then Ok (z, None, setr d0) else if (z =? 0)%Z then Ok (0%Z, None, setr d0) else go
  | None => go
  end.

(* dispatch while messages come out *)
Fixpoint gdisp_all (fuel : nat) (v : variant) (w : gworld) (got : list (list byte))
  : res (gworld * list (list byte)) :=
  match fuel with
  | 0 => Ok (w, got)
  | S fuel =>
    do '(z, m, w1) <- gdisp v w;
    match m with
    | Some x => gdisp_all fuel v w1 (got ++ [x])
    | None => Ok (w1, got)
    end
  end.

Fixpoint gdrain (fuel : nat) (v : variant) (w : gworld) (got : list (list byte))
  : res (gworld * list (list byte)) :=
  match fuel with
  | 0 => Ok (w, got)
  | S fuel =>
    do '(_, w1, n1) <- (if edone (eq_st (gw w)) =? 0 then Ok (0%Z, w, 0) else gflush w (Z.of_nat (edone (eq_st (gw w)))));
    do '(_, w2, n2) <- (match gwire w1 with [] => Ok (0%Z, w1, 0) | _ => gpoll w1 (length (gwire w1)) end);
    do '(w3, got3) <- gdisp_all (S (qlen (dq_q (gr w2)))) v w2 got;
    if (n1 =? 0) && (n2 =? 0) && (length got3 =? length got) then Ok (w3, got3)
    else gdrain fuel v w3 got3
  end.

Definition gdrain_fuel (w : gworld) : nat :=
  2 * (qlen (eq_q (gw w)) + length (gwire w) + qlen (dq_q (gr w))) + 8.

(* observation of one operation: return value, delivered messages, the mechanism state *)
Record gobs := mkgo { go_rc : Z; go_got : list (list byte); go_w : equeue; go_r : dqueue; go_wire : nat }.

Definition gstep (v : variant) (w : gworld) (o : gop) : res (gworld * Z * list (list byte)) :=
  match o with
  | GPush d =>
    match d with
    | [] => Ok (w, 0%Z, [])
    | _ => do '(z, e') <- gpush_loop (gpush_fuel (Some d)) v (gw w) (Some d) 0 0;
           Ok (mkgw e' (gr w) (gwire w), z, [])
    end
  | GFin => do '(z, e') <- gpush_loop (gpush_fuel None) v (gw w) None 0 0; Ok (mkgw e' (gr w) (gwire w), z, [])
  | GFlush k => do '(z, w', _) <- gflush w k; Ok (w', z, [])
  | GPoll k => do '(z, w', _) <- gpoll w k; Ok (w', z, [])
  | GDisp => do '(z, m, w') <- gdisp v w; Ok (w', z, match m with Some x => [x] | None => [] end)
  | GDrain => do '(w', got) <- gdrain (gdrain_fuel w) v w []; Ok (w', 0%Z, got)
  end.

Fixpoint grun (v : variant) (w : gworld) (ops : list gop) : list (option gobs) :=
  match ops with
  | [] => []
  | o :: ops =>
    match gstep v w o with
    | Ok (w', z, got) => Some (mkgo z got (gw w') (gr w') (length (gwire w'))) :: grun v w' ops
    | _ => [None]
    end
  end.

Definition gworld_init (wcap woff rcap roff : nat) : gworld :=
  mkgw (mkeq (ring_init wcap woff) (mke 0 0 0)) (mkdq (ring_init rcap roff) (dinit 0)) [].

(* the specification side: which messages were handed over completely *)
Definition gop_sop (o : gop) : sop :=
  match o with GPush d => SPart d | GFin => SFin | GDrain => SDrain | _ => SRecv end.
